/-
  Helper lemmas for the source tie of C15 (`Props/C15Src.lean`): the Lean definitions that `harness/py2lean.py`
  generates from `pybufrkit/dataquery.py` (`NodePath`, `NodePathParser`, regenerated on every check into
  `Gen/PyDataquery.lean`) against the hand-written model `Lang/PathParser.lean`.

  * `parseB bare`: the model's machine with the constructor parameter `bare_id_matches_all` made explicit (the
    model `parse` is the instance `bare = true`: `parseB_true`).
  * `int_agree`: Python's `int()` (`Py.intOfStr`: blanks, sign `+`, underscores, Unicode digits, the 4300-digit
    limit) and the model's `parseInt?` (`-`? digit+) agree on tokens of `srcPlain` non-blank characters with at most
    4300 digits.
  * one lemma per translated method (`convert_id_eq`, `create_slice_object_eq`, …, `handle_separator_sim`):
    the method = the model's function, under the representation relation `Rel` between the record of Python
    attributes and the model state `PS`.
  * `body_step`: one iteration of the translated `while` body; `loop_ok`: induction on the fuel.
-/
import BufrModel.Lang.PathParser
import BufrModel.Gen.PyDataquery
set_option linter.unusedSimpArgs false
set_option linter.unusedVariables false
namespace Bufr.PathLang
open PyGen.dataquery

/-! ### the model with `bare_id_matches_all` as a parameter -/

/-- `create_slice_object` for both values of `bare_id_matches_all` -/
def createSliceB (bare : Bool) (elems : List (Option Int)) : PR Slice :=
  match elems with
  | [] => .ok (if bare then .range none none none else .idx 0)
  | es => createSlice es

def addCompB (bare : Bool) (s : PS) : PR PS := do
  let slc ← createSliceB bare s.elems
  pure { s with elems := [], comps := s.comps ++ [{ sep := s.curSep, id := s.curId, slice := slc }] }

def handleSeparatorB (bare : Bool) (s : PS) (c : Char) : PR PS := do
  let s' ←
    (match s.st with
     | .startParsing =>
        if c != '.' then do
          let slc ← createSliceB bare s.elems
          pure { s with elems := [], subset := some slc, st := .startId }
        else .error .path
     | .startId => do
        let (i, s1) ← convertId s
        addCompB bare { s1 with curId := i }
     | .stopSubsetSlice =>
        if c == '.' then .error .path
        else do
          let slc ← createSliceB bare s.elems
          pure { s with elems := [], subset := some slc }
     | .stopSlice => addCompB bare s
     | _ => .error .path : PR PS)
  pure { s' with curSep := c, st := .startId }

def stepB (bare : Bool) (s : PS) (c : Char) : PR PS :=
  if isWs c then .ok s
  else if c == '@' then
    (if s.st == .startParsing then .ok { s with st := .startSubset } else .error .path)
  else if c == '[' then handleLeftBracket s
  else if c == ':' || c == ']' then handleColonOrRight s c
  else if isSep c then handleSeparatorB bare s c
  else
    match s.st with
    | .startId | .subsetSlice0 | .subsetSliceX | .slice0 | .sliceX => .ok { s with token := s.token ++ [c] }
    | .startParsing => do
        let s' ← handleSeparatorB bare s '>'
        pure { s' with token := s'.token ++ [c] }
    | _ => .error .path

def runB (bare : Bool) : PS → List Char → PR PS
  | s, [] => .ok s
  | s, c :: cs => match stepB bare s c with
    | .error e => .error e
    | .ok s' => runB bare s' cs

def finishB (bare : Bool) (s : PS) : PR Path :=
  match s.st with
  | .startId => do
      let (i, s1) ← convertId s
      let s2 ← addCompB bare { s1 with curId := i }
      pure { subset := s2.subset, comps := s2.comps }
  | .stopSlice => do
      let s2 ← addCompB bare s
      pure { subset := s2.subset, comps := s2.comps }
  | _ => .error .path

/-- `NodePathParser(bare_id_matches_all=bare).parse` -/
def parseB (bare : Bool) (input : List Char) : PR Path :=
  match input.filter (fun c => !isWs c) with
  | [] => .error .path
  | c :: _ =>
    if !firstOk c then .error .path
    else match runB bare {} input with
      | .error e => .error e
      | .ok s => finishB bare s

theorem createSliceB_true (elems : List (Option Int)) : createSliceB true elems = createSlice elems := by
  cases elems <;> simp [createSliceB, createSlice]

theorem addCompB_true (s : PS) : addCompB true s = addComp s := by
  simp [addCompB, addComp, createSliceB_true]

theorem handleSeparatorB_true (s : PS) (c : Char) : handleSeparatorB true s c = handleSeparator s c := by
  obtain ⟨st, a1, a2, a3, a4, a5, a6⟩ := s
  cases st <;> simp [handleSeparatorB, handleSeparator, createSliceB_true, addCompB_true]

theorem stepB_true (s : PS) (c : Char) : stepB true s c = step s c := by
  obtain ⟨st, a1, a2, a3, a4, a5, a6⟩ := s
  cases st <;> simp [stepB, step, handleSeparatorB_true]

theorem runB_true : ∀ (cs : List Char) (s : PS), runB true s cs = run s cs
  | [], s => rfl
  | c :: cs, s => by
    simp only [runB, run, stepB_true]
    cases step s c with
    | error e => rfl
    | ok s' => exact runB_true cs s'

theorem finishB_true (s : PS) : finishB true s = finish s := by
  obtain ⟨st, a1, a2, a3, a4, a5, a6⟩ := s
  cases st <;> simp [finishB, finish, addCompB_true]

/-- the model `parse` is the parser constructed with the default `bare_id_matches_all=True` -/
theorem parseB_true (input : List Char) : parseB true input = parse input := by
  unfold parseB parse
  simp only [runB_true]
  cases input.filter (fun c => !isWs c) with
  | nil => rfl
  | cons c t =>
    simp only
    cases hr : run {} input with
    | error e => rfl
    | ok s => simp only [finishB_true]


/-! ### `int()` against `parseInt?` -/

/-- a character on which Python's `int()` and the model's `parseInt?` cannot disagree: not `+`, not `_`, no blank of
    `str.isspace` that is not one of the six of `string.whitespace`, no decimal digit outside ASCII -/
def srcPlain (c : Char) : Bool :=
  c != '+' && c != '_' && (!Py.isSpaceChar c || isWs c) && ((Py.decimalDigit? c).isNone || isDigit c)

theorem isDigit_iff (c : Char) : isDigit c = true ↔ 48 ≤ c.toNat ∧ c.toNat ≤ 57 := by
  unfold isDigit
  rw [Bool.and_eq_true, decide_eq_true_eq, decide_eq_true_eq, Char.le_def, Char.le_def,
    UInt32.le_iff_toNat_le, UInt32.le_iff_toNat_le]
  rfl

theorem decimalDigit?_plain (c : Char) (h : srcPlain c = true) :
    Py.decimalDigit? c = if isDigit c then some (c.toNat - '0'.toNat) else none := by
  by_cases hd : isDigit c = true
  · have hb := (isDigit_iff c).1 hd
    simp [Py.decimalDigit?, hd, hb.1, hb.2]
  · simp only [srcPlain, Bool.and_eq_true, Bool.or_eq_true] at h
    have h4 := h.2
    simp only [hd, or_false, Bool.false_eq_true] at h4
    simp only [hd, Bool.false_eq_true, if_false]
    cases hx : Py.decimalDigit? c with
    | none => rfl
    | some d => rw [hx] at h4; simp at h4

theorem intIsSpace_plain (c : Char) (h : srcPlain c = true) (hw : isWs c = false) : Py.intIsSpace c = false := by
  simp only [srcPlain, Bool.and_eq_true, Bool.or_eq_true] at h
  have h3 := h.1.2
  simp only [hw, or_false, Bool.false_eq_true, Bool.not_eq_true'] at h3
  have hws : ∀ n : Nat, c.toNat = n → (9 ≤ n ∧ n ≤ 13 ∨ n = 32) → False := by
    intro n hn hr
    have : isWs c = true := by
      have hc : c = Char.ofNat n := by rw [← hn]; simp
      have hcases : n = 9 ∨ n = 10 ∨ n = 11 ∨ n = 12 ∨ n = 13 ∨ n = 32 := by omega
      rcases hcases with h | h | h | h | h | h <;> subst h <;> subst hc <;> decide
    rw [hw] at this; cases this
  cases hs : Py.intIsSpace c with
  | false => rfl
  | true =>
    exfalso
    simp only [Py.intIsSpace, Bool.or_eq_true, Bool.and_eq_true, decide_eq_true_eq, beq_iff_eq, h3] at hs
    rcases hs with (hs | hs) | hs
    · exact hws _ rfl (Or.inl hs)
    · exact hws _ rfl (Or.inr hs)
    · simp at hs

/-- a token the parser can have built from an input of `srcPlain` characters -/
def TokOk (tok : List Char) : Prop := ∀ c ∈ tok, srcPlain c = true ∧ isWs c = false

theorem dropWhile_none {α : Type} (p : α → Bool) : ∀ (l : List α), (∀ c ∈ l, p c = false) → l.dropWhile p = l
  | [], _ => rfl
  | c :: l, h => by simp [List.dropWhile, h c (by simp)]

theorem intDigits_plain : ∀ (ds : List Char), TokOk ds →
    Py.intDigits ds = if ds ≠ [] ∧ ds.all isDigit = true then some (ds.map (fun c => c.toNat - '0'.toNat)) else none
  | [], _ => by simp [Py.intDigits]
  | [c], h => by
    have hc := (h c (by simp)).1
    rw [Py.intDigits]
    by_cases hd : isDigit c = true <;> simp [decimalDigit?_plain c hc, hd]
  | c :: d :: r, h => by
    have hc := (h c (by simp)).1
    have hd' := (h d (by simp)).1
    have hne : d ≠ '_' := by
      intro e; subst e; revert hd'; decide
    have ih := intDigits_plain (d :: r) (fun x hx => h x (by simp [hx]))
    rw [Py.intDigits]
    by_cases hd : isDigit c = true
    · simp only [decimalDigit?_plain c hc, hd, if_true]
      rw [ih]
      by_cases hall : (d :: r).all isDigit = true
      · have hall' : (c :: d :: r).all isDigit = true := by
          simp only [List.all_cons, Bool.and_eq_true] at hall ⊢
          exact ⟨hd, hall⟩
        rw [if_pos ⟨by simp, hall⟩, if_pos ⟨by simp, hall'⟩]
        rfl
      · have hall' : ¬ ((c :: d :: r).all isDigit = true) := by
          intro h1; apply hall
          simp only [List.all_cons, Bool.and_eq_true] at h1 ⊢
          exact h1.2
        rw [if_neg (fun h => hall h.2), if_neg (fun h => hall' h.2)]
        rfl
    · have : ¬ ((c :: d :: r).all isDigit = true) := by
        intro h1; apply hd
        simp only [List.all_cons, Bool.and_eq_true] at h1
        exact h1.1
      simp only [decimalDigit?_plain c hc, hd, Bool.false_eq_true, if_false]
      rw [if_neg (fun h => this h.2)]

theorem foldl_digitsVal : ∀ (ds : List Char) (acc : Nat),
    (ds.map (fun c => c.toNat - '0'.toNat)).foldl (fun a d => 10 * a + d) acc = digitsVal ds acc
  | [], acc => rfl
  | c :: ds, acc => by
    simp only [List.map_cons, List.foldl_cons, digitsVal]
    exact foldl_digitsVal ds _

def digitCount (s : List Char) : Nat := (s.filter isDigit).length

theorem digitCount_all (ds : List Char) (h : ds.all isDigit = true) : digitCount ds = ds.length := by
  unfold digitCount
  rw [List.filter_eq_self.2]
  intro c hc
  exact List.all_eq_true.1 h c hc

/-- what the model's `int()` answers, as a Python result -/
def intResult (tok : List Char) : Except Py.Exc Int :=
  match parseInt? tok with
  | some i => .ok i
  | none => .error .valueError

theorem intOfBody_plain (ds : List Char) (neg : Bool) (hds : TokOk ds) (hcnt : digitCount ds ≤ 4300) :
    Py.intOfBody neg ds =
      (if ds ≠ [] ∧ ds.all isDigit = true then
         .ok (if neg then -(Int.ofNat (digitsVal ds 0)) else Int.ofNat (digitsVal ds 0))
       else .error .valueError) := by
  unfold Py.intOfBody
  rw [intDigits_plain ds hds]
  by_cases hc : ds ≠ [] ∧ ds.all isDigit = true
  · have hl : ¬ ds.length > Py.intMaxStrDigits := by
      have := digitCount_all ds hc.2
      simp only [Py.intMaxStrDigits]; omega
    rw [if_pos hc, if_pos hc]
    simp only [List.length_map, hl, if_false, foldl_digitsVal]
    rfl
  · rw [if_neg hc, if_neg hc]

/-- On a token of plain non-blank characters with at most 4300 digits Python's `int()` is the model's `parseInt?`. -/
theorem int_agree (tok : List Char) (h : TokOk tok) (hn : digitCount tok ≤ 4300) :
    Py.intOfStr tok = intResult tok := by
  have hsp : ∀ c ∈ tok, Py.intIsSpace c = false := fun c hc => intIsSpace_plain c (h c hc).1 (h c hc).2
  have hsp' : ∀ c ∈ tok.reverse, Py.intIsSpace c = false := fun c hc => hsp c (List.mem_reverse.1 hc)
  have hstrip : ((tok.dropWhile Py.intIsSpace).reverse.dropWhile Py.intIsSpace).reverse = tok := by
    rw [dropWhile_none _ tok hsp, dropWhile_none _ _ hsp', List.reverse_reverse]
  unfold Py.intOfStr intResult
  rw [hstrip]
  cases tok with
  | nil => simp [Py.intOfBody, Py.intDigits, parseInt?]
  | cons c r =>
    by_cases hm : c = '-'
    · subst hm
      have hr : TokOk r := fun x hx => h x (by simp [hx])
      have hcnt : digitCount r ≤ 4300 := by
        simpa [digitCount, List.filter_cons, show isDigit '-' = false by decide] using hn
      simp only [parseInt?, intOfBody_plain r true hr hcnt]
      by_cases hc : r ≠ [] ∧ r.all isDigit = true
      · rw [if_pos hc, if_pos hc]; rfl
      · rw [if_neg hc, if_neg hc]
    · have hp : c ≠ '+' := by
        intro e; subst e; have := (h '+' (by simp)).1; revert this; decide
      have e2 : parseInt? (c :: r) = if (c :: r) ≠ [] ∧ (c :: r).all isDigit = true
          then some (Int.ofNat (digitsVal (c :: r) 0)) else none := by
        unfold parseInt?
        split
        · rename_i heq; cases heq; exact absurd rfl hm
        · rfl
      rw [e2]
      split
      · rename_i heq; cases heq; exact absurd rfl hm
      · rename_i heq; cases heq; exact absurd rfl hp
      · rw [intOfBody_plain (c :: r) false h hn]
        by_cases hc : (c :: r) ≠ [] ∧ (c :: r).all isDigit = true
        · rw [if_pos hc, if_pos hc]; rfl
        · rw [if_neg hc, if_neg hc]


/-! ### the translated methods, one by one -/

/-- `PathExprParsingError` -/
def pe : Py.Exc := .raised "PathExprParsingError"

/-- the Python exception for an error of the model: `.path` is `PathExprParsingError`, `.other` the
    `AssertionError` of `create_slice_object` (no other error occurs: `C15_reject_is_path_error`) -/
def toExc : Err → Py.Exc
  | .other => .raised "AssertionError"
  | _ => pe

/-- the Python value of a slice of the model: an `int` or a `slice` object -/
def toPy : Slice → Py.IntOrSlice
  | .idx i => .int i
  | .range a b c => .slice a b c

/-- the `PathComponent` namedtuple of a component of the model -/
def compToPy (c : Comp) : PathComponent :=
  { separator := some [c.sep], id := some c.id, slice := some (toPy c.slice) }

theorem convert_id_eq (o : NodePathParser.Self) (tok : List Char) (h : o.current_token = some tok) :
    NodePathParser.convert_id o =
      if tok = [] then .error pe else .ok ({ o with current_token := some [] }, some tok) := by
  by_cases ht : tok = []
  · subst ht
    simp [NodePathParser.convert_id, h, bind, Except.bind, pure, Except.pure, pe]
  · simp [NodePathParser.convert_id, h, bind, Except.bind, pure, Except.pure, ht]

theorem convert_slice_element_eq (o : NodePathParser.Self) (tok : List Char) (h : o.current_token = some tok)
    (hok : TokOk tok) (hn : digitCount tok ≤ 4300) :
    NodePathParser.convert_slice_element o =
      if tok = [] then .ok ({ o with current_token := some [] }, none)
      else match parseInt? tok with
        | some i => .ok ({ o with current_token := some [] }, some i)
        | none => .error pe := by
  by_cases ht : tok = []
  · subst ht
    simp [NodePathParser.convert_slice_element, h, bind, Except.bind, pure, Except.pure, Py.tryExcept]
  · have hi := int_agree tok hok hn
    unfold intResult at hi
    cases hp : parseInt? tok with
    | none =>
      rw [hp] at hi
      simp [NodePathParser.convert_slice_element, h, bind, Except.bind, pure, Except.pure, Py.tryExcept, ht,
        Py.unwrap, hi, pe]
    | some i =>
      rw [hp] at hi
      simp [NodePathParser.convert_slice_element, h, bind, Except.bind, pure, Except.pure, Py.tryExcept, ht,
        Py.unwrap, hi]

/-- `create_slice_object` = the model's `createSliceB`, for every list of collected elements -/
theorem create_slice_object_eq (o : NodePathParser.Self) :
    NodePathParser.create_slice_object o =
      match createSliceB o.bare_id_matches_all o.current_slice_elements with
      | .ok slc => .ok ({ o with current_slice_elements := [] }, some (toPy slc))
      | .error e => .error (toExc e) := by
  obtain ⟨bare, pos, st, tok, cid, sep, elems, np⟩ := o
  match elems with
  | [] =>
    cases bare <;>
      simp [NodePathParser.create_slice_object, bind, Except.bind, pure, Except.pure, createSliceB, toPy]
  | [none] =>
    simp [NodePathParser.create_slice_object, bind, Except.bind, pure, Except.pure, createSliceB, createSlice,
      Py.getItemNat, toExc]
  | [some i] =>
    by_cases h0 : 0 ≤ i
    · simp [NodePathParser.create_slice_object, bind, Except.bind, pure, Except.pure, createSliceB, createSlice,
        Py.getItemNat, Py.unwrap, h0, toPy]
    · by_cases h1 : i = -1
      · subst h1
        simp [NodePathParser.create_slice_object, bind, Except.bind, pure, Except.pure, createSliceB, createSlice,
          Py.getItemNat, Py.unwrap, toPy]
      · simp [NodePathParser.create_slice_object, bind, Except.bind, pure, Except.pure, createSliceB, createSlice,
          Py.getItemNat, Py.unwrap, h0, h1, toPy]
  | [a, b] =>
    simp [NodePathParser.create_slice_object, bind, Except.bind, pure, Except.pure, createSliceB, createSlice,
      Py.sliceOfList, toPy]
  | [a, b, c] =>
    simp [NodePathParser.create_slice_object, bind, Except.bind, pure, Except.pure, createSliceB, createSlice,
      Py.sliceOfList, toPy]
  | a :: b :: c :: d :: r =>
    simp [NodePathParser.create_slice_object, bind, Except.bind, pure, Except.pure, createSliceB, createSlice,
      toExc, pe]

/-- the string tag the Python parser uses for a state of the model -/
def stateTag : PState → List Char
  | .startParsing => STATE_START_PARSING
  | .startSubset => STATE_START_SUBSET
  | .subsetSlice0 => STATE_START_SUBSET_SLICE_0
  | .subsetSliceX => STATE_START_SUBSET_SLICE_X
  | .stopSubsetSlice => STATE_STOP_SUBSET_SLICE
  | .startId => STATE_START_ID
  | .slice0 => STATE_START_SLICE_0
  | .sliceX => STATE_START_SLICE_X
  | .stopSlice => STATE_STOP_SLICE


def hasSep : PState → Bool
  | .startId | .slice0 | .sliceX | .stopSlice => true
  | _ => false

def hasId : PState → Bool
  | .slice0 | .sliceX | .stopSlice => true
  | _ => false

/-- the attributes of the Python parser (and of its `node_path`) represent the state `ps` of the model's machine while
    it parses `s`.  `current_separator` / `current_id` are `None` until the first separator / identifier: they are
    related only in the states in which the machine has set them. -/
structure Rel (bare : Bool) (s : List Char) (o : NodePathParser.Self) (ps : PS) : Prop where
  bare : o.bare_id_matches_all = bare
  st : o.current_state = some (stateTag ps.st)
  tok : o.current_token = some ps.token
  elems : o.current_slice_elements = ps.elems
  sep : hasSep ps.st = true → o.current_separator = some [ps.curSep]
  cid : hasId ps.st = true → o.current_id = some ps.curId
  subset : o.node_path.subset_slice = ps.subset.map toPy
  comps : o.node_path.components = ps.comps.map compToPy
  pstr : o.node_path.path_string = s
  tokOk : TokOk ps.token

/-- a translated handler against the model's: the same error, or a represented successor state at the same `pos` -/
def Sim (bare : Bool) (s : List Char) (pos : Int) (d : Nat) (r : PR PS)
    (g : Except Py.Exc (NodePathParser.Self × Unit)) : Prop :=
  match r with
  | .error e => g = .error (toExc e)
  | .ok ps' => ∃ o', g = .ok (o', ()) ∧ Rel bare s o' ps' ∧ o'.pos = pos ∧ digitCount ps'.token ≤ d

theorem add_new_path_component_eq (o : NodePathParser.Self) :
    NodePathParser.add_new_path_component o =
      match createSliceB o.bare_id_matches_all o.current_slice_elements with
      | .ok slc => .ok ({ o with current_slice_elements := [],
                                 node_path := { o.node_path with components := o.node_path.components ++
                                   [{ separator := o.current_separator, id := o.current_id, slice := some (toPy slc) }] } }, ())
      | .error e => .error (toExc e) := by
  simp only [NodePathParser.add_new_path_component, create_slice_object_eq, NodePath.add_component, bind, Except.bind,
    pure, Except.pure]
  cases createSliceB o.bare_id_matches_all o.current_slice_elements <;> rfl

theorem tokOk_nil : TokOk [] := fun _ h => by cases h

theorem handle_left_bracket_sim (bare : Bool) (s : List Char) (o : NodePathParser.Self) (ps : PS)
    (hr : Rel bare s o ps) :
    Sim bare s o.pos (digitCount ps.token) (handleLeftBracket ps) (NodePathParser.handle_left_bracket o) := by
  obtain ⟨b, pos, st, tok, cid, sep, elems, ⟨pstr, sub, comps⟩⟩ := o
  obtain ⟨pst, ptok, pelems, pid, psep, psub, pcomps⟩ := ps
  obtain ⟨h1, h2, h3, h4, h5, h6, h7, h8, h9, h10⟩ := hr
  simp only at h1 h2 h3 h4 h5 h6 h7 h8 h9 h10
  subst h1 h2 h3 h4 h7 h8 h9
  cases pst <;>
    simp [Sim, digitCount, handleLeftBracket, NodePathParser.handle_left_bracket, stateTag, STATE_START_SUBSET, STATE_START_ID,
      STATE_START_SUBSET_SLICE_0, STATE_START_SLICE_0, STATE_START_PARSING, STATE_START_SUBSET_SLICE_X,
      STATE_STOP_SUBSET_SLICE, STATE_START_SLICE_X, STATE_STOP_SLICE, toExc, pe, bind, Except.bind, pure, Except.pure]
  · constructor <;> simp_all [stateTag, STATE_START_SUBSET_SLICE_0, hasSep, hasId]
  · rw [convert_id_eq _ ptok rfl]
    by_cases ht : ptok = []
    · simp [ht, convertId, pe, toExc]
    · simp [ht, convertId]
      constructor <;> simp_all [stateTag, STATE_START_SLICE_0, hasSep, hasId, tokOk_nil]


theorem convert_slice_element_mk (b : Bool) (pos : Int) (st : Option (List Char)) (tok : List Char)
    (cid sep : Option (List Char)) (elems : List (Option Int)) (np : NodePath.Self)
    (hok : TokOk tok) (hn : digitCount tok ≤ 4300) :
    NodePathParser.convert_slice_element ⟨b, pos, st, some tok, cid, sep, elems, np⟩ =
      if tok = [] then .ok (⟨b, pos, st, some [], cid, sep, elems, np⟩, none)
      else match parseInt? tok with
        | some i => .ok (⟨b, pos, st, some [], cid, sep, elems, np⟩, some i)
        | none => .error pe :=
  convert_slice_element_eq _ tok rfl hok hn

theorem convert_id_mk (b : Bool) (pos : Int) (st : Option (List Char)) (tok : List Char)
    (cid sep : Option (List Char)) (elems : List (Option Int)) (np : NodePath.Self) :
    NodePathParser.convert_id ⟨b, pos, st, some tok, cid, sep, elems, np⟩ =
      if tok = [] then .error pe else .ok (⟨b, pos, st, some [], cid, sep, elems, np⟩, some tok) :=
  convert_id_eq _ tok rfl

local macro "tags" : term => `(term| True)

theorem handle_colon_sim (bare : Bool) (s : List Char) (o : NodePathParser.Self) (ps : PS) (c : Char)
    (hc : c = ':' ∨ c = ']') (hr : Rel bare s o ps) (hn : digitCount ps.token ≤ 4300) :
    Sim bare s o.pos (digitCount ps.token) (handleColonOrRight ps c) (NodePathParser.handle_colon_and_right_bracket o [c]) := by
  obtain ⟨b, pos, st, tok, cid, sep, elems, ⟨pstr, sub, comps⟩⟩ := o
  obtain ⟨pst, ptok, pelems, pid, psep, psub, pcomps⟩ := ps
  obtain ⟨h1, h2, h3, h4, h5, h6, h7, h8, h9, h10⟩ := hr
  simp only at h1 h2 h3 h4 h5 h6 h7 h8 h9 h10 hn
  subst h1 h2 h3 h4 h7 h8 h9
  have hmk := convert_slice_element_mk
  by_cases ht : ptok = []
  · subst ht
    rcases hc with hc | hc <;> subst hc <;> cases pst <;>
      simp [Sim, digitCount, handleColonOrRight, convertSliceElem, NodePathParser.handle_colon_and_right_bracket, stateTag,
        STATE_START_SUBSET, STATE_START_ID,
        STATE_START_SUBSET_SLICE_0, STATE_START_SLICE_0, STATE_START_PARSING, STATE_START_SUBSET_SLICE_X,
        STATE_STOP_SUBSET_SLICE, STATE_START_SLICE_X, STATE_STOP_SLICE, toExc, pe, bind, Except.bind, pure, Except.pure,
        convert_slice_element_mk _ _ _ _ _ _ _ _ h10 hn] <;>
      (constructor <;> simp_all [stateTag, STATE_START_SUBSET_SLICE_X, STATE_START_SLICE_X, STATE_STOP_SUBSET_SLICE,
        STATE_STOP_SLICE, hasSep, hasId, tokOk_nil])
  · cases hp : parseInt? ptok with
    | none =>
      rcases hc with hc | hc <;> subst hc <;> cases pst <;>
        simp [Sim, digitCount, handleColonOrRight, convertSliceElem, NodePathParser.handle_colon_and_right_bracket, stateTag,
          STATE_START_SUBSET, STATE_START_ID,
          STATE_START_SUBSET_SLICE_0, STATE_START_SLICE_0, STATE_START_PARSING, STATE_START_SUBSET_SLICE_X,
          STATE_STOP_SUBSET_SLICE, STATE_START_SLICE_X, STATE_STOP_SLICE, toExc, pe, bind, Except.bind, pure, Except.pure,
          convert_slice_element_mk _ _ _ _ _ _ _ _ h10 hn, ht, hp]
    | some i =>
      rcases hc with hc | hc <;> subst hc <;> cases pst <;>
        simp [Sim, digitCount, handleColonOrRight, convertSliceElem, NodePathParser.handle_colon_and_right_bracket, stateTag,
          STATE_START_SUBSET, STATE_START_ID,
          STATE_START_SUBSET_SLICE_0, STATE_START_SLICE_0, STATE_START_PARSING, STATE_START_SUBSET_SLICE_X,
          STATE_STOP_SUBSET_SLICE, STATE_START_SLICE_X, STATE_STOP_SLICE, toExc, pe, bind, Except.bind, pure, Except.pure,
          convert_slice_element_mk _ _ _ _ _ _ _ _ h10 hn, ht, hp] <;>
        (constructor <;> simp_all [stateTag, STATE_START_SUBSET_SLICE_X, STATE_START_SLICE_X, STATE_STOP_SUBSET_SLICE,
          STATE_STOP_SLICE, hasSep, hasId, tokOk_nil])


theorem handle_separator_sim (bare : Bool) (s : List Char) (o : NodePathParser.Self) (ps : PS) (c : Char)
    (hr : Rel bare s o ps) :
    Sim bare s o.pos (digitCount ps.token) (handleSeparatorB bare ps c) (NodePathParser.handle_separator o [c]) := by
  obtain ⟨b, pos, st, tok, cid, sep, elems, ⟨pstr, sub, comps⟩⟩ := o
  obtain ⟨pst, ptok, pelems, pid, psep, psub, pcomps⟩ := ps
  obtain ⟨h1, h2, h3, h4, h5, h6, h7, h8, h9, h10⟩ := hr
  simp only at h1 h2 h3 h4 h5 h6 h7 h8 h9 h10
  subst h1 h2 h3 h4 h7 h8 h9
  have hdot : ([c] = ['.']) ↔ c = '.' := by simp
  by_cases ht : ptok = [] <;> by_cases hd : c = '.' <;>
  cases hcs : createSliceB b elems <;> cases pst <;>
    simp [Sim, digitCount, handleSeparatorB, addCompB, convertId, NodePathParser.handle_separator, stateTag,
      STATE_START_SUBSET, STATE_START_ID, PATH_SEPARATOR_ATTRIB,
      STATE_START_SUBSET_SLICE_0, STATE_START_SLICE_0, STATE_START_PARSING, STATE_START_SUBSET_SLICE_X,
      STATE_STOP_SUBSET_SLICE, STATE_START_SLICE_X, STATE_STOP_SLICE, toExc, pe, bind, Except.bind, pure, Except.pure,
      convert_id_mk, create_slice_object_eq, add_new_path_component_eq, ht, hd, hcs] <;>
    (try (constructor <;> simp_all [stateTag, STATE_START_ID, hasSep, hasId, tokOk_nil, compToPy]))


/-! ### the loop -/
open PyGen.dataquery.NodePathParser.parse

theorem strContains_ws (c : Char) :
    Py.strContains [' ', '\t', '\n', '\r', (Char.ofNat 0xb), (Char.ofNat 0xc)] [c] = isWs c := by
  have e1 : Char.ofNat 0xb = '\x0b' := by decide
  have e2 : Char.ofNat 0xc = '\x0c' := by decide
  simp only [Py.strContains, List.isPrefixOf, isWs, List.isEmpty, Bool.and_true, Bool.or_false, e1, e2]
  simp only [Bool.or_assoc]

theorem strGetItem_ok {s : List Char} {n : Nat} {c : Char} (h : s[n]? = some c) :
    Py.strGetItem s (n : Int) = .ok [c] := by
  simp [Py.strGetItem, Py.strGetItemNat, h]

/-- what one iteration of the translated loop has to establish -/
def StepOk (bare : Bool) (s : List Char) (n : Nat) (ps : PS) (c : Char) (g : Except Py.Exc Locals) : Prop :=
  match stepB bare ps c with
  | .error e => g = .error (toExc e)
  | .ok ps' => ∃ v', g = .ok v' ∧ Rel bare s v'.self ps' ∧ v'.path_expr = s ∧ v'.self.pos = ((n + 1 : Nat) : Int) ∧
      digitCount ps'.token ≤ digitCount ps.token + (if isDigit c then 1 else 0)

theorem tokOk_snoc {tok : List Char} {c : Char} (h : TokOk tok) (hc : srcPlain c = true) (hw : isWs c = false) :
    TokOk (tok ++ [c]) := by
  intro x hx
  rcases List.mem_append.1 hx with hx | hx
  · exact h x hx
  · simp at hx; subst hx; exact ⟨hc, hw⟩

theorem digitCount_snoc (tok : List Char) (c : Char) :
    digitCount (tok ++ [c]) = digitCount tok + (if isDigit c then 1 else 0) := by
  unfold digitCount
  by_cases h : isDigit c = true <;> simp [List.filter_append, List.filter_cons, h]


theorem Rel.withPos {bare : Bool} {s : List Char} {o : NodePathParser.Self} {ps : PS} (h : Rel bare s o ps) (p : Int) :
    Rel bare s { o with pos := p } ps := by
  obtain ⟨h1, h2, h3, h4, h5, h6, h7, h8, h9, h10⟩ := h
  constructor <;> assumption

theorem Rel.snoc {bare : Bool} {s : List Char} {o : NodePathParser.Self} {ps : PS} (h : Rel bare s o ps) (c : Char)
    (hc : srcPlain c = true) (hw : isWs c = false) :
    Rel bare s { o with current_token := some (ps.token ++ [c]) } { ps with token := ps.token ++ [c] } := by
  obtain ⟨h1, h2, h3, h4, h5, h6, h7, h8, h9, h10⟩ := h
  constructor <;> (try assumption)
  · rfl
  · exact tokOk_snoc h10 hc hw

/-- one iteration of the translated `while` body against the model's `stepB` -/
theorem body_step (bare : Bool) (s : List Char) (v : Locals) (ps : PS) (n : Nat) (c : Char)
    (hr : Rel bare s v.self ps) (hpe : v.path_expr = s) (hn : v.self.pos = (n : Int)) (hget : s[n]? = some c)
    (hc : srcPlain c = true) (hd : digitCount ps.token ≤ 4300) :
    StepOk bare s n ps c (while_1.body v) := by
  obtain ⟨o, pexpr, pes, c0⟩ := v
  simp only at hr hpe hn
  subst hpe
  have hg := strGetItem_ok hget
  rw [← hn] at hg
  have hpos : o.pos + (Int.ofNat 1) = ((n + 1 : Nat) : Int) := by rw [hn]; simp
  unfold StepOk
  by_cases hw : isWs c = true
  · -- a blank: skipped
    have hb : while_1.body ⟨o, pexpr, pes, c0⟩ = .ok ⟨{ o with pos := o.pos + Int.ofNat 1 }, pexpr, pes, [c]⟩ := by
      simp [while_1.body, bind, Except.bind, pure, Except.pure, hg, strContains_ws, hw]
    have hm : stepB bare ps c = .ok ps := by simp [stepB, hw]
    rw [hb, hm]
    exact ⟨_, rfl, hr.withPos _, rfl, hpos, by omega⟩
  have hw' : isWs c = false := by simpa using hw
  by_cases h1 : c = '@'
  · subst h1
    have hst := hr.st
    by_cases hsp : ps.st = .startParsing
    · have hb : while_1.body ⟨o, pexpr, pes, c0⟩ =
          .ok ⟨{ o with current_state := some STATE_START_SUBSET, pos := o.pos + Int.ofNat 1 }, pexpr, pes, ['@']⟩ := by
        simp [while_1.body, bind, Except.bind, pure, Except.pure, hg, strContains_ws, isWs, hst, hsp, stateTag]
      have hm : stepB bare ps '@' = .ok { ps with st := .startSubset } := by simp [stepB, isWs, hsp]
      rw [hb, hm]
      refine ⟨_, rfl, ?_, rfl, hpos, by simp [isDigit]⟩
      obtain ⟨k1, k2, k3, k4, k5, k6, k7, k8, k9, k10⟩ := hr
      constructor <;> (try assumption) <;> simp_all [stateTag, hasSep, hasId]
    · have hb : while_1.body ⟨o, pexpr, pes, c0⟩ = .error pe := by
        have : ¬ (stateTag ps.st = STATE_START_PARSING) := by
          revert hsp; cases ps.st <;> decide
        simp [while_1.body, bind, Except.bind, pure, Except.pure, hg, strContains_ws, isWs, hst, this, pe]
      have hm : stepB bare ps '@' = .error .path := by
        simp [stepB, isWs, hsp]
      rw [hb, hm]; rfl
  by_cases h2 : c = '['
  · subst h2
    have hs := handle_left_bracket_sim bare pexpr o ps hr
    have hm0 : stepB bare ps '[' = handleLeftBracket ps := by simp [stepB, isWs]
    rw [hm0]
    cases hm : handleLeftBracket ps with
    | error e =>
      rw [hm] at hs; simp only [Sim] at hs
      simp [while_1.body, bind, Except.bind, pure, Except.pure, hg, strContains_ws, isWs, hs]
    | ok ps' =>
      rw [hm] at hs; obtain ⟨o', hgo, hr', hp, hdc⟩ := hs
      have hb : while_1.body ⟨o, pexpr, pes, c0⟩ = .ok ⟨{ o' with pos := o'.pos + Int.ofNat 1 }, pexpr, pes, ['[']⟩ := by
        simp [while_1.body, bind, Except.bind, pure, Except.pure, hg, strContains_ws, isWs, hgo]
      rw [hb]
      exact ⟨_, rfl, hr'.withPos _, rfl, by rw [hp]; exact hpos, by omega⟩
  by_cases h3 : c = ':' ∨ c = ']'
  · have hs := handle_colon_sim bare pexpr o ps c h3 hr hd
    have hm0 : stepB bare ps c = handleColonOrRight ps c := by
      rcases h3 with h | h <;> subst h <;> simp [stepB, isWs]
    rw [hm0]
    cases hm : handleColonOrRight ps c with
    | error e =>
      rw [hm] at hs; simp only [Sim] at hs
      simp [while_1.body, bind, Except.bind, pure, Except.pure, hg, strContains_ws, hw', h1, h2, h3, hs]
    | ok ps' =>
      rw [hm] at hs; obtain ⟨o', hgo, hr', hp, hdc⟩ := hs
      have hb : while_1.body ⟨o, pexpr, pes, c0⟩ = .ok ⟨{ o' with pos := o'.pos + Int.ofNat 1 }, pexpr, pes, [c]⟩ := by
        simp [while_1.body, bind, Except.bind, pure, Except.pure, hg, strContains_ws, hw', h1, h2, h3, hgo]
      rw [hb]
      exact ⟨_, rfl, hr'.withPos _, rfl, by rw [hp]; exact hpos, by omega⟩
  have h3a : c ≠ ':' := fun h => h3 (Or.inl h)
  have h3b : c ≠ ']' := fun h => h3 (Or.inr h)
  by_cases h4 : isSep c = true
  · have hs := handle_separator_sim bare pexpr o ps c hr
    have h4s : (c = '/' ∨ c = '.') ∨ c = '>' := by simpa [isSep] using h4
    have hm0 : stepB bare ps c = handleSeparatorB bare ps c := by
      simp [stepB, hw', h1, h2, h3a, h3b, h4]
    rw [hm0]
    cases hm : handleSeparatorB bare ps c with
    | error e =>
      rw [hm] at hs; simp only [Sim] at hs
      simp [while_1.body, bind, Except.bind, pure, Except.pure, hg, strContains_ws, hw', h1, h2, h3a, h3b, h4s, hs,
        PATH_SEPARATOR_CHILD, PATH_SEPARATOR_ATTRIB, PATH_SEPARATOR_DESCEND]
    | ok ps' =>
      rw [hm] at hs; obtain ⟨o', hgo, hr', hp, hdc⟩ := hs
      have hb : while_1.body ⟨o, pexpr, pes, c0⟩ = .ok ⟨{ o' with pos := o'.pos + Int.ofNat 1 }, pexpr, pes, [c]⟩ := by
        simp [while_1.body, bind, Except.bind, pure, Except.pure, hg, strContains_ws, hw', h1, h2, h3a, h3b, h4s, hgo,
          PATH_SEPARATOR_CHILD, PATH_SEPARATOR_ATTRIB, PATH_SEPARATOR_DESCEND]
      rw [hb]
      exact ⟨_, rfl, hr'.withPos _, rfl, by rw [hp]; exact hpos, by omega⟩
  · -- an ordinary character
    have h4' : isSep c = false := by simpa using h4
    have h4s : ¬ ((c = '/' ∨ c = '.') ∨ c = '>') := by simpa [isSep] using h4
    have hst := hr.st
    have htok := hr.tok
    have hdn := digitCount_snoc ps.token c
    by_cases hacc : ps.st = .startId ∨ ps.st = .subsetSlice0 ∨ ps.st = .subsetSliceX ∨ ps.st = .slice0 ∨ ps.st = .sliceX
    · have hb : while_1.body ⟨o, pexpr, pes, c0⟩ =
          .ok ⟨{ o with current_token := some (ps.token ++ [c]), pos := o.pos + Int.ofNat 1 }, pexpr, pes, [c]⟩ := by
        rcases hacc with h | h | h | h | h <;>
          simp [while_1.body, bind, Except.bind, pure, Except.pure, hg, strContains_ws, hw', h1, h2, h3a, h3b, h4s,
            PATH_SEPARATOR_CHILD, PATH_SEPARATOR_ATTRIB, PATH_SEPARATOR_DESCEND, hst, htok, h, stateTag, Py.unwrap,
            STATE_START_SUBSET, STATE_START_ID, STATE_START_SUBSET_SLICE_0, STATE_START_SLICE_0,
            STATE_START_PARSING, STATE_START_SUBSET_SLICE_X, STATE_STOP_SUBSET_SLICE, STATE_START_SLICE_X,
            STATE_STOP_SLICE]
      have hm : stepB bare ps c = .ok { ps with token := ps.token ++ [c] } := by
        rcases hacc with h | h | h | h | h <;> simp [stepB, hw', h1, h2, h3a, h3b, h4', h]
      rw [hb, hm]
      exact ⟨_, rfl, (hr.snoc c hc hw').withPos _, rfl, hpos, by show digitCount (ps.token ++ [c]) ≤ _; omega⟩
    by_cases hsp : ps.st = .startParsing
    · have hsd := handle_separator_sim bare pexpr o ps '>' hr
      have hm0 : stepB bare ps c = (do
          let s' ← handleSeparatorB bare ps '>'
          pure { s' with token := s'.token ++ [c] }) := by
        simp [stepB, hw', h1, h2, h3a, h3b, h4', hsp]
      rw [hm0]
      cases hm : handleSeparatorB bare ps '>' with
      | error e =>
        rw [hm] at hsd; simp only [Sim] at hsd
        simp [while_1.body, bind, Except.bind, pure, Except.pure, hg, strContains_ws, hw', h1, h2, h3a, h3b, h4s,
          PATH_SEPARATOR_CHILD, PATH_SEPARATOR_ATTRIB, hst, hsp, stateTag,
          STATE_START_SUBSET, STATE_START_ID, STATE_START_SUBSET_SLICE_0, STATE_START_SLICE_0,
          STATE_START_PARSING, STATE_START_SUBSET_SLICE_X, STATE_STOP_SUBSET_SLICE, STATE_START_SLICE_X,
          STATE_STOP_SLICE, hsd, show PATH_SEPARATOR_DESCEND = ['>'] from rfl]
      | ok ps' =>
        rw [hm] at hsd; obtain ⟨o', hgo, hr', hp, hdc⟩ := hsd
        have htok' := hr'.tok
        have hb : while_1.body ⟨o, pexpr, pes, c0⟩ =
            .ok ⟨{ o' with current_token := some (ps'.token ++ [c]), pos := o'.pos + Int.ofNat 1 }, pexpr, pes, [c]⟩ := by
          simp [while_1.body, bind, Except.bind, pure, Except.pure, hg, strContains_ws, hw', h1, h2, h3a, h3b, h4s,
            PATH_SEPARATOR_CHILD, PATH_SEPARATOR_ATTRIB, hst, hsp, stateTag,
            STATE_START_SUBSET, STATE_START_ID, STATE_START_SUBSET_SLICE_0, STATE_START_SLICE_0,
            STATE_START_PARSING, STATE_START_SUBSET_SLICE_X, STATE_STOP_SUBSET_SLICE, STATE_START_SLICE_X,
            STATE_STOP_SLICE, hgo, htok', Py.unwrap, show PATH_SEPARATOR_DESCEND = ['>'] from rfl]
        rw [hb]
        simp only [bind, Except.bind, pure, Except.pure]
        have hdn' := digitCount_snoc ps'.token c
        exact ⟨_, rfl, (hr'.snoc c hc hw').withPos _, rfl, by rw [hp]; exact hpos, by show digitCount (ps'.token ++ [c]) ≤ _; omega⟩
    · have hb : while_1.body ⟨o, pexpr, pes, c0⟩ = .error pe := by
        have hne : ¬ (stateTag ps.st = STATE_START_ID) ∧ ¬ (stateTag ps.st = STATE_START_SUBSET_SLICE_0) ∧
            ¬ (stateTag ps.st = STATE_START_SUBSET_SLICE_X) ∧ ¬ (stateTag ps.st = STATE_START_SLICE_0) ∧
            ¬ (stateTag ps.st = STATE_START_SLICE_X) ∧ ¬ (stateTag ps.st = STATE_START_PARSING) := by
          revert hacc hsp; cases ps.st <;> decide
        simp [while_1.body, bind, Except.bind, pure, Except.pure, hg, strContains_ws, hw', h1, h2, h3a, h3b, h4s,
          PATH_SEPARATOR_CHILD, PATH_SEPARATOR_ATTRIB, PATH_SEPARATOR_DESCEND, hst, hne, pe]
      have hm : stepB bare ps c = .error .path := by
        revert hacc hsp
        cases hps : ps.st <;> simp [stepB, hw', h1, h2, h3a, h3b, h4', hps]
      rw [hb, hm]; rfl


theorem digitCount_cons (c : Char) (r : List Char) :
    digitCount (c :: r) = (if isDigit c then 1 else 0) + digitCount r := by
  unfold digitCount
  by_cases h : isDigit c = true <;> simp [List.filter_cons, h]; omega

/-- the translated loop, started in a state that represents `ps` at index `n`, ends within its fuel exactly as the
    model's `runB` does on the rest of the input: with the same error, or in a state that represents the result -/
theorem loop_ok (bare : Bool) (s : List Char) (hs : ∀ c ∈ s, srcPlain c = true) :
    ∀ (fuel : Nat) (v : Locals) (ps : PS) (n : Nat),
    Rel bare s v.self ps → v.path_expr = s → v.self.pos = (n : Int) → n ≤ s.length → s.length - n < fuel →
    digitCount ps.token + digitCount (s.drop n) ≤ 4300 →
    match runB bare ps (s.drop n) with
    | .error e => while_1.loop fuel v = .error (toExc e)
    | .ok ps' => ∃ v', while_1.loop fuel v = .ok v' ∧ Rel bare s v'.self ps' ∧ v'.path_expr = s := by
  intro fuel
  induction fuel with
  | zero => intro v ps n _ _ _ _ h; omega
  | succ fuel ih =>
    intro v ps n hr hpe hn hle hf hdc
    by_cases hlt : n < s.length
    · have hd : s.drop n = s[n] :: s.drop (n + 1) := List.drop_eq_getElem_cons hlt
      have hget : s[n]? = some s[n] := List.getElem?_eq_getElem hlt
      have hcs : srcPlain s[n] = true := hs _ (List.getElem_mem hlt)
      rw [hd, digitCount_cons] at hdc
      have hstep := body_step bare s v ps n s[n] hr hpe hn hget hcs (by omega)
      have hcond : while_1.cond v = true := by
        simp [while_1.cond, hn, hpe, hlt]
      rw [hd]
      simp only [runB]
      unfold StepOk at hstep
      cases hm : stepB bare ps s[n] with
      | error e =>
        rw [hm] at hstep
        simp [while_1.loop, hcond, hstep]
      | ok ps1 =>
        rw [hm] at hstep
        obtain ⟨v1, hb, hr1, hpe1, hn1, hdc1⟩ := hstep
        have := ih v1 ps1 (n + 1) hr1 hpe1 hn1 (by omega) (by omega) (by omega)
        simp only [while_1.loop, hcond, hb, if_true]
        exact this
    · have hn' : n = s.length := by omega
      have hcond : while_1.cond v = false := by
        simp [while_1.cond, hn, hpe, hn']
      subst hn'
      simp only [List.drop_length, runB]
      exact ⟨v, by simp [while_1.loop, hcond], hr, hpe⟩


/-! ### the whole of `parse` -/

theorem dropWhile_head_filter {α : Type} (p : α → Bool) :
    ∀ l : List α, (l.dropWhile p).head? = (l.filter (fun x => !p x)).head?
  | [] => rfl
  | a :: l => by
    by_cases h : p a = true
    · simp [List.dropWhile, List.filter, h, dropWhile_head_filter p l]
    · simp [List.dropWhile, List.filter, h]

theorem dropWhile_snoc {α : Type} (p : α → Bool) (c : α) (h : p c = false) :
    ∀ l : List α, ∃ l', (l ++ [c]).dropWhile p = l' ++ [c]
  | [] => ⟨[], by simp [List.dropWhile, h]⟩
  | a :: l => by
    by_cases ha : p a = true
    · obtain ⟨l', hl⟩ := dropWhile_snoc p c h l
      exact ⟨l', by simp [List.dropWhile, ha, hl]⟩
    · exact ⟨a :: l, by simp [List.dropWhile, ha]⟩

theorem dropWhile_cons_head {α : Type} (p : α → Bool) :
    ∀ (l : List α) (c : α) (r : List α), l.dropWhile p = c :: r → p c = false
  | [], _, _, h => by cases h
  | a :: l, c, r, h => by
    by_cases ha : p a = true
    · simp only [List.dropWhile, ha] at h
      exact dropWhile_cons_head p l c r h
    · simp only [List.dropWhile, ha] at h
      cases h
      simpa using ha

theorem rstrip_head {α : Type} (p : α → Bool) (c : α) (r : List α) (h : p c = false) :
    (((c :: r).reverse.dropWhile p).reverse).head? = some c := by
  obtain ⟨l', hl⟩ := dropWhile_snoc p c h r.reverse
  simp [List.reverse_cons, hl]

/-- on an input whose `str.isspace` characters are all among the six of `string.whitespace`, the first character of
    `path_expr.strip()` is the first non-blank character -/
theorem strip_head (s : List Char) (hs : ∀ c ∈ s, srcPlain c = true) :
    (Py.strip s).head? = (s.filter (fun c => !isWs c)).head? := by
  have hsp : ∀ c ∈ s, Py.isSpaceChar c = isWs c := by
    intro c hc
    have h := hs c hc
    simp only [srcPlain, Bool.and_eq_true, Bool.or_eq_true] at h
    have h3 := h.1.2
    cases hw : isWs c with
    | true =>
      have : c = ' ' ∨ c = '\t' ∨ c = '\n' ∨ c = '\r' ∨ c = '\x0b' ∨ c = '\x0c' := by
        simpa [isWs, or_assoc] using hw
      rcases this with h | h | h | h | h | h <;> subst h <;> decide
    | false => simpa [hw] using h3
  have hf : s.filter (fun c => !isWs c) = s.filter (fun c => !Py.isSpaceChar c) :=
    List.filter_congr (fun c hc => by rw [hsp c hc])
  rw [hf, ← dropWhile_head_filter]
  unfold Py.strip Py.rstrip Py.lstrip
  cases hd : s.dropWhile Py.isSpaceChar with
  | nil => rfl
  | cons c r =>
    have hc : Py.isSpaceChar c = false := dropWhile_cons_head _ s c r hd
    rw [rstrip_head Py.isSpaceChar c r hc]
    rfl

theorem char_toNat_inj (a b : Char) : a = b ↔ a.toNat = b.toNat :=
  ⟨fun h => by rw [h], fun h => Char.ext (UInt32.toNat_inj.1 h)⟩

theorem strContains_first (c : Char) :
    Py.strContains ['@', '/', '>', '0', '1', '2', '3', '4', '5', '6', '7', '8', '9', 'A', 'B', 'C', 'D', 'E', 'F', 'G',
      'H', 'I', 'J', 'K', 'L', 'M', 'N', 'O', 'P', 'Q', 'R', 'S', 'T', 'U', 'V', 'W', 'X', 'Y', 'Z'] [c] = firstOk c := by
  rw [Bool.eq_iff_iff]
  simp only [Py.strContains, List.isPrefixOf, List.isEmpty, Bool.and_true, Bool.or_false, Bool.or_eq_true, beq_iff_eq,
    firstOk, isDigit_iff, Bool.and_eq_true, decide_eq_true_eq, Char.le_def, UInt32.le_iff_toNat_le, char_toNat_inj]
  have e : ∀ d : Char, d.val.toNat = d.toNat := fun _ => rfl
  simp only [e]
  have k : ∀ d : Char, d.toNat = d.toNat := fun _ => rfl
  simp only [show ('@' : Char).toNat = 64 from rfl, show ('/' : Char).toNat = 47 from rfl, show ('>' : Char).toNat = 62 from rfl,
    show ('0' : Char).toNat = 48 from rfl, show ('1' : Char).toNat = 49 from rfl, show ('2' : Char).toNat = 50 from rfl,
    show ('3' : Char).toNat = 51 from rfl, show ('4' : Char).toNat = 52 from rfl, show ('5' : Char).toNat = 53 from rfl,
    show ('6' : Char).toNat = 54 from rfl, show ('7' : Char).toNat = 55 from rfl, show ('8' : Char).toNat = 56 from rfl,
    show ('9' : Char).toNat = 57 from rfl, show ('A' : Char).toNat = 65 from rfl, show ('B' : Char).toNat = 66 from rfl,
    show ('C' : Char).toNat = 67 from rfl, show ('D' : Char).toNat = 68 from rfl, show ('E' : Char).toNat = 69 from rfl,
    show ('F' : Char).toNat = 70 from rfl, show ('G' : Char).toNat = 71 from rfl, show ('H' : Char).toNat = 72 from rfl,
    show ('I' : Char).toNat = 73 from rfl, show ('J' : Char).toNat = 74 from rfl, show ('K' : Char).toNat = 75 from rfl,
    show ('L' : Char).toNat = 76 from rfl, show ('M' : Char).toNat = 77 from rfl, show ('N' : Char).toNat = 78 from rfl,
    show ('O' : Char).toNat = 79 from rfl, show ('P' : Char).toNat = 80 from rfl, show ('Q' : Char).toNat = 81 from rfl,
    show ('R' : Char).toNat = 82 from rfl, show ('S' : Char).toNat = 83 from rfl, show ('T' : Char).toNat = 84 from rfl,
    show ('U' : Char).toNat = 85 from rfl, show ('V' : Char).toNat = 86 from rfl, show ('W' : Char).toNat = 87 from rfl,
    show ('X' : Char).toNat = 88 from rfl, show ('Y' : Char).toNat = 89 from rfl, show ('Z' : Char).toNat = 90 from rfl]
  omega


/-- the `NodePath` object for a path of the model parsed from the string `s` -/
def pathToPy (s : List Char) (p : Path) : NodePath.Self :=
  { path_string := s, subset_slice := p.subset.map toPy, components := p.comps.map compToPy }

/-- the Python outcome for an outcome of the model -/
def resultToPy (s : List Char) : PR Path → Except Py.Exc NodePath.Self
  | .ok p => .ok (pathToPy s p)
  | .error e => .error (toExc e)

/-- The inputs on which the translated source and the model are proved equal: every character is `srcPlain`
    (no `+`, no `_`, no blank outside `string.whitespace`, no non-ASCII decimal digit) and the string has at most
    4300 ASCII digits (`sys.get_int_max_str_digits()`).  Decidable. -/
def SrcDomain (s : List Char) : Prop := (∀ c ∈ s, srcPlain c = true) ∧ digitCount s ≤ 4300

instance (s : List Char) : Decidable (SrcDomain s) := by unfold SrcDomain; exact inferInstance

theorem parse_src (o : NodePathParser.Self) (s : List Char) (hd : SrcDomain s) :
    Prod.snd <$> NodePathParser.parse o s = resultToPy s (parseB o.bare_id_matches_all s) := by
  obtain ⟨hs, hdc⟩ := hd
  have hh := strip_head s hs
  unfold parseB
  cases hf : s.filter (fun c => !isWs c) with
  | nil =>
    rw [hf] at hh
    have hst : Py.strip s = [] := by
      cases h : Py.strip s with
      | nil => rfl
      | cons a b => rw [h] at hh; cases hh
    simp [NodePathParser.parse, bind, Except.bind, pure, Except.pure, hst, resultToPy, toExc, pe, Functor.map, Except.map]
  | cons c t =>
    rw [hf] at hh
    obtain ⟨t', hst⟩ : ∃ t', Py.strip s = c :: t' := by
      cases h : Py.strip s with
      | nil => rw [h] at hh; cases hh
      | cons a b => rw [h] at hh; simp at hh; exact ⟨b, by rw [hh]⟩
    by_cases hfo : firstOk c = true
    · let o1 : NodePathParser.Self :=
        { bare_id_matches_all := o.bare_id_matches_all, pos := Int.ofNat 0, current_state := some STATE_START_PARSING,
          current_token := some [], current_id := none, current_separator := none, current_slice_elements := [],
          node_path := NodePath.__init__ s }
      have hr : Rel o.bare_id_matches_all s o1 {} := by
        constructor <;> simp [o1, stateTag, hasSep, hasId, NodePath.__init__, tokOk_nil]
      have hl := loop_ok o.bare_id_matches_all s hs (s.length + 1) ⟨o1, s, c :: t', []⟩ {} 0 hr rfl rfl
        (by omega) (by omega) (by simpa [digitCount] using hdc)
      simp only [List.drop_zero] at hl
      simp only [hfo, Bool.not_true, Bool.false_eq_true, if_false]
      cases hrun : runB o.bare_id_matches_all {} s with
      | error e =>
        rw [hrun] at hl
        simp [NodePathParser.parse, bind, Except.bind, pure, Except.pure, hst, resultToPy, Functor.map, Except.map,
          strContains_first, hfo, Py.strGetItemNat, NodePathParser.reset, o1] at hl ⊢
        simp [hl]
      | ok ps' =>
        rw [hrun] at hl
        obtain ⟨v', hlv, hr', hpe'⟩ := hl
        simp [NodePathParser.parse, bind, Except.bind, pure, Except.pure, hst, resultToPy, Functor.map, Except.map,
          strContains_first, hfo, Py.strGetItemNat, NodePathParser.reset, o1] at hlv ⊢
        simp only [hlv]
        obtain ⟨⟨b, pos, st, tok, cid, sep, elems, ⟨pstr, sub, comps⟩⟩, pexpr, pes, c0⟩ := v'
        obtain ⟨pst, ptok, pelems, pid, psep, psub, pcomps⟩ := ps'
        obtain ⟨g1, g2, g3, g4, g5, g6, g7, g8, g9, g10⟩ := hr'
        simp only at g1 g2 g3 g4 g5 g6 g7 g8 g9 g10
        subst g2 g3 g4 g7 g8 g9
        rw [← g1]
        clear hlv hrun hr o1 g1
        cases ptok <;> cases hcs : createSliceB b elems <;> cases pst <;>
          simp [finishB, addCompB, convertId, convert_id_mk, add_new_path_component_eq, stateTag,
            STATE_START_SUBSET, STATE_START_ID, STATE_START_SUBSET_SLICE_0, STATE_START_SLICE_0,
            STATE_START_PARSING, STATE_START_SUBSET_SLICE_X, STATE_STOP_SUBSET_SLICE, STATE_START_SLICE_X,
            STATE_STOP_SLICE, hcs, pathToPy, toExc, pe, Py.unwrap, compToPy, bind, Except.bind, pure, Except.pure] <;>
          simp_all [hasSep, hasId, compToPy]
    · have hfo' : firstOk c = false := by simpa using hfo
      simp [NodePathParser.parse, bind, Except.bind, pure, Except.pure, hst, resultToPy, toExc, pe, Functor.map,
        Except.map, strContains_first, hfo', Py.strGetItemNat]

end Bufr.PathLang
