/-
  Helper lemmas for the source tie of C15 (`Props/C15Src.lean`): the Lean definitions that `harness/py2lean.py`
  generates from `pybufrkit/dataquery.py` (`NodePath`, `NodePathParser`, regenerated on every check into
  `Gen/PyDataquery.lean`) against the hand-written model `Lang/PathParser.lean`.

  * `parseB bare`: the model's machine with the constructor parameter `bare_id_matches_all` made explicit (the
    model `parse` is the instance `bare = true`: `parseB_true`).
  * `int_agree`: Python's `int()` (`Py.intOfStr`: blanks, sign `+`, underscores, Unicode digits, the 4300-digit
    limit) and the model's `parseInt?` (`-`? digit+) agree on tokens of `srcPlain` non-blank characters with at most
    4300 digits.
  * one lemma per translated method (`convert_id_eq`, `create_slice_object_eq`, …, `handle_separator_sim`):
    the method = the model's function, under the representation relation `Rel` between the record of Python
    attributes and the model state `PS`.
  * `body_step`: one iteration of the translated `while` body; `loop_ok`: induction on the fuel.
-/
import BufrModel.Lang.PathParser
import BufrModel.Gen.PyDataquery
set_option linter.unusedSimpArgs false
set_option linter.unusedVariables false
namespace Bufr.PathLang
open PyGen.dataquery

/-! ### the model with `bare_id_matches_all` as a parameter -/

/-- `create_slice_object` for both values of `bare_id_matches_all` -/
def createSliceB (bare : Bool) (elems : List (Option Int)) : PR Slice :=
  match elems with
  | [] => .ok (if bare then .range none none none else .idx 0)
  | es => createSlice es

def addCompB (bare : Bool) (s : PS) : PR PS := do
  let slc ← createSliceB bare s.elems
  pure { s with elems := [], comps := s.comps ++ [{ sep := s.curSep, id := s.curId, slice := slc }] }

def handleSeparatorB (bare : Bool) (s : PS) (c : Char) : PR PS := do
  let s' ←
    (match s.st with
     | .startParsing =>
        if c != '.' then do
          let slc ← createSliceB bare s.elems
          pure { s with elems := [], subset := some slc, st := .startId }
        else .error .path
     | .startId => do
        let (i, s1) ← convertId s
        addCompB bare { s1 with curId := i }
     | .stopSubsetSlice =>
        if c == '.' then .error .path
        else do
          let slc ← createSliceB bare s.elems
          pure { s with elems := [], subset := some slc }
     | .stopSlice => addCompB bare s
     | _ => .error .path : PR PS)
  pure { s' with curSep := c, st := .startId }

def stepB (bare : Bool) (s : PS) (c : Char) : PR PS :=
  if isWs c then .ok s
  else if c == '@' then
    (if s.st == .startParsing then .ok { s with st := .startSubset } else .error .path)
  else if c == '[' then handleLeftBracket s
  else if c == ':' || c == ']' then handleColonOrRight s c
  else if isSep c then handleSeparatorB bare s c
  else
    match s.st with
    | .startId | .subsetSlice0 | .subsetSliceX | .slice0 | .sliceX => .ok { s with token := s.token ++ [c] }
    | .startParsing => do
        let s' ← handleSeparatorB bare s '>'
        pure { s' with token := s'.token ++ [c] }
    | _ => .error .path

def runB (bare : Bool) : PS → List Char → PR PS
  | s, [] => .ok s
  | s, c :: cs => match stepB bare s c with
    | .error e => .error e
    | .ok s' => runB bare s' cs

def finishB (bare : Bool) (s : PS) : PR Path :=
  match s.st with
  | .startId => do
      let (i, s1) ← convertId s
      let s2 ← addCompB bare { s1 with curId := i }
      pure { subset := s2.subset, comps := s2.comps }
  | .stopSlice => do
      let s2 ← addCompB bare s
      pure { subset := s2.subset, comps := s2.comps }
  | _ => .error .path

/-- `NodePathParser(bare_id_matches_all=bare).parse` -/
def parseB (bare : Bool) (input : List Char) : PR Path :=
  match input.filter (fun c => !isWs c) with
  | [] => .error .path
  | c :: _ =>
    if !firstOk c then .error .path
    else match runB bare {} input with
      | .error e => .error e
      | .ok s => finishB bare s

theorem createSliceB_true (elems : List (Option Int)) : createSliceB true elems = createSlice elems := by
  cases elems <;> simp [createSliceB, createSlice]

theorem addCompB_true (s : PS) : addCompB true s = addComp s := by
  simp [addCompB, addComp, createSliceB_true]

theorem handleSeparatorB_true (s : PS) (c : Char) : handleSeparatorB true s c = handleSeparator s c := by
  obtain ⟨st, a1, a2, a3, a4, a5, a6⟩ := s
  cases st <;> simp [handleSeparatorB, handleSeparator, createSliceB_true, addCompB_true]

theorem stepB_true (s : PS) (c : Char) : stepB true s c = step s c := by
  obtain ⟨st, a1, a2, a3, a4, a5, a6⟩ := s
  cases st <;> simp [stepB, step, handleSeparatorB_true]

theorem runB_true : ∀ (cs : List Char) (s : PS), runB true s cs = run s cs
  | [], s => rfl
  | c :: cs, s => by
    simp only [runB, run, stepB_true]
    cases step s c with
    | error e => rfl
    | ok s' => exact runB_true cs s'

theorem finishB_true (s : PS) : finishB true s = finish s := by
  obtain ⟨st, a1, a2, a3, a4, a5, a6⟩ := s
  cases st <;> simp [finishB, finish, addCompB_true]

/-- the model `parse` is the parser constructed with the default `bare_id_matches_all=True` -/
theorem parseB_true (input : List Char) : parseB true input = parse input := by
  unfold parseB parse
  simp only [runB_true]
  cases input.filter (fun c => !isWs c) with
  | nil => rfl
  | cons c t =>
    simp only
    cases hr : run {} input with
    | error e => rfl
    | ok s => simp only [finishB_true]


/-! ### `int()` against `parseInt?` -/

/-- a character on which Python's `int()` and the model's `parseInt?` cannot disagree: not `+`, not `_`, no blank of
    `str.isspace` that is not one of the six of `string.whitespace`, no decimal digit outside ASCII -/
def srcPlain (c : Char) : Bool :=
  c != '+' && c != '_' && (!Py.isSpaceChar c || isWs c) && ((Py.decimalDigit? c).isNone || isDigit c)

theorem isDigit_iff (c : Char) : isDigit c = true ↔ 48 ≤ c.toNat ∧ c.toNat ≤ 57 := by
  unfold isDigit
  rw [Bool.and_eq_true, decide_eq_true_eq, decide_eq_true_eq, Char.le_def, Char.le_def,
    UInt32.le_iff_toNat_le, UInt32.le_iff_toNat_le]
  rfl

theorem decimalDigit?_plain (c : Char) (h : srcPlain c = true) :
    Py.decimalDigit? c = if isDigit c then some (c.toNat - '0'.toNat) else none := by
  by_cases hd : isDigit c = true
  · have hb := (isDigit_iff c).1 hd
    simp [Py.decimalDigit?, hd, hb.1, hb.2]
  · simp only [srcPlain, Bool.and_eq_true, Bool.or_eq_true] at h
    have h4 := h.2
    simp only [hd, or_false, Bool.false_eq_true] at h4
    simp only [hd, Bool.false_eq_true, if_false]
    cases hx : Py.decimalDigit? c with
    | none => rfl
    | some d => rw [hx] at h4; simp at h4

theorem intIsSpace_plain (c : Char) (h : srcPlain c = true) (hw : isWs c = false) : Py.intIsSpace c = false := by
  simp only [srcPlain, Bool.and_eq_true, Bool.or_eq_true] at h
  have h3 := h.1.2
  simp only [hw, or_false, Bool.false_eq_true, Bool.not_eq_true'] at h3
  have hws : ∀ n : Nat, c.toNat = n → (9 ≤ n ∧ n ≤ 13 ∨ n = 32) → False := by
    intro n hn hr
    have : isWs c = true := by
      have hc : c = Char.ofNat n := by rw [← hn]; simp
      have hcases : n = 9 ∨ n = 10 ∨ n = 11 ∨ n = 12 ∨ n = 13 ∨ n = 32 := by omega
      rcases hcases with h | h | h | h | h | h <;> subst h <;> subst hc <;> decide
    rw [hw] at this; cases this
  cases hs : Py.intIsSpace c with
  | false => rfl
  | true =>
    exfalso
    simp only [Py.intIsSpace, Bool.or_eq_true, Bool.and_eq_true, decide_eq_true_eq, beq_iff_eq, h3] at hs
    rcases hs with (hs | hs) | hs
    · exact hws _ rfl (Or.inl hs)
    · exact hws _ rfl (Or.inr hs)
    · simp at hs

/-- a token the parser can have built from an input of `srcPlain` characters -/
def TokOk (tok : List Char) : Prop := ∀ c ∈ tok, srcPlain c = true ∧ isWs c = false

theorem dropWhile_none {α : Type} (p : α → Bool) : ∀ (l : List α), (∀ c ∈ l, p c = false) → l.dropWhile p = l
  | [], _ => rfl
  | c :: l, h => by simp [List.dropWhile, h c (by simp)]

theorem intDigits_plain : ∀ (ds : List Char), TokOk ds →
    Py.intDigits ds = if ds ≠ [] ∧ ds.all isDigit = true then some (ds.map (fun c => c.toNat - '0'.toNat)) else none
  | [], _ => by simp [Py.intDigits]
  | [c], h => by
    have hc := (h c (by simp)).1
    rw [Py.intDigits]
    by_cases hd : isDigit c = true <;> simp [decimalDigit?_plain c hc, hd]
  | c :: d :: r, h => by
    have hc := (h c (by simp)).1
    have hd' := (h d (by simp)).1
    have hne : d ≠ '_' := by
      intro e; subst e; revert hd'; decide
    have ih := intDigits_plain (d :: r) (fun x hx => h x (by simp [hx]))
    rw [Py.intDigits]
    by_cases hd : isDigit c = true
    · simp only [decimalDigit?_plain c hc, hd, if_true]
      rw [ih]
      by_cases hall : (d :: r).all isDigit = true
      · have hall' : (c :: d :: r).all isDigit = true := by
          simp only [List.all_cons, Bool.and_eq_true] at hall ⊢
          exact ⟨hd, hall⟩
        rw [if_pos ⟨by simp, hall⟩, if_pos ⟨by simp, hall'⟩]
        rfl
      · have hall' : ¬ ((c :: d :: r).all isDigit = true) := by
          intro h1; apply hall
          simp only [List.all_cons, Bool.and_eq_true] at h1 ⊢
          exact h1.2
        rw [if_neg (fun h => hall h.2), if_neg (fun h => hall' h.2)]
        rfl
    · have : ¬ ((c :: d :: r).all isDigit = true) := by
        intro h1; apply hd
        simp only [List.all_cons, Bool.and_eq_true] at h1
        exact h1.1
      simp only [decimalDigit?_plain c hc, hd, Bool.false_eq_true, if_false]
      rw [if_neg (fun h => this h.2)]

theorem foldl_digitsVal : ∀ (ds : List Char) (acc : Nat),
    (ds.map (fun c => c.toNat - '0'.toNat)).foldl (fun a d => 10 * a + d) acc = digitsVal ds acc
  | [], acc => rfl
  | c :: ds, acc => by
    simp only [List.map_cons, List.foldl_cons, digitsVal]
    exact foldl_digitsVal ds _

def digitCount (s : List Char) : Nat := (s.filter isDigit).length

theorem digitCount_all (ds : List Char) (h : ds.all isDigit = true) : digitCount ds = ds.length := by
  unfold digitCount
  rw [List.filter_eq_self.2]
  intro c hc
  exact List.all_eq_true.1 h c hc

/-- what the model's `int()` answers, as a Python result -/
def intResult (tok : List Char) : Except Py.Exc Int :=
  match parseInt? tok with
  | some i => .ok i
  | none => .error .valueError

theorem intOfBody_plain (ds : List Char) (neg : Bool) (hds : TokOk ds) (hcnt : digitCount ds ≤ 4300) :
    Py.intOfBody neg ds =
      (if ds ≠ [] ∧ ds.all isDigit = true then
         .ok (if neg then -(Int.ofNat (digitsVal ds 0)) else Int.ofNat (digitsVal ds 0))
       else .error .valueError) := by
  unfold Py.intOfBody
  rw [intDigits_plain ds hds]
  by_cases hc : ds ≠ [] ∧ ds.all isDigit = true
  · have hl : ¬ ds.length > Py.intMaxStrDigits := by
      have := digitCount_all ds hc.2
      simp only [Py.intMaxStrDigits]; omega
    rw [if_pos hc, if_pos hc]
    simp only [List.length_map, hl, if_false, foldl_digitsVal]
    rfl
  · rw [if_neg hc, if_neg hc]

/-- On a token of plain non-blank characters with at most 4300 digits Python's `int()` is the model's `parseInt?`. -/
theorem int_agree (tok : List Char) (h : TokOk tok) (hn : digitCount tok ≤ 4300) :
    Py.intOfStr tok = intResult tok := by
  have hsp : ∀ c ∈ tok, Py.intIsSpace c = false := fun c hc => intIsSpace_plain c (h c hc).1 (h c hc).2
  have hsp' : ∀ c ∈ tok.reverse, Py.intIsSpace c = false := fun c hc => hsp c (List.mem_reverse.1 hc)
  have hstrip : ((tok.dropWhile Py.intIsSpace).reverse.dropWhile Py.intIsSpace).reverse = tok := by
    rw [dropWhile_none _ tok hsp, dropWhile_none _ _ hsp', List.reverse_reverse]
  unfold Py.intOfStr intResult
  rw [hstrip]
  cases tok with
  | nil => simp [Py.intOfBody, Py.intDigits, parseInt?]
  | cons c r =>
    by_cases hm : c = '-'
    · subst hm
      have hr : TokOk r := fun x hx => h x (by simp [hx])
      have hcnt : digitCount r ≤ 4300 := by
        simpa [digitCount, List.filter_cons, show isDigit '-' = false by decide] using hn
      simp only [parseInt?, intOfBody_plain r true hr hcnt]
      by_cases hc : r ≠ [] ∧ r.all isDigit = true
      · rw [if_pos hc, if_pos hc]; rfl
      · rw [if_neg hc, if_neg hc]
    · have hp : c ≠ '+' := by
        intro e; subst e; have := (h '+' (by simp)).1; revert this; decide
      have e2 : parseInt? (c :: r) = if (c :: r) ≠ [] ∧ (c :: r).all isDigit = true
          then some (Int.ofNat (digitsVal (c :: r) 0)) else none := by
        unfold parseInt?
        split
        · rename_i heq; cases heq; exact absurd rfl hm
        · rfl
      rw [e2]
      split
      · rename_i heq; cases heq; exact absurd rfl hm
      · rename_i heq; cases heq; exact absurd rfl hp
      · rw [intOfBody_plain (c :: r) false h hn]
        by_cases hc : (c :: r) ≠ [] ∧ (c :: r).all isDigit = true
        · rw [if_pos hc, if_pos hc]; rfl
        · rw [if_neg hc, if_neg hc]


/-! ### the translated methods, one by one -/

/-- `PathExprParsingError` -/
def pe : Py.Exc := .raised "PathExprParsingError"

/-- the Python exception for an error of the model: `.path` is `PathExprParsingError`, `.other` the
    `AssertionError` of `create_slice_object` (no other error occurs: `C15_reject_is_path_error`) -/
def toExc : Err → Py.Exc
  | .other => .raised "AssertionError"
  | _ => pe

/-- the Python value of a slice of the model: an `int` or a `slice` object -/
def toPy : Slice → Py.IntOrSlice
  | .idx i => .int i
  | .range a b c => .slice a b c

/-- the `PathComponent` namedtuple of a component of the model -/
def compToPy (c : Comp) : PathComponent :=
  { separator := some [c.sep], id := some c.id, slice := some (toPy c.slice) }

theorem convert_id_eq (o : NodePathParser.Self) (tok : List Char) (h : o.current_token = some tok) :
    NodePathParser.convert_id o =
      if tok = [] then .error pe else .ok ({ o with current_token := some [] }, some tok) := by
  by_cases ht : tok = []
  · subst ht
    simp [NodePathParser.convert_id, h, bind, Except.bind, pure, Except.pure, pe]
  · simp [NodePathParser.convert_id, h, bind, Except.bind, pure, Except.pure, ht]

theorem convert_slice_element_eq (o : NodePathParser.Self) (tok : List Char) (h : o.current_token = some tok)
    (hok : TokOk tok) (hn : digitCount tok ≤ 4300) :
    NodePathParser.convert_slice_element o =
      if tok = [] then .ok ({ o with current_token := some [] }, none)
      else match parseInt? tok with
        | some i => .ok ({ o with current_token := some [] }, some i)
        | none => .error pe := by
  by_cases ht : tok = []
  · subst ht
    simp [NodePathParser.convert_slice_element, h, bind, Except.bind, pure, Except.pure, Py.tryExcept]
  · have hi := int_agree tok hok hn
    unfold intResult at hi
    cases hp : parseInt? tok with
    | none =>
      rw [hp] at hi
      simp [NodePathParser.convert_slice_element, h, bind, Except.bind, pure, Except.pure, Py.tryExcept, ht,
        Py.unwrap, hi, pe]
    | some i =>
      rw [hp] at hi
      simp [NodePathParser.convert_slice_element, h, bind, Except.bind, pure, Except.pure, Py.tryExcept, ht,
        Py.unwrap, hi]

/-- `create_slice_object` = the model's `createSliceB`, for every list of collected elements -/
theorem create_slice_object_eq (o : NodePathParser.Self) :
    NodePathParser.create_slice_object o =
      match createSliceB o.bare_id_matches_all o.current_slice_elements with
      | .ok slc => .ok ({ o with current_slice_elements := [] }, some (toPy slc))
      | .error e => .error (toExc e) := by
  obtain ⟨bare, pos, st, tok, cid, sep, elems, np⟩ := o
  match elems with
  | [] =>
    cases bare <;>
      simp [NodePathParser.create_slice_object, bind, Except.bind, pure, Except.pure, createSliceB, toPy]
  | [none] =>
    simp [NodePathParser.create_slice_object, bind, Except.bind, pure, Except.pure, createSliceB, createSlice,
      Py.getItemNat, toExc]
  | [some i] =>
    by_cases h0 : 0 ≤ i
    · simp [NodePathParser.create_slice_object, bind, Except.bind, pure, Except.pure, createSliceB, createSlice,
        Py.getItemNat, Py.unwrap, h0, toPy]
    · by_cases h1 : i = -1
      · subst h1
        simp [NodePathParser.create_slice_object, bind, Except.bind, pure, Except.pure, createSliceB, createSlice,
          Py.getItemNat, Py.unwrap, toPy]
      · simp [NodePathParser.create_slice_object, bind, Except.bind, pure, Except.pure, createSliceB, createSlice,
          Py.getItemNat, Py.unwrap, h0, h1, toPy]
  | [a, b] =>
    simp [NodePathParser.create_slice_object, bind, Except.bind, pure, Except.pure, createSliceB, createSlice,
      Py.sliceOfList, toPy]
  | [a, b, c] =>
    simp [NodePathParser.create_slice_object, bind, Except.bind, pure, Except.pure, createSliceB, createSlice,
      Py.sliceOfList, toPy]
  | a :: b :: c :: d :: r =>
    simp [NodePathParser.create_slice_object, bind, Except.bind, pure, Except.pure, createSliceB, createSlice,
      toExc, pe]

/-- the string tag the Python parser uses for a state of the model -/
def stateTag : PState → List Char
  | .startParsing => STATE_START_PARSING
  | .startSubset => STATE_START_SUBSET
  | .subsetSlice0 => STATE_START_SUBSET_SLICE_0
  | .subsetSliceX => STATE_START_SUBSET_SLICE_X
  | .stopSubsetSlice => STATE_STOP_SUBSET_SLICE
  | .startId => STATE_START_ID
  | .slice0 => STATE_START_SLICE_0
  | .sliceX => STATE_START_SLICE_X
  | .stopSlice => STATE_STOP_SLICE


def hasSep : PState → Bool
  | .startId | .slice0 | .sliceX | .stopSlice => true
  | _ => false

def hasId : PState → Bool
  | .slice0 | .sliceX | .stopSlice => true
  | _ => false

/-- the attributes of the Python parser (and of its `node_path`) represent the state `ps` of the model's machine while
    it parses `s`.  `current_separator` / `current_id` are `None` until the first separator / identifier: they are
    related only in the states in which the machine has set them. -/
structure Rel (bare : Bool) (s : List Char) (o : NodePathParser.Self) (ps : PS) : Prop where
  bare : o.bare_id_matches_all = bare
  st : o.current_state = some (stateTag ps.st)
  tok : o.current_token = some ps.token
  elems : o.current_slice_elements = ps.elems
  sep : hasSep ps.st = true → o.current_separator = some [ps.curSep]
  cid : hasId ps.st = true → o.current_id = some ps.curId
  subset : o.node_path.subset_slice = ps.subset.map toPy
  comps : o.node_path.components = ps.comps.map compToPy
  pstr : o.node_path.path_string = s
  tokOk : TokOk ps.token

/-- a translated handler against the model's: the same error, or a represented successor state at the same `pos` -/
def Sim (bare : Bool) (s : List Char) (pos : Int) (d : Nat) (r : PR PS)
    (g : Except Py.Exc (NodePathParser.Self × Unit)) : Prop :=
  match r with
  | .error e => g = .error (toExc e)
  | .ok ps' => ∃ o', g = .ok (o', ()) ∧ Rel bare s o' ps' ∧ o'.pos = pos ∧ digitCount ps'.token ≤ d

theorem add_new_path_component_eq (o : NodePathParser.Self) :
    NodePathParser.add_new_path_component o =
      match createSliceB o.bare_id_matches_all o.current_slice_elements with
      | .ok slc => .ok ({ o with current_slice_elements := [],
                                 node_path := { o.node_path with components := o.node_path.components ++
                                   [{ separator := o.current_separator, id := o.current_id, slice := some (toPy slc) }] } }, ())
      | .error e => .error (toExc e) := by
  simp only [NodePathParser.add_new_path_component, create_slice_object_eq, NodePath.add_component, bind, Except.bind,
    pure, Except.pure]
  cases createSliceB o.bare_id_matches_all o.current_slice_elements <;> rfl

theorem tokOk_nil : TokOk [] := fun _ h => by cases h

theorem handle_left_bracket_sim (bare : Bool) (s : List Char) (o : NodePathParser.Self) (ps : PS)
    (hr : Rel bare s o ps) :
    Sim bare s o.pos (digitCount ps.token) (handleLeftBracket ps) (NodePathParser.handle_left_bracket o) := by
  obtain ⟨b, pos, st, tok, cid, sep, elems, ⟨pstr, sub, comps⟩⟩ := o
  obtain ⟨pst, ptok, pelems, pid, psep, psub, pcomps⟩ := ps
  obtain ⟨h1, h2, h3, h4, h5, h6, h7, h8, h9, h10⟩ := hr
  simp only at h1 h2 h3 h4 h5 h6 h7 h8 h9 h10
  subst h1 h2 h3 h4 h7 h8 h9
  cases pst <;>
    simp [Sim, digitCount, handleLeftBracket, NodePathParser.handle_left_bracket, stateTag, STATE_START_SUBSET, STATE_START_ID,
      STATE_START_SUBSET_SLICE_0, STATE_START_SLICE_0, STATE_START_PARSING, STATE_START_SUBSET_SLICE_X,
      STATE_STOP_SUBSET_SLICE, STATE_START_SLICE_X, STATE_STOP_SLICE, toExc, pe, bind, Except.bind, pure, Except.pure]
  · constructor <;> simp_all [stateTag, STATE_START_SUBSET_SLICE_0, hasSep, hasId]
  · rw [convert_id_eq _ ptok rfl]
    by_cases ht : ptok = []
    · simp [ht, convertId, pe, toExc]
    · simp [ht, convertId]
      constructor <;> simp_all [stateTag, STATE_START_SLICE_0, hasSep, hasId, tokOk_nil]


theorem convert_slice_element_mk (b : Bool) (pos : Int) (st : Option (List Char)) (tok : List Char)
    (cid sep : Option (List Char)) (elems : List (Option Int)) (np : NodePath.Self)
    (hok : TokOk tok) (hn : digitCount tok ≤ 4300) :
    NodePathParser.convert_slice_element ⟨b, pos, st, some tok, cid, sep, elems, np⟩ =
      if tok = [] then .ok (⟨b, pos, st, some [], cid, sep, elems, np⟩, none)
      else match parseInt? tok with
        | some i => .ok (⟨b, pos, st, some [], cid, sep, elems, np⟩, some i)
        | none => .error pe :=
  convert_slice_element_eq _ tok rfl hok hn

theorem convert_id_mk (b : Bool) (pos : Int) (st : Option (List Char)) (tok : List Char)
    (cid sep : Option (List Char)) (elems : List (Option Int)) (np : NodePath.Self) :
    NodePathParser.convert_id ⟨b, pos, st, some tok, cid, sep, elems, np⟩ =
      if tok = [] then .error pe else .ok (⟨b, pos, st, some [], cid, sep, elems, np⟩, some tok) :=
  convert_id_eq _ tok rfl

local macro "tags" : term => `(term| True)

theorem handle_colon_sim (bare : Bool) (s : List Char) (o : NodePathParser.Self) (ps : PS) (c : Char)
    (hc : c = ':' ∨ c = ']') (hr : Rel bare s o ps) (hn : digitCount ps.token ≤ 4300) :
    Sim bare s o.pos (digitCount ps.token) (handleColonOrRight ps c) (NodePathParser.handle_colon_and_right_bracket o [c]) := by
  obtain ⟨b, pos, st, tok, cid, sep, elems, ⟨pstr, sub, comps⟩⟩ := o
  obtain ⟨pst, ptok, pelems, pid, psep, psub, pcomps⟩ := ps
  obtain ⟨h1, h2, h3, h4, h5, h6, h7, h8, h9, h10⟩ := hr
  simp only at h1 h2 h3 h4 h5 h6 h7 h8 h9 h10 hn
  subst h1 h2 h3 h4 h7 h8 h9
  have hmk := convert_slice_element_mk
  by_cases ht : ptok = []
  · subst ht
    rcases hc with hc | hc <;> subst hc <;> cases pst <;>
      simp [Sim, digitCount, handleColonOrRight, convertSliceElem, NodePathParser.handle_colon_and_right_bracket, stateTag,
        STATE_START_SUBSET, STATE_START_ID,
        STATE_START_SUBSET_SLICE_0, STATE_START_SLICE_0, STATE_START_PARSING, STATE_START_SUBSET_SLICE_X,
        STATE_STOP_SUBSET_SLICE, STATE_START_SLICE_X, STATE_STOP_SLICE, toExc, pe, bind, Except.bind, pure, Except.pure,
        convert_slice_element_mk _ _ _ _ _ _ _ _ h10 hn] <;>
      (constructor <;> simp_all [stateTag, STATE_START_SUBSET_SLICE_X, STATE_START_SLICE_X, STATE_STOP_SUBSET_SLICE,
        STATE_STOP_SLICE, hasSep, hasId, tokOk_nil])
  · cases hp : parseInt? ptok with
    | none =>
      rcases hc with hc | hc <;> subst hc <;> cases pst <;>
        simp [Sim, digitCount, handleColonOrRight, convertSliceElem, NodePathParser.handle_colon_and_right_bracket, stateTag,
          STATE_START_SUBSET, STATE_START_ID,
          STATE_START_SUBSET_SLICE_0, STATE_START_SLICE_0, STATE_START_PARSING, STATE_START_SUBSET_SLICE_X,
          STATE_STOP_SUBSET_SLICE, STATE_START_SLICE_X, STATE_STOP_SLICE, toExc, pe, bind, Except.bind, pure, Except.pure,
          convert_slice_element_mk _ _ _ _ _ _ _ _ h10 hn, ht, hp]
    | some i =>
      rcases hc with hc | hc <;> subst hc <;> cases pst <;>
        simp [Sim, digitCount, handleColonOrRight, convertSliceElem, NodePathParser.handle_colon_and_right_bracket, stateTag,
          STATE_START_SUBSET, STATE_START_ID,
          STATE_START_SUBSET_SLICE_0, STATE_START_SLICE_0, STATE_START_PARSING, STATE_START_SUBSET_SLICE_X,
          STATE_STOP_SUBSET_SLICE, STATE_START_SLICE_X, STATE_STOP_SLICE, toExc, pe, bind, Except.bind, pure, Except.pure,
          convert_slice_element_mk _ _ _ _ _ _ _ _ h10 hn, ht, hp] <;>
        (constructor <;> simp_all [stateTag, STATE_START_SUBSET_SLICE_X, STATE_START_SLICE_X, STATE_STOP_SUBSET_SLICE,
          STATE_STOP_SLICE, hasSep, hasId, tokOk_nil])


theorem handle_separator_sim (bare : Bool) (s : List Char) (o : NodePathParser.Self) (ps : PS) (c : Char)
    (hr : Rel bare s o ps) :
    Sim bare s o.pos (digitCount ps.token) (handleSeparatorB bare ps c) (NodePathParser.handle_separator o [c]) := by
  obtain ⟨b, pos, st, tok, cid, sep, elems, ⟨pstr, sub, comps⟩⟩ := o
  obtain ⟨pst, ptok, pelems, pid, psep, psub, pcomps⟩ := ps
  obtain ⟨h1, h2, h3, h4, h5, h6, h7, h8, h9, h10⟩ := hr
  simp only at h1 h2 h3 h4 h5 h6 h7 h8 h9 h10
  subst h1 h2 h3 h4 h7 h8 h9
  have hdot : ([c] = ['.']) ↔ c = '.' := by simp
  by_cases ht : ptok = [] <;> by_cases hd : c = '.' <;>
  cases hcs : createSliceB b elems <;> cases pst <;>
    simp [Sim, digitCount, handleSeparatorB, addCompB, convertId, NodePathParser.handle_separator, stateTag,
      STATE_START_SUBSET, STATE_START_ID, PATH_SEPARATOR_ATTRIB,
      STATE_START_SUBSET_SLICE_0, STATE_START_SLICE_0, STATE_START_PARSING, STATE_START_SUBSET_SLICE_X,
      STATE_STOP_SUBSET_SLICE, STATE_START_SLICE_X, STATE_STOP_SLICE, toExc, pe, bind, Except.bind, pure, Except.pure,
      convert_id_mk, create_slice_object_eq, add_new_path_component_eq, ht, hd, hcs] <;>
    (try (constructor <;> simp_all [stateTag, STATE_START_ID, hasSep, hasId, tokOk_nil, compToPy]))


/-! ### the loop -/
open PyGen.dataquery.NodePathParser.parse

theorem strContains_ws (c : Char) :
    Py.strContains [' ', '\t', '\n', '\r', (Char.ofNat 0xb), (Char.ofNat 0xc)] [c] = isWs c := by
  have e1 : Char.ofNat 0xb = '\x0b' := by decide
  have e2 : Char.ofNat 0xc = '\x0c' := by decide
  simp only [Py.strContains, List.isPrefixOf, isWs, List.isEmpty, Bool.and_true, Bool.or_false, e1, e2]
  simp only [Bool.or_assoc]

theorem strGetItem_ok {s : List Char} {n : Nat} {c : Char} (h : s[n]? = some c) :
    Py.strGetItem s (n : Int) = .ok [c] := by
  simp [Py.strGetItem, Py.strGetItemNat, h]

/-- what one iteration of the translated loop has to establish -/
def StepOk (bare : Bool) (s : List Char) (n : Nat) (ps : PS) (c : Char) (g : Except Py.Exc Locals) : Prop :=
  match stepB bare ps c with
  | .error e => g = .error (toExc e)
  | .ok ps' => ∃ v', g = .ok v' ∧ Rel bare s v'.self ps' ∧ v'.path_expr = s ∧ v'.self.pos = ((n + 1 : Nat) : Int) ∧
      digitCount ps'.token ≤ digitCount ps.token + (if isDigit c then 1 else 0)

theorem tokOk_snoc {tok : List Char} {c : Char} (h : TokOk tok) (hc : srcPlain c = true) (hw : isWs c = false) :
    TokOk (tok ++ [c]) := by
  intro x hx
  rcases List.mem_append.1 hx with hx | hx
  · exact h x hx
  · simp at hx; subst hx; exact ⟨hc, hw⟩

theorem digitCount_snoc (tok : List Char) (c : Char) :
    digitCount (tok ++ [c]) = digitCount tok + (if isDigit c then 1 else 0) := by
  unfold digitCount
  by_cases h : isDigit c = true <;> simp [List.filter_append, List.filter_cons, h]


theorem Rel.withPos {bare : Bool} {s : List Char} {o : NodePathParser.Self} {ps : PS} (h : Rel bare s o ps) (p : Int) :
    Rel bare s { o with pos := p } ps := by
  obtain ⟨h1, h2, h3, h4, h5, h6, h7, h8, h9, h10⟩ := h
  constructor <;> assumption

theorem Rel.snoc {bare : Bool} {s : List Char} {o : NodePathParser.Self} {ps : PS} (h : Rel bare s o ps) (c : Char)
    (hc : srcPlain c = true) (hw : isWs c = false) :
    Rel bare s { o with current_token := some (ps.token ++ [c]) } { ps with token := ps.token ++ [c] } := by
  obtain ⟨h1, h2, h3, h4, h5, h6, h7, h8, h9, h10⟩ := h
  constructor <;> (try assumption)
  · rfl
  · exact tokOk_snoc h10 hc hw

/-- one iteration of the translated `while` body against the model's `stepB` -/
theorem body_step (bare : Bool) (s : List Char) (v : Locals) (ps : PS) (n : Nat) (c : Char)
    (hr : Rel bare s v.self ps) (hpe : v.path_expr = s) (hn : v.self.pos = (n : Int)) (hget : s[n]? = some c)
    (hc : srcPlain c = true) (hd : digitCount ps.token ≤ 4300) :
    StepOk bare s n ps c (while_1.body v) := by
  obtain ⟨o, pexpr, pes, c0⟩ := v
  simp only at hr hpe hn
  subst hpe
  have hg := strGetItem_ok hget
  rw [← hn] at hg
  have hpos : o.pos + (Int.ofNat 1) = ((n + 1 : Nat) : Int) := by rw [hn]; simp
  unfold StepOk
  by_cases hw : isWs c = true
  · -- a blank: skipped
    have hb : while_1.body ⟨o, pexpr, pes, c0⟩ = .ok ⟨{ o with pos := o.pos + Int.ofNat 1 }, pexpr, pes, [c]⟩ := by
      simp [while_1.body, bind, Except.bind, pure, Except.pure, hg, strContains_ws, hw]
    have hm : stepB bare ps c = .ok ps := by simp [stepB, hw]
    rw [hb, hm]
    exact ⟨_, rfl, hr.withPos _, rfl, hpos, by omega⟩
  have hw' : isWs c = false := by simpa using hw
  by_cases h1 : c = '@'
  · subst h1
    have hst := hr.st
    by_cases hsp : ps.st = .startParsing
    · have hb : while_1.body ⟨o, pexpr, pes, c0⟩ =
          .ok ⟨{ o with current_state := some STATE_START_SUBSET, pos := o.pos + Int.ofNat 1 }, pexpr, pes, ['@']⟩ := by
        simp [while_1.body, bind, Except.bind, pure, Except.pure, hg, strContains_ws, isWs, hst, hsp, stateTag]
      have hm : stepB bare ps '@' = .ok { ps with st := .startSubset } := by simp [stepB, isWs, hsp]
      rw [hb, hm]
      refine ⟨_, rfl, ?_, rfl, hpos, by simp [isDigit]⟩
      obtain ⟨k1, k2, k3, k4, k5, k6, k7, k8, k9, k10⟩ := hr
      constructor <;> (try assumption) <;> simp_all [stateTag, hasSep, hasId]
    · have hb : while_1.body ⟨o, pexpr, pes, c0⟩ = .error pe := by
        have : ¬ (stateTag ps.st = STATE_START_PARSING) := by
          revert hsp; cases ps.st <;> decide
        simp [while_1.body, bind, Except.bind, pure, Except.pure, hg, strContains_ws, isWs, hst, this, pe]
      have hm : stepB bare ps '@' = .error .path := by
        simp [stepB, isWs, hsp]
      rw [hb, hm]; rfl
  by_cases h2 : c = '['
  · subst h2
    have hs := handle_left_bracket_sim bare pexpr o ps hr
    have hm0 : stepB bare ps '[' = handleLeftBracket ps := by simp [stepB, isWs]
    rw [hm0]
    cases hm : handleLeftBracket ps with
    | error e =>
      rw [hm] at hs; simp only [Sim] at hs
      simp [while_1.body, bind, Except.bind, pure, Except.pure, hg, strContains_ws, isWs, hs]
    | ok ps' =>
      rw [hm] at hs; obtain ⟨o', hgo, hr', hp, hdc⟩ := hs
      have hb : while_1.body ⟨o, pexpr, pes, c0⟩ = .ok ⟨{ o' with pos := o'.pos + Int.ofNat 1 }, pexpr, pes, ['[']⟩ := by
        simp [while_1.body, bind, Except.bind, pure, Except.pure, hg, strContains_ws, isWs, hgo]
      rw [hb]
      exact ⟨_, rfl, hr'.withPos _, rfl, by rw [hp]; exact hpos, by omega⟩
  by_cases h3 : c = ':' ∨ c = ']'
  · have hs := handle_colon_sim bare pexpr o ps c h3 hr hd
    have hm0 : stepB bare ps c = handleColonOrRight ps c := by
      rcases h3 with h | h <;> subst h <;> simp [stepB, isWs]
    rw [hm0]
    cases hm : handleColonOrRight ps c with
    | error e =>
      rw [hm] at hs; simp only [Sim] at hs
      simp [while_1.body, bind, Except.bind, pure, Except.pure, hg, strContains_ws, hw', h1, h2, h3, hs]
    | ok ps' =>
      rw [hm] at hs; obtain ⟨o', hgo, hr', hp, hdc⟩ := hs
      have hb : while_1.body ⟨o, pexpr, pes, c0⟩ = .ok ⟨{ o' with pos := o'.pos + Int.ofNat 1 }, pexpr, pes, [c]⟩ := by
        simp [while_1.body, bind, Except.bind, pure, Except.pure, hg, strContains_ws, hw', h1, h2, h3, hgo]
      rw [hb]
      exact ⟨_, rfl, hr'.withPos _, rfl, by rw [hp]; exact hpos, by omega⟩
  have h3a : c ≠ ':' := fun h => h3 (Or.inl h)
  have h3b : c ≠ ']' := fun h => h3 (Or.inr h)
  by_cases h4 : isSep c = true
  · have hs := handle_separator_sim bare pexpr o ps c hr
    have h4s : (c = '/' ∨ c = '.') ∨ c = '>' := by simpa [isSep] using h4
    have hm0 : stepB bare ps c = handleSeparatorB bare ps c := by
      simp [stepB, hw', h1, h2, h3a, h3b, h4]
    rw [hm0]
    cases hm : handleSeparatorB bare ps c with
    | error e =>
      rw [hm] at hs; simp only [Sim] at hs
      simp [while_1.body, bind, Except.bind, pure, Except.pure, hg, strContains_ws, hw', h1, h2, h3a, h3b, h4s, hs,
        PATH_SEPARATOR_CHILD, PATH_SEPARATOR_ATTRIB, PATH_SEPARATOR_DESCEND]
    | ok ps' =>
      rw [hm] at hs; obtain ⟨o', hgo, hr', hp, hdc⟩ := hs
      have hb : while_1.body ⟨o, pexpr, pes, c0⟩ = .ok ⟨{ o' with pos := o'.pos + Int.ofNat 1 }, pexpr, pes, [c]⟩ := by
        simp [while_1.body, bind, Except.bind, pure, Except.pure, hg, strContains_ws, hw', h1, h2, h3a, h3b, h4s, hgo,
          PATH_SEPARATOR_CHILD, PATH_SEPARATOR_ATTRIB, PATH_SEPARATOR_DESCEND]
      rw [hb]
      exact ⟨_, rfl, hr'.withPos _, rfl, by rw [hp]; exact hpos, by omega⟩
  · -- an ordinary character
    have h4' : isSep c = false := by simpa using h4
    have h4s : ¬ ((c = '/' ∨ c = '.') ∨ c = '>') := by simpa [isSep] using h4
    have hst := hr.st
    have htok := hr.tok
    have hdn := digitCount_snoc ps.token c
    by_cases hacc : ps.st = .startId ∨ ps.st = .subsetSlice0 ∨ ps.st = .subsetSliceX ∨ ps.st = .slice0 ∨ ps.st = .sliceX
    · have hb : while_1.body ⟨o, pexpr, pes, c0⟩ =
          .ok ⟨{ o with current_token := some (ps.token ++ [c]), pos := o.pos + Int.ofNat 1 }, pexpr, pes, [c]⟩ := by
        rcases hacc with h | h | h | h | h <;>
          simp [while_1.body, bind, Except.bind, pure, Except.pure, hg, strContains_ws, hw', h1, h2, h3a, h3b, h4s,
            PATH_SEPARATOR_CHILD, PATH_SEPARATOR_ATTRIB, PATH_SEPARATOR_DESCEND, hst, htok, h, stateTag, Py.unwrap,
            STATE_START_SUBSET, STATE_START_ID, STATE_START_SUBSET_SLICE_0, STATE_START_SLICE_0,
            STATE_START_PARSING, STATE_START_SUBSET_SLICE_X, STATE_STOP_SUBSET_SLICE, STATE_START_SLICE_X,
            STATE_STOP_SLICE]
      have hm : stepB bare ps c = .ok { ps with token := ps.token ++ [c] } := by
        rcases hacc with h | h | h | h | h <;> simp [stepB, hw', h1, h2, h3a, h3b, h4', h]
      rw [hb, hm]
      exact ⟨_, rfl, (hr.snoc c hc hw').withPos _, rfl, hpos, by show digitCount (ps.token ++ [c]) ≤ _; omega⟩
    by_cases hsp : ps.st = .startParsing
    · have hsd := handle_separator_sim bare pexpr o ps '>' hr
      have hm0 : stepB bare ps c = (do
          let s' ← handleSeparatorB bare ps '>'
          pure { s' with token := s'.token ++ [c] }) := by
        simp [stepB, hw', h1, h2, h3a, h3b, h4', hsp]
      rw [hm0]
      cases hm : handleSeparatorB bare ps '>' with
      | error e =>
        rw [hm] at hsd; simp only [Sim] at hsd
        simp [while_1.body, bind, Except.bind, pure, Except.pure, hg, strContains_ws, hw', h1, h2, h3a, h3b, h4s,
          PATH_SEPARATOR_CHILD, PATH_SEPARATOR_ATTRIB, hst, hsp, stateTag,
          STATE_START_SUBSET, STATE_START_ID, STATE_START_SUBSET_SLICE_0, STATE_START_SLICE_0,
          STATE_START_PARSING, STATE_START_SUBSET_SLICE_X, STATE_STOP_SUBSET_SLICE, STATE_START_SLICE_X,
          STATE_STOP_SLICE, hsd, show PATH_SEPARATOR_DESCEND = ['>'] from rfl]
      | ok ps' =>
        rw [hm] at hsd; obtain ⟨o', hgo, hr', hp, hdc⟩ := hsd
        have htok' := hr'.tok
        have hb : while_1.body ⟨o, pexpr, pes, c0⟩ =
            .ok ⟨{ o' with current_token := some (ps'.token ++ [c]), pos := o'.pos + Int.ofNat 1 }, pexpr, pes, [c]⟩ := by
          simp [while_1.body, bind, Except.bind, pure, Except.pure, hg, strContains_ws, hw', h1, h2, h3a, h3b, h4s,
            PATH_SEPARATOR_CHILD, PATH_SEPARATOR_ATTRIB, hst, hsp, stateTag,
            STATE_START_SUBSET, STATE_START_ID, STATE_START_SUBSET_SLICE_0, STATE_START_SLICE_0,
            STATE_START_PARSING, STATE_START_SUBSET_SLICE_X, STATE_STOP_SUBSET_SLICE, STATE_START_SLICE_X,
            STATE_STOP_SLICE, hgo, htok', Py.unwrap, show PATH_SEPARATOR_DESCEND = ['>'] from rfl]
        rw [hb]
        simp only [bind, Except.bind, pure, Except.pure]
        have hdn' := digitCount_snoc ps'.token c
        exact ⟨_, rfl, (hr'.snoc c hc hw').withPos _, rfl, by rw [hp]; exact hpos, by show digitCount (ps'.token ++ [c]) ≤ _; omega⟩
    · have hb : while_1.body ⟨o, pexpr, pes, c0⟩ = .error pe := by
        have hne : ¬ (stateTag ps.st = STATE_START_ID) ∧ ¬ (stateTag ps.st = STATE_START_SUBSET_SLICE_0) ∧
            ¬ (stateTag ps.st = STATE_START_SUBSET_SLICE_X) ∧ ¬ (stateTag ps.st = STATE_START_SLICE_0) ∧
            ¬ (stateTag ps.st = STATE_START_SLICE_X) ∧ ¬ (stateTag ps.st = STATE_START_PARSING) := by
          revert hacc hsp; cases ps.st <;> decide
        simp [while_1.body, bind, Except.bind, pure, Except.pure, hg, strContains_ws, hw', h1, h2, h3a, h3b, h4s,
          PATH_SEPARATOR_CHILD, PATH_SEPARATOR_ATTRIB, PATH_SEPARATOR_DESCEND, hst, hne, pe]
      have hm : stepB bare ps c = .error .path := by
        revert hacc hsp
        cases hps : ps.st <;> simp [stepB, hw', h1, h2, h3a, h3b, h4', hps]
      rw [hb, hm]; rfl

end Bufr.PathLang
