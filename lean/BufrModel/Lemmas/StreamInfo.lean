/-
  The metadata-only scan of a stream of pieces depends on the messages only through their metadata-only
  decodings (used by Props/C17Stream.lean): two streams whose messages are pairwise "twins" - same length,
  same separator, metadata-only decodings that agree in what an observer looks at - give the same scan,
  item by item, apart from the raw bytes.  The full decoder `dec false` is never consulted.
-/
import BufrModel.Msg.Stream
import BufrModel.Lemmas.Stream
namespace Bufr.Stream

/-- two ways of splitting a list: the shorter first part is a prefix of the longer one -/
theorem split_of_le {β : Type} (X Y A B : List β) (h : X ++ Y = A ++ B) (hl : A.length ≤ X.length) :
    ∃ u, X = A ++ u ∧ B = u ++ Y := by
  refine ⟨X.drop A.length, ?_, ?_⟩
  · have h1 : (X ++ Y).take A.length = X.take A.length := List.take_append_of_le_length hl
    have h2 : (A ++ B).take A.length = A := List.take_left
    rw [h, h2] at h1
    conv => lhs; rw [← List.take_append_drop A.length X]
    rw [← h1]
  · have h1 : (X ++ Y).drop A.length = X.drop A.length ++ Y := List.drop_append_of_le_length hl
    have h2 : (A ++ B).drop A.length = B := List.drop_left
    rw [h, h2] at h1
    exact h1

/-- what the consumer of a scan sees of an item when the raw bytes are left aside: offset, number of bytes,
    the two lengths the decoder reports and a view `f` of the decoded message -/
def Item.view {μ ν : Type} (f : μ → ν) (it : Item μ) : Nat × Nat × Nat × Nat × ν :=
  (it.offset, it.bytes.length, it.info.consumed, it.info.declared, f it.info.msg)

/-- the action of the metadata-only scan at a piece: advance by the whole message, yield its metadata-only
    decoding unless a filter rejects it -/
def infoAct {μ : Type} (dec : Dec μ) (cfg : Cfg μ) (p : Piece) : Nat × Option (MsgInfo μ) :=
  (p.msg.length,
    match dec true p.msg with
    | .error _ => none
    | .ok i =>
      match cfg.filter with
      | none => some i
      | some pred =>
        match pred i with
        | .ok true => some i
        | _ => none)

/-- a message the metadata-only scan passes as a whole: it starts with the signature, its metadata-only
    decoding is `i` whatever follows, the declared total length is its length, a filter (if any) does not
    fail on `i`, and the separator behind it is quiet -/
structure InfoOk {μ : Type} (dec : Dec μ) (cfg : Cfg μ) (p : Piece) (i : MsgInfo μ) : Prop where
  starts : ∃ m', p.msg = sig ++ m'
  dec_eq : ∀ x, dec true (p.msg ++ x) = .ok i
  declared : i.declared = p.msg.length
  filt : ∀ pred, cfg.filter = some pred → ∃ k, pred i = .ok k
  quiet : Quiet p.sep

theorem InfoOk.dec_self {μ : Type} {dec : Dec μ} {cfg : Cfg μ} {p : Piece} {i : MsgInfo μ}
    (h : InfoOk dec cfg p i) : dec true p.msg = .ok i := by
  have := h.dec_eq []
  simpa using this

theorem behaves_info {μ : Type} (dec : Dec μ) (cfg : Cfg μ) (hinfo : cfg.infoOnly = true) (p : Piece)
    (i : MsgInfo μ) (h : InfoOk dec cfg p i) : Behaves dec cfg (infoAct dec cfg) p := by
  have h0 := h.dec_self
  have hd := h.declared
  refine ⟨h.starts, fun x => ?_, pos_of_starts h.starts, Nat.le_refl _, ?_⟩
  · have hx := h.dec_eq x
    cases hf : cfg.filter with
    | none =>
      simp only [step, tryBody, decodeHere, hf, hinfo, hx, hd, take_length_append, infoAct, h0, if_true,
        Option.map_some]
    | some pred =>
      obtain ⟨k, hk⟩ := h.filt pred hf
      cases k with
      | true =>
        simp only [step, tryBody, decodeHere, hf, hinfo, hx, hk, hd, take_length_append, infoAct, h0, if_true,
          Option.map_some, Bool.not_true, Bool.and_false, Bool.false_eq_true, if_false]
      | false =>
        simp only [step, tryBody, decodeHere, hf, hinfo, hx, hk, hd, take_length_append, infoAct, h0, if_true,
          Option.map_none, Bool.not_true, Bool.and_false, Bool.false_eq_true, if_false]
  · have : (infoAct dec cfg p).1 = p.msg.length := rfl
    rw [this, List.drop_length]
    simpa using h.quiet

/-- twins: two pieces that the metadata-only scan cannot tell apart, except by their raw bytes -/
structure Twins {μ ν : Type} (dec : Dec μ) (cfg : Cfg μ) (f : μ → ν) (p p' : Piece) : Prop where
  sep : p.sep = p'.sep
  len : p.msg.length = p'.msg.length
  infos : ∃ i i', InfoOk dec cfg p i ∧ InfoOk dec cfg p' i' ∧ i.consumed = i'.consumed ∧ f i.msg = f i'.msg ∧
    ∀ pred, cfg.filter = some pred → pred i = pred i'

theorem deliver_view_twins {μ ν : Type} (dec : Dec μ) (cfg : Cfg μ) (f : μ → ν) :
    ∀ (l : List (Piece × Piece)) (off : Nat), (∀ q ∈ l, Twins dec cfg f q.1 q.2) →
      (deliver (infoAct dec cfg) off (l.map (·.1))).map (Item.view f) =
      (deliver (infoAct dec cfg) off (l.map (·.2))).map (Item.view f) := by
  intro l
  induction l with
  | nil => intro _ _; rfl
  | cons q l ih =>
    intro off h
    have hq := h q List.mem_cons_self
    obtain ⟨i, i', h1, h2, hc, hfv, hp⟩ := hq.infos
    have ih' := ih (off + q.1.msg.length + q.1.sep.length) (fun r hr => h r (List.mem_cons_of_mem _ hr))
    simp only [List.map_cons, deliver, List.map_append]
    rw [← hq.len, ← hq.sep, ih']
    congr 1
    have d1 := h1.dec_self
    have d2 := h2.dec_self
    have hdecl : i.declared = i'.declared := by rw [h1.declared, h2.declared, hq.len]
    have hv : ∀ (o : Nat), Item.view f ({ offset := o, bytes := q.1.msg, info := i } : Item μ) =
        Item.view f ({ offset := o, bytes := q.2.msg, info := i' } : Item μ) := by
      intro o
      simp only [Item.view, hq.len, hc, hdecl, hfv]
    cases hf : cfg.filter with
    | none =>
      simp only [infoAct, d1, d2, hf, Option.map_some, yielded, List.map_cons, List.map_nil, hv]
    | some pred =>
      have hpp := hp pred hf
      obtain ⟨k, hk⟩ := h1.filt pred hf
      have hk' : pred i' = .ok k := by rw [← hpp, hk]
      cases k with
      | true =>
        simp only [infoAct, d1, d2, hf, hk, hk', Option.map_some, yielded, List.map_cons, List.map_nil, hv]
      | false =>
        simp only [infoAct, d1, d2, hf, hk, hk', Option.map_none, yielded, List.map_nil]

/-- **the metadata-only scan sees the messages only through their metadata-only decodings**: two streams
    with the same separators whose messages are pairwise twins give the same items (offset, length,
    reported lengths, view of the decoded message) and both scans end normally. -/
theorem scan_info_twins {μ ν : Type} (dec : Dec μ) (cfg : Cfg μ) (f : μ → ν) (hinfo : cfg.infoOnly = true)
    (sep0 : Bytes) (h0 : Quiet sep0) (l : List (Piece × Piece)) (h : ∀ q ∈ l, Twins dec cfg f q.1 q.2) :
    (scan dec cfg (sep0 ++ body (l.map (·.1)))).1.map (Item.view f) =
      (scan dec cfg (sep0 ++ body (l.map (·.2)))).1.map (Item.view f) ∧
    (scan dec cfg (sep0 ++ body (l.map (·.1)))).2 = .done ∧
    (scan dec cfg (sep0 ++ body (l.map (·.2)))).2 = .done := by
  have b1 : ∀ p ∈ l.map (·.1), Behaves dec cfg (infoAct dec cfg) p := by
    intro p hp
    obtain ⟨q, hq, rfl⟩ := List.mem_map.mp hp
    obtain ⟨i, _, h1, _⟩ := (h q hq).infos
    exact behaves_info dec cfg hinfo _ i h1
  have b2 : ∀ p ∈ l.map (·.2), Behaves dec cfg (infoAct dec cfg) p := by
    intro p hp
    obtain ⟨q, hq, rfl⟩ := List.mem_map.mp hp
    obtain ⟨_, i', _, h2, _⟩ := (h q hq).infos
    exact behaves_info dec cfg hinfo _ i' h2
  rw [scan_pieces_done dec cfg _ sep0 _ h0 b1, scan_pieces_done dec cfg _ sep0 _ h0 b2]
  exact ⟨deliver_view_twins dec cfg f l sep0.length h, rfl, rfl⟩

end Bufr.Stream
