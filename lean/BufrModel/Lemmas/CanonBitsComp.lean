/-
  C02 lemmas, compressed part: the encoder's compressed primitives ARE the column-code-writing
  primitives of the specification (`Spec/CanonBits.lean`): `encPrimsC = canonPrimsC`.
  Pieces: `minmaxOpt` = `min?`/`max?` of the present entries, `nbits_for_uint(span + 1)` = number of
  binary digits of `span + 2` (`incrWidth`), the general branch of `encIntColumnN` = `intColumnCode`,
  the column writers of `Lemmas/SimComp.lean` = `colCode`.
-/
import BufrModel.Lemmas.CanonBits
import BufrModel.Lemmas.SimComp
set_option linter.unusedSimpArgs false
namespace Bufr
open Bufr.Spec

theorem min?_none_iff_max? (l : List Int) : l.min? = none ↔ l.max? = none := by
  cases l <;> simp [List.min?, List.max?]

theorem minmaxOpt_eq (raws : List (Option Int)) :
    minmaxOpt raws =
      match (raws.filterMap id).min?, (raws.filterMap id).max? with
      | some lo, some hi => some (lo, hi)
      | _, _ => none := by
  induction raws with
  | nil => rfl
  | cons r rs ih =>
    cases r with
    | none => simpa [minmaxOpt] using ih
    | some i =>
      simp only [minmaxOpt, ih, List.filterMap_cons, id, List.min?_cons, List.max?_cons]
      cases hmin : (rs.filterMap id).min? with
      | none =>
        have := (min?_none_iff_max? _).mp hmin
        simp [this]
      | some lo =>
        cases hmax : (rs.filterMap id).max? with
        | none =>
          have := (min?_none_iff_max? _).mpr hmax
          rw [this] at hmin; cases hmin
        | some hi =>
          simp only [Option.elim, Option.some.injEq, Prod.mk.injEq]
          constructor <;> omega

theorem nbitsForUInt_eq_incrWidth (span : Nat) : nbitsForUInt (span + 1) = incrWidth span := by
  unfold incrWidth
  have hne : span + 2 ≠ 0 := by omega
  have h1 : 2 ^ (span + 2).log2 ≤ span + 2 := Nat.log2_self_le hne
  have h2 : span + 2 < 2 ^ ((span + 2).log2 + 1) := Nat.lt_log2_self
  apply Nat.le_antisymm
  · exact nbitsForUInt_least _ _ (by omega)
  · have hf := nbitsForUInt_fits (span + 1)
    -- 2^log2 ≤ span + 2 < span + 3 ≤ 2^nbits  ⇒ log2 < nbits
    have : (span + 2).log2 < nbitsForUInt (span + 1) := (Nat.log2_lt hne).mpr (by omega)
    omega

theorem allOnesAsMissing_eq (n : Nat) (raws : List (Option Int)) :
    allOnesAsMissing n raws = raws.map (onesAsMissing n) := by
  unfold allOnesAsMissing
  by_cases h : n ≤ 1
  · have h' : ¬ 1 < n := by omega
    have hf : onesAsMissing n = id := by funext r; simp [onesAsMissing, h']
    simp [h, hf]
  · have h' : 1 < n := by omega
    have hf : onesAsMissing n = fun r => if r = some (((2 ^ n - 1 : Nat) : Int)) then none else r := by
      funext r; simp only [onesAsMissing, h', true_and]
    simp only [h, if_false, hf]

theorem all_none_iff (raws : List (Option Int)) : raws.all (· == none) = true ↔ raws.filterMap id = [] := by
  induction raws with
  | nil => simp
  | cons r rs ih => cases r <;> simp [ih]

theorem catBits_two (a b : CM Bits) :
    catBits [a, b] = a.bind fun x => b.bind fun y => .ok (x ++ y) := by
  cases a with
  | error e => rfl
  | ok x => cases b with
    | error e => rfl
    | ok y => simp [catBits, Except.bind]

/-- the general (not all equal) branch of a column of unsigned fields is the specification column -/
theorem encIntColumnN_false_eq (raws : List (Option Int)) (n : Nat) :
    encIntColumnN false raws n = ofOpt (intColumnCode n (raws.map (onesAsMissing n))) := by
  simp only [encIntColumnN, Bool.false_eq_true, if_false, allOnesAsMissing_eq]
  generalize raws.map (onesAsMissing n) = rs
  unfold intColumnCode
  by_cases hall : rs.all (· == none) = true
  · have hnil := (all_none_iff rs).mp hall
    simp only [hall, if_true, hnil, List.min?_nil, List.max?_nil, catBits_two]
    have h6 : fieldUInt 0 6 = .ok (toBits 6 0) := by decide
    have hm := missingField_eq n
    simp only [bind, Except.bind] at hm ⊢
    rw [hm, h6]
    cases missingCode n <;> rfl
  · simp only [hall, Bool.false_eq_true, if_false, encIntColumn, intColumnBits, minmaxOpt_eq]
    have hne : rs.filterMap id ≠ [] := fun h => hall ((all_none_iff rs).mpr h)
    cases hmin : (rs.filterMap id).min? with
    | none => exact absurd (List.min?_eq_none_iff.mp hmin) hne
    | some lo =>
      cases hmax : (rs.filterMap id).max? with
      | none => exact absurd (List.max?_eq_none_iff.mp hmax) hne
      | some hi =>
        obtain ⟨hlomem, hlole⟩ := List.min?_eq_some_iff.mp hmin
        obtain ⟨himem, hile⟩ := List.max?_eq_some_iff.mp hmax
        have hlohi : lo ≤ hi := hlole hi himem
        have hx : (hi - lo + 1).toNat = (hi - lo).toNat + 1 := by omega
        simp only [hx, nbitsForUInt_eq_incrWidth]
        generalize hd : incrWidth (hi - lo).toNat = d
        have hfit : (hi - lo).toNat + 3 ≤ 2 ^ d := by
          have := nbitsForUInt_fits ((hi - lo).toNat + 1)
          rw [nbitsForUInt_eq_incrWidth, hd] at this; omega
        have hdpos : 0 < d := by rw [← hd]; unfold incrWidth; omega
        by_cases hd63 : d ≤ 63
        · have h6 : fieldUInt (d : Int) 6 = .ok (toBits 6 d) :=
            fieldUInt_nat d 6 (by omega) (by simp; omega)
          simp only [catBits, h6, hd63, if_true, fieldUInt_eq lo n]
          rw [catBits_map_ok rs _ (incrCode d lo)]
          · cases uintCode n lo with
            | none => rfl
            | some m => simp [ofOpt, List.append_assoc]
          · intro r hr
            cases r with
            | none => exact fieldUInt_missing d hdpos (by omega)
            | some v =>
              have hv : v ∈ rs.filterMap id := by simp [List.mem_filterMap]; exact hr
              have h1 := hlole v hv
              have h2 := hile v hv
              have hc : v - lo = (((v - lo).toNat : Nat) : Int) := by omega
              simp only [incrCode]
              rw [hc]
              simp only [Int.toNat_natCast]
              exact fieldUInt_nat _ _ hdpos (by omega)
        · have h6 : fieldUInt (d : Int) 6 = .error .other := by
            simp [fieldUInt, writeUInt]; omega
          simp only [catBits, h6, hd63, if_false, ofOpt, fieldUInt_eq lo n]
          cases uintCode n lo <;> rfl


theorem mapM_ofOpt {α β : Type} (f : α → Option β) (l : List α) :
    List.mapM (m := Except Err) (fun a => ofOpt (f a)) l = ofOpt (l.mapM f) := by
  induction l with
  | nil => rfl
  | cons a as ih =>
    simp only [List.mapM_cons, ih]
    cases f a with
    | none => rfl
    | some b =>
      cases as.mapM f with
      | none => rfl
      | some bs => rfl

theorem ofOpt_map {α β : Type} (o : Option α) (g : α → β) : ofOpt (o.map g) = (ofOpt o).map g := by
  cases o <;> rfl

theorem rawOptNumeric_eq (w scale ref : Int) (v : Val) :
    rawOptNumeric scale ref v = ofOpt (rawOf (.numeric w scale ref) v) := by
  cases v with
  | missing => rfl
  | int i => simp only [rawOptNumeric, rawOf, quantise_eq, bind, Except.bind, pure, Except.pure]; cases scaledRound (.int i) scale <;> rfl
  | num m k => simp only [rawOptNumeric, rawOf, quantise_eq, bind, Except.bind, pure, Except.pure]; cases scaledRound (.num m k) scale <;> rfl
  | bytes b => rfl

theorem rawOptCodeflag_eq (w : Nat) (v : Val) : rawOptCodeflag v = ofOpt (rawOf (.uint w) v) := by
  cases v <;> rfl

/-- the all-equal branch of a column of unsigned fields: the field, then a zero count -/
theorem encIntColumn_true_one (r : Option Int) (n : Nat) :
    encIntColumn true [r] n =
      (match r with
        | none => (missingPattern n).bind fun p => fieldUInt p n
        | some v => fieldUInt v n).bind fun f => .ok (f ++ toBits 6 0) := by
  have h6 : fieldUInt 0 6 = .ok (toBits 6 0) := by decide
  cases r with
  | none =>
    simp only [encIntColumn, if_true, List.headD_cons, catBits_two, h6, bind, Except.bind]
  | some v =>
    simp only [encIntColumn, if_true, List.headD_cons, catBits_two, h6, Except.bind]

theorem colNumeric_eq (nbits scale ref : Int) (v0 : Val) (vs : List Val) :
    colNumeric nbits scale ref ((v0 :: vs).all (· == v0)) (v0 :: vs) =
      (ofOpt (colCode (.numeric nbits scale ref) (v0 :: vs))).map fun b => { bits := b, canon := [], upd := id } := by
  unfold colNumeric colCode
  by_cases hn : nbits ≤ 0
  · simp only [natWidth_nonpos nbits hn, bind, Except.bind, fieldCode, hn, if_true, Option.map_none, widthOf,
      show ¬ (0 < nbits) by omega, if_false]
    split <;> rfl
  · have hw : natWidth nbits = .ok nbits.toNat := by simp [natWidth, hn]
    have hpos : 0 < nbits := by omega
    simp only [hw, bind, Except.bind]
    by_cases hall : (v0 :: vs).all (· == v0) = true
    · simp only [hall, if_true, List.take_succ_cons, List.take_zero, List.mapM_cons, List.mapM_nil,
        encIntColumnN, pure, Except.pure, bind, Except.bind]
      rw [ofOpt_map, ← numericField_eq v0 scale ref nbits hpos]
      cases v0 with
      | missing =>
        simp only [rawOptNumeric, pure, Except.pure, encIntColumn_true_one, numericField, ofOpt_map]
        cases (missingPattern nbits.toNat).bind fun p => fieldUInt p nbits.toNat <;> rfl
      | int i =>
        simp only [rawOptNumeric, numericField, bind, Except.bind, pure, Except.pure]
        cases quantise (.int i) scale with
        | error e => rfl
        | ok q =>
          simp only [encIntColumn_true_one, ofOpt_map, Except.bind]
          cases fieldUInt (q - ref) nbits.toNat <;> rfl
      | num m k =>
        simp only [rawOptNumeric, numericField, bind, Except.bind, pure, Except.pure]
        cases quantise (.num m k) scale with
        | error e => rfl
        | ok q =>
          simp only [encIntColumn_true_one, ofOpt_map, Except.bind]
          cases fieldUInt (q - ref) nbits.toNat <;> rfl
      | bytes b => rfl
    · simp only [hall, Bool.false_eq_true, if_false, widthOf, hpos, if_true]
      rw [funext (rawOptNumeric_eq nbits scale ref), mapM_ofOpt]
      cases (v0 :: vs).mapM (rawOf (.numeric nbits scale ref)) with
      | none => rfl
      | some raws =>
        simp only [ofOpt, encIntColumnN_false_eq]
        cases intColumnCode nbits.toNat (raws.map (onesAsMissing nbits.toNat)) <;> rfl


theorem colCodeflag_eq (n : Nat) (v0 : Val) (vs : List Val) :
    colCodeflag n ((v0 :: vs).all (· == v0)) (v0 :: vs) =
      (ofOpt (colCode (.uint n) (v0 :: vs))).map fun b => { bits := b, canon := [], upd := id } := by
  unfold colCodeflag colCode
  by_cases hall : (v0 :: vs).all (· == v0) = true
  · simp only [hall, if_true, List.take_succ_cons, List.take_zero, List.mapM_cons, List.mapM_nil,
      encIntColumnN, pure, Except.pure, bind, Except.bind]
    rw [ofOpt_map, ← codeflagField_eq v0 n]
    cases v0 with
    | missing =>
      simp only [rawOptCodeflag, pure, Except.pure, encIntColumn_true_one, codeflagField]
      cases (missingPattern n).bind fun p => fieldUInt p n <;> rfl
    | int i =>
      simp only [rawOptCodeflag, pure, Except.pure, encIntColumn_true_one, codeflagField]
      cases fieldUInt i n <;> rfl
    | num m k => rfl
    | bytes b => rfl
  · simp only [hall, Bool.false_eq_true, if_false, widthOf, bind, Except.bind]
    rw [funext (rawOptCodeflag_eq n), mapM_ofOpt]
    by_cases hn : 0 < n
    · simp only [hn, if_true]
      cases (v0 :: vs).mapM (rawOf (.uint n)) with
      | none => rfl
      | some raws =>
        simp only [ofOpt, encIntColumnN_false_eq]
        cases intColumnCode n (raws.map (onesAsMissing n)) <;> rfl
    · have h0 : n = 0 := by omega
      subst h0
      simp only [Nat.lt_irrefl, if_false]
      cases (v0 :: vs).mapM (rawOf (.uint 0)) with
      | none => rfl
      | some raws =>
        simp only [ofOpt, encIntColumnN_false_eq]
        have : intColumnCode 0 (raws.map (onesAsMissing 0)) = none := by
          unfold intColumnCode
          simp only [uintCode, missingCode, Nat.lt_irrefl, false_and, if_false, Option.map_none, ite_self]
          split <;> rfl
        rw [this]; rfl

theorem strOpt_eq (k : Nat) (v : Val) :
    (strOpt v).bind (fun o => (match o with
        | none => fieldBytes (List.replicate k 0xFF) k
        | some b => fieldBytes b k : CM Bits)) = ofOpt (fieldCode (.chars k) v) := by
  cases v with
  | missing =>
    simp only [strOpt, pure, Except.pure, Except.bind, fieldBytes, writeBytes, List.nil_append, fieldCode, ofOpt,
      padBytes_replicate]
  | bytes b => simp only [strOpt, pure, Except.pure, Except.bind, fieldBytes, writeBytes, List.nil_append, fieldCode, ofOpt]
  | int i => rfl
  | num m k => rfl


/-- the kind test of a character value: `some none` = missing, `none` = not a character value -/
def strOf : Val → Option (Option (List UInt8))
  | .missing => some none
  | .bytes b => some (some b)
  | _ => none

def strBits (k : Nat) : Option (List UInt8) → Bits
  | none => bytesToBits (List.replicate k 0xFF)
  | some b => bytesToBits (padBytes b k)

theorem strOpt_ofOpt (v : Val) : strOpt v = ofOpt (strOf v) := by cases v <;> rfl

theorem fieldCode_chars (k : Nat) (v : Val) : fieldCode (.chars k) v = (strOf v).map (strBits k) := by
  cases v <;> rfl

theorem mapM_option_map {α β γ : Type} (f : α → Option β) (g : β → γ) (l : List α) :
    l.mapM (fun a => (f a).map g) = (l.mapM f).map (List.map g) := by
  induction l with
  | nil => rfl
  | cons a as ih =>
    simp only [List.mapM_cons, ih]
    cases f a with
    | none => rfl
    | some b => cases as.mapM f <;> rfl

theorem mapM_all_eq {β : Type} (f : Val → Option β) (v0 : Val) (vs : List Val)
    (h : (v0 :: vs).all (· == v0) = true) :
    (v0 :: vs).mapM f = (f v0).map fun b => b :: List.replicate vs.length b := by
  have hv : ∀ v ∈ vs, v = v0 := by
    intro v hm
    have := List.all_eq_true.mp h v (List.mem_cons_of_mem _ hm)
    simpa using this
  cases hf : f v0 with
  | none => simp [List.mapM_cons, hf]
  | some b =>
    have hvs : vs.mapM f = some (List.replicate vs.length b) := by
      clear h
      induction vs with
      | nil => rfl
      | cons a as ih =>
        have ha : a = v0 := hv a (by simp)
        subst ha
        simp [List.mapM_cons, ih (fun v hm => hv v (List.mem_cons_of_mem _ hm)), hf, List.replicate_succ]
    simp [List.mapM_cons, hvs, hf]

theorem fieldBytes_strBits (k : Nat) (o : Option (List UInt8)) :
    (match o with
      | none => fieldBytes (List.replicate k 0xFF) k
      | some b => fieldBytes b k : CM Bits) = .ok (strBits k o) := by
  cases o with
  | none => simp only [fieldBytes, writeBytes, List.nil_append, strBits, padBytes_replicate]
  | some b => simp only [fieldBytes, writeBytes, List.nil_append, strBits]

theorem colString_eq (k : Nat) (v0 : Val) (vs : List Val) :
    colString k ((v0 :: vs).all (· == v0)) (v0 :: vs) =
      (ofOpt (colCode (.chars k) (v0 :: vs))).map fun b => { bits := b, canon := [], upd := id } := by
  unfold colString colCode
  have h6 : fieldUInt 0 6 = .ok (toBits 6 0) := by decide
  rw [funext strOpt_ofOpt, mapM_ofOpt]
  by_cases hall : (v0 :: vs).all (· == v0) = true
  · simp only [hall, if_true, mapM_all_eq strOf v0 vs hall, fieldCode_chars]
    cases strOf v0 with
    | none => rfl
    | some o =>
      cases o <;>
      simp [ofOpt, bind, Except.bind, encStringColumn, catBits_two, h6, pure, Except.pure, Except.map,
        fieldBytes, writeBytes, strBits, padBytes_replicate]
  · simp only [hall, Bool.false_eq_true, if_false, funext (fieldCode_chars k), mapM_option_map]
    cases (v0 :: vs).mapM strOf with
    | none => split <;> rfl
    | some strs =>
      simp only [ofOpt, bind, Except.bind, encStringColumn, Bool.false_eq_true, if_false, catBits,
        fieldUInt_eq, uintCode, Option.map_some]
      by_cases hk : 63 < k
      · have : ¬ ((0 : Nat) < 6 ∧ (0 : Int) ≤ (k : Int) ∧ (k : Int) < 2 ^ 6) := by omega
        simp only [hk, if_true, this, if_false, ofOpt, Except.map, fieldBytes]
      · have : ((0 : Nat) < 6 ∧ (0 : Int) ≤ (k : Int) ∧ (k : Int) < 2 ^ 6) := by omega
        simp only [hk, if_false, this, if_true, ofOpt, Int.toNat_natCast]
        by_cases hk0 : k = 0
        · simp [hk0, catBits, Except.map, pure, Except.pure, fieldBytes, writeBytes, padBytes]
        · simp only [hk0, if_false]
          rw [catBits_map_ok strs _ (strBits k)
            (fun o _ => by cases o <;> simp [fieldBytes, writeBytes, strBits, padBytes_replicate])]
          simp [Except.map, pure, Except.pure, List.flatMap_def, fieldBytes, writeBytes, padBytes_replicate]


theorem colVals_eq (s : St) : colVals s = ofOpt (curCol s) := by
  unfold colVals curCol
  have : (fun l : List Val => nthVal l s.idx) = fun l => ofOpt (l[s.idx]?) := by
    funext l; unfold nthVal ofOpt; cases l[s.idx]? <;> rfl
  rw [this, mapM_ofOpt]

theorem encStepC_eq_emitCol (dd : DDesc) (col : ColW) (spec : FieldSpec)
    (h : ∀ v0 vs, col ((v0 :: vs).all (· == v0)) (v0 :: vs) =
      (ofOpt (colCode spec (v0 :: vs))).map fun b => { bits := b, canon := [], upd := id })
    (s : St) : encStepC dd col s = emitCol dd spec s := by
  unfold encStepC emitCol
  rw [colVals_eq]
  cases curCol s with
  | none => rfl
  | some values =>
    cases values with
    | nil => rfl
    | cons v0 vs =>
      simp only [ofOpt, h v0 vs, Option.bind_some]
      cases colCode spec (v0 :: vs) with
      | none => rfl
      | some f => rfl

theorem colConstant_eq (c : Int) (v0 : Val) (vs : List Val) :
    colConstant c ((v0 :: vs).all (· == v0)) (v0 :: vs) =
      (ofOpt (colCode (.const c) (v0 :: vs))).map fun b => { bits := b, canon := [], upd := id } := by
  unfold colConstant colCode
  by_cases hall : (v0 :: vs).all (· == v0) = true
  · simp only [hall, Bool.true_and, List.headD_cons, if_true, fieldCode]
    by_cases hv : v0 = .int c
    · simp [hv, ofOpt, Except.map, pure, Except.pure]
    · have : (v0 == Val.int c) = false := by simpa using hv
      simp [hv, this, ofOpt, Except.map]
  · simp only [hall, Bool.false_and, Bool.false_eq_true, if_false]
    rfl

theorem encNewRefvalC_canon (e : Elem) (n : Nat) (s : St) :
    encNewRefvalC e n s = canonPrimsC.newRefval e n s := by
  rw [encNewRefvalC_eq]
  show _ = (match curCol s with
    | some (.int i :: _) => emitCol (.plain e) (.newRef n) (setNewRefval s e.id i)
    | _ => .error .other)
  unfold encStepC
  rw [colVals_eq]
  have h6 : fieldUInt 0 6 = .ok (toBits 6 0) := by decide
  cases hc : curCol s with
  | none => rfl
  | some values =>
    cases values with
    | nil => rfl
    | cons v0 vs =>
      simp only [ofOpt, colNewRefval, List.headD_cons]
      cases v0 with
      | int i =>
        have hc' : curCol (setNewRefval s e.id i) = some (.int i :: vs) := hc
        simp only [emitCol, hc', Option.bind_some, colCode]
        by_cases hall : (Val.int i :: vs).all (· == Val.int i) = true
        · simp only [hall, Bool.not_true, Bool.false_eq_true, if_false, if_true, fieldInt_eq, h6, bind, Except.bind]
          cases fieldCode (.newRef n) (.int i) with
          | none => rfl
          | some f =>
            simp [ofOpt, pure, Except.pure, St.afterWrite, setNewRefval, St.setRegs, updNewRefval]
        · simp only [hall, Bool.not_false, if_true, Bool.false_eq_true, if_false]
      | missing => simp only [ite_self]
      | num m k => simp only [ite_self]
      | bytes b => simp only [ite_self]

theorem encPrimsC_eq_canon : encPrimsC = canonPrimsC := by
  unfold encPrimsC canonPrimsC
  congr
  · funext dd w sc rf s
    rw [encNumericC_eq]; exact encStepC_eq_emitCol dd _ _ (colNumeric_eq w sc rf) s
  · funext dd k s
    rw [encStringC_eq]; exact encStepC_eq_emitCol dd _ _ (colString_eq k) s
  · funext dd w s
    rw [encCodeflagC_eq]; exact encStepC_eq_emitCol dd _ _ (colCodeflag_eq w) s
  · funext e w s; exact encNewRefvalC_canon e w s
  · funext dd c s
    rw [encConstantC_eq]; exact encStepC_eq_emitCol dd _ _ (colConstant_eq c) s

end Bufr
