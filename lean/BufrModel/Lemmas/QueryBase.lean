/-
  Lemmas for C16, common part: induction over the node tree, the value pass (`create_values_from_nodes`)
  as a function on continuations, blocks of a replication = the chunks of the renderer, pointwise link
  between a node list and its rendering.
-/
import BufrModel.Lemmas.Query
import BufrModel.Lemmas.NestedJson
namespace Bufr.C16
open Bufr.Query Bufr.PathLang

/-! ### induction over the node tree -/

mutual
theorem Node.induct' (P : Node → Prop)
    (hv : ∀ k i attrs, (∀ a ∈ attrs, P a) → P (.value k i attrs))
    (hn : ∀ id, P (.noval id))
    (hs : ∀ id ms, (∀ m ∈ ms, P m) → P (.seq id ms))
    (hf : ∀ id n ms, (∀ m ∈ ms, P m) → P (.fixedRep id n ms))
    (hd : ∀ id n f ms, P f → (∀ m ∈ ms, P m) → P (.delayedRep id n f ms)) : ∀ n, P n
  | .value k i attrs => hv k i attrs (Node.inductList P hv hn hs hf hd attrs)
  | .noval id => hn id
  | .seq id ms => hs id ms (Node.inductList P hv hn hs hf hd ms)
  | .fixedRep id n ms => hf id n ms (Node.inductList P hv hn hs hf hd ms)
  | .delayedRep id n f ms => hd id n f ms (Node.induct' P hv hn hs hf hd f) (Node.inductList P hv hn hs hf hd ms)
theorem Node.inductList (P : Node → Prop)
    (hv : ∀ k i attrs, (∀ a ∈ attrs, P a) → P (.value k i attrs))
    (hn : ∀ id, P (.noval id))
    (hs : ∀ id ms, (∀ m ∈ ms, P m) → P (.seq id ms))
    (hf : ∀ id n ms, (∀ m ∈ ms, P m) → P (.fixedRep id n ms))
    (hd : ∀ id n f ms, P f → (∀ m ∈ ms, P m) → P (.delayedRep id n f ms)) : ∀ (l : List Node), ∀ m ∈ l, P m
  | [] => fun m h => absurd h List.not_mem_nil
  | x :: xs => fun m h => by
    have hx := Node.induct' P hv hn hs hf hd x
    have hxs := Node.inductList P hv hn hs hf hd xs
    rcases List.mem_cons.mp h with h' | h'
    · rw [h']; exact hx
    · exact hxs m h'
end

/-! ### the value pass on a continuation -/

/-- `create_values_from_nodes` applied to the outcome of the filtering -/
def runVals (vals : List Val) (k : Cont) : CM (List QV) :=
  match k with
  | .error e => .error e
  | .ok hs => valuesOf vals hs

/-- every failure is a `QueryError` -/
def QErr {α : Type} (x : CM α) : Prop := ∀ e, x = .error e → e = .query

theorem QErr.ok {α : Type} (a : α) : QErr (.ok a : CM α) := by
  intro e h; cases h

theorem QErr.query {α : Type} : QErr (.error .query : CM α) := by
  intro e h; cases h; rfl

theorem valuesOf_nil (vals : List Val) : valuesOf vals [] = .ok [] := by rw [valuesOf]

theorem valuesOf_cons (vals : List Val) (h : Hit) (hs : List Hit) :
    valuesOf vals (h :: hs) = (match valueOf1 vals h with
      | .error e => .error e
      | .ok v => match valuesOf vals hs with
        | .error e => .error e
        | .ok vs => .ok (v :: vs)) := by rw [valuesOf]; rfl

theorem valueOf1_list (vals : List Val) (l : List Hit) :
    valueOf1 vals (.list l) = (match valuesOf vals l with
      | .error e => .error e
      | .ok vs => .ok (.list vs)) := by rw [valueOf1]; rfl

theorem valuesOf_append (vals : List Val) (a b : List Hit) :
    valuesOf vals (a ++ b) = (match valuesOf vals a with
      | .error e => .error e
      | .ok va => match valuesOf vals b with
        | .error e => .error e
        | .ok vb => .ok (va ++ vb)) := by
  induction a with
  | nil =>
    rw [valuesOf_nil]
    simp only [List.nil_append]
    cases valuesOf vals b <;> rfl
  | cons h hs ih =>
    rw [List.cons_append, valuesOf_cons, valuesOf_cons, ih]
    cases valueOf1 vals h with
    | error e => rfl
    | ok v =>
      simp only
      cases valuesOf vals hs with
      | error e => rfl
      | ok va =>
        simp only
        cases valuesOf vals b <;> rfl

theorem valuesOf_length (vals : List Val) : ∀ (hs : List Hit) (vs : List QV),
    valuesOf vals hs = .ok vs → vs.length = hs.length
  | [], vs, h => by rw [valuesOf_nil] at h; cases h; rfl
  | x :: xs, vs, h => by
    rw [valuesOf_cons] at h
    split at h
    · cases h
    · split at h
      · cases h
      · next vs' hvs' =>
        cases h
        simp only [List.length_cons, valuesOf_length vals xs vs' hvs']

theorem concatQ_qerr : ∀ (l : List (CM (List QV))), (∀ r ∈ l, QErr r) → QErr (Spec.concatQ l)
  | [], _ => by rw [Spec.concatQ]; exact QErr.ok _
  | r :: rs, h => by
    have h1 := h r List.mem_cons_self
    have h2 := concatQ_qerr rs (fun x hx => h x (List.mem_cons_of_mem _ hx))
    cases r with
    | error e => rw [Spec.concatQ]; intro e' he; cases he; exact h1 e rfl
    | ok vs =>
      rw [Spec.concatQ]
      cases hc : Spec.concatQ rs with
      | error e => intro e' he; cases he; exact h2 e hc
      | ok vs' => exact QErr.ok _

theorem envelopeQ_qerr : ∀ (l : List (CM (List QV))), (∀ r ∈ l, QErr r) → QErr (Spec.envelopeQ l)
  | [], _ => by rw [Spec.envelopeQ]; exact QErr.ok _
  | r :: rs, h => by
    have h1 := h r List.mem_cons_self
    have h2 := envelopeQ_qerr rs (fun x hx => h x (List.mem_cons_of_mem _ hx))
    cases r with
    | error e => rw [Spec.envelopeQ]; intro e' he; cases he; exact h1 e rfl
    | ok vs =>
      rw [Spec.envelopeQ]
      cases hc : Spec.envelopeQ rs with
      | error e => intro e' he; cases he; exact h2 e hc
      | ok vs' => exact QErr.ok _

/-- running the selected continuations and reading the values afterwards = evaluating them one after the
    other, provided a failure can only be a `QueryError` -/
theorem concat_eval (vals : List Val) : ∀ (S : List (Cont × CM (List QV))),
    (∀ s ∈ S, runVals vals s.1 = s.2 ∧ QErr s.2) →
    runVals vals (concatConts (S.map (·.1))) = Spec.concatQ (S.map (·.2))
  | [], _ => by
    simp only [List.map_nil, concatConts, Spec.concatQ, runVals, valuesOf_nil]
  | (k, e) :: rest, h => by
    obtain ⟨h1, q1⟩ := h (k, e) List.mem_cons_self
    have hr : ∀ s ∈ rest, runVals vals s.1 = s.2 ∧ QErr s.2 := fun s hs => h s (List.mem_cons_of_mem _ hs)
    have ih := concat_eval vals rest hr
    have q2 : QErr (Spec.concatQ (rest.map (·.2))) :=
      concatQ_qerr _ (fun r hr' => by
        obtain ⟨s, hs, rfl⟩ := List.mem_map.mp hr'
        exact (hr s hs).2)
    simp only [List.map_cons, concatConts, Spec.concatQ]
    simp only at h1
    cases k with
    | error err =>
      simp only [runVals] at h1
      rw [← h1]
      rfl
    | ok hs =>
      simp only [runVals] at h1
      simp only
      cases hc : concatConts (rest.map (·.1)) with
      | error err =>
        rw [hc] at ih
        simp only [runVals] at ih
        have herr : err = .query := q2 err ih.symm
        subst herr
        simp only [runVals]
        rw [← ih]
        cases e with
        | error e1 =>
          have := q1 e1 rfl
          subst this; rfl
        | ok vs => rfl
      | ok hs' =>
        rw [hc] at ih
        simp only [runVals] at ih ⊢
        rw [valuesOf_append, h1, ih]
        cases e with
        | error e1 => rfl
        | ok va => cases Spec.concatQ (rest.map (·.2)) <;> rfl

/-- the loop over the repetitions on already computed per-repetition outcomes -/
def envC : List Cont → Cont
  | [] => .ok []
  | r :: rs => match r with
    | .error e => .error e
    | .ok hs => match envC rs with
      | .error e => .error e
      | .ok rest => .ok (if hs.isEmpty then rest else .list hs :: rest)

theorem envelope_eq (ds : List DDesc) (c : Comp) : ∀ (bs : List (List (Node × Cont))),
    envelope ds c bs = envC (bs.map (selectRun ds c))
  | [] => by simp only [envelope, List.map_nil, envC]
  | b :: bs => by
    simp only [envelope, List.map_cons, envC, envelope_eq ds c bs]
    cases selectRun ds c b with
    | error e => rfl
    | ok hs => cases envC (bs.map (selectRun ds c)) <;> rfl

theorem valuesOf_isEmpty (vals : List Val) (hs : List Hit) (vs : List QV) (h : valuesOf vals hs = .ok vs) :
    vs.isEmpty = hs.isEmpty := by
  have := valuesOf_length vals hs vs h
  cases hs <;> cases vs <;> simp_all

theorem envelope_eval (vals : List Val) : ∀ (S : List (Cont × CM (List QV))),
    (∀ s ∈ S, runVals vals s.1 = s.2 ∧ QErr s.2) →
    runVals vals (envC (S.map (·.1))) = Spec.envelopeQ (S.map (·.2))
  | [], _ => by
    simp only [List.map_nil, envC, Spec.envelopeQ, runVals, valuesOf_nil]
  | (k, e) :: rest, h => by
    obtain ⟨h1, q1⟩ := h (k, e) List.mem_cons_self
    have hr : ∀ s ∈ rest, runVals vals s.1 = s.2 ∧ QErr s.2 := fun s hs => h s (List.mem_cons_of_mem _ hs)
    have ih := envelope_eval vals rest hr
    have q2 : QErr (Spec.envelopeQ (rest.map (·.2))) :=
      envelopeQ_qerr _ (fun r hr' => by
        obtain ⟨s, hs, rfl⟩ := List.mem_map.mp hr'
        exact (hr s hs).2)
    simp only [List.map_cons, envC, Spec.envelopeQ]
    simp only at h1
    cases k with
    | error err =>
      simp only [runVals] at h1
      rw [← h1]
      rfl
    | ok hs =>
      simp only [runVals] at h1
      simp only
      cases hc : envC (rest.map (·.1)) with
      | error err =>
        rw [hc] at ih
        simp only [runVals] at ih
        have herr : err = .query := q2 err ih.symm
        subst herr
        simp only [runVals]
        rw [← ih]
        cases e with
        | error e1 =>
          have := q1 e1 rfl
          subst this; rfl
        | ok vs => rfl
      | ok env' =>
        rw [hc] at ih
        simp only [runVals] at ih ⊢
        rw [← h1, ← ih]
        cases hh : hs with
        | nil =>
          simp only [List.isEmpty_nil, if_true, valuesOf_nil]
          cases valuesOf vals env' <;> rfl
        | cons x xs =>
          simp only [List.isEmpty_cons, Bool.false_eq_true, if_false]
          rw [valuesOf_cons, valueOf1_list]
          cases hv : valuesOf vals (x :: xs) with
          | error e1 => rfl
          | ok vs =>
            have hne := valuesOf_isEmpty vals _ _ hv
            simp only [List.isEmpty_cons] at hne
            simp only [hne, Bool.false_eq_true, if_false]
            cases valuesOf vals env' <;> rfl

/-- the single envelope around the repetitions that have a result -/
def wrapC (k : Cont) : Cont :=
  match k with
  | .error e => .error e
  | .ok env => .ok (if env.isEmpty then [] else [.list env])

def wrapQ (q : CM (List QV)) : CM (List QV) :=
  match q with
  | .error e => .error e
  | .ok env => .ok (if env.isEmpty then [] else [.list env])

theorem wrap_eval (vals : List Val) (k : Cont) (q : CM (List QV)) (h : runVals vals k = q) :
    runVals vals (wrapC k) = wrapQ q := by
  subst h
  cases k with
  | error e => rfl
  | ok env =>
    simp only [wrapC, runVals]
    cases henv : env with
    | nil => simp only [List.isEmpty_nil, if_true, valuesOf_nil, wrapQ]
    | cons x xs =>
      simp only [List.isEmpty_cons, Bool.false_eq_true, if_false]
      rw [valuesOf_cons, valueOf1_list, valuesOf_nil]
      cases hv : valuesOf vals (x :: xs) with
      | error e => rfl
      | ok vs =>
        have hne := valuesOf_isEmpty vals _ _ hv
        simp only [List.isEmpty_cons] at hne
        simp only [wrapQ, hne, Bool.false_eq_true, if_false]

theorem wrapQ_qerr (q : CM (List QV)) (h : QErr q) : QErr (wrapQ q) := by
  cases q with
  | error e => intro e' he; cases he; exact h e rfl
  | ok env => exact QErr.ok _

/-! ### blocks of `n_members` = the chunks the renderer cuts -/

theorem blocks_eq_chunks {α : Type} (n : Nat) (hn : 0 < n) : ∀ (k fuel : Nat) (l : List α),
    l.length = k * n → k ≤ fuel → blocks n fuel l = chunks n k l
  | 0, fuel, l, hl, _ => by
    have : l = [] := List.eq_nil_of_length_eq_zero (by omega)
    subst this
    cases fuel <;> simp [blocks, chunks]
  | k + 1, 0, _, _, hf => by omega
  | k + 1, f + 1, l, hl, hf => by
    have hpos : 0 < l.length := by rw [hl, Nat.succ_mul]; omega
    have hne : l.isEmpty = false := by
      cases l with
      | nil => simp at hpos
      | cons _ _ => rfl
    simp only [blocks, hne, Bool.false_eq_true, if_false, chunks]
    rw [blocks_eq_chunks n hn k f (l.drop n) (by rw [List.length_drop, hl, Nat.succ_mul]; omega) (by omega)]

theorem chunks_map {α β : Type} (f : α → β) (n : Nat) : ∀ (k : Nat) (l : List α),
    chunks n k (l.map f) = (chunks n k l).map (List.map f)
  | 0, _ => rfl
  | k + 1, l => by
    simp only [chunks, List.map_cons, List.map_take]
    rw [← List.map_drop, chunks_map f n k]

theorem chunks_mem {α : Type} (n : Nat) : ∀ (k : Nat) (l : List α), ∀ b ∈ chunks n k l, ∀ t ∈ b, t ∈ l
  | 0, _, b, hb, _, _ => by simp [chunks] at hb
  | k + 1, l, b, hb, t, ht => by
    simp only [chunks, List.mem_cons] at hb
    rcases hb with rfl | hb
    · exact List.mem_of_mem_take ht
    · exact List.mem_of_mem_drop (chunks_mem n k (l.drop n) b hb t ht)

theorem chunks_nil {α : Type} (n : Nat) : ∀ (k : Nat), ∀ b ∈ chunks n k ([] : List α), b = []
  | 0, b, hb => by simp [chunks] at hb
  | k + 1, b, hb => by
    simp only [chunks, List.take_nil, List.drop_nil, List.mem_cons] at hb
    rcases hb with rfl | hb
    · rfl
    · exact chunks_nil n k b hb

theorem repetitions_arr : ∀ (L : List (List NJ)), Spec.repetitions (L.map NJ.arr) = some L
  | [] => rfl
  | l :: L => by simp only [List.map_cons, Spec.repetitions, repetitions_arr L, Option.map_some]

/-! ### node list and rendering, pointwise -/

theorem renderNodes_eq_mapE (o : SubsetOut) : ∀ (l : List Node), renderNodes o l = mapE (renderNode o) l
  | [] => by rw [renderNodes, mapE]
  | n :: ns => by
    rw [renderNodes, mapE, renderNodes_eq_mapE o ns]
    cases renderNode o n with
    | error e => rfl
    | ok x => cases mapE (renderNode o) ns <;> rfl

theorem renderAttrs_eq_mapE (o : SubsetOut) : ∀ (l : List Node), renderAttrs o l = mapE (renderValue o true) l
  | [] => by rw [renderAttrs, mapE]
  | n :: ns => by
    rw [renderAttrs, mapE, renderAttrs_eq_mapE o ns]
    cases renderValue o true n with
    | error e => rfl
    | ok x => cases mapE (renderValue o true) ns <;> rfl

theorem mapE_zip {α β : Type} (g : α → CM β) : ∀ (l : List α) (xs : List β), mapE g l = .ok xs →
    xs.length = l.length ∧ ∀ p ∈ l.zip xs, g p.1 = .ok p.2
  | [], xs, h => by
    rw [mapE] at h; cases h
    exact ⟨rfl, fun p hp => by simp at hp⟩
  | a :: as, xs, h => by
    rw [mapE] at h
    split at h
    · cases h
    · next b hb =>
      split at h
      · cases h
      · next bs hbs =>
        cases h
        obtain ⟨hl, hp⟩ := mapE_zip g as bs hbs
        refine ⟨by simp only [List.length_cons, hl], ?_⟩
        intro p hp'
        simp only [List.zip_cons_cons, List.mem_cons] at hp'
        rcases hp' with rfl | hp'
        · exact hb
        · exact hp p hp'

theorem zip_map_fst {α β : Type} : ∀ (l : List α) (xs : List β), xs.length = l.length → (l.zip xs).map (·.1) = l
  | [], _, _ => by simp
  | a :: as, [], h => by simp at h
  | a :: as, x :: xs, h => by
    simp only [List.zip_cons_cons, List.map_cons, zip_map_fst as xs (by simpa using h)]

theorem zip_map_snd {α β : Type} : ∀ (l : List α) (xs : List β), xs.length = l.length → (l.zip xs).map (·.2) = xs
  | [], [], _ => by simp
  | [], x :: xs, h => by simp at h
  | a :: as, [], h => by simp at h
  | a :: as, x :: xs, h => by
    simp only [List.zip_cons_cons, List.map_cons, zip_map_snd as xs (by simpa using h)]

theorem repsOKList_mem (o : SubsetOut) : ∀ (l : List Node), repsOKList o l = true → ∀ m ∈ l, repsOK1 o m = true
  | [], _, m, hm => absurd hm List.not_mem_nil
  | x :: xs, h, m, hm => by
    rw [repsOKList, Bool.and_eq_true] at h
    rcases List.mem_cons.mp hm with rfl | hm'
    · exact h.1
    · exact repsOKList_mem o xs h.2 m hm'

end Bufr.C16
