/-
  C07: the relation between a state of the coder's walk and the state of the fold `Spec.foldItems` over the
  items recorded so far (`Core`), and the facts about recording primitives, item lists and cancel times it
  rests on.  The steps of the walk are compared with the steps of the fold in Lemmas/LinkSpecSteps.lean.
-/
import BufrModel.Lemmas.LinksFold
import BufrModel.Lemmas.LinkInv
import BufrModel.Spec.LinkCancels
namespace Bufr.C07
open Bufr.Spec

/-! ### recording primitives -/

/-- The primitives record one (label, value) pair per call; `V s` reads the values recorded so far (of the
    subset the bit-maps are taken from), in processing order.  `X` is an invariant of the primitives that
    `lastValues` may rely on (the encoder's: the value index does not exceed the number of values supplied). -/
structure Rec (P : Prims) (V : St → List Val) (X : St → Prop) : Prop where
  quiet : Quiet P
  numeric : ∀ dd n sc r s s', P.numeric dd n sc r s = .ok s' → ∃ v, V s' = V s ++ [v]
  string : ∀ dd n s s', P.string dd n s = .ok s' → ∃ v, V s' = V s ++ [v]
  codeflag : ∀ dd n s s', P.codeflag dd n s = .ok s' → ∃ v, V s' = V s ++ [v]
  constant : ∀ dd c s s', P.constant dd c s = .ok s' → ∃ v, V s' = V s ++ [v]
  newRefval : ∀ e n s s', P.newRefval e n s = .ok s' → s'.descs = .plain e :: s.descs ∧ ∃ v, V s' = V s ++ [v]
  lastValues : ∀ k s l, P.lastValues k s = .ok l → 1 ≤ k → k ≤ (V s).length → X s → l = Spec.lastN k (V s)
  /-- no primitive changes the NUMBER of value lists (subsets) -/
  numericL : ∀ dd n sc r s s', P.numeric dd n sc r s = .ok s' → s'.vals.length = s.vals.length
  stringL : ∀ dd n s s', P.string dd n s = .ok s' → s'.vals.length = s.vals.length
  codeflagL : ∀ dd n s s', P.codeflag dd n s = .ok s' → s'.vals.length = s.vals.length
  constantL : ∀ dd c s s', P.constant dd c s = .ok s' → s'.vals.length = s.vals.length
  newRefvalL : ∀ e n s s', P.newRefval e n s = .ok s' → s'.vals.length = s.vals.length
  numericX : ∀ dd n sc r s s', P.numeric dd n sc r s = .ok s' → X s → X s'
  stringX : ∀ dd n s s', P.string dd n s = .ok s' → X s → X s'
  codeflagX : ∀ dd n s s', P.codeflag dd n s = .ok s' → X s → X s'
  constantX : ∀ dd c s s', P.constant dd c s = .ok s' → X s → X s'
  newRefvalX : ∀ e n s s', P.newRefval e n s = .ok s' → X s → X s'
  setRegsX : ∀ s f, X s → X (s.setRegs f)
  addLinkX : ∀ s o, X s → X (addLink s o)
  setRegs : ∀ s f, V (s.setRegs f) = V s
  addLink : ∀ s o, V (addLink s o) = V s

/-- the items recorded so far, in processing order -/
def items (V : St → List Val) (s : St) : List Item := s.descs.reverse.zip (V s)

theorem items_snoc (V : St → List Val) (s s' : St) (dd : DDesc) (v : Val) (hl : (V s).length = s.descs.length)
    (hd : s'.descs = dd :: s.descs) (hv : V s' = V s ++ [v]) : items V s' = items V s ++ [(dd, v)] := by
  unfold items
  rw [hd, hv, List.reverse_cons, List.zip_append (by simp [hl])]
  rfl

theorem items_length (V : St → List Val) (s : St) (hl : (V s).length = s.descs.length) :
    (items V s).length = s.descs.length := by
  unfold items; simp [hl]

theorem items_congr (V : St → List Val) (s s' : St) (hd : s'.descs = s.descs) (hv : V s' = V s) :
    items V s' = items V s := by
  unfold items; rw [hd, hv]

/-! ### the fold does not look at cancel times at or behind the end of the items -/

theorem foldItems_pos (cs : List Nat) (its : List Item) : (foldItems cs its).pos = its.length :=
  (FInv.fold cs its).s.pos

theorem step_cancels_congr (cs cs' : List Nat) (st : FS) (x : Item) (h : cs.contains st.pos = cs'.contains st.pos) :
    step cs st x = step cs' st x := by
  have e : can1 cs (fin1 st x) = can1 cs' (fin1 st x) := by
    unfold can1
    rw [fin1_pos, h]
  rw [step_eq, step_eq, e]

theorem foldItems_cancels_congr (cs cs' : List Nat) (its : List Item)
    (h : ∀ i, i < its.length → cs.contains i = cs'.contains i) : foldItems cs its = foldItems cs' its := by
  revert h
  refine snoc_induction (P := fun its => (∀ i, i < its.length → cs.contains i = cs'.contains i) →
    foldItems cs its = foldItems cs' its) ?_ ?_ its
  · intro _; rfl
  · intro pre x ih h
    have h1 := ih (fun i hi => h i (by simp; omega))
    rw [foldItems_snoc, foldItems_snoc, h1]
    apply step_cancels_congr
    rw [foldItems_pos]
    exact h _ (by simp)

theorem foldItems_cancel_end (cs : List Nat) (its : List Item) (n : Nat) (hn : its.length ≤ n) :
    foldItems (cs ++ [n]) its = foldItems cs its := by
  apply foldItems_cancels_congr
  intro i hi
  have : i ≠ n := by omega
  simp [List.contains_eq_mem, this]

/-! ### plain items: the walk's view and the specification's -/

theorem plainBelow_zip (ds : List DDesc) (vs : List Val) (hl : vs.length = ds.length) (p : Nat) (hp : p ≤ ds.length) :
    plainBelow (ds.zip vs) p = plainFrom 0 (ds.take p) := by
  induction p with
  | zero => simp [plainBelow, plainFrom]
  | succ p ih =>
    have hp' : p < ds.length := by omega
    rw [plainBelow_succ, ih (by omega)]
    have e : ds.take (p + 1) = ds.take p ++ [ds[p]] := by
      rw [List.take_add_one, List.getElem?_eq_getElem hp']; rfl
    rw [e, plainFrom_append]
    congr 1
    have hz : (ds.zip vs)[p]? = some (ds[p], vs[p]'(by omega)) := by
      rw [List.getElem?_eq_getElem (by simp; omega)]
      simp
    rw [hz]
    simp only [Option.bind_some, List.length_take, Nat.min_eq_left (Nat.le_of_lt hp'), Nat.zero_add]
    cases hd : ds[p] <;> simp [plainElem?, plainFrom, plain?]

/-! ### the relation between the walk and the fold -/

/-- the fold state the registers are compared with: the pending definition has taken effect, unless the
    walk is still counting its bits (the walk builds the selection at the NEXT member, the fold at the next
    item that is not a bit) -/
def vw (s : St) (st : FS) : FS := if s.regs.bitmapDef = .counting then st else finalize st

/-- the candidates in force as the walk sees them: a 235000 processed since the last item has cleared them -/
def estV (s : St) (cs : List Nat) (st : FS) : Option (List (Nat × Elem)) :=
  if cs.contains s.descs.length then none else (vw s st).est

structure RegsRel (s : St) (cs : List Nat) (st : FS) : Prop where
  backRefs : (s.regs.backRefs = none ∧ estV s cs st = none) ∨
    ∃ br, br ≠ [] ∧ s.regs.backRefs = some br ∧ estV s cs st = some br
  bitmapped : s.regs.bitmapped = none ∨ s.regs.bitmapped = some (vw s st).sel
  iter : s.regs.bmIter.getD [] = (vw s st).iter

/-- the state machine of `process_bitmap_definition` against the phase of the fold -/
def PhaseRel (V : St → List Val) (s : St) (cs : List Nat) (st : FS) : Prop :=
  match s.regs.bitmapDef with
  | .na => st.ph = .idle ∨ ∃ p r bits, st.ph = .run p r bits
  | .indicator => st.ph = .afterOp s.regs.backBoundary ∧ ∀ c ∈ cs, c ≤ s.regs.backBoundary
  | .waiting => (st.ph = .afterOp s.regs.backBoundary ∨ ∃ r, st.ph = .pre s.regs.backBoundary r) ∧
      s.regs.n031031 = 0
  | .counting => ∃ r bits, st.ph = .run s.regs.backBoundary r bits ∧ s.regs.n031031 = bits.length ∧ bits ≠ [] ∧
      Spec.lastN bits.length (V s) = bits ∧ ∀ c ∈ cs, c ≤ s.regs.backBoundary

/-- `Core V s cs`: the walk state `s`, having processed 235000 at the times `cs`, agrees with the fold over
    the items it has recorded -/
structure Core (V : St → List Val) (s : St) (cs : List Nat) : Prop where
  len : (V s).length = s.descs.length
  links : s.links = (foldItems cs (items V s)).links
  qa : s.regs.qa = (foldItems cs (items V s)).qa
  quiet : s.regs.nbitsNewRefval = 0 ∧ s.regs.nbitsSkipped = 0 ∧ s.regs.dnpCount = 0
  cs_le : ∀ c ∈ cs, c ≤ s.descs.length
  phase : PhaseRel V s cs (foldItems cs (items V s))
  regs : RegsRel s cs (foldItems cs (items V s))
  /-- completeness: every item that wants an owner has got a link -/
  complete : ∀ i, consumes (items V s) i = true → ∃ o, (i, o) ∈ s.links

theorem Core.pos {V : St → List Val} {s : St} {cs : List Nat} (h : Core V s cs) :
    (foldItems cs (items V s)).pos = s.descs.length := by
  rw [foldItems_pos, items_length V s h.len]

theorem Core.sinv {V : St → List Val} {s : St} {cs : List Nat} (_h : Core V s cs) :
    SInv (items V s) (foldItems cs (items V s)) := (FInv.fold cs _).s

/-- the operator position of a phase lies below the end of the items -/
theorem SInv.ph_lt {pre : List Item} {st : FS} (h : SInv pre st) (p : Nat)
    (hp : st.ph = .afterOp p ∨ (∃ r, st.ph = .pre p r) ∨ ∃ r bits, st.ph = .run p r bits) : p < pre.length := by
  rcases h.seg with ⟨_, h2⟩ | ⟨A, op, B, e, _, _, hB, _⟩
  · rcases hp with hp | ⟨r, hp⟩ | ⟨r, bits, hp⟩ <;> (rw [hp] at h2; cases h2)
  · have hl : A.length < pre.length := by rw [e]; simp
    rcases hp with hp | ⟨r, hp⟩ | ⟨r, bits, hp⟩
    · rw [hp] at hB; obtain ⟨rfl, _⟩ := hB; exact hl
    · rw [hp] at hB; obtain ⟨rfl, _⟩ := hB; exact hl
    · rw [hp] at hB; obtain ⟨rfl, _⟩ := hB; exact hl

theorem buildBitmapped_eq' (s : St) (bm : List Val) :
    buildBitmapped s bm =
      (if (brFor s bm.length).length ≠ bm.length then .error .lib
       else .ok (s.setRegs fun r => { r with backRefs := some (brFor s bm.length),
                                             bitmapped := some (zeroSel bm (brFor s bm.length)),
                                             bmIter := some (zeroSel bm (brFor s bm.length)) })) := rfl

end Bufr.C07
