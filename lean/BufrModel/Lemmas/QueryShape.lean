/-
  Lemmas for C16: the wiring pass establishes the shape condition `repsOKList` (every replication node holds
  `n_repeats * n_members` member nodes), and putting the later attachments into the tree (`resolve`) keeps
  both the shape and the flat indices `idxList` of the tree.
-/
import BufrModel.Lemmas.QueryBase
namespace Bufr.C16
open Bufr.Query Bufr.C09

/-- what the attribute table may hold: well-shaped nodes that are not associated fields -/
def TabOK (o : SubsetOut) (tab : List (Nat × Node)) : Prop :=
  ∀ p ∈ tab, repsOK1 o p.2 = true ∧ p.2.kindIsAssoc = false

theorem TabOK.cons {o : SubsetOut} {tab : List (Nat × Node)} {i : Nat} {n : Node} (h : TabOK o tab)
    (h1 : repsOK1 o n = true) (h2 : n.kindIsAssoc = false) : TabOK o ((i, n) :: tab) := by
  intro p hp
  rcases List.mem_cons.mp hp with rfl | hp
  · exact ⟨h1, h2⟩
  · exact h p hp

theorem take_tab {o : SubsetOut} {s s' : WSt} {i : Nat} (h : s.take o = .ok (i, s')) : s'.tab = s.tab := by
  obtain ⟨_, h2, _⟩ := take_ok h
  rw [h2]

theorem valueNode_tab {o : SubsetOut} {s s' : WSt} {n : Node} {i : Nat}
    (h : s.valueNode o = .ok (n, i, s')) : n = .value .value i [] ∧ s'.tab = s.tab := by
  unfold WSt.valueNode at h
  split at h
  · cases h
  · next i' s1 ht =>
    cases h
    exact ⟨rfl, by show s1.tab = s.tab; exact take_tab ht⟩

theorem plainValue_tab {o : SubsetOut} {s s' : WSt} {n : Node}
    (h : s.plainValue o = .ok (n, s')) : (∃ i, n = .value .value i []) ∧ s'.tab = s.tab := by
  unfold WSt.plainValue at h
  split at h
  · cases h
  · next n' i s1 hv =>
    cases h
    obtain ⟨h1, h2⟩ := valueNode_tab hv
    exact ⟨⟨i, h1⟩, h2⟩

theorem bitmapAttr_tab {o : SubsetOut} {s s' : WSt} {i : Nat} {n : Node}
    (h : s.bitmapAttr o i n = .ok s') : ∃ owner, s'.tab = (owner, n) :: s.tab := by
  unfold WSt.bitmapAttr at h
  split at h
  · cases h
  · next owner _ =>
    split at h
    · cases h; exact ⟨owner, rfl⟩
    · cases h

theorem repsOK1_plain (o : SubsetOut) (k : VKind) (i : Nat) : repsOK1 o (.value k i []) = true := by
  rw [repsOK1, repsOKList]

theorem repsOK1_attr1 (o : SubsetOut) (k k' : VKind) (i m : Nat) :
    repsOK1 o (.value k i [.value k' m []]) = true := by
  rw [repsOK1, repsOKList, repsOK1_plain, repsOKList]; rfl

theorem wireElement_shape {o : SubsetOut} {id : Nat} {s s' : WSt} {n : Node}
    (h : wireElement o id s = .ok (n, s')) (hT : TabOK o s.tab) : repsOK1 o n = true ∧ TabOK o s'.tab := by
  unfold wireElement at h
  split at h
  · split at h
    · cases h
    · next a s1 ht1 =>
      split at h
      · cases h
      · next m _ =>
        split at h
        · cases h
        · next i s2 ht2 =>
          cases h
          refine ⟨?_, ?_⟩
          · rw [repsOK1, repsOKList, repsOK1_attr1, repsOKList]; rfl
          · show TabOK o s2.tab
            rw [take_tab ht2, take_tab ht1]; exact hT
  · split at h
    · split at h
      · cases h
      · next i s1 ht =>
        simp only at h
        split at h
        · cases h
        · next s2 hb =>
          cases h
          obtain ⟨owner, hb'⟩ := bitmapAttr_tab hb
          refine ⟨repsOK1_plain _ _ _, ?_⟩
          rw [hb']
          apply TabOK.cons _ (repsOK1_plain _ _ _) rfl
          show TabOK o s1.tab
          rw [take_tab ht]; exact hT
    · split at h
      · cases h
      · next n' i s1 hv =>
        obtain ⟨hn, ht⟩ := valueNode_tab hv
        have hT1 : TabOK o s1.tab := by rw [ht]; exact hT
        subst hn
        split at h
        · cases h; exact ⟨repsOK1_plain _ _ _, hT1⟩
        · split at h
          · cases h; exact ⟨repsOK1_plain _ _ _, hT1⟩
          · split at h
            · cases h; exact ⟨repsOK1_plain _ _ _, hT1⟩
            · cases h; exact ⟨repsOK1_plain _ _ _, hT1⟩

theorem wireMarker_shape {o : SubsetOut} {k : VKind} {s s' : WSt} {n : Node} (hk : k.isAssoc = false)
    (h : wireMarker o k s = .ok (n, s')) (hT : TabOK o s.tab) : repsOK1 o n = true ∧ TabOK o s'.tab := by
  unfold wireMarker at h
  split at h
  · cases h
  · next i s1 ht =>
    simp only at h
    split at h
    · cases h
    · next s2 hb =>
      cases h
      obtain ⟨owner, hb'⟩ := bitmapAttr_tab hb
      refine ⟨repsOK1_plain _ _ _, ?_⟩
      rw [hb']
      apply TabOK.cons _ (repsOK1_plain _ _ _) hk
      show TabOK o s1.tab
      rw [take_tab ht]; exact hT

theorem wireStatsMarker_shape {o : SubsetOut} {k : VKind} {m : Option Nat} {s s' : WSt} {n : Node}
    (hk : k.isAssoc = false)
    (h : wireStatsMarker o k m s = .ok (n, s')) (hT : TabOK o s.tab) : repsOK1 o n = true ∧ TabOK o s'.tab := by
  unfold wireStatsMarker at h
  split at h
  · cases h
  · next i s1 ht =>
    split at h
    · cases h
    · next mm =>
      simp only at h
      split at h
      · cases h
      · next s2 hb =>
        cases h
        obtain ⟨owner, hb'⟩ := bitmapAttr_tab hb
        refine ⟨repsOK1_attr1 _ _ _ _ _, ?_⟩
        rw [hb']
        apply TabOK.cons _ (repsOK1_attr1 _ _ _ _ _) hk
        show TabOK o s1.tab
        rw [take_tab ht]; exact hT

theorem plainValue_shape {o : SubsetOut} {s s0 s' : WSt} {n : Node}
    (h : s0.plainValue o = .ok (n, s')) (h0 : s0.tab = s.tab) (hT : TabOK o s.tab) :
    repsOK1 o n = true ∧ TabOK o s'.tab := by
  obtain ⟨⟨i, hn⟩, ht⟩ := plainValue_tab h
  subst hn
  exact ⟨repsOK1_plain _ _ _, by rw [ht, h0]; exact hT⟩

theorem repsOK1_noval (o : SubsetOut) (id : Nat) : repsOK1 o (.noval id) = true := by rw [repsOK1]

theorem wireOperatorCY_shape {o : SubsetOut} {id code y : Nat} {s s' : WSt} {n : Node}
    (h : wireOperatorCY o id code y s = .ok (n, s')) (hT : TabOK o s.tab) :
    repsOK1 o n = true ∧ TabOK o s'.tab := by
  unfold wireOperatorCY at h
  by_cases c1 : code = 201 ∨ code = 202 ∨ code = 203 ∨ code = 206 ∨ code = 207 ∨ code = 208
  · rw [if_pos c1] at h
    cases h; exact ⟨repsOK1_noval _ _, hT⟩
  rw [if_neg c1] at h
  by_cases c2 : code = 204
  · rw [if_pos c2] at h
    split at h
    · split at h
      · cases h
      · cases h; exact ⟨repsOK1_noval _ _, hT⟩
    · cases h; exact ⟨repsOK1_noval _ _, hT⟩
  rw [if_neg c2] at h
  by_cases c3 : code = 205
  · rw [if_pos c3] at h
    exact plainValue_shape h rfl hT
  rw [if_neg c3] at h
  by_cases c4 : code = 221
  · rw [if_pos c4] at h
    cases h; exact ⟨repsOK1_noval _ _, hT⟩
  rw [if_neg c4] at h
  by_cases c5 : code = 222
  · rw [if_pos c5] at h
    exact plainValue_shape h rfl hT
  rw [if_neg c5] at h
  by_cases c6 : code = 223
  · rw [if_pos c6] at h
    dsimp only at h
    split at h
    · exact plainValue_shape h rfl hT
    · exact wireMarker_shape rfl h hT
  rw [if_neg c6] at h
  by_cases c7 : code = 224
  · rw [if_pos c7] at h
    dsimp only at h
    split at h
    · exact plainValue_shape h rfl hT
    · exact wireStatsMarker_shape rfl h hT
  rw [if_neg c7] at h
  by_cases c8 : code = 225
  · rw [if_pos c8] at h
    dsimp only at h
    split at h
    · exact plainValue_shape h rfl hT
    · exact wireStatsMarker_shape rfl h hT
  rw [if_neg c8] at h
  by_cases c9 : code = 232
  · rw [if_pos c9] at h
    dsimp only at h
    split at h
    · exact plainValue_shape h rfl hT
    · exact wireMarker_shape rfl h hT
  rw [if_neg c9] at h
  by_cases c10 : code = 235
  · rw [if_pos c10] at h
    cases h; exact ⟨repsOK1_noval _ _, hT⟩
  rw [if_neg c10] at h
  by_cases c11 : code = 236 ∨ code = 237
  · rw [if_pos c11] at h
    exact plainValue_shape h rfl hT
  rw [if_neg c11] at h
  cases h

theorem repsOKList_append (o : SubsetOut) : ∀ (a b : List Node),
    repsOKList o (a ++ b) = (repsOKList o a && repsOKList o b)
  | [], b => by rw [List.nil_append, repsOKList, Bool.true_and]
  | x :: xs, b => by rw [List.cons_append, repsOKList, repsOKList, repsOKList_append o xs b, Bool.and_assoc]

theorem repsOKList_of_mem (o : SubsetOut) : ∀ (l : List Node), (∀ m ∈ l, repsOK1 o m = true) → repsOKList o l = true
  | [], _ => by rw [repsOKList]
  | x :: xs, h => by
    rw [repsOKList, h x List.mem_cons_self, repsOKList_of_mem o xs (fun m hm => h m (List.mem_cons_of_mem _ hm))]
    rfl

theorem wireRepeat_shape (o : SubsetOut) (f : WSt → CM (List Node × WSt))
    (hf : ∀ s ns s', f s = .ok (ns, s') → TabOK o s.tab → repsOKList o ns = true ∧ TabOK o s'.tab) :
    ∀ n s ns s', wireRepeat f n s = .ok (ns, s') → TabOK o s.tab → repsOKList o ns = true ∧ TabOK o s'.tab := by
  intro n
  induction n with
  | zero =>
    intro s ns s' h hT
    unfold wireRepeat at h
    cases h
    exact ⟨by rw [repsOKList], hT⟩
  | succ n ih =>
    intro s ns s' h hT
    unfold wireRepeat at h
    split at h
    · cases h
    · next ns1 s1 h1 =>
      split at h
      · cases h
      · next ns2 s2 h2 =>
        cases h
        obtain ⟨a1, t1⟩ := hf _ _ _ h1 hT
        obtain ⟨a2, t2⟩ := ih _ _ _ h2 t1
        exact ⟨by rw [repsOKList_append, a1, a2]; rfl, t2⟩

mutual
theorem wireList_shape (o : SubsetOut) : ∀ (ds : List Desc) (s : WSt) (ns : List Node) (s' : WSt),
    wireList o ds s = .ok (ns, s') → TabOK o s.tab → repsOKList o ns = true ∧ TabOK o s'.tab
  | [], s, ns, s', h, hT => by
    unfold wireList at h
    cases h
    exact ⟨by rw [repsOKList], hT⟩
  | d :: ds, s, ns, s', h, hT => by
    unfold wireList at h
    split at h
    · cases h
    · next n s1 h1 =>
      split at h
      · cases h
      · next ns2 s2 h2 =>
        cases h
        obtain ⟨a1, t1⟩ := wire1_shape o d s n s1 h1 hT
        obtain ⟨a2, t2⟩ := wireList_shape o ds s1 ns2 _ h2 t1
        exact ⟨by rw [repsOKList, a1, a2]; rfl, t2⟩

theorem wire1_shape (o : SubsetOut) : ∀ (d : Desc) (s : WSt) (n : Node) (s' : WSt),
    wire1 o d s = .ok (n, s') → TabOK o s.tab → repsOK1 o n = true ∧ TabOK o s'.tab
  | d, s0, n, s', h, hT0 => by
    unfold wire1 at h
    simp only at h
    have hs0 : (if s0.dnp ≠ 0 then { s0 with dnp := s0.dnp - 1 } else s0 : WSt).tab = s0.tab := by
      split <;> rfl
    have hT : TabOK o (if s0.dnp ≠ 0 then { s0 with dnp := s0.dnp - 1 } else s0 : WSt).tab := by
      rw [hs0]; exact hT0
    split at h
    · cases h
      exact ⟨repsOK1_noval _ _, hT⟩
    · split at h
      · exact wireElement_shape h hT
      · next _ id ms _ =>
        split at h
        · cases h
        · next ns s1 hr =>
          cases h
          obtain ⟨a, t⟩ := wireRepeat_shape o (wireList o ms)
            (fun s ns s' hh hT' => wireList_shape o ms s ns s' hh hT') _ _ _ _ hr hT
          have hlen := (wireRepeat_consumes (wireList o ms) ms.length
            (fun s ns s' hh => wireList_consumes o ms s ns s' hh) _ _ _ _ hr).2
          refine ⟨?_, t⟩
          rw [repsOK1, a, hlen]
          simp
      · next _ id f ms _ =>
        split at h
        · cases h
        · next i s1 ht =>
          split at h
          · cases h
          · next cnt hcnt =>
            split at h
            · cases h
            · next ns s2 hr =>
              cases h
              have hT1 : TabOK o (s1.register i).tab := by
                show TabOK o s1.tab
                rw [take_tab ht]; exact hT
              obtain ⟨a, t⟩ := wireRepeat_shape o (wireList o ms)
                (fun s ns s' hh hT' => wireList_shape o ms s ns s' hh hT') _ _ _ _ hr hT1
              have hlen := (wireRepeat_consumes (wireList o ms) ms.length
                (fun s ns s' hh => wireList_consumes o ms s ns s' hh) _ _ _ _ hr).2
              refine ⟨?_, t⟩
              rw [repsOK1]
              simp only [hcnt, a, hlen, repsOKList]
              simp
      · exact wireOperatorCY_shape h hT
      · next _ id ms _ =>
        split at h
        · cases h
        · next ns s1 hl =>
          cases h
          obtain ⟨a, t⟩ := wireList_shape o ms _ _ _ hl hT
          exact ⟨by rw [repsOK1]; exact a, t⟩
      · exact plainValue_shape h rfl hT
      · cases h
end

/-! ### `resolve` keeps the shape and the flat indices -/

theorem mapE_forall {α β : Type} (g : α → CM β) (P : α → Prop) (Q : β → Prop)
    (hg : ∀ a b, P a → g a = .ok b → Q b) : ∀ (l : List α) (xs : List β), mapE g l = .ok xs →
      (∀ a ∈ l, P a) → ∀ b ∈ xs, Q b
  | [], xs, h, _, b, hb => by rw [mapE] at h; cases h; simp at hb
  | a :: as, xs, h, hP, b, hb => by
    rw [mapE] at h
    split at h
    · cases h
    · next b0 hb0 =>
      split at h
      · cases h
      · next bs hbs =>
        cases h
        rcases List.mem_cons.mp hb with rfl | hb'
        · exact hg a _ (hP a List.mem_cons_self) hb0
        · exact mapE_forall g P Q hg as bs hbs (fun a' ha' => hP a' (List.mem_cons_of_mem _ ha')) b hb'

theorem resolveV_pres {tab : List (Nat × Node)} {f : Nat} {n r : Node} (h : resolveV tab f n = .ok r) :
    r.kindIsAssoc = n.kindIsAssoc ∧ r.index? = n.index? := by
  cases n with
  | value k i own => obtain ⟨attrs, rfl⟩ := resolveV_value h; exact ⟨rfl, rfl⟩
  | noval id => cases f <;> simp [resolveV] at h; subst h; exact ⟨rfl, rfl⟩
  | seq id ms => cases f <;> simp [resolveV] at h; subst h; exact ⟨rfl, rfl⟩
  | fixedRep id n ms => cases f <;> simp [resolveV] at h; subst h; exact ⟨rfl, rfl⟩
  | delayedRep id n g ms => cases f <;> simp [resolveV] at h; subst h; exact ⟨rfl, rfl⟩

theorem mapE_assoc_idx {g : Node → CM Node}
    (hg : ∀ a b, g a = .ok b → b.kindIsAssoc = a.kindIsAssoc ∧ b.index? = a.index?) :
    ∀ (l xs : List Node), mapE g l = .ok xs →
      (xs.filter Node.kindIsAssoc).filterMap Node.index? = (l.filter Node.kindIsAssoc).filterMap Node.index?
  | [], xs, h => by rw [mapE] at h; cases h; rfl
  | a :: as, xs, h => by
    rw [mapE] at h
    split at h
    · cases h
    · next b hb =>
      split at h
      · cases h
      · next bs hbs =>
        cases h
        obtain ⟨h1, h2⟩ := hg a b hb
        have ih := mapE_assoc_idx hg as bs hbs
        simp only [List.filter_cons, h1]
        split
        · simp only [List.filterMap_cons, h2, ih]
        · exact ih

theorem filter_assoc_nil (l : List Node) (h : ∀ b ∈ l, b.kindIsAssoc = false) : l.filter Node.kindIsAssoc = [] := by
  rw [List.filter_eq_nil_iff]
  intro b hb
  rw [h b hb]; simp

theorem tabFor_mem {tab : List (Nat × Node)} {i : Nat} {a : Node} (h : a ∈ tabFor tab i) : ∃ p ∈ tab, p.2 = a := by
  unfold tabFor at h
  obtain ⟨q, hq, rfl⟩ := List.mem_map.mp h
  rw [List.mem_filter] at hq
  exact ⟨q, List.mem_reverse.mp hq.1, rfl⟩

/-- a value node with all its attributes: well shaped again, same kind, same index, same associated fields -/
theorem resolveV_shape (o : SubsetOut) (tab : List (Nat × Node)) (hT : TabOK o tab) :
    ∀ (f : Nat) (n r : Node), resolveV tab f n = .ok r → repsOK1 o n = true → repsOK1 o r = true
  | 0, n, r, h, _ => by unfold resolveV at h; cases h
  | f + 1, .value k i own, r, h, hS => by
    unfold resolveV at h
    split at h
    · cases h
    · next as1 h1 =>
      split at h
      · cases h
      · next as2 h2 =>
        cases h
        rw [repsOK1] at hS ⊢
        rw [repsOKList_append, Bool.and_eq_true]
        constructor
        · apply repsOKList_of_mem
          exact mapE_forall _ (fun a => repsOK1 o a = true) (fun b => repsOK1 o b = true)
            (fun a b ha hab => resolveV_shape o tab hT f a b hab ha) own as1 h1 (repsOKList_mem o own hS)
        · apply repsOKList_of_mem
          exact mapE_forall _ (fun a => repsOK1 o a = true) (fun b => repsOK1 o b = true)
            (fun a b ha hab => resolveV_shape o tab hT f a b hab ha) _ as2 h2
            (fun a ha => by obtain ⟨p, hp, rfl⟩ := tabFor_mem ha; exact (hT p hp).1)
  | f + 1, .noval id, r, h, hS => by simp [resolveV] at h; subst h; exact hS
  | f + 1, .seq id ms, r, h, hS => by simp [resolveV] at h; subst h; exact hS
  | f + 1, .fixedRep id n ms, r, h, hS => by simp [resolveV] at h; subst h; exact hS
  | f + 1, .delayedRep id n g ms, r, h, hS => by simp [resolveV] at h; subst h; exact hS

theorem resolveV_idx (o : SubsetOut) (tab : List (Nat × Node)) (hT : TabOK o tab) (f : Nat) (k : VKind) (i : Nat)
    (own : List Node) (r : Node) (h : resolveV tab f (.value k i own) = .ok r) :
    ∃ attrs, r = .value k i attrs ∧ valueIdx i attrs = valueIdx i own := by
  cases f with
  | zero => unfold resolveV at h; cases h
  | succ f =>
    unfold resolveV at h
    split at h
    · cases h
    · next as1 h1 =>
      split at h
      · cases h
      · next as2 h2 =>
        cases h
        refine ⟨_, rfl, ?_⟩
        unfold valueIdx
        rw [List.filter_append, List.filterMap_append, mapE_assoc_idx (fun a b hab => resolveV_pres hab) own as1 h1]
        have : as2.filter Node.kindIsAssoc = [] := by
          apply filter_assoc_nil
          exact mapE_forall _ (fun a => a.kindIsAssoc = false) (fun b => b.kindIsAssoc = false)
            (fun a b ha hab => by rw [(resolveV_pres hab).1]; exact ha) _ as2 h2
            (fun a ha => by obtain ⟨p, hp, rfl⟩ := tabFor_mem ha; exact (hT p hp).2)
        rw [this]
        simp

/-- what `resolve` keeps of a node -/
def ResolveOK (o : SubsetOut) (tab : List (Nat × Node)) (fuel : Nat) (n : Node) : Prop :=
  ∀ r, resolve1 tab fuel n = .ok r → repsOK1 o n = true → repsOK1 o r = true ∧ idx1 r = idx1 n

theorem resolveList_pres (o : SubsetOut) (tab : List (Nat × Node)) (fuel : Nat) : ∀ (ms ms' : List Node),
    (∀ m ∈ ms, ResolveOK o tab fuel m) → resolveList tab fuel ms = .ok ms' → repsOKList o ms = true →
      repsOKList o ms' = true ∧ idxList ms' = idxList ms ∧ ms'.length = ms.length
  | [], ms', _, h, _ => by
    rw [resolveList] at h; cases h
    exact ⟨by rw [repsOKList], rfl, rfl⟩
  | m :: ms, ms', hP, h, hS => by
    rw [resolveList] at h
    split at h
    · cases h
    · next m' hm' =>
      split at h
      · cases h
      · next ms2 hms2 =>
        cases h
        rw [repsOKList, Bool.and_eq_true] at hS
        obtain ⟨a1, b1⟩ := hP m List.mem_cons_self m' hm' hS.1
        obtain ⟨a2, b2, c2⟩ := resolveList_pres o tab fuel ms ms2 (fun x hx => hP x (List.mem_cons_of_mem _ hx)) hms2 hS.2
        refine ⟨by rw [repsOKList, a1, a2]; rfl, by rw [idxList, idxList, b1, b2], by simp [c2]⟩

theorem resolveOK_all (o : SubsetOut) (tab : List (Nat × Node)) (hT : TabOK o tab) (fuel : Nat) :
    ∀ n, ResolveOK o tab fuel n := by
  apply Node.induct' (ResolveOK o tab fuel)
  · intro k i own _ r h hS
    rw [resolve1] at h
    obtain ⟨attrs, rfl, hidx⟩ := resolveV_idx o tab hT fuel k i own r h
    exact ⟨resolveV_shape o tab hT fuel _ _ h hS, by rw [idx1, idx1, hidx]⟩
  · intro id r h hS
    rw [resolve1] at h; cases h
    exact ⟨hS, rfl⟩
  · intro id ms ih r h hS
    rw [resolve1] at h
    split at h
    · cases h
    · next ms' hms' =>
      cases h
      rw [repsOK1] at hS
      obtain ⟨a, b, _⟩ := resolveList_pres o tab fuel ms ms' ih hms' hS
      exact ⟨by rw [repsOK1]; exact a, by rw [idx1, idx1, b]⟩
  · intro id n ms ih r h hS
    rw [resolve1] at h
    split at h
    · cases h
    · next ms' hms' =>
      cases h
      rw [repsOK1, Bool.and_eq_true] at hS
      obtain ⟨a, b, c⟩ := resolveList_pres o tab fuel ms ms' ih hms' hS.2
      exact ⟨by rw [repsOK1, a, c]; simpa using hS.1, by rw [idx1, idx1, b]⟩
  · intro id n f ms _ ih r h hS
    cases f with
    | value kf i own =>
      rw [resolve1] at h
      split at h
      · cases h
      · next f' hf' =>
        split at h
        · cases h
        · next ms' hms' =>
          cases h
          rw [repsOK1, Bool.and_eq_true] at hS
          obtain ⟨a, b, c⟩ := resolveList_pres o tab fuel ms ms' ih hms' hS.2
          obtain ⟨attrs, rfl, hidx⟩ := resolveV_idx o tab hT fuel kf i own f' hf'
          have h1 := hS.1
          simp only [Bool.and_eq_true] at h1
          have hsf : repsOK1 o (.value kf i attrs) = true :=
            resolveV_shape o tab hT fuel _ _ hf' (by rw [repsOK1]; exact h1.2)
          rw [repsOK1] at hsf
          refine ⟨?_, by simp only [idx1, hidx, b]⟩
          rw [repsOK1, a, hsf, c]
          simp only [Bool.and_true]
          exact h1.1
    | noval _ => simp [repsOK1] at hS
    | seq _ _ => simp [repsOK1] at hS
    | fixedRep _ _ _ => simp [repsOK1] at hS
    | delayedRep _ _ _ _ => simp [repsOK1] at hS

/-- the tree every reader sees: well shaped, and its flat indices are those of the raw tree -/
theorem tree_shape (o : SubsetOut) (w : Wired) (tree : List Node) (hT : TabOK o w.st.tab)
    (hS : repsOKList o w.nodes = true) (h : w.tree = .ok tree) :
    repsOKList o tree = true ∧ idxList tree = idxList w.nodes := by
  unfold Wired.tree at h
  obtain ⟨a, b, _⟩ := resolveList_pres o w.st.tab w.fuel w.nodes tree
    (fun m _ => resolveOK_all o w.st.tab hT w.fuel m) h hS
  exact ⟨a, b⟩

theorem wire_shape (t : List Desc) (o : SubsetOut) (tree : List Node) (h : wire t o = .ok tree) :
    ∃ w, wireRaw t o = .ok w ∧ repsOKList o tree = true ∧ idxList tree = idxList w.nodes := by
  unfold wire at h
  cases hw : wireRaw t o with
  | error e => rw [hw] at h; cases h
  | ok w =>
    rw [hw] at h
    simp only at h
    refine ⟨w, rfl, ?_⟩
    unfold wireRaw at hw
    split at hw
    · cases hw
    · next ns s hl =>
      cases hw
      obtain ⟨a, b⟩ := wireList_shape o t {} ns s hl (by intro p hp; simp at hp)
      exact tree_shape o ⟨ns, s⟩ tree b a h

theorem mapM_pointwise {α β : Type} (f : α → CM β) : ∀ (l : List α) (xs : List β), l.mapM f = .ok xs →
    ∀ p ∈ l.zip xs, f p.1 = .ok p.2
  | [], xs, _, p, hp => by simp at hp
  | a :: as, xs, h, p, hp => by
    rw [List.mapM_cons] at h
    cases hb : f a with
    | error e => rw [hb] at h; cases h
    | ok b =>
      rw [hb] at h
      cases hbs : as.mapM f with
      | error e => rw [hbs] at h; cases h
      | ok bs =>
        rw [hbs] at h
        cases h
        simp only [List.zip_cons_cons, List.mem_cons] at hp
        rcases hp with rfl | hp
        · exact hb
        · exact mapM_pointwise f as bs hbs p hp

/-- uncompressed data: every tree of the message the decoder hands over has the shape -/
theorem mkMsg_shape (t : List Desc) (outs : List SubsetOut) (m : QMsg) (h : mkMsg t false outs = .ok m) :
    Spec.shapeOK m = true := by
  unfold mkMsg wireAll at h
  simp only [Bool.false_eq_true, if_false] at h
  cases hw : outs.mapM (wire t) with
  | error e => rw [hw] at h; cases h
  | ok trees =>
    rw [hw] at h
    cases h
    unfold Spec.shapeOK
    rw [List.all_eq_true]
    intro p hp
    obtain ⟨_, _, hs, _⟩ := wire_shape t p.1 p.2 (mapM_pointwise (wire t) outs trees hw p hp)
    exact hs

/-! ### compressed data: the shape condition carries over from subset 0 to a subset with the same replication counts -/

mutual
theorem repsOKList_transfer (o0 o : SubsetOut) : ∀ (l : List Node),
    repsOKList o0 l = true → Spec.sameCountsList o0 o l = true → repsOKList o l = true
  | [], _, _ => by rw [repsOKList]
  | n :: ns, h, hs => by
    rw [repsOKList] at h ⊢
    rw [Spec.sameCountsList] at hs
    simp only [Bool.and_eq_true] at h hs ⊢
    exact ⟨repsOK1_transfer o0 o n h.1 hs.1, repsOKList_transfer o0 o ns h.2 hs.2⟩

theorem repsOK1_transfer (o0 o : SubsetOut) : ∀ (n : Node),
    repsOK1 o0 n = true → Spec.sameCounts1 o0 o n = true → repsOK1 o n = true
  | .value _ _ attrs, h, hs => by
    rw [repsOK1] at h ⊢
    rw [Spec.sameCounts1] at hs
    exact repsOKList_transfer o0 o attrs h hs
  | .noval _, _, _ => by rw [repsOK1]
  | .seq _ ms, h, hs => by
    rw [repsOK1] at h ⊢
    rw [Spec.sameCounts1] at hs
    exact repsOKList_transfer o0 o ms h hs
  | .fixedRep _ _ ms, h, hs => by
    rw [repsOK1] at h ⊢
    rw [Spec.sameCounts1] at hs
    simp only [Bool.and_eq_true] at h ⊢
    exact ⟨h.1, repsOKList_transfer o0 o ms h.2 hs⟩
  | .delayedRep _ _ (.value _ i attrs) ms, h, hs => by
    rw [repsOK1] at h ⊢
    rw [Spec.sameCounts1] at hs
    simp only [Bool.and_eq_true, decide_eq_true_eq] at h hs ⊢
    rw [hs.1.1]
    exact ⟨⟨h.1.1, repsOKList_transfer o0 o attrs h.1.2 hs.1.2⟩, repsOKList_transfer o0 o ms h.2 hs.2⟩
  | .delayedRep _ _ (.noval _) _, h, _ => by simp [repsOK1] at h
  | .delayedRep _ _ (.seq _ _) _, h, _ => by simp [repsOK1] at h
  | .delayedRep _ _ (.fixedRep _ _ _) _, h, _ => by simp [repsOK1] at h
  | .delayedRep _ _ (.delayedRep _ _ _ _) _, h, _ => by simp [repsOK1] at h
end

/-- compressed data: the message handed to `query` satisfies the shape hypothesis of `C16_query_eq_eval_compressed`
    when every subset carries the delayed replication counts of subset 0 (`Spec.sameCountsList`, decidable) -/
theorem mkMsg_shape_compressed (t : List Desc) (outs : List SubsetOut) (m : QMsg) (h : mkMsg t true outs = .ok m)
    (o0 : SubsetOut) (t0 : List Node) (h0 : outs[0]? = some o0) (hw : wire t o0 = .ok t0)
    (hcounts : ∀ o ∈ outs, Spec.sameCountsList o0 o t0 = true) : Spec.shapeOK m = true := by
  unfold mkMsg wireAll at h
  simp only [if_true] at h
  cases outs with
  | nil => simp at h0
  | cons o os =>
    simp only [List.getElem?_cons_zero, Option.some.injEq] at h0
    subst h0
    simp only [hw] at h
    cases h
    unfold Spec.shapeOK
    rw [List.all_eq_true]
    intro p hp
    obtain ⟨a, b⟩ := p
    have hm := List.of_mem_zip hp
    obtain ⟨_, _, hb⟩ := List.mem_map.mp hm.2
    simp only at hb ⊢
    subst hb
    obtain ⟨_, _, hs, _⟩ := wire_shape t o t0 hw
    exact repsOKList_transfer o a t0 hs (hcounts a hm.1)

end Bufr.C16
