/-
  Consequences of the walk lemmas (`Lemmas/Frame.lean`) for `decodeSubset`, `decodeSubsets`,
  `decodeCompressed`, `decodeData` (all of them are readers `R _`, and all of them are `R.Trunc`)
  and for `encodeSubset`, `encodeSubsets` (writer side).
-/
import BufrModel.Lemmas.Frame
namespace Bufr

/-! ## decoding -/

theorem decodeSubset_trunc (t : List Desc) : R.Trunc (decodeSubset t) := by
  intro bits o rest e
  unfold decodeSubset at e
  cases hw : walkList decPrimsU t { bits := bits, vals := [[]] } with
  | error err => rw [hw] at e; cases e
  | ok s' =>
    rw [hw] at e
    cases e
    obtain ⟨c, e1, l, tr⟩ := walkList_trunc decPrimsU_trunc t _ s' hw
    refine ⟨c, e1, fun y => ?_, fun q hq => ?_⟩
    · have h0 : ({ bits := c ++ y, vals := [[]] } : St) = St.setBits { bits := bits, vals := [[]] } (c ++ y) := rfl
      unfold decodeSubset
      rw [h0, l y]; rfl
    · have h0 : ({ bits := q, vals := [[]] } : St) = St.setBits { bits := bits, vals := [[]] } q := rfl
      unfold decodeSubset
      rw [h0, tr q hq]

theorem decodeSubsets_trunc (t : List Desc) (n : Nat) : R.Trunc (decodeSubsets t n) := by
  induction n with
  | zero => exact R.Trunc.congr (fun bs => by simp [decodeSubsets]) (R.Trunc.pure [])
  | succ n ih =>
    refine R.Trunc.congr (fun bs => ?_)
      (R.Trunc.bind' (k := fun o => R.bind (decodeSubsets t n) fun os r' => .ok (o :: os, r'))
        (decodeSubset_trunc t) (fun o => R.Trunc.bind' ih (fun _ => R.Trunc.pure _)))
    simp only [decodeSubsets, R.bind]
    match_eq

theorem decodeCompressed_trunc (t : List Desc) (n : Nat) : R.Trunc (decodeCompressed t n) := by
  intro bits o rest e
  unfold decodeCompressed at e
  cases hw : walkList decPrimsC t { bits := bits, vals := List.replicate n [] } with
  | error err => rw [hw] at e; cases e
  | ok s' =>
    rw [hw] at e
    cases e
    obtain ⟨c, e1, l, tr⟩ := walkList_trunc decPrimsC_trunc t _ s' hw
    refine ⟨c, e1, fun y => ?_, fun q hq => ?_⟩
    · have h0 : ({ bits := c ++ y, vals := List.replicate n [] } : St)
          = St.setBits { bits := bits, vals := List.replicate n [] } (c ++ y) := rfl
      unfold decodeCompressed
      rw [h0, l y]; rfl
    · have h0 : ({ bits := q, vals := List.replicate n [] } : St)
          = St.setBits { bits := bits, vals := List.replicate n [] } q := rfl
      unfold decodeCompressed
      rw [h0, tr q hq]

theorem decodeData_trunc (t : List Desc) (c : Bool) (n : Nat) : R.Trunc (decodeData t c n) := by
  cases c with
  | true => exact R.Trunc.congr (fun bs => by simp [decodeData]) (decodeCompressed_trunc t n)
  | false => exact R.Trunc.congr (fun bs => by simp [decodeData]) (decodeSubsets_trunc t n)

/-- together = alone: `ps` lists (segment, output) pairs, each segment decoding alone to its output -/
theorem decodeSubsets_of_alone (t : List Desc) (ps : List (Bits × SubsetOut))
    (h : ∀ p ∈ ps, decodeSubset t p.1 = .ok (p.2, [])) (rest : Bits) :
    decodeSubsets t ps.length ((ps.map (·.1)).flatten ++ rest) = .ok (ps.map (·.2), rest) := by
  induction ps with
  | nil => rfl
  | cons p ps ih =>
    have hp := h p (by simp)
    have := (decodeSubset_trunc t).frame p.1 p.2 [] ((ps.map (·.1)).flatten ++ rest) hp
    simp only [List.length_cons, List.map_cons, List.flatten_cons, List.append_assoc, decodeSubsets]
    rw [this]
    simp only [List.nil_append, ih (fun q hq => h q (by simp [hq]))]

/-- a successful run over `n` subsets splits the input into `n` segments, each of which decodes
    ALONE to the output of its position (consuming all of it) -/
theorem decodeSubsets_segments (t : List Desc) (n : Nat) (bits : Bits) (outs : List SubsetOut) (rest : Bits)
    (h : decodeSubsets t n bits = .ok (outs, rest)) :
    ∃ ps : List (Bits × SubsetOut), ps.length = n ∧ ps.map (·.2) = outs ∧
      bits = (ps.map (·.1)).flatten ++ rest ∧ ∀ p ∈ ps, decodeSubset t p.1 = .ok (p.2, []) := by
  induction n generalizing bits outs with
  | zero =>
    simp only [decodeSubsets] at h
    cases h
    exact ⟨[], rfl, rfl, rfl, fun p hp => by simp at hp⟩
  | succ n ih =>
    simp only [decodeSubsets] at h
    cases h1 : decodeSubset t bits with
    | error err => rw [h1] at h; cases h
    | ok p =>
      obtain ⟨o, r1⟩ := p
      rw [h1] at h; simp only at h
      cases h2 : decodeSubsets t n r1 with
      | error err => rw [h2] at h; cases h
      | ok p2 =>
        obtain ⟨os, r2⟩ := p2
        rw [h2] at h; simp only at h
        cases h
        obtain ⟨ps, hl, ho, hb, hf⟩ := ih r1 os h2
        obtain ⟨c, e1, hc⟩ := (decodeSubset_trunc t).prefix bits o r1 h1
        refine ⟨(c, o) :: ps, by simp [hl], by simp [ho], ?_, ?_⟩
        · rw [e1, hb]; simp
        · intro p hp
          rcases List.mem_cons.mp hp with rfl | hp
          · exact hc
          · exact hf p hp

/-! ## encoding -/

/-- the encoder's output for one subset does not depend on what was written before; the bits it
    writes are consed onto `pre` -/
theorem encodeSubset_pre (t : List Desc) (v : List Val) (pre : Bits) (o : SubsetOut) (b : Bits) :
    encodeSubset t v pre = .ok (o, b) ↔ ∃ b0, encodeSubset t v [] = .ok (o, b0) ∧ b = b0 ++ pre := by
  constructor
  · intro e
    unfold encodeSubset at e
    cases hw : walkList encPrimsU t { bits := pre, vals := [v] } with
    | error err => rw [hw] at e; cases e
    | ok s' =>
      rw [hw] at e; cases e
      obtain ⟨w, e1, l⟩ := walkList_writer t _ s' hw
      refine ⟨w, ?_, by simpa using e1⟩
      have h0 : ({ bits := [], vals := [v] } : St) = St.setBits { bits := pre, vals := [v] } [] := rfl
      unfold encodeSubset
      rw [h0, l []]; simp
  · rintro ⟨b0, e, rfl⟩
    unfold encodeSubset at e
    cases hw : walkList encPrimsU t { bits := [], vals := [v] } with
    | error err => rw [hw] at e; cases e
    | ok s' =>
      rw [hw] at e; cases e
      obtain ⟨w, e1, l⟩ := walkList_writer t _ s' hw
      have h0 : ({ bits := pre, vals := [v] } : St) = St.setBits { bits := [], vals := [v] } pre := rfl
      unfold encodeSubset
      rw [h0, l pre]
      simp only [List.append_nil] at e1
      simp [e1]

/-- together = alone for `encodeSubsets` (bits most recent first): `ts` lists
    (values, report, bits written alone) -/
theorem encodeSubsets_of_alone (t : List Desc) (ts : List (List Val × SubsetOut × Bits))
    (h : ∀ x ∈ ts, encodeSubset t x.1 [] = .ok (x.2.1, x.2.2)) (pre : Bits) :
    encodeSubsets t (ts.map (·.1)) pre
      = .ok (ts.map (·.2.1), ((ts.map (·.2.2)).reverse).flatten ++ pre) := by
  induction ts generalizing pre with
  | nil => rfl
  | cons x ts ih =>
    obtain ⟨v, o, w⟩ := x
    have hv := h (v, o, w) (by simp)
    have h1 : encodeSubset t v pre = .ok (o, w ++ pre) := (encodeSubset_pre t v pre o _).mpr ⟨w, hv, rfl⟩
    simp only [List.map_cons, encodeSubsets, h1, ih (fun y hy => h y (by simp [hy])) (w ++ pre)]
    simp

/-- ... and conversely: whenever the subsets encode together, each encodes alone -/
theorem encodeSubsets_alone_of (t : List Desc) (vs : List (List Val)) (pre : Bits) (outs : List SubsetOut) (b : Bits)
    (h : encodeSubsets t vs pre = .ok (outs, b)) :
    ∃ ts : List (List Val × SubsetOut × Bits), ts.map (·.1) = vs ∧ ts.map (·.2.1) = outs ∧
      b = ((ts.map (·.2.2)).reverse).flatten ++ pre ∧
      ∀ x ∈ ts, encodeSubset t x.1 [] = .ok (x.2.1, x.2.2) := by
  induction vs generalizing pre outs b with
  | nil =>
    simp only [encodeSubsets] at h
    cases h
    exact ⟨[], rfl, rfl, rfl, fun x hx => by simp at hx⟩
  | cons v vs ih =>
    simp only [encodeSubsets] at h
    cases h1 : encodeSubset t v pre with
    | error err => rw [h1] at h; cases h
    | ok p =>
      obtain ⟨o, b1⟩ := p
      rw [h1] at h; simp only at h
      cases h2 : encodeSubsets t vs b1 with
      | error err => rw [h2] at h; cases h
      | ok p2 =>
        obtain ⟨os, b2⟩ := p2
        rw [h2] at h; simp only at h
        cases h
        obtain ⟨w, hw, rfl⟩ := (encodeSubset_pre t v pre o b1).mp h1
        obtain ⟨ts, hvs, hos, hb, hf⟩ := ih (w ++ pre) os _ h2
        refine ⟨(v, o, w) :: ts, by simp [hvs], by simp [hos], by simp [hb], ?_⟩
        intro x hx
        rcases List.mem_cons.mp hx with rfl | hx
        · exact hw
        · exact hf x hx

end Bufr
