/-
  The source tie of the member loop: the function generated from `coder.py: Coder.process_members`
  (`Gen/PyCoder.lean`: `body` = one iteration, `cont_3` / `cont_2` / `cont_1` = what follows the 221 prelude, the 203
  test, the 206 test; the loop is `Py.forIn`) against `Coder/Walk.lean: walk1` / `walkList`.

  Descriptor objects are the GENERATED inductive type `PyGen.coder.Descr` (one constructor per class of
  `descriptors.py` the coder distinguishes); `descOf` maps them to the model's `Desc`.  The methods the loop
  dispatches to are callbacks here; `CbCorrM` asks of each what the theorems about the generated methods establish
  (`C01_src_process_element_descriptor`, `C01_src_process_operator_descriptor`, `C07_src_process_bitmap_definition`).
-/
import BufrModel.Lemmas.CoderElemSrc
import BufrModel.Props.C14Src
import BufrModel.Lemmas.CompilerSim
import BufrModel.Lemmas.CoderBitmapSrc
set_option linter.unusedSimpArgs false
set_option linter.unusedVariables false
set_option maxRecDepth 8000
namespace Bufr
open PyGen.coder
open PyGen.coder.Coder.process_members (Locals Callbacks body cont_1 cont_2 cont_3)
open Bufr.C08 (wDispatch wPre dnpSkip newRefTarget walk1_eq)

variable {V B : Type}

mutual
/-- the model's descriptor for a Python descriptor object -/
def descOf : Descr → Desc
  | .ElementDescriptor id unit scale refval nbits =>
    .elem { id := id.toNat, kind := TableDef.kindOfUnit unit, nbits := nbits.toNat, scale := scale, ref := refval }
  | .OperatorDescriptor id => .op id.toNat
  | .FixedReplicationDescriptor id ms => .fixedRep id.toNat (descsOf ms)
  | .DelayedReplicationDescriptor id ms f => .delayedRep id.toNat (descOf f) (descsOf ms)
  | .SequenceDescriptor id ms => .seq id.toNat (descsOf ms)
  | .MarkerDescriptor id _ _ _ _ _ => .undefElem id.toNat
  | .AssociatedDescriptor id _ => .undefElem id.toNat
  | .SkippedLocalDescriptor id _ => .undefElem id.toNat
  | .OtherDescriptor id => .undefElem id.toNat
def descsOf : List Descr → List Desc
  | [] => []
  | d :: ds => descOf d :: descsOf ds
end

theorem descOf_id (x : Descr) : (descOf x).id = (Descr.id x).toNat := by
  cases x <;> simp [descOf, Desc.id, Descr.id]

theorem descsOf_eq_map (ms : List Descr) : descsOf ms = ms.map descOf := by
  induction ms with
  | nil => rfl
  | cons d ds ih => simp [descsOf, ih]

/-- The callbacks of the generated `process_members` correspond to the steps of the model's `walk1`
    (`Lemmas/CompilerSim.lean`: `walk1 = wPre (wDispatch)`): the three prelude methods, and the five methods the loop
    dispatches to by `type(member)` (each against `wDispatch P (descOf m)`, i.e. `elementDescriptor` / `iterN … (walkList …)` /
    the delayed-replication step / `operatorDescriptor` / `walkList`). -/
structure CbCorrM (Q : Descr → Prop) (φ : Descr → Elem) (A : PyData Descr V → B → StData → Prop) (cb : Callbacks Descr V B) (P : Prims) : Prop where
  defineRefval : ∀ ps b s m e, Q m → AbsSt φ A ps b s → descOf m = .elem e →
    Corr φ A (cb.process_define_new_refval ps b m)
      (if e.kind = .string then .error .lib else P.newRefval e s.regs.nbitsNewRefval s)
  skipped : ∀ ps b s m, Q m → AbsSt φ A ps b s →
    Corr φ A (cb.process_skipped_local_descriptor ps b m)
      (do let s' ← P.codeflag (.skipped (descOf m).id s.regs.nbitsSkipped) s.regs.nbitsSkipped s
          pure (s'.setRegs fun r => { r with nbitsSkipped := 0 }))
  bitmapDef : ∀ ps b s m, Q m → AbsSt φ A ps b s →
    Corr φ A (cb.process_bitmap_definition ps b m) (bitmapDefinition P (descOf m).id s)
  element : ∀ ps b s m, Q m → AbsSt φ A ps b s → Descr.tag m = .ElementDescriptor →
    Corr φ A (cb.process_element_descriptor ps b m) (wDispatch P (descOf m) s)
  fixed : ∀ ps b s m, Q m → AbsSt φ A ps b s → Descr.tag m = .FixedReplicationDescriptor →
    Corr φ A (cb.process_fixed_replication_descriptor ps b m) (wDispatch P (descOf m) s)
  delayed : ∀ ps b s m, Q m → AbsSt φ A ps b s → Descr.tag m = .DelayedReplicationDescriptor →
    Corr φ A (cb.process_delayed_replication_descriptor ps b m) (wDispatch P (descOf m) s)
  operator : ∀ ps b s m, Q m → AbsSt φ A ps b s → Descr.tag m = .OperatorDescriptor →
    Corr φ A (cb.process_operator_descriptor ps b m) (wDispatch P (descOf m) s)
  sequence : ∀ ps b s m, Q m → AbsSt φ A ps b s → Descr.tag m = .SequenceDescriptor →
    Corr φ A (cb.process_sequence_descriptor ps b m) (wDispatch P (descOf m) s)

/-- the locals of the loop body stand for the model state while member `x` is processed -/
def AbsL (φ : Descr → Elem) (A : PyData Descr V → B → StData → Prop) (x : Descr) (v : Locals Descr V B) (s : St) : Prop :=
  AbsSt φ A v.state v.bit_operator s ∧ v.member = x ∧ v.member_type = Descr.tag x

/-- agreement of a result of the loop body (the locals) with a result of the model -/
def CorrL (φ : Descr → Elem) (A : PyData Descr V → B → StData → Prop) :
    Except Py.Exc (Locals Descr V B) → CM St → Prop
  | .ok v, .ok s => AbsSt φ A v.state v.bit_operator s
  | .error e, .error e' => excClass e = e'
  | _, _ => False

theorem corrL_of_corr {φ : Descr → Elem} {A : PyData Descr V → B → StData → Prop}
    {x : Except Py.Exc (CoderState.Self Descr V × B)} {y : CM St} (hxy : Corr φ A x y)
    (k : CoderState.Self Descr V × B → Locals Descr V B) (hk : ∀ t, ((k t).state, (k t).bit_operator) = t) :
    CorrL φ A (x >>= fun t => pure (k t)) y := by
  cases x with
  | error e => cases y with
    | error e' => exact hxy
    | ok s' => exact hxy.elim
  | ok p => cases y with
    | error e' => exact hxy.elim
    | ok s' =>
      show AbsSt φ A (k p).state (k p).bit_operator s'
      have := hk p
      have h1 : (k p).state = p.1 := congrArg Prod.fst this
      have h2 : (k p).bit_operator = p.2 := congrArg Prod.snd this
      rw [h1, h2]; exact hxy

theorem corrL_of_corr_map {φ : Descr → Elem} {A : PyData Descr V → B → StData → Prop}
    {x : Except Py.Exc (CoderState.Self Descr V × B)} {y : CM St} (hxy : Corr φ A x y)
    (k : CoderState.Self Descr V × B → Locals Descr V B) (hk : ∀ t, ((k t).state, (k t).bit_operator) = t) :
    CorrL φ A (k <$> x) y := by
  have := corrL_of_corr hxy k hk
  cases x <;> exact this

/-- `cont_1`: the bitmap-definition stage, then the dispatch on the type of the member -/
theorem cont1_corr (Q : Descr → Prop) (φ : Descr → Elem) (A : PyData Descr V → B → StData → Prop) (cb : Callbacks Descr V B) (P : Prims)
    (hcb : CbCorrM Q φ A cb P) (x : Descr) (hq : Q x) (v : Locals Descr V B) (s : St) (h : AbsL φ A x v s) :
    CorrL φ A (cont_1 cb v)
      (match bitmapDefinition P (descOf x).id s with
       | .error e => .error e
       | .ok s => wDispatch P (descOf x) s) := by
  obtain ⟨habs, hm, ht⟩ := h
  -- the dispatch, on any corresponding state
  have hdisp : ∀ (v1 : Locals Descr V B) (s1 : St), AbsL φ A x v1 s1 →
      CorrL φ A
        (if decide (v1.member_type = Descr.Tag.ElementDescriptor) = true then
          (cb.process_element_descriptor v1.state v1.bit_operator v1.member >>= fun t => pure { v1 with state := t.1, bit_operator := t.2 })
        else if decide (v1.member_type = Descr.Tag.FixedReplicationDescriptor) = true then
          (cb.process_fixed_replication_descriptor v1.state v1.bit_operator v1.member >>= fun t => pure { v1 with state := t.1, bit_operator := t.2 })
        else if decide (v1.member_type = Descr.Tag.DelayedReplicationDescriptor) = true then
          (cb.process_delayed_replication_descriptor v1.state v1.bit_operator v1.member >>= fun t => pure { v1 with state := t.1, bit_operator := t.2 })
        else if decide (v1.member_type = Descr.Tag.OperatorDescriptor) = true then
          (cb.process_operator_descriptor v1.state v1.bit_operator v1.member >>= fun t => pure { v1 with state := t.1, bit_operator := t.2 })
        else if decide (v1.member_type = Descr.Tag.SequenceDescriptor) = true then
          (cb.process_sequence_descriptor v1.state v1.bit_operator v1.member >>= fun t => pure { v1 with state := t.1, bit_operator := t.2 })
        else Except.error (Py.Exc.raised "UnknownDescriptor"))
        (wDispatch P (descOf x) s1) := by
    intro v1 s1 ⟨h1, hm1, ht1⟩
    rw [ht1, hm1]
    cases x with
    | ElementDescriptor i u sc r n =>
      simp [Descr.tag]; exact corrL_of_corr_map (hcb.element _ _ _ (.ElementDescriptor i u sc r n) hq h1 rfl) _ (fun t => rfl)
    | FixedReplicationDescriptor i ms =>
      simp [Descr.tag]; exact corrL_of_corr_map (hcb.fixed _ _ _ (.FixedReplicationDescriptor i ms) hq h1 rfl) _ (fun t => rfl)
    | DelayedReplicationDescriptor i ms f =>
      simp [Descr.tag]; exact corrL_of_corr_map (hcb.delayed _ _ _ (.DelayedReplicationDescriptor i ms f) hq h1 rfl) _ (fun t => rfl)
    | OperatorDescriptor i =>
      simp [Descr.tag]; exact corrL_of_corr_map (hcb.operator _ _ _ (.OperatorDescriptor i) hq h1 rfl) _ (fun t => rfl)
    | SequenceDescriptor i ms =>
      simp [Descr.tag]; exact corrL_of_corr_map (hcb.sequence _ _ _ (.SequenceDescriptor i ms) hq h1 rfl) _ (fun t => rfl)
    | MarkerDescriptor => simp [Descr.tag, descOf, wDispatch, CorrL, excClass]
    | AssociatedDescriptor => simp [Descr.tag, descOf, wDispatch, CorrL, excClass]
    | SkippedLocalDescriptor => simp [Descr.tag, descOf, wDispatch, CorrL, excClass]
    | OtherDescriptor => simp [Descr.tag, descOf, wDispatch, CorrL, excClass]
  subst hm
  unfold cont_1
  by_cases hna : v.state.bitmap_definition_state = BITMAP_NA
  · have hmod : bitmapDefinition P (descOf v.member).id s = .ok s := by
      have := (regs_bitmapDef habs.1).1
      rw [hna] at this
      simp [bitmapDefinition, this, bitmapDefOfTag, BITMAP_NA, BITMAP_INDICATOR, BITMAP_WAITING_FOR_BIT, BITMAP_BIT_COUNTING]
    rw [hmod]
    have cg : ¬ ((!decide (v.state.bitmap_definition_state = BITMAP_NA)) = true) := by simp [hna]
    rw [if_neg cg]
    exact hdisp v s ⟨habs, rfl, ht⟩
  · have cg : (!decide (v.state.bitmap_definition_state = BITMAP_NA)) = true := by simp [hna]
    rw [if_pos cg]
    have hb := hcb.bitmapDef _ _ _ v.member hq habs
    revert hb
    cases cb.process_bitmap_definition v.state v.bit_operator v.member with
    | error e1 =>
      cases bitmapDefinition P (descOf v.member).id s with
      | error e2 => exact fun hb => hb
      | ok s2 => exact fun hb => hb.elim
    | ok p =>
      cases bitmapDefinition P (descOf v.member).id s with
      | error e2 => exact fun hb => hb.elim
      | ok s2 =>
        intro hb
        exact hdisp { v with state := p.1, bit_operator := p.2 } s2 ⟨hb, rfl, ht⟩

/-- the model's walk step after the 221 prelude and the 203 test: the 206 test, then `cont_1` -/
def mCont2 (P : Prims) (d : Desc) (s : St) : CM St :=
  if s.regs.nbitsSkipped ≠ 0 then do
    let n := s.regs.nbitsSkipped
    let s' ← P.codeflag (.skipped d.id n) n s
    pure (s'.setRegs fun r => { r with nbitsSkipped := 0 })
  else
    match bitmapDefinition P d.id s with
    | .error e => .error e
    | .ok s => wDispatch P d s

/-- … after the 221 prelude: the 203 test, then `mCont2` -/
def mCont3 (P : Prims) (d : Desc) (s : St) : CM St :=
  match newRefTarget s.regs.nbitsNewRefval d with
  | some e => if e.kind = .string then .error .lib else P.newRefval e s.regs.nbitsNewRefval s
  | none => mCont2 P d s

theorem wPre_eq (P : Prims) (d : Desc) (s0 : St) :
    wPre P d (wDispatch P d) s0 =
      (let dnp := s0.regs.dnpCount
       let s := if dnp ≠ 0 then s0.setRegs fun r => { r with dnpCount := dnp - 1 } else s0
       if dnpSkip dnp d then .ok s else mCont3 P d s) := rfl

theorem regs_counts {φ : Descr → Elem} {ps : CoderState.Self Descr V} {r : Regs} (h : Rep φ ps r) :
    r.nbitsSkipped = ps.nbits_of_skipped_local_descriptor.toNat ∧ r.nbitsNewRefval = ps.nbits_of_new_refval.toNat ∧
      r.dnpCount = ps.data_not_present_count.toNat ∧ 0 ≤ ps.nbits_of_skipped_local_descriptor ∧
      0 ≤ ps.nbits_of_new_refval ∧ 0 ≤ ps.data_not_present_count := by
  obtain ⟨hwf, nr, rfl, _⟩ := h
  obtain ⟨w1, w2, w3, w4, w5, w6, w7, w8, w9, w10⟩ := hwf
  exact ⟨rfl, rfl, rfl, w3, w1, w6⟩

theorem cont2_corr (Q : Descr → Prop) (φ : Descr → Elem) (A : PyData Descr V → B → StData → Prop) (cb : Callbacks Descr V B) (P : Prims)
    (hcb : CbCorrM Q φ A cb P) (x : Descr) (hq : Q x) (v : Locals Descr V B) (s : St) (h : AbsL φ A x v s) :
    CorrL φ A (cont_2 cb v) (mCont2 P (descOf x) s) := by
  obtain ⟨c1, _, _, p1, _, _⟩ := regs_counts h.1.1
  unfold cont_2 mCont2
  by_cases hz : v.state.nbits_of_skipped_local_descriptor = 0
  · have cg : ¬ ((!decide (v.state.nbits_of_skipped_local_descriptor = 0)) = true) := by simp [hz]
    have cm : ¬ (s.regs.nbitsSkipped ≠ 0) := by rw [c1, hz]; simp
    rw [if_neg cg, if_neg cm]
    exact cont1_corr Q φ A cb P hcb x hq v s h
  · have cg : (!decide (v.state.nbits_of_skipped_local_descriptor = 0)) = true := by simp [hz]
    have cm : s.regs.nbitsSkipped ≠ 0 := by rw [c1]; omega
    rw [if_pos cg, if_pos cm]
    have := hcb.skipped _ _ _ v.member (h.2.1 ▸ hq) h.1
    rw [h.2.1] at this
    exact corrL_of_corr (by rw [h.2.1]; exact this) _ (fun t => rfl)

theorem cont3_corr (Q : Descr → Prop) (φ : Descr → Elem) (A : PyData Descr V → B → StData → Prop) (cb : Callbacks Descr V B) (P : Prims)
    (hcb : CbCorrM Q φ A cb P) (x : Descr) (hq : Q x) (v : Locals Descr V B) (s : St) (h : AbsL φ A x v s) :
    CorrL φ A (cont_3 cb v) (mCont3 P (descOf x) s) := by
  obtain ⟨_, c2, _, _, p2, _⟩ := regs_counts h.1.1
  obtain ⟨habs, hm, ht⟩ := h
  unfold cont_3 mCont3 newRefTarget
  by_cases hz : v.state.nbits_of_new_refval = 0
  · have cg : ¬ (((!decide (v.state.nbits_of_new_refval = 0)) && decide (v.member_type = Descr.Tag.ElementDescriptor)) = true) := by
      simp [hz]
    have cm : ¬ (s.regs.nbitsNewRefval ≠ 0) := by rw [c2, hz]; simp
    rw [if_neg cg, if_neg cm]
    exact cont2_corr Q φ A cb P hcb x hq v s ⟨habs, hm, ht⟩
  · have cm : s.regs.nbitsNewRefval ≠ 0 := by rw [c2]; omega
    rw [if_pos cm]
    by_cases he : Descr.tag x = .ElementDescriptor
    · have cg : ((!decide (v.state.nbits_of_new_refval = 0)) && decide (v.member_type = Descr.Tag.ElementDescriptor)) = true := by
        simp [hz, ht, he]
      rw [if_pos cg]
      cases x <;> simp [Descr.tag] at he
      rename_i i u sc r n
      have := hcb.defineRefval _ _ _ (.ElementDescriptor i u sc r n) _ hq habs rfl
      simp only [descOf]
      rw [hm]
      exact corrL_of_corr this _ (fun t => rfl)
    · have cg : ¬ (((!decide (v.state.nbits_of_new_refval = 0)) && decide (v.member_type = Descr.Tag.ElementDescriptor)) = true) := by
        simp [ht, he]
      rw [if_neg cg]
      cases x <;> simp [Descr.tag] at he <;> simp only [descOf] <;>
        exact cont2_corr Q φ A cb P hcb _ hq v s ⟨habs, hm, ht⟩

theorem skip_cond (k : Nat) :
    (!((decide ((Int.ofNat 1) ≤ (k : Int)) && decide ((k : Int) ≤ Int.ofNat 9)) || decide ((k : Int) = Int.ofNat 31))) =
      (!((decide (1 ≤ k) && decide (k ≤ 9)) || k == 31)) := by
  simp only [Int.ofNat_eq_natCast, Int.ofNat_le, Int.natCast_inj]
  cases h : (k == 31) <;> simp_all

theorem descrX_elem (i : Int) (u : List Char) (sc r n : Int) (hi : 0 ≤ i) :
    Descr.X (.ElementDescriptor i u sc r n) = ((xOf i.toNat : Nat) : Int) := by
  have := C14_src_descriptor_X i.toNat
  rw [Int.toNat_of_nonneg hi] at this
  simpa [Descr.X, Descr.id] using this

/-- **one iteration of the member loop is the model's `walk1`** -/
theorem body_corr (Q : Descr → Prop) (φ : Descr → Elem) (A : PyData Descr V → B → StData → Prop) (cb : Callbacks Descr V B) (P : Prims)
    (hcb : CbCorrM Q φ A cb P) (x : Descr) (hq : Q x) (hx : 0 ≤ Descr.id x) (v : Locals Descr V B) (s : St)
    (h : AbsSt φ A v.state v.bit_operator s) :
    CorrL φ A (body cb v x) (walk1 P (descOf x) s) := by
  rw [walk1_eq, wPre_eq]
  obtain ⟨_, _, c3, _, _, p3⟩ := regs_counts h.1
  unfold body
  by_cases hz : v.state.data_not_present_count = 0
  · have cm : s.regs.dnpCount = 0 := by rw [c3, hz]; rfl
    simp only [hz, cm, dnpSkip]
    simp
    exact cont3_corr Q φ A cb P hcb x hq _ s ⟨h, rfl, rfl⟩
  · have cm : s.regs.dnpCount ≠ 0 := by rw [c3]; omega
    have h2 : AbsSt φ A ({ v.state with data_not_present_count := v.state.data_not_present_count - Int.ofNat 1 } : CoderState.Self Descr V)
        v.bit_operator (s.setRegs fun r => { r with dnpCount := s.regs.dnpCount - 1 }) := by
      refine absSt_setRegs h _ rfl ?_
      obtain ⟨hwf, nr, hr, href⟩ := h.1
      refine ⟨?_, nr, ?_, href⟩
      · simp only [WF] at hwf ⊢
        obtain ⟨w1, w2, w3, w4, w5, w6, w7, w8, w9, w10⟩ := hwf
        refine ⟨w1, w2, w3, w4, w5, ?_, w7, w8, w9, w10⟩
        simp only [Int.ofNat_eq_natCast]; omega
      · rw [hr]; simp [regsOf]
        try omega
    have cg : (!decide (v.state.data_not_present_count = 0)) = true := by simp [hz]
    simp only [cm, ne_eq, not_false_eq_true, if_true, cg]
    cases x with
    | ElementDescriptor i u sc r n =>
      have hX := descrX_elem i u sc r n hx
      have hsk := skip_cond (xOf i.toNat)
      simp only [Descr.tag, decide_true, if_true, hX, dnpSkip, descOf, cm, ne_eq, not_false_eq_true, Bool.true_and, hsk, bind, Except.bind]
      by_cases hs : (!((decide (1 ≤ xOf i.toNat) && decide (xOf i.toNat ≤ 9)) || xOf i.toNat == 31)) = true
      · rw [if_pos hs, if_pos hs]
        exact h2
      · rw [if_neg hs, if_neg hs]
        exact cont3_corr Q φ A cb P hcb (.ElementDescriptor i u sc r n) hq _ _ ⟨h2, rfl, rfl⟩
    | _ =>
      simp [Descr.tag, dnpSkip, descOf]
      exact cont3_corr Q φ A cb P hcb _ hq _ _ ⟨h2, rfl, rfl⟩

/-- the loop over the members is `walkList` -/
theorem forIn_corr (Q : Descr → Prop) (φ : Descr → Elem) (A : PyData Descr V → B → StData → Prop) (cb : Callbacks Descr V B) (P : Prims)
    (hcb : CbCorrM Q φ A cb P) :
    ∀ (ms : List Descr), (∀ m ∈ ms, Q m ∧ 0 ≤ Descr.id m) → ∀ (v : Locals Descr V B) (s : St),
      AbsSt φ A v.state v.bit_operator s →
      CorrL φ A (Py.forIn ms v (fun x v => body cb v x)) (walkList P (ms.map descOf) s)
  | [], _, v, s, h => by
    simp only [Py.forIn, List.map, walkList]
    exact h
  | x :: xs, hms, v, s, h => by
    have hb := body_corr Q φ A cb P hcb x (hms x (List.mem_cons_self ..)).1 (hms x (List.mem_cons_self ..)).2 v s h
    simp only [Py.forIn, List.map, walkList]
    revert hb
    cases body cb v x with
    | error e1 =>
      cases walk1 P (descOf x) s with
      | error e2 => exact fun hb => hb
      | ok s2 => exact fun hb => hb.elim
    | ok v1 =>
      cases walk1 P (descOf x) s with
      | error e2 => exact fun hb => hb.elim
      | ok s2 =>
        intro hb
        exact forIn_corr Q φ A cb P hcb xs (fun m hm => hms m (List.mem_cons_of_mem _ hm)) v1 s2 hb

theorem corr_of_corrL {φ : Descr → Elem} {A : PyData Descr V → B → StData → Prop}
    {x : Except Py.Exc (Locals Descr V B)} {y : CM St} (h : CorrL φ A x y) :
    Corr φ A (x >>= fun v => pure (v.state, v.bit_operator)) y := by
  cases x with
  | error e1 => cases y with
    | error e2 => exact h
    | ok s2 => exact h.elim
  | ok v1 => cases y with
    | error e2 => exact h.elim
    | ok s2 => exact h

/-- the generated `process_members` (one level: the composite members through callbacks) against `walkList` -/
theorem members_core (Q : Descr → Prop) (φ : Descr → Elem) (A : PyData Descr V → B → StData → Prop) (cb : Callbacks Descr V B) (P : Prims)
    (hcb : CbCorrM Q φ A cb P) (ms : List Descr) (hms : ∀ m ∈ ms, Q m ∧ 0 ≤ Descr.id m)
    (ps : CoderState.Self Descr V) (b : B) (s : St) (h : AbsSt φ A ps b s) :
    Corr φ A (Coder.process_members cb ps b ms) (walkList P (ms.map descOf) s) := by
  have := forIn_corr Q φ A cb P hcb ms hms
    { state := ps, bit_operator := b, members := ms, member := Descr.OtherDescriptor 0,
      member_type := Descr.Tag.OtherDescriptor, X := 0 } s h
  exact corr_of_corrL this

end Bufr
