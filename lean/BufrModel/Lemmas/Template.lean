/-
  Lemmas for C14: equations of `buildD`, the flattening lemma, and the simulation argument that
  ties the flat counting machine `Spec.expandWith` (a stack of counters, one left-to-right pass)
  to the recursive `take`/`drop` construction `buildD`.

  Invariant (`sem`): in state `[c₁, …, c_k]` with remaining ids `l`, the machine's output is the
  flattening of `buildD (l.take c₁)`, then of `buildD ((l.drop c₁).take c₂)`, …, then of `buildD` of
  what is left — provided each scope still has its `cᵢ` ids.  `sem_step` moves one head group
  (descriptor, or delayed replication + factor) through the invariant; `Head` says what the model
  does with that head group.
-/
import BufrModel.Basic.Template
import BufrModel.Spec.FlatExpand
namespace Bufr
open Spec

theorem bind_ok {α β} (x : Except Err α) (f : α → Except Err β) (b : β) :
    (x >>= f) = .ok b ↔ ∃ a, x = .ok a ∧ f a = .ok b := by
  cases x <;> simp [bind, Except.bind]

theorem pure_ok {α} (a b : α) : (pure a : Except Err α) = .ok b ↔ a = b := by
  simp [pure, Except.pure]

def flatB (T : Tables) (n : Nat) (ids : List Nat) : Option (List Nat) :=
  match buildD T n ids with
  | .ok t => some (flatMemberIds t)
  | .error _ => none

theorem flatB_some {T : Tables} {n : Nat} {ids o : List Nat} :
    flatB T n ids = some o ↔ ∃ t, buildD T n ids = .ok t ∧ flatMemberIds t = o := by
  unfold flatB
  split <;> simp_all

def sem (T : Tables) (n : Nat) : List Nat → List Nat → Option (List Nat)
  | [], ids => flatB T n ids
  | c :: s, ids =>
    if c ≤ ids.length then
      match flatB T n (ids.take c), sem T n s (ids.drop c) with
      | some a, some r => some (a ++ r)
      | _, _ => none
    else none

theorem sem_cons_some {T : Tables} {n c : Nat} {s ids out : List Nat} :
    sem T n (c :: s) ids = some out ↔
      c ≤ ids.length ∧ ∃ a r, flatB T n (ids.take c) = some a ∧ sem T n s (ids.drop c) = some r ∧ out = a ++ r := by
  simp only [sem]
  split
  · rename_i h
    split
    · rename_i a r ha hr
      simp [h, ha, hr, eq_comm]
    · rename_i hno
      simp only [h, true_and]
      constructor
      · intro h; cases h
      · rintro ⟨a, r, ha, hr, _⟩
        exact absurd hr (by intro hr; exact hno a r ha hr)
  · rename_i h; simp [h]

def Head (T : Tables) (n : Nat) (hd : List Nat) (X : Nat) (ho : List Nat) : Prop :=
  ∀ l a b, flatB T n (l.take X) = some a → flatB T n (l.drop X) = some b →
    flatB T n (hd ++ l) = some (ho ++ a ++ b)

theorem flatB_nil (T : Tables) (n : Nat) : flatB T n [] = some [] := by
  simp [flatB, buildD, flatMemberIds]

theorem sem_step (T : Tables) (n : Nat) (hd : List Nat) (X : Nat) (ho : List Nat) (hH : Head T n hd X ho) :
    ∀ s s' l out', enter hd.length X s = some s' → sem T n s' l = some out' →
      sem T n s (hd ++ l) = some (ho ++ out') := by
  intro s
  induction s with
  | nil =>
    intro s' l out' he hs
    simp only [enter, Option.some.injEq] at he
    subst he
    rw [sem_cons_some] at hs
    obtain ⟨hle, a, r, ha, hr, rfl⟩ := hs
    simp only [sem] at hr ⊢
    rw [hH l a r ha hr]; simp
  | cons c s0 ih =>
    intro s' l out' he hs
    cases c with
    | zero =>
      simp only [enter] at he
      have := ih s' l out' he hs
      rw [sem_cons_some]
      refine ⟨Nat.zero_le _, [], ho ++ out', ?_, ?_, by simp⟩
      · simp [flatB_nil]
      · simpa using this
    | succ c =>
      simp only [enter] at he
      split at he
      · rename_i hk
        simp only [Option.some.injEq] at he
        subst he
        rw [sem_cons_some] at hs
        obtain ⟨hle, a, r1, ha, hr1, rfl⟩ := hs
        rw [sem_cons_some] at hr1
        obtain ⟨hle2, b, r, hb, hr, rfl⟩ := hr1
        rw [sem_cons_some]
        simp only [List.length_drop] at hle2
        refine ⟨by simp only [List.length_append]; omega, ho ++ a ++ b, r, ?_, ?_, by simp⟩
        · have e1 : (hd ++ l).take (c + 1) = hd ++ l.take (c + 1 - hd.length) := by
            rw [List.take_append]
            rw [List.take_of_length_le (by omega)]
          rw [e1]
          apply hH
          · rw [List.take_take, Nat.min_eq_left (by omega)]; exact ha
          · rw [List.drop_take]; exact hb
        · have e2 : (hd ++ l).drop (c + 1) = (l.drop X).drop (c + 1 - hd.length - X) := by
            rw [List.drop_append, List.drop_of_length_le (by omega), List.drop_drop]
            simp only [List.nil_append]
            congr 1; omega
          rw [e2]; exact hr
      · cases he
theorem buildD_nil (T : Tables) (n : Nat) : buildD T n [] = .ok [] := by
  rw [buildD]

theorem buildD_plain (T : Tables) (n id : Nat) (rest : List Nat) (h : id < 100000) :
    buildD T n (id :: rest) = (do let tl ← buildD T n rest; pure (T.lookupB id :: tl)) := by
  rw [buildD.eq_def]
  simp only [show ¬ 300000 ≤ id by omega, show ¬ 200000 ≤ id by omega, show ¬ 100000 ≤ id by omega, if_false]

theorem buildD_op (T : Tables) (n id : Nat) (rest : List Nat) (h1 : 200000 ≤ id) (h2 : id < 300000) :
    buildD T n (id :: rest) = (do let tl ← buildD T n rest; pure (.op id :: tl)) := by
  rw [buildD.eq_def]
  simp only [show ¬ 300000 ≤ id by omega, h1, if_false, if_true]

theorem buildD_fixed (T : Tables) (n id : Nat) (rest : List Nat) (h1 : 100000 ≤ id) (h2 : id < 200000) (h3 : id % 1000 ≠ 0) :
    buildD T n (id :: rest) = (do
      let members ← buildD T n (rest.take (xOf id))
      let tl ← buildD T n (rest.drop (xOf id))
      pure (.fixedRep id members :: tl)) := by
  rw [buildD.eq_def]
  simp only [show ¬ 300000 ≤ id by omega, show ¬ 200000 ≤ id by omega, h1, h3, if_false, if_true]

theorem buildD_delayed (T : Tables) (n id f : Nat) (rest : List Nat) (h1 : 100000 ≤ id) (h2 : id < 200000) (h3 : id % 1000 = 0) :
    buildD T n (id :: f :: rest) = (do
      let members ← buildD T n (rest.take (xOf id))
      let tl ← buildD T n (rest.drop (xOf id))
      pure (.delayedRep id (T.lookupB f) members :: tl)) := by
  rw [buildD.eq_def]
  simp only [show ¬ 300000 ≤ id by omega, show ¬ 200000 ≤ id by omega, h1, h3, if_false, if_true]

theorem buildD_delayed_nofactor (T : Tables) (n id : Nat) (h1 : 100000 ≤ id) (h2 : id < 200000) (h3 : id % 1000 = 0) :
    buildD T n [id] = .error .other := by
  rw [buildD.eq_def]
  simp only [show ¬ 300000 ≤ id by omega, show ¬ 200000 ≤ id by omega, h1, h3, if_false, if_true]

theorem buildD_undefSeq (T : Tables) (n id : Nat) (rest : List Nat) (h1 : 300000 ≤ id) (h2 : T.d id = none) :
    buildD T n (id :: rest) = (do let tl ← buildD T n rest; pure (.undefSeq id :: tl)) := by
  rw [buildD.eq_def]
  simp only [h1, h2, if_true]

theorem buildD_seq (T : Tables) (n id : Nat) (rest row : List Nat) (h1 : 300000 ≤ id) (h2 : T.d id = some row) :
    buildD T (n + 1) (id :: rest) = (do
      let members ← buildD T n row
      let tl ← buildD T (n + 1) rest
      pure (.seq id members :: tl)) := by
  rw [buildD.eq_def]
  simp only [h1, h2, if_true]

theorem buildD_seq_zero (T : Tables) (id : Nat) (rest row : List Nat) (h1 : 300000 ≤ id) (h2 : T.d id = some row) :
    buildD T 0 (id :: rest) = .error .other := by
  rw [buildD.eq_def]
  simp only [h1, h2, if_true]


theorem lookupB_id (T : Tables) (hK : T.Keyed) (id : Nat) : (T.lookupB id).id = id := by
  unfold Tables.lookupB
  split
  · rename_i e h; simp [Desc.id, hK id e h]
  · simp [Desc.id]

theorem flatIds_lookupB (T : Tables) (hK : T.Keyed) (id : Nat) : (T.lookupB id).flatIds = [id] := by
  unfold Tables.lookupB
  split
  · rename_i e h; simp [Desc.flatIds, hK id e h]
  · simp [Desc.flatIds]

theorem head_plain (T : Tables) (hK : T.Keyed) (n id : Nat) (h : id < 100000) : Head T n [id] 0 [id] := by
  intro l a b ha hb
  simp only [List.take_zero, flatB_nil, Option.some.injEq, List.drop_zero] at ha hb
  subst ha
  rw [flatB_some] at hb ⊢
  obtain ⟨tl, htl, rfl⟩ := hb
  refine ⟨T.lookupB id :: tl, ?_, ?_⟩
  · simp only [List.singleton_append]; rw [buildD_plain T n id l h, htl]; rfl
  · simp [flatMemberIds, flatIds_lookupB T hK]

theorem head_op (T : Tables) (n id : Nat) (h1 : 200000 ≤ id) (h2 : id < 300000) : Head T n [id] 0 [id] := by
  intro l a b ha hb
  simp only [List.take_zero, flatB_nil, Option.some.injEq, List.drop_zero] at ha hb
  subst ha
  rw [flatB_some] at hb ⊢
  obtain ⟨tl, htl, rfl⟩ := hb
  refine ⟨.op id :: tl, ?_, ?_⟩
  · simp only [List.singleton_append]; rw [buildD_op T n id l h1 h2, htl]; rfl
  · simp [flatMemberIds, Desc.flatIds]

theorem head_undefSeq (T : Tables) (n id : Nat) (h1 : 300000 ≤ id) (h2 : T.d id = none) : Head T n [id] 0 [id] := by
  intro l a b ha hb
  simp only [List.take_zero, flatB_nil, Option.some.injEq, List.drop_zero] at ha hb
  subst ha
  rw [flatB_some] at hb ⊢
  obtain ⟨tl, htl, rfl⟩ := hb
  refine ⟨.undefSeq id :: tl, ?_, ?_⟩
  · simp only [List.singleton_append]; rw [buildD_undefSeq T n id l h1 h2, htl]; rfl
  · simp [flatMemberIds, Desc.flatIds]

theorem head_seq (T : Tables) (n id : Nat) (row o : List Nat) (h1 : 300000 ≤ id) (h2 : T.d id = some row)
    (ho : flatB T n row = some o) : Head T (n + 1) [id] 0 o := by
  intro l a b ha hb
  simp only [List.take_zero, flatB_nil, Option.some.injEq, List.drop_zero] at ha hb
  subst ha
  rw [flatB_some] at hb ho ⊢
  obtain ⟨tl, htl, rfl⟩ := hb
  obtain ⟨ms, hms, rfl⟩ := ho
  refine ⟨.seq id ms :: tl, ?_, ?_⟩
  · simp only [List.singleton_append]; rw [buildD_seq T n id l row h1 h2, hms, htl]; rfl
  · simp [flatMemberIds, Desc.flatIds]

theorem head_fixed (T : Tables) (n id : Nat) (h1 : 100000 ≤ id) (h2 : id < 200000) (h3 : id % 1000 ≠ 0) :
    Head T n [id] (xOf id) [id] := by
  intro l a b ha hb
  rw [flatB_some] at ha hb ⊢
  obtain ⟨ms, hms, rfl⟩ := ha
  obtain ⟨tl, htl, rfl⟩ := hb
  refine ⟨.fixedRep id ms :: tl, ?_, ?_⟩
  · simp only [List.singleton_append]; rw [buildD_fixed T n id l h1 h2 h3, hms, htl]; rfl
  · simp [flatMemberIds, Desc.flatIds]

theorem head_delayed (T : Tables) (hK : T.Keyed) (n id f : Nat) (h1 : 100000 ≤ id) (h2 : id < 200000) (h3 : id % 1000 = 0) :
    Head T n [id, f] (xOf id) [id, f] := by
  intro l a b ha hb
  rw [flatB_some] at ha hb ⊢
  obtain ⟨ms, hms, rfl⟩ := ha
  obtain ⟨tl, htl, rfl⟩ := hb
  refine ⟨.delayedRep id (T.lookupB f) ms :: tl, ?_, ?_⟩
  · simp only [List.cons_append, List.nil_append]; rw [buildD_delayed T n id f l h1 h2 h3, hms, htl]; rfl
  · simp [flatMemberIds, Desc.flatIds, lookupB_id T hK]

theorem sem_closed (T : Tables) (n : Nat) : ∀ s, closed s = true → sem T n s [] = some [] := by
  intro s
  induction s with
  | nil => intro _; simp [sem, flatB_nil]
  | cons c s ih =>
    intro h
    simp only [closed, List.all_cons, Bool.and_eq_true, beq_iff_eq] at h
    obtain ⟨rfl, h⟩ := h
    rw [sem_cons_some]
    exact ⟨Nat.le_refl _, [], [], by simp [flatB_nil], by simpa using ih h, rfl⟩


theorem map_some {α β} (o : Option α) (f : α → β) (b : β) : o.map f = some b ↔ ∃ a, o = some a ∧ f a = b := by
  cases o <;> simp

/-- soundness of the counting pass against the recursive construction -/
theorem expandWith_sound (T : Tables) (hK : T.Keyed) (n : Nat) (sub : Nat → Option (List Nat))
    (hsub : ∀ id o, 300000 ≤ id → sub id = some o → Head T n [id] 0 o) (s ids : List Nat) :
    ∀ out, expandWith sub s ids = some out → sem T n s ids = some out := by
  fun_induction expandWith sub s ids with
  | case1 s hc => intro out h; cases h; exact sem_closed T n s hc
  | case2 s hc => intro out h; cases h
  | case3 s id rest h3 o s' he hs ih =>
    intro out h
    rw [map_some] at h
    obtain ⟨out', ho', rfl⟩ := h
    exact sem_step T n [id] 0 o (hsub id o h3 hs) s s' rest out' he (ih out' ho')
  | case4 => intro out h; cases h
  | case5 s id rest h3 h2 s' he ih =>
    intro out h
    rw [map_some] at h
    obtain ⟨out', ho', rfl⟩ := h
    exact sem_step T n [id] 0 [id] (head_op T n id h2 (by omega)) s s' rest out' he (ih out' ho')
  | case6 => intro out h; cases h
  | case7 => intro out h; cases h
  | case8 s id h3 h2 h1 hy f rest' s' he ih =>
    intro out h
    rw [map_some] at h
    obtain ⟨out', ho', rfl⟩ := h
    exact sem_step T n [id, f] (xOf id) [id, f] (head_delayed T hK n id f h1 (by omega) hy) s s' rest' out' he (ih out' ho')
  | case9 => intro out h; cases h
  | case10 s id rest h3 h2 h1 hy s' he ih =>
    intro out h
    rw [map_some] at h
    obtain ⟨out', ho', rfl⟩ := h
    exact sem_step T n [id] (xOf id) [id] (head_fixed T n id h1 (by omega) hy) s s' rest out' he (ih out' ho')
  | case11 => intro out h; cases h
  | case12 s id rest h3 h2 h1 s' he ih =>
    intro out h
    rw [map_some] at h
    obtain ⟨out', ho', rfl⟩ := h
    exact sem_step T n [id] 0 [id] (head_plain T hK n id (by omega)) s s' rest out' he (ih out' ho')
  | case13 => intro out h; cases h

theorem expand_sound (T : Tables) (hK : T.Keyed) :
    ∀ n ids out, expand T n ids = some out → flatB T n ids = some out := by
  intro n
  induction n with
  | zero =>
    intro ids out h
    simp only [expand] at h
    have := expandWith_sound T hK 0 (subOf T (fun _ => none)) ?_ [] ids out h
    · simpa [sem] using this
    · intro id o h3 hs
      unfold subOf at hs
      split at hs
      · rename_i hd; cases hs; exact head_undefSeq T 0 id h3 hd
      · cases hs
  | succ n ih =>
    intro ids out h
    simp only [expand] at h
    have := expandWith_sound T hK (n + 1) (subOf T (expand T n)) ?_ [] ids out h
    · simpa [sem] using this
    · intro id o h3 hs
      unfold subOf at hs
      split at hs
      · rename_i hd; cases hs; exact head_undefSeq T (n + 1) id h3 hd
      · rename_i row hd; exact head_seq T n id row o h3 hd (ih row o hs)

/-- the counting pass is defined whenever the counting alone succeeds and every sequence id expands -/
theorem expandWith_isSome (sub : Nat → Option (List Nat)) (s ids : List Nat) :
    wellCountedFrom s ids = true → (∀ id ∈ ids, 300000 ≤ id → (sub id).isSome = true) →
      (expandWith sub s ids).isSome = true := by
  unfold wellCountedFrom
  fun_induction expandWith sub s ids with
  | case1 s hc => intro _ _; rfl
  | case2 s hc => intro h _; rw [expandWith.eq_def] at h; simp [hc] at h
  | case3 s id rest h3 o s' he hs ih =>
    intro h hall
    rw [expandWith.eq_def] at h; simp only [h3, if_true, he, Option.isSome_map] at h
    simp only [Option.isSome_map]
    exact ih h (fun m hm => hall m (List.mem_cons_of_mem _ hm))
  | case4 s id rest h3 hno =>
    intro h hall
    exfalso
    have h1 := hall id (List.mem_cons_self ..) h3
    rw [expandWith.eq_def] at h; simp only [h3, if_true] at h
    cases hs : sub id with
    | none => simp [hs] at h1
    | some o =>
      cases he : enter 1 0 s with
      | none => simp [he] at h
      | some s' => exact hno o s' hs he
  | case5 s id rest h3 h2 s' he ih =>
    intro h hall
    rw [expandWith.eq_def] at h; simp only [h3, h2, if_true, if_false, he, Option.isSome_map] at h
    simp only [Option.isSome_map]
    exact ih h (fun m hm => hall m (List.mem_cons_of_mem _ hm))
  | case6 s id rest h3 h2 he => intro h _; rw [expandWith.eq_def] at h; simp [h3, h2, he] at h
  | case7 s id h3 h2 h1 hy => intro h _; rw [expandWith.eq_def] at h; simp [h3, h2, h1, hy] at h
  | case8 s id h3 h2 h1 hy f rest' s' he ih =>
    intro h hall
    rw [expandWith.eq_def] at h; simp only [h3, h2, h1, hy, if_true, if_false, he, Option.isSome_map] at h
    simp only [Option.isSome_map]
    exact ih h (fun m hm => hall m (List.mem_cons_of_mem _ (List.mem_cons_of_mem _ hm)))
  | case9 s id h3 h2 h1 hy f rest' he => intro h _; rw [expandWith.eq_def] at h; simp [h3, h2, h1, hy, he] at h
  | case10 s id rest h3 h2 h1 hy s' he ih =>
    intro h hall
    rw [expandWith.eq_def] at h; simp only [h3, h2, h1, hy, if_true, if_false, he, Option.isSome_map] at h
    simp only [Option.isSome_map]
    exact ih h (fun m hm => hall m (List.mem_cons_of_mem _ hm))
  | case11 s id rest h3 h2 h1 hy he => intro h _; rw [expandWith.eq_def] at h; simp [h3, h2, h1, hy, he] at h
  | case12 s id rest h3 h2 h1 s' he ih =>
    intro h hall
    rw [expandWith.eq_def] at h; simp only [h3, h2, h1, if_false, he, Option.isSome_map] at h
    simp only [Option.isSome_map]
    exact ih h (fun m hm => hall m (List.mem_cons_of_mem _ hm))
  | case13 s id rest h3 h2 h1 he => intro h _; rw [expandWith.eq_def] at h; simp [h3, h2, h1, he] at h

/-- the sequence expander used by `expand T n` -/
def subAt (T : Tables) : Nat → Nat → Option (List Nat)
  | 0 => subOf T (fun _ => none)
  | n + 1 => subOf T (expand T n)

theorem expand_eq_subAt (T : Tables) (n : Nat) (ids : List Nat) :
    expand T n ids = expandWith (subAt T n) [] ids := by
  cases n <;> rfl

theorem subAt_isSome (T : Tables) : ∀ n m, rowOK T n m = true → (subAt T n m).isSome = true := by
  intro n
  induction n with
  | zero =>
    intro m h
    simp only [rowOK, Option.isNone_iff_eq_none] at h
    simp [subAt, subOf, h]
  | succ n ih =>
    intro m h
    simp only [subAt, subOf]
    simp only [rowOK] at h
    split
    · rfl
    · rename_i row hd
      simp only [hd, Bool.and_eq_true, List.all_eq_true, Bool.or_eq_true, decide_eq_true_eq] at h
      rw [expand_eq_subAt]
      apply expandWith_isSome _ _ _ h.1
      intro m' hm' h3
      apply ih
      rcases h.2 m' hm' with h' | h'
      · omega
      · exact h'

/-- a list is expandable at depth `n`: well counted and every sequence id in it is `rowOK` -/
theorem expand_isSome (T : Tables) (n : Nat) (ids : List Nat) (hwc : WellCounted ids = true)
    (hrows : ∀ m ∈ ids, 300000 ≤ m → rowOK T n m = true) : (expand T n ids).isSome = true := by
  rw [expand_eq_subAt]
  exact expandWith_isSome _ _ _ hwc (fun m hm h3 => subAt_isSome T n m (hrows m hm h3))

theorem expand_eq_build_list (T : Tables) (hK : T.Keyed) (n : Nat) (ids : List Nat) (hwc : WellCounted ids = true)
    (hrows : ∀ m ∈ ids, 300000 ≤ m → rowOK T n m = true) :
    ∃ t, buildD T n ids = .ok t ∧ expand T n ids = some (flatMemberIds t) := by
  have h := expand_isSome T n ids hwc hrows
  cases he : expand T n ids with
  | none => simp [he] at h
  | some o =>
    obtain ⟨t, ht, rfl⟩ := flatB_some.mp (expand_sound T hK n ids o he)
    exact ⟨t, ht, rfl⟩

theorem expand_eq_build_row (T : Tables) (hK : T.Keyed) (n id : Nat) (row : List Nat)
    (h3 : 300000 ≤ id) (hd : T.d id = some row) (hok : rowOK T (n + 1) id = true) :
    ∃ ms, buildD T (n + 1) [id] = .ok [.seq id ms] ∧ expandRow T n id = some (flatMemberIds ms) := by
  simp only [rowOK, hd, Bool.and_eq_true, List.all_eq_true, Bool.or_eq_true, decide_eq_true_eq] at hok
  obtain ⟨ms, hms, he⟩ := expand_eq_build_list T hK n row hok.1 (fun m hm h3 => by
    rcases hok.2 m hm with h' | h'
    · omega
    · exact h')
  refine ⟨ms, ?_, ?_⟩
  · rw [buildD_seq T n id [] row h3 hd, hms, buildD_nil]; rfl
  · simp [expandRow, hd, he]

theorem originalIds_lookupB (T : Tables) (hK : T.Keyed) (id : Nat) : (T.lookupB id).originalIds = [id] := by
  unfold Tables.lookupB
  split
  · rename_i e h; simp [Desc.originalIds, hK id e h]
  · simp [Desc.originalIds]

theorem flatten_buildD (T : Tables) (hK : T.Keyed) (n : Nat) (ids : List Nat) :
    ∀ t, buildD T n ids = .ok t → originalIds t = ids := by
  fun_induction buildD T n ids with
  | case1 depth => intro t h; cases h; simp [originalIds]
  | case2 depth id rest h1 h2 ih =>
    intro t h
    simp only [bind_ok, pure_ok] at h
    obtain ⟨tl, htl, rfl⟩ := h
    simp [originalIds, Desc.originalIds, ih tl htl]
  | case3 id rest h1 row h2 => intro t h; cases h
  | case4 id rest h1 row h2 d ih1 ih2 =>
    intro t h
    simp only [bind_ok, pure_ok] at h
    obtain ⟨ms, hms, tl, htl, rfl⟩ := h
    simp [originalIds, Desc.originalIds, ih2 tl htl]
  | case5 depth id rest h1 h2 ih =>
    intro t h
    simp only [bind_ok, pure_ok] at h
    obtain ⟨tl, htl, rfl⟩ := h
    simp [originalIds, Desc.originalIds, ih tl htl]
  | case6 depth id h1 h2 h3 h4 => intro t h; cases h
  | case7 depth id h1 h2 h3 h4 f rest ih1 ih2 =>
    intro t h
    simp only [bind_ok, pure_ok] at h
    obtain ⟨ms, hms, tl, htl, rfl⟩ := h
    simp [originalIds, Desc.originalIds, ih1 ms hms, ih2 tl htl, lookupB_id T hK]
  | case8 depth id rest h1 h2 h3 h4 ih1 ih2 =>
    intro t h
    simp only [bind_ok, pure_ok] at h
    obtain ⟨ms, hms, tl, htl, rfl⟩ := h
    simp [originalIds, Desc.originalIds, ih1 ms hms, ih2 tl htl]
  | case9 depth id rest h1 h2 h3 ih =>
    intro t h
    simp only [bind_ok, pure_ok] at h
    obtain ⟨tl, htl, rfl⟩ := h
    simp [originalIds, ih tl htl, originalIds_lookupB T hK]

theorem originalIds_append (a b : List Desc) : originalIds (a ++ b) = originalIds a ++ originalIds b := by
  induction a with
  | nil => simp [originalIds]
  | cons d ds ih => simp [originalIds, ih]

theorem originalIdsQ_eq (q : List Desc) : originalIdsQ q = originalIds q := by
  fun_induction originalIdsQ q <;> simp_all [originalIds, Desc.originalIds, originalIds_append]

theorem leaves_lookupB (T : Tables) (id : Nat) : (T.lookupB id).leaves = [T.lookupB id] := by
  unfold Tables.lookupB
  split <;> simp [Desc.leaves]

theorem lookupB_fix (T : Tables) (hK : T.Keyed) (id : Nat) : T.lookupB id = T.lookupB (T.lookupB id).id := by
  rw [lookupB_id T hK]

theorem leaves_buildD (T : Tables) (hK : T.Keyed) (n : Nat) (ids : List Nat) :
    ∀ t, buildD T n ids = .ok t → ∀ d ∈ leaves t, d = T.lookupB d.id := by
  fun_induction buildD T n ids with
  | case1 depth => intro t h; cases h; simp [leaves]
  | case2 depth id rest h1 h2 ih =>
    intro t h
    simp only [bind_ok, pure_ok] at h
    obtain ⟨tl, htl, rfl⟩ := h
    simpa [leaves, Desc.leaves] using ih tl htl
  | case3 id rest h1 row h2 => intro t h; cases h
  | case4 id rest h1 row h2 d ih1 ih2 =>
    intro t h
    simp only [bind_ok, pure_ok] at h
    obtain ⟨ms, hms, tl, htl, rfl⟩ := h
    intro d hd
    simp only [leaves, Desc.leaves, List.mem_append] at hd
    rcases hd with hd | hd
    · exact ih1 ms hms d hd
    · exact ih2 tl htl d hd
  | case5 depth id rest h1 h2 ih =>
    intro t h
    simp only [bind_ok, pure_ok] at h
    obtain ⟨tl, htl, rfl⟩ := h
    simpa [leaves, Desc.leaves] using ih tl htl
  | case6 depth id h1 h2 h3 h4 => intro t h; cases h
  | case7 depth id h1 h2 h3 h4 f rest ih1 ih2 =>
    intro t h
    simp only [bind_ok, pure_ok] at h
    obtain ⟨ms, hms, tl, htl, rfl⟩ := h
    intro d hd
    simp only [leaves, Desc.leaves, List.mem_append, List.mem_cons] at hd
    rcases hd with (rfl | hd) | hd
    · exact lookupB_fix T hK f
    · exact ih1 ms hms d hd
    · exact ih2 tl htl d hd
  | case8 depth id rest h1 h2 h3 h4 ih1 ih2 =>
    intro t h
    simp only [bind_ok, pure_ok] at h
    obtain ⟨ms, hms, tl, htl, rfl⟩ := h
    intro d hd
    simp only [leaves, Desc.leaves, List.mem_append] at hd
    rcases hd with hd | hd
    · exact ih1 ms hms d hd
    · exact ih2 tl htl d hd
  | case9 depth id rest h1 h2 h3 ih =>
    intro t h
    simp only [bind_ok, pure_ok] at h
    obtain ⟨tl, htl, rfl⟩ := h
    intro d hd
    simp only [leaves, leaves_lookupB, List.mem_append, List.mem_singleton] at hd
    rcases hd with rfl | hd
    · exact lookupB_fix T hK id
    · exact ih tl htl d hd

theorem walkSkelL_append {σ : Type} (S : Steps σ) (a b : List Desc) :
    ∀ s, walkSkelL S s (a ++ b) = (match walkSkelL S s a with | .error e => .error e | .ok s' => walkSkelL S s' b) := by
  induction a with
  | nil => intro s; simp [walkSkelL]
  | cons d ds ih =>
    intro s
    simp only [List.cons_append, walkSkelL]
    cases S.pre s d with
    | error e => rfl
    | ok s1 =>
      simp only
      cases walkSkel S s1 d with
      | error e => rfl
      | ok s2 => simp only; exact ih s2

/-! ### count-free expansion -/

/-- concatenation of two optional outputs -/
def oapp (x y : Option (List Nat)) : Option (List Nat) :=
  match x, y with
  | some a, some b => some (a ++ b)
  | _, _ => none

theorem oapp_nil (y : Option (List Nat)) : oapp (some []) y = y := by cases y <;> simp [oapp]
theorem oapp_assoc (x y z : Option (List Nat)) : oapp (oapp x y) z = oapp x (oapp y z) := by
  cases x <;> cases y <;> cases z <;> simp [oapp]
theorem oapp_map1 (x y : Option (List Nat)) (i : Nat) :
    oapp (x.map (i :: ·)) y = (oapp x y).map (i :: ·) := by
  cases x <;> cases y <;> simp [oapp]
theorem oapp_map2 (x y : Option (List Nat)) (i j : Nat) :
    oapp (x.map (fun r => i :: j :: r)) y = (oapp x y).map (fun r => i :: j :: r) := by
  cases x <;> cases y <;> simp [oapp]

theorem looseWith_seq (sub : Nat → Option (List Nat)) (id : Nat) (rest : List Nat) (h : 300000 ≤ id) :
    looseWith sub (id :: rest) = oapp (sub id) (looseWith sub rest) := by
  rw [looseWith.eq_def]; simp only [h, if_true]
  cases sub id <;> cases looseWith sub rest <;> rfl
theorem looseWith_delayed (sub : Nat → Option (List Nat)) (id f : Nat) (rest : List Nat)
    (h1 : 100000 ≤ id) (h2 : id < 200000) (h3 : id % 1000 = 0) :
    looseWith sub (id :: f :: rest) = (looseWith sub rest).map (fun r => id :: f :: r) := by
  rw [looseWith.eq_def]; simp [show ¬ 300000 ≤ id by omega, h1, h2, h3]
theorem looseWith_other (sub : Nat → Option (List Nat)) (id : Nat) (rest : List Nat)
    (h : id < 300000) (h' : ¬ (100000 ≤ id ∧ id < 200000 ∧ id % 1000 = 0)) :
    looseWith sub (id :: rest) = (looseWith sub rest).map (id :: ·) := by
  rw [looseWith.eq_def]; simp [show ¬ 300000 ≤ id by omega, h']

/-- a list that builds never ends inside a delayed replication head, so the count-free pass
    splits at its end -/
theorem looseWith_append (T : Tables) (sub : Nat → Option (List Nat)) (n : Nat) (a : List Nat) :
    (∃ t, buildD T n a = .ok t) → ∀ b, looseWith sub (a ++ b) = oapp (looseWith sub a) (looseWith sub b) := by
  fun_induction buildD T n a with
  | case1 depth => intro _ b; simp [looseWith, oapp_nil]
  | case2 depth id rest h1 h2 ih =>
    intro ⟨t, h⟩ b
    simp only [bind_ok, pure_ok] at h
    obtain ⟨tl, htl, _⟩ := h
    simp only [List.cons_append, looseWith_seq _ _ _ h1, ih ⟨tl, htl⟩ b, oapp_assoc]
  | case3 id rest h1 row h2 => intro ⟨t, h⟩; cases h
  | case4 id rest h1 row h2 d ih1 ih2 =>
    intro ⟨t, h⟩ b
    simp only [bind_ok, pure_ok] at h
    obtain ⟨ms, hms, tl, htl, _⟩ := h
    simp only [List.cons_append, looseWith_seq _ _ _ h1, ih2 ⟨tl, htl⟩ b, oapp_assoc]
  | case5 depth id rest h1 h2 ih =>
    intro ⟨t, h⟩ b
    simp only [bind_ok, pure_ok] at h
    obtain ⟨tl, htl, _⟩ := h
    have hn : ¬ (100000 ≤ id ∧ id < 200000 ∧ id % 1000 = 0) := by omega
    simp only [List.cons_append, looseWith_other _ _ _ (by omega) hn, ih ⟨tl, htl⟩ b, oapp_map1]
  | case6 depth id h1 h2 h3 h4 => intro ⟨t, h⟩; cases h
  | case7 depth id h1 h2 h3 h4 f rest ih1 ih2 =>
    intro ⟨t, h⟩ b
    simp only [bind_ok, pure_ok] at h
    obtain ⟨ms, hms, tl, htl, _⟩ := h
    have e : rest ++ b = rest.take (xOf id) ++ (rest.drop (xOf id) ++ b) := by
      rw [← List.append_assoc, List.take_append_drop]
    have e' : looseWith sub rest = oapp (looseWith sub (rest.take (xOf id))) (looseWith sub (rest.drop (xOf id))) := by
      conv => lhs; rw [← List.take_append_drop (xOf id) rest]
      exact ih1 ⟨ms, hms⟩ _
    simp only [List.cons_append, looseWith_delayed _ _ _ _ h3 (by omega) h4, oapp_map2]
    rw [e, ih1 ⟨ms, hms⟩, ih2 ⟨tl, htl⟩ b, e', oapp_assoc]
  | case8 depth id rest h1 h2 h3 h4 ih1 ih2 =>
    intro ⟨t, h⟩ b
    simp only [bind_ok, pure_ok] at h
    obtain ⟨ms, hms, tl, htl, _⟩ := h
    have e : rest ++ b = rest.take (xOf id) ++ (rest.drop (xOf id) ++ b) := by
      rw [← List.append_assoc, List.take_append_drop]
    have e' : looseWith sub rest = oapp (looseWith sub (rest.take (xOf id))) (looseWith sub (rest.drop (xOf id))) := by
      conv => lhs; rw [← List.take_append_drop (xOf id) rest]
      exact ih1 ⟨ms, hms⟩ _
    have hn : ¬ (100000 ≤ id ∧ id < 200000 ∧ id % 1000 = 0) := by omega
    simp only [List.cons_append, looseWith_other _ _ _ (by omega) hn, oapp_map1]
    rw [e, ih1 ⟨ms, hms⟩, ih2 ⟨tl, htl⟩ b, e', oapp_assoc]
  | case9 depth id rest h1 h2 h3 ih =>
    intro ⟨t, h⟩ b
    simp only [bind_ok, pure_ok] at h
    obtain ⟨tl, htl, _⟩ := h
    have hn : ¬ (100000 ≤ id ∧ id < 200000 ∧ id % 1000 = 0) := by omega
    simp only [List.cons_append, looseWith_other _ _ _ (by omega) hn, ih ⟨tl, htl⟩ b, oapp_map1]

def subLoose (T : Tables) : Nat → Nat → Option (List Nat)
  | 0 => subOf T (fun _ => none)
  | n + 1 => subOf T (loose T n)

theorem loose_eq_subLoose (T : Tables) (n : Nat) (ids : List Nat) :
    loose T n ids = looseWith (subLoose T n) ids := by
  cases n <;> rfl

/-- every list that builds at all flattens to its count-free expansion -/
theorem loose_buildD (T : Tables) (hK : T.Keyed) (n : Nat) (ids : List Nat) :
    ∀ t, buildD T n ids = .ok t → loose T n ids = some (flatMemberIds t) := by
  fun_induction buildD T n ids with
  | case1 depth => intro t h; cases h; rw [loose_eq_subLoose]; simp [looseWith, flatMemberIds]
  | case2 depth id rest h1 h2 ih =>
    intro t h
    simp only [bind_ok, pure_ok] at h
    obtain ⟨tl, htl, rfl⟩ := h
    have := ih tl htl
    rw [loose_eq_subLoose] at this ⊢
    rw [looseWith_seq _ _ _ h1, this]
    cases depth <;> simp [subLoose, subOf, h2, oapp, flatMemberIds, Desc.flatIds]
  | case3 id rest h1 row h2 => intro t h; cases h
  | case4 id rest h1 row h2 d ih1 ih2 =>
    intro t h
    simp only [bind_ok, pure_ok] at h
    obtain ⟨ms, hms, tl, htl, rfl⟩ := h
    have h2' := ih2 tl htl
    rw [loose_eq_subLoose] at h2' ⊢
    rw [looseWith_seq _ _ _ h1, h2']
    simp [subLoose, subOf, h2, ih1 ms hms, oapp, flatMemberIds, Desc.flatIds]
  | case5 depth id rest h1 h2 ih =>
    intro t h
    simp only [bind_ok, pure_ok] at h
    obtain ⟨tl, htl, rfl⟩ := h
    have := ih tl htl
    rw [loose_eq_subLoose] at this ⊢
    have hn : ¬ (100000 ≤ id ∧ id < 200000 ∧ id % 1000 = 0) := by omega
    rw [looseWith_other _ _ _ (by omega) hn, this]
    simp [flatMemberIds, Desc.flatIds]
  | case6 depth id h1 h2 h3 h4 => intro t h; cases h
  | case7 depth id h1 h2 h3 h4 f rest ih1 ih2 =>
    intro t h
    simp only [bind_ok, pure_ok] at h
    obtain ⟨ms, hms, tl, htl, rfl⟩ := h
    have a1 := ih1 ms hms
    have a2 := ih2 tl htl
    rw [loose_eq_subLoose] at a1 a2 ⊢
    rw [looseWith_delayed _ _ _ _ h3 (by omega) h4]
    conv => lhs; rw [← List.take_append_drop (xOf id) rest]
    rw [looseWith_append T _ depth _ ⟨ms, hms⟩, a1, a2]
    simp [oapp, flatMemberIds, Desc.flatIds, lookupB_id T hK]
  | case8 depth id rest h1 h2 h3 h4 ih1 ih2 =>
    intro t h
    simp only [bind_ok, pure_ok] at h
    obtain ⟨ms, hms, tl, htl, rfl⟩ := h
    have a1 := ih1 ms hms
    have a2 := ih2 tl htl
    rw [loose_eq_subLoose] at a1 a2 ⊢
    have hn : ¬ (100000 ≤ id ∧ id < 200000 ∧ id % 1000 = 0) := by omega
    rw [looseWith_other _ _ _ (by omega) hn]
    conv => lhs; rw [← List.take_append_drop (xOf id) rest]
    rw [looseWith_append T _ depth _ ⟨ms, hms⟩, a1, a2]
    simp [oapp, flatMemberIds, Desc.flatIds]
  | case9 depth id rest h1 h2 h3 ih =>
    intro t h
    simp only [bind_ok, pure_ok] at h
    obtain ⟨tl, htl, rfl⟩ := h
    have := ih tl htl
    rw [loose_eq_subLoose] at this ⊢
    have hn : ¬ (100000 ≤ id ∧ id < 200000 ∧ id % 1000 = 0) := by omega
    rw [looseWith_other _ _ _ (by omega) hn, this]
    simp [flatMemberIds, flatIds_lookupB T hK]

end Bufr
