/-
  C08: simulation between the interpreted template walk (`walkList`) and the execution of the
  compiled program (`execList ∘ compileList`).

  The walk threads all registers through the run-time state; the compiled program was specialised
  with the compile-time registers `c : CRegs`, and its execution leaves the corresponding fields of
  the run-time state alone (apart from what `state_properties` writes before a marker operator).
  `RelR c r r'` relates the compile-time registers, the walk's registers `r` and the registers `r'`
  of the executing state; everything else in the two states is equal.
-/
import BufrModel.Lemmas.CompilerFrame
namespace Bufr.C08
open Bufr

def withRegs (s : St) (r : Regs) : St := { s with regs := r }

structure RelR (c : CRegs) (r r' : Regs) : Prop where
  -- compile-time registers describe the walk's registers
  nbitsOffset : r.nbitsOffset = c.nbitsOffset
  scaleOffset : r.scaleOffset = c.scaleOffset
  nbitsNewRefval : r.nbitsNewRefval = c.nbitsNewRefval
  assocStack : r.assocStack = c.assocStack
  nbitsSkipped : r.nbitsSkipped = c.nbitsSkipped
  y207 : r.y207 = c.y207
  newNbytes : r.newNbytes = c.newNbytes
  dnpCount : r.dnpCount = c.dnpCount
  qa : r.qa = c.qa
  bitmapDef : r.bitmapDef = c.bitmapDef
  keys : ∀ id, id ∈ c.newRefIds ↔ (lookupRef r.newRefvals id).isSome = true
  nz : c.nZero = true → r.n031031 = 0
  -- run-time registers are the same in both runs
  newRefvals : r'.newRefvals = r.newRefvals
  n031031 : r'.n031031 = r.n031031
  bitmapped : r'.bitmapped = r.bitmapped
  bmIter : r'.bmIter = r.bmIter
  backBoundary : r'.backBoundary = r.backBoundary
  backRefs : r'.backRefs = r.backRefs
  -- the executing state never has a pending QA status
  qa' : r'.qa = .na

/-- results of the two runs: both fail alike, or both succeed in related states -/
def Sim (c : CRegs) (a b : CM St) : Prop :=
  match a, b with
  | .ok t, .ok t' => t' = withRegs t t'.regs ∧ RelR c t.regs t'.regs
  | .error e, .error e' => e = e'
  | _, _ => False

theorem Sim.ok_iff {c : CRegs} {t t' : St} : Sim c (.ok t) (.ok t') ↔ (t' = withRegs t t'.regs ∧ RelR c t.regs t'.regs) := Iff.rfl

theorem sim_ok {c : CRegs} {t : St} {r' : Regs} (h : RelR c t.regs r') : Sim c (.ok t) (.ok (withRegs t r')) :=
  ⟨rfl, h⟩

/-- sequencing -/
theorem sim_bind {c1 c2 : CRegs} {a b : CM St} {f g : St → CM St} (h : Sim c1 a b)
    (hk : ∀ t r', RelR c1 t.regs r' → Sim c2 (f t) (g (withRegs t r'))) :
    Sim c2 (a >>= f) (b >>= g) := by
  cases a with
  | error e =>
    cases b with
    | error e' => exact h
    | ok t' => exact h.elim
  | ok t =>
    cases b with
    | error e' => exact h.elim
    | ok t' =>
      obtain ⟨h1, h2⟩ := h
      have := hk t t'.regs h2
      rw [← h1] at this
      exact this

theorem execList_append (P : Prims) (p q : List Stmt) (s : St) :
    execList P (p ++ q) s = (execList P p s >>= execList P q) := by
  induction p generalizing s with
  | nil => simp only [List.nil_append, execList]; rfl
  | cons x xs ih =>
    simp only [List.cons_append, execList]
    cases exec1 P x s with
    | error e => rfl
    | ok t => exact ih t

theorem execList_single (P : Prims) (x : Stmt) (s : St) : execList P [x] s = exec1 P x s := by
  simp only [execList]
  cases exec1 P x s <;> rfl

/-- a primitive that satisfies the frame law behaves alike in both runs -/
theorem prim_sim {c : CRegs} (f : St → CM St) (hf : ∀ (g : Regs → Regs) s, f (s.setRegs g) = mapSt g (f s))
    (s : St) (r' : Regs) (h : RelR c s.regs r') : Sim c (f s) (f (withRegs s r')) := by
  have h1 : f (withRegs s r') = mapSt (fun _ => r') (f s) := hf (fun _ => r') s
  have h2 : f s = mapSt (fun _ => s.regs) (f s) := hf (fun _ => s.regs) s
  rw [h1]
  cases hfs : f s with
  | error e => exact rfl
  | ok t =>
    rw [hfs] at h2
    simp only [mapSt, St.setRegs] at h2
    have h3 : t.regs = s.regs := by
      have := congrArg (fun x => match x with | Except.ok y => y.regs | Except.error _ => s.regs) h2
      simpa using this
    refine ⟨rfl, ?_⟩
    show RelR c t.regs r'
    rw [h3]; exact h

theorem RelR.refFactor {c : CRegs} {r r' : Regs} (h : RelR c r r') : r.refFactor = c.refFactor := by
  simp only [Regs.refFactor, CRegs.refFactor, h.y207]
theorem RelR.nbitsInc {c : CRegs} {r r' : Regs} (h : RelR c r r') : r.nbitsInc = c.nbitsInc := by
  simp only [Regs.nbitsInc, CRegs.nbitsInc, h.y207]
theorem RelR.scaleInc {c : CRegs} {r r' : Regs} (h : RelR c r r') : r.scaleInc = c.scaleInc := by
  simp only [Regs.scaleInc, CRegs.scaleInc, h.y207]

theorem RelR.lookup_none {c : CRegs} {r r' : Regs} (h : RelR c r r') (id : Nat) (hn : id ∉ c.newRefIds) :
    lookupRef r.newRefvals id = none := by
  cases hl : lookupRef r.newRefvals id with
  | none => rfl
  | some v => exact absurd ((h.keys id).mpr (by rw [hl]; rfl)) hn

theorem RelR.lookup_some {c : CRegs} {r r' : Regs} (h : RelR c r r') (id : Nat) (hn : id ∈ c.newRefIds) :
    ∃ v, lookupRef r.newRefvals id = some v := by
  have := (h.keys id).mp hn
  cases hl : lookupRef r.newRefvals id with
  | none => rw [hl] at this; simp at this
  | some v => exact ⟨v, rfl⟩

/-- `state.next_bitmapped_descriptor()` in both runs -/
theorem nextBitmapped_sim {c : CRegs} (s : St) (r' : Regs) (h : RelR c s.regs r') :
    match nextBitmapped s, nextBitmapped (withRegs s r') with
    | .ok (x, t), .ok (x', t') => x' = x ∧ t' = withRegs t t'.regs ∧ RelR c t.regs t'.regs ∧ t.descs = s.descs
    | .error e, .error e' => e = e'
    | _, _ => False := by
  simp only [nextBitmapped, withRegs, h.bmIter]
  cases hb : s.regs.bmIter with
  | none => simp only
  | some l =>
    cases l with
    | nil => simp only
    | cons x rest =>
      refine ⟨rfl, rfl, ?_, rfl⟩
      exact { h with bmIter := rfl }

theorem assoc_sim {c : CRegs} (P : Prims) (hP : Frame P) (id : Nat) (cond : Prop) [Decidable cond] (s : St) (r' : Regs)
    (h : RelR c s.regs r') :
    Sim c (if s.regs.assocStack ≠ [] ∧ cond then associatedField P id s else pure s)
      (execList P (if c.assocStack ≠ [] ∧ cond then [Stmt.codeflag (.assoc id c.assocStack.sum) c.assocStack.sum] else []) (withRegs s r')) := by
  rw [h.assocStack]
  split
  · rw [execList_single]
    simp only [exec1, associatedField, h.assocStack]
    exact prim_sim _ (hP.codeflag _ _) s r' h
  · exact sim_ok h

/-- the QA-status step of `process_element_descriptor` -/
def wQa (x : Nat) (s : St) : CM St :=
  if x = 33 then
    let s1 := if s.regs.qa = .waiting then s.setRegs fun r => { r with qa := .processing } else s
    if s1.regs.qa = .processing then do
      let ((owner, _), s2) ← nextBitmapped s1
      pure (addLink s2 owner)
    else pure s1
  else
    pure (if s.regs.qa = .processing then s.setRegs fun r => { r with qa := .na } else s)

/-- the value step -/
def wValue (P : Prims) (dd : DDesc) (e : Elem) (s : St) : CM St :=
  match e.kind with
  | .string =>
    let nbytes := if s.regs.newNbytes ≠ 0 then s.regs.newNbytes else e.nbits / 8
    P.string dd nbytes s
  | .codeflag => P.codeflag dd e.nbits s
  | .numeric =>
    let nbits : Int := (e.nbits : Int) + s.regs.nbitsOffset + s.regs.nbitsInc
    let scale : Int := e.scale + s.regs.scaleOffset + s.regs.scaleInc
    match lookupRef s.regs.newRefvals e.id with
    | none => P.numeric dd nbits scale (e.ref * s.regs.refFactor) s
    | some nr => P.numeric dd nbits scale (nr * s.regs.refFactor) s

theorem elementDescriptor_eq (P : Prims) (dd : DDesc) (e : Elem) (s : St) :
    elementDescriptor P dd e s =
      ((if s.regs.assocStack ≠ [] ∧ xOf e.id ≠ 31 then associatedField P e.id s else pure s) >>= fun s1 =>
        wQa (xOf e.id) s1 >>= wValue P dd e) := rfl

theorem link_sim {c : CRegs} (s : St) (r' : Regs) (h : RelR c s.regs r') :
    Sim c (nextBitmapped s >>= fun x => pure (addLink x.2 x.1.1)) (stateCall .addBitmapLink (withRegs s r')) := by
  have hn := nextBitmapped_sim s r' h
  simp only [stateCall]
  revert hn
  cases nextBitmapped s with
  | error e =>
    cases nextBitmapped (withRegs s r') with
    | error e' => intro hn; exact hn
    | ok y => intro hn; exact hn.elim
  | ok x =>
    cases nextBitmapped (withRegs s r') with
    | error e' => intro hn; exact hn.elim
    | ok y =>
      intro hn
      obtain ⟨h1, h2, h3, h4⟩ := hn
      obtain ⟨⟨o, e⟩, t⟩ := x
      obtain ⟨⟨o', e'⟩, t'⟩ := y
      cases h1
      dsimp only at h2 h3
      refine ⟨?_, h3⟩
      show addLink t' o = withRegs (addLink t o) (addLink t' o).regs
      conv => lhs; rw [h2]
      rfl

theorem qa_sim {c : CRegs} (P : Prims) (x : Nat) (s : St) (r' : Regs) (h : RelR c s.regs r') :
    Sim (cQa x c) (wQa x s)
      (execList P (if x = 33 ∧ (cQa x c).qa = .processing then [Stmt.state .addBitmapLink] else []) (withRegs s r')) := by
  unfold wQa cQa
  by_cases hx : x = 33
  · simp only [hx, if_true, true_and]
    rw [h.qa]
    by_cases hw : c.qa = .waiting
    · simp only [hw, if_true, St.setRegs]
      rw [execList_single]
      exact link_sim (c := { c with qa := .processing }) _ r' { h with qa := rfl }
    · simp only [hw, if_false]
      rw [h.qa]
      by_cases hp : c.qa = .processing
      · simp only [hp, if_true]
        rw [execList_single]
        exact link_sim s r' h
      · simp only [hp, if_false]
        exact sim_ok h
  · simp only [hx, if_false, false_and]
    rw [h.qa]
    by_cases hp : c.qa = .processing
    · simp only [hp, if_true]
      exact sim_ok (t := s.setRegs _) { h with qa := rfl }
    · simp only [hp, if_false]
      exact sim_ok h

theorem cValue_cQa (e : Elem) (x : Nat) (c : CRegs) : cValue e (cQa x c) = cValue e c := by
  unfold cQa
  split <;> split <;> rfl

theorem value_sim {c : CRegs} (P : Prims) (hP : Frame P) (e : Elem) (s : St) (r' : Regs) (h : RelR c s.regs r') :
    Sim c (wValue P (.plain e) e s) (execList P [cValue e c] (withRegs s r')) := by
  rw [execList_single]
  unfold wValue cValue
  cases e.kind with
  | string =>
    simp only [exec1, h.newNbytes]
    exact prim_sim _ (hP.string _ _) s r' h
  | codeflag =>
    simp only [exec1]
    exact prim_sim _ (hP.codeflag _ _) s r' h
  | numeric =>
    simp only [h.nbitsOffset, h.scaleOffset, h.nbitsInc, h.scaleInc, h.refFactor]
    by_cases hm : e.id ∈ c.newRefIds
    · obtain ⟨v, hv⟩ := h.lookup_some e.id hm
      simp only [hm, if_true, exec1, DDesc.eid, withRegs, h.newRefvals, hv]
      exact prim_sim _ (hP.numeric _ _ _ _) s r' h
    · simp only [hm, if_false, exec1, h.lookup_none e.id hm]
      exact prim_sim _ (hP.numeric _ _ _ _) s r' h

theorem element_sim {c : CRegs} (P : Prims) (hP : Frame P) (e : Elem) (s : St) (r' : Regs) (h : RelR c s.regs r') :
    Sim (cElement e c).2 (elementDescriptor P (.plain e) e s) (execList P (cElement e c).1 (withRegs s r')) := by
  rw [elementDescriptor_eq]
  simp only [cElement]
  rw [execList_append]
  refine sim_bind (c1 := c) (assoc_sim P hP e.id _ s r' h) ?_
  intro t1 r1 h1
  rw [execList_append]
  refine sim_bind (c1 := cQa (xOf e.id) c) (qa_sim P _ t1 r1 h1) ?_
  intro t2 r2 h2
  rw [← cValue_cQa e (xOf e.id) c]
  exact value_sim P hP e t2 r2 h2

theorem rz_sim {c : CRegs} (P : Prims) (s : St) (r' : Regs) (h : RelR c s.regs r') :
    Sim c (.ok s) (execList P (if c.nZero = true then [Stmt.reset031031] else []) (withRegs s r')) := by
  split
  · next hz =>
    rw [execList_single]
    simp only [exec1, St.setRegs, withRegs]
    refine ⟨rfl, { h with n031031 := ?_ }⟩
    exact (h.nz hz).symm
  · exact sim_ok h

theorem bb_sim {c : CRegs} (s : St) (r' : Regs) (b : List Val) (h : RelR c s.regs r') :
    Sim c (buildBitmapped s b) (buildBitmapped (withRegs s r') b) := by
  simp only [buildBitmapped, withRegs, h.backRefs, h.backBoundary]
  split <;> split <;> first
    | rfl
    | exact ⟨rfl, { h with backRefs := rfl, bitmapped := rfl, bmIter := rfl }⟩

theorem reset_sim (P : Prims) (s : St) (r' : Regs) (f : Regs → Regs) (c2 : CRegs)
    (h2 : RelR c2 (f s.regs) { r' with n031031 := 0 }) :
    Sim c2 (.ok (s.setRegs f)) (execList P [Stmt.reset031031] (withRegs s r')) := by
  rw [execList_single]
  exact ⟨rfl, h2⟩

theorem inc_sim (P : Prims) (s : St) (r' : Regs) (f : Regs → Regs) (c2 : CRegs)
    (h2 : RelR c2 (f s.regs) { r' with n031031 := r'.n031031 + 1 }) :
    Sim c2 (.ok (s.setRegs f)) (execList P [Stmt.inc031031] (withRegs s r')) := by
  rw [execList_single]
  exact ⟨rfl, h2⟩

theorem bitmapDef_sim {c : CRegs} (P : Prims) (hP : Frame P) (id : Nat) (s : St) (r' : Regs) (h : RelR c s.regs r') :
    Sim (cBitmapDefinition id c).2 (bitmapDefinition P id s) (execList P (cBitmapDefinition id c).1 (withRegs s r')) := by
  unfold bitmapDefinition cBitmapDefinition
  rw [h.bitmapDef]
  cases hb : c.bitmapDef with
  | na => exact sim_ok h
  | indicator =>
    simp only
    by_cases h6 : id = 236000
    · have h7 : ¬ (236000 = 237000) := by omega
      simp only [h6, h7, if_true, if_false]
      exact reset_sim P s r' _ _ { h with bitmapDef := rfl, nz := fun _ => rfl, n031031 := rfl }
    · by_cases h7 : id = 237000
      · simp only [h6, h7, if_true, if_false]
        have h' : RelR { c with bitmapDef := .na } (s.setRegs fun r => { r with bitmapDef := .na }).regs r' :=
          { h with bitmapDef := rfl }
        exact rz_sim P (s.setRegs fun r => { r with bitmapDef := .na }) r' h'
      · simp only [h6, h7, if_false]
        exact reset_sim P s r' _ _ { h with bitmapDef := rfl, nz := fun _ => rfl, n031031 := rfl }
  | waiting =>
    simp only
    by_cases h3 : id = 31031
    · simp only [h3, if_true]
      refine inc_sim P s r' _ _ { h with bitmapDef := rfl, nz := (fun hz => by cases hz), n031031 := ?_ }
      show r'.n031031 + 1 = s.regs.n031031 + 1
      rw [h.n031031]
    · simp only [h3, if_false]
      exact rz_sim P s r' h
  | counting =>
    simp only
    by_cases h3 : id = 31031
    · simp only [h3, if_true]
      refine inc_sim P s r' _ _ { h with bitmapDef := h.bitmapDef.trans hb, nz := (fun hz => by cases hz), n031031 := ?_ }
      show r'.n031031 + 1 = s.regs.n031031 + 1
      rw [h.n031031]
    · simp only [h3, if_false]
      rw [show (Stmt.defineBitmap c.reuse :: (if c.nZero = true then [Stmt.reset031031] else []))
            = [Stmt.defineBitmap c.reuse] ++ (if c.nZero = true then [Stmt.reset031031] else []) from rfl]
      rw [execList_append, execList_single]
      have hlv : P.lastValues r'.n031031 (withRegs s r') = P.lastValues s.regs.n031031 s := by
        rw [h.n031031]; exact hP.lastValues _ (fun _ => r') s
      have hstep : Sim c (P.lastValues s.regs.n031031 s >>= buildBitmapped s) (exec1 P (Stmt.defineBitmap c.reuse) (withRegs s r')) := by
        simp only [exec1, defineBitmapRt]
        rw [show (withRegs s r').regs.n031031 = r'.n031031 from rfl, hlv]
        cases P.lastValues s.regs.n031031 s with
        | error e => exact rfl
        | ok b => exact bb_sim s r' b h
      rw [← bind_assoc]
      refine sim_bind hstep ?_
      intro t r1 h1
      have h' : RelR { c with bitmapDef := .na } (t.setRegs fun r => { r with bitmapDef := .na }).regs r1 :=
        { h1 with bitmapDef := rfl }
      exact rz_sim P (t.setRegs fun r => { r with bitmapDef := .na }) r1 h'

/-! ### the walk and the compiler as prelude + dispatch (groundwork for the composition over templates) -/
def dnpSkip (dnp : Nat) (d : Desc) : Bool :=
  dnp ≠ 0 && (match d with
    | .elem e => !((1 ≤ xOf e.id && xOf e.id ≤ 9) || xOf e.id == 31)
    | _ => false)

def newRefTarget (n : Nat) (d : Desc) : Option Elem :=
  if n ≠ 0 then (match d with | .elem e => some e | _ => none) else none

def wPre (P : Prims) (d : Desc) (k : St → CM St) (s0 : St) : CM St :=
    let dnp := s0.regs.dnpCount
    let s := if dnp ≠ 0 then s0.setRegs fun r => { r with dnpCount := dnp - 1 } else s0
    if dnpSkip dnp d then .ok s
    else
      match newRefTarget s.regs.nbitsNewRefval d with
      | some e =>
        if e.kind = .string then .error .lib
        else P.newRefval e s.regs.nbitsNewRefval s
      | none =>
        if s.regs.nbitsSkipped ≠ 0 then do
          let n := s.regs.nbitsSkipped
          let s' ← P.codeflag (.skipped d.id n) n s
          pure (s'.setRegs fun r => { r with nbitsSkipped := 0 })
        else
          match bitmapDefinition P d.id s with
          | .error e => .error e
          | .ok s => k s

def wDispatch (P : Prims) : Desc → St → CM St
  | .elem e, s => elementDescriptor P (.plain e) e s
  | .fixedRep id ms, s => iterN (yOf id) (walkList P ms) s
  | .delayedRep _ f ms, s =>
    match f with
    | .elem fe =>
      match elementDescriptor P (.plain fe) fe s with
      | .error e => .error e
      | .ok s1 =>
        match P.factorValue s1 >>= factorCount with
        | .error e => .error e
        | .ok n => iterN n (walkList P ms) s1
    | _ => .error .unknownDescr
  | .op id, s => operatorDescriptor P id s
  | .seq _ ms, s => walkList P ms s
  | .undefElem _, _ => .error .unknownDescr
  | .undefSeq _, _ => .error .unknownDescr

theorem walk1_eq (P : Prims) (d : Desc) (s0 : St) : walk1 P d s0 = wPre P d (wDispatch P d) s0 := by
  cases d <;> simp only [walk1, wPre, wDispatch, dnpSkip, newRefTarget] <;> rfl

def cPre (d : Desc) (k : CRegs → CM COut) (c0 : CRegs) : CM COut :=
    let dnp := c0.dnpCount
    let c := if dnp ≠ 0 then { c0 with dnpCount := dnp - 1 } else c0
    if dnpSkip dnp d then .ok ([], c)
    else
      match newRefTarget c.nbitsNewRefval d with
      | some e =>
        if e.kind = .string then .error .lib
        else .ok ([.newRefval e c.nbitsNewRefval], { c with newRefIds := e.id :: c.newRefIds })
      | none =>
        if c.nbitsSkipped ≠ 0 then
          .ok ([.codeflag (.skipped d.id c.nbitsSkipped) c.nbitsSkipped], { c with nbitsSkipped := 0 })
        else
          let pc := cBitmapDefinition d.id c
          match k pc.2 with
          | .error e => .error e
          | .ok (p, c1) => .ok (pc.1 ++ p, c1)

def cDispatch (chk : Nat) : Desc → CRegs → CM COut
  | .elem e, c => .ok (cElement e c)
  | .fixedRep id ms, c =>
    match compileList chk ms c with
    | .error e => .error e
    | .ok (body, c1) =>
      if decide (chk ≠ 0) && !(scopeOk (decide (yOf id ≠ 0)) c body c1 (compileList chk ms c1)) then .error .other
      else .ok ([.loop (.fixed (yOf id)) body], c1)
  | .delayedRep _ f ms, c =>
    match f with
    | .elem fe =>
      match compileList chk ms (cElement fe c).2 with
      | .error e => .error e
      | .ok (body, c1) =>
        if decide (chk ≠ 0) && !(scopeOk (decide (chk = 2)) (cElement fe c).2 body c1 (compileList chk ms c1)) then .error .other
        else .ok ((cElement fe c).1 ++ [.loop .factor body], c1)
    | _ => .error .unknownDescr
  | .op id, c =>
    if decide (chk ≠ 0) && isMarkerOp id && decide (c.qa ≠ .na) then .error .other
    else cOperator id c
  | .seq _ ms, c => compileList chk ms c
  | .undefElem _, _ => .error .unknownDescr
  | .undefSeq _, _ => .error .unknownDescr

theorem compile1_eq (chk : Nat) (d : Desc) (c0 : CRegs) : compile1 chk d c0 = cPre d (cDispatch chk d) c0 := by
  cases d <;> rfl

end Bufr.C08
