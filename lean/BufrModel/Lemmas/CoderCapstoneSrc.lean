/-
  The whole template walk: the generated `process_members`, `process_fixed_replication_descriptor`,
  `process_delayed_replication_descriptor`, `process_sequence_descriptor` (`Gen/PyCoder.lean`) wired to each other —
  `self.process_x(...)` inside one of them is the generated method `process_x` — by recursion on a fuel argument
  (`pyWalk`), against the model's `walkList`.

  The WIRING (`pyWalk`, `membersCb`: which generated method a `self.process_x` call reaches, and the views of a descriptor
  object the composite methods take) is written here by hand; every method BODY is the generated one.  The methods that
  do not recurse (`process_element_descriptor`, `process_operator_descriptor`, `process_bitmap_definition`,
  `process_define_new_refval`, `process_skipped_local_descriptor`, `get_value_for_delayed_replication_factor`) are the
  parameter `L`; `LeafCorr` asks of them what `C01_src_process_element_descriptor`, `C01_src_process_operator_descriptor`,
  `C07_src_process_bitmap_definition` establish for the generated ones.
-/
import BufrModel.Lemmas.CoderCompositeSrc
import BufrModel.Props.C14Src
set_option linter.unusedSimpArgs false
set_option linter.unusedVariables false
namespace Bufr
open PyGen.coder
open Bufr.C08 (wDispatch)

variable {V B : Type}

abbrev PyStep (V B : Type) := CoderState.Self Descr V → B → Descr → Except Py.Exc (CoderState.Self Descr V × B)

/-- the methods of the walk that do not recurse -/
structure LeafCb (V B : Type) where
  process_define_new_refval : PyStep V B
  process_skipped_local_descriptor : PyStep V B
  process_bitmap_definition : PyStep V B
  process_element_descriptor : PyStep V B
  process_operator_descriptor : PyStep V B
  get_value_for_delayed_replication_factor : CoderState.Self Descr V → Except Py.Exc Int

/-- the composite descriptor objects as their methods see them -/
def fixedView : Descr → FixedReplicationDescriptor.Self
  | .FixedReplicationDescriptor id ms => ⟨id, PyGen.descriptors.FixedReplicationDescriptor.n_repeats ⟨id⟩, ms⟩
  | _ => ⟨0, 0, []⟩
def delayedView : Descr → DelayedReplicationDescriptor.Self
  | .DelayedReplicationDescriptor id ms f => ⟨id, ms, f⟩
  | _ => ⟨0, [], .OtherDescriptor 0⟩
def sequenceView : Descr → SequenceDescriptor.Self
  | .SequenceDescriptor id ms => ⟨id, ms⟩
  | _ => ⟨0, []⟩

/-- the callbacks of the generated `process_members`, with `w` for the recursive walk -/
def membersCb (L : LeafCb V B)
    (w : CoderState.Self Descr V → B → List Descr → Except Py.Exc (CoderState.Self Descr V × B)) :
    Coder.process_members.Callbacks Descr V B where
  process_define_new_refval := L.process_define_new_refval
  process_skipped_local_descriptor := L.process_skipped_local_descriptor
  process_bitmap_definition := L.process_bitmap_definition
  process_element_descriptor := L.process_element_descriptor
  process_fixed_replication_descriptor := fun ps b m => Coder.process_fixed_replication_descriptor ⟨w⟩ ps b (fixedView m)
  process_delayed_replication_descriptor := fun ps b m =>
    Coder.process_delayed_replication_descriptor ⟨L.process_element_descriptor, L.get_value_for_delayed_replication_factor, w⟩
      ps b (delayedView m)
  process_operator_descriptor := L.process_operator_descriptor
  process_sequence_descriptor := fun ps b m => Coder.process_sequence_descriptor ⟨w⟩ ps b (sequenceView m)

/-- the regenerated walk: `process_members` and the three composite methods calling each other, on fuel -/
def pyWalk (L : LeafCb V B) : Nat → CoderState.Self Descr V → B → List Descr → Except Py.Exc (CoderState.Self Descr V × B)
  | 0 => fun _ _ _ => .error .outOfFuel
  | fuel + 1 => fun ps b ms => Coder.process_members (membersCb L (pyWalk L fuel)) ps b ms

mutual
/-- nesting depth of a descriptor tree -/
def depthOf : Descr → Nat
  | .FixedReplicationDescriptor _ ms => depthsOf ms + 1
  | .DelayedReplicationDescriptor _ ms f => depthsOf ms + 1
  | .SequenceDescriptor _ ms => depthsOf ms + 1
  | _ => 0
def depthsOf : List Descr → Nat
  | [] => 0
  | d :: ds => max (depthOf d) (depthsOf ds)
end

mutual
/-- every node of the tree (members, and the factor of a delayed replication) satisfies `G`; ids are non-negative
    throughout, and no replication descriptor has the id 031011 / 031012 -/
def GoodD (G : Descr → Prop) : Descr → Prop
  | .FixedReplicationDescriptor id ms => 0 ≤ id ∧ GoodDs G ms
  | .DelayedReplicationDescriptor id ms f => 0 ≤ id ∧ id ≠ 31011 ∧ id ≠ 31012 ∧ (G f ∧ 0 ≤ Descr.id f) ∧ GoodDs G ms
  | .SequenceDescriptor id ms => 0 ≤ id ∧ GoodDs G ms
  | d => 0 ≤ Descr.id d
def GoodDs (G : Descr → Prop) : List Descr → Prop
  | [] => True
  | d :: ds => (G d ∧ GoodD G d) ∧ GoodDs G ds
end

theorem goodDs_mem {G : Descr → Prop} : ∀ {ms : List Descr} {m : Descr}, GoodDs G ms → m ∈ ms → G m ∧ GoodD G m
  | [], _, _, hm => by cases hm
  | d :: ds, m, hg, hm => by
    simp only [GoodDs] at hg
    rcases List.mem_cons.mp hm with rfl | hm'
    · exact hg.1
    · exact goodDs_mem hg.2 hm'

theorem depth_mem : ∀ {ms : List Descr} {m : Descr}, m ∈ ms → depthOf m ≤ depthsOf ms
  | [], _, hm => by cases hm
  | d :: ds, m, hm => by
    simp only [depthsOf]
    rcases List.mem_cons.mp hm with rfl | hm'
    · exact Nat.le_max_left _ _
    · exact Nat.le_trans (depth_mem hm') (Nat.le_max_right _ _)

theorem goodD_id {G : Descr → Prop} (m : Descr) (h : GoodD G m) : 0 ≤ Descr.id m := by
  cases m <;> simp only [GoodD, Descr.id] at h ⊢ <;> first | exact h | exact h.1

/-- the non-recursive methods correspond to the steps of the model -/
structure LeafCorr (G : Descr → Prop) (φ : Descr → Elem) (A : PyData Descr V → B → StData → Prop) (L : LeafCb V B) (P : Prims) : Prop where
  defineRefval : ∀ ps b s m e, G m → AbsSt φ A ps b s → descOf m = .elem e →
    Corr φ A (L.process_define_new_refval ps b m)
      (if e.kind = .string then .error .lib else P.newRefval e s.regs.nbitsNewRefval s)
  skipped : ∀ ps b s m, G m → AbsSt φ A ps b s →
    Corr φ A (L.process_skipped_local_descriptor ps b m)
      (do let s' ← P.codeflag (.skipped (descOf m).id s.regs.nbitsSkipped) s.regs.nbitsSkipped s
          pure (s'.setRegs fun r => { r with nbitsSkipped := 0 }))
  bitmapDef : ∀ ps b s m, G m → AbsSt φ A ps b s →
    Corr φ A (L.process_bitmap_definition ps b m) (bitmapDefinition P (descOf m).id s)
  element : ∀ ps b s m, G m → AbsSt φ A ps b s → Descr.tag m = .ElementDescriptor →
    Corr φ A (L.process_element_descriptor ps b m) (wDispatch P (descOf m) s)
  operator : ∀ ps b s m, G m → AbsSt φ A ps b s → Descr.tag m = .OperatorDescriptor →
    Corr φ A (L.process_operator_descriptor ps b m) (wDispatch P (descOf m) s)
  value : ∀ ps b s, AbsSt φ A ps b s →
    ValCorr (L.get_value_for_delayed_replication_factor ps) (P.factorValue s >>= factorCount)

/-- **the regenerated walk is the model's `walkList`**, for every descriptor tree, any fuel above its depth -/
theorem walk_core (G : Descr → Prop) (φ : Descr → Elem) (A : PyData Descr V → B → StData → Prop) (L : LeafCb V B) (P : Prims)
    (hL : LeafCorr G φ A L P) :
    ∀ (fuel : Nat) (ms : List Descr), GoodDs G ms → depthsOf ms < fuel →
      ∀ (ps : CoderState.Self Descr V) (b : B) (s : St), AbsSt φ A ps b s →
        Corr φ A (pyWalk L fuel ps b ms) (walkList P (ms.map descOf) s)
  | 0, ms, _, hd => absurd hd (Nat.not_lt_zero _)
  | fuel + 1, ms, hg, hd => by
    intro ps b s h
    have IH := walk_core G φ A L P hL fuel
    show Corr φ A (Coder.process_members (membersCb L (pyWalk L fuel)) ps b ms) _
    refine members_core (fun m => G m ∧ GoodD G m ∧ depthOf m ≤ fuel) φ A _ P ?_ ms ?_ ps b s h
    · refine ⟨fun ps b s m e hq => hL.defineRefval ps b s m e hq.1, fun ps b s m hq => hL.skipped ps b s m hq.1,
        fun ps b s m hq => hL.bitmapDef ps b s m hq.1, fun ps b s m hq => hL.element ps b s m hq.1, ?_, ?_,
        fun ps b s m hq => hL.operator ps b s m hq.1, ?_⟩
      · -- fixed replication
        intro ps b s m hq h1 ht
        cases m <;> simp [Descr.tag] at ht
        rename_i id ms'
        obtain ⟨_, hgd, hdp⟩ := hq
        simp only [GoodD] at hgd
        simp only [depthOf] at hdp
        simp only [descOf, descsOf_eq_map, wDispatch]
        have hn : PyGen.descriptors.FixedReplicationDescriptor.n_repeats ⟨id⟩ = ((yOf id.toNat : Nat) : Int) := by
          have := C14_src_fixed_replication_n_repeats id.toNat
          rwa [Int.toNat_of_nonneg hgd.1] at this
        exact fixed_core φ A ⟨pyWalk L fuel⟩ P (fixedView (.FixedReplicationDescriptor id ms')) (yOf id.toNat) hn
          (fun ps b s hh => IH ms' hgd.2 (by omega) ps b s hh) ps b s h1
      · -- delayed replication
        intro ps b s m hq h1 ht
        cases m <;> simp [Descr.tag] at ht
        rename_i id ms' f
        obtain ⟨_, hgd, hdp⟩ := hq
        simp only [GoodD] at hgd
        simp only [depthOf] at hdp
        simp only [descOf, descsOf_eq_map]
        exact delayed_core φ A ⟨L.process_element_descriptor, L.get_value_for_delayed_replication_factor, pyWalk L fuel⟩ P
          (delayedView (.DelayedReplicationDescriptor id ms' f)) id.toNat ⟨hgd.2.1, hgd.2.2.1⟩
          (fun ps b s hh ht' => hL.element ps b s f hgd.2.2.2.1.1 hh ht') (fun ps b s hh => hL.value ps b s hh)
          (fun ps b s hh => IH ms' hgd.2.2.2.2 (by omega) ps b s hh) ps b s h1
      · -- sequence
        intro ps b s m hq h1 ht
        cases m <;> simp [Descr.tag] at ht
        rename_i id ms'
        obtain ⟨_, hgd, hdp⟩ := hq
        simp only [GoodD] at hgd
        simp only [depthOf] at hdp
        simp only [descOf, descsOf_eq_map, wDispatch]
        exact sequence_core φ A ⟨pyWalk L fuel⟩ P (sequenceView (.SequenceDescriptor id ms'))
          (fun ps b s hh => IH ms' hgd.2 (by omega) ps b s hh) ps b s h1
    · intro m hm
      have hgm := goodDs_mem hg hm
      exact ⟨⟨hgm.1, hgm.2, Nat.le_of_lt_succ (Nat.lt_of_le_of_lt (depth_mem hm) hd)⟩, goodD_id m hgm.2⟩

end Bufr
