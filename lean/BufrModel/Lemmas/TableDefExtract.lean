/-
  Extraction inverts the NCEP layout: one-entry lemmas and the repetition lemma (C20).
-/
import BufrModel.Lemmas.TableDefStr
namespace Bufr.C20
open Bufr Bufr.TableDef Bufr.PathLang

/-- what the fields of the NCEP layout can carry for a Table B entry -/
structure EncB (e : BEntry) : Prop where
  key_len : e.key.length = 6
  key_ascii : Ascii e.key
  name_len : e.name.length ≤ 64
  name_ascii : Ascii e.name
  /-- `line1.rstrip() + line2.rstrip()`: neither line may end in white space -/
  name_line1 : TrimR (e.name.take 32)
  name_line2 : TrimR (e.name.drop 32)
  unit_len : e.unit.length ≤ 24
  unit_ascii : Ascii e.unit
  unit_l : TrimL e.unit
  unit_r : TrimR e.unit
  scale_lim : e.scale.natAbs < 1000
  ref_lim : e.ref.natAbs < 10000000000
  width_nonneg : 0 ≤ e.width
  width_lim : e.width < 1000

/-- what the layout can carry for a Table D entry -/
structure EncD (e : DEntry) : Prop where
  key_len : e.key.length = 6
  key_ascii : Ascii e.key
  name_len : e.name.length ≤ 64
  name_ascii : Ascii e.name
  name_trim : TrimR e.name
  count_lim : e.members.length ≤ 255
  members_ascii : ∀ m ∈ e.members, Ascii m
  members_len : ∀ m ∈ e.members, m.length = 6

theorem nextStr_bind {β : Type} (s : List Char) (rest : List Val) (h : Ascii s) (k : List Char × List Val → CM β) :
    (nextStr (strVal s :: rest) >>= k) = k (s, rest) := by
  rw [nextStr_strVal s rest h]; rfl

theorem ok_bind {α β : Type} (a : α) (k : α → CM β) : ((Except.ok a : CM α) >>= k) = k a := rfl

theorem key_split (k : List Char) : k.take 1 ++ (k.drop 1).take 2 ++ k.drop 3 = k := by
  have : k.drop 3 = (k.drop 1).drop 2 := by rw [List.drop_drop]
  rw [this, List.append_assoc, List.take_append_drop, List.take_append_drop]

theorem bEntry_bVals (e : BEntry) (h : EncB e) (rest : List Val) :
    bEntry (bVals e ++ rest) = .ok (e, rest) := by
  have a1 := ascii_take 1 h.key_ascii
  have a2 := ascii_take 2 (ascii_drop 1 h.key_ascii)
  have a3 := ascii_drop 3 h.key_ascii
  have a4 := ascii_padTo 32 (ascii_take 32 h.name_ascii)
  have a5 := ascii_padTo 32 (ascii_drop 32 h.name_ascii)
  have a6 := ascii_padTo 24 h.unit_ascii
  have a7 := ascii_sign e.scale
  have a8 := ascii_padTo 3 (ascii_digits e.scale.natAbs)
  have a9 := ascii_sign e.ref
  have a10 := ascii_padTo 10 (ascii_digits e.ref.natAbs)
  have a11 := ascii_padTo 3 (ascii_digits e.width.toNat)
  unfold bEntry bVals
  simp only [List.cons_append, List.nil_append, nextStr_bind _ _ a1, nextStr_bind _ _ a2, nextStr_bind _ _ a3,
    nextStr_bind _ _ a4, nextStr_bind _ _ a5, nextStr_bind _ _ a6, nextStr_bind _ _ a7, nextStr_bind _ _ a8,
    nextStr_bind _ _ a9, nextStr_bind _ _ a10, nextStr_bind _ _ a11, pyIntE_padded, ok_bind]
  have hw : ((e.width.toNat : Nat) : Int) = e.width := Int.toNat_of_nonneg h.width_nonneg
  simp only [pure, Except.pure, key_split, rstrip_padTo _ _ h.name_line1, rstrip_padTo _ _ h.name_line2,
    List.take_append_drop, strip_pad _ _ h.unit_l h.unit_r, signOf_signStr, hw]

theorem nextCount_int (n : Nat) (rest : List Val) : nextCount (.int (n : Int) :: rest) = .ok (n, rest) := by
  simp [nextCount]

theorem takeStrs_map (ms : List (List Char)) (h : ∀ m ∈ ms, Ascii m) (rest : List Val) :
    takeStrs ms.length (ms.map strVal ++ rest) = .ok (ms, rest) := by
  induction ms with
  | nil => rfl
  | cons m t ih =>
    have hm : Ascii m := h m (by simp)
    have ht : ∀ x ∈ t, Ascii x := fun x hx => h x (List.mem_cons_of_mem _ hx)
    simp only [List.length_cons, List.map_cons, List.cons_append, takeStrs, nextStr_bind _ _ hm, ih ht, ok_bind]
    rfl

theorem dEntry_dVals (e : DEntry) (h : EncD e) (rest : List Val) :
    dEntry (dVals e ++ rest) = .ok (e, rest) := by
  have a1 := ascii_take 1 h.key_ascii
  have a2 := ascii_take 2 (ascii_drop 1 h.key_ascii)
  have a3 := ascii_drop 3 h.key_ascii
  have a4 := ascii_padTo 64 h.name_ascii
  unfold dEntry dVals
  simp only [List.cons_append, List.nil_append, List.append_assoc, nextStr_bind _ _ a1, nextStr_bind _ _ a2,
    nextStr_bind _ _ a3, nextStr_bind _ _ a4]
  rw [nextCount_int]
  simp only [ok_bind, takeStrs_map _ h.members_ascii, pure, Except.pure, rstrip_padTo _ _ h.name_trim]
  have hk := key_split e.key
  rw [List.append_assoc] at hk
  rw [hk]

theorem repeatM_flatMap {α : Type} (f : List Val → CM (α × List Val)) (g : α → List Val) (P : α → Prop)
    (hf : ∀ a rest, P a → f (g a ++ rest) = .ok (a, rest)) (l : List α) (hl : ∀ a ∈ l, P a) (rest : List Val) :
    repeatM f l.length (l.flatMap g ++ rest) = .ok (l, rest) := by
  induction l with
  | nil => rfl
  | cons a t ih =>
    have ha := hl a (by simp)
    have ht : ∀ x ∈ t, P x := fun x hx => hl x (List.mem_cons_of_mem _ hx)
    simp only [List.length_cons, List.flatMap_cons, List.append_assoc]
    unfold TableDef.repeatM
    simp only [hf a _ ha, ih ht, ok_bind]
    rfl

theorem bVals_length (e : BEntry) : (bVals e).length = 11 := rfl

theorem flatMap_bVals_length (bs : List BEntry) : (bs.flatMap bVals).length = 11 * bs.length := by
  induction bs with
  | nil => rfl
  | cons e t ih => simp only [List.flatMap_cons, List.length_append, bVals_length, ih, List.length_cons]; omega

theorem idxB (x : Val) (a : List Val) (y : Val) (r : List Val) (k : Nat) (hk : a.length = 3 * k) :
    (x :: (a ++ y :: r))[1 + 3 * k]? = some y := by
  rw [← hk, Nat.add_comm, List.getElem?_cons_succ, List.getElem?_append_right (Nat.le_refl _)]
  simp

theorem idxD (x : Val) (a : List Val) (y : Val) (b : List Val) (z : Val) (r : List Val) (k n : Nat)
    (hk : a.length = 3 * k) (hn : b.length = 11 * n) :
    (x :: (a ++ y :: (b ++ z :: r)))[1 + 3 * k + 1 + 11 * n]? = some z := by
  have : 1 + 3 * k + 1 + 11 * n = (a.length + (b.length + 1)) + 1 := by omega
  rw [this, List.getElem?_cons_succ, List.getElem?_append_right (by omega)]
  have : a.length + (b.length + 1) - a.length = b.length + 1 := by omega
  rw [this, List.getElem?_cons_succ, List.getElem?_append_right (Nat.le_refl _)]
  simp

theorem dropA (x : Val) (a r : List Val) (k : Nat) (hk : a.length = 3 * k) :
    (x :: (a ++ r)).drop (k * 3 + 1) = r := by
  have : k * 3 = a.length := by omega
  rw [this, List.drop_succ_cons, List.drop_left]

theorem itemsOf_nf (aVals : List Val) (bs : List BEntry) (ds : List DEntry) :
    itemsOf aVals bs ds =
      .int ((aVals.length / 3 : Nat) : Int) :: (aVals ++ .int (bs.length : Int) :: (bs.flatMap bVals ++ .int (ds.length : Int) :: (ds.flatMap dVals ++ []))) := by
  simp [itemsOf]

end Bufr.C20
