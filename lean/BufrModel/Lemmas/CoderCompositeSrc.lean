/-
  The source tie of the composite descriptors: the functions generated from `coder.py:
  Coder.process_fixed_replication_descriptor`, `process_delayed_replication_descriptor`, `process_sequence_descriptor`
  (`Gen/PyCoder.lean`) against the corresponding cases of the model's `walk1` (`wDispatch`, `Lemmas/CompilerSim.lean`).
  The recursive call `self.process_members(state, bit_operator, descriptor.members)` is a callback; that it corresponds to
  `walkList P (members.map descOf)` is the HYPOTHESIS `hw` (what `C01_src_process_members_partial` establishes one level down).
-/
import BufrModel.Lemmas.CoderWalkSrc
set_option linter.unusedSimpArgs false
set_option linter.unusedVariables false
namespace Bufr
open PyGen.coder
open Bufr.C08 (wDispatch)

variable {V B : Type}

/-- `n` times a step that may fail -/
def pyIter {σ : Type} : Nat → (σ → Except Py.Exc σ) → σ → Except Py.Exc σ
  | 0, _, v => .ok v
  | n + 1, g, v => match g v with
    | .error e => .error e
    | .ok v' => pyIter n g v'

theorem forIn_const {α σ : Type} (g : σ → Except Py.Exc σ) :
    ∀ (l : List α) (v : σ), Py.forIn l v (fun _ v => g v) = pyIter l.length g v
  | [], v => rfl
  | _ :: xs, v => by
    simp only [Py.forIn, List.length_cons, pyIter]
    cases g v with
    | error e => rfl
    | ok v' => exact forIn_const g xs v'

/-- agreement of results under a relation `R` between Python-side and model states -/
def RelE {σ : Type} (R : σ → St → Prop) : Except Py.Exc σ → CM St → Prop
  | .ok v, .ok s => R v s
  | .error e, .error e' => excClass e = e'
  | _, _ => False

/-- `k` rounds of a step on the Python side against `iterN k` of a step of the model -/
theorem iter_corr {σ : Type} (R : σ → St → Prop) (g : σ → Except Py.Exc σ) (w : St → CM St)
    (hgw : ∀ v s, R v s → RelE R (g v) (w s)) :
    ∀ (k : Nat) v s, R v s → RelE R (pyIter k g v) (iterN k w s)
  | 0, v, s, h => h
  | k + 1, v, s, h => by
    have h1 := hgw v s h
    simp only [pyIter, iterN]
    revert h1
    cases g v with
    | error e1 => cases w s with
      | error e2 => exact fun h1 => h1
      | ok s2 => exact fun h1 => h1.elim
    | ok p => cases w s with
      | error e2 => exact fun h1 => h1.elim
      | ok s2 => exact fun h1 => iter_corr R g w hgw k p s2 h1

theorem corr_of_relE {φ : Descr → Elem} {A : PyData Descr V → B → StData → Prop} {σ : Type}
    (st : σ → CoderState.Self Descr V) (bo : σ → B)
    {x : Except Py.Exc σ} {y : CM St} (h : RelE (fun v s => AbsSt φ A (st v) (bo v) s) x y) :
    Corr φ A (x >>= fun v => pure (st v, bo v)) y := by
  cases x with
  | error e1 => cases y with
    | error e2 => exact h
    | ok s2 => exact h.elim
  | ok v1 => cases y with
    | error e2 => exact h.elim
    | ok s2 => exact h

theorem relE_of_corr {φ : Descr → Elem} {A : PyData Descr V → B → StData → Prop} {σ : Type} (R : σ → St → Prop)
    {x : Except Py.Exc (CoderState.Self Descr V × B)} {y : CM St} (h : Corr φ A x y)
    (k : CoderState.Self Descr V × B → σ) (hR : ∀ t s, AbsSt φ A t.1 t.2 s → R (k t) s) :
    RelE R (x >>= fun t => pure (k t)) y := by
  cases x with
  | error e1 => cases y with
    | error e2 => exact h
    | ok s2 => exact h.elim
  | ok p => cases y with
    | error e2 => exact h.elim
    | ok s2 => exact hR p s2 h

theorem relE_mono {σ : Type} {R R' : σ → St → Prop} (hRR : ∀ v s, R v s → R' v s)
    {x : Except Py.Exc σ} {y : CM St} (h : RelE R x y) : RelE R' x y := by
  cases x with
  | error e1 => cases y with
    | error e2 => exact h
    | ok s2 => exact h.elim
  | ok p => cases y with
    | error e2 => exact h.elim
    | ok s2 => exact hRR p s2 h

/-- the generated `process_sequence_descriptor`: the members are walked -/
theorem sequence_core (φ : Descr → Elem) (A : PyData Descr V → B → StData → Prop)
    (cb : Coder.process_sequence_descriptor.Callbacks Descr V B) (P : Prims) (d : SequenceDescriptor.Self)
    (hw : ∀ ps b s, AbsSt φ A ps b s → Corr φ A (cb.process_members ps b d.members) (walkList P (d.members.map descOf) s))
    (ps : CoderState.Self Descr V) (b : B) (s : St) (h : AbsSt φ A ps b s) :
    Corr φ A (Coder.process_sequence_descriptor cb ps b d) (walkList P (d.members.map descOf) s) := by
  unfold Coder.process_sequence_descriptor
  exact corr_of_relE Coder.process_sequence_descriptor.Locals.state Coder.process_sequence_descriptor.Locals.bit_operator
    (relE_of_corr _ (hw ps b s h) _ (fun t s hh => hh))

/-- the generated `process_fixed_replication_descriptor`: `n_repeats` walks of the members -/
theorem fixed_core (φ : Descr → Elem) (A : PyData Descr V → B → StData → Prop)
    (cb : Coder.process_fixed_replication_descriptor.Callbacks Descr V B) (P : Prims) (d : FixedReplicationDescriptor.Self)
    (n : Nat) (hn : d.n_repeats = n)
    (hw : ∀ ps b s, AbsSt φ A ps b s → Corr φ A (cb.process_members ps b d.members) (walkList P (d.members.map descOf) s))
    (ps : CoderState.Self Descr V) (b : B) (s : St) (h : AbsSt φ A ps b s) :
    Corr φ A (Coder.process_fixed_replication_descriptor cb ps b d) (iterN n (walkList P (d.members.map descOf)) s) := by
  unfold Coder.process_fixed_replication_descriptor
  simp only [forIn_const, List.length_range, hn, Int.toNat_natCast]
  have hiter := iter_corr
    (fun (v : Coder.process_fixed_replication_descriptor.Locals Descr V B) s => AbsSt φ A v.state v.bit_operator s ∧ v.descriptor = d)
    (Coder.process_fixed_replication_descriptor.body cb) (walkList P (d.members.map descOf))
    (by
      intro v s1 hh
      obtain ⟨h1, hd⟩ := hh
      unfold Coder.process_fixed_replication_descriptor.body
      rw [hd]
      exact relE_of_corr _ (hw _ _ _ h1) _ (fun t s hh => ⟨hh, rfl⟩))
    n { state := ps, bit_operator := b, descriptor := d } s ⟨h, rfl⟩
  exact corr_of_relE _ _ (relE_mono (fun _ _ hh => hh.1) hiter)

/-- agreement of the replication factor the callback returns with the count the model computes -/
def ValCorr : Except Py.Exc Int → CM Nat → Prop
  | .ok n, .ok k => n = (k : Int)
  | .error e, .error e' => excClass e = e'
  | _, _ => False

/-- the generated `process_delayed_replication_descriptor` against the delayed-replication case of `walk1` -/
theorem delayed_core (φ : Descr → Elem) (A : PyData Descr V → B → StData → Prop)
    (cb : Coder.process_delayed_replication_descriptor.Callbacks Descr V B) (P : Prims) (d : DelayedReplicationDescriptor.Self)
    (i : Nat) (hid : d.id ≠ 31011 ∧ d.id ≠ 31012)
    (hel : ∀ ps b s, AbsSt φ A ps b s → Descr.tag d.factor = .ElementDescriptor →
      Corr φ A (cb.process_element_descriptor ps b d.factor) (wDispatch P (descOf d.factor) s))
    (hval : ∀ ps b s, AbsSt φ A ps b s →
      ValCorr (cb.get_value_for_delayed_replication_factor ps) (P.factorValue s >>= factorCount))
    (hw : ∀ ps b s, AbsSt φ A ps b s → Corr φ A (cb.process_members ps b d.members) (walkList P (d.members.map descOf) s))
    (ps : CoderState.Self Descr V) (b : B) (s : St) (h : AbsSt φ A ps b s) :
    Corr φ A (Coder.process_delayed_replication_descriptor cb ps b d)
      (wDispatch P (.delayedRep i (descOf d.factor) (d.members.map descOf)) s) := by
  have hloop : ∀ (n : Nat) (v : Coder.process_delayed_replication_descriptor.Locals Descr V B) (s1 : St),
      AbsSt φ A v.state v.bit_operator s1 → v.descriptor = d →
      Corr φ A (Py.forIn (List.range n) v (fun _ v => Coder.process_delayed_replication_descriptor.body cb v) >>=
          fun v => pure (v.state, v.bit_operator))
        (iterN n (walkList P (d.members.map descOf)) s1) := by
    intro n v s1 h1 hd
    rw [forIn_const]
    simp only [List.length_range]
    have hiter := iter_corr
      (fun (v : Coder.process_delayed_replication_descriptor.Locals Descr V B) s => AbsSt φ A v.state v.bit_operator s ∧ v.descriptor = d)
      (Coder.process_delayed_replication_descriptor.body cb) (walkList P (d.members.map descOf))
      (by
        intro v s1 hh
        obtain ⟨h1, hd⟩ := hh
        unfold Coder.process_delayed_replication_descriptor.body
        rw [hd]
        exact relE_of_corr _ (hw _ _ _ h1) _ (fun t s hh => ⟨hh, rfl⟩))
      n v s1 ⟨h1, hd⟩
    exact corr_of_relE _ _ (relE_mono (fun _ _ hh => hh.1) hiter)
  have n1 : ¬ d.id = 31011 := hid.1
  have n2 : ¬ d.id = 31012 := hid.2
  unfold Coder.process_delayed_replication_descriptor
  by_cases ht : Descr.tag d.factor = .ElementDescriptor
  · have hm : ∃ e, descOf d.factor = .elem e := by
      cases hf : d.factor <;> rw [hf] at ht <;> simp [Descr.tag] at ht
      exact ⟨_, rfl⟩
    obtain ⟨e, he⟩ := hm
    have h1 := hel ps b s h ht
    rw [he] at h1 ⊢
    simp only [wDispatch] at h1 ⊢
    simp [n1, n2, ht, exc_pure, exc_bind_ok]
    revert h1
    cases cb.process_element_descriptor ps b d.factor with
    | error e1 =>
      cases elementDescriptor P (DDesc.plain e) e s with
      | error e2 => exact fun h1 => h1
      | ok s2 => exact fun h1 => h1.elim
    | ok p =>
      cases elementDescriptor P (DDesc.plain e) e s with
      | error e2 => exact fun h1 => h1.elim
      | ok s1 =>
        intro h1
        have hv := hval p.1 p.2 s1 h1
        simp only [exc_bind_ok]
        revert hv
        cases cb.get_value_for_delayed_replication_factor p.1 with
        | error e1 =>
          cases P.factorValue s1 >>= factorCount with
          | error e2 => exact fun hv => hv
          | ok k => exact fun hv => hv.elim
        | ok n =>
          cases P.factorValue s1 >>= factorCount with
          | error e2 => exact fun hv => hv.elim
          | ok k =>
            intro hv
            have hn : n = (k : Int) := hv
            subst hn
            simp only [exc_bind_ok, Int.toNat_natCast]
            exact hloop k { state := p.1, bit_operator := p.2, descriptor := d } s1 h1 rfl
  · have hm : ∀ e, descOf d.factor ≠ .elem e := by
      intro e
      cases hf : d.factor <;> rw [hf] at ht <;> simp [Descr.tag] at ht <;> simp [descOf]
    simp [n1, n2, ht, exc_pure, exc_bind_ok, exc_bind_error]
    cases hd : descOf d.factor with
    | elem e => exact (hm e hd).elim
    | _ => simp [wDispatch, Corr, excClass]

end Bufr
