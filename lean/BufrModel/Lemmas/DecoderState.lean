/-
  The `Decoder` OBJECT as a state machine (used by `Props/C12History.lean`).

  State: the table of section configurations the object holds (`SectionConfigurer`), seen as a memo table of
  the pure function  (section index, edition, info_only, ignore_value_expectation) ↦ transformed configuration
  (`cfgOf`).  `decLoopS`, `decodeAtS`, `decodeS` are `Decoder.process` threading that table (returned on the
  error path as well: a failing decode leaves what it has put there); `scanS` is `generate_bufr_message`
  threading the state of the decoder it is given (over an abstract stateful per-offset decoder, instantiated
  with `ofSectionsS`).  `Op` / `Op.run` / `runHist`: what a user does with one object, in sequence.
  The `_spec` lemmas: on a table that is sound (every entry is the pure function's value) each stateful
  function returns the stateless model's result and a sound table.
-/
import BufrModel.Msg.Stream
namespace Bufr.Stream

/-! ## the Decoder object's state -/

/-- what a transformed section configuration is a function of -/
structure CfgKey where
  idx : Nat
  ed : Nat
  info : Bool
  ign : Bool
  deriving DecidableEq, Repr

/-- the pure function: `get_configuration` followed by the configuration transformers -/
def cfgOf (L : Layouts) (k : CfgKey) : Except Err SectionLayout :=
  match getCfg L k.idx k.ed with
  | .error e => .error e
  | .ok s => .ok (({ infoOnly := k.info, ignoreExpect := k.ign } : DecOpts).transform s)

/-- the table held by the Decoder object -/
abbrev Memo := List (CfgKey × Except Err SectionLayout)

/-- every entry is the value of the pure function at its key -/
def Memo.Sound (L : Layouts) (m : Memo) : Prop := ∀ k v, m.lookup k = some v → v = cfgOf L k

/-- look up, compute and remember on a miss -/
def Memo.fetch (L : Layouts) (m : Memo) (k : CfgKey) : Except Err SectionLayout × Memo :=
  match m.lookup k with
  | some v => (v, m)
  | none => (cfgOf L k, (k, cfgOf L k) :: m)

theorem Memo.sound_nil (L : Layouts) : Memo.Sound L [] := by
  intro k v h; simp at h

theorem Memo.fetch_spec (L : Layouts) (m : Memo) (k : CfgKey) (h : Memo.Sound L m) :
    (m.fetch L k).1 = cfgOf L k ∧ Memo.Sound L (m.fetch L k).2 := by
  unfold Memo.fetch
  cases hl : m.lookup k with
  | some v => exact ⟨h k v hl, h⟩
  | none =>
    refine ⟨rfl, ?_⟩
    intro k' v' h'
    by_cases hk : k' = k
    · subst hk
      simp [List.lookup] at h'
      exact h'.symm
    · have : (k' == k) = false := by simpa using hk
      simp [List.lookup, this] at h'
      exact h k' v' h'

/-! ## `Decoder.process` threading the state -/

/-- `decLoop` with the configuration taken from (and remembered in) the object's table; the table is
    returned on the error path too: a failing decode leaves whatever it has put there -/
def decLoopS {α : Type} (L : Layouts) (dc : DataCoder α) (o : DecOpts) :
    Nat → Nat → Registry → DecOut α → Memo → Bits → Except Err (DecOut α × Bits) × Memo
  | 0, _, _, _, m, _ => (.error .other, m)
  | fuel + 1, idx, reg, out, m, bits =>
    match m.fetch L { idx := idx, ed := reg.editionKey, info := o.infoOnly, ign := o.ignoreExpect } with
    | (.error e, m1) => (.error e, m1)
    | (.ok s, m1) =>
      match isPresent reg s idx with
      | .error e => (.error e, m1)
      | .ok present =>
        if !present then decLoopS L dc o fuel (idx + 1) reg out m1 bits
        else
          match decSection dc s reg out.nbits bits with
          | .error e => (.error e, m1)
          | .ok ((sec, reg1, d), rest) =>
            let out1 : DecOut α :=
              { sections := out.sections ++ [sec],
                data := (match d with | some a => some a | none => out.data),
                nbits := out.nbits + sec.nbits }
            if s.endOfMessage then (.ok (out1, rest), m1)
            else decLoopS L dc o fuel (idx + 1) reg1 out1 m1 rest

theorem cfgOf_opts (L : Layouts) (o : DecOpts) (idx ed : Nat) :
    cfgOf L { idx := idx, ed := ed, info := o.infoOnly, ign := o.ignoreExpect } =
      (match getCfg L idx ed with
       | .error e => .error e
       | .ok s => .ok (o.transform s)) := by
  cases o; rfl

/-- one iteration of `decLoop` without the reader combinators -/
theorem decLoop_succ {α : Type} (L : Layouts) (dc : DataCoder α) (o : DecOpts) (fuel idx : Nat) (reg : Registry)
    (out : DecOut α) (bits : Bits) :
    decLoop L dc o (fuel + 1) idx reg out bits =
      (match getCfg L idx reg.editionKey with
       | .error e => .error e
       | .ok s0 =>
         match isPresent reg (o.transform s0) idx with
         | .error e => .error e
         | .ok present =>
           if !present then decLoop L dc o fuel (idx + 1) reg out bits
           else
             match decSection dc (o.transform s0) reg out.nbits bits with
             | .error e => .error e
             | .ok ((sec, reg1, d), rest) =>
               let out1 : DecOut α :=
                 { sections := out.sections ++ [sec],
                   data := (match d with | some a => some a | none => out.data),
                   nbits := out.nbits + sec.nbits }
               if (o.transform s0).endOfMessage then .ok (out1, rest)
               else decLoop L dc o fuel (idx + 1) reg1 out1 rest) := by
  rw [decLoop]
  cases hg : getCfg L idx reg.editionKey with
  | error e => rfl
  | ok s0 =>
    simp only [R.bind, R.lift, R.pure]
    cases hp : isPresent reg (o.transform s0) idx with
    | error e => rfl
    | ok present =>
      simp only [R.pure]
      cases present with
      | false => rfl
      | true =>
        simp only [Bool.not_true, Bool.false_eq_true, if_false, R.bind]
        cases hd : decSection dc (o.transform s0) reg out.nbits bits with
        | error e => rfl
        | ok r =>
          obtain ⟨⟨sec, reg1, d⟩, rest⟩ := r
          simp only
          by_cases he : (o.transform s0).endOfMessage = true
          · simp only [he, if_true]; rfl
          · simp only [he]; rfl

theorem decLoopS_spec {α : Type} (L : Layouts) (dc : DataCoder α) (o : DecOpts) :
    ∀ (fuel idx : Nat) (reg : Registry) (out : DecOut α) (m : Memo) (bits : Bits), Memo.Sound L m →
      (decLoopS L dc o fuel idx reg out m bits).1 = decLoop L dc o fuel idx reg out bits ∧
      Memo.Sound L (decLoopS L dc o fuel idx reg out m bits).2 := by
  intro fuel
  induction fuel with
  | zero => intro idx reg out m bits h; exact ⟨by first | rfl | trivial, h⟩
  | succ fuel ih =>
    intro idx reg out m bits h
    obtain ⟨hv, hs⟩ := Memo.fetch_spec L m
      { idx := idx, ed := reg.editionKey, info := o.infoOnly, ign := o.ignoreExpect } h
    rw [cfgOf_opts] at hv
    rw [decLoop_succ, decLoopS]
    generalize m.fetch L { idx := idx, ed := reg.editionKey, info := o.infoOnly, ign := o.ignoreExpect } = f at hv hs
    obtain ⟨c, m1⟩ := f
    simp only at hv hs
    cases hg : getCfg L idx reg.editionKey with
    | error e =>
      rw [hg] at hv
      subst hv
      exact ⟨by first | rfl | trivial, hs⟩
    | ok s0 =>
      rw [hg] at hv
      subst hv
      simp only
      cases hp : isPresent reg (o.transform s0) idx with
      | error e => exact ⟨by first | rfl | trivial, hs⟩
      | ok present =>
        simp only
        cases present with
        | false =>
          simp only [Bool.not_false, if_true]
          exact ih (idx + 1) reg out m1 bits hs
        | true =>
          simp only [Bool.not_true, Bool.false_eq_true, if_false]
          cases hd : decSection dc (o.transform s0) reg out.nbits bits with
          | error e => exact ⟨by first | rfl | trivial, hs⟩
          | ok r =>
            obtain ⟨⟨sec, reg1, d⟩, rest⟩ := r
            simp only
            by_cases he : (o.transform s0).endOfMessage = true
            · simp only [he, if_true]
              exact ⟨by first | rfl | trivial, hs⟩
            · simp only [he]
              exact ih (idx + 1) reg1 _ m1 rest hs

/-- `Decoder.process(s, start_signature=None)` on an object in state `m` -/
def decodeAtS {α : Type} (L : Layouts) (dc : DataCoder α) (o : DecOpts) (m : Memo) (s : List UInt8) :
    Except Err (DecMsg α) × Memo :=
  match decLoopS L dc o (L.length + 1) 0 Registry.init { sections := [], data := none, nbits := 0 } m (bytesToBits s) with
  | (.error e, m1) => (.error e, m1)
  | (.ok (out, _), m1) =>
    (.ok { sections := out.sections, data := out.data, nbits := out.nbits, serialized := s.take (out.nbits / 8) }, m1)

/-- `Decoder.process(s)` (signature search) on an object in state `m` -/
def decodeS {α : Type} (L : Layouts) (dc : DataCoder α) (o : DecOpts) (m : Memo) (bytes : List UInt8) :
    Except Err (DecMsg α) × Memo :=
  match findFrom startSig bytes with
  | none => (.error .lib, m)
  | some s => decodeAtS L dc o m s

theorem decodeAtS_spec {α : Type} (L : Layouts) (dc : DataCoder α) (o : DecOpts) (m : Memo) (s : List UInt8)
    (h : Memo.Sound L m) :
    (decodeAtS L dc o m s).1 = decodeAt L dc o s ∧ Memo.Sound L (decodeAtS L dc o m s).2 := by
  obtain ⟨h1, h2⟩ := decLoopS_spec L dc o (L.length + 1) 0 Registry.init
    { sections := [], data := none, nbits := 0 } m (bytesToBits s) h
  unfold decodeAtS decodeAt decodeBits
  rw [← h1]
  generalize decLoopS L dc o (L.length + 1) 0 Registry.init { sections := [], data := none, nbits := 0 } m (bytesToBits s) = r at h2
  obtain ⟨x, m1⟩ := r
  cases x with
  | error e => exact ⟨by first | rfl | trivial, h2⟩
  | ok p => obtain ⟨out, rest⟩ := p; exact ⟨by first | rfl | trivial, h2⟩

theorem decodeS_spec {α : Type} (L : Layouts) (dc : DataCoder α) (o : DecOpts) (m : Memo) (b : List UInt8)
    (h : Memo.Sound L m) :
    (decodeS L dc o m b).1 = decode L dc o b ∧ Memo.Sound L (decodeS L dc o m b).2 := by
  unfold decodeS decode
  cases hf : findFrom startSig b with
  | none => exact ⟨by first | rfl | trivial, h⟩
  | some s =>
    have := decodeAtS_spec L dc o m s h
    simp only
    refine ⟨?_, this.2⟩
    rw [this.1]; rfl

/-! ## `generate_bufr_message` threading the state of the decoder it is given -/

/-- a per-offset decoder with state `σ` -/
abbrev DecS (σ μ : Type) := σ → Bool → Bytes → Except Err (MsgInfo μ) × σ

/-- `ofSections` on an object in state `m` -/
def ofSectionsS {α : Type} (L : Layouts) (dc : DataCoder α) (ignoreExpect : Bool) : DecS Memo (DecMsg α) :=
  fun m infoOnly rest =>
    match decodeAtS L dc { infoOnly := infoOnly, ignoreExpect := ignoreExpect } m rest with
    | (.error e, m1) => (.error e, m1)
    | (.ok r, m1) =>
      match (r.sections.findSome? (fun s => s.params.lookup "length") : Option PVal) with
      | some (PVal.int v) => (.ok { consumed := r.serialized.length, declared := v.toNat, msg := r }, m1)
      | _ => (.error .other, m1)

section scanS
variable {σ μ : Type}

def decodeHereS (decS : DecS σ μ) (cfg : Cfg μ) (rest : Bytes) (st : σ) : Except Err (Bool × MsgInfo μ) × σ :=
  match cfg.filter with
  | none =>
    match decS st cfg.infoOnly rest with
    | (.error e, st1) => (.error e, st1)
    | (.ok m, st1) => (.ok (true, m), st1)
  | some p =>
    match decS st true rest with
    | (.error e, st1) => (.error e, st1)
    | (.ok mi, st1) =>
      match p mi with
      | .error e => (.error e, st1)
      | .ok matched =>
        if (matched || cfg.tableDef mi) && !cfg.infoOnly then
          match decS st1 false rest with
          | (.error e, st2) => (.error e, st2)
          | (.ok m, st2) => (.ok (matched, m), st2)
        else (.ok (matched, mi), st1)

def tryBodyS (decS : DecS σ μ) (cfg : Cfg μ) (rest : Bytes) (st : σ) :
    Except Err (Nat × Option (Bytes × MsgInfo μ)) × σ :=
  match decodeHereS decS cfg rest st with
  | (.error e, st1) => (.error e, st1)
  | (.ok (matched, m), st1) =>
    let bytes := if cfg.infoOnly then rest.take m.declared else rest.take m.consumed
    (.ok (bytes.length, if matched then some (bytes, m) else none), st1)

def stepS (decS : DecS σ μ) (cfg : Cfg μ) (rest : Bytes) (st : σ) : Step μ × σ :=
  match tryBodyS decS cfg rest st with
  | (.ok (n, y), st1) => (.adv n y, st1)
  | (.error e, st1) =>
    if !e.isLib then (.fail e, st1)
    else if !cfg.continueOnError then (.fail e, st1)
    else if cfg.infoOnly then (.adv 1 none, st1)
    else
      match decS st1 true rest with
      | (.ok mi, st2) => (.adv mi.declared none, st2)
      | (.error e2, st2) => if e2.isLib then (.adv 1 none, st2) else (.fail e2, st2)

def scanFuelS (decS : DecS σ μ) (cfg : Cfg μ) : Nat → Nat → Bytes → σ → (List (Item μ) × Outcome) × σ
  | 0, _, _, st => (([], .loops), st)
  | fuel + 1, off, s, st =>
    match findSig s with
    | none => (([], .done), st)
    | some k =>
      let rest := s.drop k
      match stepS decS cfg rest st with
      | (.fail e, st1) => (([], .error e), st1)
      | (.adv 0 y, st1) => ((yielded (off + k) y, .loops), st1)
      | (.adv (n + 1) y, st1) =>
        let r := scanFuelS decS cfg fuel (off + k + (n + 1)) (rest.drop (n + 1)) st1
        ((yielded (off + k) y ++ r.1.1, r.1.2), r.2)

/-- `generate_bufr_message(decoder, s, …)` with the decoder object in state `st` -/
def scanS (decS : DecS σ μ) (cfg : Cfg μ) (s : Bytes) (st : σ) : (List (Item μ) × Outcome) × σ :=
  scanFuelS decS cfg (s.length + 1) 0 s st

/-- the stateful decoder refines the stateless one on every state satisfying the invariant, and keeps it -/
def Refines (decS : DecS σ μ) (dec : Dec μ) (Inv : σ → Prop) : Prop :=
  ∀ st b rest, Inv st → (decS st b rest).1 = dec b rest ∧ Inv (decS st b rest).2

variable {decS : DecS σ μ} {dec : Dec μ} {Inv : σ → Prop}

theorem decodeHereS_spec (hr : Refines decS dec Inv) (cfg : Cfg μ) (rest : Bytes) (st : σ) (h : Inv st) :
    (decodeHereS decS cfg rest st).1 = decodeHere dec cfg rest ∧ Inv (decodeHereS decS cfg rest st).2 := by
  unfold decodeHereS decodeHere
  cases hf : cfg.filter with
  | none =>
    simp only
    obtain ⟨h1, h2⟩ := hr st cfg.infoOnly rest h
    rw [← h1]
    generalize decS st cfg.infoOnly rest = r at h2
    obtain ⟨x, st1⟩ := r
    cases x <;> exact ⟨by first | rfl | trivial, h2⟩
  | some p =>
    simp only
    obtain ⟨h1, h2⟩ := hr st true rest h
    rw [← h1]
    generalize decS st true rest = r at h2
    obtain ⟨x, st1⟩ := r
    cases x with
    | error e => exact ⟨by first | rfl | trivial, h2⟩
    | ok mi =>
      simp only
      cases hp : p mi with
      | error e => exact ⟨by first | rfl | trivial, h2⟩
      | ok matched =>
        simp only
        by_cases hm : ((matched || cfg.tableDef mi) && !cfg.infoOnly) = true
        · simp only [hm, if_true]
          obtain ⟨h3, h4⟩ := hr st1 false rest h2
          rw [← h3]
          generalize decS st1 false rest = r2 at h4
          obtain ⟨x2, st2⟩ := r2
          cases x2 <;> exact ⟨by first | rfl | trivial, h4⟩
        · simp only [hm]
          exact ⟨by first | rfl | trivial, h2⟩

theorem tryBodyS_spec (hr : Refines decS dec Inv) (cfg : Cfg μ) (rest : Bytes) (st : σ) (h : Inv st) :
    (tryBodyS decS cfg rest st).1 = tryBody dec cfg rest ∧ Inv (tryBodyS decS cfg rest st).2 := by
  unfold tryBodyS tryBody
  obtain ⟨h1, h2⟩ := decodeHereS_spec hr cfg rest st h
  rw [← h1]
  generalize decodeHereS decS cfg rest st = r at h2
  obtain ⟨x, st1⟩ := r
  cases x with
  | error e => exact ⟨by first | rfl | trivial, h2⟩
  | ok p => obtain ⟨matched, m⟩ := p; exact ⟨by first | rfl | trivial, h2⟩

theorem stepS_spec (hr : Refines decS dec Inv) (cfg : Cfg μ) (rest : Bytes) (st : σ) (h : Inv st) :
    (stepS decS cfg rest st).1 = step dec cfg rest ∧ Inv (stepS decS cfg rest st).2 := by
  unfold stepS step
  obtain ⟨h1, h2⟩ := tryBodyS_spec hr cfg rest st h
  rw [← h1]
  generalize tryBodyS decS cfg rest st = r at h2
  obtain ⟨x, st1⟩ := r
  cases x with
  | ok p => obtain ⟨n, y⟩ := p; exact ⟨by first | rfl | trivial, h2⟩
  | error e =>
    simp only
    by_cases he : (!e.isLib) = true
    · simp only [he, if_true]; exact ⟨by first | rfl | trivial, h2⟩
    · simp only [he]
      by_cases hc : (!cfg.continueOnError) = true
      · simp only [hc, if_true]; exact ⟨by first | rfl | trivial, h2⟩
      · simp only [hc]
        by_cases hi : cfg.infoOnly = true
        · simp only [hi, if_true]; exact ⟨by first | rfl | trivial, h2⟩
        · simp only [hi]
          obtain ⟨h3, h4⟩ := hr st1 true rest h2
          rw [← h3]
          generalize decS st1 true rest = r2 at h4
          obtain ⟨x2, st2⟩ := r2
          cases x2 with
          | ok mi => exact ⟨by first | rfl | trivial, h4⟩
          | error e2 =>
            simp only
            by_cases h2l : e2.isLib = true
            · simp only [h2l, if_true]; exact ⟨by first | rfl | trivial, h4⟩
            · simp only [h2l]; exact ⟨by first | rfl | trivial, h4⟩

theorem scanFuelS_spec (hr : Refines decS dec Inv) (cfg : Cfg μ) :
    ∀ (fuel off : Nat) (s : Bytes) (st : σ), Inv st →
      (scanFuelS decS cfg fuel off s st).1 = scanFuel dec cfg fuel off s ∧ Inv (scanFuelS decS cfg fuel off s st).2 := by
  intro fuel
  induction fuel with
  | zero => intro off s st h; exact ⟨by first | rfl | trivial, h⟩
  | succ fuel ih =>
    intro off s st h
    unfold scanFuelS scanFuel
    cases hk : findSig s with
    | none => exact ⟨by first | rfl | trivial, h⟩
    | some k =>
      simp only
      obtain ⟨h1, h2⟩ := stepS_spec hr cfg (s.drop k) st h
      rw [← h1]
      generalize stepS decS cfg (s.drop k) st = r at h2
      obtain ⟨x, st1⟩ := r
      cases x with
      | fail e => exact ⟨by first | rfl | trivial, h2⟩
      | adv n y =>
        cases n with
        | zero => exact ⟨by first | rfl | trivial, h2⟩
        | succ n =>
          simp only
          obtain ⟨h3, h4⟩ := ih (off + k + (n + 1)) ((s.drop k).drop (n + 1)) st1 h2
          rw [← h3]
          exact ⟨by first | rfl | trivial, h4⟩

theorem scanS_spec (hr : Refines decS dec Inv) (cfg : Cfg μ) (s : Bytes) (st : σ) (h : Inv st) :
    (scanS decS cfg s st).1 = scan dec cfg s ∧ Inv (scanS decS cfg s st).2 :=
  scanFuelS_spec hr cfg (s.length + 1) 0 s st h

end scanS

theorem ofSectionsS_refines {α : Type} (L : Layouts) (dc : DataCoder α) (ign : Bool) :
    Refines (ofSectionsS L dc ign) (ofSections L dc ign) (Memo.Sound L) := by
  intro m b rest h
  obtain ⟨h1, h2⟩ := decodeAtS_spec L dc { infoOnly := b, ignoreExpect := ign } m rest h
  unfold ofSectionsS ofSections
  rw [← h1]
  generalize decodeAtS L dc { infoOnly := b, ignoreExpect := ign } m rest = r at h2
  obtain ⟨x, m1⟩ := r
  cases x with
  | error e => exact ⟨by first | rfl | trivial, h2⟩
  | ok r =>
    simp only
    cases hl : (r.sections.findSome? (fun s => s.params.lookup "length") : Option PVal) with
    | none => exact ⟨by first | rfl | trivial, h2⟩
    | some v => cases v <;> exact ⟨by first | rfl | trivial, h2⟩

/-! ## operations on one Decoder object, histories -/

/-- what a user does with a Decoder object -/
inductive Op (α : Type) where
  /-- `decoder.process(bytes, start_signature = BUFR | None, info_only, ignore_value_expectation)` -/
  | process (search info ign : Bool) (bytes : Bytes)
  /-- `generate_bufr_message(decoder, s, info_only, continue_on_error, filter_expr, ignore_value_expectation=…)` -/
  | scan (info cont ign : Bool) (filter : Option (MsgInfo (DecMsg α) → Except Err Bool)) (s : Bytes)

/-- what the user sees -/
inductive Res (α : Type) where
  | msg (r : Except Err (DecMsg α))
  | items (r : List (Item (DecMsg α)) × Outcome)

/-- the stateless model: a function of the operation (options and bytes) only -/
def Op.pure {α : Type} (L : Layouts) (dc : DataCoder α) : Op α → Res α
  | .process true info ign b => .msg (decode L dc { infoOnly := info, ignoreExpect := ign } b)
  | .process false info ign b => .msg (decodeAt L dc { infoOnly := info, ignoreExpect := ign } b)
  | .scan info cont ign f s =>
    .items (Bufr.Stream.scan (ofSections L dc ign) { infoOnly := info, continueOnError := cont, filter := f } s)

/-- the operation on the object in state `m`: result and new state -/
def Op.run {α : Type} (L : Layouts) (dc : DataCoder α) : Op α → Memo → Res α × Memo
  | .process true info ign b, m =>
    let r := decodeS L dc { infoOnly := info, ignoreExpect := ign } m b
    (.msg r.1, r.2)
  | .process false info ign b, m =>
    let r := decodeAtS L dc { infoOnly := info, ignoreExpect := ign } m b
    (.msg r.1, r.2)
  | .scan info cont ign f s, m =>
    let r := scanS (ofSectionsS L dc ign) { infoOnly := info, continueOnError := cont, filter := f } s m
    (.items r.1, r.2)

/-- the state after a history, whatever the results were (a failing operation is followed by the next one) -/
def runHist {α : Type} (L : Layouts) (dc : DataCoder α) : List (Op α) → Memo → Memo
  | [], m => m
  | op :: ops, m => runHist L dc ops (op.run L dc m).2

theorem Op.run_spec {α : Type} (L : Layouts) (dc : DataCoder α) (op : Op α) (m : Memo) (h : Memo.Sound L m) :
    (op.run L dc m).1 = op.pure L dc ∧ Memo.Sound L (op.run L dc m).2 := by
  cases op with
  | process search info ign b =>
    cases search with
    | true =>
      obtain ⟨h1, h2⟩ := decodeS_spec L dc { infoOnly := info, ignoreExpect := ign } m b h
      exact ⟨by simp only [Op.run, Op.pure, h1], h2⟩
    | false =>
      obtain ⟨h1, h2⟩ := decodeAtS_spec L dc { infoOnly := info, ignoreExpect := ign } m b h
      exact ⟨by simp only [Op.run, Op.pure, h1], h2⟩
  | scan info cont ign f s =>
    obtain ⟨h1, h2⟩ := scanS_spec (ofSectionsS_refines L dc ign)
      { infoOnly := info, continueOnError := cont, filter := f } s m h
    exact ⟨by simp only [Op.run, Op.pure, h1], h2⟩

end Bufr.Stream
