/-
  An invariant of the WHOLE template walk for C07 (helper lemmas; the property theorems are in
  Props/C07Walk.lean): at every point of the walk

    * every recorded link (a, o) has o < p < a for the item p of some bit-map operator (22X000 / 232000), and
      item o is a plain element,
    * every entry (i, e) of the three bit-map registers (`backRefs`, `bitmapped`, `bmIter`) names item i,
      which is the plain element e and lies in front of the item of a bit-map operator,
    * the back-reference boundary does not exceed the number of items recorded, and while a bit-map is being
      defined it is the position of the operator that announced it.

  `Pres I f`: the step `f` preserves the state predicate `I`; closure under sequencing, iteration and
  case distinction, then the walk by the same mutual recursion as `good_walkList` (Lemmas/Frame.lean).
-/
import BufrModel.Lemmas.Links
import BufrModel.Lemmas.Frame
namespace Bufr.C07

/-! ### preservation of a state predicate -/

def Pres (I : St → Prop) (f : St → CM St) : Prop := ∀ s s', f s = .ok s' → I s → I s'

section closure
variable {I : St → Prop}

theorem Pres.congr {F G : St → CM St} (h : ∀ s, F s = G s) (hG : Pres I G) : Pres I F := by
  have : F = G := funext h
  rw [this]; exact hG

theorem Pres.error (e : Err) : Pres I (fun _ => .error e) := by
  intro s s' h; cases h

theorem Pres.id : Pres I (fun s => .ok s) := by
  intro s s' h hi; cases h; exact hi

theorem Pres.kl {f g : St → CM St} (hf : Pres I f) (hg : Pres I g) : Pres I (Bufr.kl f g) := by
  intro s s' h hi
  unfold Bufr.kl at h
  cases h1 : f s with
  | error e => rw [h1] at h; cases h
  | ok s1 => rw [h1] at h; exact hg s1 s' h (hf s s1 h1 hi)

theorem Pres.klV {α : Type} {g : St → CM α} {k : α → St → CM St} (hk : ∀ a, Pres I (k a)) : Pres I (Bufr.klV g k) := by
  intro s s' h hi
  unfold Bufr.klV at h
  cases h1 : g s with
  | error e => rw [h1] at h; cases h
  | ok a => rw [h1] at h; exact hk a s s' h hi

theorem Pres.ite_const {c : Prop} [Decidable c] {f g : St → CM St} (hf : c → Pres I f) (hg : ¬ c → Pres I g) :
    Pres I (fun s => if c then f s else g s) := by
  by_cases hc : c
  · simp only [if_pos hc]; exact hf hc
  · simp only [if_neg hc]; exact hg hc

theorem Pres.ite {c : St → Prop} [∀ s, Decidable (c s)] {f g : St → CM St} (hf : Pres I f) (hg : Pres I g) :
    Pres I (fun s => if c s then f s else g s) := by
  intro s s' h hi
  have h : (if c s then f s else g s) = .ok s' := h
  by_cases hc : c s
  · rw [if_pos hc] at h; exact hf s s' h hi
  · rw [if_neg hc] at h; exact hg s s' h hi

theorem Pres.iterN {f : St → CM St} (hf : Pres I f) (n : Nat) : Pres I (iterN n f) := by
  induction n with
  | zero => intro s s' h hi; unfold Bufr.iterN at h; cases h; exact hi
  | succ n ih =>
    intro s s' h hi
    unfold Bufr.iterN at h
    cases h1 : f s with
    | error e => rw [h1] at h; cases h
    | ok s1 => rw [h1] at h; exact ih s1 s' h (hf s s1 h1 hi)

end closure

/-! ### the invariant -/

/-- the ids of the operators that announce bit-mapped values -/
def IsBitmapOp (id : Nat) : Prop := id = 222000 ∨ id = 223000 ∨ id = 224000 ∨ id = 225000 ∨ id = 232000

/-- item `p` is the item of a bit-map operator -/
def OpAt (ds : List DDesc) (p : Nat) : Prop := ∃ id, IsBitmapOp id ∧ ds.reverse[p]? = some (.oper id)

/-- item `i` is the plain element `e` and lies in front of the item of some bit-map operator -/
def Ref (ds : List DDesc) (i : Nat) (e : Elem) : Prop :=
  ds.reverse[i]? = some (.plain e) ∧ ∃ p, i < p ∧ OpAt ds p

/-- every entry of a register list names an item that is that plain element, in front of a bit-map operator -/
def RefsOk (ds : List DDesc) (l : Option (List (Nat × Elem))) : Prop :=
  ∀ xs, l = some xs → ∀ x ∈ xs, Ref ds x.1 x.2

structure LinkInv (s : St) : Prop where
  /-- a link goes from a value to a plain element in front of a bit-map operator that precedes the value -/
  links : ∀ l ∈ s.links, ∃ e, s.descs.reverse[l.2]? = some (.plain e) ∧ ∃ p, l.2 < p ∧ p < l.1 ∧ OpAt s.descs p
  backRefs : RefsOk s.descs s.regs.backRefs
  bitmapped : RefsOk s.descs s.regs.bitmapped
  bmIter : RefsOk s.descs s.regs.bmIter
  boundary : s.regs.backBoundary ≤ s.descs.length
  /-- while a bit-map is being defined the boundary is the position of the operator that announced it -/
  armed : s.regs.bitmapDef ≠ .na → OpAt s.descs s.regs.backBoundary

theorem rev_get_lt {ds : List DDesc} {i : Nat} {x : DDesc} (h : ds.reverse[i]? = some x) : i < ds.length := by
  have := (List.getElem?_eq_some_iff.mp h).1
  simpa using this

/-- items are only ever added: what was item i stays item i -/
theorem rev_get_grow {ds : List DDesc} (ext : List DDesc) {i : Nat} {x : DDesc} (h : ds.reverse[i]? = some x) :
    (ext ++ ds).reverse[i]? = some x := by
  have hi := rev_get_lt h
  rw [List.reverse_append, List.getElem?_append_left (by simpa using hi)]
  exact h

theorem OpAt.grow {ds : List DDesc} {p : Nat} (h : OpAt ds p) (ext : List DDesc) : OpAt (ext ++ ds) p :=
  let ⟨id, a, b⟩ := h; ⟨id, a, rev_get_grow ext b⟩

theorem Ref.grow {ds : List DDesc} {i : Nat} {e : Elem} (h : Ref ds i e) (ext : List DDesc) : Ref (ext ++ ds) i e :=
  let ⟨a, p, b, c⟩ := h; ⟨rev_get_grow ext a, p, b, c.grow ext⟩

theorem OpAt.lt {ds : List DDesc} {p : Nat} (h : OpAt ds p) : p < ds.length :=
  let ⟨_, _, b⟩ := h; rev_get_lt b

theorem RefsOk.grow {ds : List DDesc} {l : Option (List (Nat × Elem))} (h : RefsOk ds l) (ext : List DDesc) :
    RefsOk (ext ++ ds) l :=
  fun xs e x hx => (h xs e x hx).grow ext

theorem RefsOk.none (ds : List DDesc) : RefsOk ds none := fun _ e => by cases e

theorem LinkInv.init (s : St) (hl : s.links = []) (h1 : s.regs.backRefs = none) (h2 : s.regs.bitmapped = none)
    (h3 : s.regs.bmIter = none) (h4 : s.regs.backBoundary = 0) (h5 : s.regs.bitmapDef = .na) : LinkInv s := by
  refine ⟨?_, ?_, ?_, ?_, ?_, ?_⟩
  · rw [hl]; intro l h; cases h
  · rw [h1]; exact RefsOk.none _
  · rw [h2]; exact RefsOk.none _
  · rw [h3]; exact RefsOk.none _
  · rw [h4]; exact Nat.zero_le _
  · intro h; exact absurd h5 h

/-- items added, links and bit-map registers untouched -/
theorem LinkInv.transfer {s s' : St} (hi : LinkInv s) (ext : List DDesc) (hd : s'.descs = ext ++ s.descs)
    (hl : s'.links = s.links) (h1 : s'.regs.backRefs = s.regs.backRefs) (h2 : s'.regs.bitmapped = s.regs.bitmapped)
    (h3 : s'.regs.bmIter = s.regs.bmIter) (h4 : s'.regs.backBoundary = s.regs.backBoundary)
    (h5 : s'.regs.bitmapDef ≠ .na → s.regs.bitmapDef ≠ .na) : LinkInv s' := by
  refine ⟨?_, ?_, ?_, ?_, ?_, ?_⟩
  · intro l hm
    rw [hl] at hm
    obtain ⟨e, a, p, b1, b2, b3⟩ := hi.links l hm
    exact ⟨e, by rw [hd]; exact rev_get_grow ext a, p, b1, b2, by rw [hd]; exact b3.grow ext⟩
  · rw [hd, h1]; exact hi.backRefs.grow ext
  · rw [hd, h2]; exact hi.bitmapped.grow ext
  · rw [hd, h3]; exact hi.bmIter.grow ext
  · rw [hd, h4, List.length_append]; exact Nat.le_trans hi.boundary (Nat.le_add_left _ _)
  · intro h; rw [hd, h4]; exact (hi.armed (h5 h)).grow ext

theorem LinkInv.same {s s' : St} {dd : DDesc} (hi : LinkInv s) (h : Same s s' dd) : LinkInv s' :=
  hi.transfer [dd] h.1 h.2.1 (by rw [h.2.2]) (by rw [h.2.2]) (by rw [h.2.2]) (by rw [h.2.2]) (by rw [h.2.2]; exact fun x => x)

theorem LinkInv.setRegs {s : St} (hi : LinkInv s) (f : Regs → Regs) (h1 : (f s.regs).backRefs = s.regs.backRefs)
    (h2 : (f s.regs).bitmapped = s.regs.bitmapped) (h3 : (f s.regs).bmIter = s.regs.bmIter)
    (h4 : (f s.regs).backBoundary = s.regs.backBoundary)
    (h5 : (f s.regs).bitmapDef ≠ .na → s.regs.bitmapDef ≠ .na) : LinkInv (s.setRegs f) :=
  hi.transfer [] rfl rfl h1 h2 h3 h4 h5

/-- `next_bitmapped_descriptor()` followed by the recording of the link -/
theorem LinkInv.serve {s s2 : St} (hi : LinkInv s) {o : Nat} {el : Elem} {rest : List (Nat × Elem)}
    (hb : s.regs.bmIter = some ((o, el) :: rest))
    (hd : s2.descs = s.descs) (hl : s2.links = (s.descs.length, o) :: s.links) (h3 : s2.regs.bmIter = some rest)
    (h1 : s2.regs.backRefs = s.regs.backRefs) (h2 : s2.regs.bitmapped = s.regs.bitmapped)
    (h4 : s2.regs.backBoundary = s.regs.backBoundary)
    (h5 : s2.regs.bitmapDef ≠ .na → s.regs.bitmapDef ≠ .na) : LinkInv s2 := by
  have ho : Ref s.descs o el := hi.bmIter _ hb (o, el) (by simp)
  refine ⟨?_, ?_, ?_, ?_, ?_, ?_⟩
  · intro l hm
    rw [hl] at hm
    rcases List.mem_cons.mp hm with rfl | hm
    · obtain ⟨a, p, b, c⟩ := ho
      exact ⟨el, by rw [hd]; exact a, p, b, c.lt, by rw [hd]; exact c⟩
    · rw [hd]; exact hi.links l hm
  · rw [hd, h1]; exact hi.backRefs
  · rw [hd, h2]; exact hi.bitmapped
  · rw [hd, h3]
    intro xs e x hx
    cases e
    exact hi.bmIter _ hb x (List.mem_cons_of_mem _ hx)
  · rw [hd, h4]; exact hi.boundary
  · intro h; rw [hd, h4]; exact hi.armed (h5 h)

/-- the item of a bit-map operator has just been recorded at the new boundary -/
theorem LinkInv.mark {s s2 : St} (hi : LinkInv s) {id : Nat} (hid : IsBitmapOp id)
    (hd : s2.descs = .oper id :: s.descs) (hl : s2.links = s.links) (h1 : s2.regs.backRefs = s.regs.backRefs)
    (h2 : s2.regs.bitmapped = s.regs.bitmapped) (h3 : s2.regs.bmIter = s.regs.bmIter)
    (h4 : s2.regs.backBoundary = s.descs.length) : LinkInv s2 := by
  have hd' : s2.descs = [.oper id] ++ s.descs := hd
  refine ⟨?_, ?_, ?_, ?_, ?_, ?_⟩
  · intro l hm
    rw [hl] at hm
    obtain ⟨e, a, p, b1, b2, b3⟩ := hi.links l hm
    exact ⟨e, by rw [hd']; exact rev_get_grow _ a, p, b1, b2, by rw [hd']; exact b3.grow _⟩
  · rw [hd', h1]; exact hi.backRefs.grow _
  · rw [hd', h2]; exact hi.bitmapped.grow _
  · rw [hd', h3]; exact hi.bmIter.grow _
  · rw [hd, h4]; simp
  · intro _
    refine ⟨id, hid, ?_⟩
    rw [hd, h4, List.reverse_cons, List.getElem?_append_right (by simp)]
    simp

/-- what the invariant says about a report in processing order -/
theorem LinkInv.report {s : St} (hi : LinkInv s) :
    ∀ l ∈ s.links.reverse, ∃ e, s.descs.reverse[l.2]? = some (.plain e) ∧
      ∃ p, l.2 < p ∧ p < l.1 ∧ OpAt s.descs p :=
  fun l hl => hi.links l (List.mem_reverse.mp hl)

/-! ### the steps -/

theorem pres_of_same {f : St → CM St} (h : ∀ s s', f s = .ok s' → ∃ dd, Same s s' dd) : Pres LinkInv f :=
  fun s s' e hi => let ⟨_, q⟩ := h s s' e; hi.same q

/-- a step that only writes registers other than the four the invariant reads -/
theorem pres_setRegs (f : St → Regs → Regs) (h1 : ∀ s, (f s s.regs).backRefs = s.regs.backRefs)
    (h2 : ∀ s, (f s s.regs).bitmapped = s.regs.bitmapped) (h3 : ∀ s, (f s s.regs).bmIter = s.regs.bmIter)
    (h4 : ∀ s, (f s s.regs).backBoundary = s.regs.backBoundary)
    (h5 : ∀ s, (f s s.regs).bitmapDef ≠ .na → s.regs.bitmapDef ≠ .na) :
    Pres LinkInv (fun s => .ok (s.setRegs (f s))) := by
  intro s s' e hi
  cases e
  exact hi.setRegs (f s) (h1 s) (h2 s) (h3 s) (h4 s) (h5 s)

theorem pres_stQa (e : Elem) : Pres LinkInv (stQa e) := by
  intro s s2 h hi
  unfold stQa at h
  by_cases hx : xOf e.id = 33
  · rw [if_pos hx] at h
    cases hq : s.regs.qa with
    | na =>
      simp only [hq, reduceCtorEq, if_false] at h
      simp only [hq, reduceCtorEq, if_false, pure, Except.pure] at h
      injection h with h; subst h
      exact hi
    | waiting =>
      simp only [hq, St.setRegs, if_true, bind, Except.bind, nextBitmapped] at h
      cases hb : s.regs.bmIter with
      | none => simp [hb] at h
      | some l =>
        cases l with
        | nil => simp [hb] at h
        | cons x rest =>
          obtain ⟨owner, el⟩ := x
          simp only [hb, pure, Except.pure, St.setRegs, addLink] at h
          injection h with h; subst h
          exact hi.serve hb rfl rfl rfl rfl rfl rfl (fun x => x)
    | processing =>
      simp only [hq, reduceCtorEq, if_false] at h
      simp only [hq, if_true, St.setRegs, bind, Except.bind, nextBitmapped] at h
      cases hb : s.regs.bmIter with
      | none => simp [hb] at h
      | some l =>
        cases l with
        | nil => simp [hb] at h
        | cons x rest =>
          obtain ⟨owner, el⟩ := x
          simp only [hb, pure, Except.pure, St.setRegs, addLink] at h
          injection h with h; subst h
          exact hi.serve hb rfl rfl rfl rfl rfl rfl (fun x => x)
  · rw [if_neg hx] at h
    simp only [pure, Except.pure] at h
    injection h with h; subst h
    by_cases hq : s.regs.qa = .processing
    · simp only [hq, if_true]
      exact hi.setRegs _ rfl rfl rfl rfl (fun x => x)
    · simp only [hq, if_false]
      exact hi

theorem pres_elementDescriptor {P : Prims} (hP : Quiet P) (dd : DDesc) (e : Elem) :
    Pres LinkInv (elementDescriptor P dd e) := by
  intro s s' h hi
  rw [Bufr.C07.elementDescriptor_eq] at h
  cases h1 : stAssoc P e s with
  | error err => simp [h1, bind, Except.bind] at h
  | ok s1 =>
    simp only [h1, bind, Except.bind] at h
    cases h2 : stQa e s1 with
    | error err => simp [h2] at h
    | ok s2 =>
      simp only [h2] at h
      have i1 : LinkInv s1 := by
        rcases stAssoc_ok hP h1 with ⟨_, a⟩ | ⟨_, rfl⟩
        · exact hi.same a
        · exact hi
      exact (pres_stQa e s1 s2 h2 i1).same (stValue_ok hP h)

theorem pres_associatedField {P : Prims} (hP : Quiet P) (id : Nat) : Pres LinkInv (associatedField P id) :=
  pres_of_same (fun s s' h => ⟨_, hP.codeflag (.assoc id s.regs.assocStack.sum) s.regs.assocStack.sum s s' h⟩)

theorem pres_bitmappedDescriptor {P : Prims} (hP : Quiet P) (op : Nat) : Pres LinkInv (bitmappedDescriptor P op) := by
  intro s s' h hi
  cases hb : s.regs.bmIter with
  | none => simp [bitmappedDescriptor, nextBitmapped, hb, bind, Except.bind] at h
  | some l =>
    cases l with
    | nil => simp [bitmappedDescriptor, nextBitmapped, hb, bind, Except.bind] at h
    | cons x rest =>
      obtain ⟨owner, be⟩ := x
      simp only [bitmappedDescriptor, nextBitmapped, hb, bind, Except.bind] at h
      exact pres_elementDescriptor hP _ _ _ _ h (hi.serve hb rfl rfl rfl rfl rfl rfl (fun x => x))

/-- whatever `collectBackRefs` returns beyond its accumulator names plain items of `ds` -/
theorem collect_valid (n : Nat) : ∀ (ds : List DDesc) (i : Nat) (acc : List (Nat × Elem)), i = ds.length →
    ∀ x ∈ collectBackRefs n ds i acc, x ∈ acc ∨ ds.reverse[x.1]? = some (.plain x.2) := by
  intro ds
  induction ds with
  | nil => intro i acc _ x hx; simp only [collectBackRefs] at hx; exact Or.inl hx
  | cons d ds ih =>
    intro i acc hi x hx
    have hi' : i - 1 = ds.length := by simp only [List.length_cons] at hi; omega
    have hd : (d :: ds).reverse[ds.length]? = some d := by
      rw [List.reverse_cons, List.getElem?_append_right (by simp)]
      simp
    have lift : ∀ y : Nat × Elem, ds.reverse[y.1]? = some (.plain y.2) → (d :: ds).reverse[y.1]? = some (.plain y.2) :=
      fun y hy => rev_get_grow [d] hy
    cases d with
    | plain e =>
      simp only [collectBackRefs] at hx
      split at hx
      · rcases List.mem_cons.mp hx with rfl | hx
        · right; rw [hi']; exact hd
        · exact Or.inl hx
      · rcases ih (i - 1) ((i - 1, e) :: acc) hi' x hx with hx | hx
        · rcases List.mem_cons.mp hx with rfl | hx
          · right; rw [hi']; exact hd
          · exact Or.inl hx
        · exact Or.inr (lift x hx)
    | assoc a b =>
      simp only [collectBackRefs] at hx
      rcases ih (i - 1) acc hi' x hx with hx | hx
      · exact Or.inl hx
      · exact Or.inr (lift x hx)
    | skipped a b =>
      simp only [collectBackRefs] at hx
      rcases ih (i - 1) acc hi' x hx with hx | hx
      · exact Or.inl hx
      · exact Or.inr (lift x hx)
    | marker a b =>
      simp only [collectBackRefs] at hx
      rcases ih (i - 1) acc hi' x hx with hx | hx
      · exact Or.inl hx
      · exact Or.inr (lift x hx)
    | oper a =>
      simp only [collectBackRefs] at hx
      rcases ih (i - 1) acc hi' x hx with hx | hx
      · exact Or.inl hx
      · exact Or.inr (lift x hx)

/-- the back references `buildBitmapped` works with -/
def brFor (s : St) (n : Nat) : List (Nat × Elem) :=
  match s.regs.backRefs with
  | some (x :: xs) => x :: xs
  | _ => collectBackRefs n (s.descs.drop (s.descs.length - s.regs.backBoundary)) s.regs.backBoundary []

theorem brFor_ok {s : St} (hi : LinkInv s) (ha : s.regs.bitmapDef ≠ .na) (n : Nat) :
    ∀ x ∈ brFor s n, Ref s.descs x.1 x.2 := by
  have fresh : ∀ x ∈ collectBackRefs n (s.descs.drop (s.descs.length - s.regs.backBoundary)) s.regs.backBoundary [],
      Ref s.descs x.1 x.2 := by
    intro x hx
    have hb := hi.boundary
    have hlen : (s.descs.drop (s.descs.length - s.regs.backBoundary)).length = s.regs.backBoundary := by
      rw [List.length_drop]; omega
    rcases collect_valid n _ _ [] hlen.symm x hx with h | h
    · cases h
    · have hr : (s.descs.drop (s.descs.length - s.regs.backBoundary)).reverse = s.descs.reverse.take s.regs.backBoundary := by
        rw [List.reverse_drop]; congr 1; omega
      rw [hr] at h
      have hlt : x.1 < s.regs.backBoundary := by
        have := (List.getElem?_eq_some_iff.mp h).1
        simp only [List.length_take, List.length_reverse] at this
        omega
      rw [List.getElem?_take_of_lt hlt] at h
      exact ⟨h, _, hlt, hi.armed ha⟩
  intro x hx
  unfold brFor at hx
  cases hbr : s.regs.backRefs with
  | none => rw [hbr] at hx; exact fresh x hx
  | some l =>
    cases l with
    | nil => rw [hbr] at hx; exact fresh x hx
    | cons y ys => rw [hbr] at hx; exact hi.backRefs _ hbr x hx

theorem build_inv (bm : List Val) (s s' : St) (h : buildBitmapped s bm = .ok s') (hi : LinkInv s)
    (ha : s.regs.bitmapDef ≠ .na) : LinkInv s' := by
  have hdef : buildBitmapped s bm =
      (if (brFor s bm.length).length ≠ bm.length then .error .lib
       else .ok (s.setRegs fun r => { r with backRefs := some (brFor s bm.length),
                                             bitmapped := some (zeroSel bm (brFor s bm.length)),
                                             bmIter := some (zeroSel bm (brFor s bm.length)) })) := rfl
  simp only [hdef] at h
  split at h
  · cases h
  · injection h with h; subst h
    have ok := brFor_ok hi ha bm.length
    have sel : ∀ x ∈ zeroSel bm (brFor s bm.length), Ref s.descs x.1 x.2 :=
      fun x hx => ok x ((zeroSel_sublist bm _).subset hx)
    refine ⟨hi.links, ?_, ?_, ?_, hi.boundary, hi.armed⟩
    · intro xs e x hx; cases e; exact ok x hx
    · intro xs e x hx; cases e; exact sel x hx
    · intro xs e x hx; cases e; exact sel x hx

theorem pres_bitmapDefinition (P : Prims) (id : Nat) : Pres LinkInv (bitmapDefinition P id) := by
  intro s s' h hi
  unfold bitmapDefinition at h
  cases hb : s.regs.bitmapDef with
  | na => simp only [hb] at h; cases h; exact hi
  | indicator =>
    simp only [hb] at h
    split at h <;> (cases h; exact hi.setRegs _ rfl rfl rfl rfl (fun _ => by rw [hb]; exact fun x => nomatch x))
  | waiting =>
    simp only [hb] at h
    split at h
    · cases h; exact hi.setRegs _ rfl rfl rfl rfl (fun _ => by rw [hb]; exact fun x => nomatch x)
    · cases h; exact hi
  | counting =>
    simp only [hb] at h
    split at h
    · cases h; exact hi.setRegs _ rfl rfl rfl rfl (fun x => x)
    · simp only [bind, Except.bind, pure, Except.pure] at h
      cases hv : P.lastValues s.regs.n031031 s with
      | error err => simp [hv] at h
      | ok bitmap =>
        simp only [hv] at h
        cases hbb : buildBitmapped s bitmap with
        | error err => simp [hbb] at h
        | ok sb =>
          simp only [hbb] at h
          cases h
          exact (build_inv bitmap s sb hbb hi (by rw [hb]; exact fun x => nomatch x)).setRegs _ rfl rfl rfl rfl
            (fun x => absurd rfl x)

/-- `new_refval` primitives: one plain item, nothing the invariant reads is touched -/
def QuietRef (P : Prims) : Prop :=
  ∀ e n s s', P.newRefval e n s = .ok s' →
    s'.descs = .plain e :: s.descs ∧ s'.links = s.links ∧ s'.regs.backRefs = s.regs.backRefs ∧
    s'.regs.bitmapped = s.regs.bitmapped ∧ s'.regs.bmIter = s.regs.bmIter ∧ s'.regs.backBoundary = s.regs.backBoundary ∧
    s'.regs.bitmapDef = s.regs.bitmapDef

theorem pres_operatorDescriptor {P : Prims} (hP : Quiet P) (id : Nat) : Pres LinkInv (operatorDescriptor P id) := by
  show Pres LinkInv (fun s => operatorDescriptor P id s)
  simp only [operatorDescriptor]
  repeat' first
    | exact pres_setRegs _ (fun _ => rfl) (fun _ => rfl) (fun _ => rfl) (fun _ => rfl) (fun _ x => x)
    | exact Pres.error _
    | exact pres_of_same (fun s s' h => ⟨_, hP.string _ _ _ _ h⟩)
    | exact pres_of_same (fun s s' h => ⟨_, hP.constant _ _ _ _ h⟩)
    | refine Pres.ite_const (fun _ => ?_) (fun _ => ?_)
    | refine Pres.ite ?_ ?_
  · -- 22X000 / 232000: the boundary moves to the operator's own position
    intro s s' h hi
    simp only [bind, Except.bind, pure, Except.pure] at h
    split at h
    · cases h
    · next s2 hk =>
      rename_i hcode hy
      have hid : IsBitmapOp id := by unfold IsBitmapOp; omega
      have q := hP.constant _ _ _ _ hk
      have i2 : LinkInv s2 := hi.mark hid q.1 q.2.1 (by rw [q.2.2]; rfl) (by rw [q.2.2]; rfl) (by rw [q.2.2]; rfl)
        (by rw [q.2.2]; rfl)
      injection h with h; subst h
      split
      · exact i2.setRegs _ rfl rfl rfl rfl (fun x => x)
      · exact i2
  · -- 22X255 / 232255: a marker value
    exact Pres.congr (fun s => Bufr.bind_eq_kl (fun s => if s.regs.assocStack ≠ [] then associatedField P id s else .ok s)
        (bitmappedDescriptor P id) s)
      (Pres.kl (Pres.ite (pres_associatedField hP id) Pres.id) (pres_bitmappedDescriptor hP id))
  · -- 235000
    intro s s' h hi
    cases h
    exact ⟨hi.links, RefsOk.none _, RefsOk.none _, hi.bmIter, hi.boundary, hi.armed⟩
  · -- 237000
    intro s s' h hi
    cases hb : s.regs.bitmapped with
    | none => simp [hb] at h
    | some l =>
      simp only [hb] at h
      have i1 : LinkInv (s.setRegs fun r => { r with bmIter := some l }) :=
        ⟨hi.links, hi.backRefs, hi.bitmapped, by intro xs e x hx; cases e; exact hi.bitmapped _ hb x hx, hi.boundary,
         hi.armed⟩
      exact i1.same (hP.constant _ _ _ _ h)

/-! ### the walk -/

theorem pres_dnpStep : Pres LinkInv (fun s => .ok (dnpStep s)) := by
  intro s s' h hi
  cases h
  unfold dnpStep
  split
  · exact hi.setRegs _ rfl rfl rfl rfl (fun x => x)
  · exact hi

theorem pres_walkRest {P : Prims} (hP : Quiet P) (hR : QuietRef P) (d : Desc) (hd : Pres LinkInv (dispatch P d)) :
    Pres LinkInv (walkRest P d) := by
  intro s s' h hi
  unfold walkRest at h
  cases hsel : newRefSel d s with
  | some e =>
    simp only [hsel] at h
    by_cases hk : e.kind = .string
    · simp [hk] at h
    · simp only [hk, if_false] at h
      obtain ⟨a, b, c1, c2, c3, c4, c5⟩ := hR _ _ _ _ h
      exact hi.transfer [.plain e] a b c1 c2 c3 c4 (by rw [c5]; exact fun x => x)
  | none =>
    simp only [hsel] at h
    by_cases hn : s.regs.nbitsSkipped = 0
    · simp only [hn, ne_eq, not_true_eq_false, if_false] at h
      cases hb : bitmapDefinition P d.id s with
      | error err => simp [hb] at h
      | ok s1 => simp only [hb] at h; exact hd s1 s' h (pres_bitmapDefinition P d.id s s1 hb hi)
    · simp only [hn, ne_eq, not_false_eq_true, if_true, bind, Except.bind, pure, Except.pure] at h
      cases hc : P.codeflag (.skipped d.id s.regs.nbitsSkipped) s.regs.nbitsSkipped s with
      | error err => simp [hc] at h
      | ok s1 =>
        simp only [hc] at h
        cases h
        exact (hi.same (hP.codeflag _ _ _ _ hc)).setRegs _ rfl rfl rfl rfl (fun x => x)

theorem pres_walk1_of {P : Prims} (hP : Quiet P) (hR : QuietRef P) (d : Desc) (hd : Pres LinkInv (dispatch P d)) :
    Pres LinkInv (walk1 P d) := by
  refine Pres.congr (fr_walk1_eq P d) ?_
  refine Pres.ite (c := fun s0 => skipTest d s0 = true) pres_dnpStep ?_
  exact Pres.congr (G := Bufr.kl (fun s => .ok (dnpStep s)) (walkRest P d)) (fun s => rfl)
    (Pres.kl pres_dnpStep (pres_walkRest hP hR d hd))

mutual
/-- the whole walk keeps the invariant -/
theorem pres_walkList {P : Prims} (hP : Quiet P) (hR : QuietRef P) : (t : List Desc) → Pres LinkInv (walkList P t)
  | [] => Pres.congr (fun s => by rw [walkList]) Pres.id
  | d :: ds =>
    Pres.congr (G := Bufr.kl (walk1 P d) (walkList P ds)) (fun s => by rw [walkList]; rfl)
      (Pres.kl (pres_walk1_of hP hR d (pres_dispatch hP hR d)) (pres_walkList hP hR ds))

theorem pres_dispatch {P : Prims} (hP : Quiet P) (hR : QuietRef P) : (d : Desc) → Pres LinkInv (dispatch P d)
  | .elem e => pres_elementDescriptor hP (.plain e) e
  | .fixedRep id ms => Pres.iterN (pres_walkList hP hR ms) (yOf id)
  | .delayedRep _ f ms => by
    cases f with
    | elem fe =>
      exact Pres.congr
        (G := Bufr.kl (elementDescriptor P (.plain fe) fe)
          (Bufr.klV (fun s => P.factorValue s >>= factorCount) (fun n => iterN n (walkList P ms))))
        (fun s => by simp only [dispatch, Bufr.kl, Bufr.klV]; match_eq)
        (Pres.kl (pres_elementDescriptor hP _ _) (Pres.klV (fun n => Pres.iterN (pres_walkList hP hR ms) n)))
    | _ => exact Pres.error .unknownDescr
  | .op id => pres_operatorDescriptor hP id
  | .seq _ ms => pres_walkList hP hR ms
  | .undefElem _ => Pres.error .unknownDescr
  | .undefSeq _ => Pres.error .unknownDescr
end

/-! ### the decoder's primitives -/

theorem decPrimsU_quietRef : QuietRef decPrimsU := by
  intro e n s s' h
  have h : decNewRefvalU e n s = .ok s' := h
  simp only [decNewRefvalU, bind, Except.bind, pure, Except.pure] at h
  cases hr : (s.pushDesc (.plain e)).read (readInt n) with
  | error err => simp [hr] at h
  | ok p =>
    obtain ⟨v, s1⟩ := p
    simp only [hr] at h
    injection h with h; subst h
    obtain ⟨a, b, c, _⟩ := read_same _ _ _ _ hr
    refine ⟨?_, ?_, ?_, ?_, ?_, ?_, ?_⟩
    · show s1.descs = _; rw [a]; rfl
    · show s1.links = _; rw [b]; rfl
    · show s1.regs.backRefs = _; rw [c]; rfl
    · show s1.regs.bitmapped = _; rw [c]; rfl
    · show s1.regs.bmIter = _; rw [c]; rfl
    · show s1.regs.backBoundary = _; rw [c]; rfl
    · show s1.regs.bitmapDef = _; rw [c]; rfl

theorem decPrimsC_quietRef : QuietRef decPrimsC := by
  intro e n s s' h
  have h : decNewRefvalC e n s = .ok s' := h
  simp only [decNewRefvalC, bind, Except.bind, pure, Except.pure] at h
  cases hr : (s.pushDesc (.plain e)).read (readInt n) with
  | error err => simp [hr] at h
  | ok p =>
    obtain ⟨v, s1⟩ := p
    simp only [hr] at h
    cases hr2 : s1.read (readUInt 6) with
    | error err => simp [hr2] at h
    | ok p2 =>
      obtain ⟨nd, s2⟩ := p2
      simp only [hr2] at h
      split at h
      · cases h
      · injection h with h; subst h
        obtain ⟨a, b, c, _⟩ := read_same _ _ _ _ hr
        obtain ⟨a2, b2, c2, _⟩ := read_same _ _ _ _ hr2
        refine ⟨?_, ?_, ?_, ?_, ?_, ?_, ?_⟩
        · show s2.descs = _; rw [a2, a]; rfl
        · show s2.links = _; rw [b2, b]; rfl
        · show s2.regs.backRefs = _; rw [c2, c]; rfl
        · show s2.regs.bitmapped = _; rw [c2, c]; rfl
        · show s2.regs.bmIter = _; rw [c2, c]; rfl
        · show s2.regs.backBoundary = _; rw [c2, c]; rfl
        · show s2.regs.bitmapDef = _; rw [c2, c]; rfl

end Bufr.C07
