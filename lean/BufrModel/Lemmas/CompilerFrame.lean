/-
  C08: the primitives of the decoder and the encoder (uncompressed and compressed) do not look at the
  operator registers of the coder state and leave them alone (`Frame`); only `process_new_refval`
  records a value in `new_refvals`.
-/
import BufrModel.Coder.Compiler
namespace Bufr.C08
open Bufr

/-- a register update that does not involve `new_refvals` -/
def NRcomm (g : Regs → Regs) : Prop := ∀ r l, g { r with newRefvals := l } = { g r with newRefvals := l }

theorem NRcomm.keep {g : Regs → Regs} (hg : NRcomm g) (r : Regs) : (g r).newRefvals = r.newRefvals := by
  have h : g r = { g r with newRefvals := r.newRefvals } := hg r r.newRefvals
  rw [h]

theorem NRcomm.push {g : Regs → Regs} (hg : NRcomm g) (r : Regs) (x : Nat × Int) :
    ({ g r with newRefvals := x :: (g r).newRefvals } : Regs) = g { r with newRefvals := x :: r.newRefvals } := by
  rw [hg r (x :: r.newRefvals), hg.keep]

def mapSt (g : Regs → Regs) (x : CM St) : CM St :=
  match x with
  | .error e => .error e
  | .ok t => .ok (t.setRegs g)

structure Frame (P : Prims) : Prop where
  numeric : ∀ dd a b c (g : Regs → Regs) s, P.numeric dd a b c (s.setRegs g) = mapSt g (P.numeric dd a b c s)
  string : ∀ dd n (g : Regs → Regs) s, P.string dd n (s.setRegs g) = mapSt g (P.string dd n s)
  codeflag : ∀ dd n (g : Regs → Regs) s, P.codeflag dd n (s.setRegs g) = mapSt g (P.codeflag dd n s)
  constant : ∀ dd v (g : Regs → Regs) s, P.constant dd v (s.setRegs g) = mapSt g (P.constant dd v s)
  newRefval : ∀ e n (g : Regs → Regs) s, NRcomm g → P.newRefval e n (s.setRegs g) = mapSt g (P.newRefval e n s)
  newRefval_regs : ∀ e n s t, P.newRefval e n s = .ok t →
    ∃ v, t.regs = { s.regs with newRefvals := (e.id, v) :: s.regs.newRefvals }
  factorValue : ∀ (g : Regs → Regs) s, P.factorValue (s.setRegs g) = P.factorValue s
  lastValues : ∀ n (g : Regs → Regs) s, P.lastValues n (s.setRegs g) = P.lastValues n s

macro "frame_unfold" : tactic => `(tactic|
  simp only [St.setRegs, St.pushDesc, St.read, St.pushAll, St.pushCol, St.write, nextVal, nextCol, curVals, setNewRefval,
    bind, Except.bind, pure, Except.pure, mapSt])

macro "frame_close" : tactic => `(tactic|
  repeat (first | rfl | (split <;> try rfl) | (simp only []; done)))

/-! ### decoder, uncompressed -/
theorem frame_decNumericU (dd a b c) (g : Regs → Regs) (s : St) :
    decNumericU dd a b c (s.setRegs g) = mapSt g (decNumericU dd a b c s) := by
  simp only [decNumericU]; frame_unfold
  cases natWidth a with
  | error e => rfl
  | ok n => simp only; cases readUIntOrNone n s.bits <;> rfl

theorem frame_decStringU (dd n) (g : Regs → Regs) (s : St) :
    decStringU dd n (s.setRegs g) = mapSt g (decStringU dd n s) := by
  simp only [decStringU]; frame_unfold
  cases readBytes n s.bits <;> rfl

theorem frame_decCodeflagU (dd n) (g : Regs → Regs) (s : St) :
    decCodeflagU dd n (s.setRegs g) = mapSt g (decCodeflagU dd n s) := by
  simp only [decCodeflagU]; frame_unfold
  cases readUIntOrNone n s.bits <;> rfl

theorem frame_decConstant (dd v) (g : Regs → Regs) (s : St) :
    decConstant dd v (s.setRegs g) = mapSt g (decConstant dd v s) := by
  simp only [decConstant]; frame_unfold

theorem frame_decNewRefvalU (e n) (g : Regs → Regs) (s : St) (hg : NRcomm g) :
    decNewRefvalU e n (s.setRegs g) = mapSt g (decNewRefvalU e n s) := by
  simp only [decNewRefvalU]; frame_unfold
  cases readInt n s.bits with
  | error e => rfl
  | ok r =>
    simp only
    rw [hg.push]

theorem regs_decNewRefvalU (e n) (s t : St) (h : decNewRefvalU e n s = .ok t) :
    ∃ v, t.regs = { s.regs with newRefvals := (e.id, v) :: s.regs.newRefvals } := by
  simp only [decNewRefvalU] at h; revert h; frame_unfold
  cases readInt n s.bits with
  | error e => intro h; cases h
  | ok r => intro h; cases h; exact ⟨r.1, rfl⟩

theorem frame_decPrimsU : Frame decPrimsU where
  numeric := frame_decNumericU
  string := frame_decStringU
  codeflag := frame_decCodeflagU
  constant := frame_decConstant
  newRefval := frame_decNewRefvalU
  newRefval_regs := regs_decNewRefvalU
  factorValue := fun _ _ => rfl
  lastValues := fun _ _ _ => rfl

/-! ### decoder, compressed -/
theorem frame_decNumericC (dd a b c) (g : Regs → Regs) (s : St) :
    decNumericC dd a b c (s.setRegs g) = mapSt g (decNumericC dd a b c s) := by
  simp only [decNumericC]; frame_unfold
  cases natWidth a with
  | error e => rfl
  | ok n => simp only; cases readColumn n s.vals.length s.bits <;> rfl

theorem frame_decStringC (dd n) (g : Regs → Regs) (s : St) :
    decStringC dd n (s.setRegs g) = mapSt g (decStringC dd n s) := by
  simp only [decStringC]; frame_unfold
  cases readStringColumn n s.vals.length s.bits <;> rfl

theorem frame_decCodeflagC (dd n) (g : Regs → Regs) (s : St) :
    decCodeflagC dd n (s.setRegs g) = mapSt g (decCodeflagC dd n s) := by
  simp only [decCodeflagC]; frame_unfold
  cases readColumn n s.vals.length s.bits <;> rfl

theorem frame_decNewRefvalC (e n) (g : Regs → Regs) (s : St) (hg : NRcomm g) :
    decNewRefvalC e n (s.setRegs g) = mapSt g (decNewRefvalC e n s) := by
  simp only [decNewRefvalC]; frame_unfold
  cases readInt n s.bits with
  | error e => rfl
  | ok r =>
    simp only
    cases readUInt 6 r.2 with
    | error e => rfl
    | ok r2 =>
      simp only
      split
      · rfl
      · rw [hg.push]

theorem regs_decNewRefvalC (e n) (s t : St) (h : decNewRefvalC e n s = .ok t) :
    ∃ v, t.regs = { s.regs with newRefvals := (e.id, v) :: s.regs.newRefvals } := by
  simp only [decNewRefvalC] at h; revert h; frame_unfold
  cases readInt n s.bits with
  | error e => intro h; cases h
  | ok r =>
    simp only
    cases readUInt 6 r.2 with
    | error e => intro h; cases h
    | ok r2 =>
      simp only
      split
      · intro h; cases h
      · intro h; cases h; exact ⟨r.1, rfl⟩

theorem frame_decFactorC (g : Regs → Regs) (s : St) : decFactorC (s.setRegs g) = decFactorC s := rfl

theorem frame_decPrimsC : Frame decPrimsC where
  numeric := frame_decNumericC
  string := frame_decStringC
  codeflag := frame_decCodeflagC
  constant := frame_decConstant
  newRefval := frame_decNewRefvalC
  newRefval_regs := regs_decNewRefvalC
  factorValue := fun _ _ => rfl
  lastValues := fun _ _ _ => rfl

/-! ### encoder, uncompressed -/
macro "enc_close" : tactic => `(tactic| repeat (first | rfl | split))

theorem frame_encNumericU (dd a b c) (g : Regs → Regs) (s : St) :
    encNumericU dd a b c (s.setRegs g) = mapSt g (encNumericU dd a b c s) := by
  simp only [encNumericU]; frame_unfold
  cases nthVal (s.vals.headD []) s.idx with
  | error e => rfl
  | ok v =>
    simp only
    cases natWidth a with
    | error e => rfl
    | ok n =>
      simp only
      cases v <;> simp only <;> enc_close

theorem frame_encStringU (dd n) (g : Regs → Regs) (s : St) :
    encStringU dd n (s.setRegs g) = mapSt g (encStringU dd n s) := by
  simp only [encStringU]; frame_unfold
  cases nthVal (s.vals.headD []) s.idx with
  | error e => rfl
  | ok v => cases v <;> simp only <;> enc_close

theorem frame_encCodeflagU (dd n) (g : Regs → Regs) (s : St) :
    encCodeflagU dd n (s.setRegs g) = mapSt g (encCodeflagU dd n s) := by
  simp only [encCodeflagU]; frame_unfold
  cases nthVal (s.vals.headD []) s.idx with
  | error e => rfl
  | ok v => cases v <;> simp only <;> enc_close

theorem frame_encConstantU (dd v) (g : Regs → Regs) (s : St) :
    encConstantU dd v (s.setRegs g) = mapSt g (encConstantU dd v s) := by
  simp only [encConstantU]; frame_unfold
  cases nthVal (s.vals.headD []) s.idx with
  | error e => rfl
  | ok v => simp only; enc_close

theorem frame_encNewRefvalU (e n) (g : Regs → Regs) (s : St) (hg : NRcomm g) :
    encNewRefvalU e n (s.setRegs g) = mapSt g (encNewRefvalU e n s) := by
  simp only [encNewRefvalU]; frame_unfold
  cases nthVal (s.vals.headD []) s.idx with
  | error e => rfl
  | ok v =>
    cases v <;> simp only <;> try rfl
    next i =>
      cases fieldInt i n with
      | error e => rfl
      | ok f => simp only; rw [hg.push]

theorem regs_encNewRefvalU (e n) (s t : St) (h : encNewRefvalU e n s = .ok t) :
    ∃ v, t.regs = { s.regs with newRefvals := (e.id, v) :: s.regs.newRefvals } := by
  simp only [encNewRefvalU] at h; revert h; frame_unfold
  cases nthVal (s.vals.headD []) s.idx with
  | error e => intro h; cases h
  | ok v =>
    cases v <;> simp only <;> try (intro h; cases h)
    next i =>
      cases fieldInt i n with
      | error e => intro h; cases h
      | ok f => intro h; cases h; exact ⟨i, rfl⟩

theorem frame_encPrimsU : Frame encPrimsU where
  numeric := frame_encNumericU
  string := frame_encStringU
  codeflag := frame_encCodeflagU
  constant := frame_encConstantU
  newRefval := frame_encNewRefvalU
  newRefval_regs := regs_encNewRefvalU
  factorValue := fun _ _ => rfl
  lastValues := fun _ _ _ => rfl

/-! ### encoder, compressed -/
theorem frame_encNumericC (dd a b c) (g : Regs → Regs) (s : St) :
    encNumericC dd a b c (s.setRegs g) = mapSt g (encNumericC dd a b c s) := by
  simp only [encNumericC]; frame_unfold
  cases List.mapM (fun l => nthVal l s.idx) s.vals with
  | error e => rfl
  | ok vs =>
    cases vs with
    | nil => rfl
    | cons v0 rest =>
      simp only
      cases natWidth a with
      | error e => rfl
      | ok n => simp only; enc_close

theorem frame_encStringC (dd n) (g : Regs → Regs) (s : St) :
    encStringC dd n (s.setRegs g) = mapSt g (encStringC dd n s) := by
  simp only [encStringC]; frame_unfold
  cases List.mapM (fun l => nthVal l s.idx) s.vals with
  | error e => rfl
  | ok vs =>
    cases vs with
    | nil => rfl
    | cons v0 rest => simp only; enc_close

theorem frame_encCodeflagC (dd n) (g : Regs → Regs) (s : St) :
    encCodeflagC dd n (s.setRegs g) = mapSt g (encCodeflagC dd n s) := by
  simp only [encCodeflagC]; frame_unfold
  cases List.mapM (fun l => nthVal l s.idx) s.vals with
  | error e => rfl
  | ok vs =>
    cases vs with
    | nil => rfl
    | cons v0 rest => simp only; enc_close

theorem frame_encConstantC (dd v) (g : Regs → Regs) (s : St) :
    encConstantC dd v (s.setRegs g) = mapSt g (encConstantC dd v s) := by
  simp only [encConstantC]; frame_unfold
  cases List.mapM (fun l => nthVal l s.idx) s.vals with
  | error e => rfl
  | ok vs =>
    cases vs with
    | nil => rfl
    | cons v0 rest => simp only; enc_close

theorem frame_encNewRefvalC (e n) (g : Regs → Regs) (s : St) (hg : NRcomm g) :
    encNewRefvalC e n (s.setRegs g) = mapSt g (encNewRefvalC e n s) := by
  simp only [encNewRefvalC]; frame_unfold
  cases List.mapM (fun l => nthVal l s.idx) s.vals with
  | error e => rfl
  | ok vs =>
    cases vs with
    | nil => rfl
    | cons v0 rest =>
      simp only
      split
      · rfl
      · split <;> try rfl
        next i _ =>
          cases fieldInt i n with
          | error e => rfl
          | ok f =>
            simp only
            cases fieldUInt 0 6 with
            | error e => rfl
            | ok f2 => simp only; rw [hg.push]

theorem regs_encNewRefvalC (e n) (s t : St) (h : encNewRefvalC e n s = .ok t) :
    ∃ v, t.regs = { s.regs with newRefvals := (e.id, v) :: s.regs.newRefvals } := by
  simp only [encNewRefvalC] at h; revert h; frame_unfold
  cases List.mapM (fun l => nthVal l s.idx) s.vals with
  | error e => intro h; cases h
  | ok vs =>
    cases vs with
    | nil => intro h; cases h
    | cons v0 rest =>
      simp only
      split
      · intro h; cases h
      · split <;> try (intro h; cases h)
        next i _ =>
          cases fieldInt i n with
          | error e => intro h; cases h
          | ok f =>
            simp only
            cases fieldUInt 0 6 with
            | error e => intro h; cases h
            | ok f2 => intro h; cases h; exact ⟨i, rfl⟩

theorem frame_encPrimsC : Frame encPrimsC where
  numeric := frame_encNumericC
  string := frame_encStringC
  codeflag := frame_encCodeflagC
  constant := frame_encConstantC
  newRefval := frame_encNewRefvalC
  newRefval_regs := regs_encNewRefvalC
  factorValue := fun _ _ => rfl
  lastValues := fun _ _ _ => rfl

end Bufr.C08
