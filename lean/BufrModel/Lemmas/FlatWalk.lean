/-
  Lemmas relating the flat FM-94 reading (`Spec/FlatWalk.lean`) to the tree walk:
  the member prelude of `walk1` is `memberPrelude`, `flatWalk = buildD ; walkList` whenever the build
  succeeds, `wfCount` characterises exactly the success of `buildD`, monotonicity in the depth.
-/
import BufrModel.Spec.FlatWalk
import BufrModel.Lemmas.Sim
namespace Bufr.Flat
open Bufr Bufr.Spec

def elemOf : Desc → Option Elem
  | .elem e => some e
  | _ => none

theorem bind_eq_match {α β} (x : CM α) (f : α → CM β) :
    (x >>= f) = match x with | .error e => .error e | .ok a => f a := by
  cases x <;> rfl

theorem walk1Rest_rules (P : Prims) (d : Desc) (k : St → CM St) (s : St) :
    walk1Rest P d k s = memberRules P d.id (elemOf d) k s := by
  cases d <;> simp only [walk1Rest, memberRules, elemOf, Desc.id, bind_eq_match, pure, Except.pure]
  all_goals
    split
    · split <;> simp_all
    · split
      · split <;> split <;> simp_all
      · split <;> split <;> simp_all

theorem walk1_prelude (P : Prims) (d : Desc) (s : St) :
    walk1 P d s = memberPrelude P d.id (elemOf d) (walkDispatch P d) s := by
  rw [walk1_eq]
  unfold walk1K memberPrelude
  simp only [walk1Rest_rules]
  cases d <;> rfl

theorem bind_ok {α β} {x : CM α} {f : α → CM β} {b : β} (h : (x >>= f) = .ok b) :
    ∃ a, x = .ok a ∧ f a = .ok b := by
  cases x with
  | error e => cases h
  | ok a => exact ⟨a, rfl, h⟩

theorem pure_ok {α} {a b : α} (h : (pure a : CM α) = .ok b) : a = b := by
  cases h; rfl

theorem dispatch_undefSeq (P : Prims) (id : Nat) :
    walkDispatch P (.undefSeq id) = fun _ => .error .unknownDescr := rfl
theorem dispatch_undefElem (P : Prims) (id : Nat) :
    walkDispatch P (.undefElem id) = fun _ => .error .unknownDescr := rfl
theorem dispatch_op (P : Prims) (id : Nat) : walkDispatch P (.op id) = operatorDescriptor P id := rfl
theorem dispatch_elem (P : Prims) (e : Elem) :
    walkDispatch P (.elem e) = elementDescriptor P (.plain e) e := rfl
theorem dispatch_seq (P : Prims) (id : Nat) (ms : List Desc) :
    walkDispatch P (.seq id ms) = walkList P ms := rfl
theorem dispatch_fixed (P : Prims) (id : Nat) (ms : List Desc) :
    walkDispatch P (.fixedRep id ms) = iterN (yOf id) (walkList P ms) := rfl
theorem dispatch_delayed (P : Prims) (T : Tables) (id f : Nat) (ms : List Desc) :
    walkDispatch P (.delayedRep id (T.lookupB f) ms) = delayedAction P T f (walkList P ms) := by
  funext s
  unfold walkDispatch delayedAction Tables.lookupB
  cases T.b f <;> rfl

theorem flatWalk_eq_walk (P : Prims) (T : Tables) (depth : Nat) (ids : List Nat) :
    ∀ t, buildD T depth ids = .ok t → ∀ s, flatWalk P T depth ids s = walkList P t s := by
  fun_induction buildD T depth ids
  · intro t h s; cases h; rw [flatWalk.eq_def, walkList]
  · rename_i depth id rest h3 hd ih
    intro t h s
    obtain ⟨tl, htl, ht⟩ := bind_ok h
    cases pure_ok ht
    rw [flatWalk.eq_def]
    simp only [h3, if_true, hd]
    rw [walkList_cons, walk1_prelude]
    simp only [ih tl htl, Desc.id, elemOf, dispatch_undefSeq]
  · intro t h; cases h
  · rename_i id rest h3 row hd depth ih1 ih2
    intro t h s
    obtain ⟨ms, hms, h⟩ := bind_ok h
    obtain ⟨tl, htl, ht⟩ := bind_ok h
    cases pure_ok ht
    rw [flatWalk.eq_def]
    simp only [h3, if_true, hd]
    rw [walkList_cons, walk1_prelude]
    simp only [ih1 ms hms, ih2 tl htl, Desc.id, elemOf, dispatch_seq]
  · rename_i depth id rest h3 h2 ih
    intro t h s
    obtain ⟨tl, htl, ht⟩ := bind_ok h
    cases pure_ok ht
    rw [flatWalk.eq_def]
    simp only [h3, h2, if_true, if_false]
    rw [walkList_cons, walk1_prelude]
    simp only [ih tl htl, Desc.id, elemOf, dispatch_op]
  · intro t h; cases h
  · rename_i depth id h3 h2 h1 hy f rest ih1 ih2
    intro t h s
    obtain ⟨ms, hms, h⟩ := bind_ok h
    obtain ⟨tl, htl, ht⟩ := bind_ok h
    cases pure_ok ht
    rw [flatWalk.eq_def]
    have hy' : yOf id = 0 := hy
    simp only [h3, h2, h1, hy', if_true, if_false]
    rw [walkList_cons, walk1_prelude]
    simp only [ih1 ms hms, ih2 tl htl, Desc.id, elemOf, dispatch_delayed]
  · rename_i depth id rest h3 h2 h1 hy ih1 ih2
    intro t h s
    obtain ⟨ms, hms, h⟩ := bind_ok h
    obtain ⟨tl, htl, ht⟩ := bind_ok h
    cases pure_ok ht
    rw [flatWalk.eq_def]
    have hy' : ¬ yOf id = 0 := hy
    simp only [h3, h2, h1, hy', if_true, if_false]
    rw [walkList_cons, walk1_prelude]
    simp only [ih1 ms hms, ih2 tl htl, Desc.id, elemOf, dispatch_fixed]
  · rename_i depth id rest h3 h2 h1 ih
    intro t h s
    obtain ⟨tl, htl, ht⟩ := bind_ok h
    cases pure_ok ht
    rw [flatWalk.eq_def]
    simp only [h3, h2, h1, if_false]
    rw [walkList_cons, walk1_prelude]
    unfold Tables.lookupB
    cases hb : T.b id with
    | none =>
      simp only [ih tl htl, Desc.id, elemOf, dispatch_undefElem]
    | some e =>
      simp only [ih tl htl, Desc.id, elemOf, dispatch_elem]
end Bufr.Flat

namespace Bufr.Flat
open Bufr Bufr.Spec

/-- `buildD` is monotone in the depth: more depth never changes a successful result -/
theorem buildD_mono (T : Tables) (depth : Nat) (ids : List Nat) :
    ∀ t, buildD T depth ids = .ok t → ∀ d', depth ≤ d' → buildD T d' ids = .ok t := by
  fun_induction buildD T depth ids
  · intro t h d' _; cases h; rw [buildD.eq_def]
  · rename_i depth id rest h3 hd ih
    intro t h d' hle
    obtain ⟨tl, htl, ht⟩ := bind_ok h
    cases pure_ok ht
    rw [buildD.eq_def]
    simp only [h3, if_true, hd, ih tl htl d' hle]
    rfl
  · intro t h; cases h
  · rename_i id rest h3 row hd depth ih1 ih2
    intro t h d' hle
    obtain ⟨ms, hms, h⟩ := bind_ok h
    obtain ⟨tl, htl, ht⟩ := bind_ok h
    cases pure_ok ht
    obtain ⟨d'', rfl⟩ : ∃ d'', d' = d'' + 1 := ⟨d' - 1, by omega⟩
    rw [buildD.eq_def]
    simp only [h3, if_true, hd, ih1 ms hms d'' (by omega), ih2 tl htl (d'' + 1) hle]
    rfl
  · rename_i depth id rest h3 h2 ih
    intro t h d' hle
    obtain ⟨tl, htl, ht⟩ := bind_ok h
    cases pure_ok ht
    rw [buildD.eq_def]
    simp only [h3, h2, if_true, if_false, ih tl htl d' hle]
    rfl
  · intro t h; cases h
  · rename_i depth id h3 h2 h1 hy f rest ih1 ih2
    intro t h d' hle
    obtain ⟨ms, hms, h⟩ := bind_ok h
    obtain ⟨tl, htl, ht⟩ := bind_ok h
    cases pure_ok ht
    rw [buildD.eq_def]
    simp only [h3, h2, h1, hy, if_true, if_false, ih1 ms hms d' hle, ih2 tl htl d' hle]
    rfl
  · rename_i depth id rest h3 h2 h1 hy ih1 ih2
    intro t h d' hle
    obtain ⟨ms, hms, h⟩ := bind_ok h
    obtain ⟨tl, htl, ht⟩ := bind_ok h
    cases pure_ok ht
    rw [buildD.eq_def]
    simp only [h3, h2, h1, hy, if_true, if_false, ih1 ms hms d' hle, ih2 tl htl d' hle]
    rfl
  · rename_i depth id rest h3 h2 h1 ih
    intro t h d' hle
    obtain ⟨tl, htl, ht⟩ := bind_ok h
    cases pure_ok ht
    rw [buildD.eq_def]
    simp only [h3, h2, h1, if_false, ih tl htl d' hle]
    rfl

/-- `wfCount` is exactly "the implementation can build the template" -/
theorem wfCount_iff_build (T : Tables) (depth : Nat) (ids : List Nat) :
    wfCount T depth ids = true ↔ ∃ t, buildD T depth ids = .ok t := by
  fun_induction buildD T depth ids
  · rw [wfCount.eq_def]; exact ⟨fun _ => ⟨_, rfl⟩, fun _ => rfl⟩
  · rename_i depth id rest h3 hd ih
    rw [wfCount.eq_def]
    simp only [h3, if_true, hd, ih]
    constructor
    · rintro ⟨tl, htl⟩; exact ⟨_, by rw [htl]; rfl⟩
    · rintro ⟨t, h⟩; obtain ⟨tl, htl, _⟩ := bind_ok h; exact ⟨tl, htl⟩
  · rename_i id rest h3 row hd
    rw [wfCount.eq_def]
    simp only [h3, if_true, hd]
    constructor
    · intro h; cases h
    · rintro ⟨t, h⟩; cases h
  · rename_i id rest h3 row hd depth ih1 ih2
    rw [wfCount.eq_def]
    simp only [h3, if_true, hd, Bool.and_eq_true, ih1, ih2]
    constructor
    · rintro ⟨⟨ms, hms⟩, ⟨tl, htl⟩⟩; exact ⟨_, by rw [hms, htl]; rfl⟩
    · rintro ⟨t, h⟩
      obtain ⟨ms, hms, h⟩ := bind_ok h
      obtain ⟨tl, htl, _⟩ := bind_ok h
      exact ⟨⟨ms, hms⟩, ⟨tl, htl⟩⟩
  · rename_i depth id rest h3 h2 ih
    rw [wfCount.eq_def]
    simp only [h3, h2, if_true, if_false, ih]
    constructor
    · rintro ⟨tl, htl⟩; exact ⟨_, by rw [htl]; rfl⟩
    · rintro ⟨t, h⟩; obtain ⟨tl, htl, _⟩ := bind_ok h; exact ⟨tl, htl⟩
  · rename_i depth id h3 h2 h1 hy
    rw [wfCount.eq_def]
    have hy' : yOf id = 0 := hy
    simp only [h3, h2, h1, hy', if_true, if_false]
    constructor
    · intro h; cases h
    · rintro ⟨t, h⟩; cases h
  · rename_i depth id h3 h2 h1 hy f rest ih1 ih2
    rw [wfCount.eq_def]
    have hy' : yOf id = 0 := hy
    simp only [h3, h2, h1, hy', if_true, if_false, Bool.and_eq_true, ih1, ih2]
    constructor
    · rintro ⟨⟨ms, hms⟩, ⟨tl, htl⟩⟩; exact ⟨_, by rw [hms, htl]; rfl⟩
    · rintro ⟨t, h⟩
      obtain ⟨ms, hms, h⟩ := bind_ok h
      obtain ⟨tl, htl, _⟩ := bind_ok h
      exact ⟨⟨ms, hms⟩, ⟨tl, htl⟩⟩
  · rename_i depth id rest h3 h2 h1 hy ih1 ih2
    rw [wfCount.eq_def]
    have hy' : ¬ yOf id = 0 := hy
    simp only [h3, h2, h1, hy', if_true, if_false, Bool.and_eq_true, ih1, ih2]
    constructor
    · rintro ⟨⟨ms, hms⟩, ⟨tl, htl⟩⟩; exact ⟨_, by rw [hms, htl]; rfl⟩
    · rintro ⟨t, h⟩
      obtain ⟨ms, hms, h⟩ := bind_ok h
      obtain ⟨tl, htl, _⟩ := bind_ok h
      exact ⟨⟨ms, hms⟩, ⟨tl, htl⟩⟩
  · rename_i depth id rest h3 h2 h1 ih
    rw [wfCount.eq_def]
    simp only [h3, h2, h1, if_false, ih]
    constructor
    · rintro ⟨tl, htl⟩; exact ⟨_, by rw [htl]; rfl⟩
    · rintro ⟨t, h⟩; obtain ⟨tl, htl, _⟩ := bind_ok h; exact ⟨tl, htl⟩

theorem wfCount_mono {T : Tables} {depth d' : Nat} {ids : List Nat}
    (h : wfCount T depth ids = true) (hle : depth ≤ d') : wfCount T d' ids = true := by
  obtain ⟨t, ht⟩ := (wfCount_iff_build T depth ids).1 h
  exact (wfCount_iff_build T d' ids).2 ⟨t, buildD_mono T depth ids t ht d' hle⟩

theorem bind_assoc' {α β γ} (x : CM α) (f : α → CM β) (g : β → CM γ) :
    (x >>= f >>= g) = (x >>= fun a => f a >>= g) := by
  cases x <;> rfl

theorem flatWalk_append (P : Prims) (T : Tables) (fuel : Nat) (ids₁ ids₂ : List Nat) :
    scopesClosed ids₁ = true →
    ∀ s, flatWalk P T fuel (ids₁ ++ ids₂) s = (flatWalk P T fuel ids₁ s >>= flatWalk P T fuel ids₂) := by
  fun_induction scopesClosed ids₁
  · intro _ s; rw [flatWalk.eq_def P T fuel []]; rfl
  · intro h; cases h
  · rename_i id h1 hy f rest ih
    intro h s
    simp only [Bool.and_eq_true, decide_eq_true_eq] at h
    have h3 : ¬ 300000 ≤ id := by omega
    have h2 : ¬ 200000 ≤ id := by omega
    rw [flatWalk.eq_def P T fuel (id :: f :: rest), List.cons_append, List.cons_append, flatWalk.eq_def]
    simp only [h3, h2, h1.1, hy, if_true, if_false, List.take_append_of_le_length h.1,
      List.drop_append_of_le_length h.1, ih h.2, bind_assoc']
  · rename_i id rest h1 hy ih
    intro h s
    simp only [Bool.and_eq_true, decide_eq_true_eq] at h
    have h3 : ¬ 300000 ≤ id := by omega
    have h2 : ¬ 200000 ≤ id := by omega
    rw [flatWalk.eq_def P T fuel (id :: rest), List.cons_append, flatWalk.eq_def]
    simp only [h3, h2, h1.1, hy, if_true, if_false, List.take_append_of_le_length h.1,
      List.drop_append_of_le_length h.1, ih h.2, bind_assoc']
  · rename_i id rest h1 ih
    intro h s
    rw [flatWalk.eq_def P T fuel (id :: rest), List.cons_append, flatWalk.eq_def]
    by_cases h3 : 300000 ≤ id
    · simp only [h3, if_true]
      cases T.d id with
      | none => simp only [ih h, bind_assoc']
      | some row =>
        cases fuel with
        | zero => rfl
        | succ fuel' => simp only [ih h, bind_assoc']
    · by_cases h2 : 200000 ≤ id
      · simp only [h3, h2, if_true, if_false, ih h, bind_assoc']
      · have h1' : ¬ 100000 ≤ id := by omega
        simp only [h3, h2, h1', if_false]
        cases T.b id <;> simp only [ih h, bind_assoc']

/-- more fuel does not change the flat reading of a well-counted list -/
theorem flatWalk_fuel_mono (P : Prims) (T : Tables) {d fuel : Nat} {ids : List Nat}
    (h : wfCount T d ids = true) (hle : d ≤ fuel) (s : St) :
    flatWalk P T fuel ids s = flatWalk P T d ids s := by
  obtain ⟨t, ht⟩ := (wfCount_iff_build T d ids).1 h
  rw [flatWalk_eq_walk P T d ids t ht, flatWalk_eq_walk P T fuel ids t (buildD_mono T d ids t ht fuel hle)]

/-- no 221 count running, no 206 skip pending, no bitmap being defined -/
def NoPending (s : St) : Prop :=
  s.regs.dnpCount = 0 ∧ s.regs.nbitsSkipped = 0 ∧ s.regs.bitmapDef = .na

theorem memberPrelude_none {P : Prims} {s : St} (h : NoPending s) (id : Nat) (act : St → CM St) :
    memberPrelude P id none act s = act s := by
  obtain ⟨h1, h2, h3⟩ := h
  simp [memberPrelude, memberRules, bitmapDefinition, h1, h2, h3]

theorem memberPrelude_some {P : Prims} {s : St} (h : NoPending s) (h203 : s.regs.nbitsNewRefval = 0)
    (id : Nat) (e : Elem) (act : St → CM St) :
    memberPrelude P id (some e) act s = act s := by
  obtain ⟨h1, h2, h3⟩ := h
  simp [memberPrelude, memberRules, bitmapDefinition, h1, h2, h3, h203]

theorem scopesClosed_append (a b : List Nat) :
    scopesClosed a = true → scopesClosed b = true → scopesClosed (a ++ b) = true := by
  fun_induction scopesClosed a
  · intro _ hb; exact hb
  · intro h; cases h
  · rename_i id h1 hy f rest ih
    intro h hb
    simp only [Bool.and_eq_true, decide_eq_true_eq] at h
    rw [List.cons_append, List.cons_append, scopesClosed.eq_def]
    simp only [h1, hy, and_self, if_true, List.length_append, Bool.and_eq_true, decide_eq_true_eq,
      List.drop_append_of_le_length h.1, ih h.2 hb, and_true]
    omega
  · rename_i id rest h1 hy ih
    intro h hb
    simp only [Bool.and_eq_true, decide_eq_true_eq] at h
    rw [List.cons_append, scopesClosed.eq_def]
    simp only [h1, hy, and_self, if_true, if_false, List.length_append, Bool.and_eq_true, decide_eq_true_eq,
      List.drop_append_of_le_length h.1, ih h.2 hb, and_true]
    omega
  · rename_i id rest h1 ih
    intro h hb
    rw [List.cons_append, scopesClosed.eq_def]
    simp only [h1, if_false, ih h hb]

theorem scopesClosed_replicate (n : Nat) (body : List Nat) (h : scopesClosed body = true) :
    scopesClosed (List.replicate n body).flatten = true := by
  induction n with
  | zero => simp [scopesClosed]
  | succ n ih =>
    rw [List.replicate_succ, List.flatten_cons]
    exact scopesClosed_append _ _ h ih

theorem iterN_flat (P : Prims) (T : Tables) (f : Nat) (body : List Nat) (h : scopesClosed body = true)
    (n : Nat) (s : St) :
    iterN n (flatWalk P T f body) s = flatWalk P T f (List.replicate n body).flatten s := by
  induction n generalizing s with
  | zero => rw [flatWalk.eq_def]; rfl
  | succ n ih =>
    rw [List.replicate_succ, List.flatten_cons, flatWalk_append P T f _ _ h, iterN]
    cases flatWalk P T f body s with
    | error e => rfl
    | ok s' => exact ih s'

theorem fm94Strict_wf (T : Tables) (depth : Nat) (ids : List Nat) :
    fm94Strict T depth ids = true → wfCount T depth ids = true := by
  fun_induction wfCount T depth ids
  · intro _; rfl
  · rename_i depth id rest h3 hd ih
    rw [fm94Strict.eq_def]; simp only [h3, if_true, hd]; exact ih
  · rename_i id rest h3 row hd
    rw [fm94Strict.eq_def]; simp only [h3, if_true, hd]; intro h; cases h
  · rename_i id rest h3 row hd depth ih1 ih2
    rw [fm94Strict.eq_def]; simp only [h3, if_true, hd, Bool.and_eq_true]
    exact fun h => ⟨ih1 h.1, ih2 h.2⟩
  · rename_i depth id rest h3 h2 ih
    rw [fm94Strict.eq_def]; simp only [h3, h2, if_true, if_false, Bool.and_eq_true]
    exact fun h => ih h.2
  · rename_i depth id h3 h2 h1 hy
    rw [fm94Strict.eq_def]; simp only [h3, h2, h1, hy, if_true, if_false]; intro h; cases h
  · rename_i depth id h3 h2 h1 hy f rest ih1 ih2
    rw [fm94Strict.eq_def]; simp only [h3, h2, h1, hy, if_true, if_false, Bool.and_eq_true]
    exact fun h => ⟨ih1 h.1.2, ih2 h.2⟩
  · rename_i depth id rest h3 h2 h1 hy ih1 ih2
    rw [fm94Strict.eq_def]; simp only [h3, h2, h1, hy, if_true, if_false, Bool.and_eq_true]
    exact fun h => ⟨ih1 h.1.2, ih2 h.2⟩
  · rename_i depth id rest h3 h2 h1 ih
    rw [fm94Strict.eq_def]; simp only [h3, h2, h1, if_false]; exact ih

end Bufr.Flat
