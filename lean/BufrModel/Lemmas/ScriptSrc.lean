/-
  Helper lemmas for the source tie of C18 (`Props/C18Src.lean`): the Lean function that
  `harness/py2lean.py` generates from `pybufrkit/script.py process_embedded_query_expr`
  (`Gen/PyScript.lean`, regenerated on every check) against the hand-written model `Lang/Script.lean`.

  * `Rel`: the record of Python local variables represents a state `PS` of the model (the string kept in
    `state` is the tag of the model's `St`; `keep` / `query_expr` are lists of strings whose concatenation is
    the model's character list; `idx_var`, `substitutions` agree literally).
  * `body_step`: one iteration of the translated `while` body, at index `n` with `s.drop n = c :: rest`, does
    not raise, advances the index by `1 + k` (`k = 1` exactly when `${` was consumed) and represents the
    state from which the model's `go` continues on `rest.drop k`.
  * `loop_ok`: hence the fuelled loop ends without running out of fuel in a state that represents
    `go ps false (s.drop n)`.
-/
import BufrModel.Lang.Script
import BufrModel.Gen.PyScript
set_option linter.unusedSimpArgs false
namespace Bufr.Script
open PyGen.script PyGen.script.process_embedded_query_expr

theorem py_join_nil : ∀ xs : List (List Char), Py.join [] xs = xs.flatten
  | [] => rfl
  | [x] => by simp [Py.join]
  | x :: y :: r => by simp [Py.join, py_join_nil (y :: r)]

theorem py_strip_eq (s : List Char) : Py.strip s = trim s := rfl

theorem py_dictSetItem_absent {κ α : Type} [BEq κ] (d : List (κ × α)) (k : κ) (v : α)
    (h : d.lookup k = none) : Py.dictSetItem d k v = d ++ [(k, v)] := by
  induction d with
  | nil => rfl
  | cons p d ih =>
    obtain ⟨k', v'⟩ := p
    simp only [List.lookup] at h
    split at h
    · cases h
    · rename_i hk
      simp [Py.dictSetItem, hk, ih h]

/-- the string the Python code keeps in `state` for a state of the model -/
def stTag : St → List Char
  | .idle => STATE_IDLE
  | .embed => STATE_EMBEDDED_QUERY
  | .sq => STATE_SINGLE_QUOTE
  | .dq => STATE_DOUBLE_QUOTE
  | .comment => STATE_COMMENT

/-- the local variables of the translated function represent a state of the model -/
structure Rel (s : List Char) (v : Locals) (ps : PS) : Prop where
  inp : v.input_string = s
  st : v.state = stTag ps.st
  keep : v.keep.flatten = ps.keep
  idxVar : v.idx_var = ps.idxVar
  subs : v.substitutions = ps.subs
  expr : v.query_expr.flatten = ps.expr

theorem varName_eq (i : Nat) : (['P', 'B', 'K', '_'] ++ Py.strOfNat i) = varName i := rfl


theorem drop_get0 {s : List Char} {n : Nat} {c : Char} {rest : List Char} (hd : s.drop n = c :: rest) :
    s[n]? = some c := by
  have := congrArg (·[0]?) hd
  simpa using this

theorem drop_get1 {s : List Char} {n : Nat} {c : Char} {rest : List Char} (hd : s.drop n = c :: rest) :
    s[n + 1]? = rest.head? := by
  have := congrArg (·[1]?) hd
  cases rest <;> simpa using this

theorem drop_len {s : List Char} {n : Nat} {c : Char} {rest : List Char} (hd : s.drop n = c :: rest) :
    s.length = n + 1 + rest.length := by
  have := congrArg List.length hd
  simp at this
  omega

theorem strGet_ok {s : List Char} {n : Nat} {c : Char} (h : s[n]? = some c) : Py.strGetItemNat s n = .ok [c] := by
  unfold Py.strGetItemNat; rw [h]

/-- what one iteration of the translated loop has to establish -/
def StepOk (s : List Char) (ps : PS) (n : Nat) (c : Char) (rest : List Char) : Except Py.Exc Locals → Prop
  | .error _ => False
  | .ok v' => ∃ ps' k, Rel s v' ps' ∧ v'.idx_char = n + 1 + k ∧ k ≤ rest.length ∧
      go ps false (c :: rest) = go ps' false (rest.drop k)

theorem py_dictContains_eq {κ α : Type} [BEq κ] (d : List (κ × α)) (k : κ) :
    Py.dictContains d k = (d.lookup k).isSome := rfl

theorem py_dictGetItem_some {κ α : Type} [BEq κ] (d : List (κ × α)) (k : κ) (v : α) (h : d.lookup k = some v) :
    Py.dictGetItem d k = .ok v := by
  unfold Py.dictGetItem; rw [h]

theorem varName_cons (i : Nat) : 'P' :: 'B' :: 'K' :: '_' :: Py.strOfNat i = varName i := rfl

/-- closes the four remaining goals of a step that consumes one character -/
local macro "step1" P:term : tactic => `(tactic| (
  simp only [StepOk]
  refine ⟨$P, 0, ?_, by simp, by simp, ?_⟩
  · constructor <;> simp_all [stTag, STATE_IDLE, STATE_EMBEDDED_QUERY, STATE_SINGLE_QUOTE, STATE_DOUBLE_QUOTE,
      STATE_COMMENT, onQuote, keepChar, closeEmbed, varName_cons]
  · simp_all [go, onQuote, keepChar]))

/-- one iteration of the translated loop against the model's `go` -/
theorem body_step (s : List Char) (v : Locals) (ps : PS) (n : Nat) (c : Char) (rest : List Char)
    (hr : Rel s v ps) (hn : v.idx_char = n) (hd : s.drop n = c :: rest) :
    StepOk s ps n c rest (while_1.body v) := by
  obtain ⟨inp, keep, state, ic, iv, subs, qe, c0, s0, vn⟩ := v
  obtain ⟨st, pkeep, pidx, psubs, pexpr⟩ := ps
  obtain ⟨h1, h2, h3, h4, h5, h6⟩ := hr
  simp only at h1 h2 h3 h4 h5 h6 hn
  subst h1 h4 h5 hn
  have hget := strGet_ok (drop_get0 hd)
  have hlen := drop_len hd
  have hget1 := drop_get1 hd
  clear hd
  cases st with
  | embed =>
    simp only [stTag] at h2
    subst h2
    by_cases hc : c = '}'
    · subst hc
      cases hl : subs.lookup (trim pexpr) with
      | none =>
        simp [while_1.body, bind, Except.bind, pure, Except.pure, hget, STATE_EMBEDDED_QUERY, STATE_IDLE,
          py_join_nil, py_strip_eq, py_dictContains_eq, h6, hl]
        simp only [StepOk]
        refine ⟨⟨.idle, pkeep ++ varName iv, iv + 1, subs ++ [(trim pexpr, varName iv)], []⟩, 0, ?_, by simp, by simp, ?_⟩
        · constructor <;> simp [stTag, STATE_IDLE, h3, varName_cons, py_dictSetItem_absent _ _ _ hl]
        · simp [go, closeEmbed, hl]
      | some w =>
        simp [while_1.body, bind, Except.bind, pure, Except.pure, hget, STATE_EMBEDDED_QUERY, STATE_IDLE,
          py_join_nil, py_strip_eq, py_dictContains_eq, h6, hl, py_dictGetItem_some _ _ _ hl]
        simp only [StepOk]
        refine ⟨⟨.idle, pkeep ++ w, iv, subs, []⟩, 0, ?_, by simp, by simp, ?_⟩
        · constructor <;> simp [stTag, STATE_IDLE, h3]
        · simp [go, closeEmbed, hl]
    · simp [while_1.body, bind, Except.bind, pure, Except.pure, hget, hc, STATE_EMBEDDED_QUERY]
      step1 (⟨.embed, pkeep, iv, subs, pexpr ++ [c]⟩ : PS)
  | idle =>
    simp only [stTag] at h2
    subst h2
    by_cases q1 : c = '\''
    · subst q1
      simp [while_1.body, bind, Except.bind, pure, Except.pure, hget, STATE_EMBEDDED_QUERY, STATE_IDLE]
      step1 (onQuote ⟨.idle, pkeep, iv, subs, pexpr⟩ '\'')
    by_cases q2 : c = '"'
    · subst q2
      simp [while_1.body, bind, Except.bind, pure, Except.pure, hget, STATE_EMBEDDED_QUERY, STATE_IDLE]
      step1 (onQuote ⟨.idle, pkeep, iv, subs, pexpr⟩ '"')
    by_cases q3 : c = '$'
    · subst q3
      cases rest with
      | nil =>
        have hlt : ¬ ic + 1 < inp.length := by simp at hlen; omega
        simp [while_1.body, bind, Except.bind, pure, Except.pure, hget, STATE_EMBEDDED_QUERY, STATE_IDLE, hlt]
        step1 (keepChar ⟨.idle, pkeep, iv, subs, pexpr⟩ '$')
      | cons d r =>
        have hlt : ic + 1 < inp.length := by simp at hlen; omega
        simp only [List.head?_cons] at hget1
        have hg1 := strGet_ok hget1
        by_cases hb : d = '{'
        · subst hb
          simp [while_1.body, bind, Except.bind, pure, Except.pure, hget, STATE_EMBEDDED_QUERY, STATE_IDLE, hlt, hg1]
          simp only [StepOk]
          refine ⟨⟨.embed, pkeep, iv, subs, pexpr⟩, 1, ?_, by simp, by simp, ?_⟩
          · constructor <;> simp [stTag, STATE_EMBEDDED_QUERY, h3, h6]
          · simp [go]
        · simp [while_1.body, bind, Except.bind, pure, Except.pure, hget, STATE_EMBEDDED_QUERY, STATE_IDLE, hlt, hg1, hb]
          step1 (keepChar ⟨.idle, pkeep, iv, subs, pexpr⟩ '$')
    by_cases q4 : c = '#'
    · subst q4
      simp [while_1.body, bind, Except.bind, pure, Except.pure, hget, STATE_EMBEDDED_QUERY, STATE_IDLE, STATE_COMMENT]
      step1 ({ keepChar ⟨.idle, pkeep, iv, subs, pexpr⟩ '#' with st := .comment } : PS)
    · simp [while_1.body, bind, Except.bind, pure, Except.pure, hget, STATE_EMBEDDED_QUERY, STATE_IDLE, STATE_COMMENT,
        q1, q2, q3, q4]
      step1 (keepChar ⟨.idle, pkeep, iv, subs, pexpr⟩ c)
  | sq =>
    simp only [stTag] at h2
    subst h2
    by_cases q1 : c = '\''
    · subst q1
      simp [while_1.body, bind, Except.bind, pure, Except.pure, hget, STATE_EMBEDDED_QUERY, STATE_IDLE, STATE_SINGLE_QUOTE]
      step1 (onQuote ⟨.sq, pkeep, iv, subs, pexpr⟩ '\'')
    by_cases q2 : c = '"'
    · subst q2
      simp [while_1.body, bind, Except.bind, pure, Except.pure, hget, STATE_EMBEDDED_QUERY, STATE_IDLE, STATE_SINGLE_QUOTE]
      step1 (onQuote ⟨.sq, pkeep, iv, subs, pexpr⟩ '"')
    · simp [while_1.body, bind, Except.bind, pure, Except.pure, hget, STATE_EMBEDDED_QUERY, STATE_IDLE, STATE_COMMENT,
        STATE_SINGLE_QUOTE, q1, q2]
      step1 (keepChar ⟨.sq, pkeep, iv, subs, pexpr⟩ c)
  | dq =>
    simp only [stTag] at h2
    subst h2
    by_cases q1 : c = '\''
    · subst q1
      simp [while_1.body, bind, Except.bind, pure, Except.pure, hget, STATE_EMBEDDED_QUERY, STATE_IDLE, STATE_DOUBLE_QUOTE]
      step1 (onQuote ⟨.dq, pkeep, iv, subs, pexpr⟩ '\'')
    by_cases q2 : c = '"'
    · subst q2
      simp [while_1.body, bind, Except.bind, pure, Except.pure, hget, STATE_EMBEDDED_QUERY, STATE_IDLE, STATE_DOUBLE_QUOTE]
      step1 (onQuote ⟨.dq, pkeep, iv, subs, pexpr⟩ '"')
    · simp [while_1.body, bind, Except.bind, pure, Except.pure, hget, STATE_EMBEDDED_QUERY, STATE_IDLE, STATE_COMMENT,
        STATE_DOUBLE_QUOTE, q1, q2]
      step1 (keepChar ⟨.dq, pkeep, iv, subs, pexpr⟩ c)
  | comment =>
    simp only [stTag] at h2
    subst h2
    by_cases q1 : c = '\''
    · subst q1
      simp [while_1.body, bind, Except.bind, pure, Except.pure, hget, STATE_EMBEDDED_QUERY, STATE_IDLE, STATE_COMMENT]
      step1 (onQuote ⟨.comment, pkeep, iv, subs, pexpr⟩ '\'')
    by_cases q2 : c = '"'
    · subst q2
      simp [while_1.body, bind, Except.bind, pure, Except.pure, hget, STATE_EMBEDDED_QUERY, STATE_IDLE, STATE_COMMENT]
      step1 (onQuote ⟨.comment, pkeep, iv, subs, pexpr⟩ '"')
    by_cases q5 : c = '\n'
    · subst q5
      simp [while_1.body, bind, Except.bind, pure, Except.pure, hget, STATE_EMBEDDED_QUERY, STATE_IDLE, STATE_COMMENT]
      step1 ({ keepChar ⟨.comment, pkeep, iv, subs, pexpr⟩ '\n' with st := .idle } : PS)
    · simp [while_1.body, bind, Except.bind, pure, Except.pure, hget, STATE_EMBEDDED_QUERY, STATE_IDLE, STATE_COMMENT,
        q1, q2, q5]
      step1 (keepChar ⟨.comment, pkeep, iv, subs, pexpr⟩ c)

/-- the translated loop, started in a state that represents `ps` at index `n`, ends (the fuel suffices) in a
    state that represents what the model's `go` computes from there -/
theorem loop_ok (s : List Char) : ∀ (fuel : Nat) (v : Locals) (ps : PS) (n : Nat),
    Rel s v ps → v.idx_char = n → n ≤ s.length → s.length - n < fuel →
    ∃ v', while_1.loop fuel v = .ok v' ∧ Rel s v' (go ps false (s.drop n)) := by
  intro fuel
  induction fuel with
  | zero => intro v ps n _ _ _ h; omega
  | succ fuel ih =>
    intro v ps n hr hn hle hf
    by_cases hlt : n < s.length
    · have hd : s.drop n = s[n] :: s.drop (n + 1) := List.drop_eq_getElem_cons hlt
      have hstep := body_step s v ps n s[n] (s.drop (n + 1)) hr hn hd
      have hcond : while_1.cond v = true := by simp [while_1.cond, hn, hr.inp, hlt]
      cases hb : while_1.body v with
      | error e => rw [hb] at hstep; exact hstep.elim
      | ok v1 =>
        rw [hb] at hstep
        obtain ⟨ps', k, hr', hidx, hk, hgo⟩ := hstep
        have hk' : k ≤ s.length - (n + 1) := by simpa using hk
        obtain ⟨v', hl, hr''⟩ := ih v1 ps' (n + 1 + k) hr' hidx (by omega) (by omega)
        refine ⟨v', ?_, ?_⟩
        · simp [while_1.loop, hcond, hb, hl]
        · rw [hd, hgo, List.drop_drop]
          exact hr''
    · have hn' : n = s.length := by omega
      have hcond : while_1.cond v = false := by simp [while_1.cond, hn, hr.inp, hn']
      refine ⟨v, by simp [while_1.loop, hcond], ?_⟩
      subst hn'
      simpa [go] using hr


end Bufr.Script
