/-
  C07: the encoder's primitives record (`Rec`), uncompressed and compressed: the value of an item is the
  value the encoder took from the caller's list at that index.
-/
import BufrModel.Lemmas.LinkSpecFinal
namespace Bufr.C07
open Bufr.Spec

/-- the values consumed so far (of the first subset) -/
def encV (s : St) : List Val := (curVals s).take s.idx
/-- the value index does not exceed the number of values supplied -/
def encX (s : St) : Prop := s.idx ≤ (curVals s).length
/-- ... and the values supplied for the first subset are `vs` -/
def encXv (vs : List Val) (s : St) : Prop := encX s ∧ curVals s = vs

theorem encV_setRegs (s : St) (f : Regs → Regs) : encV (s.setRegs f) = encV s := rfl
theorem encV_addLink (s : St) (o : Nat) : encV (addLink s o) = encV s := rfl

/-- what every value primitive of the encoder does to the state, apart from the bits (and, for 203YYY, `regs`) -/
structure EncStep (s s' : St) (dd : DDesc) (v : Val) : Prop where
  descs : s'.descs = dd :: s.descs
  links : s'.links = s.links
  vals : s'.vals = s.vals
  idx : s'.idx = s.idx + 1
  val : (curVals s)[s.idx]? = some v

theorem EncStep.encV {s s' : St} {dd : DDesc} {v : Val} (h : EncStep s s' dd v) : encV s' = encV s ++ [v] := by
  unfold C07.encV curVals
  rw [h.vals, h.idx, List.take_add_one]
  have := h.val
  unfold curVals at this
  rw [this]; rfl

theorem EncStep.encXv {s s' : St} {dd : DDesc} {v : Val} (h : EncStep s s' dd v) (vs : List Val) :
    encXv vs s → encXv vs s' := by
  intro hx
  refine ⟨?_, ?_⟩
  · unfold C07.encX curVals
    rw [h.vals, h.idx]
    have := (List.getElem?_eq_some_iff.mp h.val).1
    unfold curVals at this
    omega
  · unfold curVals; rw [h.vals]; exact hx.2

theorem EncStep.encX {s s' : St} {dd : DDesc} {v : Val} (h : EncStep s s' dd v) : encX s → encX s' := by
  intro _
  unfold C07.encX curVals
  rw [h.vals, h.idx]
  have := (List.getElem?_eq_some_iff.mp h.val).1
  unfold curVals at this
  omega

theorem write_shape (s : St) (f : CM Bits) (s' : St) (h : s.write f = .ok s') : ∃ b, s' = { s with bits := b } := by
  unfold St.write at h
  split at h
  · cases h
  · injection h with h; exact ⟨_, h.symm⟩

theorem nthVal_some (l : List Val) (i : Nat) (v : Val) (h : nthVal l i = .ok v) : l[i]? = some v := by
  unfold nthVal at h
  split at h
  · cases h
  · next w hw => injection h with h; rw [hw, h]

theorem nextVal_shape (s : St) (v : Val) (s1 : St) (h : nextVal s = .ok (v, s1)) :
    s1 = { s with idx := s.idx + 1 } ∧ (curVals s)[s.idx]? = some v := by
  unfold nextVal at h
  simp only [bind, Except.bind, pure, Except.pure] at h
  cases hn : nthVal (curVals s) s.idx with
  | error e => simp [hn] at h
  | ok w =>
    simp only [hn] at h
    injection h with h
    injection h with h1 h2
    subst h1
    exact ⟨h2.symm, nthVal_some _ _ _ hn⟩

/-- value primitives that go through `nextVal (s.pushDesc dd)` and then only write bits -/
theorem encStep_of {s s1 s' : St} {dd : DDesc} {v : Val} (h1 : nextVal (s.pushDesc dd) = .ok (v, s1))
    (h2 : ∃ b, s' = { s1 with bits := b }) : EncStep s s' dd v ∧ s'.regs = s.regs := by
  obtain ⟨e1, hv⟩ := nextVal_shape _ _ _ h1
  obtain ⟨b, e2⟩ := h2
  subst e2; subst e1
  exact ⟨⟨rfl, rfl, rfl, rfl, hv⟩, rfl⟩

theorem encNumericU_step (dd : DDesc) (n sc r : Int) (s s' : St) (h : encNumericU dd n sc r s = .ok s') :
    ∃ v, EncStep s s' dd v ∧ s'.regs = s.regs := by
  unfold encNumericU at h
  simp only [bind, Except.bind] at h
  cases h1 : nextVal (s.pushDesc dd) with
  | error e => simp [h1] at h
  | ok p =>
    obtain ⟨v, s1⟩ := p
    simp only [h1] at h
    cases hw : natWidth n with
    | error e => simp [hw] at h
    | ok w =>
      simp only [hw] at h
      refine ⟨v, encStep_of h1 ?_⟩
      split at h
      · exact write_shape _ _ _ h
      · cases hq : quantise v sc with
        | error e => simp [hq] at h
        | ok q => simp only [hq] at h; exact write_shape _ _ _ h

theorem encStringU_step (dd : DDesc) (n : Nat) (s s' : St) (h : encStringU dd n s = .ok s') :
    ∃ v, EncStep s s' dd v ∧ s'.regs = s.regs := by
  unfold encStringU at h
  simp only [bind, Except.bind] at h
  cases h1 : nextVal (s.pushDesc dd) with
  | error e => simp [h1] at h
  | ok p =>
    obtain ⟨v, s1⟩ := p
    simp only [h1] at h
    refine ⟨v, encStep_of h1 ?_⟩
    split at h
    · exact write_shape _ _ _ h
    · exact write_shape _ _ _ h
    · cases h

theorem encCodeflagU_step (dd : DDesc) (n : Nat) (s s' : St) (h : encCodeflagU dd n s = .ok s') :
    ∃ v, EncStep s s' dd v ∧ s'.regs = s.regs := by
  unfold encCodeflagU at h
  simp only [bind, Except.bind] at h
  cases h1 : nextVal (s.pushDesc dd) with
  | error e => simp [h1] at h
  | ok p =>
    obtain ⟨v, s1⟩ := p
    simp only [h1] at h
    refine ⟨v, encStep_of h1 ?_⟩
    split at h
    · exact write_shape _ _ _ h
    · exact write_shape _ _ _ h
    · cases h

theorem encConstantU_step (dd : DDesc) (c : Int) (s s' : St) (h : encConstantU dd c s = .ok s') :
    ∃ v, EncStep s s' dd v ∧ s'.regs = s.regs := by
  unfold encConstantU at h
  simp only [bind, Except.bind, pure, Except.pure] at h
  cases hn : nthVal (curVals s) s.idx with
  | error e => simp [hn] at h
  | ok w =>
    simp only [hn] at h
    split at h
    · cases h
    · injection h with h; subst h
      exact ⟨w, ⟨rfl, rfl, rfl, rfl, nthVal_some _ _ _ hn⟩, rfl⟩

theorem encNewRefvalU_step (e : Elem) (n : Nat) (s s' : St) (h : encNewRefvalU e n s = .ok s') :
    ∃ v, EncStep s s' (.plain e) v := by
  unfold encNewRefvalU at h
  simp only [bind, Except.bind] at h
  cases h1 : nextVal (s.pushDesc (.plain e)) with
  | error err => simp [h1] at h
  | ok p =>
    obtain ⟨v, s1⟩ := p
    simp only [h1] at h
    obtain ⟨e1, hv⟩ := nextVal_shape _ _ _ h1
    split at h
    · next i =>
      obtain ⟨b, e2⟩ := write_shape _ _ _ h
      subst e2; subst e1
      exact ⟨_, rfl, rfl, rfl, rfl, hv⟩
    · cases h

theorem same_of_step {s s' : St} {dd : DDesc} {v : Val} (h : EncStep s s' dd v) (hr : s'.regs = s.regs) : Same s s' dd :=
  ⟨h.descs, h.links, hr⟩

theorem encLastValues_spec (k : Nat) (s : St) (l : List Val) (h : encLastValues k s = .ok l) (_hk : 1 ≤ k)
    (_hl : k ≤ (encV s).length) (vs : List Val) (hx : encXv vs s) : l = Spec.lastN k (encV s) := by
  unfold encLastValues at h
  injection h with h
  subst h
  unfold Spec.lastN C07.encV
  rw [List.length_take, Nat.min_eq_left hx.1]

theorem encPrimsU_quiet : Quiet encPrimsU where
  numeric := fun dd n sc r s s' h => let ⟨_, a, b⟩ := encNumericU_step dd n sc r s s' h; same_of_step a b
  string := fun dd n s s' h => let ⟨_, a, b⟩ := encStringU_step dd n s s' h; same_of_step a b
  codeflag := fun dd n s s' h => let ⟨_, a, b⟩ := encCodeflagU_step dd n s s' h; same_of_step a b
  constant := fun dd c s s' h => let ⟨_, a, b⟩ := encConstantU_step dd c s s' h; same_of_step a b

theorem encPrimsU_rec (vs : List Val) : Rec encPrimsU encV (encXv vs) where
  quiet := encPrimsU_quiet
  numeric := fun dd n sc r s s' h => let ⟨v, a, _⟩ := encNumericU_step dd n sc r s s' h; ⟨v, a.encV⟩
  string := fun dd n s s' h => let ⟨v, a, _⟩ := encStringU_step dd n s s' h; ⟨v, a.encV⟩
  codeflag := fun dd n s s' h => let ⟨v, a, _⟩ := encCodeflagU_step dd n s s' h; ⟨v, a.encV⟩
  constant := fun dd c s s' h => let ⟨v, a, _⟩ := encConstantU_step dd c s s' h; ⟨v, a.encV⟩
  newRefval := fun e n s s' h => let ⟨v, a⟩ := encNewRefvalU_step e n s s' h; ⟨a.descs, v, a.encV⟩
  lastValues := fun k s l h hk hl hx => encLastValues_spec k s l h hk hl vs hx
  numericL := fun dd n sc r s s' h => let ⟨_, a, _⟩ := encNumericU_step dd n sc r s s' h; by rw [a.vals]
  stringL := fun dd n s s' h => let ⟨_, a, _⟩ := encStringU_step dd n s s' h; by rw [a.vals]
  codeflagL := fun dd n s s' h => let ⟨_, a, _⟩ := encCodeflagU_step dd n s s' h; by rw [a.vals]
  constantL := fun dd c s s' h => let ⟨_, a, _⟩ := encConstantU_step dd c s s' h; by rw [a.vals]
  newRefvalL := fun e n s s' h => let ⟨_, a⟩ := encNewRefvalU_step e n s s' h; by rw [a.vals]
  numericX := fun dd n sc r s s' h => let ⟨_, a, _⟩ := encNumericU_step dd n sc r s s' h; a.encXv vs
  stringX := fun dd n s s' h => let ⟨_, a, _⟩ := encStringU_step dd n s s' h; a.encXv vs
  codeflagX := fun dd n s s' h => let ⟨_, a, _⟩ := encCodeflagU_step dd n s s' h; a.encXv vs
  constantX := fun dd c s s' h => let ⟨_, a, _⟩ := encConstantU_step dd c s s' h; a.encXv vs
  newRefvalX := fun e n s s' h => let ⟨_, a⟩ := encNewRefvalU_step e n s s' h; a.encXv vs
  setRegs := encV_setRegs
  addLink := encV_addLink
  setRegsX := fun _ _ x => x
  addLinkX := fun _ _ x => x

end Bufr.C07
