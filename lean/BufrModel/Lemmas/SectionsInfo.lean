/-
  Lemmas for C17 (metadata-only decoding): the metadata-only run of the section loop against the full run
  (`infoSections`), and the opacity of the skipped data extent.
-/
import BufrModel.Msg.Sections
import BufrModel.Lemmas.Bits
import BufrModel.Lemmas.Sections
import BufrModel.Lemmas.SectionsDec
namespace Bufr

/-- a decoded section cut before its template-data entry -/
def DecSection.cutData (sec : DecSection) : DecSection :=
  { sec with params := sec.params.takeWhile (fun q => q.2 != PVal.data) }

/-- what a metadata-only decode returns, in terms of the sections of the full decode: the sections up to
    the data section, the data section cut before the template data, nothing after it -/
def infoSections : List DecSection → List DecSection
  | [] => []
  | sec :: rest =>
    if sec.params.any (fun q => q.2 == PVal.data) then [sec.cutData] else sec :: infoSections rest

/-- width of the parameters before the template data (the header of the data section) -/
def SectionLayout.headerBits (s : SectionLayout) : Nat := (s.infoOnly.params.map (·.nbits)).sum

namespace SecInfo

/-! ### lists -/

theorem all_takeWhile' {β : Type} (p : β → Bool) (l : List β) : (l.takeWhile p).all p = true := by
  induction l with
  | nil => rfl
  | cons a l ih =>
    by_cases h : p a = true
    · simp only [List.takeWhile_cons, h, if_true, List.all_cons, ih, Bool.and_self]
    · simp only [List.takeWhile_cons, h, if_false, List.all_nil, Bool.false_eq_true]

theorem takeWhile_append_stop {β : Type} (p : β → Bool) (l : List β) (a : β) (m : List β)
    (hl : l.all p = true) (ha : p a = false) : (l ++ a :: m).takeWhile p = l := by
  induction l with
  | nil => simp only [List.nil_append, List.takeWhile_cons, ha, Bool.false_eq_true, if_false]
  | cons b l ih =>
    simp only [List.all_cons, Bool.and_eq_true] at hl
    simp only [List.cons_append, List.takeWhile_cons, hl.1, if_true, ih hl.2]

theorem lookup_append_of_key {β : Type} (k : String) (l m : List (String × β)) (h : k ∈ l.map (·.1)) :
    (l ++ m).lookup k = l.lookup k := by
  induction l with
  | nil => simp at h
  | cons a l ih =>
    obtain ⟨k', v'⟩ := a
    simp only [List.cons_append, List.lookup]
    split
    · rfl
    · rename_i hne
      apply ih
      simp only [List.map_cons, List.mem_cons] at h
      rcases h with h | h
      · subst h; simp at hne
      · exact h

theorem dropWhile_head {β : Type} (p : β → Bool) (l : List β) (h : l.any (fun a => !p a) = true) :
    ∃ a m, l.dropWhile p = a :: m ∧ p a = false := by
  induction l with
  | nil => simp at h
  | cons b l ih =>
    by_cases hb : p b = true
    · simp only [List.any_cons, hb, Bool.not_true, Bool.false_or] at h
      obtain ⟨a, m, h1, h2⟩ := ih h
      exact ⟨a, m, by simp only [List.dropWhile_cons, hb, if_true, h1], h2⟩
    · simp only [Bool.not_eq_true] at hb
      exact ⟨b, l, by simp only [List.dropWhile_cons, hb, Bool.false_eq_true, if_false], hb⟩

theorem infoSections_sum_le (l : List DecSection) :
    ((infoSections l).map (·.nbits)).sum ≤ (l.map (·.nbits)).sum := by
  induction l with
  | nil => simp [infoSections]
  | cons s l ih =>
    simp only [infoSections]
    split
    · simp [DecSection.cutData]
    · simp only [List.map_cons, List.sum_cons]; omega

/-! ### the layout transformers -/

/-- `ignore_value_expectation` on one parameter -/
def unx (ie : Bool) (p : Param) : Param := if ie then { p with expected := none } else p

@[simp] theorem unx_name (ie : Bool) (p : Param) : (unx ie p).name = p.name := by cases ie <;> rfl
@[simp] theorem unx_nbits (ie : Bool) (p : Param) : (unx ie p).nbits = p.nbits := by cases ie <;> rfl
@[simp] theorem unx_ty (ie : Bool) (p : Param) : (unx ie p).ty = p.ty := by cases ie <;> rfl
@[simp] theorem unx_asProperty (ie : Bool) (p : Param) : (unx ie p).asProperty = p.asProperty := by cases ie <;> rfl

theorem transform_params (o : DecOpts) (s : SectionLayout) :
    (o.transform s).params = (if o.infoOnly then s.infoOnly else s).params.map (unx o.ignoreExpect) := by
  unfold DecOpts.transform
  cases o.ignoreExpect
  · simp only [Bool.false_eq_true, if_false]
    have : unx false = id := by funext p; rfl
    rw [this, List.map_id]
  · simp only [if_true, SectionLayout.noExpect]
    rfl

theorem infoOnly_optional (s : SectionLayout) : s.infoOnly.optional = s.optional := by
  unfold SectionLayout.infoOnly; split <;> rfl

theorem infoOnly_index (s : SectionLayout) : s.infoOnly.index = s.index := by
  unfold SectionLayout.infoOnly; split <;> rfl

theorem transform_optional (o : DecOpts) (s : SectionLayout) : (o.transform s).optional = s.optional := by
  unfold DecOpts.transform
  cases o.ignoreExpect <;> cases o.infoOnly <;>
    simp only [Bool.false_eq_true, if_false, if_true, SectionLayout.noExpect, infoOnly_optional]

theorem transform_index (o : DecOpts) (s : SectionLayout) : (o.transform s).index = s.index := by
  unfold DecOpts.transform
  cases o.ignoreExpect <;> cases o.infoOnly <;>
    simp only [Bool.false_eq_true, if_false, if_true, SectionLayout.noExpect, infoOnly_index]

theorem transform_end (o : DecOpts) (s : SectionLayout) :
    (o.transform s).endOfMessage = (if o.infoOnly then s.infoOnly else s).endOfMessage := by
  unfold DecOpts.transform
  cases o.ignoreExpect <;> simp only [Bool.false_eq_true, if_false, if_true, SectionLayout.noExpect]

theorem isPresent_transform (o : DecOpts) (reg : Registry) (s : SectionLayout) (idx : Nat) :
    isPresent reg (o.transform s) idx = isPresent reg s idx := by
  simp only [isPresent, transform_optional]

/-! ### reader combinators, inversion -/

theorem bind_ok {α β : Type} {f : R α} {g : α → R β} {x : Bits} {b : β} {r : Bits}
    (h : R.bind f g x = .ok (b, r)) : ∃ a r1, f x = .ok (a, r1) ∧ g a r1 = .ok (b, r) := by
  simp only [R.bind] at h
  split at h
  · cases h
  · rename_i a r1 hf; exact ⟨a, r1, hf, h⟩

theorem map_ok {α β : Type} {f : R α} {g : α → β} {x : Bits} {b : β} {r : Bits}
    (h : R.map g f x = .ok (b, r)) : ∃ a, f x = .ok (a, r) ∧ b = g a := by
  obtain ⟨a, r1, hf, hg⟩ := bind_ok h
  simp only [R.pure] at hg
  cases hg
  exact ⟨a, hf, rfl⟩

theorem readBits_len {n : Nat} {x a r : Bits} (h : readBits n x = .ok (a, r)) : x.length = n + r.length := by
  simp only [readBits] at h
  split at h
  · cases h
  · cases h; simp only [List.length_drop]; omega

theorem readUInt_len {n : Nat} {x : Bits} {a : Nat} {r : Bits} (h : readUInt n x = .ok (a, r)) :
    x.length = n + r.length := by
  simp only [readUInt] at h
  split at h
  · cases h
  split at h
  · cases h
  · rename_i hb; cases h; exact readBits_len hb

theorem readBool_len {x : Bits} {a : Bool} {r : Bits} (h : readBool x = .ok (a, r)) : x.length = 1 + r.length := by
  cases x with
  | nil => simp only [readBool] at h; cases h
  | cons b bs => simp only [readBool] at h; cases h; simp only [List.length_cons]; omega

theorem readInt_len {n : Nat} {x : Bits} {a : Int} {r : Bits} (h : readInt n x = .ok (a, r)) :
    x.length = n + r.length := by
  simp only [readInt] at h
  split at h
  · cases h
  rename_i hn
  split at h
  · cases h
  rename_i s r1 hs
  split at h
  · cases h
  rename_i m r2 hm
  cases h
  have h1 := readBool_len hs
  have h2 := readUInt_len hm
  omega

theorem readBytes_len {k : Nat} {x : Bits} {a : List UInt8} {r : Bits} (h : readBytes k x = .ok (a, r)) :
    x.length = 8 * k + r.length := by
  simp only [readBytes] at h
  split at h
  · cases h
  · rename_i hb; cases h; exact readBits_len hb

/-- a fixed-width read consumes exactly the declared width -/
theorem readTyped_len {p : Param} (hw : p.widthOK = true) {x : Bits} {v : PVal} {r : Bits}
    (h : readTyped p.ty p.nbits x = .ok (v, r)) : x.length = p.nbits + r.length := by
  unfold Param.widthOK at hw
  cases hty : p.ty <;> rw [hty] at h hw <;> simp only [readTyped] at h
  · obtain ⟨a, ha, _⟩ := map_ok h; exact readUInt_len ha
  · obtain ⟨a, ha, _⟩ := map_ok h; exact readInt_len ha
  · obtain ⟨a, ha, _⟩ := map_ok h
    simp only [beq_iff_eq] at hw
    rw [hw]; exact readBool_len ha
  · obtain ⟨a, ha, _⟩ := map_ok h; exact readBits_len ha
  · obtain ⟨a, ha, _⟩ := map_ok h
    have := readBytes_len ha
    simp only [beq_iff_eq] at hw
    omega
  · simp only [R.fail] at h; cases h
  · simp only [R.fail] at h; cases h

/-- `bit_reader.read` never produces the template-data marker -/
theorem readTyped_nodata {ty : PType} {n : Nat} {x : Bits} {v : PVal} {r : Bits}
    (h : readTyped ty n x = .ok (v, r)) : v ≠ PVal.data := by
  cases ty <;> simp only [readTyped] at h
  · obtain ⟨a, _, rfl⟩ := map_ok h; exact PVal.noConfusion
  · obtain ⟨a, _, rfl⟩ := map_ok h; exact PVal.noConfusion
  · obtain ⟨a, _, rfl⟩ := map_ok h; exact PVal.noConfusion
  · obtain ⟨a, _, rfl⟩ := map_ok h; exact PVal.noConfusion
  · obtain ⟨a, _, rfl⟩ := map_ok h; exact PVal.noConfusion
  · simp only [R.fail] at h; cases h
  · simp only [R.fail] at h; cases h

/-- the shape of `decValue` on a parameter that is neither descriptors nor template data -/
theorem decValue_typed {α : Type} (dc : DataCoder α) (st : DecSt α) (p : Param) (h1 : p.ty ≠ .templateData)
    (h2 : p.ty ≠ .descriptors) :
    decValue dc st p =
      if p.nbits = 0 then
        if p.ty = .bool then R.map (fun v => (v, none)) (readTyped p.ty 0)
        else R.bind (R.lift (secLen st.acc)) fun d =>
          if d * 8 < st.used then R.fail .lib
          else R.map (fun v => (v, none)) (readTyped p.ty (d * 8 - st.used))
      else R.map (fun v => (v, none)) (readTyped p.ty p.nbits) := by
  unfold decValue
  split
  · rename_i hp; exact absurd hp h2
  · rename_i hp; exact absurd hp h1
  · rfl

/-- only a template-data parameter decodes to the template-data marker, and only it sets the data -/
theorem decValue_nodata {α : Type} {dc : DataCoder α} {st : DecSt α} {p : Param} (hty : p.ty ≠ .templateData)
    {x : Bits} {v : PVal} {d : Option α} {r : Bits} (h : decValue dc st p x = .ok ((v, d), r)) :
    v ≠ PVal.data ∧ d = none := by
  by_cases hd : p.ty = .descriptors
  · simp only [decValue, hd] at h
    obtain ⟨dd, r1, _, h2⟩ := bind_ok h
    obtain ⟨a, _, ha⟩ := map_ok h2
    cases ha
    exact ⟨PVal.noConfusion, rfl⟩
  · rw [decValue_typed dc st p hty hd] at h
    split at h
    · split at h
      · obtain ⟨a, ha, hb⟩ := map_ok h
        cases hb; exact ⟨readTyped_nodata ha, rfl⟩
      · obtain ⟨dd, r1, _, h2⟩ := bind_ok h
        split at h2
        · simp only [R.fail] at h2; cases h2
        · obtain ⟨a, ha, hb⟩ := map_ok h2
          cases hb; exact ⟨readTyped_nodata ha, rfl⟩
    · obtain ⟨a, ha, hb⟩ := map_ok h
      cases hb; exact ⟨readTyped_nodata ha, rfl⟩

/-- a fixed-width parameter consumes exactly its declared width -/
theorem decValue_len {α : Type} {dc : DataCoder α} {st : DecSt α} {p : Param} (hty : p.ty ≠ .templateData)
    (hn : p.nbits ≠ 0) (hw : p.widthOK = true)
    {x : Bits} {v : PVal} {d : Option α} {r : Bits} (h : decValue dc st p x = .ok ((v, d), r)) :
    x.length = p.nbits + r.length := by
  have hd : p.ty ≠ .descriptors := by
    intro hp
    unfold Param.widthOK at hw
    rw [hp] at hw
    simp only [beq_iff_eq] at hw
    exact hn hw
  rw [decValue_typed dc st p hty hd] at h
  simp only [hn, if_false] at h
  obtain ⟨a, ha, _⟩ := map_ok h
  exact readTyped_len hw ha

/-! ### the parameters of a section -/

/-- the data component after one parameter -/
def orData {α : Type} (d old : Option α) : Option α := match d with | some a => some a | none => old

/-- one step of `decParams`, inverted -/
theorem decParams_cons_ok {α : Type} {dc : DataCoder α} {start : Nat} {p : Param} {ps : List Param} {off : Nat}
    {st st' : DecSt α} {x r : Bits} (h : decParams dc start (p :: ps) off st x = .ok (st', r)) :
    ∃ v d r1, decValue dc st p x = .ok ((v, d), r1) ∧ checkExpected p v = .ok () ∧
      decParams dc start ps (off + p.nbits)
        { reg := if p.asProperty then (p.name, { val := v, nbits := p.nbits, pos := start + off }) :: st.reg
                 else st.reg,
          acc := st.acc ++ [(p.name, v)],
          used := st.used + (x.length - r1.length),
          data := orData d st.data } r1 = .ok (st', r) := by
  simp only [decParams] at h
  obtain ⟨⟨⟨v, d⟩, n⟩, r1, hc, h2⟩ := bind_ok h
  obtain ⟨u, r2, hl, h3⟩ := bind_ok h2
  obtain ⟨hce, hr⟩ := lift_ok hl
  subst hr
  simp only [R.counted] at hc
  split at hc
  · cases hc
  rename_i a r3 hv
  cases hc
  refine ⟨v, d, _, hv, hce, ?_⟩
  rw [← h3]
  cases d <;> rfl

/-- one step of `decParams`, forwards -/
theorem decParams_cons_run {α : Type} {dc : DataCoder α} {start : Nat} {p : Param} {ps : List Param} {off : Nat}
    {st : DecSt α} {x r1 : Bits} {v : PVal} {d : Option α} (hv : decValue dc st p x = .ok ((v, d), r1))
    (hce : checkExpected p v = .ok ()) :
    decParams dc start (p :: ps) off st x =
      decParams dc start ps (off + p.nbits)
        { reg := if p.asProperty then (p.name, { val := v, nbits := p.nbits, pos := start + off }) :: st.reg
                 else st.reg,
          acc := st.acc ++ [(p.name, v)],
          used := st.used + (x.length - r1.length),
          data := orData d st.data } r1 := by
  simp only [decParams, R.bind, R.counted, hv, hce, R.lift, R.pure]
  cases d <;> rfl

theorem decParams_append {α : Type} (dc : DataCoder α) (start : Nat) :
    ∀ (ps qs : List Param) (off : Nat) (st : DecSt α) (x : Bits),
      decParams dc start (ps ++ qs) off st x =
        match decParams dc start ps off st x with
        | .error e => .error e
        | .ok (st', r) => decParams dc start qs (off + (ps.map (·.nbits)).sum) st' r := by
  intro ps
  induction ps with
  | nil => intro qs off st x; simp only [List.nil_append, decParams, R.pure, List.map_nil, List.sum_nil, Nat.add_zero]
  | cons p ps ih =>
    intro qs off st x
    cases hv : decValue dc st p x with
    | error e => simp only [List.cons_append, decParams, R.bind, R.counted, hv]
    | ok res =>
      obtain ⟨⟨v, d⟩, r1⟩ := res
      cases hce : checkExpected p v with
      | error e => simp only [List.cons_append, decParams, R.bind, R.counted, hv, hce, R.lift, R.fail]
      | ok u =>
        cases u
        rw [List.cons_append, decParams_cons_run hv hce, decParams_cons_run hv hce, ih]
        simp only [List.map_cons, List.sum_cons, Nat.add_assoc]

/-- `decParams` only appends to the record of the section; parameters other than the template data
    never yield the template-data marker and leave the data alone -/
theorem decParams_acc {α : Type} (dc : DataCoder α) (start : Nat) :
    ∀ (ps : List Param) (off : Nat) (st : DecSt α) (x : Bits) (st' : DecSt α) (r : Bits),
      decParams dc start ps off st x = .ok (st', r) →
      ∃ ext, st'.acc = st.acc ++ ext ∧ ext.map (·.1) = ps.map (·.name) ∧
        (ps.all (·.ty != .templateData) = true → ext.all (fun q => q.2 != PVal.data) = true ∧ st'.data = st.data) := by
  intro ps
  induction ps with
  | nil =>
    intro off st x st' r h
    simp only [decParams, R.pure] at h
    cases h
    exact ⟨[], by simp, rfl, fun _ => ⟨rfl, rfl⟩⟩
  | cons p ps ih =>
    intro off st x st' r h
    obtain ⟨v, d, r1, hv, hce, h3⟩ := decParams_cons_ok h
    obtain ⟨ext, h1, h2, h4⟩ := ih _ _ _ _ _ h3
    refine ⟨(p.name, v) :: ext, by rw [h1]; simp, by simp [h2], fun hall => ?_⟩
    simp only [List.all_cons, Bool.and_eq_true, bne_iff_ne, ne_eq] at hall
    obtain ⟨hnd, hdn⟩ := decValue_nodata hall.1 hv
    obtain ⟨h5, h6⟩ := h4 hall.2
    subst hdn
    refine ⟨?_, h6⟩
    simp only [List.all_cons, h5, Bool.and_true, bne_iff_ne, ne_eq]
    exact hnd

/-- fixed-width parameters consume exactly the sum of their widths -/
theorem decParams_len {α : Type} (dc : DataCoder α) (start : Nat) :
    ∀ (ps : List Param), (∀ p ∈ ps, p.ty ≠ .templateData ∧ p.nbits ≠ 0 ∧ p.widthOK = true) →
      ∀ (off : Nat) (st : DecSt α) (x : Bits) (st' : DecSt α) (r : Bits),
      decParams dc start ps off st x = .ok (st', r) → x.length = (ps.map (·.nbits)).sum + r.length := by
  intro ps
  induction ps with
  | nil =>
    intro _ off st x st' r h
    simp only [decParams, R.pure] at h
    cases h
    simp
  | cons p ps ih =>
    intro hall off st x st' r h
    obtain ⟨v, d, r1, hv, hce, h3⟩ := decParams_cons_ok h
    have hp := hall p List.mem_cons_self
    have h1 := decValue_len hp.1 hp.2.1 hp.2.2 hv
    have h2 := ih (fun q hq => hall q (List.mem_cons_of_mem _ hq)) _ _ _ _ _ h3
    simp only [List.map_cons, List.sum_cons]
    omega

/-- parameters other than the template data are decoded without the data reader -/
theorem decParams_coder {α : Type} (dc dc' : DataCoder α) (start : Nat) :
    ∀ (ps : List Param), ps.all (·.ty != .templateData) = true → ∀ (off : Nat) (st : DecSt α),
      decParams dc start ps off st = decParams dc' start ps off st := by
  intro ps
  induction ps with
  | nil => intro _ off st; rfl
  | cons p ps ih =>
    intro hall off st
    simp only [List.all_cons, Bool.and_eq_true, bne_iff_ne, ne_eq] at hall
    have hv : decValue dc st p = decValue dc' st p := by
      unfold decValue
      cases hty : p.ty <;> first | rfl | exact absurd hty hall.1
    have ih' := ih (by simpa using hall.2)
    simp only [decParams, hv, ih']

/-! ### layouts with template data -/

/-- no metadata-only layout has a template-data parameter -/
theorem infoOnly_no_data (s : SectionLayout) : s.infoOnly.params.all (·.ty != .templateData) = true := by
  unfold SectionLayout.infoOnly
  split
  · exact all_takeWhile' _ _
  · rename_i h
    simp only [Bool.not_eq_true, List.any_eq_false, beq_iff_eq] at h
    simp only [List.all_eq_true, bne_iff_ne, ne_eq]
    exact h

theorem infoOnly_of_no_data (s : SectionLayout) (h : s.params.any (·.ty == .templateData) = false) :
    s.infoOnly = s := by
  simp only [SectionLayout.infoOnly, h, Bool.false_eq_true, if_false]

theorem zeroLast_init {s : SectionLayout} (h : s.zeroLast = true) {a : List Param} {b : Param} {c : List Param}
    (hp : s.params = a ++ b :: c) : ∀ p ∈ a, p.nbits ≠ 0 := by
  unfold SectionLayout.zeroLast at h
  rw [hp] at h
  simp only [List.reverse_append, List.reverse_cons] at h
  cases hc : c.reverse with
  | nil =>
    rw [hc] at h
    simp only [List.nil_append, List.cons_append, List.all_eq_true, List.mem_reverse, bne_iff_ne, ne_eq] at h
    exact h
  | cons y ys =>
    rw [hc] at h
    simp only [List.cons_append, List.all_eq_true, List.mem_append, List.mem_reverse, bne_iff_ne, ne_eq] at h
    intro p hpa
    exact h p (Or.inr hpa)

/-- a well-formed layout with template data: fixed-width parameters headed by the section length, then the
    template data -/
theorem wf_data_layout {s : SectionLayout} (h : s.WF = true) (hd : s.params.any (·.ty == .templateData) = true) :
    ∃ pd post, s.params = s.infoOnly.params ++ pd :: post ∧ pd.ty = .templateData ∧
      s.infoOnly.endOfMessage = true ∧
      (∀ p ∈ s.infoOnly.params, p.ty ≠ .templateData ∧ p.nbits ≠ 0 ∧ p.widthOK = true) ∧
      s.infoOnly.hasParam "section_length" = true := by
  have hinfo : s.infoOnly.params = s.params.takeWhile (·.ty != .templateData) := by
    simp only [SectionLayout.infoOnly, hd, if_true]
  have hend : s.infoOnly.endOfMessage = true := by
    simp only [SectionLayout.infoOnly, hd, if_true]
  have hany : s.params.any (fun p => !(p.ty != .templateData)) = true := by
    rw [← hd]; congr 1; funext p; cases p.ty <;> rfl
  obtain ⟨pd, post, hdw, hpd⟩ := dropWhile_head (fun p : Param => p.ty != .templateData) s.params hany
  have hpd' : pd.ty = .templateData := by simpa using hpd
  have hsplit : s.params = s.infoOnly.params ++ pd :: post := by
    rw [hinfo, ← hdw, List.takeWhile_append_dropWhile]
  have hwf := h
  simp only [SectionLayout.WF, Bool.and_eq_true] at hwf
  obtain ⟨⟨⟨⟨⟨_, hw⟩, hz⟩, h4⟩, hlf⟩, _⟩ := hwf
  have hwall : ∀ p ∈ s.params, p.widthOK = true := by simpa [List.all_eq_true] using hw
  have hpdmem : pd ∈ s.params := by rw [hsplit]; simp
  have hpd0 : pd.nbits = 0 := by
    have := hwall pd hpdmem
    unfold Param.widthOK at this
    rw [hpd'] at this
    simpa using this
  have hhas : s.hasParam "section_length" = true := by
    rcases Bool.or_eq_true _ _ |>.mp h4 with h4 | h4
    · simp only [List.all_eq_true, bne_iff_ne, ne_eq] at h4
      exact absurd hpd0 (h4 pd hpdmem)
    · exact h4
  obtain ⟨p0, ps, hps, hn0, _, hty0⟩ := lenFirst_cons hlf hhas
  have hall := infoOnly_no_data s
  simp only [List.all_eq_true, bne_iff_ne, ne_eq] at hall
  refine ⟨pd, post, hsplit, hpd', hend, fun p hp => ⟨hall p hp, zeroLast_init hz hsplit p hp, ?_⟩, ?_⟩
  · exact hwall p (by rw [hsplit]; exact List.mem_append_left _ hp)
  · have hp0 : (p0.ty != PType.templateData) = true := by rw [hty0]; rfl
    simp only [SectionLayout.hasParam, hinfo, hps, List.takeWhile_cons, hp0, if_true, List.any_cons, hn0, beq_self_eq_true,
      Bool.true_or]

/-! ### closing a section -/

theorem finishSection_ok {α : Type} {s : SectionLayout} (hh : s.hasParam "section_length" = true) {st : DecSt α}
    {x : Bits} {sec : DecSection} {reg' : Registry} {d' : Option α} {r : Bits}
    (h : finishSection s st x = .ok ((sec, reg', d'), r)) :
    ∃ d, secLen st.acc = .ok d ∧ st.used ≤ d * 8 ∧ d * 8 - st.used ≤ x.length ∧
      sec = { index := s.index, params := st.acc, nbits := d * 8 } ∧ reg' = st.reg ∧ d' = st.data ∧
      r = x.drop (d * 8 - st.used) := by
  unfold finishSection at h
  simp only [hh, if_true] at h
  obtain ⟨d, r1, hl, h2⟩ := bind_ok h
  obtain ⟨hd, hr⟩ := lift_ok hl
  subst hr
  refine ⟨d, hd, ?_⟩
  split at h2
  · rename_i hlt
    obtain ⟨bits, hb, hres⟩ := map_ok h2
    cases hres
    simp only [readBin, readBits] at hb
    split at hb
    · cases hb
    · cases hb
      exact ⟨by omega, by omega, rfl, rfl, rfl, rfl⟩
  · split at h2
    · simp only [R.fail] at h2; cases h2
    · rename_i h1 h3
      simp only [R.pure] at h2
      cases h2
      have : st.used = d * 8 := by omega
      refine ⟨by omega, by omega, by rw [this], rfl, rfl, ?_⟩
      rw [this]; simp

theorem finishSection_skip {α : Type} {s : SectionLayout} (hh : s.hasParam "section_length" = true) {st : DecSt α}
    {d : Nat} (hd : secLen st.acc = .ok d) (hu : st.used ≤ d * 8) (x : Bits) (hx : d * 8 - st.used ≤ x.length) :
    finishSection s st x =
      .ok (({ index := s.index, params := st.acc, nbits := d * 8 }, st.reg, st.data), x.drop (d * 8 - st.used)) := by
  unfold finishSection
  simp only [hh, if_true, R.bind, hd, R.lift, R.pure]
  split
  · have : ¬ (x.length < d * 8 - st.used) := by omega
    simp only [R.map, R.bind, readBin, readBits, this, if_false, R.pure]
  · have h1 : st.used = d * 8 := by omega
    simp only [h1, Nat.lt_irrefl, if_false, Nat.sub_self, List.drop_zero, R.pure]

/-! ### one section: the metadata-only run against the full run -/

theorem hasParam_key {s : SectionLayout} {k : String} (h : s.hasParam k = true) : k ∈ s.params.map (·.name) := by
  simp only [SectionLayout.hasParam, List.any_eq_true, beq_iff_eq] at h
  obtain ⟨p, hp, hk⟩ := h
  exact List.mem_map.mpr ⟨p, hp, hk⟩

/-- the data section: the full run decodes the cut parameters, the template data and whatever follows and
    closes the section at its declared end; the run over the cut layout decodes the same cut parameters
    and skips to the same declared end -/
theorem decSection_cut {α : Type} (dc : DataCoder α) (hdc : ∀ reg, Local (dc.dec reg)) (s si : SectionLayout)
    (pd : Param) (post : List Param) (hs : s.params = si.params ++ pd :: post) (hpd : pd.ty = .templateData)
    (hidx : si.index = s.index) (hlen : si.hasParam "section_length" = true)
    (hpre : si.params.all (·.ty != .templateData) = true)
    (reg : Registry) (start : Nat) (x : Bits) (sec : DecSection) (reg' : Registry) (d' : Option α) (r : Bits)
    (h : decSection dc s reg start x = .ok ((sec, reg', d'), r)) :
    sec.params.any (fun q => q.2 == PVal.data) = true ∧
    ∃ regi ri, decSection dc si reg start x = .ok ((sec.cutData, regi, none), ri) := by
  simp only [decSection] at h
  obtain ⟨st3, r3, hps, hfin⟩ := bind_ok h
  rw [hs, decParams_append] at hps
  cases h1 : decParams dc start si.params 0 { reg := reg, acc := [], used := 0, data := none } x with
  | error e => rw [h1] at hps; cases hps
  | ok res =>
  obtain ⟨st1, r1⟩ := res
  rw [h1] at hps
  simp only at hps
  obtain ⟨v, d, r2, hv, hce, h3⟩ := decParams_cons_ok hps
  simp only [decValue, hpd] at hv
  obtain ⟨a, hdec, hvd⟩ := map_ok hv
  cases hvd
  obtain ⟨p2, hr1, _⟩ := hdc st1.reg r1 a r2 hdec
  obtain ⟨p3, hr2, hu3, _, _⟩ := decParams_local dc hdc start _ _ _ _ _ _ h3
  simp only at hu3
  obtain ⟨ext1, hacc1, hn1, hnd1⟩ := decParams_acc dc start _ _ _ _ _ _ h1
  obtain ⟨hnd1, hdata1⟩ := hnd1 hpre
  simp only [List.nil_append] at hacc1
  obtain ⟨ext3, hacc3, _, _⟩ := decParams_acc dc start _ _ _ _ _ _ h3
  simp only at hacc3 hdata1
  have hh : s.hasParam "section_length" = true := by
    simp only [SectionLayout.hasParam] at hlen ⊢
    rw [hs, List.any_append, hlen, Bool.true_or]
  have hkey : "section_length" ∈ st1.acc.map (·.1) := by rw [hacc1, hn1]; exact hasParam_key hlen
  have hsl : secLen st3.acc = secLen st1.acc := by
    unfold secLen
    rw [hacc3, List.append_assoc, lookup_append_of_key _ _ _ hkey]
  obtain ⟨dl, hd, hule, hxl, hsec, hreg, hdd, hr⟩ := finishSection_ok hh hfin
  rw [hsl] at hd
  have hr1l : r1.length = p2.length + p3.length + r3.length := by
    rw [hr1, hr2]; simp only [List.length_append]; omega
  have hr12 : r1.length - r2.length = p2.length := by
    rw [hr1]; simp only [List.length_append]; omega
  have hparams : st3.acc = st1.acc ++ (pd.name, PVal.data) :: ext3 := by
    rw [hacc3, List.append_assoc]; rfl
  constructor
  · rw [hsec]
    simp only [hparams, List.any_append, List.any_cons, beq_self_eq_true, Bool.true_or, Bool.or_true]
  · have hcut : sec.cutData = { index := si.index, params := st1.acc, nbits := dl * 8 } := by
      rw [hsec, hidx]
      simp only [DecSection.cutData, hparams]
      rw [takeWhile_append_stop _ _ _ _ (by rw [hacc1]; exact hnd1) (by rfl)]
    refine ⟨st1.reg, r1.drop (dl * 8 - st1.used), ?_⟩
    simp only [decSection, R.bind, h1]
    rw [finishSection_skip hlen hd (by omega) r1 (by omega), hcut, hdata1]

/-- the cut data section: the fixed-width parameters, then an opaque extent up to the declared end -/
theorem decSection_opaque {α : Type} (dc : DataCoder α) (hdc : ∀ reg, Local (dc.dec reg)) (si : SectionLayout)
    (hfix : ∀ p ∈ si.params, p.ty ≠ .templateData ∧ p.nbits ≠ 0 ∧ p.widthOK = true)
    (hlen : si.hasParam "section_length" = true)
    (reg : Registry) (start : Nat) (x : Bits) (sec : DecSection) (reg' : Registry) (d' : Option α) (r : Bits)
    (h : decSection dc si reg start x = .ok ((sec, reg', d'), r)) :
    ∃ pre a, x = pre ++ a ++ r ∧ pre.length = (si.params.map (·.nbits)).sum ∧ a.length + pre.length = sec.nbits ∧
      ∀ a' t', a'.length = a.length → decSection dc si reg start (pre ++ a' ++ t') = .ok ((sec, reg', d'), t') := by
  simp only [decSection] at h
  obtain ⟨st1, r1, hps, hfin⟩ := bind_ok h
  obtain ⟨p1, hx, hu1, _, hp1⟩ := decParams_local dc hdc start _ _ _ _ _ _ hps
  have hl := decParams_len dc start _ hfix _ _ _ _ _ hps
  simp only [Nat.zero_add] at hu1
  obtain ⟨dl, hd, hule, hxl, hsec, hreg, hdd, hr⟩ := finishSection_ok hlen hfin
  have hp1l : p1.length = (si.params.map (·.nbits)).sum := by
    rw [hx] at hl; simp only [List.length_append] at hl; omega
  refine ⟨p1, r1.take (dl * 8 - st1.used), ?_, hp1l, ?_, fun a' t' ha' => ?_⟩
  · rw [hx, hr, List.append_assoc, List.take_append_drop]
  · rw [hsec]; simp only [List.length_take]; omega
  · simp only [List.length_take] at ha'
    have hal : a'.length = dl * 8 - st1.used := by omega
    simp only [decSection, R.bind, List.append_assoc, hp1 (a' ++ t')]
    rw [finishSection_skip hlen hd hule (a' ++ t') (by simp only [List.length_append]; omega), hsec, hreg, hdd,
      ← hal, List.drop_left]

/-! ### the section loop -/

theorem transform_hasParam (o : DecOpts) (s : SectionLayout) (k : String) :
    (o.transform s).hasParam k = (if o.infoOnly then s.infoOnly else s).hasParam k := by
  simp only [SectionLayout.hasParam, transform_params, List.any_map]
  congr 1
  funext p
  simp only [Function.comp, unx_name]

theorem transform_info_no_data (ie : Bool) (s : SectionLayout) :
    (({ infoOnly := true, ignoreExpect := ie } : DecOpts).transform s).params.all (·.ty != .templateData) = true := by
  have h := infoOnly_no_data s
  simp only [List.all_eq_true] at h
  simp only [transform_params, if_true, List.all_map, List.all_eq_true, Function.comp, unx_ty]
  exact h

theorem transform_full_no_data (ie : Bool) (s : SectionLayout) (h : s.params.any (·.ty == .templateData) = false) :
    (({ infoOnly := false, ignoreExpect := ie } : DecOpts).transform s).params.all (·.ty != .templateData) = true := by
  simp only [List.any_eq_false, beq_iff_eq] at h
  simp only [transform_params, Bool.false_eq_true, if_false, List.all_map, List.all_eq_true, Function.comp, unx_ty,
    bne_iff_ne, ne_eq]
  exact h

theorem transform_same (ie : Bool) (s : SectionLayout) (h : s.params.any (·.ty == .templateData) = false) :
    ({ infoOnly := true, ignoreExpect := ie } : DecOpts).transform s =
    ({ infoOnly := false, ignoreExpect := ie } : DecOpts).transform s := by
  simp only [DecOpts.transform, infoOnly_of_no_data s h, if_true, Bool.false_eq_true, if_false]

/-- a section over a layout without template data: no template-data marker, no data -/
theorem decSection_nodata {α : Type} (dc : DataCoder α) (s : SectionLayout)
    (hs : s.params.all (·.ty != .templateData) = true)
    (reg : Registry) (start : Nat) (x : Bits) (sec : DecSection) (reg' : Registry) (d' : Option α) (r : Bits)
    (h : decSection dc s reg start x = .ok ((sec, reg', d'), r)) :
    sec.params.any (fun q => q.2 == PVal.data) = false ∧ d' = none := by
  simp only [decSection] at h
  obtain ⟨st, r1, hps, hfin⟩ := bind_ok h
  obtain ⟨ext, hacc, _, hnd⟩ := decParams_acc dc start _ _ _ _ _ _ hps
  obtain ⟨hnd, hdata⟩ := hnd hs
  simp only [List.nil_append] at hacc
  simp only at hdata
  have hres : sec.params = st.acc ∧ d' = st.data := by
    unfold finishSection at hfin
    split at hfin
    · obtain ⟨d, r2, _, h2⟩ := bind_ok hfin
      split at h2
      · obtain ⟨bits, _, hres⟩ := map_ok h2
        cases hres; exact ⟨rfl, rfl⟩
      · split at h2
        · simp only [R.fail] at h2; cases h2
        · simp only [R.pure] at h2; cases h2; exact ⟨rfl, rfl⟩
    · simp only [R.pure] at hfin; cases hfin; exact ⟨rfl, rfl⟩
  rw [hres.1, hres.2, hacc, hdata]
  refine ⟨?_, rfl⟩
  simp only [List.all_eq_true, bne_iff_ne, ne_eq] at hnd
  simp only [List.any_eq_false, beq_iff_eq]
  exact hnd

/-- **the section loop, metadata-only against full**, in lockstep from the same state -/
theorem decLoop_info {α : Type} (L : Layouts) (hL : L.WF = true) (dc : DataCoder α)
    (hdc : ∀ reg, Local (dc.dec reg)) (ie : Bool) :
    ∀ (fuel idx : Nat) (reg : Registry) (out outi : DecOut α) (x : Bits) (out' : DecOut α) (r : Bits),
      outi.nbits = out.nbits →
      decLoop L dc { infoOnly := false, ignoreExpect := ie } fuel idx reg out x = .ok (out', r) →
      ∃ news outi' ri, out'.sections = out.sections ++ news ∧
        decLoop L dc { infoOnly := true, ignoreExpect := ie } fuel idx reg outi x = .ok (outi', ri) ∧
        outi'.sections = outi.sections ++ infoSections news ∧
        outi'.nbits = outi.nbits + ((infoSections news).map (·.nbits)).sum ∧ outi'.data = outi.data := by
  intro fuel
  induction fuel with
  | zero => intro idx reg out outi x out' r _ h; simp only [decLoop, R.fail] at h; cases h
  | succ fuel ih =>
    intro idx reg out outi x out' r hnb h
    simp only [decLoop] at h
    obtain ⟨s0, r1, hl1, hb⟩ := bind_ok h
    clear h
    obtain ⟨hcfg, hr1⟩ := lift_ok hl1
    subst hr1
    obtain ⟨present, r2, hl2, h⟩ := bind_ok hb
    clear hb
    obtain ⟨hpres, hr2⟩ := lift_ok hl2
    subst hr2
    rw [isPresent_transform] at hpres
    have hpresi : isPresent reg (({ infoOnly := true, ignoreExpect := ie } : DecOpts).transform s0) idx = .ok present := by
      rw [isPresent_transform]; exact hpres
    cases present with
    | false =>
      simp only [Bool.not_false, if_true] at h
      obtain ⟨news, outi', ri, h1, h2, h3⟩ := ih _ _ _ outi _ _ _ hnb h
      refine ⟨news, outi', ri, h1, ?_, h3⟩
      simp only [decLoop, R.bind, hcfg, R.lift, R.pure, hpresi, Bool.not_false, if_true, h2]
    | true =>
      simp only [Bool.not_true, Bool.false_eq_true, if_false] at h
      obtain ⟨⟨sec, reg1, d⟩, r3, hsec, hb⟩ := bind_ok h
      clear h
      have h := hb
      clear hb
      simp only at h
      by_cases hd : s0.params.any (·.ty == .templateData) = true
      · -- the data section
        obtain ⟨e, he, hel, _⟩ := getCfg_mem hcfg
        have hwf : s0.WF = true := by rw [← hel]; exact wf_all hL e he
        obtain ⟨pd, post, hsplit, hpd, hend, hfix, hlen⟩ := wf_data_layout hwf hd
        have hs : (({ infoOnly := false, ignoreExpect := ie } : DecOpts).transform s0).params =
            (({ infoOnly := true, ignoreExpect := ie } : DecOpts).transform s0).params ++
              unx ie pd :: post.map (unx ie) := by
          simp only [transform_params, Bool.false_eq_true, if_false, if_true]
          conv => lhs; rw [hsplit]
          simp only [List.map_append, List.map_cons]
        obtain ⟨hany, regi, ri, hseci⟩ := decSection_cut dc hdc _ _ _ _ hs (by rw [unx_ty]; exact hpd)
          (by rw [transform_index, transform_index]) (by rw [transform_hasParam]; exact hlen)
          (transform_info_no_data ie s0) _ _ _ _ _ _ _ hsec
        have hnews : ∃ news2, out'.sections = out.sections ++ sec :: news2 := by
          split at h
          · simp only [R.pure] at h; cases h; exact ⟨[], rfl⟩
          · obtain ⟨_, news2, _, h2, _⟩ := decLoop_local L dc hdc _ _ _ _ _ _ _ _ h
            exact ⟨news2, by rw [h2]; simp⟩
        obtain ⟨news2, hnews⟩ := hnews
        have hendi : (({ infoOnly := true, ignoreExpect := ie } : DecOpts).transform s0).endOfMessage = true := by
          rw [transform_end]; exact hend
        have hinfo : infoSections (sec :: news2) = [sec.cutData] := by
          simp only [infoSections, hany, if_true]
        rw [← hnb] at hseci
        refine ⟨sec :: news2,
          { sections := outi.sections ++ [sec.cutData], data := outi.data, nbits := outi.nbits + sec.cutData.nbits },
          ri, hnews, ?_, ?_, ?_, ?_⟩
        · simp only [decLoop, R.bind, hcfg, R.lift, R.pure, hpresi, Bool.not_true, Bool.false_eq_true, if_false,
            hseci, hendi, if_true]
        · rw [hinfo]
        · rw [hinfo]; simp
        · rfl
      · -- a section without template data: the same computation
        simp only [Bool.not_eq_true] at hd
        have hsame := transform_same ie s0 hd
        obtain ⟨hno, hdn⟩ := decSection_nodata dc _ (transform_full_no_data ie s0 hd) _ _ _ _ _ _ _ hsec
        subst hdn
        have hseci : decSection dc (({ infoOnly := true, ignoreExpect := ie } : DecOpts).transform s0) reg outi.nbits r2
            = .ok ((sec, reg1, none), r3) := by rw [hsame, hnb]; exact hsec
        split at h
        · rename_i hend
          simp only [R.pure] at h
          cases h
          have hinfo : infoSections [sec] = [sec] := by
            simp only [infoSections, hno, Bool.false_eq_true, if_false]
          refine ⟨[sec], { sections := outi.sections ++ [sec], data := outi.data, nbits := outi.nbits + sec.nbits },
            r, rfl, ?_, ?_, ?_, ?_⟩
          · rw [← hsame] at hend
            simp only [decLoop, R.bind, hcfg, R.lift, R.pure, hpresi, Bool.not_true, Bool.false_eq_true, if_false,
              hseci, hend, if_true]
          · rw [hinfo]
          · rw [hinfo]; simp
          · rfl
        · rename_i hend
          obtain ⟨news2, outi', ri, h1, h2, h3, h4, h5⟩ := ih _ _ _
            { sections := outi.sections ++ [sec], data := outi.data, nbits := outi.nbits + sec.nbits } _ _ _
            (by simp only; omega) h
          have hinfo : infoSections (sec :: news2) = sec :: infoSections news2 := by
            simp only [infoSections, hno, Bool.false_eq_true, if_false]
          refine ⟨sec :: news2, outi', ri, ?_, ?_, ?_, ?_, ?_⟩
          · rw [h1]; simp
          · rw [← hsame] at hend
            simp only [decLoop, R.bind, hcfg, R.lift, R.pure, hpresi, Bool.not_true, Bool.false_eq_true, if_false,
              hseci, hend]
            exact h2
          · rw [h3, hinfo]; simp
          · rw [h4, hinfo]; simp only [List.map_cons, List.sum_cons]; omega
          · rw [h5]

/-- the metadata-only loop never runs the data reader -/
theorem decLoop_coder {α : Type} (L : Layouts) (dc dc' : DataCoder α) (ie : Bool) :
    ∀ (fuel idx : Nat) (reg : Registry) (out : DecOut α),
      decLoop L dc { infoOnly := true, ignoreExpect := ie } fuel idx reg out =
      decLoop L dc' { infoOnly := true, ignoreExpect := ie } fuel idx reg out := by
  intro fuel
  induction fuel with
  | zero => intro idx reg out; rfl
  | succ fuel ih =>
    intro idx reg out
    have hsec : ∀ s0 start, decSection dc (({ infoOnly := true, ignoreExpect := ie } : DecOpts).transform s0) reg start =
        decSection dc' (({ infoOnly := true, ignoreExpect := ie } : DecOpts).transform s0) reg start := by
      intro s0 start
      simp only [decSection, decParams_coder dc dc' start _ (transform_info_no_data ie s0)]
    simp only [decLoop, ih, hsec]

theorem map_name_unx (ie : Bool) (l : List Param) : (l.map (unx ie)).map (·.name) = l.map (·.name) := by
  induction l with
  | nil => rfl
  | cons p l ih => simp only [List.map_cons, unx_name, ih]

theorem map_nbits_unx (ie : Bool) (l : List Param) : (l.map (unx ie)).map (·.nbits) = l.map (·.nbits) := by
  induction l with
  | nil => rfl
  | cons p l ih => simp only [List.map_cons, unx_nbits, ih]

/-- the metadata-only loop: the last section comes from the layout that ended the loop; when that layout
    has template data, the bits between the header of that section and its declared end are opaque -/
theorem decLoop_opaque {α : Type} (L : Layouts) (hL : L.WF = true) (dc : DataCoder α)
    (hdc : ∀ reg, Local (dc.dec reg)) (ie : Bool) :
    ∀ (fuel idx : Nat) (reg : Registry) (out : DecOut α) (x : Bits) (out' : DecOut α) (r : Bits),
      decLoop L dc { infoOnly := true, ignoreExpect := ie } fuel idx reg out x = .ok (out', r) →
      ∃ e ∈ L, ∃ last, out'.sections.getLast? = some last ∧ last.index = e.layout.index ∧
        last.params.map (·.1) = e.layout.infoOnly.params.map (·.name) ∧
        (e.layout.params.any (·.ty == .templateData) = false → e.layout.endOfMessage = true) ∧
        (e.layout.params.any (·.ty == .templateData) = true →
          ∃ pre a, x = pre ++ a ++ r ∧ a.length + e.layout.headerBits = last.nbits ∧
            ∀ a' t', a'.length = a.length →
              decLoop L dc { infoOnly := true, ignoreExpect := ie } fuel idx reg out (pre ++ a' ++ t') = .ok (out', t')) := by
  intro fuel
  induction fuel with
  | zero => intro idx reg out x out' r h; simp only [decLoop, R.fail] at h; cases h
  | succ fuel ih =>
    intro idx reg out x out' r h
    simp only [decLoop] at h
    obtain ⟨s0, r1, hl1, hb⟩ := bind_ok h
    clear h
    obtain ⟨hcfg, hr1⟩ := lift_ok hl1
    subst hr1
    obtain ⟨present, r2, hl2, h⟩ := bind_ok hb
    clear hb
    obtain ⟨hpres, hr2⟩ := lift_ok hl2
    subst hr2
    cases present with
    | false =>
      simp only [Bool.not_false, if_true] at h
      obtain ⟨e, he, last, h1, h2, h3, h4, h5⟩ := ih _ _ _ _ _ _ h
      refine ⟨e, he, last, h1, h2, h3, h4, fun hd => ?_⟩
      obtain ⟨pre, a, h6, h7, h8⟩ := h5 hd
      refine ⟨pre, a, h6, h7, fun a' t' ha' => ?_⟩
      simp only [decLoop, R.bind, hcfg, R.lift, R.pure, hpres, Bool.not_false, if_true, h8 a' t' ha']
    | true =>
      simp only [Bool.not_true, Bool.false_eq_true, if_false] at h
      obtain ⟨⟨sec, reg1, d⟩, r3, hsec, hb⟩ := bind_ok h
      clear h
      have h := hb
      clear hb
      simp only at h
      obtain ⟨p1, hx, _, hidx, hnames, _, hp1⟩ := decSection_local dc hdc _ _ _ _ _ _ _ _ hsec
      split at h
      · -- the loop ends here
        rename_i hend
        simp only [R.pure] at h
        cases h
        obtain ⟨e, he, hel, _⟩ := getCfg_mem hcfg
        subst hel
        refine ⟨e, he, sec, by simp, by rw [hidx, transform_index], ?_, fun hd => ?_, fun hd => ?_⟩
        · rw [hnames, transform_params]
          simp only [if_true, map_name_unx]
        · rw [transform_end] at hend
          simp only [if_true, infoOnly_of_no_data _ hd] at hend
          exact hend
        · have hwf : e.layout.WF = true := wf_all hL e he
          obtain ⟨pd, post, hsplit, hpd, _, hfix, hlen⟩ := wf_data_layout hwf hd
          have hfix' : ∀ p ∈ (({ infoOnly := true, ignoreExpect := ie } : DecOpts).transform e.layout).params,
              p.ty ≠ .templateData ∧ p.nbits ≠ 0 ∧ p.widthOK = true := by
            intro p hp
            rw [transform_params] at hp
            simp only [if_true, List.mem_map] at hp
            obtain ⟨q, hq, rfl⟩ := hp
            have := hfix q hq
            simp only [unx_ty, unx_nbits, Param.widthOK] at this ⊢
            exact this
          obtain ⟨pre, a, h1, h2, h3, h4⟩ := decSection_opaque dc hdc _ hfix'
            (by rw [transform_hasParam]; exact hlen) _ _ _ _ _ _ _ hsec
          refine ⟨pre, a, h1, ?_, fun a' t' ha' => ?_⟩
          · rw [← h3, h2, SectionLayout.headerBits, transform_params]
            simp only [if_true, map_nbits_unx]
          · simp only [decLoop, R.bind, hcfg, R.lift, R.pure, hpres, Bool.not_true, Bool.false_eq_true, if_false,
              h4 a' t' ha', hend, if_true]
      · rename_i hend
        obtain ⟨e, he, last, h1, h2, h3, h4, h5⟩ := ih _ _ _ _ _ _ h
        refine ⟨e, he, last, h1, h2, h3, h4, fun hd => ?_⟩
        obtain ⟨pre, a, h6, h7, h8⟩ := h5 hd
        refine ⟨p1 ++ pre, a, by rw [hx, h6]; simp only [List.append_assoc], h7, fun a' t' ha' => ?_⟩
        simp only [decLoop, R.bind, hcfg, R.lift, R.pure, hpres, Bool.not_true, Bool.false_eq_true, if_false,
          List.append_assoc, hp1 (pre ++ (a' ++ t')), hend]
        have := h8 a' t' ha'
        simp only [List.append_assoc] at this
        exact this

end SecInfo
end Bufr
