/-
  C09, compressed data after the repair of finding F24, class `wireLinksOK`: on the tree the wiring pass builds from
  subset 0, EVERY subset of a successful compressed decode carries the delayed replication counts of subset 0
  (`decodeCompressed_links_sameCounts`).  Same technique as `decodeCompressed_sameCounts` (Lemmas/CompFactorsWire.lean,
  class `quietList`): the compressed walk is run a second time under a ghost value list that merges subset 0 and subset
  `j` (`primsQ j`, still `PushOne`: its `factor` clause is the repaired check `decFactorC_ok`), the simulation
  `walkList_sim2` gives a `Linked` tree for the MERGED flat lists, whose `treeOKList` says that every count the pass
  reads is an integer there - i.e. subsets 0 and `j` agree (`wireCount_merge`) - and the pass builds the same tree from
  subset 0 (`wireList_congr`).
-/
import BufrModel.Lemmas.CompFactorsWire
import BufrModel.Lemmas.WireResolve
namespace Bufr.C09
open Bufr

mutual
theorem treeOKList_sameCounts {o a b : SubsetOut} {N : Nat}
    (hc : ∀ i c, wireCount o i = .ok c → wireCount a i = .ok c ∧ wireCount b i = .ok c) :
    ∀ (ns : List Node), treeOKList o ns = true → shapeList N ns = true → Spec.sameCountsList a b ns = true
  | [], _, _ => by rw [Spec.sameCountsList]
  | n :: ns, h, hs => by
    rw [treeOKList, Bool.and_eq_true] at h
    rw [shapeList, Bool.and_eq_true] at hs
    rw [Spec.sameCountsList, treeOK1_sameCounts hc n h.1 hs.1, treeOKList_sameCounts hc ns h.2 hs.2]
    rfl

theorem treeOK1_sameCounts {o a b : SubsetOut} {N : Nat}
    (hc : ∀ i c, wireCount o i = .ok c → wireCount a i = .ok c ∧ wireCount b i = .ok c) :
    ∀ (n : Node), treeOK1 o n = true → shape1 N n = true → Spec.sameCounts1 a b n = true
  | .value k i own, _, hs => by
    rw [shape1] at hs
    simp only [valShape, Bool.and_eq_true] at hs
    rw [Spec.sameCounts1]
    exact sameCounts_ownShape hs.2
  | .noval _, _, _ => by rw [Spec.sameCounts1]
  | .seq id ms, h, hs => by
    rw [treeOK1, Bool.and_eq_true] at h
    rw [shape1] at hs
    rw [Spec.sameCounts1]
    exact treeOKList_sameCounts hc ms h.2 hs
  | .fixedRep id n ms, h, hs => by
    rw [treeOK1, Bool.and_eq_true, Bool.and_eq_true] at h
    rw [shape1] at hs
    rw [Spec.sameCounts1]
    exact treeOKList_sameCounts hc ms h.2 hs
  | .delayedRep id n (.value k i own) ms, h, hs => by
    rw [treeOK1, Bool.and_eq_true, Bool.and_eq_true] at h
    rw [shape1, Bool.and_eq_true] at hs
    have hv := hs.1
    simp only [valShape, Bool.and_eq_true] at hv
    have hf := h.1.2
    simp only [factorOK, Bool.and_eq_true] at hf
    cases hw : wireCount o i with
    | error e => rw [hw] at hf; have := hf.2; simp at this
    | ok c =>
      obtain ⟨ha, hb⟩ := hc i c hw
      rw [Spec.sameCounts1, ha, hb, sameCounts_ownShape hv.2, treeOKList_sameCounts hc ms h.2 hs.2]
      simp
  | .delayedRep id n (.noval _) ms, _, hs => by simp [shape1, valShape] at hs
  | .delayedRep id n (.seq _ _) ms, _, hs => by simp [shape1, valShape] at hs
  | .delayedRep id n (.fixedRep _ _ _) ms, _, hs => by simp [shape1, valShape] at hs
  | .delayedRep id n (.delayedRep _ _ _ _) ms, _, hs => by simp [shape1, valShape] at hs
end

/-- COMPRESSED data, class `wireLinksOK`: on the tree the wiring pass builds from subset 0, EVERY subset of a successful
    decode carries the delayed replication counts of subset 0 -/
theorem decodeCompressed_links_sameCounts {t : List Desc} (hq : wireLinksOK t = true) {n : Nat} {bits rest : Bits}
    {outs : List SubsetOut} {o0 : SubsetOut} (h : decodeCompressed t n bits = .ok (outs, rest))
    (h0 : outs.head? = some o0) {w : Wired} (hw : wireRaw t o0 = .ok w)
    (hsound : ∀ l ∈ o0.links, NotA o0 l.2 ∧
      ∃ p id, l.2 < p ∧ p < l.1 ∧ C07.IsBitmapOp id ∧ o0.descs[p]? = some (.oper id)) :
    ∀ o ∈ outs, Spec.sameCountsList o0 o w.nodes = true := by
  unfold decodeCompressed at h
  split at h
  · cases h
  · next s hs =>
    injection h with h
    injection h with ho _
    subst ho
    intro o ho
    have g := C07.grows_walkList C07.decPrimsC_rec t _ s (by cases n <;> rfl) hs
    have hlen : s.vals.length = n := by rw [g.2.2.1]; simp
    unfold St.outs at ho h0
    obtain ⟨lj, hlj, rfl⟩ := List.mem_map.mp ho
    obtain ⟨j, hj, hjl⟩ := List.getElem_of_mem hlj
    cases n with
    | zero => rw [hlen] at hj; cases hj
    | succ n =>
      cases hv : s.vals with
      | nil => rw [hv] at hj; cases hj
      | cons l0 r =>
        rw [hv] at h0
        simp only [List.map_cons, List.head?_cons, Option.some.injEq] at h0
        subst h0
        have hrel : RelQ j ({ bits := bits, vals := List.replicate (n + 1) [] } : St)
            (mix j { bits := bits, vals := List.replicate (n + 1) [] }) := ⟨rfl, by simpa [hlen] using hj⟩
        obtain ⟨t', hwQ, ht', _⟩ := walk_sim (primSim_Q j) hrel hs
        subst ht'
        have hmh : mixHead j s.vals = merge l0 lj := by
          unfold mixHead
          rw [List.getElem?_eq_getElem hj, hjl, hv]
          rfl
        obtain ⟨wm, hl, hal⟩ := walk_linked (o := ⟨s.descs.reverse, (merge l0 lj).reverse, s.links.reverse⟩)
          (pushOne_primsQ j) hq (s0 := mix j { bits := bits, vals := List.replicate (n + 1) [] }) rfl rfl rfl
          ⟨List.replicate (n + 1) [], by show mixHead j _ :: _ = _; rw [mixHead_replicate_nil]⟩
          (fun l hl => by
            have : l ∈ mixHead j (List.replicate (n + 1) ([] : List Val)) :: List.replicate (n + 1) [] := hl
            rw [mixHead_replicate_nil] at this
            rcases List.mem_cons.mp this with rfl | hl
            · rfl
            · exact (List.mem_replicate.mp hl).2)
          hwQ rfl rfl
          (fun l hl => by
            have : (mix j s).vals.head? = some (mixHead j s.vals) := rfl
            rw [this] at hl
            injection hl with hl
            rw [← hl, hmh])
          hsound
        have hal0 : l0.length = s.descs.length := hal l0 (by show l0 ∈ mixHead j s.vals :: s.vals; rw [hv]; simp)
        have halj : lj.length = s.descs.length := hal lj (by show lj ∈ mixHead j s.vals :: s.vals; simp [hlj])
        have hcnt : ∀ i c, wireCount ⟨s.descs.reverse, (merge l0 lj).reverse, s.links.reverse⟩ i = .ok c →
            wireCount ⟨s.descs.reverse, l0.reverse, s.links.reverse⟩ i = .ok c ∧
            wireCount ⟨s.descs.reverse, lj.reverse, s.links.reverse⟩ i = .ok c :=
          fun i c hc => wireCount_merge (hal0.trans halj.symm) hc
        have hwm := hl.wired
        unfold wireRaw at hwm hw
        split at hwm
        · cases hwm
        · next ns st e =>
          injection hwm with hwm
          have e0 := wireList_congr _ _ l0.reverse _ (fun i c hc => (hcnt i c hc).1) t {} _ e
          rw [e0] at hw
          injection hw with hw
          have hn : w.nodes = wm.nodes := by rw [← hw, ← hwm]
          rw [hn]
          exact treeOKList_sameCounts hcnt wm.nodes hl.good.1 hl.good.2

end Bufr.C09
