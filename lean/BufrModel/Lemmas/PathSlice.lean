/-
  Helper lemmas for C15, part 2: the body of a slice (`[` ... `]`) — the machine's treatment of
  `:` and `]` against `Spec.splitColon` / `Spec.sliceOfBody`.
-/
import BufrModel.Lemmas.PathParser
namespace Bufr.PathLang
open Spec

/-! ### the spec side, restated with an accumulator -/

/-- `splitColon` with the segment read so far as an accumulator (the shape of the machine's loop) -/
def splitAux (t : List Char) : List Char → List (List Char)
  | [] => [t]
  | c :: cs => if c == ':' then t :: splitAux [] cs else splitAux (t ++ [c]) cs

theorem splitColon_ne_nil (body : List Char) : splitColon body ≠ [] := by
  cases body with
  | nil => simp [splitColon]
  | cons c cs =>
    simp only [splitColon]
    cases splitColon cs with
    | nil => simp
    | cons p ps => by_cases hc : (c == ':') = true <;> simp [hc]

theorem splitAux_eq (body : List Char) : ∀ t, splitAux t body =
    match splitColon body with
    | p :: ps => (t ++ p) :: ps
    | [] => [t] := by
  induction body with
  | nil => intro t; simp [splitAux, splitColon]
  | cons c cs ih =>
    intro t
    simp only [splitAux, splitColon]
    have hne := splitColon_ne_nil cs
    by_cases hc : (c == ':') = true
    · simp only [hc, if_true]
      rw [ih []]
      cases hs : splitColon cs with
      | nil => exact absurd hs hne
      | cons p ps => simp
    · simp only [hc]
      rw [ih (t ++ [c])]
      cases hs : splitColon cs with
      | nil => exact absurd hs hne
      | cons p ps => simp

theorem splitColon_eq_aux (body : List Char) : splitColon body = splitAux [] body := by
  have h := splitAux_eq body []
  cases hs : splitColon body with
  | nil => exact absurd hs (splitColon_ne_nil body)
  | cons p ps => rw [hs] at h; simpa using h.symm

theorem splitAux_ne_nil (body : List Char) : ∀ t, splitAux t body ≠ [] := by
  induction body with
  | nil => intro t; simp [splitAux]
  | cons c cs ih =>
    intro t; simp only [splitAux]
    by_cases hc : (c == ':') = true
    · simp [hc]
    · simp only [hc]; exact ih _

/-- every segment converted by `optInt?` -/
def optInts : List (List Char) → Option (List (Option Int))
  | [] => some []
  | x :: xs =>
    match optInt? x, optInts xs with
    | some a, some r => some (a :: r)
    | _, _ => none

/-- `create_slice_object` as the grammar sees it -/
def sliceOpt : List (Option Int) → Option Slice
  | [some i] => some (if 0 ≤ i then .idx i else .range (some i) (if i ≠ -1 then some (i + 1) else none) none)
  | [a, b] => some (.range a b none)
  | [a, b, c] => some (.range a b c)
  | _ => none

def badBody (c : Char) : Bool := isSpecial c && c != ':'

theorem optInts_length : ∀ (xs : List (List Char)) (es : List (Option Int)), optInts xs = some es → es.length = xs.length := by
  intro xs
  induction xs with
  | nil => intro es h; simp [optInts] at h; simp [← h]
  | cons x xs ih =>
    intro es h
    simp only [optInts] at h
    cases h1 : optInt? x with
    | none => simp [h1] at h
    | some a =>
      cases h2 : optInts xs with
      | none => simp [h1, h2] at h
      | some r =>
        simp [h1, h2] at h
        subst h
        simp [ih r h2]

theorem sliceOpt_long (es : List (Option Int)) (h : 4 ≤ es.length) : sliceOpt es = none := by
  match es, h with
  | _ :: _ :: _ :: _ :: _, _ => simp [sliceOpt]

theorem sliceOfBody_eq (body : List Char) :
    sliceOfBody body = if body.any badBody then none else
      match optInts (splitAux [] body) with
      | some es => sliceOpt es
      | none => none := by
  unfold sliceOfBody
  have hb : (fun c => isSpecial c && c != ':') = badBody := rfl
  rw [hb, splitColon_eq_aux]
  by_cases hbad : body.any badBody = true
  · simp [hbad]
  · simp only [hbad]
    have hne := splitAux_ne_nil body []
    generalize splitAux [] body = segs at hne ⊢
    match segs, hne with
    | [x], _ =>
      simp only [optInts, optInt?]
      by_cases hx : x = []
      · subst hx; simp [parseInt?, sliceOpt]
      · simp only [hx, if_false]
        cases parseInt? x <;> simp [sliceOpt]
    | [a, b], _ =>
      simp only [optInts]
      cases optInt? a <;> cases optInt? b <;> simp [sliceOpt]
    | [a, b, c], _ =>
      simp only [optInts]
      cases optInt? a <;> cases optInt? b <;> cases optInt? c <;> simp [sliceOpt]
    | a :: b :: c :: d :: r, _ =>
      simp only
      cases h : optInts (a :: b :: c :: d :: r) with
      | none => rfl
      | some es =>
        have := optInts_length _ _ h
        simp only
        rw [sliceOpt_long es (by rw [this]; simp)]

/-! ### the machine inside a slice -/

theorem step_colon (s : PS) (hs : inSlice s.st = true) :
    step s ':' = match optInt? s.token with
      | some e => .ok { s with token := [], elems := s.elems ++ [e], st := toX s.st }
      | none => .error .path := by
  obtain ⟨st, token, elems, curId, curSep, subset, comps⟩ := s
  simp only at hs
  by_cases ht : token = []
  · subst ht
    cases st <;> simp [inSlice] at hs <;>
      simp [step, isWs, handleColonOrRight, convertSliceElem, optInt?, toX, bind, Except.bind, pure, Except.pure]
  · cases st <;> simp [inSlice] at hs <;>
      simp [step, isWs, handleColonOrRight, convertSliceElem, optInt?, toX, ht, bind, Except.bind, pure, Except.pure] <;>
      cases parseInt? token <;> simp

theorem step_close (s : PS) (hs : inSlice s.st = true) :
    step s ']' = if is0 s.st && s.token == [] then .error .path else
      match optInt? s.token with
      | some e => .ok { s with token := [], elems := s.elems ++ [e], st := toStop s.st }
      | none => .error .path := by
  obtain ⟨st, token, elems, curId, curSep, subset, comps⟩ := s
  simp only at hs
  by_cases ht : token = []
  · subst ht
    cases st <;> simp [inSlice] at hs <;>
      simp [step, isWs, handleColonOrRight, convertSliceElem, optInt?, toStop, is0, bind, Except.bind, pure, Except.pure]
  · cases st <;> simp [inSlice] at hs <;>
      simp [step, isWs, handleColonOrRight, convertSliceElem, optInt?, toStop, is0, ht, bind, Except.bind, pure, Except.pure] <;>
      cases parseInt? token <;> simp

theorem step_bad (s : PS) (c : Char) (hs : inSlice s.st = true) (hb : badBody c = true) (hc : c ≠ ']') :
    step s c = .error .path := by
  simp only [badBody, Bool.and_eq_true, bne_iff_ne, ne_eq] at hb
  obtain ⟨h1, h2⟩ := hb
  rw [isSpecial_iff] at h1
  obtain ⟨st, token, elems, curId, curSep, subset, comps⟩ := s
  simp only at hs
  rcases h1 with h | h | h | h | h | h | h <;> subst h <;> (try exact absurd rfl h2) <;> (try exact absurd rfl hc) <;>
    cases st <;> simp [inSlice] at hs <;>
    simp [step, isWs, isSep, handleLeftBracket, handleSeparator, bind, Except.bind]

theorem inSlice_acc {st : PState} (h : inSlice st = true) : accSt st = true := by
  cases st <;> simp_all [inSlice, accSt]

theorem inSlice_toX {st : PState} (h : inSlice st = true) : inSlice (toX st) = true := by
  cases st <;> simp_all [inSlice, toX]

theorem is0_toX (st : PState) : is0 (toX st) = false := by
  cases st <;> simp [is0, toX]

theorem toStop_toX {st : PState} (h : inSlice st = true) : toStop (toX st) = toStop st := by
  cases st <;> simp_all [inSlice, toX, toStop]

theorem plain_of_not_bad {c : Char} (hcol : ¬ c = ':') (hbad : ¬ badBody c = true) (hw : isWs c = false) : Plain c := by
  refine ⟨?_, hw⟩
  cases hsp : isSpecial c
  · rfl
  · exfalso; apply hbad; simp [badBody, hsp, hcol]

/-- the machine on `body ]` where `body` has no `]`: either an error, or the elements of the
    colon-separated segments are appended and the slice is closed -/
theorem run_body (body : List Char) : ∀ (s : PS) (rest : List Char), inSlice s.st = true →
    (∀ c ∈ body, c ≠ ']' ∧ isWs c = false) →
    run s (body ++ ']' :: rest) =
      if body.any badBody then .error .path else
      match optInts (splitAux s.token body) with
      | none => .error .path
      | some es =>
        if is0 s.st && s.token == [] && body == [] then .error .path
        else run { s with st := toStop s.st, token := [], elems := s.elems ++ es } rest := by
  induction body with
  | nil =>
    intro s rest hs _
    simp only [List.nil_append, run, step_close s hs, List.any_nil, Bool.false_eq_true, if_false, splitAux, optInts]
    by_cases h0 : (is0 s.st && s.token == []) = true
    · simp only [h0, if_true]
      cases optInt? s.token <;> simp
    · simp only [h0]
      cases optInt? s.token <;> simp
  | cons c body ih =>
    intro s rest hs hb
    have hb' : ∀ c ∈ body, c ≠ ']' ∧ isWs c = false := fun c hc => hb c (by simp [hc])
    obtain ⟨hc1, hc2⟩ := hb c (by simp)
    simp only [List.cons_append, run]
    by_cases hcol : c = ':'
    · subst hcol
      rw [step_colon s hs]
      have e1 : badBody ':' = false := by decide
      simp only [List.any_cons, e1, Bool.false_or, splitAux, beq_self_eq_true, if_true, optInts]
      cases hopt : optInt? s.token with
      | none => simp
      | some e =>
        simp only
        rw [ih _ rest (inSlice_toX hs) hb']
        simp only [is0_toX, Bool.false_and, Bool.false_eq_true, if_false, toStop_toX hs]
        by_cases hbad : body.any badBody = true
        · simp [hbad]
        · simp only [hbad]
          cases optInts (splitAux [] body) <;> simp
    · by_cases hbad : badBody c = true
      · rw [step_bad s c hs hbad hc1]
        simp [hbad]
      · have hpl : Plain c := plain_of_not_bad hcol hbad hc2
        rw [step_plain s c hpl (inSlice_acc hs)]
        simp only
        rw [ih { s with token := s.token ++ [c] } rest hs hb']
        have e1 : (c == ':') = false := by simp [hcol]
        simp only [List.any_cons, hbad, Bool.false_or, splitAux, e1, Bool.false_eq_true, if_false]
        by_cases hbad' : body.any badBody = true
        · simp [hbad']
        · simp only [hbad']
          cases optInts (splitAux (s.token ++ [c]) body) <;> simp

/-- input that ends inside a slice is rejected -/
theorem runFin_noclose (body : List Char) : ∀ (s : PS), inSlice s.st = true →
    (∀ c ∈ body, c ≠ ']' ∧ isWs c = false) → runFin s body = .error .path := by
  induction body with
  | nil =>
    intro s hs _
    simp only [runFin_nil, finish]
    cases hst : s.st <;> simp_all [inSlice]
  | cons c body ih =>
    intro s hs hb
    have hb' : ∀ c ∈ body, c ≠ ']' ∧ isWs c = false := fun c hc => hb c (by simp [hc])
    obtain ⟨hc1, hc2⟩ := hb c (by simp)
    rw [runFin_cons]
    by_cases hcol : c = ':'
    · subst hcol
      rw [step_colon s hs]
      cases optInt? s.token with
      | none => rfl
      | some e => exact ih _ (inSlice_toX hs) hb'
    · by_cases hbad : badBody c = true
      · rw [step_bad s c hs hbad hc1]
      · have hpl : Plain c := plain_of_not_bad hcol hbad hc2
        rw [step_plain s c hpl (inSlice_acc hs)]
        exact ih { s with token := s.token ++ [c] } hs hb'

end Bufr.PathLang
