/-
  String / extraction lemmas for C20 (`Msg/TableDef.lean`): stripping of padded fields, `int()` of
  padded decimal digits, ASCII round trip, one-entry extraction.
-/
import BufrModel.Msg.TableDef
import BufrModel.Lemmas.PathDigits
namespace Bufr.C20
open Bufr Bufr.TableDef Bufr.PathLang

def Ascii (s : List Char) : Prop := ∀ c ∈ s, c.toNat < 128
def TrimL (s : List Char) : Prop := ∀ c, s.head? = some c → isSpace c = false
def TrimR (s : List Char) : Prop := ∀ c, s.getLast? = some c → isSpace c = false

theorem isSpace_space : isSpace ' ' = true := by decide

theorem dropWhile_spaces (k : Nat) (t : List Char) :
    (List.replicate k ' ' ++ t).dropWhile isSpace = t.dropWhile isSpace := by
  induction k with
  | zero => rfl
  | succ n ih => simp [List.replicate_succ, isSpace_space, ih]

theorem rstrip_pad (s : List Char) (k : Nat) : rstrip (s ++ List.replicate k ' ') = rstrip s := by
  unfold rstrip
  rw [List.reverse_append, List.reverse_replicate, dropWhile_spaces]

theorem rstrip_trim (s : List Char) (h : TrimR s) : rstrip s = s := by
  unfold rstrip
  cases hr : s.reverse with
  | nil =>
    have : s = [] := by simpa using hr
    subst this; rfl
  | cons c t =>
    have h1 : s.getLast? = some c := by rw [← List.head?_reverse, hr]; rfl
    have hc := h c h1
    rw [List.dropWhile_cons, hc]
    simp only [Bool.false_eq_true, if_false]
    rw [← hr, List.reverse_reverse]

theorem lstrip_trim (s : List Char) (h : TrimL s) : lstrip s = s := by
  unfold lstrip
  cases s with
  | nil => rfl
  | cons c t => simp [h c rfl]

theorem strip_pad (s : List Char) (n : Nat) (hl : TrimL s) (hr : TrimR s) : strip (padTo n s) = s := by
  unfold strip padTo
  cases s with
  | nil =>
    have : lstrip ([] ++ List.replicate (n - ([] : List Char).length) ' ') = [] := by
      unfold lstrip
      have := dropWhile_spaces (n - 0) []
      simpa using this
    rw [this]; rfl
  | cons c t =>
    have : lstrip (c :: t ++ List.replicate (n - (c :: t).length) ' ') = c :: t ++ List.replicate (n - (c :: t).length) ' ' := by
      unfold lstrip
      simp [hl c rfl]
    rw [this, rstrip_pad, rstrip_trim _ hr]

theorem rstrip_padTo (s : List Char) (n : Nat) (hr : TrimR s) : rstrip (padTo n s) = s := by
  unfold padTo; rw [rstrip_pad, rstrip_trim _ hr]

/-! digits -/

theorem digit_not_space (c : Char) (h : isDigit c = true) : isSpace c = false := by
  have := isDigit_bounds c h
  unfold isSpace
  simp
  omega

theorem digit_ne (c : Char) (h : isDigit c = true) : c ≠ '-' ∧ c ≠ '+' ∧ c ≠ '_' := by
  have := isDigit_bounds c h
  refine ⟨?_, ?_, ?_⟩ <;> (intro e; subst e; simp at this)

theorem trimL_digits (n : Nat) : TrimL (natDigits n) := by
  intro c hc
  exact digit_not_space c (natDigits_all_digit n c (List.mem_of_mem_head? (by rw [hc]; rfl)))

theorem trimR_digits (n : Nat) : TrimR (natDigits n) := by
  intro c hc
  exact digit_not_space c (natDigits_all_digit n c (List.mem_of_mem_getLast? (by rw [hc]; rfl)))

theorem bodyOk_digits (l : List Char) (hne : l ≠ []) (h : ∀ c ∈ l, isDigit c = true) : bodyOk l = true := by
  induction l with
  | nil => exact absurd rfl hne
  | cons c t ih =>
    cases t with
    | nil => simp [bodyOk, h c (by simp)]
    | cons d r =>
      have hd := h d (by simp)
      have hne' := (digit_ne d hd).2.2
      rw [bodyOk]
      simp only [h c (by simp), hne', if_false, Bool.true_and]
      exact ih (by simp) (fun x hx => h x (List.mem_cons_of_mem _ hx))

theorem pyInt_digits (n : Nat) : pyInt (natDigits n) = some (n : Int) := by
  unfold pyInt strip
  rw [lstrip_trim _ (trimL_digits n), rstrip_trim _ (trimR_digits n)]
  have hall := natDigits_all_digit n
  have hne := natDigits_ne_nil n
  cases hd : natDigits n with
  | nil => exact absurd hd hne
  | cons c r =>
    have hc : isDigit c = true := hall c (by rw [hd]; simp)
    have hn := digit_ne c hc
    simp only [hn.1, hn.2.1, if_false]
    unfold pyIntBody
    have hb : bodyOk (c :: r) = true := by
      rw [← hd]; exact bodyOk_digits _ hne hall
    have hf : (c :: r).filter (fun x => decide (x ≠ '_')) = c :: r := by
      rw [List.filter_eq_self]
      intro a ha
      have := (digit_ne a (hall a (by rw [hd]; exact ha))).2.2
      simpa using this
    rw [if_pos hb, hf, ← hd, digitsVal_natDigits]
    rfl

theorem pyIntE_padded (n w : Nat) : pyIntE (strip (padTo w (natDigits n))) = .ok (n : Int) := by
  rw [strip_pad _ _ (trimL_digits n) (trimR_digits n)]
  unfold pyIntE
  rw [pyInt_digits]

theorem signOf_signStr (i : Int) : signOf (signStr i) * (i.natAbs : Int) = i := by
  unfold signStr
  split
  · have : signOf ['-'] = -1 := by decide
    rw [this]; omega
  · have : signOf ['+'] = 1 := by decide
    rw [this]; omega

/-! ASCII -/

theorem decode_encode (s : List Char) (h : Ascii s) : decodeAscii (encodeAscii s) = .ok s := by
  induction s with
  | nil => rfl
  | cons c t ih =>
    have hc : c.toNat < 128 := h c (by simp)
    have ht : Ascii t := fun x hx => h x (List.mem_cons_of_mem _ hx)
    have h1 : (UInt8.ofNat c.toNat).toNat = c.toNat := by
      rw [UInt8.toNat_ofNat']; omega
    simp only [encodeAscii, List.map_cons, decodeAscii] at *
    rw [h1, if_pos hc, ih ht, Char.ofNat_toNat]

theorem nextStr_strVal (s : List Char) (rest : List Val) (h : Ascii s) :
    nextStr (strVal s :: rest) = .ok (s, rest) := by
  unfold nextStr strVal
  simp only [decode_encode s h]

theorem ascii_append {a b : List Char} (ha : Ascii a) (hb : Ascii b) : Ascii (a ++ b) := by
  intro c hc
  rcases List.mem_append.mp hc with h | h
  · exact ha c h
  · exact hb c h
theorem ascii_take {a : List Char} (n : Nat) (ha : Ascii a) : Ascii (a.take n) :=
  fun c hc => ha c (List.mem_of_mem_take hc)
theorem ascii_drop {a : List Char} (n : Nat) (ha : Ascii a) : Ascii (a.drop n) :=
  fun c hc => ha c (List.mem_of_mem_drop hc)
theorem ascii_spaces (k : Nat) : Ascii (List.replicate k ' ') := by
  intro c hc
  rw [List.mem_replicate] at hc
  rw [hc.2]; decide
theorem ascii_padTo {a : List Char} (n : Nat) (ha : Ascii a) : Ascii (padTo n a) :=
  ascii_append ha (ascii_spaces _)
theorem ascii_digits (n : Nat) : Ascii (natDigits n) := by
  intro c hc
  have := isDigit_bounds c (natDigits_all_digit n c hc)
  omega
theorem ascii_sign (i : Int) : Ascii (signStr i) := by
  unfold signStr
  split <;> (intro c hc; simp at hc; subst hc; decide)

end Bufr.C20
