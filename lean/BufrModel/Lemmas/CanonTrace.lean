/-
  C02 lemmas: invariants of the walk.  `walk_inv`: a state predicate that every primitive preserves and
  that does not look at registers or links is preserved by the whole template walk (an instance of the
  generic simulation theorem with both sides equal).  `TraceInv` / `ColTraceInv`: what the code-writing
  primitives of the specification have written so far is the concatenation of the codes of the values
  consumed so far, in order.
-/
import BufrModel.Props.C02Canon
set_option linter.unusedSimpArgs false
namespace Bufr
open Bufr.Spec Bufr.Flat

/-- an invariant of the states that every primitive preserves (and that does not look at the registers
    or the links) is preserved by the whole walk -/
theorem walk_inv (P : Prims) (Inv : St → Prop)
    (hreg : ∀ s (f : Regs → Regs), Inv s → Inv (s.setRegs f)) (hlink : ∀ s o, Inv s → Inv (addLink s o))
    (hnum : ∀ dd nb sc rf s s', Inv s → P.numeric dd nb sc rf s = .ok s' → Inv s')
    (hstr : ∀ dd n s s', Inv s → P.string dd n s = .ok s' → Inv s')
    (hcf : ∀ dd n s s', Inv s → P.codeflag dd n s = .ok s' → Inv s')
    (hnr : ∀ e n s s', Inv s → P.newRefval e n s = .ok s' → Inv s')
    (hco : ∀ dd c s s', Inv s → P.constant dd c s = .ok s' → Inv s')
    {d : List Desc} {s s' : St} (h : walkList P d s = .ok s') (hi : Inv s) : Inv s' := by
  have hsim : PrimSim₀ P P (fun s t => t = s ∧ Inv s) :=
    { agree := fun h => by rw [h.1]; exact ⟨rfl, rfl, rfl⟩
      rel_setRegs := fun f h => by rw [h.1]; exact ⟨rfl, hreg _ f h.2⟩
      rel_addLink := fun o h => by rw [h.1]; exact ⟨rfl, hlink _ o h.2⟩
      ix_setRegs := fun _ => Iff.rfl
      ix_addLink := fun _ => Iff.rfl
      numeric := fun dd nb sc rf s s' hr _ _ => ⟨(), trivial, fun t ht => by
        obtain ⟨rfl, hi⟩ := ht; exact ⟨s', hr, rfl, hnum dd nb sc rf _ s' hi hr⟩⟩
      string := fun dd n s s' hr _ _ => ⟨(), trivial, fun t ht => by
        obtain ⟨rfl, hi⟩ := ht; exact ⟨s', hr, rfl, hstr dd n _ s' hi hr⟩⟩
      codeflag := fun dd n s s' hr _ _ => ⟨(), trivial, fun t ht => by
        obtain ⟨rfl, hi⟩ := ht; exact ⟨s', hr, rfl, hcf dd n _ s' hi hr⟩⟩
      newRefval := fun e n s s' hr _ _ => ⟨(), trivial, fun t ht => by
        obtain ⟨rfl, hi⟩ := ht; exact ⟨s', hr, rfl, hnr e n _ s' hi hr⟩⟩
      constant := fun dd c s s' hr _ _ => ⟨(), trivial, fun t ht => by
        obtain ⟨rfl, hi⟩ := ht; exact ⟨s', hr, rfl, hco dd c _ s' hi hr⟩⟩
      factor := fun h hn => by rw [h.1]; exact hn
      lastValues := fun h hl => by rw [h.1]; exact ⟨_, hl, rfl⟩ }
  obtain ⟨t', _, _, hinv⟩ := walk_sim hsim (t := s) ⟨rfl, hi⟩ h
  exact hinv

/-- "so far the writer holds exactly the codes of the first `idx` supplied values, in order" -/
def TraceInv (V : List Val) (s : St) : Prop :=
  curVals s = V ∧
  ∃ fs : List CodedField,
    (∀ x ∈ fs, fieldCode x.spec x.val = some x.bits) ∧
    s.idx = fs.length ∧ fs.map (·.val) = V.take fs.length ∧
    s.bits = ((fs.map (·.bits)).flatten).reverse

theorem traceInv_emit (V : List Val) (dd : DDesc) (spec : FieldSpec) (s s' : St)
    (hi : TraceInv V s) (h : emit dd spec s = .ok s') : TraceInv V s' := by
  obtain ⟨v, f, hv, hf, rfl⟩ := (C02_emit_step dd spec s s').mp h
  obtain ⟨hV, fs, hcode, hidx, hvals, hbits⟩ := hi
  refine ⟨hV, fs ++ [⟨spec, v, f⟩], ?_, ?_, ?_, ?_⟩
  · intro x hx
    rcases List.mem_append.mp hx with hx | hx
    · exact hcode x hx
    · simp at hx; subst hx; exact hf
  · simp [St.afterWrite, hidx]
  · have hget : V[fs.length]? = some v := by
      rw [← hV, ← hidx]; exact hv
    simp only [List.map_append, List.map_cons, List.map_nil, List.length_append, List.length_cons,
      List.length_nil, Nat.zero_add, List.take_add_one, hget, Option.toList, hvals]
  · simp [St.afterWrite, hbits]


theorem traceInv_walk (V : List Val) {t : List Desc} {s s' : St}
    (h : walkList canonPrimsU t s = .ok s') (hi : TraceInv V s) : TraceInv V s' := by
  refine walk_inv canonPrimsU (TraceInv V) (fun _ _ h => h) (fun _ _ h => h)
    (fun dd nb sc rf s s' hi h => traceInv_emit V dd _ s s' hi h)
    (fun dd n s s' hi h => traceInv_emit V dd _ s s' hi h)
    (fun dd n s s' hi h => traceInv_emit V dd _ s s' hi h)
    ?_
    (fun dd c s s' hi h => traceInv_emit V dd _ s s' hi h) h hi
  intro e n s s' hi h
  have h' : (match s.curVal with
    | some (.int i) => emit (.plain e) (.newRef n) (setNewRefval s e.id i)
    | _ => .error .other) = .ok s' := h
  split at h'
  · exact traceInv_emit V _ _ (setNewRefval s e.id _) s' hi h'
  · cases h'

/-- the same for compressed data: one column code per flat position consumed so far -/
def ColTraceInv (VV : List (List Val)) (s : St) : Prop :=
  s.vals = VV ∧
  ∃ cs : List CodedColumn,
    (∀ x ∈ cs, colCode x.spec x.vals = some x.bits) ∧
    s.idx = cs.length ∧ (∀ (j : Nat) (x : CodedColumn), cs[j]? = some x → VV.mapM (fun l => l[j]?) = some x.vals) ∧
    s.bits = ((cs.map (·.bits)).flatten).reverse

theorem colTraceInv_emit (VV : List (List Val)) (dd : DDesc) (spec : FieldSpec) (s s' : St)
    (hi : ColTraceInv VV s) (h : emitCol dd spec s = .ok s') : ColTraceInv VV s' := by
  obtain ⟨vs, f, hv, hf, rfl⟩ := (C02_emitCol_step dd spec s s').mp h
  obtain ⟨hV, cs, hcode, hidx, hvals, hbits⟩ := hi
  refine ⟨hV, cs ++ [⟨spec, vs, f⟩], ?_, ?_, ?_, ?_⟩
  · intro x hx
    rcases List.mem_append.mp hx with hx | hx
    · exact hcode x hx
    · simp at hx; subst hx; exact hf
  · simp [St.afterWrite, hidx]
  · intro j x hx
    by_cases hj : j < cs.length
    · rw [List.getElem?_append_left hj] at hx
      exact hvals j x hx
    · rw [List.getElem?_append_right (by omega)] at hx
      have hj0 : j - cs.length = 0 := by
        rcases Nat.eq_zero_or_pos (j - cs.length) with h0 | h0
        · exact h0
        · rw [List.getElem?_eq_none (by simp; omega)] at hx; cases hx
      rw [hj0] at hx
      simp only [List.getElem?_cons_zero, Option.some.injEq] at hx
      subst hx
      have : j = s.idx := by omega
      subst this
      rw [← hV]; exact hv
  · simp [St.afterWrite, hbits]

theorem colTraceInv_walk (VV : List (List Val)) {t : List Desc} {s s' : St}
    (h : walkList canonPrimsC t s = .ok s') (hi : ColTraceInv VV s) : ColTraceInv VV s' := by
  refine walk_inv canonPrimsC (ColTraceInv VV) (fun _ _ h => ⟨h.1, h.2⟩) (fun _ _ h => ⟨h.1, h.2⟩)
    (fun dd nb sc rf s s' hi h => colTraceInv_emit VV dd _ s s' hi h)
    (fun dd n s s' hi h => colTraceInv_emit VV dd _ s s' hi h)
    (fun dd n s s' hi h => colTraceInv_emit VV dd _ s s' hi h)
    ?_
    (fun dd c s s' hi h => colTraceInv_emit VV dd _ s s' hi h) h hi
  intro e n s s' hi h
  have h' : (match curCol s with
    | some (.int i :: _) => emitCol (.plain e) (.newRef n) (setNewRefval s e.id i)
    | _ => .error .other) = .ok s' := h
  split at h'
  · exact colTraceInv_emit VV _ _ (setNewRefval s e.id _) s' ⟨hi.1, hi.2⟩ h'
  · cases h'

end Bufr
