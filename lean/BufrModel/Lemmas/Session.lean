/-
  Helper lemmas for the session model of C13 (`Msg/Session.lean`): the invariant of reachable states
  (both caches are memo tables, kept objects agree with a fresh decode, nothing is cached or kept while
  the limit is 0) and the step lemma: from a state satisfying the invariant every operation returns what
  the stateless specification `pureOut` returns - whatever registers and scratch the objects hold.
-/
import BufrModel.Msg.Session
import BufrModel.Lemmas.Cache
set_option linter.unusedSectionVars false
namespace Bufr.Session
open Bufr.Cache

section Dict
variable {κ ν : Type} [DecidableEq κ]

/-- memo table of `f` with distinct keys, no bound on the size (the limit is lowered at run time) -/
def Memo (f : κ → Except Err ν) (d : Dict κ ν) : Prop :=
  (∀ p ∈ d, f p.1 = .ok p.2) ∧ d.keys.Nodup

theorem Memo.nil (f : κ → Except Err ν) : Memo f ([] : Dict κ ν) := by
  simp [Memo, Dict.keys]

theorem Memo.sub {f : κ → Except Err ν} {d d1 : Dict κ ν} (hd : Memo f d) (hs : d1.Sublist d) : Memo f d1 :=
  ⟨fun p hp => hd.1 p (hs.subset hp), (keys_sublist hs).nodup hd.2⟩

theorem Memo.snoc {f : κ → Except Err ν} {d d1 : Dict κ ν} {k : κ} {v : ν}
    (hd : Memo f d) (hs : d1.Sublist d) (hk : k ∉ d.keys) (hv : f k = .ok v) : Memo f (d1 ++ [(k, v)]) := by
  have h0 : DictOk f (d.length + 1) d := ⟨hd.1, hd.2, Nat.le_succ _⟩
  have h1 := DictOk.snoc h0 hs hk hv (Nat.succ_le_succ hs.length_le)
  exact ⟨h1.1, h1.2.1⟩

theorem tableGet_memo (limit : Nat) (load : κ → Except Err ν) (d : Dict κ ν) (k : κ)
    (hd : Memo load d) : Memo load (tableGet limit load d k).1 := by
  unfold tableGet
  cases hl : d.lookup k with
  | some g => simpa using hd
  | none =>
    have hk := lookup_none_not_key hl
    simp only
    by_cases hlim : limit ≤ d.length
    · simp only [hlim, if_true]
      obtain ⟨p1, _, _⟩ := popLoop_spec (d.length + 1 - limit) d
      cases hr : (popLoop (d.length + 1 - limit) d).2 with
      | true => simpa using hd.sub p1
      | false =>
        simp only [Bool.false_eq_true, if_false]
        cases hld : load k with
        | error e => simpa using hd.sub p1
        | ok g => exact hd.snoc p1 hk hld
    · simp only [hlim, if_false, Bool.false_eq_true]
      cases hld : load k with
      | error e => simpa using hd
      | ok g => exact hd.snoc (List.Sublist.refl d) hk hld

/-- with limit 0 the cache stays empty -/
theorem tableGet_zero (load : κ → Except Err ν) (k : κ) :
    tableGet 0 load ([] : Dict κ ν) k = ([], .error .other) := by
  simp [tableGet, popLoop]

theorem tableGet_out' (limit : Nat) (load : κ → Except Err ν) (d : Dict κ ν) (k : κ)
    (hd : Memo load d) (hz : limit = 0 → d = []) :
    (tableGet limit load d k).2 = if limit = 0 then .error .other else load k := by
  by_cases h0 : limit = 0
  · subst h0
    rw [hz rfl, tableGet_zero]
    simp
  · simp only [h0, if_false]
    unfold tableGet
    cases hl : d.lookup k with
    | some g => exact (hd.1 _ (lookup_mem hl)).symm
    | none =>
      simp only
      by_cases hlim : limit ≤ d.length
      · simp only [hlim, if_true]
        obtain ⟨_, _, p3⟩ := popLoop_spec (d.length + 1 - limit) d
        have : (popLoop (d.length + 1 - limit) d).2 = false := by
          cases hr : (popLoop (d.length + 1 - limit) d).2 with
          | false => rfl
          | true => have := p3.mp hr; omega
        simp only [this, Bool.false_eq_true, if_false]
        cases load k <;> rfl
      · simp only [hlim, if_false, Bool.false_eq_true]
        cases load k <;> rfl

end Dict

section
variable {κ γ τ χ ι ρ δ ν σ φ ω : Type} [DecidableEq κ] [DecidableEq ι]
variable (P : Params κ γ τ χ ι ρ δ ν σ φ ω)

theorem loadVia_pos {lim : Nat} (h : 0 < lim) (k : κ) : loadVia P lim k = P.loadGroup k := by
  unfold loadVia
  have : lim ≠ 0 := by omega
  simp [this]

theorem pureFetch_pos {lim : Nat} (h : 0 < lim) (c : Nat) (dir : Dir) (m : ι) :
    pureFetch P lim c dir m = pureFetch P 1 c dir m := by
  unfold pureFetch
  cases P.header dir m with
  | error e => rfl
  | ok kid => simp only [loadVia_pos P h, loadVia_pos P (Nat.one_pos)]

theorem pureFetch_zero (c : Nat) (dir : Dir) (m : ι) (d : δ) : pureFetch P 0 c dir m ≠ .ok d := by
  unfold pureFetch
  cases P.header dir m with
  | error e => simp
  | ok kid => simp [loadVia]

/-- a kept object agrees with a fresh decode of its key (under any positive limit), and its nodes with
    its flag -/
def ObjOk (key : ObjKey ι) (o : Obj δ ν) : Prop :=
  pureFetch P 1 key.1 key.2.1 key.2.2 = .ok o.data ∧
  (o.isWired = true → P.wireFn o.data = .ok o.nodes) ∧ (o.isWired = false → o.nodes = [])

/-- The invariant of every reachable state.  Nothing is said about `regs` and `viewers`: they may hold
    anything. -/
structure Inv (s : State κ γ χ ι ρ δ ν σ) : Prop where
  tables : Memo P.loadGroup s.tables
  compiled : ∀ c, DictOk (compileFor P) ((P.cacheMax c).getD 0) (s.coders c).compiled
  objs : ∀ p ∈ s.objs, ObjOk P p.1 p.2
  zero : s.limit = 0 → s.tables = [] ∧ s.objs = []

theorem Inv.init (lim : Nat) : Inv P (State.init P lim : State κ γ χ ι ρ δ ν σ) :=
  ⟨Memo.nil _, fun _ => DictOk.nil _ _, by simp [State.init], fun _ => ⟨rfl, rfl⟩⟩

theorem stageTables_spec (s : State κ γ χ ι ρ δ ν σ) (k : κ) (h : Inv P s) :
    Inv P (stageTables P s k).1 ∧ (stageTables P s k).2 = loadVia P s.limit k ∧
    (stageTables P s k).1.objs = s.objs ∧ (stageTables P s k).1.limit = s.limit ∧
    (stageTables P s k).1.coders = s.coders ∧ (stageTables P s k).1.viewers = s.viewers := by
  refine ⟨⟨tableGet_memo _ _ _ _ h.tables, h.compiled, h.objs, ?_⟩, ?_, rfl, rfl, rfl, rfl⟩
  · intro h0
    have h0' : s.limit = 0 := h0
    obtain ⟨ht, ho⟩ := h.zero h0'
    refine ⟨?_, ho⟩
    show (tableGet s.limit P.loadGroup s.tables k).1 = []
    rw [h0', ht, tableGet_zero]
  · simp only [stageTables, loadVia]
    exact tableGet_out' _ _ _ _ h.tables (fun h0 => (h.zero h0).1)

theorem loadVia_ok {lim : Nat} {k : κ} {g : γ} (h : loadVia P lim k = .ok g) : P.loadGroup k = .ok g ∧ 0 < lim := by
  unfold loadVia at h
  split at h
  · cases h
  · exact ⟨h, by omega⟩

theorem stageCompiled_spec (s : State κ γ χ ι ρ δ ν σ) (c : Nat) (g : γ) (t : τ) (ids : List Nat) (k : κ)
    (h : Inv P s) (hg : P.loadGroup k = .ok g) (ht : P.build g ids = .ok t) :
    Inv P (stageCompiled P s c g t ids k).1 ∧
    (stageCompiled P s c g t ids k).2 =
      (match P.cacheMax c with | none => .ok none | some _ => (P.compile g t).map some) ∧
    (stageCompiled P s c g t ids k).1.objs = s.objs ∧ (stageCompiled P s c g t ids k).1.limit = s.limit ∧
    (stageCompiled P s c g t ids k).1.viewers = s.viewers ∧ (stageCompiled P s c g t ids k).1.tables = s.tables ∧
    (∀ c', c' ≠ c → (stageCompiled P s c g t ids k).1.coders c' = s.coders c') ∧
    ((stageCompiled P s c g t ids k).1.coders c).regs = (s.coders c).regs := by
  unfold stageCompiled
  cases hc : P.cacheMax c with
  | none => exact ⟨h, rfl, rfl, rfl, rfl, rfl, fun _ _ => rfl, rfl⟩
  | some mx =>
    have hf : compileFor P (ids, k) = P.compile g t := by simp [compileFor, hg, ht]
    have hd : DictOk (compileFor P) mx (s.coders c).compiled := by simpa [hc] using h.compiled c
    refine ⟨⟨h.tables, ?_, h.objs, h.zero⟩, ?_, rfl, rfl, rfl, rfl, ?_, ?_⟩
    · intro c'
      simp only [upd]
      by_cases hcc : c' = c
      · subst hcc
        simp only [if_true, hc, Option.getD_some]
        rw [← hf]
        exact compiledGet_ok _ _ _ _ hd
      · simp only [hcc, if_false]
        exact h.compiled c'
    · simp only
      rw [← hf, compiledGet_out _ _ _ _ hd]
    · intro c' hcc
      simp [upd, hcc]
    · simp [upd]

theorem stageWalk_spec (s : State κ γ χ ι ρ δ ν σ) (c : Nat) (dir : Dir) (g : γ) (t : τ) (oc : Option χ) (m : ι)
    (h : Inv P s) :
    Inv P (stageWalk P s c dir g t oc m).1 ∧
    (stageWalk P s c dir g t oc m).2 = (P.walk dir g t oc m (P.freshRegs dir m)).2 ∧
    (stageWalk P s c dir g t oc m).1.objs = s.objs ∧ (stageWalk P s c dir g t oc m).1.limit = s.limit ∧
    (stageWalk P s c dir g t oc m).1.viewers = s.viewers ∧ (stageWalk P s c dir g t oc m).1.tables = s.tables ∧
    (∀ c', c' ≠ c → (stageWalk P s c dir g t oc m).1.coders c' = s.coders c') ∧
    ((stageWalk P s c dir g t oc m).1.coders c).compiled = (s.coders c).compiled := by
  refine ⟨⟨h.tables, ?_, h.objs, h.zero⟩, rfl, rfl, rfl, rfl, rfl, ?_, ?_⟩
  · intro c'
    simp only [stageWalk, upd]
    by_cases hcc : c' = c
    · subst hcc; simpa using h.compiled c'
    · simpa [hcc] using h.compiled c'
  · intro c' hcc
    simp [stageWalk, upd, hcc]
  · simp [stageWalk, upd]

/-- what `fetch` leaves alone, whatever happens -/
structure Frame (s s' : State κ γ χ ι ρ δ ν σ) (c : Nat) : Prop where
  objs : s'.objs = s.objs
  limit : s'.limit = s.limit
  viewers : s'.viewers = s.viewers
  others : ∀ c', c' ≠ c → s'.coders c' = s.coders c'

theorem Frame.refl (s : State κ γ χ ι ρ δ ν σ) (c : Nat) : Frame s s c := ⟨rfl, rfl, rfl, fun _ _ => rfl⟩

theorem Frame.trans {s s' s'' : State κ γ χ ι ρ δ ν σ} {c : Nat} (a : Frame s s' c) (b : Frame s' s'' c) : Frame s s'' c :=
  ⟨b.objs.trans a.objs, b.limit.trans a.limit, b.viewers.trans a.viewers, fun c' h => (b.others c' h).trans (a.others c' h)⟩

theorem fetch_spec (s : State κ γ χ ι ρ δ ν σ) (c : Nat) (dir : Dir) (m : ι) (h : Inv P s) :
    Inv P (fetch P s c dir m).1 ∧ (fetch P s c dir m).2 = pureFetch P s.limit c dir m ∧
    Frame s (fetch P s c dir m).1 c := by
  unfold fetch fetchWith pureFetch
  cases hh : P.header dir m with
  | error e => exact ⟨h, rfl, Frame.refl s c⟩
  | ok kid =>
    obtain ⟨k, ids⟩ := kid
    simp only
    obtain ⟨i1, o1, b1, l1, c1, v1⟩ := stageTables_spec P s k h
    have f1 : Frame s (stageTables P s k).1 c := ⟨b1, l1, v1, fun c' _ => by rw [c1]⟩
    rw [o1]
    cases hl : loadVia P s.limit k with
    | error e => exact ⟨i1, rfl, f1⟩
    | ok g =>
      simp only
      cases hb : P.build g ids with
      | error e => exact ⟨i1, rfl, f1⟩
      | ok t =>
        simp only
        obtain ⟨i2, o2, b2, l2, v2, _, c2, _⟩ :=
          stageCompiled_spec P (stageTables P s k).1 c g t ids k i1 (loadVia_ok P hl).1 hb
        have f2 : Frame s (stageCompiled P (stageTables P s k).1 c g t ids k).1 c :=
          f1.trans ⟨b2, l2, v2, c2⟩
        rw [o2]
        cases hc : P.cacheMax c with
        | none =>
          simp only
          obtain ⟨i3, o3, b3, l3, v3, _, c3, _⟩ :=
            stageWalk_spec P (stageCompiled P (stageTables P s k).1 c g t ids k).1 c dir g t none m i2
          exact ⟨i3, o3, f2.trans ⟨b3, l3, v3, c3⟩⟩
        | some mx =>
          simp only
          cases hcp : P.compile g t with
          | error e => exact ⟨i2, rfl, f2⟩
          | ok x =>
            simp only [Except.map]
            obtain ⟨i3, o3, b3, l3, v3, _, c3, _⟩ :=
              stageWalk_spec P (stageCompiled P (stageTables P s k).1 c g t ids k).1 c dir g t (some x) m i2
            exact ⟨i3, o3, f2.trans ⟨b3, l3, v3, c3⟩⟩

theorem keep_inv (s : State κ γ χ ι ρ δ ν σ) (key : ObjKey ι) (o : Obj δ ν) (h : Inv P s) (ho : ObjOk P key o)
    (hl : 0 < s.limit) : Inv P (keep s key o) := by
  refine ⟨h.tables, h.compiled, ?_, ?_⟩
  · intro p hp
    simp only [keep, List.mem_cons] at hp
    rcases hp with rfl | hp
    · exact ho
    · exact h.objs p hp
  · intro h0
    have : s.limit = 0 := h0
    omega

theorem wire_spec (key : ObjKey ι) (o : Obj δ ν) (ho : ObjOk P key o) :
    ObjOk P key (o.wire P.wireFn).1 ∧ (o.wire P.wireFn).1.data = o.data ∧
    (match P.wireFn o.data with
     | .error e => (o.wire P.wireFn).2 = .error e
     | .ok ns => (o.wire P.wireFn).2 = .ok () ∧ (o.wire P.wireFn).1.nodes = ns) := by
  obtain ⟨h1, h2, h3⟩ := ho
  unfold Obj.wire
  cases hw : o.isWired with
  | true =>
    rw [if_pos rfl]
    refine ⟨⟨h1, h2, h3⟩, rfl, ?_⟩
    rw [h2 hw]
    exact ⟨rfl, rfl⟩
  | false =>
    rw [if_neg Bool.false_ne_true]
    cases hf : P.wireFn o.data with
    | error e =>
      exact ⟨⟨h1, fun h => (by cases h), fun _ => rfl⟩, rfl, rfl⟩
    | ok ns =>
      have hn : o.nodes ++ ns = ns := by rw [h3 hw]; rfl
      refine ⟨⟨h1, fun _ => ?_, fun h => (by cases h)⟩, rfl, rfl, hn⟩
      show P.wireFn o.data = .ok (o.nodes ++ ns)
      rw [hn, hf]

/-- the limit is positive as soon as something was fetched or is kept -/
theorem limit_pos_of_fetch {s : State κ γ χ ι ρ δ ν σ} {c : Nat} {dir : Dir} {m : ι} {d : δ}
    (h : pureFetch P s.limit c dir m = .ok d) : 0 < s.limit := by
  rcases Nat.eq_zero_or_pos s.limit with h0 | hp
  · rw [h0] at h; exact absurd h (pureFetch_zero P c dir m d)
  · exact hp

theorem limit_pos_of_obj {s : State κ γ χ ι ρ δ ν σ} (h : Inv P s) {p : ObjKey ι × Obj δ ν} (hp : p ∈ s.objs) :
    0 < s.limit := by
  rcases Nat.eq_zero_or_pos s.limit with h0 | hp'
  · have := (h.zero h0).2; rw [this] at hp; cases hp
  · exact hp'

theorem obtain_spec (s : State κ γ χ ι ρ δ ν σ) (c : Nat) (dir : Dir) (m : ι) (h : Inv P s) :
    Inv P (obtain P s c dir m).1 ∧ (obtain P s c dir m).1.limit = s.limit ∧
    (match (obtain P s c dir m).2 with
     | .error e => pureFetch P s.limit c dir m = .error e
     | .ok o => ObjOk P (c, dir, m) o ∧ pureFetch P s.limit c dir m = .ok o.data) := by
  unfold obtain
  cases hl : s.objs.lookup (c, dir, m) with
  | some o =>
    have hm := lookup_mem' hl
    have ho := h.objs _ hm
    refine ⟨h, rfl, ho, ?_⟩
    rw [pureFetch_pos P (limit_pos_of_obj P h hm)]
    exact ho.1
  | none =>
    obtain ⟨i1, o1, f1⟩ := fetch_spec P s c dir m h
    refine ⟨i1, f1.limit, ?_⟩
    simp only
    rw [o1]
    cases hp : pureFetch P s.limit c dir m with
    | error e => rfl
    | ok d =>
      refine ⟨⟨?_, by simp, by simp⟩, rfl⟩
      rw [← pureFetch_pos P (limit_pos_of_fetch P hp)]
      exact hp

theorem runViewer_spec (s : State κ γ χ ι ρ δ ν σ) (r : Nat) (v : φ) (d : δ) (ns : List ν) (h : Inv P s) :
    Inv P (runViewer P s r v d ns).1 ∧ (runViewer P s r v d ns).2 = (P.view v d ns P.viewerInit).2 ∧
    (runViewer P s r v d ns).1.limit = s.limit :=
  ⟨⟨h.tables, h.compiled, h.objs, h.zero⟩, rfl, rfl⟩

/-- Main lemma: from a state satisfying the invariant, an operation returns the output of the stateless
    specification under the limit in force, and leads to a state satisfying the invariant whose limit is
    the configuration after the operation. -/
theorem step_spec (s : State κ γ χ ι ρ δ ν σ) (op : Op κ ι φ) (h : Inv P s)
    (hpos : ∀ n, op = .setLimit n → 0 < n) :
    Inv P (step P s op).1 ∧ (step P s op).2 = pureOut P s.limit op ∧
    (step P s op).1.limit = cfgAfter s.limit op := by
  cases op with
  | proc c dir m w =>
    obtain ⟨i1, o1, f1⟩ := fetch_spec P s c dir m h
    simp only [step, pureOut, cfgAfter]
    rw [o1]
    cases hp : pureFetch P s.limit c dir m with
    | error e => exact ⟨i1, rfl, f1.limit⟩
    | ok d =>
      simp only
      have hl : 0 < (fetch P s c dir m).1.limit := by rw [f1.limit]; exact limit_pos_of_fetch P hp
      have ho : ObjOk P (c, dir, m) ({ data := d, nodes := [], isWired := false } : Obj δ ν) :=
        ⟨by rw [← pureFetch_pos P (limit_pos_of_fetch P hp)]; exact hp, by simp, by simp⟩
      cases w with
      | false => exact ⟨keep_inv P _ _ _ i1 ho hl, rfl, f1.limit⟩
      | true =>
        simp only [if_true]
        obtain ⟨w1, _, w3⟩ := wire_spec P (c, dir, m) _ ho
        simp only at w3
        cases hw : P.wireFn d with
        | error e =>
          rw [hw] at w3
          simp only at w3
          rw [w3]
          exact ⟨i1, rfl, f1.limit⟩
        | ok ns =>
          rw [hw] at w3
          simp only at w3
          rw [w3.1]
          exact ⟨keep_inv P _ _ _ i1 w1 hl, rfl, f1.limit⟩
  | wire c dir m =>
    obtain ⟨i1, l1, o1⟩ := obtain_spec P s c dir m h
    simp only [step, pureOut, cfgAfter]
    cases hr : (obtain P s c dir m).2 with
    | error e =>
      rw [hr] at o1
      simp only at o1
      rw [o1]
      exact ⟨i1, rfl, l1⟩
    | ok o =>
      rw [hr] at o1
      simp only at o1
      obtain ⟨w1, w2, w3⟩ := wire_spec P (c, dir, m) o o1.1
      have hl : 0 < (obtain P s c dir m).1.limit := by rw [l1]; exact limit_pos_of_fetch P o1.2
      simp only
      rw [o1.2]
      simp only
      refine ⟨keep_inv P _ _ _ i1 w1 hl, ?_, l1⟩
      cases hw : P.wireFn o.data with
      | error e => rw [hw] at w3; simp only at w3; rw [w3]
      | ok ns => rw [hw] at w3; simp only at w3; rw [w3.1]
  | view rr c dir m v =>
    obtain ⟨i1, l1, o1⟩ := obtain_spec P s c dir m h
    simp only [step, pureOut, cfgAfter]
    cases hr : (obtain P s c dir m).2 with
    | error e =>
      rw [hr] at o1
      simp only at o1
      rw [o1]
      exact ⟨i1, rfl, l1⟩
    | ok o =>
      rw [hr] at o1
      simp only at o1
      obtain ⟨w1, w2, w3⟩ := wire_spec P (c, dir, m) o o1.1
      have hl : 0 < (obtain P s c dir m).1.limit := by rw [l1]; exact limit_pos_of_fetch P o1.2
      have ik := keep_inv P _ (c, dir, m) (o.wire P.wireFn).1 i1 w1 hl
      simp only
      rw [o1.2]
      simp only
      cases hw : P.wireFn o.data with
      | error e =>
        rw [hw] at w3; simp only at w3; rw [w3]
        exact ⟨ik, rfl, l1⟩
      | ok ns =>
        rw [hw] at w3; simp only at w3; rw [w3.1]
        simp only
        obtain ⟨v1, v2, v3⟩ := runViewer_spec P (keep (obtain P s c dir m).1 (c, dir, m) (o.wire P.wireFn).1) rr v
          (o.wire P.wireFn).1.data (o.wire P.wireFn).1.nodes ik
        refine ⟨v1, ?_, v3.trans l1⟩
        rw [v2, w3.2, w2]
  | drop c dir m =>
    refine ⟨⟨h.tables, h.compiled, ?_, ?_⟩, rfl, rfl⟩
    · intro p hp
      simp only [step] at hp
      exact h.objs p (List.mem_filter.mp hp).1
    · intro h0
      obtain ⟨a, b⟩ := h.zero h0
      refine ⟨a, ?_⟩
      simp only [step]
      rw [b]
      rfl
  | dropAll =>
    exact ⟨⟨h.tables, h.compiled, by simp [step], fun h0 => ⟨(h.zero h0).1, rfl⟩⟩, rfl, rfl⟩
  | invalidate =>
    exact ⟨⟨Memo.nil _, h.compiled, h.objs, fun h0 => ⟨rfl, (h.zero h0).2⟩⟩, rfl, rfl⟩
  | setLimit n =>
    refine ⟨⟨h.tables, h.compiled, h.objs, ?_⟩, rfl, rfl⟩
    intro h0
    have : n = 0 := h0
    have := hpos n rfl
    omega
  | tables k =>
    obtain ⟨i1, o1, _, l1, _, _⟩ := stageTables_spec P s k h
    simp only [step, pureOut, cfgAfter]
    rw [o1]
    exact ⟨i1, rfl, l1⟩

/-- no `setLimit 0` in a history -/
def PosLimits (ops : List (Op κ ι φ)) : Prop := ∀ n, Op.setLimit n ∈ ops → 0 < n

theorem run_spec (s : State κ γ χ ι ρ δ ν σ) (ops : List (Op κ ι φ)) (h : Inv P s) (hpos : PosLimits ops) :
    Inv P (run P s ops).1 ∧ (run P s ops).2 = specRun P s.limit ops := by
  induction ops generalizing s with
  | nil => exact ⟨h, rfl⟩
  | cons op ops ih =>
    obtain ⟨i1, o1, l1⟩ := step_spec P s op h (fun n hn => hpos n (by rw [hn]; exact List.mem_cons_self))
    obtain ⟨i2, o2⟩ := ih (step P s op).1 i1 (fun n hn => hpos n (List.mem_cons_of_mem _ hn))
    simp only [run, specRun]
    exact ⟨i2, by rw [o1, o2, l1]⟩

/-- the limit in force after a history -/
def cfgRun (lim : Nat) : List (Op κ ι φ) → Nat
  | [] => lim
  | op :: ops => cfgRun (cfgAfter lim op) ops

theorem run_limit (s : State κ γ χ ι ρ δ ν σ) (ops : List (Op κ ι φ)) (h : Inv P s) (hpos : PosLimits ops) :
    (run P s ops).1.limit = cfgRun s.limit ops := by
  induction ops generalizing s with
  | nil => rfl
  | cons op ops ih =>
    obtain ⟨i1, _, l1⟩ := step_spec P s op h (fun n hn => hpos n (by rw [hn]; exact List.mem_cons_self))
    have := ih (step P s op).1 i1 (fun n hn => hpos n (List.mem_cons_of_mem _ hn))
    simp only [run, cfgRun]
    rw [this, l1]

end

end Bufr.Session
