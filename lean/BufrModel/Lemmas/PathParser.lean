/-
  Helper lemmas for C15 (state machine vs. recursive-descent recogniser).
-/
import BufrModel.Lang.PathParser
import BufrModel.Spec.PathGrammar
namespace Bufr.PathLang

end Bufr.PathLang
