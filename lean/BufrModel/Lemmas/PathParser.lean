/-
  Helper lemmas for C15, part 1: what the state machine of `Lang/PathParser.lean` does on
  whitespace, on runs of plain characters, and on the body of a slice.
-/
import BufrModel.Lang.PathParser
import BufrModel.Spec.PathGrammar
namespace Bufr.PathLang
open Spec

/-! ### character classes -/

theorem isSpecial_iff (c : Char) :
    isSpecial c = true ↔ c = '@' ∨ c = '[' ∨ c = ']' ∨ c = ':' ∨ c = '/' ∨ c = '.' ∨ c = '>' := by
  simp [isSpecial, or_assoc]

theorem isSep_iff (c : Char) : isSep c = true ↔ c = '/' ∨ c = '.' ∨ c = '>' := by
  simp [isSep, or_assoc]

theorem isSep_special {c : Char} (h : isSep c = true) : isSpecial c = true := by
  rw [isSep_iff] at h; rw [isSpecial_iff]
  rcases h with h | h | h <;> simp [h]

theorem isSep_not_ws {c : Char} (h : isSep c = true) : isWs c = false := by
  rw [isSep_iff] at h; rcases h with h | h | h <;> subst h <;> decide

/-- a character that is neither whitespace nor one of `@[]:/.>` -/
def Plain (c : Char) : Prop := isSpecial c = false ∧ isWs c = false

/-! ### running the machine -/

/-- the main loop followed by the end-of-input handling -/
def runFin (s : PS) (cs : List Char) : PR Path :=
  match run s cs with
  | .error e => .error e
  | .ok s' => finish s'

@[simp] theorem runFin_nil (s : PS) : runFin s [] = finish s := rfl

theorem runFin_cons (s : PS) (c : Char) (cs : List Char) :
    runFin s (c :: cs) = match step s c with
      | .error e => .error e
      | .ok s' => runFin s' cs := by
  simp only [runFin, run]
  cases step s c <;> rfl

theorem run_append (s : PS) (a b : List Char) :
    run s (a ++ b) = match run s a with
      | .error e => .error e
      | .ok s' => run s' b := by
  induction a generalizing s with
  | nil => rfl
  | cons c a ih =>
    simp only [List.cons_append, run]
    cases step s c with
    | error e => rfl
    | ok s' => exact ih s'

theorem runFin_append (s : PS) (a b : List Char) :
    runFin s (a ++ b) = match run s a with
      | .error e => .error e
      | .ok s' => runFin s' b := by
  simp only [runFin, run_append]
  cases run s a <;> rfl

theorem step_ws (s : PS) (c : Char) (h : isWs c = true) : step s c = .ok s := by
  simp [step, h]

/-- whitespace is ignored by the main loop -/
theorem run_filter_ws (s : PS) (cs : List Char) :
    run s cs = run s (cs.filter (fun c => !isWs c)) := by
  induction cs generalizing s with
  | nil => rfl
  | cons c cs ih =>
    by_cases h : isWs c = true
    · simp only [List.filter_cons, h, Bool.not_true, Bool.false_eq_true, if_false, run, step_ws s c h]
      exact ih s
    · simp only [List.filter_cons, h, Bool.not_false, if_true, run]
      cases step s c with
      | error e => rfl
      | ok s' => exact ih s'

theorem parse_eq (input : List Char) :
    parse input = match input.filter (fun c => !isWs c) with
      | [] => .error .path
      | c :: cs => if firstOk c = false then .error .path else runFin {} (c :: cs) := by
  unfold parse
  have h := run_filter_ws {} input
  cases hf : input.filter (fun c => !isWs c) with
  | nil => rfl
  | cons c cs =>
    simp only [runFin]
    rw [hf] at h
    rw [h]
    cases firstOk c <;> rfl

/-! ### states -/

/-- the states in which ordinary characters accumulate in `token` -/
def accSt : PState → Bool
  | .startId | .subsetSlice0 | .subsetSliceX | .slice0 | .sliceX => true
  | _ => false

def inSlice : PState → Bool
  | .slice0 | .sliceX | .subsetSlice0 | .subsetSliceX => true
  | _ => false

def is0 : PState → Bool
  | .slice0 | .subsetSlice0 => true
  | _ => false

def toX : PState → PState
  | .slice0 => .sliceX
  | .subsetSlice0 => .subsetSliceX
  | s => s

def toStop : PState → PState
  | .slice0 | .sliceX => .stopSlice
  | _ => .stopSubsetSlice

theorem step_plain (s : PS) (c : Char) (hc : Plain c) (hs : accSt s.st = true) :
    step s c = .ok { s with token := s.token ++ [c] } := by
  obtain ⟨h1, h2⟩ := hc
  have h3 : ¬ (c = '@' ∨ c = '[' ∨ c = ']' ∨ c = ':' ∨ c = '/' ∨ c = '.' ∨ c = '>') := by
    rw [← isSpecial_iff]; simp [h1]
  have hsep : isSep c = false := by
    cases h : isSep c
    · rfl
    · rw [isSep_special h] at h1; cases h1
  simp only [not_or] at h3
  obtain ⟨n1, n2, n3, n4, _, _, _⟩ := h3
  have e1 : (c == '@') = false := by simp [n1]
  have e2 : (c == '[') = false := by simp [n2]
  have e3 : (c == ']') = false := by simp [n3]
  have e4 : (c == ':') = false := by simp [n4]
  simp only [step, h2, e1, e2, e3, e4, hsep, Bool.false_eq_true, if_false, Bool.or_self]
  cases hst : s.st <;> simp_all [accSt]

theorem run_plain (w : List Char) : ∀ (s : PS) (rest : List Char), (∀ c ∈ w, Plain c) → accSt s.st = true →
    run s (w ++ rest) = run { s with token := s.token ++ w } rest := by
  induction w with
  | nil => intro s rest _ _; simp
  | cons c w ih =>
    intro s rest hw hs
    simp only [List.cons_append, run]
    rw [step_plain s c (hw c (by simp)) hs]
    simp only
    rw [ih { s with token := s.token ++ [c] } rest (fun c hc => hw c (by simp [hc])) hs]
    simp

end Bufr.PathLang
