/-
  C07, list lemmas about the look-ups of `Spec.links` (`positions`, `lastBelow`, `plainBelow`, `defAt`,
  `defs`): how each of them changes when ONE item is appended to the item list.  Used by
  Lemmas/LinksFold.lean to show that `Spec.links` (an after-the-fact recomputation on the finished
  list) is a left fold over the items.
-/
import BufrModel.Spec.Links
namespace Bufr.Spec

/-! ### generic list facts -/

theorem takeWhile_append_stop {α : Type} (q : α → Bool) (X : List α) (y : α) (Z : List α) (hy : q y = false) :
    (X ++ y :: Z).takeWhile q = X.takeWhile q := by
  induction X with
  | nil => simp [List.takeWhile, hy]
  | cons a X ih =>
    simp only [List.cons_append, List.takeWhile_cons]
    split
    · rw [ih]
    · rfl

theorem takeWhile_all {α : Type} (q : α → Bool) (X : List α) (h : ∀ a ∈ X, q a = true) : X.takeWhile q = X := by
  induction X with
  | nil => rfl
  | cons a X ih =>
    simp only [List.takeWhile_cons, h a (by simp), if_true]
    rw [ih (fun b hb => h b (by simp [hb]))]

theorem takeWhile_all_append {α : Type} (q : α → Bool) (X Y : List α) (h : ∀ a ∈ X, q a = true) :
    (X ++ Y).takeWhile q = X ++ Y.takeWhile q := by
  induction X with
  | nil => rfl
  | cons a X ih =>
    simp only [List.cons_append, List.takeWhile_cons, h a (by simp), if_true]
    rw [ih (fun b hb => h b (by simp [hb]))]

theorem filterMap_congr' {α β : Type} {f g : α → Option β} (l : List α) (h : ∀ a ∈ l, f a = g a) :
    l.filterMap f = l.filterMap g := by
  induction l with
  | nil => rfl
  | cons a l ih =>
    simp only [List.filterMap_cons, h a (by simp)]
    rw [ih (fun b hb => h b (by simp [hb]))]

/-- induction by appending one element at the end -/
theorem snoc_induction {α : Type} {P : List α → Prop} (nil : P []) (snoc : ∀ l x, P l → P (l ++ [x])) : ∀ l, P l := by
  intro l
  have : ∀ r : List α, P r.reverse := by
    intro r
    induction r with
    | nil => exact nil
    | cons a r ih => rw [List.reverse_cons]; exact snoc _ _ ih
  have h := this l.reverse
  rwa [List.reverse_reverse] at h

theorem getLast?_append_singleton {α : Type} (l : List α) (x : α) : (l ++ [x]).getLast? = some x := by
  simp

/-! ### `positions` -/

theorem getElem?_snoc_lt {α : Type} (l : List α) (x : α) (i : Nat) (h : i < l.length) : (l ++ [x])[i]? = l[i]? := by
  rw [List.getElem?_append_left h]

theorem getElem?_snoc_eq {α : Type} (l : List α) (x : α) : (l ++ [x])[l.length]? = some x := by
  simp

theorem positions_snoc (f : Item → Bool) (pre : List Item) (x : Item) :
    positions f (pre ++ [x]) = positions f pre ++ (if f x then [pre.length] else []) := by
  unfold positions
  rw [List.length_append, List.length_singleton, List.range_succ, List.filter_append]
  congr 1
  · apply List.filter_congr
    intro p hp
    rw [getElem?_snoc_lt _ _ _ (List.mem_range.mp hp)]
  · simp only [List.filter_cons, List.filter_nil, getElem?_snoc_eq, Option.map_some, Option.getD_some]

theorem positions_nil (f : Item → Bool) : positions f [] = [] := rfl

theorem mem_positions (f : Item → Bool) (its : List Item) (p : Nat) :
    p ∈ positions f its ↔ ∃ it, its[p]? = some it ∧ f it = true := by
  unfold positions
  rw [List.mem_filter, List.mem_range]
  constructor
  · rintro ⟨h1, h2⟩
    have : its[p]? = some its[p] := List.getElem?_eq_getElem h1
    rw [this] at h2
    exact ⟨_, this, by simpa using h2⟩
  · rintro ⟨it, h1, h2⟩
    have hl := (List.getElem?_eq_some_iff.mp h1).1
    exact ⟨hl, by simp [h1, h2]⟩

theorem positions_lt (f : Item → Bool) (its : List Item) : ∀ p ∈ positions f its, p < its.length := by
  intro p hp
  unfold positions at hp
  exact List.mem_range.mp (List.mem_filter.mp hp).1

/-- no item satisfies `f`: no positions -/
theorem positions_none (f : Item → Bool) (its : List Item) (h : ∀ it ∈ its, f it = false) : positions f its = [] := by
  rw [List.eq_nil_iff_forall_not_mem]
  intro p hp
  obtain ⟨it, h1, h2⟩ := (mem_positions f its p).mp hp
  have := h it (List.mem_of_getElem? h1)
  rw [this] at h2; cases h2

/-- the last position satisfying `f` -/
def lastPos (f : Item → Bool) (its : List Item) : Option Nat := (positions f its).getLast?

theorem lastBelow_eq (f : Item → Bool) (its : List Item) (i : Nat) : lastBelow f its i = lastPos f (its.take i) := rfl

theorem lastPos_snoc (f : Item → Bool) (pre : List Item) (x : Item) :
    lastPos f (pre ++ [x]) = if f x then some pre.length else lastPos f pre := by
  unfold lastPos
  rw [positions_snoc]
  split
  · simp
  · simp

theorem lastPos_lt (f : Item → Bool) (its : List Item) (p : Nat) (h : lastPos f its = some p) : p < its.length :=
  positions_lt f its p (List.mem_of_getLast? h)

theorem take_snoc_le {α : Type} (l : List α) (x : α) (i : Nat) (h : i ≤ l.length) : (l ++ [x]).take i = l.take i := by
  rw [List.take_append_of_le_length h]

/-! ### `plainBelow` -/

theorem plainBelow_snoc_lt (pre : List Item) (x : Item) (p : Nat) (h : p ≤ pre.length) :
    plainBelow (pre ++ [x]) p = plainBelow pre p := by
  unfold plainBelow
  apply filterMap_congr'
  intro i hi
  rw [getElem?_snoc_lt _ _ _ (by have := List.mem_range.mp hi; omega)]

theorem plainBelow_succ (its : List Item) (p : Nat) :
    plainBelow its (p + 1) = plainBelow its p ++ ((its[p]?.bind plainElem?).map fun e => (p, e)).toList := by
  unfold plainBelow
  rw [List.range_succ, List.filterMap_append]
  congr 1

theorem plainBelow_snoc (pre : List Item) (x : Item) :
    plainBelow (pre ++ [x]) (pre.length + 1) =
      plainBelow pre pre.length ++ ((plainElem? x).map fun e => (pre.length, e)).toList := by
  rw [plainBelow_succ, plainBelow_snoc_lt _ _ _ (Nat.le_refl _), getElem?_snoc_eq]
  rfl

/-- `plainBelow` only looks at the items below `p` -/
theorem plainBelow_append (A B : List Item) (p : Nat) (h : p ≤ A.length) : plainBelow (A ++ B) p = plainBelow A p := by
  unfold plainBelow
  apply filterMap_congr'
  intro i hi
  rw [List.getElem?_append_left (by have := List.mem_range.mp hi; omega)]

/-! ### `defAt` and `defs` -/

def notOp (it : Item) : Bool := !isBitmapOp it

/-- the definition that an operator at `p` introduces when `seg` is what follows it up to the next operator -/
def segDef (p : Nat) (seg : List Item) : Option BitmapDef :=
  if (seg.head?.map (isOper 237000)).getD false then none
  else
    let pre := seg.takeWhile fun it => !isBit it
    let run := (seg.drop pre.length).takeWhile isBit
    if run.isEmpty then none
    else some { op := p, eff := p + 1 + pre.length + run.length, bits := run.map (·.2),
                reusable := (seg.head?.map (isOper 236000)).getD false }

theorem defAt_eq (its : List Item) (p : Nat) : defAt its p = segDef p ((its.drop (p + 1)).takeWhile notOp) := rfl

/-- appending a bit-map operator changes no definition -/
theorem defs_snoc_op (pre : List Item) (x : Item) (hx : isBitmapOp x = true) : defs (pre ++ [x]) = defs pre := by
  unfold defs
  rw [positions_snoc, if_pos hx, List.filterMap_append]
  have h1 : [pre.length].filterMap (defAt (pre ++ [x])) = [] := by
    simp only [List.filterMap_cons, List.filterMap_nil, defAt_eq]
    have : (pre ++ [x]).drop (pre.length + 1) = [] := by simp
    rw [this]
    rfl
  rw [h1, List.append_nil]
  apply filterMap_congr'
  intro q hq
  have hq' := positions_lt _ _ q hq
  rw [defAt_eq, defAt_eq, List.drop_append_of_le_length (by omega)]
  rw [takeWhile_append_stop notOp _ x [] (by simp [notOp, hx])]

/-- with the last operator at `|A|` and `B` free of operators: the definitions of the earlier operators do not
    depend on `B`, the last operator defines `segDef |A| B` -/
theorem defs_split (A : List Item) (op : Item) (B : List Item) (hop : isBitmapOp op = true)
    (hB : ∀ b ∈ B, isBitmapOp b = false) :
    defs (A ++ op :: B) = defs A ++ (segDef A.length B).toList := by
  have hpos : positions isBitmapOp (A ++ op :: B) = positions isBitmapOp A ++ [A.length] := by
    revert hB
    refine snoc_induction (P := fun B => (∀ b ∈ B, isBitmapOp b = false) →
      positions isBitmapOp (A ++ op :: B) = positions isBitmapOp A ++ [A.length]) ?_ ?_ B
    · intro _
      have := positions_snoc isBitmapOp A op
      rw [if_pos hop] at this
      exact this
    · intro B b ih hB
      have e : A ++ op :: (B ++ [b]) = (A ++ op :: B) ++ [b] := by simp
      rw [e, positions_snoc, ih (fun c hc => hB c (by simp [hc])), hB b (by simp)]
      simp
  unfold defs
  rw [hpos, List.filterMap_append]
  congr 1
  · apply filterMap_congr'
    intro q hq
    have hq' := positions_lt _ _ q hq
    rw [defAt_eq, defAt_eq, List.drop_append_of_le_length (by omega)]
    rw [takeWhile_append_stop notOp _ op B (by simp [notOp, hop])]
  · simp only [List.filterMap_cons, List.filterMap_nil, defAt_eq]
    have e1 : (A ++ op :: B).drop (A.length + 1) = B := by
      rw [show A ++ op :: B = (A ++ [op]) ++ B by simp]
      rw [List.drop_append_of_le_length (by simp)]
      simp
    rw [e1, takeWhile_all notOp B (fun b hb => by simp [notOp, hB b hb])]
    cases segDef A.length B <;> rfl

end Bufr.Spec
