/-
  A generic SIMULATION THEOREM for the template walk (`Coder/Walk.lean`).

  The walk is generic in the primitive operations `P : Prims`; its control flow depends only on the
  registers `s.regs`, on `s.descs` (length, back references) and on the results of `P.factorValue`
  (through `factorCount`) and `P.lastValues` (through `buildBitmapped`, which only looks at the
  length of the bitmap and at which entries are `Val.int 0`).  Two runs of the walk with different
  primitives therefore stay in lock-step as long as the primitives preserve a relation `Rel` that
  forces the control-relevant parts of the two states to agree.

  The relation is INDEXED (`Rel : I → St → St → Prop`, `Ix : I → St → Prop`): the index flows
  BACKWARDS along the run of `P` while the states are related FORWARDS.  This is what the
  encode → decode instance needs (the decoder must be started on a stream that begins with what the
  encoder is *going to* write: index = the decoder's remaining stream).  Plain forward simulation
  is the special case `I = Unit`, `Ix = fun _ _ => True` (`walk_sim`, `walk1_sim'` below).
-/
import BufrModel.Coder.Walk
set_option linter.unusedSimpArgs false
namespace Bufr

/-! ### projections of the state updates the walk performs -/

@[simp] theorem St.setRegs_regs (s : St) (f : Regs → Regs) : (s.setRegs f).regs = f s.regs := rfl
@[simp] theorem St.setRegs_descs (s : St) (f : Regs → Regs) : (s.setRegs f).descs = s.descs := rfl
@[simp] theorem St.setRegs_links (s : St) (f : Regs → Regs) : (s.setRegs f).links = s.links := rfl
@[simp] theorem St.setRegs_bits (s : St) (f : Regs → Regs) : (s.setRegs f).bits = s.bits := rfl
@[simp] theorem St.setRegs_vals (s : St) (f : Regs → Regs) : (s.setRegs f).vals = s.vals := rfl
@[simp] theorem St.setRegs_idx (s : St) (f : Regs → Regs) : (s.setRegs f).idx = s.idx := rfl
@[simp] theorem St.setRegs_aux (s : St) (f : Regs → Regs) : (s.setRegs f).aux = s.aux := rfl
@[simp] theorem St.setRegs_forced (s : St) (f : Regs → Regs) : (s.setRegs f).forced = s.forced := rfl
@[simp] theorem addLink_regs (s : St) (o : Nat) : (addLink s o).regs = s.regs := rfl
@[simp] theorem addLink_descs (s : St) (o : Nat) : (addLink s o).descs = s.descs := rfl
@[simp] theorem addLink_links (s : St) (o : Nat) :
    (addLink s o).links = (s.descs.length, o) :: s.links := rfl
@[simp] theorem addLink_bits (s : St) (o : Nat) : (addLink s o).bits = s.bits := rfl
@[simp] theorem addLink_vals (s : St) (o : Nat) : (addLink s o).vals = s.vals := rfl
@[simp] theorem addLink_idx (s : St) (o : Nat) : (addLink s o).idx = s.idx := rfl
@[simp] theorem addLink_aux (s : St) (o : Nat) : (addLink s o).aux = s.aux := rfl
@[simp] theorem addLink_forced (s : St) (o : Nat) : (addLink s o).forced = s.forced := rfl

/-- which entries of a bitmap are the integer zero: all that `buildBitmapped` looks at -/
def zeroMask (l : List Val) : List Bool := l.map (· == Val.int 0)

section
variable {I : Type}

/-- "the run `r` of the left program from `s` is simulated by the right program `B`":
    if the left run succeeds with `s'`, then for every index `j` admissible for `s'` there is an
    index `i` admissible for `s` such that from every state related to `s` at `i` the right program
    succeeds in a state related to `s'` at `j`. -/
def SimAt (Ix : I → St → Prop) (Rel : I → St → St → Prop) (s : St) (r : CM St) (B : St → CM St) :
    Prop :=
  ∀ s', r = .ok s' → ∀ j, Ix j s' →
    ∃ i, Ix i s ∧ ∀ t, Rel i s t → ∃ t', B t = .ok t' ∧ Rel j s' t'

/-- The primitives `Q` simulate the primitives `P` with respect to the indexed relation `Rel`. -/
structure PrimSim (P Q : Prims) (Ix : I → St → Prop) (Rel : I → St → St → Prop) : Prop where
  /-- related states agree on everything the control flow of the walk looks at -/
  agree : ∀ {i s t}, Rel i s t → t.regs = s.regs ∧ t.descs = s.descs ∧ t.links = s.links
  /-- the relation is stable under the register updates of the walk -/
  rel_setRegs : ∀ {i s t} (f : Regs → Regs), Rel i s t → Rel i (s.setRegs f) (t.setRegs f)
  /-- … and under the recording of an attribute link -/
  rel_addLink : ∀ {i s t} (o : Nat), Rel i s t → Rel i (addLink s o) (addLink t o)
  ix_setRegs : ∀ {i s} (f : Regs → Regs), Ix i (s.setRegs f) ↔ Ix i s
  ix_addLink : ∀ {i s} (o : Nat), Ix i (addLink s o) ↔ Ix i s
  numeric : ∀ dd nb sc rf s, SimAt Ix Rel s (P.numeric dd nb sc rf s) (Q.numeric dd nb sc rf)
  string : ∀ dd n s, SimAt Ix Rel s (P.string dd n s) (Q.string dd n)
  codeflag : ∀ dd n s, SimAt Ix Rel s (P.codeflag dd n s) (Q.codeflag dd n)
  newRefval : ∀ e n s, SimAt Ix Rel s (P.newRefval e n s) (Q.newRefval e n)
  constant : ∀ dd c s, SimAt Ix Rel s (P.constant dd c s) (Q.constant dd c)
  /-- the replication count derived from the factor is the same on both sides -/
  factor : ∀ {i s t n}, Rel i s t → (P.factorValue s >>= factorCount) = .ok n →
    (Q.factorValue t >>= factorCount) = .ok n
  /-- the bitmaps seen on both sides have the same length and the same zero entries -/
  lastValues : ∀ {i s t n l}, Rel i s t → P.lastValues n s = .ok l →
    ∃ l', Q.lastValues n t = .ok l' ∧ zeroMask l' = zeroMask l

/-! ### combinators -/

variable {P Q : Prims} {Ix : I → St → Prop} {Rel : I → St → St → Prop}

theorem simAt_error (s : St) (e : Err) (B : St → CM St) : SimAt Ix Rel s (.error e) B := by
  intro s' h; cases h

/-- the right program may be rewritten using the agreement of the control-relevant parts -/
theorem SimAt.congr (h : PrimSim P Q Ix Rel) {s : St} {r : CM St} {B B' : St → CM St}
    (hB : ∀ t, t.regs = s.regs → t.descs = s.descs → B t = B' t)
    (hs : SimAt Ix Rel s r B') : SimAt Ix Rel s r B := by
  intro s' hr j hj
  obtain ⟨i, hi, ht⟩ := hs s' hr j hj
  refine ⟨i, hi, fun t hrel => ?_⟩
  obtain ⟨hregs, hdescs, _⟩ := h.agree hrel
  rw [hB t hregs hdescs]
  exact ht t hrel

theorem simAt_id (s : St) : SimAt Ix Rel s (.ok s) (fun t => .ok t) := by
  intro s' hr j hj
  cases hr
  exact ⟨j, hj, fun t hrel => ⟨t, rfl, hrel⟩⟩

theorem simAt_setRegs (h : PrimSim P Q Ix Rel) (s : St) (f : Regs → Regs) :
    SimAt Ix Rel s (.ok (s.setRegs f)) (fun t => .ok (t.setRegs f)) := by
  intro s' hr j hj
  cases hr
  exact ⟨j, (h.ix_setRegs f).mp hj, fun t hrel => ⟨_, rfl, h.rel_setRegs f hrel⟩⟩

theorem simAt_addLink (h : PrimSim P Q Ix Rel) (s : St) (o : Nat) :
    SimAt Ix Rel s (.ok (addLink s o)) (fun t => .ok (addLink t o)) := by
  intro s' hr j hj
  cases hr
  exact ⟨j, (h.ix_addLink o).mp hj, fun t hrel => ⟨_, rfl, h.rel_addLink o hrel⟩⟩

theorem simAt_bind {s : St} {a : CM St} {A' : St → CM St} {b B' : St → CM St}
    (hA : SimAt Ix Rel s a A') (hB : ∀ s1, a = .ok s1 → SimAt Ix Rel s1 (b s1) B') :
    SimAt Ix Rel s (a >>= b) (fun t => A' t >>= B') := by
  intro s' hr j hj
  cases ha : a with
  | error e => rw [ha] at hr; cases hr
  | ok s1 =>
    rw [ha] at hr
    obtain ⟨k, hk, h2⟩ := hB s1 ha s' hr j hj
    obtain ⟨i, hi, h1⟩ := hA s1 ha k hk
    refine ⟨i, hi, fun t hrel => ?_⟩
    obtain ⟨t1, ht1, hrel1⟩ := h1 t hrel
    obtain ⟨t', ht', hrel'⟩ := h2 t1 hrel1
    exact ⟨t', by show A' t >>= B' = _; rw [ht1]; exact ht', hrel'⟩

theorem simAt_ite {s : St} (c : Prop) [Decidable c] {a b : CM St} {A' B' : St → CM St}
    (h1 : c → SimAt Ix Rel s a A') (h2 : ¬c → SimAt Ix Rel s b B') :
    SimAt Ix Rel s (if c then a else b) (fun t => if c then A' t else B' t) := by
  by_cases hc : c
  · simp only [hc, if_true]; exact h1 hc
  · simp only [hc, if_false]; exact h2 hc

theorem simAt_after_setRegs (h : PrimSim P Q Ix Rel) (s : St) (f : Regs → Regs)
    (a A' : St → CM St) (ha : ∀ s1, SimAt Ix Rel s1 (a s1) A') :
    SimAt Ix Rel s (a (s.setRegs f)) (fun t => A' (t.setRegs f)) :=
  simAt_bind (simAt_setRegs h s f) (fun s1 _ => ha s1)

theorem simAt_after_addLink (h : PrimSim P Q Ix Rel) (s : St) (o : Nat)
    (a A' : St → CM St) (ha : ∀ s1, SimAt Ix Rel s1 (a s1) A') :
    SimAt Ix Rel s (a (addLink s o)) (fun t => A' (addLink t o)) :=
  simAt_bind (simAt_addLink h s o) (fun s1 _ => ha s1)

theorem SimAt.congr_rel {s : St} {r : CM St} {B B' : St → CM St}
    (hB : ∀ i t, Rel i s t → B t = B' t)
    (hs : SimAt Ix Rel s r B') : SimAt Ix Rel s r B := by
  intro s' hr j hj
  obtain ⟨i, hi, ht⟩ := hs s' hr j hj
  refine ⟨i, hi, fun t hrel => ?_⟩
  rw [hB i t hrel]
  exact ht t hrel

theorem simAt_pure_ite (h : PrimSim P Q Ix Rel) (s : St) (c : Prop) [Decidable c] (g : Regs → Regs) :
    SimAt Ix Rel s (pure (if c then s.setRegs g else s))
      (fun t => pure (if c then t.setRegs g else t)) := by
  by_cases hc : c
  · simp only [hc, if_true]; exact simAt_setRegs h s g
  · simp only [hc, if_false]; exact simAt_id s

/-- rewrite the right program with the agreement of registers and descriptors; the rewritten
    program is found by unification -/
syntax "sim_ctl " term:max " [" Lean.Parser.Tactic.simpLemma,* "]" : tactic
macro_rules
  | `(tactic| sim_ctl $h [$ls,*]) =>
  `(tactic| (refine SimAt.congr $h (B' := ?_) (fun t hr hd => ?_) ?_;
             rotate_left;
             focus
              (first
               | (simp only [hr, hd, St.setRegs_regs, St.setRegs_descs, addLink_regs, addLink_descs,
                    reduceCtorEq, eq_self, ↓reduceIte,
                    $ls,*] <;> rfl)
               | rfl)))

/-! ### the functions of the walk -/

theorem associatedField_sim (h : PrimSim P Q Ix Rel) (id : Nat) (s : St) :
    SimAt Ix Rel s (associatedField P id s) (associatedField Q id) := by
  unfold associatedField
  sim_ctl h []
  exact h.codeflag _ _ s

def bmHead (r : Regs) : Option (Nat × Elem) :=
  match r.bmIter with
  | some (x :: _) => some x
  | _ => none

def bmPop (r : Regs) : Regs := { r with bmIter := r.bmIter.map List.tail }

theorem nextBitmapped_spec (s : St) :
    nextBitmapped s = match bmHead s.regs with
      | some x => .ok (x, s.setRegs bmPop)
      | none => .error .other := by
  unfold nextBitmapped bmHead
  cases hb : s.regs.bmIter with
  | none => rfl
  | some l =>
    cases l with
    | nil => rfl
    | cons x rest =>
      simp only [St.setRegs, bmPop, hb, Option.map, List.tail]

theorem simAt_nextBitmapped (h : PrimSim P Q Ix Rel) (s : St)
    (k kQ : (Nat × Elem) → St → CM St) (hk : ∀ x s1, SimAt Ix Rel s1 (k x s1) (kQ x)) :
    SimAt Ix Rel s (nextBitmapped s >>= fun x => k x.1 x.2)
      (fun t => nextBitmapped t >>= fun x => kQ x.1 x.2) := by
  rw [nextBitmapped_spec s]
  sim_ctl h [nextBitmapped_spec]
  cases bmHead s.regs with
  | none => exact simAt_error _ _ _
  | some x => exact simAt_bind (simAt_setRegs h s bmPop) (fun s1 _ => hk x s1)

theorem elementDescriptor_sim (h : PrimSim P Q Ix Rel) (dd : DDesc) (e : Elem) (s : St) :
    SimAt Ix Rel s (elementDescriptor P dd e s) (elementDescriptor Q dd e) := by
  unfold elementDescriptor
  refine simAt_bind ?_ (fun s1 _ => simAt_bind ?_ (fun s2 _ => ?_))
  · sim_ctl h []
    exact simAt_ite _ (fun _ => associatedField_sim h _ _) (fun _ => simAt_id _)
  · have hnb : ∀ s1, SimAt Ix Rel s1 (nextBitmapped s1 >>= fun x => pure (addLink x.2 x.1.1))
        (fun t => nextBitmapped t >>= fun x => pure (addLink x.2 x.1.1)) := fun s1 =>
      simAt_nextBitmapped h s1 (fun x s => pure (addLink s x.1)) (fun x s => pure (addLink s x.1))
        (fun x s => simAt_addLink h s x.1)
    refine simAt_ite _ (fun hx => ?_) (fun hx => ?_)
    · cases hq : s1.regs.qa with
      | na =>
        sim_ctl h [hq]
        simp only [reduceCtorEq, ↓reduceIte, hq]
        exact simAt_id _
      | waiting =>
        sim_ctl h [hq]
        simp only [↓reduceIte, St.setRegs_regs]
        exact simAt_after_setRegs h s1 _ (fun s => nextBitmapped s >>= fun x => pure (addLink x.2 x.1.1))
          _ hnb
      | processing =>
        sim_ctl h [hq]
        simp only [reduceCtorEq, ↓reduceIte, hq]
        exact hnb s1
    · cases hq : s1.regs.qa with
      | na =>
        sim_ctl h [hq]
        simp only [reduceCtorEq, ↓reduceIte, hq]
        exact simAt_id _
      | waiting =>
        sim_ctl h [hq]
        simp only [reduceCtorEq, ↓reduceIte, hq]
        exact simAt_id _
      | processing =>
        sim_ctl h [hq]
        simp only [reduceCtorEq, ↓reduceIte, hq]
        exact simAt_setRegs h _ _
  · sim_ctl h []
    cases e.kind with
    | string => exact h.string _ _ _
    | codeflag => exact h.codeflag _ _ _
    | numeric =>
      cases lookupRef s2.regs.newRefvals e.id with
      | none => exact h.numeric _ _ _ _ _
      | some nr => exact h.numeric _ _ _ _ _

theorem bitmappedDescriptor_sim (h : PrimSim P Q Ix Rel) (opId : Nat) (s : St) :
    SimAt Ix Rel s (bitmappedDescriptor P opId s) (bitmappedDescriptor Q opId) := by
  unfold bitmappedDescriptor
  exact simAt_nextBitmapped h s
    (fun x s1 =>
      let e' : Elem := if opId = 225255 then { x.2 with ref := -((2 : Int) ^ x.2.nbits), nbits := x.2.nbits + 1 } else x.2
      elementDescriptor P (.marker opId e') e' (addLink s1 x.1))
    (fun x s1 =>
      let e' : Elem := if opId = 225255 then { x.2 with ref := -((2 : Int) ^ x.2.nbits), nbits := x.2.nbits + 1 } else x.2
      elementDescriptor Q (.marker opId e') e' (addLink s1 x.1))
    (fun x s1 => simAt_after_addLink h s1 x.1 (elementDescriptor P _ _) (elementDescriptor Q _ _)
      (fun s2 => elementDescriptor_sim h _ _ s2))

theorem zeroMask_length {l l' : List Val} (hm : zeroMask l' = zeroMask l) : l'.length = l.length := by
  have := congrArg List.length hm
  simpa [zeroMask] using this

theorem sel_zeroMask {α : Type} (l l' : List Val) (r : List α) (hm : zeroMask l' = zeroMask l) :
    ((l'.zip r).filter (fun p => p.1 == Val.int 0)).map (·.2)
      = ((l.zip r).filter (fun p => p.1 == Val.int 0)).map (·.2) := by
  induction l generalizing l' r with
  | nil =>
    cases l' with
    | nil => rfl
    | cons a as => simp [zeroMask] at hm
  | cons b bs ih =>
    cases l' with
    | nil => simp [zeroMask] at hm
    | cons a as =>
      simp only [zeroMask, List.map_cons, List.cons.injEq] at hm
      cases r with
      | nil => rfl
      | cons x xs =>
        simp only [List.zip_cons_cons, List.filter_cons, hm.1]
        have := ih as xs hm.2
        split <;> simp only [List.map_cons, this]

theorem buildBitmapped_mask (t : St) (l l' : List Val) (hm : zeroMask l' = zeroMask l) :
    buildBitmapped t l' = buildBitmapped t l := by
  unfold buildBitmapped
  simp only [zeroMask_length hm, sel_zeroMask l l' _ hm]

theorem buildBitmapped_sim (h : PrimSim P Q Ix Rel) (s : St) (l : List Val) :
    SimAt Ix Rel s (buildBitmapped s l) (fun t => buildBitmapped t l) := by
  unfold buildBitmapped
  sim_ctl h []
  exact simAt_ite _ (fun _ => simAt_error _ _ _) (fun _ => simAt_setRegs h _ _)

theorem bitmapDefinition_sim (h : PrimSim P Q Ix Rel) (id : Nat) (s : St) :
    SimAt Ix Rel s (bitmapDefinition P id s) (bitmapDefinition Q id) := by
  unfold bitmapDefinition
  cases hb : s.regs.bitmapDef with
  | na =>
    sim_ctl h [hb]
    exact simAt_id _
  | indicator =>
    sim_ctl h [hb]
    exact simAt_ite _ (fun _ => simAt_setRegs h _ _) (fun _ => simAt_setRegs h _ _)
  | waiting =>
    sim_ctl h [hb]
    exact simAt_ite _ (fun _ => simAt_setRegs h _ _) (fun _ => simAt_id _)
  | counting =>
    sim_ctl h [hb]
    refine simAt_ite _ (fun _ => simAt_setRegs h _ _) (fun _ => ?_)
    cases hl : P.lastValues s.regs.n031031 s with
    | error e => exact simAt_error _ _ _
    | ok l =>
      refine SimAt.congr_rel (B' := fun t => buildBitmapped t l >>= fun s' =>
          pure (s'.setRegs fun r => { r with bitmapDef := .na })) (fun i t hrel => ?_) ?_
      · obtain ⟨l', hl', hm⟩ := h.lastValues hrel hl
        rw [hl']
        show (buildBitmapped t l' >>= _) = _
        rw [buildBitmapped_mask t l l' hm]
      · exact simAt_bind (buildBitmapped_sim h s l) (fun s1 _ => simAt_setRegs h s1 _)

theorem operatorDescriptor_sim (h : PrimSim P Q Ix Rel) (id : Nat) (s : St) :
    SimAt Ix Rel s (operatorDescriptor P id s) (operatorDescriptor Q id) := by
  unfold operatorDescriptor
  sim_ctl h []
  refine simAt_ite _ (fun _ => simAt_setRegs h _ _) (fun _ => ?_)      -- 201
  refine simAt_ite _ (fun _ => simAt_setRegs h _ _) (fun _ => ?_)      -- 202
  refine simAt_ite _ (fun _ => ?_) (fun _ => ?_)                        -- 203
  · exact simAt_ite _ (fun _ => simAt_setRegs h _ _)
      (fun _ => simAt_ite _ (fun _ => simAt_setRegs h _ _) (fun _ => simAt_setRegs h _ _))
  refine simAt_ite _ (fun _ => ?_) (fun _ => ?_)                        -- 204
  · exact simAt_ite _
      (fun _ => simAt_ite _ (fun _ => simAt_error _ _ _) (fun _ => simAt_setRegs h _ _))
      (fun _ => simAt_setRegs h _ _)
  refine simAt_ite _ (fun _ => h.string _ _ _) (fun _ => ?_)            -- 205
  refine simAt_ite _ (fun _ => simAt_setRegs h _ _) (fun _ => ?_)      -- 206
  refine simAt_ite _ (fun _ => simAt_setRegs h _ _) (fun _ => ?_)      -- 207
  refine simAt_ite _ (fun _ => simAt_setRegs h _ _) (fun _ => ?_)      -- 208
  refine simAt_ite _ (fun _ => simAt_setRegs h _ _) (fun _ => ?_)      -- 221
  refine simAt_ite _ (fun _ => ?_) (fun _ => ?_)                        -- 222 .. 232
  · refine simAt_ite _ (fun _ => ?_) (fun _ => ?_)
    · exact simAt_after_setRegs h s _
        (fun s1 => P.constant (.oper id) 0 s1 >>= fun s2 =>
          pure (if id / 1000 = 222 then s2.setRegs fun r => { r with qa := .waiting } else s2))
        (fun s1 => Q.constant (.oper id) 0 s1 >>= fun s2 =>
          pure (if id / 1000 = 222 then s2.setRegs fun r => { r with qa := .waiting } else s2))
        (fun s1 => simAt_bind (h.constant _ _ s1) (fun s2 _ => simAt_pure_ite h s2 _ _))
    · refine simAt_bind ?_ (fun s1 _ => bitmappedDescriptor_sim h id s1)
      exact simAt_ite _ (fun _ => associatedField_sim h _ _) (fun _ => simAt_id _)
  refine simAt_ite _ (fun _ => simAt_setRegs h _ _) (fun _ => ?_)      -- 235
  refine simAt_ite _ (fun _ => h.constant _ _ _) (fun _ => ?_)          -- 236
  refine simAt_ite _ (fun _ => ?_) (fun _ => simAt_error _ _ _)         -- 237
  refine simAt_ite _ (fun _ => ?_) (fun _ => h.constant _ _ _)
  cases s.regs.bitmapped with
  | none => exact simAt_error _ _ _
  | some l => exact simAt_after_setRegs h s _ (P.constant _ _) (Q.constant _ _) (fun s1 => h.constant _ _ s1)

theorem iterN_succ (n : Nat) (f : St → CM St) (s : St) :
    iterN (n + 1) f s = (f s >>= iterN n f) := by
  simp only [iterN]
  cases f s <;> rfl

theorem iterN_sim {f g : St → CM St} (hf : ∀ s, SimAt Ix Rel s (f s) g) :
    ∀ (n : Nat) (s : St), SimAt Ix Rel s (iterN n f s) (iterN n g)
  | 0, s => simAt_id s
  | n + 1, s => by
    rw [iterN_succ]
    refine SimAt.congr_rel (B' := fun t => g t >>= iterN n g) (fun _ t _ => iterN_succ n g t) ?_
    exact simAt_bind (hf s) (fun s1 _ => iterN_sim hf n s1)

end

/-! ### `walk1` = prelude + dispatch -/

/-- the last step of `walk1`: dispatch on the kind of descriptor -/
def walkDispatch (P : Prims) (d : Desc) (s : St) : CM St :=
  match d with
  | .elem e => elementDescriptor P (.plain e) e s
  | .fixedRep id ms => iterN (yOf id) (walkList P ms) s
  | .delayedRep _ f ms =>
    match f with
    | .elem fe =>
      match elementDescriptor P (.plain fe) fe s with
      | .error e => .error e
      | .ok s1 =>
        match P.factorValue s1 >>= factorCount with
        | .error e => .error e
        | .ok n => iterN n (walkList P ms) s1
    | _ => .error .unknownDescr
  | .op id => operatorDescriptor P id s
  | .seq _ ms => walkList P ms s
  | .undefElem _ => .error .unknownDescr
  | .undefSeq _ => .error .unknownDescr

/-- the checks `walk1` performs before dispatching, after the 221 bookkeeping (203, 206, bitmap
    definition), with the continuation `k` in place of the dispatch -/
def walk1Rest (P : Prims) (d : Desc) (k : St → CM St) (s : St) : CM St :=
  match (if s.regs.nbitsNewRefval ≠ 0 then (match d with | .elem e => some e | _ => none) else none) with
  | some e =>
    if e.kind = .string then .error .lib
    else P.newRefval e s.regs.nbitsNewRefval s
  | none =>
    if s.regs.nbitsSkipped ≠ 0 then do
      let n := s.regs.nbitsSkipped
      let s' ← P.codeflag (.skipped d.id n) n s
      pure (s'.setRegs fun r => { r with nbitsSkipped := 0 })
    else
      match bitmapDefinition P d.id s with
      | .error e => .error e
      | .ok s => k s

/-- `walk1` with the continuation `k` in place of the dispatch -/
def walk1K (P : Prims) (d : Desc) (k : St → CM St) (s0 : St) : CM St :=
  let dnp := s0.regs.dnpCount
  let s := if dnp ≠ 0 then s0.setRegs fun r => { r with dnpCount := dnp - 1 } else s0
  let skip : Bool :=
    dnp ≠ 0 && (match d with
      | .elem e => !((1 ≤ xOf e.id && xOf e.id ≤ 9) || xOf e.id == 31)
      | _ => false)
  if skip then .ok s else walk1Rest P d k s

theorem walk1_eq (P : Prims) (d : Desc) (s0 : St) :
    walk1 P d s0 = walk1K P d (walkDispatch P d) s0 := by
  cases d <;> (rw [walk1] <;> first | rfl | (intro e h; cases h))

section
variable {I : Type} {P Q : Prims} {Ix : I → St → Prop} {Rel : I → St → St → Prop}

theorem walk1Rest_sim (h : PrimSim P Q Ix Rel) (d : Desc) {k kQ : St → CM St}
    (hk : ∀ s, SimAt Ix Rel s (k s) kQ) (s : St) :
    SimAt Ix Rel s (walk1Rest P d k s) (walk1Rest Q d kQ) := by
  unfold walk1Rest
  sim_ctl h []
  generalize (if s.regs.nbitsNewRefval ≠ 0 then (match d with | .elem e => some e | _ => none) else none) = o
  cases o with
  | some e => exact simAt_ite _ (fun _ => simAt_error _ _ _) (fun _ => h.newRefval _ _ _)
  | none =>
    refine simAt_ite _ (fun _ => ?_) (fun _ => ?_)
    · exact simAt_bind (h.codeflag _ _ s) (fun s1 _ => simAt_setRegs h s1 _)
    · have e1 : ∀ (R : Prims) (k : St → CM St) (t : St),
          (match bitmapDefinition R d.id t with
            | .error e => .error e
            | .ok s => k s) = (bitmapDefinition R d.id t >>= k) := by
        intro R k t; cases bitmapDefinition R d.id t <;> rfl
      rw [e1]
      refine SimAt.congr_rel (fun _ t _ => e1 Q kQ t) ?_
      exact simAt_bind (bitmapDefinition_sim h _ s) (fun s1 _ => hk s1)

theorem walk1K_sim (h : PrimSim P Q Ix Rel) (d : Desc) {k kQ : St → CM St}
    (hk : ∀ s, SimAt Ix Rel s (k s) kQ) (s0 : St) :
    SimAt Ix Rel s0 (walk1K P d k s0) (walk1K Q d kQ) := by
  unfold walk1K
  by_cases hd : s0.regs.dnpCount = 0
  · sim_ctl h [hd]
    simp only [hd, ne_eq, not_true_eq_false, decide_false, Bool.false_and, Bool.false_eq_true, if_false]
    exact walk1Rest_sim h d hk s0
  · sim_ctl h [hd]
    simp only [hd, ne_eq, not_false_eq_true, decide_true, Bool.true_and, if_true]
    exact simAt_ite _ (fun _ => simAt_setRegs h _ _)
      (fun _ => simAt_after_setRegs h s0 _ (walk1Rest P d k) (walk1Rest Q d kQ)
        (fun s1 => walk1Rest_sim h d hk s1))

theorem walkList_cons (P : Prims) (d : Desc) (ds : List Desc) (s : St) :
    walkList P (d :: ds) s = (walk1 P d s >>= walkList P ds) := by
  rw [walkList]; cases walk1 P d s <;> rfl

/-- dispatch on a delayed replication whose factor is an element -/
theorem delayed_sim (h : PrimSim P Q Ix Rel) (fe : Elem) (ms : List Desc)
    (hms : ∀ s, SimAt Ix Rel s (walkList P ms s) (walkList Q ms)) (s : St) :
    SimAt Ix Rel s
      (match elementDescriptor P (.plain fe) fe s with
        | .error e => .error e
        | .ok s1 =>
          match P.factorValue s1 >>= factorCount with
          | .error e => .error e
          | .ok n => iterN n (walkList P ms) s1)
      (fun t =>
        match elementDescriptor Q (.plain fe) fe t with
        | .error e => .error e
        | .ok s1 =>
          match Q.factorValue s1 >>= factorCount with
          | .error e => .error e
          | .ok n => iterN n (walkList Q ms) s1) := by
  have e1 : ∀ (R : Prims) (t : St),
      (match elementDescriptor R (.plain fe) fe t with
        | .error e => .error e
        | .ok s1 =>
          match R.factorValue s1 >>= factorCount with
          | .error e => .error e
          | .ok n => iterN n (walkList R ms) s1)
      = (elementDescriptor R (.plain fe) fe t >>= fun s1 =>
          match R.factorValue s1 >>= factorCount with
          | .error e => .error e
          | .ok n => iterN n (walkList R ms) s1) := by
    intro R t; cases elementDescriptor R (.plain fe) fe t <;> rfl
  rw [e1]
  refine SimAt.congr_rel (fun _ t _ => e1 Q t) ?_
  refine simAt_bind (elementDescriptor_sim h _ _ s) (fun s1 _ => ?_)
  cases hn : (P.factorValue s1 >>= factorCount) with
  | error e => exact simAt_error _ _ _
  | ok n =>
    refine SimAt.congr_rel (B' := iterN n (walkList Q ms)) (fun i t hrel => ?_) ?_
    · rw [h.factor hrel hn]
    · exact iterN_sim hms n s1

mutual
/-- SIMULATION THEOREM for `walkList` -/
theorem walkList_sim (h : PrimSim P Q Ix Rel) :
    ∀ (ds : List Desc) (s : St), SimAt Ix Rel s (walkList P ds s) (walkList Q ds)
  | [], s => by
    rw [walkList]
    exact SimAt.congr_rel (B' := fun t => .ok t) (fun _ t _ => by rw [walkList]) (simAt_id s)
  | d :: ds, s => by
    rw [walkList_cons]
    refine SimAt.congr_rel (fun _ t _ => walkList_cons Q d ds t) ?_
    exact simAt_bind (walk1_sim h d s) (fun s1 _ => walkList_sim h ds s1)

/-- SIMULATION THEOREM for `walk1` -/
theorem walk1_sim (h : PrimSim P Q Ix Rel) :
    ∀ (d : Desc) (s : St), SimAt Ix Rel s (walk1 P d s) (walk1 Q d)
  | .elem e, s => by
    rw [walk1_eq]
    refine SimAt.congr_rel (fun _ t _ => walk1_eq Q _ t) ?_
    exact walk1K_sim h _ (fun s1 => elementDescriptor_sim h _ _ s1) s
  | .undefElem id, s => by
    rw [walk1_eq]
    refine SimAt.congr_rel (fun _ t _ => walk1_eq Q _ t) ?_
    exact walk1K_sim h _ (fun s1 => simAt_error _ _ _) s
  | .undefSeq id, s => by
    rw [walk1_eq]
    refine SimAt.congr_rel (fun _ t _ => walk1_eq Q _ t) ?_
    exact walk1K_sim h _ (fun s1 => simAt_error _ _ _) s
  | .fixedRep id ms, s => by
    rw [walk1_eq]
    refine SimAt.congr_rel (fun _ t _ => walk1_eq Q _ t) ?_
    exact walk1K_sim h _ (fun s1 => iterN_sim (fun s2 => walkList_sim h ms s2) _ s1) s
  | .delayedRep id f ms, s => by
    rw [walk1_eq]
    refine SimAt.congr_rel (fun _ t _ => walk1_eq Q _ t) ?_
    refine walk1K_sim h _ (fun s1 => ?_) s
    cases f with
    | elem fe => exact delayed_sim h fe ms (fun s2 => walkList_sim h ms s2) s1
    | _ => exact simAt_error _ _ _
  | .op id, s => by
    rw [walk1_eq]
    refine SimAt.congr_rel (fun _ t _ => walk1_eq Q _ t) ?_
    exact walk1K_sim h _ (fun s1 => operatorDescriptor_sim h _ s1) s
  | .seq id ms, s => by
    rw [walk1_eq]
    refine SimAt.congr_rel (fun _ t _ => walk1_eq Q _ t) ?_
    exact walk1K_sim h _ (fun s1 => walkList_sim h ms s1) s
end

end

/-! ### plain forward simulation (`I = Unit`) -/

section
variable {P Q : Prims} {Rel : St → St → Prop}

/-- forward simulation of primitives: the un-indexed special case of `PrimSim` -/
abbrev PrimSim₀ (P Q : Prims) (Rel : St → St → Prop) : Prop :=
  PrimSim (I := Unit) P Q (fun _ _ => True) (fun _ => Rel)

theorem SimAt.forward {s : St} {r : CM St} {B : St → CM St}
    (h : SimAt (I := Unit) (fun _ _ => True) (fun _ => Rel) s r B)
    {t s' : St} (hrel : Rel s t) (hr : r = .ok s') : ∃ t', B t = .ok t' ∧ Rel s' t' := by
  obtain ⟨_, _, ht⟩ := h s' hr () trivial
  exact ht t hrel

/-- two runs of the walk whose primitives preserve `Rel` stay in lock-step -/
theorem walk_sim (h : PrimSim₀ P Q Rel) {d : List Desc} {s t s' : St}
    (hrel : Rel s t) (hr : walkList P d s = .ok s') :
    ∃ t', walkList Q d t = .ok t' ∧ Rel s' t' :=
  (walkList_sim h d s).forward hrel hr

theorem walk1_sim₀ (h : PrimSim₀ P Q Rel) {d : Desc} {s t s' : St}
    (hrel : Rel s t) (hr : walk1 P d s = .ok s') :
    ∃ t', walk1 Q d t = .ok t' ∧ Rel s' t' :=
  (walk1_sim h d s).forward hrel hr

end

/-- the indexed simulation theorem, unfolded -/
theorem walk_sim_ix {I : Type} {P Q : Prims} {Ix : I → St → Prop} {Rel : I → St → St → Prop}
    (h : PrimSim P Q Ix Rel) {d : List Desc} {s s' : St} (hr : walkList P d s = .ok s')
    {j : I} (hj : Ix j s') :
    ∃ i, Ix i s ∧ ∀ t, Rel i s t → ∃ t', walkList Q d t = .ok t' ∧ Rel j s' t' :=
  walkList_sim h d s s' hr j hj

end Bufr
