/-
  Helper lemmas for `C17_src_parse` (`Props/C17Src.lean`): the Lean function generated from
  `pybufrkit/mdquery.py MetadataExprParser.parse` (`Gen/PyMdquery.lean`, regenerated on every check)
  against the model's `MdQuery.parse` (`Lang/MdQuery.lean`).

  Pieces: `Py.strip` = `strip`, `Py.splitChar '.'` = `splitDot`, and `Py.intOfStr` (CPython's `int(str)`:
  every Unicode decimal digit, limit of 4300 digits) = `parseInt` on strings whose decimal digits are the ASCII
  ones and that are not longer than 4300 characters.
-/
import BufrModel.Lang.MdQuery
import BufrModel.Gen.PyMdquery
namespace Bufr.MdQuerySrc
open Bufr.MdQuery

/-- every character that Python's `int` reads as a decimal digit is an ASCII digit -/
def AsciiDigitsOnly (s : List Char) : Prop :=
  ∀ c ∈ s, Py.decimalDigit? c = none ∨ isDigit c = true

instance (s : List Char) : Decidable (AsciiDigitsOnly s) := by unfold AsciiDigitsOnly; exact inferInstance

theorem isSpaceChar_eq : Py.isSpaceChar = isSpace := rfl
theorem isIntSpace_eq : Py.intIsSpace = isIntSpace := rfl

theorem strip_eq (s : List Char) : Py.strip s = strip s := rfl

theorem splitChar_eq (s : List Char) : Py.splitChar '.' s = splitDot s := by
  induction s with
  | nil => rfl
  | cons c cs ih => simp only [Py.splitChar, splitDot, ih]; rfl

/-- an ASCII digit is the decimal digit of its code minus 48 -/
theorem decimalDigit_of_isDigit (c : Char) (h : isDigit c = true) :
    Py.decimalDigit? c = some (c.toNat - 48) := by
  have h' : 48 ≤ c.toNat ∧ c.toNat ≤ 57 := by
    simp only [isDigit, Bool.and_eq_true, decide_eq_true_eq] at h
    have h1 : '0'.toNat ≤ c.toNat := h.1
    have h2 : c.toNat ≤ '9'.toNat := h.2
    exact ⟨h1, h2⟩
  unfold Py.decimalDigit?
  have : (decide (48 ≤ c.toNat) && decide (c.toNat ≤ 57)) = true := by
    simp only [Bool.and_eq_true, decide_eq_true_eq]; omega
  simp only [this, if_true]

theorem decimalDigit_cases (c : Char) (h : Py.decimalDigit? c = none ∨ isDigit c = true) :
    Py.decimalDigit? c = if isDigit c then some (c.toNat - 48) else none := by
  by_cases hd : isDigit c = true
  · rw [if_pos hd]; exact decimalDigit_of_isDigit c hd
  · rw [if_neg hd]
    rcases h with h | h
    · exact h
    · exact absurd h hd

theorem intDigits_cons_nil (c : Char) :
    Py.intDigits [c] = (Py.decimalDigit? c).map (fun d => [d]) := by
  rw [Py.intDigits]; cases Py.decimalDigit? c <;> rfl

theorem intDigits_cons_us (c : Char) (rest : List Char) :
    Py.intDigits (c :: '_' :: rest) = (Py.decimalDigit? c).bind (fun d => (Py.intDigits rest).map (d :: ·)) := by
  rw [Py.intDigits]; cases Py.decimalDigit? c <;> rfl

theorem intDigits_cons_cons (c r : Char) (rest : List Char) (hr : r ≠ '_') :
    Py.intDigits (c :: r :: rest) =
      (Py.decimalDigit? c).bind (fun d => (Py.intDigits (r :: rest)).map (d :: ·)) := by
  rw [Py.intDigits]
  cases Py.decimalDigit? c with
  | none => rfl
  | some d =>
    simp only [Option.bind_some]

/-- value of a digit list continued from `acc` -/
abbrev valFrom (acc : Nat) (ds : List Nat) : Nat := ds.foldl (fun a d => 10 * a + d) acc

/-- the model's digit scanner on a string that starts with a digit is the primitive's `intDigits` -/
theorem digitsVal_eq : ∀ (n : Nat) (s : List Char), s.length ≤ n → AsciiDigitsOnly s →
    ∀ (c : Char) (rest : List Char), s = c :: rest → isDigit c = true →
    ∀ acc, digitsVal acc s = (Py.intDigits s).map (valFrom acc) := by
  intro n
  induction n with
  | zero => intro s hl _ c rest hs; subst hs; simp at hl
  | succ n ih =>
    intro s hl h c rest hs hc acc
    subst hs
    have hdc := decimalDigit_of_isDigit c hc
    have hrest : AsciiDigitsOnly rest := fun x hx => h x (List.mem_cons_of_mem _ hx)
    simp only [List.length_cons] at hl
    rw [digitsVal.eq_def]
    simp only [hc, if_true]
    cases rest with
    | nil =>
      rw [intDigits_cons_nil, hdc]
      simp [digitsVal, valFrom, Nat.mul_comm]
    | cons r rest' =>
      by_cases hr : r = '_'
      · subst hr
        rw [intDigits_cons_us, hdc]
        simp only [Option.bind_some, Option.map_map]
        rw [digitsVal.eq_def]
        have hnd : isDigit '_' = false := by decide
        simp only [hnd, Bool.false_eq_true, if_false, if_true]
        cases rest' with
        | nil => simp [Py.intDigits]
        | cons d' r'' =>
          have hd' := decimalDigit_cases d' (h d' (by simp))
          by_cases h2 : isDigit d' = true
          · simp only [h2, if_true]
            have hr2 : AsciiDigitsOnly (d' :: r'') :=
              fun x hx => hrest x (List.mem_cons_of_mem _ hx)
            rw [ih (d' :: r'') (by simp only [List.length_cons] at hl ⊢; omega) hr2 d' r'' rfl h2]
            cases Py.intDigits (d' :: r'') with
            | none => rfl
            | some ds => simp [valFrom, Nat.mul_comm]
          · simp only [h2, Bool.false_eq_true, if_false]
            have : Py.decimalDigit? d' = none := by rw [hd']; simp [h2]
            cases r'' with
            | nil => rw [intDigits_cons_nil, this]; rfl
            | cons x xs =>
              by_cases hx : x = '_'
              · subst hx; rw [intDigits_cons_us, this]; rfl
              · rw [intDigits_cons_cons _ _ _ hx, this]; rfl
      · rw [intDigits_cons_cons _ _ _ hr, hdc]
        simp only [Option.bind_some, Option.map_map]
        have hdr := decimalDigit_cases r (h r (by simp))
        by_cases h2 : isDigit r = true
        · rw [ih (r :: rest') (by simp only [List.length_cons] at hl ⊢; omega) hrest r rest' rfl h2]
          cases Py.intDigits (r :: rest') with
          | none => rfl
          | some ds => simp [valFrom, Nat.mul_comm]
        · rw [digitsVal.eq_def]
          simp only [h2, Bool.false_eq_true, if_false, hr]
          have : Py.decimalDigit? r = none := by rw [hdr]; simp [h2]
          cases rest' with
          | nil => rw [intDigits_cons_nil, this]; rfl
          | cons x xs =>
            by_cases hx : x = '_'
            · subst hx; rw [intDigits_cons_us, this]; rfl
            · rw [intDigits_cons_cons _ _ _ hx, this]; rfl

/-- the digit count never exceeds the length of the string -/
theorem intDigits_count : ∀ (n : Nat) (s : List Char), s.length ≤ n → ∀ ds, Py.intDigits s = some ds →
    ds.length ≤ s.length := by
  intro n
  induction n with
  | zero =>
    intro s hl ds h
    cases s with
    | nil => simp [Py.intDigits] at h
    | cons _ _ => simp at hl
  | succ n ih =>
    intro s hl ds h
    cases s with
    | nil => simp [Py.intDigits] at h
    | cons c rest =>
      simp only [List.length_cons] at hl
      cases rest with
      | nil =>
        rw [intDigits_cons_nil] at h
        cases hd : Py.decimalDigit? c with
        | none => rw [hd] at h; cases h
        | some d => rw [hd] at h; cases h; simp
      | cons r rest' =>
        by_cases hr : r = '_'
        · subst hr
          rw [intDigits_cons_us] at h
          cases hd : Py.decimalDigit? c with
          | none => rw [hd] at h; cases h
          | some d =>
            rw [hd] at h
            simp only [Option.bind_some] at h
            cases hi : Py.intDigits rest' with
            | none => rw [hi] at h; cases h
            | some ds' =>
              rw [hi] at h; cases h
              have := ih rest' (by simp only [List.length_cons] at hl; omega) ds' hi
              simp only [List.length_cons]; omega
        · rw [intDigits_cons_cons _ _ _ hr] at h
          cases hd : Py.decimalDigit? c with
          | none => rw [hd] at h; cases h
          | some d =>
            rw [hd] at h
            simp only [Option.bind_some] at h
            cases hi : Py.intDigits (r :: rest') with
            | none => rw [hi] at h; cases h
            | some ds' =>
              rw [hi] at h; cases h
              have := ih (r :: rest') (by simp only [List.length_cons] at hl ⊢; omega) ds' hi
              simp only [List.length_cons] at this ⊢; omega

/-- the model's unsigned literal is the primitive's digit list, valued from 0 -/
theorem natLit_eq (s : List Char) (h : AsciiDigitsOnly s) :
    natLit s = (Py.intDigits s).map (valFrom 0) := by
  cases s with
  | nil => rfl
  | cons c cs =>
    unfold natLit
    by_cases hd : isDigit c = true
    · simp only [hd, if_true]
      exact digitsVal_eq _ (c :: cs) (Nat.le_refl _) h c cs rfl hd 0
    · simp only [hd, Bool.false_eq_true, if_false]
      have : Py.decimalDigit? c = none := by
        rw [decimalDigit_cases c (h c (by simp))]; simp [hd]
      cases cs with
      | nil => rw [intDigits_cons_nil, this]; rfl
      | cons x xs =>
        by_cases hx : x = '_'
        · subst hx; rw [intDigits_cons_us, this]; rfl
        · rw [intDigits_cons_cons _ _ _ hx, this]; rfl

/-- the body of `int()` after blanks and sign -/
theorem intOfBody_eq (neg : Bool) (body : List Char) (hb : AsciiDigitsOnly body) (hbl : body.length ≤ 4300) :
    Py.intOfBody neg body =
      match (natLit body).map (fun n => if neg then -(Int.ofNat n) else Int.ofNat n) with
      | some k => .ok k
      | none => .error .valueError := by
  unfold Py.intOfBody
  rw [natLit_eq body hb]
  cases hn : Py.intDigits body with
  | none => rfl
  | some ds =>
    have := intDigits_count _ body (Nat.le_refl _) ds hn
    have hk : ¬ ds.length > Py.intMaxStrDigits := by unfold Py.intMaxStrDigits; omega
    simp only [hk, if_false, Option.map_some]
    cases neg <;> rfl

theorem length_stripInt_le (s : List Char) : (stripInt s).length ≤ s.length := by
  unfold stripInt
  rw [List.length_reverse]
  refine Nat.le_trans (List.dropWhile_sublist _).length_le ?_
  rw [List.length_reverse]
  exact (List.dropWhile_sublist _).length_le

theorem mem_stripInt (s : List Char) (c : Char) (h : c ∈ stripInt s) : c ∈ s := by
  unfold stripInt at h
  rw [List.mem_reverse] at h
  have := (List.dropWhile_sublist _).mem h
  rw [List.mem_reverse] at this
  exact (List.dropWhile_sublist _).mem this

theorem length_strip_le (s : List Char) : (strip s).length ≤ s.length := by
  unfold strip
  rw [List.length_reverse]
  refine Nat.le_trans (List.dropWhile_sublist _).length_le ?_
  rw [List.length_reverse]
  exact (List.dropWhile_sublist _).length_le

theorem mem_strip (s : List Char) (c : Char) (h : c ∈ strip s) : c ∈ s := by
  unfold strip at h
  rw [List.mem_reverse] at h
  have := (List.dropWhile_sublist _).mem h
  rw [List.mem_reverse] at this
  exact (List.dropWhile_sublist _).mem this

theorem parseInt_nil (s : List Char) (hg : stripInt s = []) : parseInt s = none := by
  unfold parseInt; rw [hg]; rfl

theorem parseInt_cons (s : List Char) (c : Char) (r : List Char) (hg : stripInt s = c :: r) :
    parseInt s = if c = '-' then (natLit r).map (fun n => -(Int.ofNat n))
      else if c = '+' then (natLit r).map Int.ofNat else (natLit (c :: r)).map Int.ofNat := by
  unfold parseInt; rw [hg]
  split
  · rename_i heq; cases heq; simp
  · rename_i heq; cases heq; simp
  · rename_i x h1 h2
    have hm : c ≠ '-' := fun e => h1 r (by rw [e])
    have hp : c ≠ '+' := fun e => h2 r (by rw [e])
    simp [hm, hp]

theorem intOfStr_nil (s : List Char) (hg : stripInt s = []) : Py.intOfStr s = Py.intOfBody false [] := by
  have hst : ((s.dropWhile Py.intIsSpace).reverse.dropWhile Py.intIsSpace).reverse = stripInt s := rfl
  unfold Py.intOfStr; rw [hst, hg]

theorem intOfStr_cons (s : List Char) (c : Char) (r : List Char) (hg : stripInt s = c :: r) :
    Py.intOfStr s = if c = '-' then Py.intOfBody true r
      else if c = '+' then Py.intOfBody false r else Py.intOfBody false (c :: r) := by
  have hst : ((s.dropWhile Py.intIsSpace).reverse.dropWhile Py.intIsSpace).reverse = stripInt s := rfl
  unfold Py.intOfStr; rw [hst, hg]
  split
  · rename_i heq; cases heq; simp
  · rename_i heq; cases heq; simp
  · rename_i x h1 h2
    have hm : c ≠ '-' := fun e => h1 r (by rw [e])
    have hp : c ≠ '+' := fun e => h2 r (by rw [e])
    simp [hm, hp]

/-- CPython's `int(s)` (`Py.intOfStr`, the primitive shared with `dataquery.py`) is the model's `parseInt s`
    (failure = `ValueError`) when the decimal digits of `s` are ASCII and `s` has at most 4300 characters -/
theorem intOfStr_eq (s : List Char) (h : AsciiDigitsOnly s) (hl : s.length ≤ 4300) :
    Py.intOfStr s = match parseInt s with
      | some k => .ok k
      | none => .error .valueError := by
  have hlen := length_stripInt_le s
  have hmem : AsciiDigitsOnly (stripInt s) := fun c hc => h c (mem_stripInt s c hc)
  cases hg : stripInt s with
  | nil =>
    rw [parseInt_nil s hg, intOfStr_nil s hg, intOfBody_eq false [] (fun _ hc => by cases hc) (by simp)]
    rfl
  | cons c r =>
    rw [hg] at hlen hmem
    rw [parseInt_cons s c r hg, intOfStr_cons s c r hg]
    have hr : AsciiDigitsOnly r := fun x hx => hmem x (List.mem_cons_of_mem _ hx)
    have hrl : r.length ≤ 4300 := by simp only [List.length_cons] at hlen; omega
    by_cases hm : c = '-'
    · rw [if_pos hm, if_pos hm, intOfBody_eq true r hr hrl]; rfl
    · rw [if_neg hm, if_neg hm]
      by_cases hp : c = '+'
      · rw [if_pos hp, if_pos hp, intOfBody_eq false r hr hrl]; rfl
      · rw [if_neg hp, if_neg hp, intOfBody_eq false (c :: r) hmem (by omega)]; rfl

/-- the pieces of a split are made of characters of the string and are not longer than it -/
theorem splitDot_pieces (s : List Char) : ∀ p ∈ splitDot s, p.length ≤ s.length ∧ ∀ c ∈ p, c ∈ s := by
  induction s with
  | nil => intro p hp; simp [splitDot] at hp; subst hp; simp
  | cons c cs ih =>
    intro p hp
    unfold splitDot at hp
    by_cases hc : c = '.'
    · simp only [hc, if_true, List.mem_cons] at hp
      rcases hp with rfl | hp
      · simp
      · have := ih p hp
        exact ⟨by simp only [List.length_cons]; omega, fun x hx => List.mem_cons_of_mem _ (this.2 x hx)⟩
    · simp only [hc, if_false] at hp
      cases hs : splitDot cs with
      | nil =>
        rw [hs] at hp
        simp only [List.mem_singleton] at hp
        subst hp
        simp
      | cons hd tl =>
        rw [hs] at hp
        simp only [List.mem_cons] at hp
        rcases hp with rfl | hp
        · have := ih hd (by rw [hs]; simp)
          refine ⟨by simp only [List.length_cons]; omega, fun x hx => ?_⟩
          simp only [List.mem_cons] at hx ⊢
          rcases hx with rfl | hx
          · exact Or.inl rfl
          · exact Or.inr (this.2 x hx)
        · have := ih p (by rw [hs]; exact List.mem_cons_of_mem _ hp)
          exact ⟨by simp only [List.length_cons]; omega, fun x hx => List.mem_cons_of_mem _ (this.2 x hx)⟩

end Bufr.MdQuerySrc
