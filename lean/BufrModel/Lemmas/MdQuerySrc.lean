/-
  Helper lemmas for `C17_src_parse` (`Props/C17Src.lean`): the Lean function generated from
  `pybufrkit/mdquery.py MetadataExprParser.parse` (`Gen/PyMdquery.lean`, regenerated on every check)
  against the model's `MdQuery.parse` (`Lang/MdQuery.lean`).

  Pieces: `Py.strip` = `strip`, `Py.splitChar '.'` = `splitDot`, and `Py.Small.intOfStr` (CPython's `int(str)`:
  every Unicode decimal digit, limit of 4300 digits) = `parseInt` on strings whose decimal digits are the ASCII
  ones and that are not longer than 4300 characters.
-/
import BufrModel.Lang.MdQuery
import BufrModel.Gen.PyMdquery
namespace Bufr.MdQuerySrc
open Bufr.MdQuery

/-- every character that Python's `int` reads as a decimal digit is an ASCII digit -/
def AsciiDigitsOnly (s : List Char) : Prop :=
  ∀ c ∈ s, Py.Small.decimalDigitValue c = none ∨ isDigit c = true

instance (s : List Char) : Decidable (AsciiDigitsOnly s) := by unfold AsciiDigitsOnly; exact inferInstance

theorem isSpaceChar_eq : Py.isSpaceChar = isSpace := rfl
theorem isIntSpace_eq : Py.Small.isIntSpace = isIntSpace := rfl

theorem strip_eq (s : List Char) : Py.strip s = strip s := rfl

theorem splitChar_eq (s : List Char) : Py.splitChar '.' s = splitDot s := by
  induction s with
  | nil => rfl
  | cons c cs ih => simp only [Py.splitChar, splitDot, ih]; rfl

/-- an ASCII digit is the decimal digit of its code minus 48 -/
theorem decimalDigitValue_of_isDigit (c : Char) (h : isDigit c = true) :
    Py.Small.decimalDigitValue c = some (c.toNat - 48) := by
  have h' : 48 ≤ c.toNat ∧ c.toNat ≤ 57 := by
    simp only [isDigit, Bool.and_eq_true, decide_eq_true_eq] at h
    have h1 : '0'.toNat ≤ c.toNat := h.1
    have h2 : c.toNat ≤ '9'.toNat := h.2
    exact ⟨h1, h2⟩
  unfold Py.Small.decimalDigitValue
  rw [show Py.Small.decimalZeros = 0x30 :: Py.Small.decimalZeros.tail from rfl]
  have : (decide (0x30 ≤ c.toNat) && decide (c.toNat < 0x30 + 10)) = true := by
    simp only [Bool.and_eq_true, decide_eq_true_eq]; omega
  simp only [List.find?_cons, this, Option.map_some]

theorem decimalDigitValue_cases (c : Char) (h : Py.Small.decimalDigitValue c = none ∨ isDigit c = true) :
    Py.Small.decimalDigitValue c = if isDigit c then some (c.toNat - 48) else none := by
  by_cases hd : isDigit c = true
  · rw [if_pos hd]; exact decimalDigitValue_of_isDigit c hd
  · rw [if_neg hd]
    rcases h with h | h
    · exact h
    · exact absurd h hd

/-- the digit scanner of the primitive, forgetting the digit count, is the model's -/
theorem digitsVal_eq (cs : List Char) (h : AsciiDigitsOnly cs) (acc k : Nat) :
    (Py.Small.digitsVal acc k cs).map Prod.fst = digitsVal acc cs := by
  induction cs generalizing acc k with
  | nil => rfl
  | cons c cs ih =>
    have hc := decimalDigitValue_cases c (h c (by simp))
    have hcs : AsciiDigitsOnly cs := fun x hx => h x (List.mem_cons_of_mem _ hx)
    unfold Py.Small.digitsVal digitsVal
    rw [hc]
    by_cases hd : isDigit c = true
    · simp only [hd, if_true]; exact ih hcs _ _
    · simp only [hd, Bool.false_eq_true, if_false]
      by_cases hu : c = '_'
      · simp only [hu, if_true]
        cases cs with
        | nil => rfl
        | cons d ds =>
          have hdd := decimalDigitValue_cases d (h d (by simp))
          simp only [hdd]
          by_cases h2 : isDigit d = true
          · simp only [h2, if_true, Option.isSome_some]; exact ih hcs _ _
          · simp only [h2, Bool.false_eq_true, if_false, Option.isSome_none]; rfl
      · simp only [hu, if_false]; rfl

/-- the digit count never exceeds what was scanned -/
theorem digitsVal_count (cs : List Char) (acc k n k' : Nat) (h : Py.Small.digitsVal acc k cs = some (n, k')) :
    k' ≤ k + cs.length := by
  induction cs generalizing acc k with
  | nil =>
    simp only [Py.Small.digitsVal, Option.some.injEq, Prod.mk.injEq] at h
    simp only [List.length_nil]; omega
  | cons c cs ih =>
    unfold Py.Small.digitsVal at h
    cases hv : Py.Small.decimalDigitValue c with
    | some d =>
      rw [hv] at h
      have := ih _ _ h
      simp only [List.length_cons]; omega
    | none =>
      rw [hv] at h
      by_cases hu : c = '_'
      · simp only [hu, if_true] at h
        cases cs with
        | nil => cases h
        | cons d ds =>
          simp only at h
          by_cases h2 : (Py.Small.decimalDigitValue d).isSome = true
          · simp only [h2, if_true] at h
            have := ih _ _ h
            simp only [List.length_cons] at this ⊢; omega
          · simp only [h2] at h; cases h
      · simp only [hu, if_false] at h; cases h

theorem natLit_eq (s : List Char) (h : AsciiDigitsOnly s) :
    (Py.Small.natLit s).map Prod.fst = natLit s := by
  cases s with
  | nil => rfl
  | cons c cs =>
    have hc := decimalDigitValue_cases c (h c (by simp))
    unfold Py.Small.natLit natLit
    simp only [hc]
    by_cases hd : isDigit c = true
    · simp only [hd, if_true, Option.isSome_some]; exact digitsVal_eq _ h _ _
    · simp only [hd, Bool.false_eq_true, if_false, Option.isSome_none]; rfl

theorem natLit_count (s : List Char) (n k : Nat) (h : Py.Small.natLit s = some (n, k)) : k ≤ s.length := by
  cases s with
  | nil => cases h
  | cons c cs =>
    unfold Py.Small.natLit at h
    simp only at h
    by_cases hd : (Py.Small.decimalDigitValue c).isSome = true
    · simp only [hd, if_true] at h
      have := digitsVal_count _ _ _ _ _ h
      omega
    · simp only [hd] at h; cases h

theorem length_stripInt_le (s : List Char) : (stripInt s).length ≤ s.length := by
  unfold stripInt
  rw [List.length_reverse]
  refine Nat.le_trans (List.dropWhile_sublist _).length_le ?_
  rw [List.length_reverse]
  exact (List.dropWhile_sublist _).length_le

theorem mem_stripInt (s : List Char) (c : Char) (h : c ∈ stripInt s) : c ∈ s := by
  unfold stripInt at h
  rw [List.mem_reverse] at h
  have := (List.dropWhile_sublist _).mem h
  rw [List.mem_reverse] at this
  exact (List.dropWhile_sublist _).mem this

theorem length_strip_le (s : List Char) : (strip s).length ≤ s.length := by
  unfold strip
  rw [List.length_reverse]
  refine Nat.le_trans (List.dropWhile_sublist _).length_le ?_
  rw [List.length_reverse]
  exact (List.dropWhile_sublist _).length_le

theorem mem_strip (s : List Char) (c : Char) (h : c ∈ strip s) : c ∈ s := by
  unfold strip at h
  rw [List.mem_reverse] at h
  have := (List.dropWhile_sublist _).mem h
  rw [List.mem_reverse] at this
  exact (List.dropWhile_sublist _).mem this

theorem parseInt_nil (s : List Char) (hg : stripInt s = []) : parseInt s = none := by
  unfold parseInt; rw [hg]; rfl

theorem parseInt_cons (s : List Char) (c : Char) (r : List Char) (hg : stripInt s = c :: r) :
    parseInt s = if c = '-' then (natLit r).map (fun n => -(Int.ofNat n))
      else if c = '+' then (natLit r).map Int.ofNat else (natLit (c :: r)).map Int.ofNat := by
  unfold parseInt; rw [hg]
  split
  · rename_i heq; cases heq; simp
  · rename_i heq; cases heq; simp
  · rename_i x h1 h2
    have hm : c ≠ '-' := fun e => h1 r (by rw [e])
    have hp : c ≠ '+' := fun e => h2 r (by rw [e])
    simp [hm, hp]

/-- CPython's `int(s)` is the model's `parseInt s` (failure = `ValueError`) when the decimal digits of `s` are
    ASCII and `s` has at most 4300 characters -/
theorem intOfStr_eq (s : List Char) (h : AsciiDigitsOnly s) (hl : s.length ≤ 4300) :
    Py.Small.intOfStr s = match parseInt s with
      | some k => .ok k
      | none => .error .valueError := by
  have hst : ((s.dropWhile Py.Small.isIntSpace).reverse.dropWhile Py.Small.isIntSpace).reverse = stripInt s := rfl
  unfold Py.Small.intOfStr
  simp only [hst]
  have hlen := length_stripInt_le s
  have hmem : AsciiDigitsOnly (stripInt s) := fun c hc => h c (mem_stripInt s c hc)
  have key : ∀ (neg : Bool) (body : List Char), AsciiDigitsOnly body → body.length ≤ 4300 →
      (match Py.Small.natLit body with
        | none => (Except.error Py.Exc.valueError : Except Py.Exc Int)
        | some (n, k) =>
          if k > Py.Small.intMaxStrDigits then .error .valueError
          else .ok (if neg then -(Int.ofNat n) else Int.ofNat n)) =
      match (natLit body).map (fun n => if neg then -(Int.ofNat n) else Int.ofNat n) with
        | some k => .ok k
        | none => .error .valueError := by
    intro neg body hb hbl
    rw [← natLit_eq body hb]
    cases hn : Py.Small.natLit body with
    | none => rfl
    | some p =>
      obtain ⟨n, k⟩ := p
      have := natLit_count body n k hn
      have hk : ¬ k > Py.Small.intMaxStrDigits := by unfold Py.Small.intMaxStrDigits; omega
      simp only [hk, if_false, Option.map_some]
  cases hg : stripInt s with
  | nil =>
    rw [parseInt_nil s hg]
    exact key false [] (fun _ hc => by cases hc) (by simp)
  | cons c r =>
    rw [hg] at hlen hmem
    rw [parseInt_cons s c r hg]
    have hr : AsciiDigitsOnly r := fun x hx => hmem x (List.mem_cons_of_mem _ hx)
    have hrl : r.length ≤ 4300 := by simp only [List.length_cons] at hlen; omega
    by_cases hm : c = '-'
    · subst hm
      rw [if_pos rfl]
      exact key true r hr hrl
    · by_cases hp : c = '+'
      · subst hp
        have hne : ¬ (('+' : Char) = '-') := by decide
        simp only [hne, if_false, if_true]
        exact key false r hr hrl
      · have := key false (c :: r) hmem (by omega)
        have h1 : ((c :: r).head? == some '-') = false := by simp [hm]
        have h2 : ((c :: r).head? == some '+') = false := by simp [hp]
        rw [if_neg hm, if_neg hp]
        simp only [h1, h2, Bool.or_false, Bool.false_eq_true, if_false]
        exact this

/-- the pieces of a split are made of characters of the string and are not longer than it -/
theorem splitDot_pieces (s : List Char) : ∀ p ∈ splitDot s, p.length ≤ s.length ∧ ∀ c ∈ p, c ∈ s := by
  induction s with
  | nil => intro p hp; simp [splitDot] at hp; subst hp; simp
  | cons c cs ih =>
    intro p hp
    unfold splitDot at hp
    by_cases hc : c = '.'
    · simp only [hc, if_true, List.mem_cons] at hp
      rcases hp with rfl | hp
      · simp
      · have := ih p hp
        exact ⟨by simp only [List.length_cons]; omega, fun x hx => List.mem_cons_of_mem _ (this.2 x hx)⟩
    · simp only [hc, if_false] at hp
      cases hs : splitDot cs with
      | nil =>
        rw [hs] at hp
        simp only [List.mem_singleton] at hp
        subst hp
        simp
      | cons hd tl =>
        rw [hs] at hp
        simp only [List.mem_cons] at hp
        rcases hp with rfl | hp
        · have := ih hd (by rw [hs]; simp)
          refine ⟨by simp only [List.length_cons]; omega, fun x hx => ?_⟩
          simp only [List.mem_cons] at hx ⊢
          rcases hx with rfl | hx
          · exact Or.inl rfl
          · exact Or.inr (this.2 x hx)
        · have := ih p (by rw [hs]; exact List.mem_cons_of_mem _ hp)
          exact ⟨by simp only [List.length_cons]; omega, fun x hx => List.mem_cons_of_mem _ (this.2 x hx)⟩

end Bufr.MdQuerySrc
