/-
  The labels of the decoded descriptors as the Python source prints them (`str(descriptor)`): `__str__` of
  `Descriptor` (inherited by `ElementDescriptor` and `OperatorDescriptor`), `AssociatedDescriptor`,
  `SkippedLocalDescriptor`, `MarkerDescriptor`, translated from `pybufrkit/descriptors.py` into
  `Gen/PyDescriptors.lean` on every check (worker w5-smallsrc), against the two label functions of the model:
  `ddChars` (`View/Query.lean`, C16) and `descStr` (`View/Text.lean`, C09).
-/
import BufrModel.View.Query
import BufrModel.View.Text
import BufrModel.Gen.PyDescriptors
namespace Bufr.LabelsSrc
open PyGen.descriptors Bufr.Query

/-- `str(d)` for the descriptor object a `DDesc` stands for: the `__str__` of its class on its attributes
    (`id`; `marker_id` for a marker) -/
def srcLabel : DDesc → List Char
  | .plain e => Descriptor.__str__ ⟨(e.id : Int)⟩
  | .assoc id _ => AssociatedDescriptor.__str__ ⟨(id : Int)⟩
  | .skipped id _ => SkippedLocalDescriptor.__str__ ⟨(id : Int)⟩
  | .marker op e => MarkerDescriptor.__str__ ⟨(e.id : Int), (op : Int)⟩
  | .oper id => Descriptor.__str__ ⟨(id : Int)⟩

theorem formatIntZero_nat (w n : Nat) : Py.formatIntZero w (n : Int) = padNatC n w := by
  have : ¬ ((n : Int) < 0) := by omega
  simp [Py.formatIntZero, Py.padLeft, padNatC, this]

theorem padNatC_eq_zpad (w n : Nat) : padNatC n w = zpad w n := rfl

theorem marker_prefix (op : Nat) :
    Py.Small.dictGet marker_descriptor_prefix (op : Int) ['M'] = [markerPrefixC op] := by
  unfold Py.Small.dictGet marker_descriptor_prefix markerPrefixC
  by_cases h1 : op = 223255
  · subst h1; rfl
  · by_cases h2 : op = 224255
    · subst h2; rfl
    · by_cases h3 : op = 225255
      · subst h3; rfl
      · by_cases h4 : op = 232255
        · subst h4; rfl
        · have e1 : ((op : Int) == (223255 : Int)) = false := by simp; omega
          have e2 : ((op : Int) == (224255 : Int)) = false := by simp; omega
          have e3 : ((op : Int) == (225255 : Int)) = false := by simp; omega
          have e4 : ((op : Int) == (232255 : Int)) = false := by simp; omega
          simp [List.lookup, e1, e2, e3, e4, h1, h2, h3, h4]

theorem markerChar_eq (op : Nat) : markerChar op = markerPrefixC op := rfl

theorem srcLabel_ddChars (dd : DDesc) : srcLabel dd = ddChars dd := by
  cases dd with
  | plain e => simp [srcLabel, ddChars, Descriptor.__str__, formatIntZero_nat]
  | assoc id n => simp [srcLabel, ddChars, AssociatedDescriptor.__str__, formatIntZero_nat]
  | skipped id n => simp [srcLabel, ddChars, SkippedLocalDescriptor.__str__, formatIntZero_nat]
  | marker op e => simp [srcLabel, ddChars, MarkerDescriptor.__str__, formatIntZero_nat, marker_prefix]
  | oper id => simp [srcLabel, ddChars, Descriptor.__str__, formatIntZero_nat]

theorem srcLabel_descStr (dd : DDesc) : srcLabel dd = descStr dd := by
  rw [srcLabel_ddChars]
  cases dd <;> rfl

end Bufr.LabelsSrc
