/-
  Helper lemmas and the combined state machine for `Props/C12Aborted.lean`: the decoders of `Coder/Process.lean`
  (registers threaded across walks) give the results of the stateless ones when the reset function assigns every
  register; `runHistW`: the Decoder object's table of section configurations (`Lemmas/DecoderState.lean`) together
  with the registers left by the last walk.
-/
import BufrModel.Coder.Process
import BufrModel.Lemmas.DecoderState
namespace Bufr

theorem decodeSubsetW_eq (reset : Regs → Regs) (hreset : ∀ r, reset r = {}) (tmpl : List Desc) (r : Regs) (bits : Bits) :
    (match decodeSubsetW reset tmpl r bits with
     | .ok (o, rest, _) => .ok (o, rest)
     | .error e => .error e) = decodeSubset tmpl bits := by
  simp only [decodeSubsetW, decodeSubset, hreset]
  cases walkList decPrimsU tmpl { regs := {}, bits := bits, vals := [[]] } <;> rfl

theorem decodeSubsetsW_eq (reset : Regs → Regs) (hreset : ∀ r, reset r = {}) (tmpl : List Desc) :
    ∀ (n : Nat) (r : Regs) (bits : Bits), dropRegs (decodeSubsetsW reset tmpl n r bits) = decodeSubsets tmpl n bits := by
  intro n
  induction n with
  | zero => intro r bits; rfl
  | succ n ih =>
    intro r bits
    have h1 := decodeSubsetW_eq reset hreset tmpl r bits
    simp only [decodeSubsetsW, decodeSubsets]
    cases hs : decodeSubsetW reset tmpl r bits with
    | error e =>
      rw [hs] at h1
      simp only at h1
      rw [← h1]; rfl
    | ok x =>
      obtain ⟨o, rest, r1⟩ := x
      rw [hs] at h1
      simp only at h1
      rw [← h1]
      simp only
      have h2 := ih r1 rest
      cases hr : decodeSubsetsW reset tmpl n r1 rest with
      | error e => rw [hr] at h2; simp only [dropRegs] at h2; rw [← h2]; rfl
      | ok y =>
        obtain ⟨os, rest', r2⟩ := y
        rw [hr] at h2
        simp only [dropRegs] at h2
        rw [← h2]; rfl

theorem decodeCompressedW_eq (reset : Regs → Regs) (hreset : ∀ r, reset r = {}) (tmpl : List Desc) (n : Nat) (r : Regs)
    (bits : Bits) : dropRegs (decodeCompressedW reset tmpl n r bits) = decodeCompressed tmpl n bits := by
  simp only [decodeCompressedW, decodeCompressed, hreset]
  cases walkList decPrimsC tmpl { regs := {}, bits := bits, vals := List.replicate n [] } <;> rfl

theorem decodeDataW_eq (reset : Regs → Regs) (hreset : ∀ r, reset r = {}) (tmpl : List Desc) (c : Bool) (n : Nat)
    (r : Regs) (bits : Bits) : dropRegs (decodeDataW reset tmpl c n r bits) = decodeData tmpl c n bits := by
  unfold decodeDataW decodeData
  cases c with
  | true => simp only [if_true]; exact decodeCompressedW_eq reset hreset tmpl n r bits
  | false => simp only [Bool.false_eq_true, if_false]; exact decodeSubsetsW_eq reset hreset tmpl n _ bits

theorem POp.run_fst (reset : Regs → Regs) (op : POp) (r : Regs) :
    (op.run reset r).1 = dropRegs (decodeDataW reset op.tmpl op.compressed op.n r op.bits) := by
  unfold POp.run
  cases decodeDataW reset op.tmpl op.compressed op.n r op.bits with
  | error e => rfl
  | ok x => obtain ⟨o, rest, r'⟩ := x; rfl

theorem tableCoderOf_decodeData (T : Tables) : tableCoderOf decodeData T = Stream.tableCoder T := rfl

theorem tableCoderW_eq (reset : Regs → Regs) (hreset : ∀ r, reset r = {}) (T : Tables) (r : Regs) :
    tableCoderW reset T r = Stream.tableCoder T := by
  rw [← tableCoderOf_decodeData]
  unfold tableCoderW
  congr 1
  funext tmpl comp n bits
  exact decodeDataW_eq reset hreset tmpl comp n r bits

/-- the Decoder OBJECT (its table of section configurations, `Props/C12History.lean`) together with the coder registers
    the last template walk of the process left: every operation runs with the data coder of a process in that state,
    and leaves ANY registers behind (`left`, chosen by the history: a scan walks many templates and may abort any of
    them anywhere) -/
def runHistW (reset : Regs → Regs) (L : Layouts) (T : Tables) :
    List (Stream.Op (List SubsetOut) × Regs) → Stream.Memo × Regs → Stream.Memo × Regs
  | [], s => s
  | (op, left) :: ops, (m, r) => runHistW reset L T ops ((op.run L (tableCoderW reset T r) m).2, left)

theorem runHistW_fst (reset : Regs → Regs) (hreset : ∀ r, reset r = {}) (L : Layouts) (T : Tables) :
    ∀ (hist : List (Stream.Op (List SubsetOut) × Regs)) (m : Stream.Memo) (r : Regs),
      (runHistW reset L T hist (m, r)).1 = Stream.runHist L (Stream.tableCoder T) (hist.map (·.1)) m := by
  intro hist
  induction hist with
  | nil => intro m r; rfl
  | cons a as ih =>
    intro m r
    obtain ⟨op, left⟩ := a
    simp only [runHistW, List.map_cons, Stream.runHist]
    rw [ih, tableCoderW_eq reset hreset]

end Bufr
