/-
  Lemmas about `Msg/Stream.lean`: the signature search, fuel, and the master lemma that scans a stream
  made of pieces (message ++ separator) whose per-iteration behaviour is known.
-/
import BufrModel.Msg.Stream
import BufrModel.Spec.Frame
namespace Bufr.Stream

/-! ## signature search -/

theorem sig_length : sig.length = 4 := rfl

theorem isPrefixOf_append_of_le (l x : Bytes) (h : sig.length ≤ l.length) :
    sig.isPrefixOf (l ++ x) = sig.isPrefixOf l := by
  rw [Bool.eq_iff_iff, List.isPrefixOf_iff_prefix, List.isPrefixOf_iff_prefix]
  constructor
  · intro hp
    exact List.prefix_of_prefix_length_le hp (List.prefix_append l x) h
  · intro hp
    exact List.IsPrefix.trans hp (List.prefix_append l x)

theorem isPrefixOf_append_mono (l x : Bytes) (h : sig.isPrefixOf l = true) : sig.isPrefixOf (l ++ x) = true := by
  rw [List.isPrefixOf_iff_prefix] at h ⊢
  exact List.IsPrefix.trans h (List.prefix_append l x)

/-- **Quiet**: the first occurrence of the signature in `pre ++ "BUFR"` is the appended one: no
    occurrence inside `pre` and none straddling its end. -/
def Quiet (pre : Bytes) : Prop := findSig (pre ++ sig) = some pre.length

theorem findSig_sig_append (m : Bytes) : findSig (sig ++ m) = some 0 := by
  have h : sig.isPrefixOf (sig ++ m) = true := by
    rw [List.isPrefixOf_iff_prefix]; exact List.prefix_append _ _
  have : sig ++ m = (66 : UInt8) :: ([85, 70, 82] ++ m) := rfl
  rw [this] at h ⊢
  simp only [findSig, h, if_true]

theorem quiet_nil : Quiet [] := by
  show findSig ([] ++ sig) = some 0
  have := findSig_sig_append []
  simpa using this

theorem map_succ_eq_some {o : Option Nat} {n : Nat} (h : o.map (· + 1) = some (n + 1)) : o = some n := by
  cases o with
  | none => simp at h
  | some k => simp at h; rw [h]

/-- a quiet prefix followed by anything that starts with the signature: found right after the prefix -/
theorem findSig_quiet_append (pre m : Bytes) (hq : Quiet pre) :
    findSig (pre ++ (sig ++ m)) = some pre.length := by
  induction pre with
  | nil => simpa using findSig_sig_append m
  | cons b pre ih =>
    unfold Quiet at hq
    simp only [List.cons_append, findSig, List.length_cons] at hq ⊢
    by_cases hc : sig.isPrefixOf (b :: (pre ++ sig)) = true
    · simp only [hc, if_true] at hq
      cases hq
    · simp only [hc] at hq
      have hq' : Quiet pre := map_succ_eq_some hq
      have hc2 : sig.isPrefixOf (b :: (pre ++ (sig ++ m))) = false := by
        have h1 : b :: (pre ++ (sig ++ m)) = (b :: (pre ++ sig)) ++ m := by simp
        rw [h1, isPrefixOf_append_of_le _ _ (by simp [sig_length])]
        exact Bool.eq_false_iff.mpr hc
      simp only [hc2, ih hq', Option.map_some]
      rfl

theorem findSig_none_of_quiet (pre : Bytes) (hq : Quiet pre) : findSig pre = none := by
  induction pre with
  | nil => rfl
  | cons b pre ih =>
    unfold Quiet at hq
    simp only [List.cons_append, findSig, List.length_cons] at hq ⊢
    by_cases hc : sig.isPrefixOf (b :: (pre ++ sig)) = true
    · simp only [hc, if_true] at hq
      cases hq
    · simp only [hc] at hq
      have hq' : Quiet pre := map_succ_eq_some hq
      have hc2 : sig.isPrefixOf (b :: pre) = false := by
        cases h : sig.isPrefixOf (b :: pre) with
        | false => rfl
        | true =>
          exfalso; apply hc
          have := isPrefixOf_append_mono (b :: pre) sig h
          simpa using this
      simp only [hc2, ih hq', Option.map_none]
      rfl

/-- **`BUFR` has no border**: a byte string in which the signature does not occur is quiet (an
    occurrence straddling the end of `pre` would need a proper suffix of `BUFR` that is also a prefix). -/
theorem quiet_of_findSig_none (pre : Bytes) (h : findSig pre = none) : Quiet pre := by
  induction pre with
  | nil => exact quiet_nil
  | cons b pre ih =>
    simp only [findSig] at h
    by_cases hc : sig.isPrefixOf (b :: pre) = true
    · simp [hc] at h
    · simp only [hc] at h
      have hn : findSig pre = none := by
        cases hf : findSig pre with
        | none => rfl
        | some k => rw [hf] at h; simp at h
      have hq := ih hn
      unfold Quiet at hq ⊢
      have hc2 : sig.isPrefixOf (b :: (pre ++ sig)) = false := by
        by_cases hl : 4 ≤ (b :: pre).length
        · have := isPrefixOf_append_of_le (b :: pre) sig (by simpa [sig_length] using hl)
          simp only [List.cons_append] at this
          rw [this]; exact Bool.eq_false_iff.mpr hc
        · match pre, hl with
          | [], _ => simp [sig, startSig, List.isPrefixOf]
          | [c], _ => simp [sig, startSig, List.isPrefixOf]
          | [c, d], _ => simp [sig, startSig, List.isPrefixOf]
          | _ :: _ :: _ :: _, hl => simp at hl
      simp only [List.cons_append, findSig, hc2, hq, List.length_cons, Option.map_some]
      rfl

theorem findSig_none_iff (s : Bytes) : findSig s = none ↔ ¬ sig <:+: s := by
  induction s with
  | nil =>
    simp only [findSig, true_iff]
    intro h
    have := List.IsInfix.length_le h
    simp [sig_length] at this
  | cons b s ih =>
    simp only [findSig, List.infix_cons_iff, not_or]
    by_cases hc : sig.isPrefixOf (b :: s) = true
    · simp only [hc, if_true]
      constructor
      · intro h; cases h
      · intro h; exact absurd (List.isPrefixOf_iff_prefix.mp hc) h.1
    · simp only [hc]
      have hp : ¬ sig <+: b :: s := fun h => hc (List.isPrefixOf_iff_prefix.mpr h)
      constructor
      · intro h
        refine ⟨hp, ih.mp ?_⟩
        cases hf : findSig s with
        | none => rfl
        | some k => rw [hf] at h; simp at h
      · intro h
        rw [ih.mpr h.2]; rfl

/-- the property's wording: a separator that does not contain the start signature is quiet -/
theorem quiet_of_not_infix (pre : Bytes) (h : ¬ sig <:+: pre) : Quiet pre :=
  quiet_of_findSig_none pre ((findSig_none_iff pre).mpr h)

theorem not_infix_of_quiet (pre : Bytes) (h : Quiet pre) : ¬ sig <:+: pre :=
  (findSig_none_iff pre).mp (findSig_none_of_quiet pre h)

/-- what an unmatched message leaves behind in full mode: the stop signature, which cannot take part in
    an occurrence of `BUFR` -/
theorem quiet_stop_append (sep : Bytes) (h : Quiet sep) : Quiet (stopSig ++ sep) := by
  apply quiet_of_findSig_none
  have hn := findSig_none_of_quiet sep h
  have h7 : ∀ t : Bytes, sig.isPrefixOf ((55 : UInt8) :: t) = false := by
    intro t; simp [sig, startSig, List.isPrefixOf]
  show findSig ((55 : UInt8) :: 55 :: 55 :: 55 :: sep) = none
  simp only [findSig, h7, hn, Option.map_none]
  rfl

/-! ## fuel -/

theorem scanFuel_fuel_irrelevant {μ : Type} (dec : Dec μ) (cfg : Cfg μ) :
    ∀ (f1 f2 off : Nat) (s : Bytes), s.length < f1 → s.length < f2 →
      scanFuel dec cfg f1 off s = scanFuel dec cfg f2 off s := by
  intro f1
  induction f1 with
  | zero => intro f2 off s h; omega
  | succ f1 ih =>
    intro f2 off s h1 h2
    cases f2 with
    | zero => omega
    | succ f2 =>
      cases s with
      | nil => rfl
      | cons b s' =>
      generalize hs : b :: s' = s at *
      have hpos : 0 < s.length := by rw [← hs]; simp
      simp only [scanFuel]
      cases findSig s with
      | none => rfl
      | some k =>
        simp only
        cases step dec cfg (List.drop k s) with
        | fail e => rfl
        | adv n y =>
          cases n with
          | zero => rfl
          | succ n =>
            simp only
            have hl : (List.drop (n + 1) (List.drop k s)).length < s.length := by
              simp only [List.length_drop]; omega
            rw [ih f2 _ _ (by omega) (by omega)]

/-! ## pieces -/

/-- a message and the separator that follows it -/
structure Piece where
  msg : Bytes
  sep : Bytes

def body : List Piece → Bytes
  | [] => []
  | p :: ps => p.msg ++ (p.sep ++ body ps)

/-- what the scan yields for pieces whose iteration advances by `(act p).1` and yields `(act p).2` -/
def deliver {μ : Type} (act : Piece → Nat × Option (MsgInfo μ)) : Nat → List Piece → List (Item μ)
  | _, [] => []
  | off, p :: ps =>
    yielded off ((act p).2.map fun i => (p.msg, i)) ++ deliver act (off + p.msg.length + p.sep.length) ps

/-- the iteration at piece `p` advances by `(act p).1 ∈ [1, |msg|]`, yields `(act p).2`, and what is
    left of the message together with the separator is quiet -/
structure Behaves {μ : Type} (dec : Dec μ) (cfg : Cfg μ) (act : Piece → Nat × Option (MsgInfo μ)) (p : Piece) : Prop where
  starts : ∃ m', p.msg = sig ++ m'
  step_eq : ∀ x, step dec cfg (p.msg ++ x) = .adv (act p).1 ((act p).2.map fun i => (p.msg, i))
  pos : 0 < (act p).1
  le : (act p).1 ≤ p.msg.length
  quiet : Quiet (p.msg.drop (act p).1 ++ p.sep)

theorem scanFuel_pieces {μ : Type} (dec : Dec μ) (cfg : Cfg μ) (act : Piece → Nat × Option (MsgInfo μ))
    (rest : Bytes) (endItems : Nat → List (Item μ)) (endOut : Outcome)
    (hend : ∀ pre off fuel, Quiet pre → (pre ++ rest).length < fuel →
      scanFuel dec cfg fuel off (pre ++ rest) = (endItems (off + pre.length), endOut)) :
    ∀ (ps : List Piece), (∀ p ∈ ps, Behaves dec cfg act p) → ∀ (pre : Bytes), Quiet pre → ∀ (off fuel : Nat),
      (pre ++ (body ps ++ rest)).length < fuel →
      scanFuel dec cfg fuel off (pre ++ (body ps ++ rest)) =
        (deliver act (off + pre.length) ps ++ endItems (off + pre.length + (body ps).length), endOut) := by
  intro ps
  induction ps with
  | nil =>
    intro _ pre hq off fuel hf
    simp only [body, List.nil_append, deliver, List.length_nil, Nat.add_zero] at hf ⊢
    exact hend pre off fuel hq hf
  | cons p ps ih =>
    intro hps pre hq off fuel hf
    have hp := hps p (List.mem_cons_self)
    obtain ⟨m', hm'⟩ := hp.starts
    cases fuel with
    | zero => omega
    | succ fuel =>
      obtain ⟨k, hk⟩ : ∃ k, (act p).1 = k + 1 := ⟨(act p).1 - 1, by have := hp.pos; omega⟩
      have hs : pre ++ (body (p :: ps) ++ rest) = pre ++ (sig ++ (m' ++ (p.sep ++ (body ps ++ rest)))) := by
        simp only [body, hm', List.append_assoc]
      have hfind : findSig (pre ++ (body (p :: ps) ++ rest)) = some pre.length := by
        rw [hs]; exact findSig_quiet_append pre _ hq
      have hdrop : List.drop pre.length (pre ++ (body (p :: ps) ++ rest)) = p.msg ++ (p.sep ++ (body ps ++ rest)) := by
        rw [List.drop_left]; simp only [body, List.append_assoc]
      have hle := hp.le
      have hdrop2 : List.drop (k + 1) (p.msg ++ (p.sep ++ (body ps ++ rest))) =
          (p.msg.drop (k + 1) ++ p.sep) ++ (body ps ++ rest) := by
        rw [List.drop_append_of_le_length (by omega)]; simp only [List.append_assoc]
      have hlen : (p.msg.drop (k + 1) ++ p.sep ++ (body ps ++ rest)).length < fuel := by
        simp only [List.length_append, List.length_drop, body] at hf ⊢
        omega
      have hq2 : Quiet (p.msg.drop (k + 1) ++ p.sep) := by rw [← hk]; exact hp.quiet
      have ih' := ih (fun q hq => hps q (List.mem_cons_of_mem _ hq)) _ hq2 (off + pre.length + (k + 1)) fuel hlen
      simp only [scanFuel, hfind, hdrop, hp.step_eq, hk, hdrop2, ih']
      have e1 : off + pre.length + (k + 1) + (p.msg.drop (k + 1) ++ p.sep).length
          = off + pre.length + p.msg.length + p.sep.length := by
        simp only [List.length_append, List.length_drop]; omega
      have e2 : off + pre.length + (body (p :: ps)).length
          = off + pre.length + p.msg.length + p.sep.length + (body ps).length := by
        simp only [body, List.length_append]; omega
      simp only [deliver, e1, e2, List.append_assoc]

/-- the stream ends after the last piece -/
theorem scanFuel_end_done {μ : Type} (dec : Dec μ) (cfg : Cfg μ) :
    ∀ pre off fuel, Quiet pre → (pre ++ []).length < fuel →
      scanFuel dec cfg fuel off (pre ++ []) = ((fun _ => []) (off + pre.length), Outcome.done) := by
  intro pre off fuel hq hf
  cases fuel with
  | zero => omega
  | succ fuel =>
    simp only [List.append_nil, scanFuel, findSig_none_of_quiet pre hq]

/-- the stream continues with something that starts with the signature and at which the iteration fails -/
theorem scanFuel_end_fail {μ : Type} (dec : Dec μ) (cfg : Cfg μ) (bad : Bytes) (e : Err)
    (hb : ∃ m', bad = sig ++ m') (hstep : step dec cfg bad = .fail e) :
    ∀ pre off fuel, Quiet pre → (pre ++ bad).length < fuel →
      scanFuel dec cfg fuel off (pre ++ bad) = ((fun _ => []) (off + pre.length), Outcome.error e) := by
  intro pre off fuel hq hf
  obtain ⟨m', hm'⟩ := hb
  cases fuel with
  | zero => omega
  | succ fuel =>
    have hfind : findSig (pre ++ bad) = some pre.length := by rw [hm']; exact findSig_quiet_append pre _ hq
    simp only [scanFuel, hfind, List.drop_left, hstep]

theorem scan_pieces_done {μ : Type} (dec : Dec μ) (cfg : Cfg μ) (act : Piece → Nat × Option (MsgInfo μ))
    (sep0 : Bytes) (ps : List Piece) (h0 : Quiet sep0) (hps : ∀ p ∈ ps, Behaves dec cfg act p) :
    scan dec cfg (sep0 ++ body ps) = (deliver act sep0.length ps, .done) := by
  have := scanFuel_pieces dec cfg act [] (fun _ => []) .done (scanFuel_end_done dec cfg) ps hps sep0 h0 0
    ((sep0 ++ body ps).length + 1) (by simp)
  simp only [List.append_nil, Nat.zero_add] at this
  exact this

theorem scan_pieces_fail {μ : Type} (dec : Dec μ) (cfg : Cfg μ) (act : Piece → Nat × Option (MsgInfo μ))
    (sep0 : Bytes) (ps : List Piece) (bad : Bytes) (e : Err) (h0 : Quiet sep0)
    (hps : ∀ p ∈ ps, Behaves dec cfg act p) (hb : ∃ m', bad = sig ++ m') (hstep : step dec cfg bad = .fail e) :
    scan dec cfg (sep0 ++ (body ps ++ bad)) = (deliver act sep0.length ps, .error e) := by
  have := scanFuel_pieces dec cfg act bad (fun _ => []) (.error e) (scanFuel_end_fail dec cfg bad e hb hstep) ps hps
    sep0 h0 0 ((sep0 ++ (body ps ++ bad)).length + 1) (by simp)
  simp only [List.append_nil, Nat.zero_add] at this
  exact this

/-! ## reading `deliver` -/

theorem deliver_bytes {μ : Type} (act : Piece → Nat × Option (MsgInfo μ)) (keep : Piece → Bool) :
    ∀ (off : Nat) (ps : List Piece), (∀ p ∈ ps, ((act p).2.isSome) = keep p) →
    (deliver act off ps).map (·.bytes) = (ps.filter keep).map (·.msg) := by
  intro off ps
  induction ps generalizing off with
  | nil => intro _; rfl
  | cons p ps ih =>
    intro h
    have hp := h p List.mem_cons_self
    simp only [deliver, List.map_append, ih _ (fun q hq => h q (List.mem_cons_of_mem _ hq)), List.filter_cons]
    cases ha : (act p).2 with
    | none =>
      rw [ha] at hp
      simp only [Option.isSome_none] at hp
      simp [← hp, yielded]
    | some i =>
      rw [ha] at hp
      simp only [Option.isSome_some] at hp
      simp [← hp, yielded]

/-- offsets of the pieces in `sep0 ++ body ps` -/
def offsets : Nat → List Piece → List (Nat × Piece)
  | _, [] => []
  | off, p :: ps => (off, p) :: offsets (off + p.msg.length + p.sep.length) ps

theorem deliver_offsets {μ : Type} (act : Piece → Nat × Option (MsgInfo μ)) (keep : Piece → Bool) :
    ∀ (off : Nat) (ps : List Piece), (∀ p ∈ ps, ((act p).2.isSome) = keep p) →
    (deliver act off ps).map (fun it => (it.offset, it.bytes)) =
      ((offsets off ps).filter (fun q => keep q.2)).map (fun q => (q.1, q.2.msg)) := by
  intro off ps
  induction ps generalizing off with
  | nil => intro _; rfl
  | cons p ps ih =>
    intro h
    have hp := h p List.mem_cons_self
    simp only [deliver, List.map_append, ih _ (fun q hq => h q (List.mem_cons_of_mem _ hq)), offsets, List.filter_cons]
    cases ha : (act p).2 with
    | none =>
      rw [ha] at hp
      simp only [Option.isSome_none] at hp
      simp [← hp, yielded]
    | some i =>
      rw [ha] at hp
      simp only [Option.isSome_some] at hp
      simp [← hp, yielded]

theorem offsets_map_snd (off : Nat) (ps : List Piece) : (offsets off ps).map (·.2) = ps := by
  induction ps generalizing off with
  | nil => rfl
  | cons p ps ih => simp only [offsets, List.map_cons, ih]

theorem filter_true {α : Type} (l : List α) : l.filter (fun _ => true) = l := by
  induction l with
  | nil => rfl
  | cons a l ih => simp only [List.filter_cons, if_true, ih]

end Bufr.Stream

namespace Bufr.Stream

/-! ## hypotheses on the per-offset decoder, and what one iteration does under them -/

/-- **frame**: a successful decoding is not affected by bytes that follow (same reported bytes, same
    declared length, same message) -/
def Frame {μ : Type} (dec : Dec μ) : Prop :=
  ∀ (b : Bool) (m x : Bytes) (i : MsgInfo μ), dec b m = .ok i → dec b (m ++ x) = .ok i

/-- a valid message: starts with the signature, decodes in both modes, the full decoding reports all of
    its bytes and the declared total length is its length -/
structure ValidMsg {μ : Type} (dec : Dec μ) (m : Bytes) : Prop where
  starts : ∃ m', m = sig ++ m'
  full : ∃ i, dec false m = .ok i ∧ i.consumed = m.length ∧ i.declared = m.length
  info : ∃ i, dec true m = .ok i ∧ i.declared = m.length

theorem ValidMsg.pos {μ : Type} {dec : Dec μ} {m : Bytes} (h : ValidMsg dec m) : 0 < m.length := by
  obtain ⟨m', hm⟩ := h.starts
  rw [hm]; simp only [List.length_append, sig_length]; omega

/-- in the mode `b` the decoding of a valid message succeeds and what determines the advance
    (`consumed` when decoding fully, `declared` when only metadata is read) is its length -/
theorem ValidMsg.mode {μ : Type} {dec : Dec μ} {m : Bytes} (h : ValidMsg dec m) (b : Bool) :
    ∃ i, dec b m = .ok i ∧ (if b then i.declared else i.consumed) = m.length := by
  cases b with
  | false => obtain ⟨i, h1, h2, _⟩ := h.full; exact ⟨i, h1, by simpa using h2⟩
  | true => obtain ⟨i, h1, h2⟩ := h.info; exact ⟨i, h1, by simpa using h2⟩

theorem take_length_append (m x : Bytes) : (m ++ x).take m.length = m := by
  rw [List.take_left]

/-- no filter: a valid message is yielded whole and the scan moves to its end -/
theorem step_valid {μ : Type} (dec : Dec μ) (cfg : Cfg μ) (hf : cfg.filter = none) (hfr : Frame dec)
    (m : Bytes) (hv : ValidMsg dec m) (i : MsgInfo μ) (hi : dec cfg.infoOnly m = .ok i) (x : Bytes) :
    step dec cfg (m ++ x) = .adv m.length (some (m, i)) := by
  obtain ⟨i', hi', hlen⟩ := hv.mode cfg.infoOnly
  rw [hi] at hi'; cases hi'
  have hd := hfr cfg.infoOnly m x i hi
  cases hb : cfg.infoOnly with
  | false =>
    rw [hb] at hd hlen
    simp only [Bool.false_eq_true, if_false] at hlen
    simp only [step, tryBody, decodeHere, hf, hb, hd, hlen, take_length_append, Bool.false_eq_true, if_false, if_true]
  | true =>
    rw [hb] at hd hlen
    simp only [if_true] at hlen
    simp only [step, tryBody, decodeHere, hf, hb, hd, hlen, take_length_append, if_true]

theorem behaves_valid {μ : Type} (dec : Dec μ) (cfg : Cfg μ) (hf : cfg.filter = none) (hfr : Frame dec)
    (p : Piece) (hv : ValidMsg dec p.msg) (hq : Quiet p.sep) :
    Behaves dec cfg (fun p => (p.msg.length, (dec cfg.infoOnly p.msg).toOption)) p := by
  obtain ⟨i, hi, _⟩ := hv.mode cfg.infoOnly
  refine ⟨hv.starts, fun x => ?_, hv.pos, Nat.le_refl _, ?_⟩
  · simp only [hi, Except.toOption, Option.map_some]
    exact step_valid dec cfg hf hfr p.msg hv i hi x
  · simpa using hq

end Bufr.Stream

namespace Bufr.Stream

/-! ## filter -/

/-- the length of the bytes the metadata-only decoding reports (what an unmatched message advances by
    when data sections are decoded) -/
def infoSpan {μ : Type} (dec : Dec μ) (m : Bytes) : Nat :=
  match dec true m with
  | .ok i => i.consumed
  | .error _ => 0

/-- is the piece a table definition message (read off its metadata-only decoding)?  Such a message is decoded in
    full even when the filter rejects it (repair F25) -/
def isDefMsg {μ : Type} (dec : Dec μ) (cfg : Cfg μ) (m : Bytes) : Bool :=
  match dec true m with
  | .ok i => cfg.tableDef i
  | .error _ => false

def isDefPiece {μ : Type} (dec : Dec μ) (cfg : Cfg μ) (p : Piece) : Bool := isDefMsg dec cfg p.msg

def actFilter {μ : Type} (dec : Dec μ) (cfg : Cfg μ) (keep : Piece → Bool) (p : Piece) : Nat × Option (MsgInfo μ) :=
  if keep p then (p.msg.length, (dec cfg.infoOnly p.msg).toOption)
  else (if cfg.infoOnly then p.msg.length else if isDefPiece dec cfg p then p.msg.length else infoSpan dec p.msg, none)

theorem behaves_filter {μ : Type} (dec : Dec μ) (cfg : Cfg μ) (pred : MsgInfo μ → Except Err Bool)
    (hf : cfg.filter = some pred) (hfr : Frame dec) (keep : Piece → Bool) (p : Piece)
    (hv : ValidMsg dec p.msg) (hpred : ∀ i, dec true p.msg = .ok i → pred i = .ok (keep p)) (hq : Quiet p.sep)
    (hun : keep p = false → cfg.infoOnly = false → isDefPiece dec cfg p = false →
      0 < infoSpan dec p.msg ∧ infoSpan dec p.msg ≤ p.msg.length ∧ Quiet (p.msg.drop (infoSpan dec p.msg) ++ p.sep)) :
    Behaves dec cfg (actFilter dec cfg keep) p := by
  obtain ⟨ii, hii, hdecl⟩ := hv.info
  obtain ⟨fi, hfi, hcons, _⟩ := hv.full
  have hp := hpred ii hii
  cases hk : keep p with
  | true =>
    rw [hk] at hp
    have hact : actFilter dec cfg keep p = (p.msg.length, (dec cfg.infoOnly p.msg).toOption) := by
      simp only [actFilter, hk, if_true]
    refine ⟨hv.starts, fun x => ?_, by rw [hact]; exact hv.pos, by rw [hact]; exact Nat.le_refl _, ?_⟩
    · rw [hact]
      have h1 := hfr true p.msg x ii hii
      have h2 := hfr false p.msg x fi hfi
      cases hb : cfg.infoOnly with
      | false =>
        simp only [step, tryBody, decodeHere, hf, h1, hp, hb, h2, hfi, hcons, take_length_append, Bool.not_false,
          Bool.true_or, Bool.and_self, if_true, Bool.false_eq_true, if_false, Except.toOption, Option.map_some]
      | true =>
        simp only [step, tryBody, decodeHere, hf, h1, hp, hb, hii, hdecl, take_length_append, Bool.not_true,
          Bool.and_false, if_true, Bool.false_eq_true, if_false, Except.toOption, Option.map_some]
    · rw [hact]; simpa using hq
  | false =>
    rw [hk] at hp
    cases hb : cfg.infoOnly with
    | true =>
      have hact : actFilter dec cfg keep p = (p.msg.length, none) := by
        simp only [actFilter, hk, hb, if_true, Bool.false_eq_true, if_false]
      refine ⟨hv.starts, fun x => ?_, by rw [hact]; exact hv.pos, by rw [hact]; exact Nat.le_refl _, ?_⟩
      · rw [hact]
        have h1 := hfr true p.msg x ii hii
        simp only [step, tryBody, decodeHere, hf, h1, hp, hb, hdecl, take_length_append, Bool.not_true, Bool.and_false,
          if_true, Bool.false_eq_true, if_false, Option.map_none]
      · rw [hact]; simpa using hq
    | false =>
      have hdef : isDefPiece dec cfg p = cfg.tableDef ii := by simp only [isDefPiece, isDefMsg, hii]
      cases htd : cfg.tableDef ii with
      | true =>
        -- a rejected table definition message: decoded in full, the whole message is skipped, nothing is yielded
        have hact : actFilter dec cfg keep p = (p.msg.length, none) := by
          simp only [actFilter, hk, hb, hdef, htd, if_true, Bool.false_eq_true, if_false]
        refine ⟨hv.starts, fun x => ?_, by rw [hact]; exact hv.pos, by rw [hact]; exact Nat.le_refl _, ?_⟩
        · rw [hact]
          have h1 := hfr true p.msg x ii hii
          have h2 := hfr false p.msg x fi hfi
          simp only [step, tryBody, decodeHere, hf, h1, hp, hb, h2, htd, hcons, take_length_append, Bool.not_false,
            Bool.false_or, Bool.and_self, if_true, Bool.false_eq_true, if_false, Option.map_none]
        · rw [hact]; simpa using hq
      | false =>
        have hspan : infoSpan dec p.msg = ii.consumed := by simp only [infoSpan, hii]
        have hact : actFilter dec cfg keep p = (ii.consumed, none) := by
          simp only [actFilter, hk, hb, hdef, htd, hspan, Bool.false_eq_true, if_false]
        obtain ⟨u1, u2, u3⟩ := hun hk hb (by rw [hdef, htd])
        rw [hspan] at u1 u2 u3
        refine ⟨hv.starts, fun x => ?_, by rw [hact]; exact u1, by rw [hact]; exact u2, by rw [hact]; exact u3⟩
        rw [hact]
        have h1 := hfr true p.msg x ii hii
        have hl : (List.take ii.consumed (p.msg ++ x)).length = ii.consumed := by
          rw [List.length_take, List.length_append]; omega
        simp only [step, tryBody, decodeHere, hf, h1, hp, hb, hl, htd, Bool.false_or, Bool.false_and,
          Bool.false_eq_true, if_false, Option.map_none]

/-! ## damaged messages under continue-on-error -/

/-- a damaged message whose total length survived: the full decoding fails with a library error
    (whatever follows), the metadata-only decoding still succeeds and reports the intact length -/
structure KeepsLength {μ : Type} (dec : Dec μ) (cfg : Cfg μ) (p : Piece) : Prop where
  starts : ∃ m', p.msg = sig ++ m'
  mode : cfg.infoOnly = false
  fails : ∀ x, ∃ e, dec false (p.msg ++ x) = .error e ∧ e.isLib = true
  info : ∀ x, ∃ i, dec true (p.msg ++ x) = .ok i ∧ i.declared = p.msg.length
  quiet : Quiet p.sep

/-- a damaged message on which the decoding fails with a library error in the scanning mode and (when
    data sections are decoded) also metadata-only: the scan moves on by ONE byte and searches the
    signature again inside the damaged message, so the rest of it must be quiet -/
structure Rescanned {μ : Type} (dec : Dec μ) (cfg : Cfg μ) (p : Piece) : Prop where
  starts : ∃ m', p.msg = sig ++ m'
  fails : ∀ x, ∃ e, dec cfg.infoOnly (p.msg ++ x) = .error e ∧ e.isLib = true
  fails2 : cfg.infoOnly = false → ∀ x, ∃ e, dec true (p.msg ++ x) = .error e ∧ e.isLib = true
  quiet : Quiet (p.msg.drop 1 ++ p.sep)

def actIso {μ : Type} (dec : Dec μ) (cfg : Cfg μ) (bad rescan : Piece → Bool) (p : Piece) : Nat × Option (MsgInfo μ) :=
  if bad p then (if rescan p then 1 else p.msg.length, none)
  else (p.msg.length, (dec cfg.infoOnly p.msg).toOption)

theorem pos_of_starts {m : Bytes} (h : ∃ m', m = sig ++ m') : 0 < m.length := by
  obtain ⟨m', hm⟩ := h
  rw [hm]; simp only [List.length_append, sig_length]; omega

theorem behaves_iso {μ : Type} (dec : Dec μ) (cfg : Cfg μ) (hf : cfg.filter = none) (hc : cfg.continueOnError = true)
    (hfr : Frame dec) (bad rescan : Piece → Bool) (p : Piece)
    (h : if bad p then (if rescan p then Rescanned dec cfg p else KeepsLength dec cfg p)
         else (ValidMsg dec p.msg ∧ Quiet p.sep)) :
    Behaves dec cfg (actIso dec cfg bad rescan) p := by
  cases hb : bad p with
  | false =>
    simp only [hb, Bool.false_eq_true, if_false] at h
    have hact : actIso dec cfg bad rescan p = (p.msg.length, (dec cfg.infoOnly p.msg).toOption) := by
      simp only [actIso, hb, Bool.false_eq_true, if_false]
    have := behaves_valid dec cfg hf hfr p h.1 h.2
    exact ⟨this.starts, by rw [hact]; exact this.step_eq, by rw [hact]; exact this.pos,
      by rw [hact]; exact this.le, by rw [hact]; exact this.quiet⟩
  | true =>
    simp only [hb, if_true] at h
    cases hr : rescan p with
    | false =>
      simp only [hr, Bool.false_eq_true, if_false] at h
      have hact : actIso dec cfg bad rescan p = (p.msg.length, none) := by
        simp only [actIso, hb, hr, if_true, Bool.false_eq_true, if_false]
      refine ⟨h.starts, fun x => ?_, by rw [hact]; exact pos_of_starts h.starts, by rw [hact]; exact Nat.le_refl _, ?_⟩
      · rw [hact]
        obtain ⟨e, he, hl⟩ := h.fails x
        obtain ⟨i, hi, hd⟩ := h.info x
        simp only [step, tryBody, decodeHere, hf, h.mode, he, hl, hc, hi, hd, Bool.not_true, Bool.false_eq_true,
          if_false, Option.map_none]
      · rw [hact]; simpa using h.quiet
    | true =>
      simp only [hr, if_true] at h
      have hact : actIso dec cfg bad rescan p = (1, none) := by
        simp only [actIso, hb, hr, if_true]
      refine ⟨h.starts, fun x => ?_, by rw [hact]; exact Nat.one_pos, by rw [hact]; exact pos_of_starts h.starts, ?_⟩
      · rw [hact]
        obtain ⟨e, he, hl⟩ := h.fails x
        cases hm : cfg.infoOnly with
        | true =>
          rw [hm] at he
          simp only [step, tryBody, decodeHere, hf, hm, he, hl, hc, Bool.not_true, Bool.false_eq_true,
            if_false, if_true, Option.map_none]
        | false =>
          rw [hm] at he
          obtain ⟨e2, he2, hl2⟩ := h.fails2 hm x
          simp only [step, tryBody, decodeHere, hf, hm, he, hl, hc, he2, hl2, Bool.not_true, Bool.false_eq_true,
            if_false, if_true, Option.map_none]
      · rw [hact]; exact h.quiet

/-- an iteration that fails: the error is not a library error, or continue-on-error is off -/
theorem step_fails {μ : Type} (dec : Dec μ) (cfg : Cfg μ) (hf : cfg.filter = none) (s : Bytes) (e : Err)
    (he : dec cfg.infoOnly s = .error e) (h : e.isLib = false ∨ cfg.continueOnError = false) :
    step dec cfg s = .fail e := by
  cases hl : e.isLib with
  | false => simp only [step, tryBody, decodeHere, hf, he, hl, Bool.not_false, if_true]
  | true =>
    rcases h with h | h
    · rw [hl] at h; cases h
    · simp only [step, tryBody, decodeHere, hf, he, hl, h, Bool.not_true, Bool.false_eq_true, if_false,
        Bool.not_false, if_true]

end Bufr.Stream
