/-
  Model of `pybufrkit/dataquery.py`: `DataQuerent.query` and everything below it
  (`query_compressed_data` / `query_uncompressed_data`, `process_one_subset`, `filter_for_sub_nodes`,
  `filter_for_child_sub_nodes` / `_attribute_` / `_descendant_`, `descend_and_proceed`,
  `proceed_next_path_component`, `filter_for_entities`, `node_matches`, `create_values_from_nodes`) and
  `QueryResult`.  The path comes from the parser model (`Lang/PathParser.lean`, property C15).

  Modelled as the code is AFTER the three fixes recorded for C16 (KNOWN_FINDINGS F16a / F16b / F16c):
    * `query_compressed_data` returns the empty result when the `@` selector designates no subset, before it
      filters the shared node tree (the original filtered first and raised when the path fails on the tree, while
      `query_uncompressed_data` — a loop over no subset — never looks at the path);
    * a replication is filtered repetition by repetition (`filter_for_nodes` on each block of `n_members`
      nodes); the original computed the matching POSITIONS on the first repetition only and applied them to all
      repetitions, which returns values of other ids when the labels differ between repetitions
      (replicated marker operators `1XXYYY 22x255`);
    * `filter_for_descendant_sub_nodes` looks at the factor / attributes of a node BEFORE its members
      (document order = flat order); the original listed the members first, so the bare id of a replication
      factor came out of order for nested delayed replications.

  How the recursion is organised.  Python selects sub-nodes and recurses into the selected ones.  Here the
  recursion is structural over `Node`: for a list of sub-nodes the model computes the CONTINUATION of every
  sub-node (`contList`: what `descend_and_proceed` / `proceed_next_path_component` would return for that
  node alone, an error included) and `filter_for_entities` then selects among the (node, continuation)
  pairs; only the continuations of the selected pairs are looked at, in order, the first error aborts —
  exactly the nodes Python visits, in the order in which it visits them.

  `str(node.descriptor)`: for a value node the descriptor is `decoded_descriptors[index]` at wiring time
  (`nodeLabel` reads it from the flat label list the tree was wired from).

  Outside the parser's range and modelled only as far as stated: a negative `Slice.idx` (the parser turns
  `[-k]` into a slice object) follows the code for path components and is `Err.other` as a subset
  selector (Python would index the subset lists from the end and key the result by the negative number).
-/
import BufrModel.View.Wire
import BufrModel.Lang.PathParser
namespace Bufr.Query
open Bufr.PathLang

/-! ### Python slice semantics -/

/-- `PySlice_AdjustIndices` for one bound: negative values count from the end, then clamp -/
def clampIdx (n : Nat) (lower upper : Int) (x : Int) : Int :=
  if x < 0 then max (x + n) lower else min x upper

/-- a bound of a slice with a positive step: absent = `dflt`, else clamped into `[0, n]` -/
def boundUp (n : Nat) (dflt : Int) : Option Int → Int
  | none => dflt
  | some x => clampIdx n 0 n x

/-- a bound of a slice with a negative step: absent = `dflt`, else clamped into `[-1, n-1]` -/
def boundDown (n : Nat) (dflt : Int) : Option Int → Int
  | none => dflt
  | some x => clampIdx n (-1) ((n : Int) - 1) x

/-- `range(*slice(a, b, step).indices(n))` for an explicit `step ≠ 0` (`[]` for `step = 0`) -/
def pySliceStep (a b : Option Int) (step : Int) (n : Nat) : List Nat :=
  if step = 0 then []
  else if 0 < step then
    let lo := (boundUp n 0 a).toNat
    let hi := (boundUp n n b).toNat
    let s := step.toNat
    (List.range ((hi - lo + s - 1) / s)).map (fun j => lo + j * s)
  else
    let s := (-step).toNat
    -- start and stop lie in [-1, n-1]; shifted by one into [0, n]
    let st := (boundDown n ((n : Int) - 1) a + 1).toNat
    let sp := (boundDown n (-1) b + 1).toNat
    (List.range ((st - sp + s - 1) / s)).map (fun j => st - 1 - j * s)

/-- `range(*slice(a, b, c).indices(n))` for `c ≠ 0` (`[]` for `c = 0`, where Python raises `ValueError`);
    an absent step is 1 -/
def pySliceRange (a b c : Option Int) (n : Nat) : List Nat := pySliceStep a b (c.getD 1) n

/-- positions selected by a path slice in a list of `n` entries, in the order in which Python lists them:
    an int `k ≥ 0` selects entry `k` if there is one, a slice object is `list(range(n))[a:b:c]` -/
def pySlice : Slice → Nat → List Nat
  | .idx k, n => if 0 ≤ k ∧ k < n then [k.toNat] else []
  | .range a b c, n => pySliceRange a b c n

/-- `slice(a, b, 0)`: applying it raises `ValueError` -/
def Slice.stepZero : Slice → Bool
  | .range _ _ (some 0) => true
  | _ => false

/-! ### labels -/

def padNatC (n width : Nat) : List Char :=
  let s := Nat.toDigits 10 n
  List.replicate (width - s.length) '0' ++ s

def markerPrefixC (opId : Nat) : Char :=
  if opId = 223255 then 'T' else if opId = 224255 then 'F' else if opId = 225255 then 'D'
  else if opId = 232255 then 'R' else 'M'

/-- `str(descriptor)` of an entry of `decoded_descriptors` -/
def ddChars : DDesc → List Char
  | .plain e => padNatC e.id 6
  | .assoc id _ => 'A' :: padNatC id 5
  | .skipped id _ => 'S' :: padNatC id 5
  | .marker op e => markerPrefixC op :: padNatC e.id 5
  | .oper id => padNatC id 6

/-- `str(node.descriptor)`; `none` = a value node whose index is outside the label list (cannot come out of
    the wiring pass) — it matches no id -/
def nodeLabel (ds : List DDesc) : Node → Option (List Char)
  | .value _ i _ => (ds[i]?).map ddChars
  | .noval id => some (padNatC id 6)
  | .seq id _ => some (padNatC id 6)
  | .fixedRep id _ _ => some (padNatC id 6)
  | .delayedRep id _ _ _ => some (padNatC id 6)

/-! ### `node_matches`, `filter_for_entities` -/

inductive Match where
  | no | hit | keep
  deriving DecidableEq, Repr, Inhabited

/-- `hasattr(node, 'members') or hasattr(node, 'attributes') or hasattr(node, 'factor')` -/
def composite : Node → Bool
  | .value _ _ attrs => !attrs.isEmpty
  | .noval _ => false
  | _ => true

/-- `node_matches` -/
def nodeMatch (ds : List DDesc) (c : Comp) (n : Node) : Match :=
  if nodeLabel ds n = some c.id then .hit
  else if c.sep = '>' then (if composite n then .keep else .no)
  else .no

/-- entries with their positions: `enumerate(nodes)` -/
def enumFrom {α : Type} : Nat → List α → List (Nat × α)
  | _, [] => []
  | i, x :: xs => (i, x) :: enumFrom (i + 1) xs

/-- insertion into a list sorted by position (before the first entry that is not smaller) -/
def insertPos {α : Type} (p : Nat × α) : List (Nat × α) → List (Nat × α)
  | [] => [p]
  | q :: qs => if p.1 ≤ q.1 then p :: q :: qs else q :: insertPos p qs

/-- `sorted(filtered_nodes, key=lambda x: x[0])` (stable; the positions are distinct anyway) -/
def sortByPos {α : Type} (l : List (Nat × α)) : List (Nat × α) := l.foldr insertPos []

/-- `nodes_matched[slice]` for a slice object -/
def applySlice {α : Type} (s : Slice) (l : List α) : List α :=
  (pySlice s l.length).filterMap (fun i => l[i]?)

/-- `filter_for_entities(nodes, path_component, get_node=True)`; `cls` classifies an entry.
    The early return inside the loop (int slice, separator not `>`) fires when the number of matches first
    exceeds the slice, i.e. at match number `k`, and returns that match — the same list as the code after the
    loop yields (`nodes_kept` is empty unless the separator is `>`); with a negative int it fires at the
    first entry (`IndexError` unless that entry matches). -/
def filterEnt {α : Type} (c : Comp) (cls : α → Match) (xs : List α) : CM (List α) :=
  let en := enumFrom 0 xs
  let matched := en.filter (fun p => cls p.2 = .hit)
  let kept := en.filter (fun p => cls p.2 = .keep)
  match c.slice with
  | .idx k =>
    if c.sep ≠ '>' then
      if 0 ≤ k then .ok ((sortByPos ((matched[k.toNat]?).toList ++ kept)).map (·.2))
      else match xs with
        | [] => .error .other                                    -- `nodes_matched[k]` on an empty list
        | x :: _ => if cls x = .hit then .ok [x] else .error .other
    else if 0 ≤ k then .ok ((sortByPos ((matched[k.toNat]?).toList ++ kept)).map (·.2))
    else if k.natAbs ≤ matched.length then
      .ok ((sortByPos ((matched[matched.length - k.natAbs]?).toList ++ kept)).map (·.2))
    else .error .other
  | .range a b s =>
    if s = some 0 then .error .other                             -- ValueError: slice step cannot be zero
    else .ok ((sortByPos (applySlice (.range a b s) matched ++ kept)).map (·.2))

/-! ### the filtering proper -/

/-- an entry of the nested list of matching nodes -/
inductive Hit where
  | node (n : Node)
  | list (l : List Hit)
  deriving Repr, Inhabited

abbrev Cont := CM (List Hit)

/-- `sub_nodes += ...` over the selected (node, continuation) pairs, in order -/
def concatConts : List Cont → Cont
  | [] => .ok []
  | r :: rs => match r with
    | .error e => .error e
    | .ok hs => match concatConts rs with
      | .error e => .error e
      | .ok hs' => .ok (hs ++ hs')

/-- filter the (node, continuation) pairs and run the continuations of the selected ones -/
def selectRun (ds : List DDesc) (c : Comp) (pairs : List (Node × Cont)) : Cont :=
  match filterEnt c (fun p => nodeMatch ds c p.1) pairs with
  | .error e => .error e
  | .ok sel => concatConts (sel.map (·.2))

/-- the blocks `members[i : i + n] for i in range(0, len(members), n)` (`n ≥ 1`; fuel = `len(members)`) -/
def blocks {α : Type} (n : Nat) : Nat → List α → List (List α)
  | 0, _ => []
  | f + 1, l => if l.isEmpty then [] else l.take n :: blocks n f (l.drop n)

/-- the loop over the repetitions: one list per repetition that has a result -/
def envelope (ds : List DDesc) (c : Comp) : List (List (Node × Cont)) → CM (List Hit)
  | [] => .ok []
  | b :: bs => match selectRun ds c b with
    | .error e => .error e
    | .ok hs => match envelope ds c bs with
      | .error e => .error e
      | .ok rest => .ok (if hs.isEmpty then rest else .list hs :: rest)

/-- `filter_for_child_sub_nodes`; `conts` = the continuations of `node.members`, one per member -/
def childStep (ds : List DDesc) (c : Comp) (node : Node) (conts : List Cont) : Cont :=
  match node with
  | .value _ _ _ => .error .query                     -- 'has no child nodes'
  | .noval _ => .error .query
  | .seq _ ms => selectRun ds c (ms.zip conts)
  | .fixedRep _ n ms | .delayedRep _ n _ ms =>
    if ms.isEmpty then .ok []
    else if n = 0 then .error .other                  -- `range(0, len, 0)`: ValueError
    else match envelope ds c (blocks n ms.length (ms.zip conts)) with
      | .error e => .error e
      | .ok env => .ok (if env.isEmpty then [] else [.list env])

/-- `filter_for_attribute_sub_nodes`; `fcont` = continuation of the factor, `aconts` = of the attributes -/
def attrStep (ds : List DDesc) (c : Comp) (node : Node) (fcont : Cont) (aconts : List Cont) : Cont :=
  match node with
  | .delayedRep _ _ f _ => selectRun ds c [(f, fcont)]
  | .value _ _ attrs => if attrs.isEmpty then .error .query else selectRun ds c (attrs.zip aconts)
  | _ => .error .query                                -- 'has no attribute nodes'

/-- `filter_for_descendant_sub_nodes` (after fix F16b: factor / attributes first, then members) -/
def descStep (ds : List DDesc) (c : Comp) (node : Node) (mconts : List Cont) (fcont : Cont) (aconts : List Cont) : Cont :=
  match node with
  | .noval _ => .error .query                         -- 'has no descendant nodes'
  | .value _ _ attrs => if attrs.isEmpty then .error .query else attrStep ds c node fcont aconts
  | .seq _ _ => childStep ds c node mconts
  | .fixedRep _ _ _ => childStep ds c node mconts
  | .delayedRep _ _ _ _ =>
    match attrStep ds c node fcont aconts with
    | .error e => .error e
    | .ok hs => match childStep ds c node mconts with
      | .error e => .error e
      | .ok hs' => .ok (hs ++ hs')

/-- `filter_for_sub_nodes`: dispatch on the separator -/
def stepNode (ds : List DDesc) (c : Comp) (node : Node) (mconts : List Cont) (fcont : Cont) (aconts : List Cont) : Cont :=
  if c.sep = '/' then childStep ds c node mconts
  else if c.sep = '.' then attrStep ds c node fcont aconts
  else descStep ds c node mconts fcont aconts

/-- what happens to ONE selected sub-node: `descend_and_proceed([n])` when the separator is `>`,
    `proceed_next_path_component([n])` otherwise.  `again` = `filter_for_descendant_sub_nodes(n, comps)`,
    `next` = `filter_for_sub_nodes(n, comps[1:])`. -/
def contOf (m : Match) (n : Node) (rest : List Comp) (again next : Unit → Cont) : Cont :=
  match m with
  | .keep => again ()
  | .hit => if rest.isEmpty then .ok [.node n] else next ()
  | .no => .ok []

mutual
/-- `filter_for_sub_nodes(node, [c] + rest)` -/
def subNodes (ds : List DDesc) : Node → Comp → List Comp → Cont
  | .value k i attrs, c, rest =>
    stepNode ds c (.value k i attrs) [] (.ok []) (contList ds attrs c rest)
  | .noval id, c, _ => stepNode ds c (.noval id) [] (.ok []) []
  | .seq id ms, c, rest => stepNode ds c (.seq id ms) (contList ds ms c rest) (.ok []) []
  | .fixedRep id n ms, c, rest => stepNode ds c (.fixedRep id n ms) (contList ds ms c rest) (.ok []) []
  | .delayedRep id n f ms, c, rest =>
    stepNode ds c (.delayedRep id n f ms) (contList ds ms c rest)
      (contOf (nodeMatch ds c f) f rest (fun _ => subNodes ds f c rest)
        (fun _ => match rest with
          | [] => .ok []
          | c' :: rest' => subNodes ds f c' rest')) []

/-- the continuation of every node of a list with respect to component `c` -/
def contList (ds : List DDesc) : List Node → Comp → List Comp → List Cont
  | [], _, _ => []
  | n :: ns, c, rest =>
    contOf (nodeMatch ds c n) n rest (fun _ => subNodes ds n c rest)
      (fun _ => match rest with
        | [] => .ok []
        | c' :: rest' => subNodes ds n c' rest') :: contList ds ns c rest
end

/-- `process_one_subset`: the virtual root is a sequence node whose id (`'TEMPLATE'`) matches nothing -/
def processOne (ds : List DDesc) (tree : List Node) : List Comp → Cont
  | [] => .error .other                               -- `path_components[0]`: IndexError
  | c :: rest =>
    if c.sep = '.' then .error .query                 -- the root has neither attributes nor factor
    else selectRun ds c (tree.zip (contList ds tree c rest))

/-! ### values -/

/-- an entry of the nested value list -/
inductive QV where
  | val (v : Val)
  | list (l : List QV)
  deriving Repr, Inhabited

mutual
/-- `create_values_from_nodes` -/
def valuesOf (vals : List Val) : List Hit → CM (List QV)
  | [] => .ok []
  | h :: hs => match valueOf1 vals h with
    | .error e => .error e
    | .ok v => match valuesOf vals hs with
      | .error e => .error e
      | .ok vs => .ok (v :: vs)

def valueOf1 (vals : List Val) : Hit → CM QV
  | .list l => match valuesOf vals l with
    | .error e => .error e
    | .ok vs => .ok (.list vs)
  | .node (.value _ i _) => match vals[i]? with
    | some v => .ok (.val v)
    | none => .error .other                           -- IndexError
  | .node _ => .error .query                          -- 'cannot query valueless node'
end

mutual
/-- `flatten_list` -/
def flattenQV : List QV → List Val
  | [] => []
  | q :: qs => flatten1 q ++ flattenQV qs

def flatten1 : QV → List Val
  | .val v => [v]
  | .list l => flattenQV l
end

/-! ### `DataQuerent.query` -/

/-- what `query` reads of a decoded, wired message -/
structure QMsg where
  compressed : Bool
  outs : List SubsetOut              -- flat lists per subset
  trees : List (List Node)           -- `decoded_nodes_all_subsets` (compressed: every entry is the tree of subset 0)
  deriving Repr, Inhabited

/-- `QueryResult.results`: subset index -> nested values, in insertion order -/
structure QResult where
  subsets : List (Nat × List QV)
  deriving Repr, Inhabited

def QResult.subsetIndices (r : QResult) : List Nat := r.subsets.map (·.1)
def QResult.allValues (r : QResult) : List (List QV) := r.subsets.map (·.2)
def QResult.allValuesFlat (r : QResult) : List (List Val) := r.subsets.map (fun p => flattenQV p.2)
def QResult.get? (r : QResult) (i : Nat) : Option (List QV) := (r.subsets.find? (·.1 == i)).map (·.2)

/-- the subset indices the `@` selector designates: `[k]` for an int,
    `list(range(n_subsets))[slice]` for a slice object -/
def subsetIndices (sel : Option Slice) (n : Nat) : CM (List Nat) :=
  match sel with
  | none => .ok (List.range n)
  | some (.idx k) => if 0 ≤ k then .ok [k.toNat] else .error .other
  | some (.range a b c) => if c = some 0 then .error .other else .ok (pySliceRange a b c n)

/-- one subset of `query_uncompressed_data` -/
def uncompressedSubset (m : QMsg) (comps : List Comp) (i : Nat) : CM (Nat × List QV) :=
  match m.outs[i]? with
  | none => .error .other                             -- `decoded_values_all_subsets[i]`
  | some o =>
    match m.trees[i]? with
    | none => .error .other
    | some t =>
      match processOne o.descs t comps with
      | .error e => .error e
      | .ok hits => match valuesOf o.vals hits with
        | .error e => .error e
        | .ok vs => .ok (i, vs)

def mapIdx {β : Type} (f : Nat → CM β) : List Nat → CM (List β)
  | [] => .ok []
  | i :: is => match f i with
    | .error e => .error e
    | .ok b => match mapIdx f is with
      | .error e => .error e
      | .ok bs => .ok (b :: bs)

/-- one subset of `query_compressed_data`, the matching nodes being known -/
def compressedSubset (m : QMsg) (hits : List Hit) (i : Nat) : CM (Nat × List QV) :=
  match m.outs[i]? with
  | none => .error .other
  | some o => match valuesOf o.vals hits with
    | .error e => .error e
    | .ok vs => .ok (i, vs)

/-- `DataQuerent.query` for an already parsed path -/
def query (m : QMsg) (p : Path) : CM QResult :=
  match subsetIndices p.subset m.outs.length with
  | .error e => .error e
  | .ok idxs =>
    if m.compressed then
      if idxs.isEmpty then .ok ⟨[]⟩                     -- no subset selected: empty, the path is not looked at (fix F16c)
      else match m.trees[0]?, m.outs[0]? with
      | some t, some o0 =>
        (match processOne o0.descs t p.comps with
         | .error e => .error e
         | .ok hits => match mapIdx (compressedSubset m hits) idxs with
           | .error e => .error e
           | .ok rs => .ok ⟨rs⟩)
      | _, _ => .error .other
    else
      match mapIdx (uncompressedSubset m p.comps) idxs with
      | .error e => .error e
      | .ok rs => .ok ⟨rs⟩

/-- restriction of a full result to the subsets `idxs`, in that order; asking for a subset the result
    does not hold is the `IndexError` of `decoded_values_all_subsets[i]` -/
def QResult.restrict (r : QResult) (idxs : List Nat) : CM QResult :=
  match mapIdx (fun i => match r.get? i with | some vs => .ok (i, vs) | none => .error .other) idxs with
  | .error e => .error e
  | .ok rs => .ok ⟨rs⟩

/-- the result of the unselected query cut down by an `@` selector: "selecting the subsets afterwards" -/
def QResult.select (r : QResult) (sel : Option Slice) (n : Nat) : CM QResult :=
  match Query.subsetIndices sel n with
  | .error e => .error e
  | .ok idxs => r.restrict idxs

/-- the message a decoder hands to `query`: the trees of `wireAll` -/
def mkMsg (t : List Desc) (compressed : Bool) (outs : List SubsetOut) : CM QMsg :=
  match wireAll t compressed outs with
  | .error e => .error e
  | .ok trees => .ok { compressed := compressed, outs := outs, trees := trees }


/-! ### the shape the renderers rely on (decidable; holds for every tree the wiring pass builds, C09) -/

mutual
def repsOKList (o : SubsetOut) : List Node → Bool
  | [] => true
  | n :: ns => repsOK1 o n && repsOKList o ns

/-- every replication node holds `n_repeats * n_members` member nodes, `n_repeats` being the number the
    renderer uses (the operand of a fixed replication, the decoded factor of a delayed one) -/
def repsOK1 (o : SubsetOut) : Node → Bool
  | .value _ _ attrs => repsOKList o attrs
  | .noval _ => true
  | .seq _ ms => repsOKList o ms
  | .fixedRep id n ms => ms.length == yOf id * n && repsOKList o ms
  | .delayedRep _ n f ms =>
    (match f with
     | .value _ i attrs => (match wireCount o i with
        | .ok k => ms.length == k * n
        | .error _ => false) && repsOKList o attrs
     | _ => false) && repsOKList o ms
end

end Bufr.Query
