/-
  The nested JSON view (`renderer.py: NestedJsonRenderer._render_template_data*`) and its converter back
  to the flat form (`utils.py: template_data_nested_json_to_flat_json`).

  `NJ` is the JSON value restricted to the dict shapes the renderer can emit; a key is present exactly
  when the Python dict has it:
    * `value lab v virt attrs` — `{'id': str(descriptor), 'description': …, 'value': v[, 'virtual': True][, 'attributes': [...]]}`
      (`virt` = key `virtual` present, `attrs ≠ []` = key `attributes` present: Python never creates an
      empty attribute list);
    * `noval id`              — `{'id', 'description'}` (operators without value, 221-suppressed elements);
    * `group id factor ms`    — `{'id', 'description'[, 'factor': {...}], 'members': [...]}`; `factor` has
      at most one entry; for a sequence `ms` are dicts, for a replication `ms` are lists (`arr`), one per
      repetition;
    * `arr l`                 — a JSON list.
  The `description` strings (Table B/D names, class names) are table text; they are NOT part of the
  model and the correspondence check compares the two sides with the key removed.  `id` of a composite is
  kept as the number; the converter's test `parameter['id'].startswith('1')` is `id / 100000 = 1`
  (the same for every id of at most six digits, i.e. every F-X-Y descriptor).
-/
import BufrModel.View.Wire
namespace Bufr

inductive NJ where
  | value (lab : DDesc) (v : Val) (virt : Bool) (attrs : List NJ)
  | noval (id : Nat)
  | group (id : Nat) (factor : List NJ) (members : List NJ)
  | arr (items : List NJ)
  deriving Repr, Inhabited

def DDesc.isAssoc : DDesc → Bool
  | .assoc _ _ => true
  | _ => false

/-- `members[ir * n : (ir + 1) * n] for ir in range(k)` -/
def chunks {α : Type} (n : Nat) : Nat → List α → List (List α)
  | 0, _ => []
  | k + 1, l => l.take n :: chunks n k (l.drop n)

mutual
/-- `_render_template_data_value_node` (+ `_render_template_data_attributed_node`) -/
def renderValue (o : SubsetOut) (isAttr : Bool) : Node → CM NJ
  | .value _ i attrs =>
    match o.descs[i]?, o.vals[i]? with
    | some d, some v =>
      match renderAttrs o attrs with
      | .error e => .error e
      | .ok as => .ok (.value d v (isAttr && !d.isAssoc) as)
    | _, _ => .error .other                      -- IndexError
  | _ => .error .other                           -- a no-value node has no `index`

def renderAttrs (o : SubsetOut) : List Node → CM (List NJ)
  | [] => .ok []
  | a :: as => match renderValue o true a with
    | .error e => .error e
    | .ok x => match renderAttrs o as with
      | .error e => .error e
      | .ok xs => .ok (x :: xs)
end

mutual
/-- `_render_template_data_nodes`.  A replication's flat member list is rendered as a whole and cut
    into `n_repeats` pieces of `n_members` afterwards (Python cuts first and renders each piece; the
    same thing, every node being rendered independently of its neighbours). -/
def renderNodes (o : SubsetOut) : List Node → CM (List NJ)
  | [] => .ok []
  | n :: ns => match renderNode o n with
    | .error e => .error e
    | .ok x => match renderNodes o ns with
      | .error e => .error e
      | .ok xs => .ok (x :: xs)

def renderNode (o : SubsetOut) : Node → CM NJ
  | .value k i attrs => renderValue o false (.value k i attrs)
  | .noval id => .ok (.noval id)
  | .seq id ms => match renderNodes o ms with
    | .error e => .error e
    | .ok xs => .ok (.group id [] xs)
  | .fixedRep id n ms => match renderNodes o ms with
    | .error e => .error e
    | .ok xs => .ok (.group id [] ((chunks n (yOf id) xs).map NJ.arr))
  | .delayedRep id n f ms =>
    match ((match f with | .value _ i _ => wireCount o i | _ => .error .other) : CM Nat) with
    | .error e => .error e
    | .ok k => match renderValue o false f with
      | .error e => .error e
      | .ok fj => match renderNodes o ms with
        | .error e => .error e
        | .ok xs => .ok (.group id [fj] ((chunks n k xs).map NJ.arr))
end

/-- nested JSON of one subset: `NestedJsonRenderer` on the wired tree -/
def renderNested (o : SubsetOut) (nodes : List Node) : CM (List NJ) := renderNodes o nodes

/-! ### `template_data_nested_json_to_flat_json` -/

/-- the loop of `process_value_parameter`: first-layer attributes without the key `virtual` -/
def firstLayer : List NJ → CM (List Val)
  | [] => .ok []
  | .value _ v virt _ :: rest =>
    (match firstLayer rest with
     | .error e => .error e
     | .ok vs => .ok (if virt then vs else v :: vs))
  | _ :: _ => .error .other                       -- `attr['value']` on something else

/-- `process_value_parameter(data, parameter)` -/
def valueParam : NJ → CM (List Val)
  | .value _ v _ attrs =>
    (match firstLayer attrs with
     | .error e => .error e
     | .ok vs => .ok (vs ++ [v]))
  | _ => .error .other

mutual
/-- `process_members(data, members)` for a list of dicts -/
def flatMembers : List NJ → CM (List Val)
  | [] => .ok []
  | p :: ps => match flatParam p with
    | .error e => .error e
    | .ok vs => match flatMembers ps with
      | .error e => .error e
      | .ok ws => .ok (vs ++ ws)

/-- the body of the loop for one `parameter` -/
def flatParam : NJ → CM (List Val)
  | .value lab v virt attrs => valueParam (.value lab v virt attrs)        -- `'value' in parameter`
  | .noval _ => .ok []
  | .arr _ => .ok []                               -- none of the three keys is "in" a list of dicts
  | .group id factor members =>
    match ((match factor with
           | [] => .ok []
           | f :: _ => valueParam f) : CM (List Val)) with
    | .error e => .error e
    | .ok fv =>
      if id / 100000 = 1 then                      -- `parameter['id'].startswith('1')`: replication
        match flatReps members with
        | .error e => .error e
        | .ok vs => .ok (fv ++ vs)
      else
        match flatMembers members with
        | .error e => .error e
        | .ok vs => .ok (fv ++ vs)

/-- `for members in parameter['members']: process_members(data, members)` -/
def flatReps : List NJ → CM (List Val)
  | [] => .ok []
  | .arr l :: rest => (match flatMembers l with
    | .error e => .error e
    | .ok vs => match flatReps rest with
      | .error e => .error e
      | .ok ws => .ok (vs ++ ws))
  | .noval _ :: rest => flatReps rest               -- iterating the keys 'id', 'description': nothing happens
  | _ :: _ => .error .other
end

/-- one subset of `template_data_nested_json_to_flat_json` -/
def nestedJsonToFlat (subset : List NJ) : CM (List Val) := flatMembers subset

/-- the whole template-data value -/
def nestedJsonToFlatAll (subsets : List (List NJ)) : CM (List (List Val)) := subsets.mapM nestedJsonToFlat

/-! ### decidable side conditions of the conversion theorem (C09), evaluated per case by the driver -/

/-- an attribute given at creation carries an `A` label exactly when it is an associated-field node -/
def ownAttrOK (o : SubsetOut) : Node → Bool
  | .value k i _ => match o.descs[i]? with
    | some d => k.isAssoc == d.isAssoc
    | none => false
  | _ => false

/-- an attribute attached through a bitmap link never carries an `A` label -/
def tabAttrOK (o : SubsetOut) : Node → Bool
  | .value _ i _ => match o.descs[i]? with
    | some d => !d.isAssoc
    | none => false
  | _ => false

def factorOK (o : SubsetOut) (n len : Nat) : Node → Bool
  | .value _ i own => own.all (ownAttrOK o) && (match wireCount o i with
    | .ok c => len == c * n
    | .error _ => false)
  | _ => false

mutual
def treeOKList (o : SubsetOut) : List Node → Bool
  | [] => true
  | n :: ns => treeOK1 o n && treeOKList o ns

/-- ids of composites have the leading digit the converter looks at, every replication holds
    `n_repeats * n_members` member nodes, creation-time attributes are labelled consistently -/
def treeOK1 (o : SubsetOut) : Node → Bool
  | .value _ _ own => own.all (ownAttrOK o)
  | .noval _ => true
  | .seq id ms => id / 100000 != 1 && treeOKList o ms
  | .fixedRep id n ms => id / 100000 == 1 && ms.length == yOf id * n && treeOKList o ms
  | .delayedRep id n f ms => id / 100000 == 1 && factorOK o n ms.length f && treeOKList o ms
end

def Wired.sideOK (o : SubsetOut) (w : Wired) : Bool :=
  treeOKList o w.nodes && w.st.tab.all (fun p => tabAttrOK o p.2) && w.st.next == o.vals.length

end Bufr
