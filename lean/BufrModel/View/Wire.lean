/-
  The wiring pass (`templatedata.py`: `TemplateData.wire`, `wire_members`, `wire_element_descriptor`,
  `wire_operator_descriptor`, `wire_bitmap_attribute`, ...): the second walk over the template that
  turns the flat lists of one subset (`decoded_descriptors`, `decoded_values`, `bitmap_links`) into the
  hierarchical node tree.

  What is mirrored, exactly as the code does it (NOT as the coder does it, DESIGN F11):
  * the pass has its OWN index counter (`next_index`) and checks it only against the length of
    `decoded_descriptors` (`IndexError` -> `Err.other`);
  * its own copy of operator state: the 204 stack (`nbits_associated_list`), the 221 count, the three
    `waiting_for_*_meaning` flags and the three meaning nodes.  It knows NOTHING about 203 definition mode,
    206 skips, the bitmap-definition machine or the QA-info status machine of the coder: an element after
    `203YYY` / `206YYY` is wired as an ordinary element (two indices when 204 is in force), a class-33
    element is a quality-info attribute for as long as `waiting_for_qa_info_meaning` is set (222000 sets
    it; 223/224/225/232/235 clear it), a marker operator takes ONE index;
  * every template member yields exactly one node (`wire1`), so the members of a replication node are the
    concatenation of its repetitions, `n_members` nodes each (the renderers chunk by `n_members`);
  * attributes: `add_attribute` appends to the owner's list.  Attributes given at creation (associated
    field on its owner, 031021 meaning on the associated field, 008023/008024 meaning on a statistics
    node) are stored in the node; attributes attached LATER to an already placed node through
    `index_to_node[bitmap_links[i]]` are recorded in the attribute table `WSt.tab` and put into the
    tree by `resolve` once the walk is over (Python mutates the shared node object; the model copies by
    value).  A node that is its own (transitive) attribute makes the Python renderers recurse for ever
    (`RecursionError` -> `Err.other`); `resolve` runs out of fuel in exactly that case.

  Not modelled (by-value limits, DESIGN 4.3): the meaning nodes `associated_field_meaning`,
  `first_order_stats_meaning`, `difference_stats_meaning` are attributes of the `TemplateData` OBJECT and
  survive from one subset's wiring into the next; here every subset starts without them.  They can
  only be observed by a template that uses a meaning before (re)defining it in that subset.  The
  wire-once flag is `wireOnce`.
-/
import BufrModel.Coder.Decode
namespace Bufr

/-- The Python class of a value node (`ValueDataNode` and its six subclasses). -/
inductive VKind where
  | value          -- ValueDataNode
  | assoc          -- AssociatedFieldNode
  | firstOrder     -- FirstOrderStatsNode
  | difference     -- DifferenceStatsNode
  | substitution   -- SubstitutionNode
  | replacement    -- ReplacementNode
  | quality        -- QualityInfoNode
  deriving DecidableEq, Repr, Inhabited

/-- A node of the hierarchical view.

    * `value kind idx attrs` — `ValueDataNode(descriptor, index)`; `attrs` = `node.attributes`
      (absent in Python when empty).  The descriptor is not stored: every renderer re-reads
      `decoded_descriptors[node.index]`.
    * `noval id` — plain `NoValueDataNode`: an operator without a value or an element suppressed by 221YYY.
    * `seq`, `fixedRep`, `delayedRep` — the three composite no-value nodes; `members` is the FLAT list of
      member nodes of all repetitions, `nMembers` = `descriptor.n_members` (length of the template
      member list). -/
inductive Node where
  | value (kind : VKind) (idx : Nat) (attrs : List Node)
  | noval (id : Nat)
  | seq (id : Nat) (members : List Node)
  | fixedRep (id : Nat) (nMembers : Nat) (members : List Node)
  | delayedRep (id : Nat) (nMembers : Nat) (factor : Node) (members : List Node)
  deriving Repr, Inhabited

/-- State of one subset's wiring (the attributes `TemplateData.wire` (re)creates per subset). -/
structure WSt where
  next : Nat := 0                         -- `next_index` (itertools.count)
  assoc : List Nat := []                  -- `nbits_associated_list` (204), top = last
  dnp : Nat := 0                          -- `data_not_present_count` (221)
  waitQa : Bool := false                  -- `waiting_for_qa_info_meaning`
  wait1st : Bool := false                 -- `waiting_for_1st_order_stats_meaning`
  waitDiff : Bool := false                -- `waiting_for_difference_stats_meaning`
  assocMeaning : Option Nat := none       -- index of the node `associated_field_meaning`
  firstMeaning : Option Nat := none       -- index of the node `first_order_stats_meaning`
  diffMeaning : Option Nat := none        -- index of the node `difference_stats_meaning`
  reg : List Nat := []                    -- keys of `index_to_node`, most recent first
  tab : List (Nat × Node) := []           -- later `add_attribute` calls: (owner index, attribute), most recent first
  deriving Repr, Inhabited

/-- `bitmap_links[k]` of a dict filled in processing order (a later entry for a key replaces an earlier one) -/
def lookupLink (links : List (Nat × Nat)) (k : Nat) : Option Nat :=
  links.foldl (fun acc p => if p.1 = k then some p.2 else acc) none

/-- `get_next_descriptor_and_index`: `decoded_descriptors[index]` raises `IndexError` past the end -/
def WSt.take (o : SubsetOut) (s : WSt) : CM (Nat × WSt) :=
  if s.next < o.descs.length then .ok (s.next, { s with next := s.next + 1 }) else .error .other

/-- `self.index_to_node[i] = node` -/
def WSt.register (s : WSt) (i : Nat) : WSt := { s with reg := i :: s.reg }

/-- `add_value_node`: a plain value node that is also registered in `index_to_node` -/
def WSt.valueNode (o : SubsetOut) (s : WSt) : CM (Node × Nat × WSt) :=
  match s.take o with
  | .error e => .error e
  | .ok (i, s) => .ok (.value .value i [], i, s.register i)

/-- `wire_bitmap_attribute(node)` for the freshly added node `n` with index `i`:
    `self.index_to_node[self.bitmap_links[i]].add_attribute(n)` (two possible `KeyError`s) -/
def WSt.bitmapAttr (o : SubsetOut) (s : WSt) (i : Nat) (n : Node) : CM WSt :=
  match lookupLink o.links i with
  | none => .error .other
  | some owner => if owner ∈ s.reg then .ok { s with tab := (owner, n) :: s.tab } else .error .other

/-- `wire_element_descriptor` -/
def wireElement (o : SubsetOut) (id : Nat) (s : WSt) : CM (Node × WSt) :=
  if s.assoc ≠ [] ∧ xOf id ≠ 31 then
    match s.take o with
    | .error e => .error e
    | .ok (a, s) =>
      match s.assocMeaning with
      | none => .error .other                       -- AttributeError: associated_field_meaning
      | some m =>
        match s.take o with
        | .error e => .error e
        | .ok (i, s) =>
          .ok (.value .value i [.value .assoc a [.value .value m []]], s.register i)
  else if xOf id = 33 ∧ s.waitQa then
    match s.take o with
    | .error e => .error e
    | .ok (i, s) =>
      let n := Node.value .quality i []
      match (s.register i).bitmapAttr o i n with
      | .error e => .error e
      | .ok s => .ok (n, s)
  else
    match s.valueNode o with
    | .error e => .error e
    | .ok (n, i, s) =>
      if id = 31021 ∧ s.assoc ≠ [] then .ok (n, { s with assocMeaning := some i })
      else if id = 8023 ∧ s.wait1st then .ok (n, { s with firstMeaning := some i, wait1st := false })
      else if id = 8024 ∧ s.waitDiff then .ok (n, { s with diffMeaning := some i, waitDiff := false })
      else .ok (n, s)

/-- the marker branch of 223/232 (no meaning attribute) -/
def wireMarker (o : SubsetOut) (k : VKind) (s : WSt) : CM (Node × WSt) :=
  match s.take o with
  | .error e => .error e
  | .ok (i, s) =>
    let n := Node.value k i []
    match (s.register i).bitmapAttr o i n with
    | .error e => .error e
    | .ok s => .ok (n, s)

/-- the marker branch of 224/225: `node.add_attribute(self.<..>_stats_meaning)` first -/
def wireStatsMarker (o : SubsetOut) (k : VKind) (meaning : Option Nat) (s : WSt) : CM (Node × WSt) :=
  match s.take o with
  | .error e => .error e
  | .ok (i, s) =>
    match meaning with
    | none => .error .other                          -- AttributeError
    | some m =>
      let n := Node.value k i [.value .value m []]
      match (s.register i).bitmapAttr o i n with
      | .error e => .error e
      | .ok s => .ok (n, s)

def WSt.plainValue (o : SubsetOut) (s : WSt) : CM (Node × WSt) :=
  match s.valueNode o with
  | .error e => .error e
  | .ok (n, _, s) => .ok (n, s)

/-- `wire_operator_descriptor`, `code` = `operator_code`, `y` = `operand_value` -/
def wireOperatorCY (o : SubsetOut) (id code y : Nat) (s : WSt) : CM (Node × WSt) :=
  if code = 201 ∨ code = 202 ∨ code = 203 ∨ code = 206 ∨ code = 207 ∨ code = 208 then .ok (.noval id, s)
  else if code = 204 then
    if y = 0 then
      (if s.assoc = [] then .error .other             -- `[].pop()`
       else .ok (.noval id, { s with assoc := s.assoc.dropLast }))
    else .ok (.noval id, { s with assoc := s.assoc ++ [y] })
  else if code = 205 then s.plainValue o
  else if code = 221 then .ok (.noval id, { s with dnp := y })
  else if code = 222 then ({ s with waitQa := true } : WSt).plainValue o
  else if code = 223 then
    let s := { s with waitQa := false }
    if y = 0 then s.plainValue o else wireMarker o .substitution s
  else if code = 224 then
    let s := { s with waitQa := false }
    if y = 0 then ({ s with wait1st := true } : WSt).plainValue o
    else wireStatsMarker o .firstOrder s.firstMeaning s
  else if code = 225 then
    let s := { s with waitQa := false }
    if y = 0 then ({ s with waitDiff := true } : WSt).plainValue o
    else wireStatsMarker o .difference s.diffMeaning s
  else if code = 232 then
    let s := { s with waitQa := false }
    if y = 0 then s.plainValue o else wireMarker o .replacement s
  else if code = 235 then .ok (.noval id, { s with waitQa := false })
  else if code = 236 ∨ code = 237 then s.plainValue o
  else .error .other                                  -- NotImplementedError

/-- `wire_operator_descriptor` -/
def wireOperator (o : SubsetOut) (id : Nat) (s : WSt) : CM (Node × WSt) :=
  wireOperatorCY o id (id / 1000) (id % 1000) s

/-- `range(self.decoded_values[factor_node.index])` -/
def wireCount (o : SubsetOut) (i : Nat) : CM Nat :=
  match o.vals[i]? with
  | none => .error .other
  | some (.int n) => .ok n.toNat                      -- a negative count: empty range
  | some _ => .error .other                           -- None / float / bytes: TypeError

/-- `for _ in range(n): self.wire_members(members)` appending to the same list -/
def wireRepeat (f : WSt → CM (List Node × WSt)) : Nat → WSt → CM (List Node × WSt)
  | 0, s => .ok ([], s)
  | n + 1, s => match f s with
    | .error e => .error e
    | .ok (ns, s') => match wireRepeat f n s' with
      | .error e => .error e
      | .ok (ns', s'') => .ok (ns ++ ns', s'')

/-- the test under `if self.data_not_present_count:`: an element descriptor outside classes 1-9 and 31 -/
def dnpSkips : Desc → Bool
  | .elem e => !((1 ≤ xOf e.id && xOf e.id ≤ 9) || xOf e.id == 31)
  | _ => false

mutual
/-- `wire_members`: one node per member, in order -/
def wireList (o : SubsetOut) : List Desc → WSt → CM (List Node × WSt)
  | [], s => .ok ([], s)
  | d :: ds, s => match wire1 o d s with
    | .error e => .error e
    | .ok (n, s') => match wireList o ds s' with
      | .error e => .error e
      | .ok (ns, s'') => .ok (n :: ns, s'')

/-- one iteration of the loop in `wire_members` -/
def wire1 (o : SubsetOut) : Desc → WSt → CM (Node × WSt)
  | d, s0 =>
    let dnp := s0.dnp
    let s : WSt := if dnp ≠ 0 then { s0 with dnp := dnp - 1 } else s0
    if (dnp ≠ 0 && dnpSkips d) = true then .ok (.noval d.id, s)
    else
      match d with
      | .elem e => wireElement o e.id s
      | .fixedRep id ms =>
        match wireRepeat (wireList o ms) (yOf id) s with
        | .error e => .error e
        | .ok (ns, s') => .ok (.fixedRep id ms.length ns, s')
      | .delayedRep id _ ms =>
        match s.take o with
        | .error e => .error e
        | .ok (i, s1) =>
          match wireCount o i with
          | .error e => .error e
          | .ok n =>
            match wireRepeat (wireList o ms) n (s1.register i) with
            | .error e => .error e
            | .ok (ns, s') => .ok (.delayedRep id ms.length (.value .value i []) ns, s')
      | .op id => wireOperator o id s
      | .seq id ms =>
        match wireList o ms s with
        | .error e => .error e
        | .ok (ns, s') => .ok (.seq id ns, s')
      | .undefElem _ => s.plainValue o              -- `wire_skippable_local_descriptor`
      | .undefSeq _ => .error .lib                   -- PyBufrKitError('Cannot wire descriptor type')
end

/-! ### putting the later attachments into the tree -/

/-- the attributes attached later to the node with index `i`, in the order of the `add_attribute` calls -/
def tabFor (tab : List (Nat × Node)) (i : Nat) : List Node :=
  (tab.reverse.filter (fun p => p.1 == i)).map (·.2)

/-- `[g(a) for a in l]`, the first failure aborts -/
def mapE {α β : Type} (g : α → CM β) : List α → CM (List β)
  | [] => .ok []
  | a :: as => match g a with
    | .error e => .error e
    | .ok b => match mapE g as with
      | .error e => .error e
      | .ok bs => .ok (b :: bs)

/-- a value node with all its attributes (own ones first, then the attached ones), recursively.
    Out of fuel = a cycle of attributes (Python: unbounded recursion in every renderer). -/
def resolveV (tab : List (Nat × Node)) : Nat → Node → CM Node
  | 0, _ => .error .other
  | f + 1, .value k i own =>
    match mapE (resolveV tab f) own with
    | .error e => .error e
    | .ok as1 =>
      match mapE (resolveV tab f) (tabFor tab i) with
      | .error e => .error e
      | .ok as2 => .ok (.value k i (as1 ++ as2))
  | _, n => .ok n

mutual
def resolveList (tab : List (Nat × Node)) (fuel : Nat) : List Node → CM (List Node)
  | [] => .ok []
  | n :: ns => match resolve1 tab fuel n with
    | .error e => .error e
    | .ok n' => match resolveList tab fuel ns with
      | .error e => .error e
      | .ok ns' => .ok (n' :: ns')

def resolve1 (tab : List (Nat × Node)) (fuel : Nat) : Node → CM Node
  | .value k i own => resolveV tab fuel (.value k i own)
  | .noval id => .ok (.noval id)
  | .seq id ms => match resolveList tab fuel ms with
    | .error e => .error e
    | .ok ms' => .ok (.seq id ms')
  | .fixedRep id n ms => match resolveList tab fuel ms with
    | .error e => .error e
    | .ok ms' => .ok (.fixedRep id n ms')
  | .delayedRep id n f ms => match resolveV tab fuel f with
    | .error e => .error e
    | .ok f' => match resolveList tab fuel ms with
      | .error e => .error e
      | .ok ms' => .ok (.delayedRep id n f' ms')
end

/-- what the walk leaves behind: the member tree with the attributes given at creation, the attribute
    table and the final state (`next` = number of flat indices consumed) -/
structure Wired where
  nodes : List Node
  st : WSt
  deriving Repr, Inhabited

/-- `wire_members(self.template.members)` for one subset, before attachment -/
def wireRaw (t : List Desc) (o : SubsetOut) : CM Wired :=
  match wireList o t {} with
  | .error e => .error e
  | .ok (ns, s) => .ok { nodes := ns, st := s }

/-- fuel that suffices for every acyclic attribute chain.  A chain never visits a value node twice, so `next + 2` is
    enough; `2 * next + 3` is used because that bound has a short proof (Lemmas/WireResolve.lean: along a chain the
    owners strictly increase, each owner accounts for at most two levels).  Running out of fuel = an attribute
    cycle; the result does not depend on the fuel once it suffices. -/
def Wired.fuel (w : Wired) : Nat := 2 * w.st.next + 3

/-- the node tree as every later reader sees it (`decoded_nodes` after `wire()`); an attribute cycle
    is reported here although Python only fails when the tree is rendered or queried -/
def Wired.tree (w : Wired) : CM (List Node) := resolveList w.st.tab w.fuel w.nodes

/-- `TemplateData.wire` for one subset -/
def wire (t : List Desc) (o : SubsetOut) : CM (List Node) :=
  match wireRaw t o with
  | .error e => .error e
  | .ok w => w.tree

/-- `TemplateData.wire` for a message: compressed data are wired once (all subsets share the node list
    of subset 0); the first failing subset aborts the call -/
def wireAll (t : List Desc) (compressed : Bool) (outs : List SubsetOut) : CM (List (List Node)) :=
  if compressed then
    match outs with
    | [] => .ok []
    | o :: _ => match wire t o with
      | .error e => .error e
      | .ok ns => .ok (outs.map fun _ => ns)
  else outs.mapM (wire t)

/-- the wire-once flag: a second `wire()` call returns without touching the nodes -/
def wireOnce (t : List Desc) (compressed : Bool) (outs : List SubsetOut) :
    Option (CM (List (List Node))) → CM (List (List Node))
  | some r => r
  | none => wireAll t compressed outs

/-! ### the flat indices of a tree, in the order in which the flat form lists them -/

def VKind.isAssoc : VKind → Bool
  | .assoc => true
  | _ => false

def Node.kindIsAssoc : Node → Bool
  | .value k _ _ => k.isAssoc
  | _ => false

def Node.index? : Node → Option Nat
  | .value _ i _ => some i
  | _ => none

/-- associated-field attributes (first layer) of a value node, then the node itself -/
def valueIdx (i : Nat) (attrs : List Node) : List Nat :=
  (attrs.filter Node.kindIsAssoc).filterMap Node.index? ++ [i]

mutual
/-- flat indices held by a member list: members, replication factors, associated-field attributes -/
def idxList : List Node → List Nat
  | [] => []
  | n :: ns => idx1 n ++ idxList ns

def idx1 : Node → List Nat
  | .value _ i attrs => valueIdx i attrs
  | .noval _ => []
  | .seq _ ms => idxList ms
  | .fixedRep _ _ ms => idxList ms
  | .delayedRep _ _ f ms =>
    (match f with
     | .value _ i attrs => valueIdx i attrs
     | _ => []) ++ idxList ms
end

end Bufr
