/-
  View/JsonText.lean — the TEXT layer of the two JSON formats for character data (C09).

  `pybufrkit decode -j [-a]` prints `json.dumps(renderer.render(msg), **JSON_DUMPS_KWARGS)`; on Python 3
  `JSON_DUMPS_KWARGS = {'cls': EntityEncoder}` and `EntityEncoder.default` turns a `bytes` value into
  `o.decode('latin-1')`: one character per octet.  `json.dumps` (ensure_ascii, the default) writes that string as
  a JSON string literal in pure ASCII (`py_encode_basestring_ascii`).  `pybufrkit encode -j [-a]` reads the text
  with `json.loads` (`py_scanstring`, strict) and hands the `str` to the encoder, whose `BitWriter.write_bytes`
  turns a `str` into octets with `value.encode('latin-1')` before padding / truncating to the field width
  (`Basic.Bits.padBytes`).

  Modelled here, as total functions over `List UInt8` / `List Char`:
    * `decodeLatin1`, `encodeLatin1`            — `bytes.decode('latin-1')`, `str.encode('latin-1')` (`none` =
                                                   UnicodeEncodeError, a character above U+00FF)
    * `escChar`, `jsonEscape`, `jsonStringLiteral` — `py_encode_basestring_ascii`
    * `scanString`, `parseStringLiteral`        — `py_scanstring(s, end, strict=True)` restricted to what Lean's
                                                   `Char` can hold (a lone surrogate escape is `none`) and to
                                                   plain hexadecimal digits after `\u` (CPython's `int(esc, 16)`
                                                   also takes `+1a2`, `1_a2`, blanks: never produced by a writer)
    * `jsonTextOfBytes`, `bytesOfJsonText`      — the two directions composed
    * `reprBytes`, `evalBytesLiteral`           — `repr(value)` of bytes (the value token of the flat and nested TEXT) and
                                                   `ast.literal_eval` of such a token
    * `utf8Decode`, `utf8WhenValid`             — strict UTF-8 (RFC 3629, as `bytes.decode('utf-8')`) and the
                                                   "UTF-8 when valid, else latin-1" serialiser that
                                                   `Props/C09Cli.lean` refutes
  No Mathlib.  Used by the driver op `jsontext` (Drv/JsonTextOp.lean).
-/
import BufrModel.Basic.Bits
import BufrModel.Coder.Regs
namespace Bufr

/-! ### latin-1 -/

/-- `bytes.decode('latin-1')`: octet `x` becomes the character U+00`x` -/
def decodeLatin1 (b : List UInt8) : List Char := b.map fun x => Char.ofNat x.toNat

/-- `str.encode('latin-1')`; `none` = UnicodeEncodeError (a character above U+00FF) -/
def encodeLatin1 : List Char → Option (List UInt8)
  | [] => some []
  | c :: r =>
    if c.toNat < 256 then
      match encodeLatin1 r with
      | some bs => some (UInt8.ofNat c.toNat :: bs)
      | none => none
    else none

/-! ### JSON string literals: `json.dumps` (ensure_ascii) -/

/-- lower-case hexadecimal digit of a number below 16 (`'{:x}'`) -/
def hexDigitChar (n : Nat) : Char :=
  if n < 10 then Char.ofNat (48 + n) else Char.ofNat (87 + n)

/-- `'\\u{0:04x}'.format(n)` for `n < 0x10000` -/
def uEscape (n : Nat) : List Char :=
  ['\\', 'u', hexDigitChar (n / 4096), hexDigitChar (n / 256 % 16), hexDigitChar (n / 16 % 16), hexDigitChar (n % 16)]

/-- the replacement `py_encode_basestring_ascii` makes for one character: `ESCAPE_DCT` for the quote, the
    backslash and the five short escapes; the character itself for `' '..'~'`; `\uXXXX` for every other
    character of the basic plane (control characters, DEL, everything above `~`); a surrogate pair above it -/
def escChar (c : Char) : List Char :=
  if c = '"' then ['\\', '"']
  else if c = '\\' then ['\\', '\\']
  else if c = '\n' then ['\\', 'n']
  else if c = '\r' then ['\\', 'r']
  else if c = '\t' then ['\\', 't']
  else if c.toNat = 8 then ['\\', 'b']
  else if c.toNat = 12 then ['\\', 'f']
  else if 0x20 ≤ c.toNat ∧ c.toNat ≤ 0x7E then [c]
  else if c.toNat < 0x10000 then uEscape c.toNat
  else uEscape (0xD800 + (c.toNat - 0x10000) / 1024) ++ uEscape (0xDC00 + (c.toNat - 0x10000) % 1024)

def jsonEscape (s : List Char) : List Char := s.flatMap escChar

/-- `json.dumps(s)` of a `str` -/
def jsonStringLiteral (s : List Char) : List Char := '"' :: (jsonEscape s ++ ['"'])

/-! ### JSON string literals: `json.loads` -/

def hexVal (c : Char) : Option Nat :=
  if 48 ≤ c.toNat ∧ c.toNat ≤ 57 then some (c.toNat - 48)
  else if 97 ≤ c.toNat ∧ c.toNat ≤ 102 then some (c.toNat - 87)
  else if 65 ≤ c.toNat ∧ c.toNat ≤ 70 then some (c.toNat - 55)
  else none

/-- `_decode_uXXXX` -/
def hexNum (a b c d : Char) : Option Nat :=
  match hexVal a, hexVal b, hexVal c, hexVal d with
  | some x, some y, some z, some w => some (4096 * x + 256 * y + 16 * z + w)
  | _, _, _, _ => none

/-- `BACKSLASH` of json.decoder -/
def simpleEscape (e : Char) : Option Char :=
  if e = '"' then some '"'
  else if e = '\\' then some '\\'
  else if e = '/' then some '/'
  else if e = 'b' then some (Char.ofNat 8)
  else if e = 'f' then some (Char.ofNat 12)
  else if e = 'n' then some '\n'
  else if e = 'r' then some '\r'
  else if e = 't' then some '\t'
  else none

def consFst (c : Char) (r : Option (List Char × List Char)) : Option (List Char × List Char) :=
  match r with
  | some (s, rest) => some (c :: s, rest)
  | none => none

/-- `py_scanstring(s, end, strict=True)` on the text after the opening quote: the string and the text after the
    closing quote; `none` = JSONDecodeError (unterminated, control character, bad escape) or a lone surrogate -/
def scanString : List Char → Option (List Char × List Char)
  | [] => none
  | c :: r =>
    if c = '"' then some ([], r)
    else if c = '\\' then
      match r with
      | [] => none
      | e :: r1 =>
        if e = 'u' then
          match r1 with
          | a :: b :: c' :: d :: r2 =>
            match hexNum a b c' d with
            | none => none
            | some u =>
              if 0xD800 ≤ u ∧ u ≤ 0xDBFF then
                match r2 with
                | p :: q :: e1 :: e2 :: e3 :: e4 :: r3 =>
                  if p = '\\' ∧ q = 'u' then
                    match hexNum e1 e2 e3 e4 with
                    | some u2 =>
                      if 0xDC00 ≤ u2 ∧ u2 ≤ 0xDFFF then
                        consFst (Char.ofNat (0x10000 + (u - 0xD800) * 1024 + (u2 - 0xDC00))) (scanString r3)
                      else none
                    | none => none
                  else none
                | _ => none
              else if 0xDC00 ≤ u ∧ u ≤ 0xDFFF then none
              else consFst (Char.ofNat u) (scanString r2)
          | _ => none
        else
          match simpleEscape e with
          | some ch => consFst ch (scanString r1)
          | none => none
    else if c.toNat < 0x20 then none
    else consFst c (scanString r)

/-- `json.loads(t)` of a text that is one string literal (nothing may follow the closing quote) -/
def parseStringLiteral : List Char → Option (List Char)
  | [] => none
  | q :: r =>
    if q = '"' then
      match scanString r with
      | some (s, []) => some s
      | _ => none
    else none

/-! ### the two directions composed -/

/-- what `json.dumps(value, cls=EntityEncoder)` writes for a character value -/
def jsonTextOfBytes (b : List UInt8) : List Char := jsonStringLiteral (decodeLatin1 b)

/-- what the encoder makes of that text: `json.loads`, then `str.encode('latin-1')` in `write_bytes` -/
def bytesOfJsonText (t : List Char) : Option (List UInt8) := (parseStringLiteral t).bind encodeLatin1

/-- the flat value after it went through a JSON file, as the encoder sees it (numbers, `null` are JSON's own) -/
def jsonFileVal : Val → Option Val
  | .bytes b => (bytesOfJsonText (jsonTextOfBytes b)).map Val.bytes
  | v => some v

def jsonFileVals (vs : List Val) : Option (List Val) := vs.mapM jsonFileVal

/-! ### the value token of the two TEXT formats for character data: `repr` of bytes and `ast.literal_eval` -/

/-- the quote `bytes.__repr__` chooses: `'`, unless the value contains `'` and no `"` -/
def reprQuote (b : List UInt8) : Char :=
  if b.contains 0x27 && !b.contains 0x22 then '"' else '\''

/-- what `bytes.__repr__` writes for one octet inside quotes `q` -/
def escByte (q : Char) (x : UInt8) : List Char :=
  if x.toNat = q.toNat ∨ x.toNat = 0x5C then ['\\', Char.ofNat x.toNat]
  else if x.toNat = 9 then ['\\', 't']
  else if x.toNat = 10 then ['\\', 'n']
  else if x.toNat = 13 then ['\\', 'r']
  else if x.toNat < 0x20 ∨ 0x7F ≤ x.toNat then ['\\', 'x', hexDigitChar (x.toNat / 16), hexDigitChar (x.toNat % 16)]
  else [Char.ofNat x.toNat]

/-- `repr(b)` of a `bytes` object (Python 3) -/
def reprBytes (b : List UInt8) : List Char :=
  'b' :: reprQuote b :: (b.flatMap (escByte (reprQuote b)) ++ [reprQuote b])

/-- the escapes of a bytes literal that take no argument (`\newline`, octal and unknown escapes are not modelled: `repr`
    never writes them) -/
def byteEscape (e : Char) : Option Nat :=
  if e = '\\' then some 0x5C
  else if e = '\'' then some 0x27
  else if e = '"' then some 0x22
  else if e = 'n' then some 10
  else if e = 'r' then some 13
  else if e = 't' then some 9
  else if e = 'a' then some 7
  else if e = 'b' then some 8
  else if e = 'f' then some 12
  else if e = 'v' then some 11
  else none

def consB (x : UInt8) (r : Option (List UInt8)) : Option (List UInt8) :=
  match r with
  | some l => some (x :: l)
  | none => none

/-- the body of a bytes literal up to the closing quote `q`, which must end the text -/
def scanBytes (q : Char) : List Char → Option (List UInt8)
  | [] => none
  | c :: r =>
    if c = q then (if r.isEmpty then some [] else none)
    else if c = '\\' then
      match r with
      | [] => none
      | e :: r1 =>
        if e = 'x' then
          match r1 with
          | h1 :: h2 :: r2 =>
            match hexVal h1, hexVal h2 with
            | some a, some b => consB (UInt8.ofNat (16 * a + b)) (scanBytes q r2)
            | _, _ => none
          | _ => none
        else
          match byteEscape e with
          | some v => consB (UInt8.ofNat v) (scanBytes q r1)
          | none => none
    else if c.toNat < 0x20 ∨ 0x7F ≤ c.toNat then none
    else consB (UInt8.ofNat c.toNat) (scanBytes q r)

/-- `ast.literal_eval(tok)` of a token `b'…'` / `b"…"` -/
def evalBytesLiteral : List Char → Option (List UInt8)
  | 'b' :: q :: r => if q = '\'' ∨ q = '"' then scanBytes q r else none
  | _ => none

/-! ### the refuted alternative: UTF-8 when valid -/

def isCont (b : Nat) : Bool := 0x80 ≤ b && b ≤ 0xBF

/-- strict UTF-8 decoding of a list of octets (as numbers) into code points: shortest form only, no
    surrogates, nothing above U+10FFFF — `bytes.decode('utf-8')`; `none` = UnicodeDecodeError -/
def utf8Decode : List Nat → Option (List Nat)
  | [] => some []
  | b0 :: r =>
    if b0 < 0x80 then (utf8Decode r).map (b0 :: ·)
    else if 0xC2 ≤ b0 ∧ b0 ≤ 0xDF then
      match r with
      | b1 :: r1 => if isCont b1 then (utf8Decode r1).map (((b0 - 0xC0) * 64 + (b1 - 0x80)) :: ·) else none
      | _ => none
    else if 0xE0 ≤ b0 ∧ b0 ≤ 0xEF then
      match r with
      | b1 :: b2 :: r2 =>
        let cp := (b0 - 0xE0) * 4096 + (b1 - 0x80) * 64 + (b2 - 0x80)
        if isCont b1 && isCont b2 && decide (0x800 ≤ cp) && !(decide (0xD800 ≤ cp) && decide (cp ≤ 0xDFFF)) then
          (utf8Decode r2).map (cp :: ·)
        else none
      | _ => none
    else if 0xF0 ≤ b0 ∧ b0 ≤ 0xF4 then
      match r with
      | b1 :: b2 :: b3 :: r3 =>
        let cp := (b0 - 0xF0) * 262144 + (b1 - 0x80) * 4096 + (b2 - 0x80) * 64 + (b3 - 0x80)
        if isCont b1 && isCont b2 && isCont b3 && decide (0x10000 ≤ cp) && decide (cp ≤ 0x10FFFF) then
          (utf8Decode r3).map (cp :: ·)
        else none
      | _ => none
    else none

/-- the serialiser of seeded/C09-5: `o.decode('utf-8')` when that succeeds, else `o.decode('latin-1')` -/
def utf8WhenValid (b : List UInt8) : List Char :=
  match utf8Decode (b.map UInt8.toNat) with
  | some cps => cps.map Char.ofNat
  | none => decodeLatin1 b

end Bufr
