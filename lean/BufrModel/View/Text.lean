/-
  The two TEXT views of the template data and their converters back to the flat form, as coded:

    renderer.py  FlatTextRenderer._render_template_data, _render_descriptor(_helper)
                 NestedTextRenderer._render_template_data, _render_template_data_nodes,
                 _render_template_data_value_node, _render_template_data_attributed_node
    utils.py     fixed_width_repr_of_int, subsets_flat_text_to_flat_json, subsets_nested_text_to_flat_json

  A text is a list of lines, a line a `List Char` (Python `str`: a sequence of code points).  What is NOT
  text of the model but a PARAMETER (`TextEnv`): the value tokens (`'{!r}'.format(value)`, abstract function
  `reprV`; for a FLAG TABLE element of the flat text the repr of the tuple `(value, [set bits])`, `reprFlag`),
  the element / sequence names of the tables (`name`), which element ids are flag tables (`isFlag`); on the
  way back `ast.literal_eval` is the parameter `ev` of the converters.  Everything else - index column,
  descriptor column padded / truncated to 74 or 64 characters, the `-> N` link column, headers, indentation
  with blanks and dots, `# --- k of n replications ---`, attribute lines, bare descriptor lines - is computed
  here character by character, and the converters slice / strip / search exactly as the code does
  (`line[81:].strip()`, `line.strip().lstrip('. ')`, `startswith`, `rsplit(' ', 1)[1]`, `rfind(" b'")`,
  `insert(-1, value)`).

  The converters are the loops `subsets_*_text_to_flat_json(lines, idxline)`: they are entered at a
  `###### subset` line, stop at the next line that starts with `<<<<<<` (the header of section 5) and raise
  `IndexError` when the lines run out before (`lines[idxline]`); the model returns the remaining lines in
  place of the new `idxline`.
-/
import BufrModel.View.NestedJson
namespace Bufr

abbrev Line := List Char

/-- what `ast.literal_eval` returns for a value token: a flat-JSON value, or a tuple (flat text of a flag
    table element) of which only the first component is ever used -/
inductive PyLit where
  | val (v : Val)
  | tuple (first : Val)
  deriving DecidableEq, Repr, Inhabited

/-- `if isinstance(value, tuple): value = value[0]` -/
def PyLit.untuple : PyLit → PyLit
  | .val v => .val v
  | .tuple v => .val v

/-- the table text and the `repr` of values: parameters of the renderers -/
structure TextEnv where
  reprV : Val → Line                    -- '{!r}'.format(value)
  reprFlag : Val → List Nat → Line      -- '{!r}'.format((value, [i + 1 for the bits that are set]))
  name : Nat → Line                     -- descriptor.name by id (Table B element / Table D sequence)
  isFlag : Nat → Bool                   -- descriptor.unit == 'FLAG TABLE' by element id

/-! ### Python string primitives -/

/-- `str.isspace()` of one code point (the characters `str.strip()` removes) -/
def isPySpace (c : Char) : Bool :=
  let n := c.toNat
  (9 ≤ n && n ≤ 13) || (28 ≤ n && n ≤ 32) || n == 133 || n == 160 || n == 5760 ||
  (8192 ≤ n && n ≤ 8202) || n == 8232 || n == 8233 || n == 8239 || n == 8287 || n == 12288

def pyLstrip (l : Line) : Line := l.dropWhile isPySpace
def pyRstrip (l : Line) : Line := (l.reverse.dropWhile isPySpace).reverse
/-- `s.strip()` -/
def pyStrip (l : Line) : Line := pyRstrip (pyLstrip l)

def isDotSpace (c : Char) : Bool := c == '.' || c == ' '
/-- `s.lstrip('. ')` -/
def lstripDotSpace (l : Line) : Line := l.dropWhile isDotSpace

/-- `s.startswith(p)` -/
def startsWith (p l : Line) : Bool := p.isPrefixOf l

/-- `s.rfind(sub)` for a non-empty `sub`: the highest start index of an occurrence (`none` = -1) -/
def pyRfind (sub : Line) : Line → Option Nat
  | [] => none
  | c :: cs =>
    match pyRfind sub cs with
    | some i => some (i + 1)
    | none => if sub.isPrefixOf (c :: cs) then some 0 else none

/-- `s.rsplit(' ', 1)[1]` for an `s` that contains a blank: what follows the last blank -/
def lastToken (l : Line) : Line := (l.reverse.takeWhile (fun c => c != ' ')).reverse

/-- decimal digits of a natural number (`'{}'.format(n)`, `'{:d}'`) -/
def natStr (n : Nat) : Line := Nat.toDigits 10 n

/-- `'{:0wd}'.format(n)` -/
def zpad (w n : Nat) : Line :=
  let s := natStr n
  List.replicate (w - s.length) '0' ++ s

/-- `fixed_width_repr_of_int(n, w)` (both values of `pad_left` pad on the left, as coded) -/
def fixedWidth (n w : Nat) : Line :=
  let s := natStr n
  if s.length > w then List.replicate w '*' else List.replicate (w - s.length) ' ' ++ s

/-- `'{:w.w}'.format(s)`: cut to `w` characters, then padded with blanks on the right -/
def padTrunc (w : Nat) (s : Line) : Line :=
  let t := s.take w
  t ++ List.replicate (w - t.length) ' '

/-! ### descriptor strings -/

def markerChar (opId : Nat) : Char :=
  if opId = 223255 then 'T' else if opId = 224255 then 'F' else if opId = 225255 then 'D'
  else if opId = 232255 then 'R' else 'M'

/-- `str(descriptor)` of an entry of `decoded_descriptors` -/
def descStr : DDesc → Line
  | .plain e => zpad 6 e.id
  | .assoc id _ => 'A' :: zpad 5 id
  | .skipped id _ => 'S' :: zpad 5 id
  | .marker op e => markerChar op :: zpad 5 e.id
  | .oper id => zpad 6 id

def bitsSuffix : Line := [' ', 'b', 'i', 't', 's']

/-- `FlatTextRenderer._render_descriptor` for the classes that occur in `decoded_descriptors`
    (tested in the order SkippedLocal, Marker, Element, Operator, Associated) -/
def flatDescText (env : TextEnv) : DDesc → Line
  | .plain e => zpad 6 e.id ++ ' ' :: env.name e.id
  | .assoc id nbits => ('A' :: zpad 5 id) ++ ' ' :: natStr nbits ++ bitsSuffix
  | .skipped id nbits => ('S' :: zpad 5 id) ++ ' ' :: natStr nbits ++ bitsSuffix
  | .marker op e => markerChar op :: zpad 5 e.id
  | .oper id => zpad 6 id

/-! ### flat text -/

/-- `hasattr(descriptor, 'unit') and descriptor.unit == 'FLAG TABLE'` (a marker descriptor copies the unit
    of its element; associated and skipped descriptors carry dummy units) -/
def isFlagLabel (env : TextEnv) : DDesc → Bool
  | .plain e => env.isFlag e.id
  | .marker _ e => env.isFlag e.id
  | _ => false

def labelNbits : DDesc → Nat
  | .plain e => e.nbits
  | .marker _ e => e.nbits
  | .assoc _ n => n
  | .skipped _ n => n
  | .oper _ => 0

/-- `[(i + 1) for i, bit in enumerate('{:0{}b}'.format(value, nbits)) if bit == '1']` -/
def flagBits (v : Val) (nbits : Nat) : List Nat :=
  match v with
  | .int i =>
    let d := Nat.toDigits 2 i.toNat
    let s := List.replicate (nbits - d.length) '0' ++ d
    (s.zipIdx.filter (fun p => p.1 == '1')).map (fun p => p.2 + 1)
  | _ => []

/-- the value token of a flat text line -/
def flatTok (env : TextEnv) (d : DDesc) (v : Val) : Line :=
  if v != .missing && isFlagLabel env d then env.reprFlag v (flagBits v (labelNbits d)) else env.reprV v

def arrow4 : Line := [' ', '-', '>', ' ']

/-- one entry of `FlatTextRenderer._render_template_data`: `idx in bitmap_links` chooses the layout -/
def flatLine (env : TextEnv) (links : List (Nat × Nat)) (idx : Nat) (d : DDesc) (v : Val) : Line :=
  match lookupLink links idx with
  | some l =>
    fixedWidth (idx + 1) 5 ++ ' ' :: padTrunc 64 (flatDescText env d) ++ arrow4 ++ fixedWidth (l + 1) 6 ++ ' ' :: flatTok env d v
  | none =>
    fixedWidth (idx + 1) 5 ++ ' ' :: padTrunc 74 (flatDescText env d) ++ ' ' :: flatTok env d v

/-- `for idx, (descriptor, value) in enumerate(zip(descriptors, values))`, from index `idx` on -/
def flatLinesFrom (env : TextEnv) (links : List (Nat × Nat)) : Nat → List DDesc → List Val → List Line
  | idx, d :: ds, v :: vs => flatLine env links idx d v :: flatLinesFrom env links (idx + 1) ds vs
  | _, _, _ => []

def subsetMark : Line := ['#', '#', '#', '#', '#', '#']      -- TEXT_SUBSET_HEADER
def sectionMark : Line := ['<', '<', '<', '<', '<', '<']     -- TEXT_SECTION_HEADER

/-- `'###### subset {} of {} ######'.format(i, n)` -/
def subsetHeader (i n : Nat) : Line :=
  subsetMark ++ " subset ".toList ++ natStr i ++ " of ".toList ++ natStr n ++ ' ' :: subsetMark

/-- the subsets from number `i` (0-based) on -/
def flatSubsetsFrom (env : TextEnv) (n : Nat) : Nat → List SubsetOut → List Line
  | _, [] => []
  | i, o :: os =>
    subsetHeader (i + 1) n :: flatLinesFrom env o.links 0 o.descs o.vals ++ flatSubsetsFrom env n (i + 1) os

/-- `FlatTextRenderer._render_template_data(template_data).split('\n')` for at least one subset -/
def flatTextLines (env : TextEnv) (outs : List SubsetOut) : List Line :=
  flatSubsetsFrom env outs.length 0 outs

/-! ### nested text -/

def indent4 : Line := [' ', ' ', ' ', ' ']        -- INDENT_CHARS
def dots4 : Line := ['.', '.', '.', '.']          -- '.' * len(INDENT_CHARS)
def attrArrow : Line := ['-', '>', ' ']

/-- `decoded_node.__class__.__name__[:-4]` -/
def vkindName : VKind → Line
  | .value => "ValueData".toList | .assoc => "AssociatedField".toList | .firstOrder => "FirstOrderStats".toList
  | .difference => "DifferenceStats".toList | .substitution => "Substitution".toList
  | .replacement => "Replacement".toList | .quality => "QualityInfo".toList

/-- the `description` of a value line: the marker operator for a marker descriptor, the element name when the
    descriptor has one, the class name of the node otherwise -/
def description (env : TextEnv) (k : VKind) : DDesc → Line
  | .marker op _ => zpad 6 op
  | .plain e => env.name e.id
  | _ => vkindName k

/-- `'{}{}{} {} {!r}'.format(indent, '-> ' if is_attribute else '', descriptor, description, value)` -/
def ntValueLine (env : TextEnv) (indent : Line) (isAttr : Bool) (k : VKind) (d : DDesc) (v : Val) : Line :=
  indent ++ (if isAttr then attrArrow else []) ++ descStr d ++ ' ' :: description env k d ++ ' ' :: env.reprV v

mutual
/-- `_render_template_data_value_node` (+ `_render_template_data_attributed_node`) -/
def ntValue (env : TextEnv) (o : SubsetOut) (indent : Line) (isAttr : Bool) : Node → CM (List Line)
  | .value k i attrs =>
    match o.descs[i]?, o.vals[i]? with
    | some d, some v =>
      match ntAttrs env o (indent ++ indent4) attrs with
      | .error e => .error e
      | .ok ls => .ok (ntValueLine env indent isAttr k d v :: ls)
    | _, _ => .error .other                      -- IndexError
  | _ => .error .other                           -- a no-value node has no `index`

def ntAttrs (env : TextEnv) (o : SubsetOut) (indent : Line) : List Node → CM (List Line)
  | [] => .ok []
  | a :: as => match ntValue env o indent true a with
    | .error e => .error e
    | .ok x => match ntAttrs env o indent as with
      | .error e => .error e
      | .ok xs => .ok (x ++ xs)
end

/-- `'{}# --- {} of {} replications ---'.format(indent, ir, n_repeats)` -/
def repHeader (indent : Line) (ir k : Nat) : Line :=
  indent ++ '#' :: ' ' :: (("--- ".toList ++ natStr ir ++ " of ".toList ++ natStr k ++ " replications --".toList) ++ ['-'])

/-- the loop over the repetitions; `cs` = the rendered member blocks cut into repetitions, `ir` = number of
    repetitions already printed -/
def repLines (indent : Line) (k : Nat) : Nat → List (List (List Line)) → List Line
  | _, [] => []
  | ir, c :: cs => repHeader indent (ir + 1) k :: (c.flatten ++ repLines indent k (ir + 1) cs)

mutual
/-- `_render_template_data_nodes`: one block of lines per node.  A replication's flat member list is
    rendered as a whole and cut into `n_repeats` pieces of `n_members` blocks afterwards (Python cuts first
    and renders each piece; the same thing, every node being rendered independently of its neighbours). -/
def ntBlocks (env : TextEnv) (o : SubsetOut) (indent : Line) : List Node → CM (List (List Line))
  | [] => .ok []
  | n :: ns => match ntBlock env o indent n with
    | .error e => .error e
    | .ok x => match ntBlocks env o indent ns with
      | .error e => .error e
      | .ok xs => .ok (x :: xs)

def ntBlock (env : TextEnv) (o : SubsetOut) (indent : Line) : Node → CM (List Line)
  | .value k i attrs => ntValue env o indent false (.value k i attrs)
  | .noval id => .ok [indent ++ zpad 6 id]       -- operator without value / element suppressed by 221YYY: `str(descriptor)`
  | .seq id ms => match ntBlocks env o (indent ++ indent4) ms with
    | .error e => .error e
    | .ok bs => .ok ((indent ++ zpad 6 id ++ ' ' :: env.name id) :: bs.flatten)
  | .fixedRep id n ms => match ntBlocks env o (indent ++ indent4) ms with
    | .error e => .error e
    | .ok bs => .ok ((indent ++ zpad 6 id) :: repLines (indent ++ indent4) (yOf id) 0 (chunks n (yOf id) bs))
  | .delayedRep id n f ms =>
    match ((match f with | .value _ i _ => wireCount o i | _ => .error .other) : CM Nat) with
    | .error e => .error e
    | .ok k => match ntValue env o (indent ++ dots4) false f with
      | .error e => .error e
      | .ok fl => match ntBlocks env o (indent ++ indent4) ms with
        | .error e => .error e
        | .ok bs => .ok ((indent ++ zpad 6 id) :: (fl ++ repLines (indent ++ indent4) k 0 (chunks n k bs)))
end

/-- the lines of one subset (without its header) -/
def ntSubsetLines (env : TextEnv) (o : SubsetOut) (nodes : List Node) : CM (List Line) :=
  match ntBlocks env o [] nodes with
  | .error e => .error e
  | .ok bs => .ok bs.flatten

/-- the subsets from number `i` (0-based) on; `trees` = `decoded_nodes_all_subsets` -/
def ntSubsetsFrom (env : TextEnv) (n : Nat) : Nat → List SubsetOut → List (List Node) → CM (List Line)
  | i, o :: os, t :: ts =>
    match ntSubsetLines env o t with
    | .error e => .error e
    | .ok ls => match ntSubsetsFrom env n (i + 1) os ts with
      | .error e => .error e
      | .ok rest => .ok (subsetHeader (i + 1) n :: (ls ++ rest))
  | _, [], _ => .ok []
  | _, _ :: _, [] => .error .other                -- IndexError: decoded_nodes_all_subsets[idx_subset]

/-- `NestedTextRenderer._render_template_data(template_data).split('\n')` for at least one subset -/
def nestedTextLines (env : TextEnv) (outs : List SubsetOut) (trees : List (List Node)) : CM (List Line) :=
  ntSubsetsFrom env outs.length 0 outs trees

/-! ### the converters -/

/-- `data_all_subsets[-1] = f(data_all_subsets[-1])`; `none` = IndexError on an empty list -/
def modifyLast {α : Type} (f : List α → List α) : List (List α) → Option (List (List α))
  | [] => none
  | [x] => some [f x]
  | x :: y :: r => (modifyLast f (y :: r)).map (x :: ·)

/-- `l.insert(-1, v)`: before the last element (at the front of an empty list) -/
def insertBeforeLast {α : Type} (v : α) (l : List α) : List α :=
  match l.getLast? with
  | none => [v]
  | some x => l.dropLast ++ [v, x]

/-- `subsets_flat_text_to_flat_json(lines, idxline)`: the loop; `ev` = `ast.literal_eval` (`none` = it
    raises), `untuple` = the `isinstance(value, tuple)` step -/
def ftLoop {α : Type} (ev : Line → Option α) (untuple : α → α) :
    List Line → List (List α) → CM (List Line × List (List α))
  | [], _ => .error .other                                        -- IndexError: lines[idxline]
  | l :: rest, data =>
    if startsWith sectionMark l then .ok (l :: rest, data)
    else if startsWith subsetMark l then ftLoop ev untuple rest (data ++ [[]])
    else
      match ev (pyStrip (l.drop 81)) with
      | none => .error .other                                     -- ValueError / SyntaxError
      | some v =>
        match modifyLast (fun cur => cur ++ [untuple v]) data with
        | none => .error .other
        | some data' => ftLoop ev untuple rest data'

def flatTextToFlat {α : Type} (ev : Line → Option α) (untuple : α → α) (lines : List Line) :
    CM (List Line × List (List α)) :=
  ftLoop ev untuple lines []

def quoteChars : List Char := ['"', '\'']

/-- the text handed to `ast.literal_eval` for a (stripped) nested text line that carries a value -/
def ntToken (line : Line) : Line :=
  match line.getLast? with
  | none => []
  | some q =>
    if !quoteChars.contains q then lastToken line                 -- line.rsplit(' ', 1)[1]
    else
      match pyRfind [' ', 'b', q] line.dropLast with              -- line.rfind(" b" + q, 0, len(line) - 1)
      | some i => line.drop (i + 1)
      | none => line                                              -- line[-1 + 1:]

/-- what one line does to `data_all_subsets` -/
inductive LineAct (α : Type) where
  | stop                      -- section header: break
  | newSubset                 -- subset header: append([])
  | skip                      -- comment, virtual attribute, sequence, entry without value
  | append (v : α)            -- data_all_subsets[-1].append(value)
  | insert (v : α)            -- data_all_subsets[-1].insert(-1, value)   (associated field)
  | fail                      -- literal_eval raises
  deriving DecidableEq, Repr

def ntClassify {α : Type} (ev : Line → Option α) (raw : Line) : LineAct α :=
  let line := lstripDotSpace (pyStrip raw)
  if startsWith sectionMark line then .stop
  else if startsWith subsetMark line then .newSubset
  else if startsWith ['#'] line || (startsWith ['-', '>'] line && !startsWith ['-', '>', ' ', 'A'] line)
          || startsWith ['3'] line then .skip
  else if !line.contains ' ' then .skip
  else
    match ev (ntToken line) with
    | none => .fail
    | some v => if startsWith ['-', '>', ' ', 'A'] line then .insert v else .append v

/-- `subsets_nested_text_to_flat_json(lines, idxline)`: the loop -/
def ntLoop {α : Type} (ev : Line → Option α) : List Line → List (List α) → CM (List Line × List (List α))
  | [], _ => .error .other                                        -- IndexError: lines[idxline]
  | l :: rest, data =>
    match ntClassify ev l with
    | .stop => .ok (l :: rest, data)
    | .newSubset => ntLoop ev rest (data ++ [[]])
    | .skip => ntLoop ev rest data
    | .fail => .error .other
    | .append v =>
      match modifyLast (fun cur => cur ++ [v]) data with
      | none => .error .other
      | some data' => ntLoop ev rest data'
    | .insert v =>
      match modifyLast (insertBeforeLast v) data with
      | none => .error .other
      | some data' => ntLoop ev rest data'

def nestedTextToFlat {α : Type} (ev : Line → Option α) (lines : List Line) : CM (List Line × List (List α)) :=
  ntLoop ev lines []

/-! ### from lines to one string and back (`'\n'.join(...)`, `text.splitlines()`) -/

/-- the line boundaries of `str.splitlines()` (`\r\n` counts as one) -/
def isLineBreak (c : Char) : Bool :=
  let n := c.toNat
  n == 10 || n == 13 || n == 11 || n == 12 || n == 28 || n == 29 || n == 30 || n == 133 || n == 8232 || n == 8233

/-- `'\n'.join(lines)` -/
def joinLines : List Line → List Char
  | [] => []
  | [l] => l
  | l :: l' :: ls => l ++ '\n' :: joinLines (l' :: ls)

/-- `text.splitlines()`; `cur` = the characters of the line being read, last one first -/
def splitGo (cur : Line) : List Char → List Line
  | [] => if cur.isEmpty then [] else [cur.reverse]
  | '\r' :: '\n' :: rest => cur.reverse :: splitGo [] rest
  | c :: rest => if isLineBreak c then cur.reverse :: splitGo [] rest else splitGo (c :: cur) rest

def pySplitlines (text : List Char) : List Line := splitGo [] text

/-- decidable: no line holds a line boundary, and the last line is not empty (Python drops the empty
    string after a final boundary) -/
def linesOK (ls : List Line) : Bool :=
  ls.all (fun l => l.all (fun c => !isLineBreak c)) && (match ls.getLast? with | some l => !l.isEmpty | none => true)

/-! ### decidable side conditions of the nested text theorem (C09), on the resolved tree -/

mutual
/-- attributes below the first layer: never an `A` label (their lines must be skipped) -/
def deepOKList (o : SubsetOut) : List Node → Bool
  | [] => true
  | a :: as => deepOK1 o a && deepOKList o as

def deepOK1 (o : SubsetOut) : Node → Bool
  | .value _ i attrs =>
    (match o.descs[i]? with
     | some d => !d.isAssoc
     | none => false) && deepOKList o attrs
  | _ => false
end

/-- a first-layer attribute list: everything below it is `deepOK` -/
def attrsTextOK (o : SubsetOut) : List Node → Bool
  | [] => true
  | .value _ _ as :: rest => deepOKList o as && attrsTextOK o rest
  | _ :: _ => false

/-- the descriptor string of a value line does not start with `3` (the converter would take the line for a
    sequence header) -/
def headOK (o : SubsetOut) (i : Nat) : Bool :=
  match o.descs[i]? with
  | some d => (descStr d).head? != some '3'
  | none => false

def valueTextOK (o : SubsetOut) : Node → Bool
  | .value _ i attrs => headOK o i && attrsTextOK o attrs
  | _ => false

mutual
def textOKList (o : SubsetOut) : List Node → Bool
  | [] => true
  | n :: ns => textOK1 o n && textOKList o ns

/-- value lines do not look like sequence headers, sequence headers do (their id starts with `3`),
    no `A` label below the first attribute layer -/
def textOK1 (o : SubsetOut) : Node → Bool
  | .value k i attrs => valueTextOK o (.value k i attrs)
  | .noval _ => true
  | .seq id ms => (zpad 6 id).head? == some '3' && textOKList o ms
  | .fixedRep _ _ ms => textOKList o ms
  | .delayedRep _ _ f ms => valueTextOK o f && textOKList o ms
end

end Bufr
