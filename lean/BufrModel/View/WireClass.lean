/-
  C09: the decidable template classes on which the link between the coder and the wiring pass is proved
  (`quietList a`: Lemmas/WireSim.lean, Lemmas/WireSimComp.lean) or stated and validated case by case
  (`wireLinksOK`: Lemmas/WireSimLinks.lean).  Core Lean only: the driver evaluates them on every case of the
  correspondence run (`views` -> `quiet`, `wire_links_ok`).
-/
import BufrModel.View.Wire
namespace Bufr.C09
open Bufr

/-- operators that both walks count alike and for which the wiring pass needs no state of its own -/
def quietOp (a : Bool) (id : Nat) : Bool :=
  id / 1000 == 201 || id / 1000 == 202 || (id / 1000 == 203 && !a) || (id / 1000 == 204 && a) ||
  id / 1000 == 205 || id / 1000 == 207 || id / 1000 == 208 || id / 1000 == 221

/-- `204YYY` with `YYY ≠ 0` -/
def opens204 : Desc → Bool
  | .op id => id / 1000 == 204 && id % 1000 != 0
  | _ => false

def is31021 : Desc → Bool
  | .elem e => e.id == 31021
  | _ => false

def starts31021 : List Desc → Bool
  | d :: _ => is31021 d
  | [] => false

/-- a replication factor of class 31 (it never carries an associated field) -/
def factor31 : Desc → Bool
  | .elem fe => xOf fe.id == 31
  | _ => true

mutual
def quietList (a : Bool) : List Desc → Bool
  | [] => true
  | d :: ds => quiet1 a d && (!opens204 d || starts31021 ds) && quietList a ds

def quiet1 (a : Bool) : Desc → Bool
  | .elem _ => true
  | .undefElem _ => true
  | .undefSeq _ => false
  | .fixedRep id ms => id / 100000 == 1 && quietList a ms
  | .delayedRep id f ms => id / 100000 == 1 && (!a || factor31 f) && quietList a ms
  | .op id => quietOp a id
  | .seq id ms => id / 100000 != 1 && quietList a ms
end

/-! ### the abstract state and its transfer functions -/

structure Abs where
  w : Bool := false      -- `waiting_for_qa_info_meaning`
  qN : Bool := true      -- the coder's QA status may be `na`
  qW : Bool := false     -- ... `waiting`
  qP : Bool := false     -- ... `processing`
  w1 : Bool := false     -- `waiting_for_1st_order_stats_meaning`
  wD : Bool := false     -- `waiting_for_difference_stats_meaning`
  h1 : Bool := false     -- `first_order_stats_meaning` is known
  hD : Bool := false     -- `difference_stats_meaning` is known
  skip : Bool := false   -- a 206YYY skip is pending
  deriving DecidableEq, Repr

/-- an element that is not of class 33 went through `process_element_descriptor` -/
def Abs.non33 (a : Abs) : Abs := { a with qN := a.qN || a.qP, qP := false }

/-- a marker operator: the class of its target is data -/
def Abs.marker (a : Abs) : Abs := { a with w := false, qN := a.qN || a.qP, qP := a.qW || a.qP }

/-- a class 33 element: a quality value for both walks, or an ordinary element for both -/
def Abs.c33 (a : Abs) : Option Abs :=
  if a.w then (if a.qN then none else some { a with qW := false, qP := true })
  else (if a.qW || a.qP then none else some a)

/-- `wire_element_descriptor`: 008023 / 008024 become the meaning nodes when waited for -/
def Abs.meaning (a : Abs) (id : Nat) : Abs :=
  if id = 8023 ∧ a.w1 = true then { a with h1 := true, w1 := false }
  else if id = 8024 ∧ a.wD = true then { a with hD := true, wD := false }
  else a

/-- every operator that announces a bit-map (222000 / 223000 / 224000 / 225000 / 232000) forgets the meaning nodes: the
    stats markers that follow need the 008023 / 008024 that comes AFTER the last such operator (the pass keeps the old
    node; with new back references reaching over it a marker can be attached to its own meaning node: an attribute
    cycle, RecursionError in every renderer) -/
def Abs.op (a : Abs) (id : Nat) : Option Abs :=
  let code := id / 1000
  let y := id % 1000
  if code = 201 ∨ code = 202 ∨ code = 207 ∨ code = 208 ∨ code = 205 ∨ code = 236 ∨ code = 237 then some a
  else if code = 206 then some { a with skip := decide (y ≠ 0) }
  else if code = 222 then (if y = 0 then some { a with w := true, qN := false, qW := true, qP := false, h1 := false, hD := false } else none)
  else if code = 223 ∨ code = 232 then (if y = 0 then some { a with w := false, h1 := false, hD := false } else some a.marker)
  else if code = 224 then
    (if y = 0 then some { a with w := false, w1 := true, h1 := false, hD := false } else if a.h1 then some a.marker else none)
  else if code = 225 then
    (if y = 0 then some { a with w := false, wD := true, h1 := false, hD := false } else if a.hD then some a.marker else none)
  else if code = 235 then some { a with w := false }
  else none

def Abs.join (a b : Abs) : Option Abs :=
  if a.w = b.w ∧ a.w1 = b.w1 ∧ a.wD = b.wD ∧ a.h1 = b.h1 ∧ a.hD = b.hD ∧ a.skip = b.skip then
    some { a with qN := a.qN || b.qN, qW := a.qW || b.qW, qP := a.qP || b.qP }
  else none

def Abs.elem (a : Abs) (id : Nat) : Option Abs :=
  if a.skip then
    (if xOf id = 33 ∧ a.w = true then none else some (({ a with skip := false } : Abs).meaning id))
  else if xOf id = 33 then a.c33
  else some (a.non33.meaning id)

mutual
def absList : List Desc → Abs → Option Abs
  | [], a => if a.skip then none else some a
  | d :: ds, a => match abs1 d a with
    | none => none
    | some a' => absList ds a'

def abs1 : Desc → Abs → Option Abs
  | .elem e, a => a.elem e.id
  | .undefElem _, a => some { a with skip := false }
  | .undefSeq _, _ => none
  | .op id, a => if a.skip then none else a.op id
  | .seq id ms, a => if a.skip = true ∨ id / 100000 = 1 then none else absList ms a
  | .fixedRep id ms, a =>
    if a.skip = true ∨ id / 100000 ≠ 1 then none
    else match absList ms a with
      | none => none
      | some a1 => if absList ms a1 = some a1 then (if yOf id = 0 then some a else some a1) else none
  | .delayedRep id f ms, a =>
    if a.skip = true ∨ id / 100000 ≠ 1 then none
    else match f with
      | .elem fe =>
        if xOf fe.id = 33 then none
        else match absList ms a.non33 with
          | none => none
          | some a1 => if absList ms a1 = some a1 then a.non33.join a1 else none
      | _ => none
end

/-- the decidable class of stage 2 -/
def wireLinksOK (t : List Desc) : Bool := (absList t {}).isSome

end Bufr.C09
