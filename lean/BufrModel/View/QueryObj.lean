/-
  `DataQuerent` as the OBJECT it is (`pybufrkit/dataquery.py`): its only attribute is the `NodePathParser` it was
  given (`Lang/PathParserObj.lean`); `query(bufr_message, path_expr)` parses the expression with THAT parser —
  which has parsed the expressions of all earlier queries, accepted or rejected — and evaluates the path on the
  message (`View/Query.lean`).  The `QueryResult` is created anew by every query; nothing else is kept.
  `BufrMessageQuerent` (pybufrkit/query.py, kept by `ScriptRunner` for its lifetime) holds one `DataQuerent` and hands
  every expression that does not start with `%` to it.

    * `queryStr`   the answer as a function of (message, expression) alone: `parse`, then `query`;
    * `queryObj`   `DataQuerent.query` on an object: (answer, object afterwards); an exception of the parser or of
                   the evaluation leaves the parser as `parseObj` left it;
    * `queryAll`   a history of queries (message, expression) on one object.
  Theorems: `Props/C16History.lean`.
-/
import BufrModel.View.Query
import BufrModel.Lang.PathParserObj
namespace Bufr.Query
open Bufr.PathLang

/-- a `DataQuerent`: its only attribute is the parser it was given -/
structure QObj where
  parser : PObj := {}
  deriving Repr, Inhabited

/-- `DataQuerent.query(bufr_message, path_expr)` as a function of the two arguments alone -/
def queryStr (m : QMsg) (expr : List Char) : CM QResult :=
  match parse expr with
  | .error e => .error e
  | .ok p => query m p

/-- `DataQuerent.query` on the object `q` whose parser resets itself with `reset`: (answer, object afterwards) -/
def queryObj (reset : PObj → PObj) (q : QObj) (m : QMsg) (expr : List Char) : CM QResult × QObj :=
  match parseObj reset q.parser expr with
  | (.error e, p') => (.error e, { parser := p' })
  | (.ok path, p') => (query m path, { parser := p' })

/-- the answers of the queries `hist` (message, expression), put one after the other to the querent `q` -/
def queryAll (reset : PObj → PObj) : QObj → List (QMsg × List Char) → List (CM QResult)
  | _, [] => []
  | q, (m, e) :: rest => (queryObj reset q m e).1 :: queryAll reset (queryObj reset q m e).2 rest

/-- the querent after the queries `hist` -/
def qAfterAll (reset : PObj → PObj) : QObj → List (QMsg × List Char) → QObj
  | q, [] => q
  | q, (m, e) :: rest => qAfterAll reset (queryObj reset q m e).2 rest

end Bufr.Query
