/-
  Model of `pybufrkit/bufr.py BufrMessage.subset` (the selection of subsets of a decoded message
  as an input for the encoder) — property C10.

  A decoded message is a list of sections, a section is the ordered list of its parameters
  (`BufrSection.__iter__` iterates the namespace in insertion order).  A parameter carries its
  name, its type tag (the `type` string of the section configuration, e.g. `uint`, `bin`,
  `unexpanded_descriptors`, `template_data`) and its value.  Values:

    * `.int n`      – a Python `int` (what `uint` parameters hold; `n_subsets` is one of them),
    * `.other v`     – anything else that `subset` only copies (bit strings, booleans, bytes, the
                      list of unexpanded descriptors, ...); the type `α` is abstract,
    * `.data rows`  – a `TemplateData` object, of which `subset` reads only
                      `decoded_values_all_subsets`: one list of decoded values per subset; the
                      type `β` of a decoded value is abstract (the coder model is independent).

  What `subset` returns is the nested list the encoder takes as its input (`EncoderInput`): per
  section the list of parameter values, the template data being a list of per-subset value lists.

  Mirrored, in the code's order:
      if max(subset_indices) >= self.n_subsets.value: raise PyBufrKitError     -- `.lib`
      if min(subset_indices) < 0:                     raise PyBufrKitError     -- `.lib`
      n_subsets = len(set(subset_indices))            -- (fix F3; was len(subset_indices))
      for section in self.sections: for parameter in section:
          template data  -> [v for i, v in enumerate(rows) if i in subset_indices]
          else           -> n_subsets if parameter.name == 'n_subsets' else parameter.value
  `max([])` is a ValueError (`.other`); `self.n_subsets` is the proxy set by the last decoded
  parameter named `n_subsets` (AttributeError / TypeError when there is none or it is no int:
  `.other`); a parameter typed `template_data` whose value is no TemplateData: AttributeError.
-/
import BufrModel.Basic.Bits
namespace Bufr.Subset

inductive PVal (α β : Type) where
  | int (n : Int)
  | other (v : α)
  | data (rows : List (List β))
  deriving Repr, DecidableEq

structure Param (α β : Type) where
  name : String
  type : String
  value : PVal α β
  deriving Repr, DecidableEq

abbrev Sect (α β : Type) := List (Param α β)
abbrev Msg (α β : Type) := List (Sect α β)
abbrev EncoderInput (α β : Type) := List (List (PVal α β))

/-- `PARAMETER_TYPE_TEMPLATE_DATA` -/
def templateDataType : String := "template_data"
def nSubsetsName : String := "n_subsets"

variable {α β : Type}

def Param.isData (p : Param α β) : Bool := p.type == templateDataType
def Param.isNSubsets (p : Param α β) : Bool := p.name == nSubsetsName

/-- last parameter named `n_subsets` of a section list (the proxy `self.n_subsets` is overwritten
    by every decoded parameter of that name) -/
def lastNSubsets : List (Param α β) → Option (Param α β)
  | [] => none
  | p :: ps => match lastNSubsets ps with
    | some q => some q
    | none => if p.isNSubsets then some p else none

/-- `self.n_subsets.value` as an integer, if there is such a thing -/
def Msg.nSubsets? (m : Msg α β) : Option Int :=
  match lastNSubsets m.flatten with
  | some p => match p.value with
    | .int n => some n
    | _ => none
  | none => none

/-- Python `max` of a list of integers (`none`: ValueError on an empty list) -/
def maxI : List Int → Option Int
  | [] => none
  | x :: xs => match maxI xs with
    | none => some x
    | some y => some (if y ≤ x then x else y)

def minI : List Int → Option Int
  | [] => none
  | x :: xs => match minI xs with
    | none => some x
    | some y => some (if x ≤ y then x else y)

/-- `len(set(l))`: the number of distinct elements -/
def distinct : List Int → List Int
  | [] => []
  | x :: xs => if xs.contains x then distinct xs else x :: distinct xs

def distinctCount (l : List Int) : Nat := (distinct l).length

/-- `[v for i, v in enumerate(rows, k) if i in idxs]` -/
def selectFrom {γ : Type} (idxs : List Int) : Nat → List γ → List γ
  | _, [] => []
  | k, v :: vs =>
    if idxs.contains (k : Int) then v :: selectFrom idxs (k + 1) vs else selectFrom idxs (k + 1) vs

def selectRows {γ : Type} (idxs : List Int) (rows : List γ) : List γ := selectFrom idxs 0 rows

/-- the value put into the encoder input for one parameter -/
def subsetParam (idxs : List Int) (cnt : Nat) (p : Param α β) : Except Err (PVal α β) :=
  if p.isData then
    match p.value with
    | .data rows => .ok (.data (selectRows idxs rows))
    | _ => .error .other
  else
    .ok (if p.isNSubsets then .int cnt else p.value)

def subsetSect (idxs : List Int) (cnt : Nat) : Sect α β → Except Err (List (PVal α β))
  | [] => .ok []
  | p :: ps =>
    match subsetParam idxs cnt p with
    | .error e => .error e
    | .ok v => match subsetSect idxs cnt ps with
      | .error e => .error e
      | .ok vs => .ok (v :: vs)

def subsetSects (idxs : List Int) (cnt : Nat) : Msg α β → Except Err (EncoderInput α β)
  | [] => .ok []
  | s :: ss =>
    match subsetSect idxs cnt s with
    | .error e => .error e
    | .ok v => match subsetSects idxs cnt ss with
      | .error e => .error e
      | .ok vs => .ok (v :: vs)

/-- `BufrMessage.subset(subset_indices)` -/
def subset (idxs : List Int) (m : Msg α β) : Except Err (EncoderInput α β) :=
  match maxI idxs with
  | none => .error .other                       -- max([]) : ValueError
  | some mx =>
    match m.nSubsets? with
    | none => .error .other                     -- no usable `self.n_subsets.value`
    | some n =>
      if n ≤ mx then .error .lib                -- 'maximum subset index out of range'
      else match minI idxs with
        | none => .error .other
        | some mn =>
          if mn < 0 then .error .lib            -- 'minimum subset index out of range'
          else subsetSects idxs (distinctCount idxs) m

/-- Decoder invariant the theorems assume (checked on every message by the harness): a parameter
    typed `template_data` holds a TemplateData with one value list per subset. -/
def Param.wf (n : Nat) (p : Param α β) : Bool :=
  if p.isData then
    match p.value with
    | .data rows => rows.length == n
    | _ => false
  else true

def Msg.wf (n : Nat) (m : Msg α β) : Bool := m.all (·.all (·.wf n))

/-- The code's `self` threaded through: `subset` only reads the message. -/
def subsetSt (idxs : List Int) (m : Msg α β) : Except Err (EncoderInput α β) × Msg α β :=
  (subset idxs m, m)

/-- the encoder input of the message itself (`FlatJsonRenderer` shape): every value as it is -/
def Msg.values (m : Msg α β) : EncoderInput α β := m.map (·.map (·.value))

/-- The message the decoder gives back for an encoder input laid out like `m` (same sections,
    parameter names and types; values taken from `inp`).  Used to state composition. -/
def rebuild (m : Msg α β) (inp : EncoderInput α β) : Msg α β :=
  List.zipWith (fun s vs => List.zipWith (fun (p : Param α β) v => { p with value := v }) s vs) m inp

end Bufr.Subset
