/-
  Model of the state that outlives a single message (property C13):

    * `pybufrkit/tables.py`  `TableGroupCache.get / invalidate` with
      `MAXIMUM_NUMBER_OF_CACHED_TABLE_GROUPS` and the `dict.popitem` eviction loop,
      `TableGroupCacheManager._TABLE_GROUP_CACHE` (one per process),
    * `pybufrkit/templatecompiler.py`  `CompiledTemplateManager.get_or_compile` (one per coder object),
    * `pybufrkit/decoder.py / encoder.py`  `process_template_data`: a `CoderState` is created per
      message, so the coder itself carries nothing from message to message (modelled by `process`
      being a *function* of table group, template, compiled template and input),
    * `pybufrkit/templatedata.py`  `TemplateData.wire` with its wire-once flag `_is_wired`,
    * the message objects the caller keeps and renders / queries again later.

  The real coder (sections, template walk, compilation, wiring, renderers, queries) is written by
  other modules; here it is a record of abstract *pure* functions (`Params`).  What this file fixes is
  the plumbing around them exactly as the code does it: when a cache is consulted, when it is
  filled, what is evicted, what is left behind when an operation fails half way.

  Dicts are insertion-ordered association lists (oldest first); `popitem()` removes the LAST pair.
  Extra Table B/D entries (`add_extra_entries`, fed only by table-definition messages, data category
  11) are frozen empty: the property excludes those messages.

  NOT representable here (by construction every value in the model is immutable): Python object
  identity, aliasing and in-place mutation of shared objects — the descriptor objects cached inside
  `TableB/TableC/TableD` that every template and every decoded message of the process points to,
  `[[]] * n_subsets`, attributes added to shared nodes.  A decode that *mutated* a cached descriptor
  would leave the model's theorems true and break the property in the implementation.  That part of
  C13 is carried only by the correspondence check (after-history vs fresh interpreter); the
  property is therefore labelled *partial* in the manifest.
-/
import BufrModel.Basic.Bits
namespace Bufr.Cache

/-- Insertion-ordered dictionary (CPython >= 3.7 `dict`): oldest pair first. -/
abbrev Dict (κ ν : Type) := List (κ × ν)

section Dict
variable {κ ν : Type} [DecidableEq κ]

def Dict.keys (d : Dict κ ν) : List κ := d.map (·.1)

/-- `for _ in range(n): d.popitem()`.  Returns the dictionary left behind and whether `popitem`
    raised `KeyError` (empty dictionary); the pairs popped before the exception stay popped. -/
def popLoop : Nat → Dict κ ν → Dict κ ν × Bool
  | 0, d => (d, false)
  | n + 1, d => if d.isEmpty then (d, true) else popLoop n d.dropLast

/-- `TableGroupCache.get(key)` with `MAXIMUM_NUMBER_OF_CACHED_TABLE_GROUPS = limit`:

        if key not in self._groups:
            if len(self._groups) >= LIMIT:
                for _ in range(len(self._groups) + 1 - LIMIT): self._groups.popitem()
            ... load tables A, B, C, R, D from disk (may raise) ...
            self._groups[key] = group
        return self._groups[key]

    `limit = 0` (or negative): the loop pops one more pair than there are, i.e. every request of an
    uncached key empties the cache and dies with `KeyError` (`Err.other`).  `limit = 1`: the cache is
    emptied before every load.  Eviction happens BEFORE loading, so a failing load still evicts. -/
def tableGet (limit : Nat) (load : κ → Except Err ν) (d : Dict κ ν) (k : κ) : Dict κ ν × Except Err ν :=
  match d.lookup k with
  | some g => (d, .ok g)
  | none =>
    let r := if limit ≤ d.length then popLoop (d.length + 1 - limit) d else (d, false)
    if r.2 then (r.1, .error .other)
    else match load k with
      | .error e => (r.1, .error e)
      | .ok g => (r.1 ++ [(k, g)], .ok g)

/-- `CompiledTemplateManager.get_or_compile` with `cache_max = mx` (`comp` = the result of
    `self.template_compiler.process(template, table_group)`, evaluated only on a miss):

        compiled = self.cache.get(key, None)
        if compiled is None:
            compiled = compile(...)                       # may raise: nothing changed
            if self.cache_max > 0:
                if len(self.cache) >= self.cache_max: self.cache.popitem()   # once
                self.cache[key] = compiled
        return compiled

    `cache_max = 0` compiles every time and stores nothing. -/
def compiledGet (mx : Nat) (comp : Except Err ν) (d : Dict κ ν) (k : κ) : Dict κ ν × Except Err ν :=
  match d.lookup k with
  | some c => (d, .ok c)
  | none =>
    match comp with
    | .error e => (d, .error e)
    | .ok c =>
      if 0 < mx then ((if mx ≤ d.length then d.dropLast else d) ++ [(k, c)], .ok c)
      else (d, .ok c)

end Dict

/-- Direction of a coder. -/
inductive Dir where
  | decode | encode
  deriving DecidableEq, Repr

/-- The pure functions supplied by the rest of the model.
    `κ` table-group key, `γ` table group, `τ` template, `χ` compiled template, `ι` input (bytes of a
    message for a decoder, JSON for an encoder), `δ` the decoded/encoded result (values, descriptor
    labels, bitmap links, serialized bytes), `ν` wired node, `φ` a view request (one of the four
    renderers, a data query with its path, a metadata query), `ω` what a view returns. -/
structure Params (κ γ τ χ ι δ ν φ ω : Type) where
  /-- `tables.MAXIMUM_NUMBER_OF_CACHED_TABLE_GROUPS` -/
  limit : Nat
  /-- `compiled_template_cache_max` of coder object number `c` (`none`: no compilation) -/
  cacheMax : Nat → Option Nat
  /-- sections 0-3 and `normalize_tables_sn` / `get_tables_sn`: the table group key asked for and the
      unexpanded descriptors; fails on a damaged or truncated head -/
  header : Dir → ι → Except Err (κ × List Nat)
  /-- `TableA/B/C/R/D(key)`: reading the table files (the file system is frozen; extra entries empty) -/
  loadGroup : κ → Except Err γ
  /-- `table_group.template_from_ids` -/
  build : γ → List Nat → Except Err τ
  /-- `TemplateCompiler.process` -/
  compile : γ → τ → Except Err χ
  /-- `process_template_data` and the remaining sections with a NEW `CoderState` -/
  process : Dir → γ → τ → Option χ → ι → Except Err δ
  /-- one pass of `TemplateData.wire` over freshly decoded data -/
  wireFn : δ → Except Err (List ν)
  /-- renderers and queries: functions of the data and the wired nodes -/
  view : φ → δ → List ν → Except Err ω

/-- `TemplateData` as far as wiring is concerned: `nodes` is `decoded_nodes_all_subsets`, to which
    `wire` APPENDS; `isWired` is `_is_wired`. -/
structure Obj (δ ν : Type) where
  data : δ
  nodes : List ν
  isWired : Bool

/-- `TemplateData.wire()`: do nothing when already wired; otherwise append the nodes and set the
    flag.  (After fix F14c13 (repo commit 6bf9769): a wiring pass that raises leaves the object unwired with no nodes; the
    pinned code set the flag first and kept the half-built node list, so that a second call
    returned silently.) -/
def Obj.wire {δ ν : Type} (wireFn : δ → Except Err (List ν)) (o : Obj δ ν) : Obj δ ν × Except Err Unit :=
  if o.isWired then (o, .ok ())
  else match wireFn o.data with
    | .ok ns => ({ o with nodes := o.nodes ++ ns, isWired := true }, .ok ())
    | .error e => ({ o with nodes := [] }, .error e)

/-- The same without the flag (what `wire` would be if `_is_wired` were never set): used only to
    show that the flag is what makes wiring idempotent. -/
def Obj.wireNoFlag {δ ν : Type} (wireFn : δ → Except Err (List ν)) (o : Obj δ ν) : Obj δ ν × Except Err Unit :=
  match wireFn o.data with
  | .ok ns => ({ o with nodes := o.nodes ++ ns }, .ok ())
  | .error e => ({ o with nodes := [] }, .error e)

section Proc
variable {κ γ τ χ ι δ ν φ ω : Type} [DecidableEq κ] [DecidableEq ι]

/-- Key of a message object kept by the caller: coder object, direction, input. -/
abbrev ObjKey (ι : Type) := Nat × Dir × ι

/-- Process state. -/
structure State (κ γ χ ι δ ν : Type) where
  /-- `TableGroupCacheManager._TABLE_GROUP_CACHE._groups` -/
  tables : Dict κ γ
  /-- `coder.compiled_template_manager.cache` for every coder object -/
  compiled : Nat → Dict (List Nat × κ) χ
  /-- the `BufrMessage` objects the caller still holds (newest first; a re-decode shadows the old one) -/
  objs : Dict (ObjKey ι) (Obj δ ν)

def State.init : State κ γ χ ι δ ν := { tables := [], compiled := fun _ => [], objs := [] }

def upd {α : Type} (f : Nat → α) (i : Nat) (a : α) : Nat → α := fun j => if j = i then a else f j

inductive Op (ι φ : Type) where
  /-- `coder.process(input, wire_template_data = wire)`; the caller keeps the returned object.
      A *failing* decode/encode is this operation on an input for which some stage raises. -/
  | proc (c : Nat) (dir : Dir) (m : ι) (wire : Bool)
  /-- `msg.wire()` on the object kept for `(c, dir, m)` (obtained with `wire_template_data=False`
      first if the caller holds none) -/
  | wire (c : Nat) (dir : Dir) (m : ι)
  /-- `msg.wire(); render / query` on the kept object (obtained first if the caller holds none) -/
  | view (c : Nat) (dir : Dir) (m : ι) (v : φ)
  /-- `TableGroupCacheManager.invalidate()` -/
  | invalidate

inductive Out (δ ω : Type) where
  | data (d : δ) | done | obs (o : ω) | err (e : Err)

def Out.isErr {δ ω : Type} : Out δ ω → Bool
  | .err _ => true
  | _ => false

variable (P : Params κ γ τ χ ι δ ν φ ω)

/-- `build_template` first half: the table group through the process-wide cache. -/
def stageTables (s : State κ γ χ ι δ ν) (k : κ) : State κ γ χ ι δ ν × Except Err γ :=
  let r := tableGet P.limit P.loadGroup s.tables k
  ({ s with tables := r.1 }, r.2)

/-- `if self.compiled_template_manager: ... get_or_compile(template, table_group)` -/
def stageCompiled (s : State κ γ χ ι δ ν) (c : Nat) (g : γ) (t : τ) (ids : List Nat) (k : κ) :
    State κ γ χ ι δ ν × Except Err (Option χ) :=
  match P.cacheMax c with
  | none => (s, .ok none)
  | some mx =>
    let r := compiledGet mx (P.compile g t) (s.compiled c) (ids, k)
    ({ s with compiled := upd s.compiled c r.1 }, r.2.map some)

/-- `Decoder.process` / `Encoder.process` up to (not including) wiring. -/
def fetch (s : State κ γ χ ι δ ν) (c : Nat) (dir : Dir) (m : ι) : State κ γ χ ι δ ν × Except Err δ :=
  match P.header dir m with
  | .error e => (s, .error e)
  | .ok (k, ids) =>
    let r1 := stageTables P s k
    match r1.2 with
    | .error e => (r1.1, .error e)
    | .ok g =>
      match P.build g ids with
      | .error e => (r1.1, .error e)
      | .ok t =>
        let r2 := stageCompiled P r1.1 c g t ids k
        match r2.2 with
        | .error e => (r2.1, .error e)
        | .ok oc => (r2.1, P.process dir g t oc m)

def keep (s : State κ γ χ ι δ ν) (key : ObjKey ι) (o : Obj δ ν) : State κ γ χ ι δ ν :=
  { s with objs := (key, o) :: s.objs }

/-- The object held for `key`, or a fresh unwired one obtained now. -/
def obtain (s : State κ γ χ ι δ ν) (c : Nat) (dir : Dir) (m : ι) : State κ γ χ ι δ ν × Except Err (Obj δ ν) :=
  match s.objs.lookup (c, dir, m) with
  | some o => (s, .ok o)
  | none =>
    let r := fetch P s c dir m
    (r.1, r.2.map fun d => { data := d, nodes := [], isWired := false })

def step (s : State κ γ χ ι δ ν) : Op ι φ → State κ γ χ ι δ ν × Out δ ω
  | .proc c dir m w =>
    let r := fetch P s c dir m
    match r.2 with
    | .error e => (r.1, .err e)
    | .ok d =>
      let o : Obj δ ν := { data := d, nodes := [], isWired := false }
      if w then
        let r' := o.wire P.wireFn
        match r'.2 with
        | .error e => (r.1, .err e)               -- the exception leaves `process`: no object returned
        | .ok _ => (keep r.1 (c, dir, m) r'.1, .data d)
      else (keep r.1 (c, dir, m) o, .data d)
  | .wire c dir m =>
    let r := obtain P s c dir m
    match r.2 with
    | .error e => (r.1, .err e)
    | .ok o =>
      let r' := o.wire P.wireFn
      (keep r.1 (c, dir, m) r'.1, match r'.2 with | .error e => .err e | .ok _ => .done)
  | .view c dir m v =>
    let r := obtain P s c dir m
    match r.2 with
    | .error e => (r.1, .err e)
    | .ok o =>
      let r' := o.wire P.wireFn
      (keep r.1 (c, dir, m) r'.1,
        match r'.2 with
        | .error e => .err e
        | .ok _ => match P.view v r'.1.data r'.1.nodes with | .error e => .err e | .ok x => .obs x)
  | .invalidate => ({ s with tables := [] }, .done)

/-- Run a history; returns the final state and every output. -/
def run (s : State κ γ χ ι δ ν) : List (Op ι φ) → State κ γ χ ι δ ν × List (Out δ ω)
  | [] => (s, [])
  | op :: ops =>
    let r := step P s op
    let r' := run r.1 ops
    (r'.1, r.2 :: r'.2)

/-! ### Reference semantics: no caches, no kept objects -/

/-- what `TableGroupCache.get` returns for an uncached key (limit 0 always raises `KeyError`) -/
def loadVia (k : κ) : Except Err γ := if P.limit = 0 then .error .other else P.loadGroup k

/-- the compiled template that belongs to a cache key -/
def compileFor (ck : List Nat × κ) : Except Err χ :=
  match P.loadGroup ck.2 with
  | .error e => .error e
  | .ok g => match P.build g ck.1 with
    | .error e => .error e
    | .ok t => P.compile g t

def pureFetch (c : Nat) (dir : Dir) (m : ι) : Except Err δ :=
  match P.header dir m with
  | .error e => .error e
  | .ok (k, ids) =>
    match loadVia P k with
    | .error e => .error e
    | .ok g =>
      match P.build g ids with
      | .error e => .error e
      | .ok t =>
        match P.cacheMax c with
        | none => P.process dir g t none m
        | some _ => match P.compile g t with
          | .error e => .error e
          | .ok x => P.process dir g t (some x) m

/-- The output an operation has when it is the first thing a fresh process does — written without
    any state. -/
def pureOut : Op ι φ → Out δ ω
  | .proc c dir m w =>
    match pureFetch P c dir m with
    | .error e => .err e
    | .ok d => if w then (match P.wireFn d with | .error e => .err e | .ok _ => .data d) else .data d
  | .wire c dir m =>
    match pureFetch P c dir m with
    | .error e => .err e
    | .ok d => match P.wireFn d with | .error e => .err e | .ok _ => .done
  | .view c dir m v =>
    match pureFetch P c dir m with
    | .error e => .err e
    | .ok d => match P.wireFn d with
      | .error e => .err e
      | .ok ns => match P.view v d ns with | .error e => .err e | .ok x => .obs x
  | .invalidate => .done

end Proc

end Bufr.Cache
