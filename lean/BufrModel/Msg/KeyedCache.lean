/-
  Property C13: a cache in front of a function, keyed by a function of the request.

  Every cache of the library has this shape - `TableGroupCache` (request = key = table group key),
  `CompiledTemplateManager` (request = template + table group, key = (descriptor ids, table group key,
  generation)), `TableB/C/D` descriptor tables per group - and so does every cache somebody may add to a
  long-lived object: a memo of marker descriptors on the coder, of labels on a renderer, of parsed paths or
  results on a querent.  `step` is the generic look-up-or-compute-and-store; `ev` is whatever eviction the
  cache performs before it stores a new entry; `store` says which results are kept at all (the library's
  caches do not keep failures: the exception leaves before the assignment).

  The theorems (`Props/C13Keyed.lean`) say exactly when such a cache cannot be observed.
-/
import BufrModel.Basic.Desc
namespace Bufr.Keyed

variable {α κ β : Type} [DecidableEq κ]

/-- one request: hit -> the stored result; miss -> compute, evict, store (if storable), return -/
def step (key : α → κ) (f : α → β) (store : β → Bool) (ev : List (κ × β) → List (κ × β))
    (c : List (κ × β)) (a : α) : List (κ × β) × β :=
  match c.lookup (key a) with
  | some b => (c, b)
  | none => (if store (f a) then (key a, f a) :: ev c else ev c, f a)

/-- a history of requests on one cache object: the cache at the end and every answer -/
def run (key : α → κ) (f : α → β) (store : β → Bool) (ev : List (κ × β) → List (κ × β)) :
    List (κ × β) → List α → List (κ × β) × List β
  | c, [] => (c, [])
  | c, a :: as =>
    let r := step key f store ev c a
    let r' := run key f store ev r.1 as
    (r'.1, r.2 :: r'.2)

/-- the cache cannot be observed: every answer of every history is the function's -/
def Transparent (key : α → κ) (f : α → β) (store : β → Bool) (ev : List (κ × β) → List (κ × β)) : Prop :=
  ∀ reqs : List α, (run key f store ev [] reqs).2 = reqs.map f

/-- the key determines every result that is stored -/
def Determines (key : α → κ) (f : α → β) (store : β → Bool) : Prop :=
  ∀ a b : α, key a = key b → store (f a) = true → f b = f a

/-- eviction only removes entries -/
def Shrinks (ev : List (κ × β) → List (κ × β)) : Prop := ∀ c p, p ∈ ev c → p ∈ c

/-- The element a marker operator (223255 / 224255 / 225255 / 232255) processes for the bit-mapped
    element `be` (`coder.py process_bitmapped_descriptor`, `Coder/Walk.lean bitmappedDescriptor`):
    225255 is coded with one bit more and reference -2^width. -/
def markerElem (opId : Nat) (be : Elem) : Elem :=
  if opId = 225255 then { be with ref := -((2 : Int) ^ be.nbits), nbits := be.nbits + 1 } else be

/-- A request for a marker descriptor: table group (index into the groups of the process), marker
    operator, element id. -/
abbrev MarkerReq := Nat × Nat × Nat

/-- the marker descriptor a request stands for: look the element up in the tables OF THE REQUEST'S GROUP -/
def markerOf (groups : Nat → Tables) (r : MarkerReq) : Option Elem :=
  ((groups r.1).b r.2.2).map (markerElem r.2.1)

/-- the key of seeded/C13-2 and seeded/C07-4: marker operator and element id, no table group -/
def keyNoGroup (r : MarkerReq) : Nat × Nat := r.2

end Bufr.Keyed
