/-
  Heap model for property C13 (no hidden state): Python object identity, aliasing and in-place
  mutation made explicit.

  `Msg/Cache.lean` models the process state by VALUE; here the same state is a store of mutable
  objects addressed by references, as in CPython:

    * `TableGroupCacheManager._TABLE_GROUP_CACHE._groups` maps a key to a REFERENCE to a table-group
      object; its Table B dict maps an id to a reference to ONE `ElementDescriptor` object, its
      Table D dict to ONE `SequenceDescriptor` object whose `members` refer to those same Table B
      objects (`tables.py`: "only a single instance is created for an unique descriptor");
      `TableC._cache` is a memo that GROWS whenever a template names a new operator (a write to a
      cached object outside loading; modelled as `cmemo`, which no reader looks at);
    * a `BufrTemplate` is a new object per message whose members are references to the cached
      descriptor objects; a `CompiledTemplate` (per coder cache) refers to them from its statements;
    * a decoded message refers to them from `decoded_descriptors_all_subsets`; per message objects
      (marker / associated / skipped descriptors, the lists, the link dicts, the message itself) are
      allocated by the decode;
    * `CoderState.__init__`: `[[]] * n` / `[{}] * n` for compressed data (n references to ONE list /
      dict), `[[] for _ in range(n)]` otherwise (section `CoderState` below, with the appends made
      through the alias `state.decoded_descriptors` / `state.bitmap_links`);
    * `TemplateData.wire()` mutates the message object in place (`nodes`, `_is_wired`).

  An operation is a heap transformer.  Besides the writes of the code as it is (allocation of new
  objects, `wire` on the message's own object, the Table C memo) every operation may perform EXTRA
  writes `W op s` (a list of `(reference, new object)`), the hook by which "code that writes to a
  shared object" is expressed; the theorems of `Props/C13Heap.lean` say under which discipline on `W`
  the heap model refines the value model, and that without it it does not.

  Simplifications (documented in notes/C13Heap.md): descriptor objects carry the attributes the coder
  reads (`nbits`, `scale`, `refval`); Table D rows are one level deep; a per-message pseudo descriptor
  is stored inline in the list that owns it (`Item.own`: it has exactly one owner, so its identity
  cannot be observed), the pseudo descriptors a COMPILED template owns are treated the same way;
  extra writes take effect when the operation returns.
-/
import BufrModel.Msg.Cache
namespace Bufr.Heap
open Bufr.Cache

abbrev Ref := Nat

/-- the attributes of an element descriptor object the coder reads -/
structure DescV where
  id : Nat
  nbits : Nat
  scale : Int
  refval : Int
  deriving DecidableEq, Repr, Inhabited

/-- an entry of a Python list of descriptors: a reference to a shared descriptor object, or a
    descriptor object this list alone owns (marker / associated / skipped / undefined descriptor) -/
inductive Item where
  | ref (r : Ref)
  | own (d : DescV)
  deriving DecidableEq, Repr

/-- where the coder takes a decoded descriptor from: Table B (by id) or a new pseudo descriptor -/
inductive Sel where
  | tab (id : Nat)
  | pseudo (d : DescV)
  deriving DecidableEq, Repr

/-! ### values (what the immutable model `Msg/Cache.lean` computes with) -/

structure GroupV where
  b : List (Nat × DescV)
  d : List (Nat × List DescV)
  deriving DecidableEq, Repr, Inhabited

abbrev TemplV := List DescV

structure CompV where
  descs : List DescV
  code : Nat
  deriving DecidableEq, Repr, Inhabited

structure MsgV (π : Type) where
  compressed : Bool
  templ : TemplV
  /-- per subset: decoded descriptors and bitmap links -/
  subsets : List (List DescV × List (Nat × Nat))
  payload : π
  deriving DecidableEq, Repr

/-! ### objects -/

inductive HObj (π ν : Type) where
  /-- `ElementDescriptor` -/
  | desc (d : DescV)
  /-- `SequenceDescriptor(id, members)` -/
  | seq (id : Nat) (members : List Item)
  /-- `BufrTableGroup`: `B.descriptors`, `D.descriptors`, `C._cache` (ids memoised so far) -/
  | group (b : List (Nat × Ref)) (d : List (Nat × Ref)) (cmemo : List Nat)
  /-- a Python list of descriptors (template members, `decoded_descriptors` of a subset) -/
  | lst (items : List Item)
  /-- a `bitmap_links` dict -/
  | links (l : List (Nat × Nat))
  /-- `CompiledTemplate`: the descriptor objects its statements refer to, the code -/
  | comp (descs : List Item) (code : Nat)
  /-- `BufrMessage` + `TemplateData`: `decoded_descriptors_all_subsets`, `bitmap_links_all_subsets`
      (lists of REFERENCES), template, everything else, and the two fields `wire()` mutates -/
  | msg (compressed : Bool) (descLists linkDicts : List Ref) (templ : Ref) (payload : π)
        (nodes : List ν) (wired : Bool)

abbrev Heap (π ν : Type) := List (Ref × HObj π ν)

section Read
variable {π ν : Type}

/-- a cell as every reader sees it: the Table C memo is read by nobody -/
def view (h : Heap π ν) (r : Ref) : Option (HObj π ν) :=
  match h.lookup r with
  | some (.group b d _) => some (.group b d [])
  | o => o

/-- what a reader that follows a reference INSIDE an object graph sees: never a message object (no
    descriptor list, table or compiled template refers to one) -/
def look (h : Heap π ν) (r : Ref) : Option (HObj π ν) :=
  match view h r with
  | some (.msg ..) => none
  | o => o

def getDesc (h : Heap π ν) (r : Ref) : DescV :=
  match look h r with
  | some (.desc d) => d
  | _ => default

def derefItem (h : Heap π ν) : Item → DescV
  | .ref r => getDesc h r
  | .own d => d

def getItems (h : Heap π ν) (r : Ref) : List Item :=
  match look h r with
  | some (.lst is) => is
  | some (.seq _ is) => is
  | some (.comp is _) => is
  | _ => []

/-- a list / sequence object read through: the descriptors it holds, by value -/
def getList (h : Heap π ν) (r : Ref) : List DescV := (getItems h r).map (derefItem h)

def getLinks (h : Heap π ν) (r : Ref) : List (Nat × Nat) :=
  match look h r with
  | some (.links l) => l
  | _ => []

def groupB (h : Heap π ν) (g : Ref) : List (Nat × Ref) :=
  match look h g with
  | some (.group b _ _) => b
  | _ => []

def groupD (h : Heap π ν) (g : Ref) : List (Nat × Ref) :=
  match look h g with
  | some (.group _ d _) => d
  | _ => []

def derefGroup (h : Heap π ν) (g : Ref) : GroupV :=
  { b := (groupB h g).map fun p => (p.1, getDesc h p.2),
    d := (groupD h g).map fun p => (p.1, getList h p.2) }

def compCode (h : Heap π ν) (r : Ref) : Nat :=
  match look h r with
  | some (.comp _ c) => c
  | _ => 0

def derefComp (h : Heap π ν) (r : Ref) : CompV := { descs := getList h r, code := compCode h r }

/-- a kept message object read through (the ROOT is read exactly: `wire()` mutates it) -/
def derefMsg (h : Heap π ν) [Inhabited π] (r : Ref) : Cache.Obj (MsgV π) ν :=
  match view h r with
  | some (.msg c dl ld t p ns w) =>
    { data := { compressed := c, templ := getList h t,
                subsets := (dl.zip ld).map fun x => (getList h x.1, getLinks h x.2), payload := p },
      nodes := ns, isWired := w }
  | _ => { data := { compressed := false, templ := [], subsets := [], payload := default }, nodes := [], isWired := false }

def itemRefs : List Item → List Ref
  | [] => []
  | .ref r :: is => r :: itemRefs is
  | .own _ :: is => itemRefs is

/-- what a read of a message object touches below its root -/
def msgInner (h : Heap π ν) (r : Ref) : List Ref :=
  match view h r with
  | some (.msg _ dl ld t _ _ _) => t :: dl ++ ld ++ (t :: dl).flatMap fun l => itemRefs (getItems h l)
  | _ => []

/-- everything a read of the object graph below `r` touches (root first; the union over the kinds of
    object `r` may be) -/
def footOf (h : Heap π ν) (r : Ref) : List Ref :=
  r :: (itemRefs (getItems h r) ++ (groupB h r).map (·.2) ++ (groupD h r).map (·.2) ++
    ((groupD h r).map (·.2)).flatMap (fun s => itemRefs (getItems h s)) ++ msgInner h r)

end Read

/-! ### CoderState: the per-subset lists (coder.py `CoderState.__init__`, `switch_subset_context`,
    `state.decoded_descriptors.append`, `state.bitmap_links[...] = ...`) -/

section CoderState
variable {π ν : Type}

/-- the references held by a `CoderState`: the two `*_all_subsets` lists and the two aliases
    `decoded_descriptors` / `bitmap_links` of the current subset -/
structure CState where
  descAll : List Ref
  linkAll : List Ref
  curDesc : Ref
  curLink : Ref
  deriving DecidableEq, Repr

/-- `CoderState.__init__` as the code has it: compressed `[[]] * n`, `[{}] * n` (ONE list, ONE dict,
    n references); otherwise n lists and n dicts.  `next` is the first free reference; returns the
    state, the heap and the new first free reference. -/
def mkCState (compressed : Bool) (n : Nat) (h : Heap π ν) (next : Ref) : CState × Heap π ν × Ref :=
  if compressed then
    ({ descAll := List.replicate n next, linkAll := List.replicate n (next + 1), curDesc := next, curLink := next + 1 },
     (next, .lst []) :: (next + 1, .links []) :: h, next + 2)
  else
    let dr := List.range' next n
    let lr := List.range' (next + n) n
    ({ descAll := dr, linkAll := lr, curDesc := dr.headD 0, curLink := lr.headD 0 },
     dr.map (fun r => (r, .lst [])) ++ lr.map (fun r => (r, .links [])) ++ h, next + n + n)

/-- the same with the construction the code does NOT use for this kind of data (for the negative
    result: uncompressed data over `[[]] * n`) -/
def mkCStateAliased (n : Nat) (h : Heap π ν) (next : Ref) : CState × Heap π ν × Ref :=
  mkCState true n h next

/-- `switch_subset_context(i)` -/
def CState.switch (s : CState) (i : Nat) : CState :=
  { s with curDesc := s.descAll.getD i 0, curLink := s.linkAll.getD i 0 }

/-- `state.decoded_descriptors.append(descriptor)`: in place, through the alias -/
def appendDesc (s : CState) (it : Item) (h : Heap π ν) : Heap π ν :=
  (s.curDesc, .lst (getItems h s.curDesc ++ [it])) :: h

/-- `state.bitmap_links[k] = v`: in place, through the alias -/
def setLink (s : CState) (k v : Nat) (h : Heap π ν) : Heap π ν :=
  (s.curLink, .links (getLinks h s.curLink ++ [(k, v)])) :: h

/-- what subset `i` of the finished `TemplateData` shows -/
def subsetView (s : CState) (h : Heap π ν) (i : Nat) : List DescV × List (Nat × Nat) :=
  (getList h (s.descAll.getD i 0), getLinks h (s.linkAll.getD i 0))

/-- what the coder does with the per-subset containers while it walks the template -/
inductive CAct where
  | app (it : Item)            -- `state.decoded_descriptors.append(d)`
  | link (k v : Nat)           -- `state.bitmap_links[k] = v`
  | switch (i : Nat)           -- `state.switch_subset_context(i)`

def cStep (x : CState × Heap π ν) : CAct → CState × Heap π ν
  | .app it => (x.1, appendDesc x.1 it x.2)
  | .link k v => (x.1, setLink x.1 k v x.2)
  | .switch i => (x.1.switch i, x.2)

def cRun (x : CState × Heap π ν) : List CAct → CState × Heap π ν
  | [] => x
  | a :: as => cRun (cStep x a) as

/-- the per-subset cells are distinct cells holding lists / dicts (what `[[] for _ in range(n)]`
    establishes and every coder action keeps) -/
def CWf (s : CState) (h : Heap π ν) : Prop :=
  s.descAll.Nodup ∧ s.linkAll.Nodup ∧ (∀ r ∈ s.descAll, r ∉ s.linkAll) ∧
  (∀ r ∈ s.descAll, ∃ is, h.lookup r = some (.lst is)) ∧ (∀ r ∈ s.linkAll, ∃ l, h.lookup r = some (.links l))

end CoderState

/-! ### the process -/

/-- The code, as far as it is not plumbing: pure functions of VALUES read from the heap (they cannot
    see identities), returning what to allocate. -/
structure HParams (κ ι π ν φ ω : Type) where
  limit : Nat
  cacheMax : Nat → Option Nat
  header : Dir → ι → Except Err (κ × List Nat)
  /-- `TableB.json` entries and `TableD.json` rows (member ids) of a key -/
  loadFile : κ → Except Err (List (Nat × DescV) × List (Nat × List Nat))
  /-- `template_from_ids`: the Table B ids of the members (fails on what cannot be built) -/
  buildIds : GroupV → List Nat → Except Err (List Nat)
  /-- `TemplateCompiler.process`: Table B ids its statements refer to, and the code -/
  compileIds : GroupV → TemplV → Except Err (List Nat × Nat)
  /-- `process_template_data` + the other sections with a NEW `CoderState`: compressed flag, number
      of subsets, per subset the decoded descriptors (by origin) and links, the rest -/
  decode : Dir → GroupV → TemplV → Option CompV → ι →
    Except Err (Bool × Nat × (Nat → List Sel × List (Nat × Nat)) × π)
  wireFn : MsgV π → Except Err (List ν)
  view : φ → MsgV π → List ν → Except Err ω

def lookupD (b : List (Nat × DescV)) (id : Nat) : DescV := (b.lookup id).getD default

def resolveSel (g : GroupV) : Sel → DescV
  | .tab id => lookupD g.b id
  | .pseudo d => d

def mkGroupV (f : List (Nat × DescV) × List (Nat × List Nat)) : GroupV :=
  { b := f.1, d := f.2.map fun row => (row.1, row.2.map (lookupD f.1)) }

def subsetsOf (g : GroupV) (c : Bool) (n : Nat) (f : Nat → List Sel × List (Nat × Nat)) :
    List (List DescV × List (Nat × Nat)) :=
  if c then List.replicate n ((f 0).1.map (resolveSel g), (f 0).2)
  else (List.range n).map fun i => ((f i).1.map (resolveSel g), (f i).2)

section Proc
variable {κ ι π ν φ ω : Type} [DecidableEq κ] [DecidableEq ι] [Inhabited π]

/-- the value-level parameters the heap-level code induces (what `Msg/Cache.lean` is run with) -/
def HParams.toParams (H : HParams κ ι π ν φ ω) : Params κ GroupV TemplV CompV ι (MsgV π) ν φ ω where
  limit := H.limit
  cacheMax := H.cacheMax
  header := H.header
  loadGroup := fun k => (H.loadFile k).map mkGroupV
  build := fun g ids => (H.buildIds g ids).map fun l => l.map (lookupD g.b)
  compile := fun g t => (H.compileIds g t).map fun x => { descs := x.1.map (lookupD g.b), code := x.2 }
  process := fun dir g t oc m => (H.decode dir g t oc m).map fun x =>
    { compressed := x.1, templ := t, subsets := subsetsOf g x.1 x.2.1 x.2.2.1, payload := x.2.2.2 }
  wireFn := H.wireFn
  view := H.view

/-- `d.get(k)` with the equality test of `Msg/Cache.lean` (`DecidableEq`) -/
def dictGet {α β : Type} [DecidableEq α] (d : Dict α β) (k : α) : Option β := d.lookup k

structure HState (κ ι π ν : Type) where
  heap : Heap π ν
  next : Nat
  tables : Dict κ Ref
  compiled : Nat → Dict (List Nat × κ) Ref
  objs : Dict (ObjKey ι) Ref

def HState.init : HState κ ι π ν := { heap := [], next := 0, tables := [], compiled := fun _ => [], objs := [] }

/-- allocate objects at consecutive new references -/
def allocMany (s : HState κ ι π ν) (os : List (HObj π ν)) : HState κ ι π ν :=
  { s with heap := (List.range' s.next os.length).zip os ++ s.heap, next := s.next + os.length }

def write (s : HState κ ι π ν) (r : Ref) (o : HObj π ν) : HState κ ι π ν :=
  { s with heap := (r, o) :: s.heap }

def itemOfId (bm : List (Nat × Ref)) (id : Nat) : Item :=
  match bm.lookup id with
  | some r => .ref r
  | none => .own default

def itemOfSel (bm : List (Nat × Ref)) : Sel → Item
  | .tab id => itemOfId bm id
  | .pseudo d => .own d

/-- the roots the process state holds -/
def roots (s : HState κ ι π ν) (cs : List Nat) : List Ref :=
  s.tables.map (·.2) ++ cs.flatMap (fun c => (s.compiled c).map (·.2)) ++ s.objs.map (·.2)

/-- the cached objects: everything reachable from the two kinds of cache -/
def cacheFoot (s : HState κ ι π ν) (cs : List Nat) : List Ref :=
  (s.tables.map (·.2) ++ cs.flatMap (fun c => (s.compiled c).map (·.2))).flatMap (footOf s.heap)

variable (H : HParams κ ι π ν φ ω)

/-- `TableB(key)`, `TableD(...)`, `BufrTableGroup(...)`: new descriptor objects, new sequence objects
    whose members REFER to the Table B objects, the group object -/
def hLoad (s : HState κ ι π ν) (f : List (Nat × DescV) × List (Nat × List Nat)) : HState κ ι π ν × Ref :=
  let bm := (f.1.map (·.1)).zip (List.range' s.next f.1.length)
  let s1 := allocMany s (f.1.map fun p => HObj.desc p.2)
  let dm := (f.2.map (·.1)).zip (List.range' s1.next f.2.length)
  let s2 := allocMany s1 (f.2.map fun row => HObj.seq row.1 (row.2.map (itemOfId bm)))
  (allocMany s2 [HObj.group bm dm []], s2.next)

def hStageTables (s : HState κ ι π ν) (k : κ) : HState κ ι π ν × Except Err Ref :=
  match s.tables.lookup k with
  | some g => (s, .ok g)
  | none =>
    let r := if H.limit ≤ s.tables.length then popLoop (s.tables.length + 1 - H.limit) s.tables else (s.tables, false)
    if r.2 then ({ s with tables := r.1 }, .error .other)
    else match H.loadFile k with
      | .error e => ({ s with tables := r.1 }, .error e)
      | .ok f =>
        let l := hLoad { s with tables := r.1 } f
        ({ l.1 with tables := r.1 ++ [(k, l.2)] }, .ok l.2)

/-- `TableC.lookup` memoises the operator descriptors a template names: a write to the CACHED group -/
def hMemoC (s : HState κ ι π ν) (g : Ref) (ids : List Nat) : HState κ ι π ν :=
  match s.heap.lookup g with
  | some (.group b d c) => write s g (.group b d (c ++ ids.filter fun i => 200000 ≤ i ∧ i < 300000))
  | _ => s

def hStageCompiled (s : HState κ ι π ν) (c : Nat) (g : Ref) (t : TemplV) (ids : List Nat) (k : κ) :
    HState κ ι π ν × Except Err (Option Ref) :=
  match H.cacheMax c with
  | none => (s, .ok none)
  | some mx =>
    match dictGet (s.compiled c) (ids, k) with
    | some x => (s, .ok (some x))
    | none =>
      match H.compileIds (derefGroup s.heap g) t with
      | .error e => (s, .error e)
      | .ok x =>
        let s1 := allocMany s [HObj.comp (x.1.map (itemOfId (groupB s.heap g))) x.2]
        let d := s.compiled c
        if 0 < mx then
          ({ s1 with compiled := upd s.compiled c ((if mx ≤ d.length then d.dropLast else d) ++ [((ids, k), s.next)]) }, .ok (some s.next))
        else (s1, .ok (some s.next))

/-- allocation of a decoded message: template object, the per-subset lists and dicts with the
    code's aliasing (compressed: ONE list and ONE dict referred to n times), the message object -/
def hAllocMsg (s : HState κ ι π ν) (g : Ref) (tids : List Nat)
    (x : Bool × Nat × (Nat → List Sel × List (Nat × Nat)) × π) : HState κ ι π ν × Ref :=
  let bm := groupB s.heap g
  let t := s.next
  let s0 := allocMany s [HObj.lst (tids.map (itemOfId bm))]
  let n := x.2.1
  let f := x.2.2.1
  if x.1 then
    let s1 := allocMany s0 [HObj.lst ((f 0).1.map (itemOfSel bm)), HObj.links (f 0).2]
    let m := s1.next
    (allocMany s1 [HObj.msg true (List.replicate n s0.next) (List.replicate n (s0.next + 1)) t x.2.2.2 [] false], m)
  else
    let s1 := allocMany s0 ((List.range n).map fun i => HObj.lst ((f i).1.map (itemOfSel bm)))
    let s2 := allocMany s1 ((List.range n).map fun i => HObj.links (f i).2)
    let m := s2.next
    (allocMany s2 [HObj.msg false (List.range' s0.next n) (List.range' s1.next n) t x.2.2.2 [] false], m)

/-- `Decoder.process` / `Encoder.process` up to (not including) wiring; returns the new message -/
def hFetch (s : HState κ ι π ν) (c : Nat) (dir : Dir) (m : ι) : HState κ ι π ν × Except Err Ref :=
  match H.header dir m with
  | .error e => (s, .error e)
  | .ok (k, ids) =>
    let r1 := hStageTables H s k
    match r1.2 with
    | .error e => (r1.1, .error e)
    | .ok g =>
      let gv := derefGroup r1.1.heap g
      match H.buildIds gv ids with
      | .error e => (r1.1, .error e)
      | .ok tids =>
        let s1 := hMemoC r1.1 g ids
        let t : TemplV := tids.map (lookupD gv.b)
        let r2 := hStageCompiled H s1 c g t ids k
        match r2.2 with
        | .error e => (r2.1, .error e)
        | .ok oc =>
          match H.decode dir gv t (oc.map (derefComp r2.1.heap)) m with
          | .error e => (r2.1, .error e)
          | .ok x => let a := hAllocMsg r2.1 g tids x; (a.1, .ok a.2)

/-- `TemplateData.wire()`: in place on the message object -/
def hWire (s : HState κ ι π ν) (r : Ref) : HState κ ι π ν × Except Err Unit :=
  match s.heap.lookup r with
  | some (.msg c dl ld t p ns w) =>
    if w then (s, .ok ())
    else match H.wireFn (derefMsg s.heap r).data with
      | .ok ns' => (write s r (.msg c dl ld t p (ns ++ ns') true), .ok ())
      | .error e => (write s r (.msg c dl ld t p [] w), .error e)
  | _ => (s, .error .other)

def hKeep (s : HState κ ι π ν) (key : ObjKey ι) (r : Ref) : HState κ ι π ν := { s with objs := (key, r) :: s.objs }

def hObtain (s : HState κ ι π ν) (c : Nat) (dir : Dir) (m : ι) : HState κ ι π ν × Except Err Ref :=
  match s.objs.lookup (c, dir, m) with
  | some r => (s, .ok r)
  | none => hFetch H s c dir m

/-- the operation as the code performs it (no extra writes) -/
def hCore (s : HState κ ι π ν) : Op ι φ → HState κ ι π ν × Out (MsgV π) ω
  | .proc c dir m w =>
    let r := hFetch H s c dir m
    match r.2 with
    | .error e => (r.1, .err e)
    | .ok o =>
      let d := (derefMsg r.1.heap o).data
      if w then
        let r' := hWire H r.1 o
        match r'.2 with
        | .error e => (r'.1, .err e)
        | .ok _ => (hKeep r'.1 (c, dir, m) o, .data d)
      else (hKeep r.1 (c, dir, m) o, .data d)
  | .wire c dir m =>
    let r := hObtain H s c dir m
    match r.2 with
    | .error e => (r.1, .err e)
    | .ok o =>
      let r' := hWire H r.1 o
      (hKeep r'.1 (c, dir, m) o, match r'.2 with | .error e => .err e | .ok _ => .done)
  | .view c dir m v =>
    let r := hObtain H s c dir m
    match r.2 with
    | .error e => (r.1, .err e)
    | .ok o =>
      let r' := hWire H r.1 o
      (hKeep r'.1 (c, dir, m) o,
        match r'.2 with
        | .error e => .err e
        | .ok _ =>
          let x := derefMsg r'.1.heap o
          match H.view v x.data x.nodes with | .error e => .err e | .ok y => .obs y)
  | .invalidate => ({ s with tables := [] }, .done)

/-- extra writes of an operation (what a change of the code could add): performed on the state the
    operation leaves -/
abbrev Writes (κ ι π ν φ : Type) := Op ι φ → HState κ ι π ν → List (Ref × HObj π ν)

def applyWrites (s : HState κ ι π ν) (ws : List (Ref × HObj π ν)) : HState κ ι π ν :=
  ws.foldl (fun s w => write s w.1 w.2) s

def hStep (W : Writes κ ι π ν φ) (s : HState κ ι π ν) (op : Op ι φ) : HState κ ι π ν × Out (MsgV π) ω :=
  let r := hCore H s op
  (applyWrites r.1 (W op r.1), r.2)

def hRun (W : Writes κ ι π ν φ) (s : HState κ ι π ν) : List (Op ι φ) → HState κ ι π ν × List (Out (MsgV π) ω)
  | [] => (s, [])
  | op :: ops =>
    let r := hStep H W s op
    let r' := hRun W r.1 ops
    (r'.1, r.2 :: r'.2)

/-- the abstraction function: every reference read through -/
def abs (s : HState κ ι π ν) : State κ GroupV CompV ι (MsgV π) ν :=
  { tables := s.tables.map fun p => (p.1, derefGroup s.heap p.2),
    compiled := fun c => (s.compiled c).map fun p => (p.1, derefComp s.heap p.2),
    objs := s.objs.map fun p => (p.1, derefMsg s.heap p.2) }

end Proc

end Bufr.Heap
