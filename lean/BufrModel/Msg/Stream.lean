/-
  Scanning a byte stream for messages (`decoder.py: generate_bufr_message`).

      idx_start = 0
      while idx_start < len(s):
          idx_start = s.find(b'BUFR', idx_start)            -- `findSig`
          if idx_start < 0: return
          try:                                               -- `tryBody`
              matched = True
              if filter_expr: info-only decode; matched = sr.run(msg); full decode when not info_only and
                              (matched or the message is a table definition message)      -- repair F25
              else:           decode(info_only)
              if info_only: msg.serialized_bytes = s[idx_start : idx_start + msg.length.value]
              else:         (table-definition side effect, abstracted away: C20)
              idx_start += len(msg.serialized_bytes)
              if matched: yield msg
          except PyBufrKitError:                             -- `step`
              if not continue_on_error: raise
              if info_only: idx_start += 1
              else: try: idx_start += (info-only decode).length.value   except PyBufrKitError: idx_start += 1

  The per-offset decoder is a parameter `dec infoOnly rest` (`decoder.process(s[idx_start:],
  start_signature=None, info_only=...)`): it returns the length of the `serialized_bytes` it reports
  (`consumed`), the declared total length (`length.value`) and whatever the filter looks at (`msg`).
  The filter is a function that may fail (`ScriptRunner.run` evaluates arbitrary Python).

  Two things the code does that a reader may not expect, both mirrored:
  * a non-library exception (`Err.other`: AssertionError, ValueError, ...) is not caught by
    `except PyBufrKitError`: it ends the scan whatever `continue_on_error` says;
  * when the amount to advance by is 0 (info-only scanning of a message whose declared total length is
    0, or the skip branch reading a declared length of 0) the loop state does not change and the real
    generator never terminates (yielding the same message for ever, or spinning silently).  The model
    reports `Outcome.loops` at that point.  Every other iteration advances by at least one byte, so
    `fuel = length + 1` is never exhausted (`scanFuel_fuel_irrelevant` in Props/C11.lean).
-/
import BufrModel.Basic.Bits
import BufrModel.Msg.Sections
import BufrModel.Coder.Decode
namespace Bufr.Stream

abbrev Bytes := List UInt8

/-- `MESSAGE_START_SIGNATURE` -/
def sig : Bytes := startSig

/-- `s.find(b'BUFR')`: index of the first occurrence -/
def findSig : Bytes → Option Nat
  | [] => none
  | b :: bs => if sig.isPrefixOf (b :: bs) then some 0 else (findSig bs).map (· + 1)

/-- what the scan needs to know about a decoded message -/
structure MsgInfo (μ : Type) where
  /-- `len(bufr_message.serialized_bytes)` as set by `Decoder.process` -/
  consumed : Nat
  /-- `bufr_message.length.value` -/
  declared : Nat
  /-- the decoded message (the filter and the consumer look at it) -/
  msg : μ
  deriving Repr, DecidableEq

abbrev Dec (μ : Type) := (infoOnly : Bool) → Bytes → Except Err (MsgInfo μ)

structure Cfg (μ : Type) where
  infoOnly : Bool := false
  continueOnError : Bool := false
  /-- `filter_expr`: truthiness of `ScriptRunner(filter_expr, mode='eval').run(msg)` -/
  filter : Option (MsgInfo μ → Except Err Bool) := none
  /-- is the message a table definition message (`data_category == DATA_CATEGORY_DEFINE_BUFR_TABLES and
      n_subsets > 0`, read off the decode in hand)?  After the repair F25 such a message is decoded in full
      even when the filter rejects it, because the definitions it carries govern the messages that follow (C20). -/
  tableDef : MsgInfo μ → Bool := fun _ => false

structure Item (μ : Type) where
  offset : Nat
  bytes : Bytes
  info : MsgInfo μ
  deriving Repr, DecidableEq

inductive Outcome where
  | done                 -- the generator is exhausted
  | error (e : Err)      -- the exception that leaves the generator
  | loops                -- the generator never terminates (advance by 0)
  deriving Repr, DecidableEq

/-- decode (and filter) at a signature: `(matched, message)` -/
def decodeHere {μ : Type} (dec : Dec μ) (cfg : Cfg μ) (rest : Bytes) : Except Err (Bool × MsgInfo μ) :=
  match cfg.filter with
  | none =>
    match dec cfg.infoOnly rest with
    | .error e => .error e
    | .ok m => .ok (true, m)
  | some p =>
    match dec true rest with
    | .error e => .error e
    | .ok mi =>
      match p mi with
      | .error e => .error e
      | .ok matched =>
        if (matched || cfg.tableDef mi) && !cfg.infoOnly then
          match dec false rest with
          | .error e => .error e
          | .ok m => .ok (matched, m)
        else .ok (matched, mi)

/-- the body of the `try`: how far to advance and what is yielded -/
def tryBody {μ : Type} (dec : Dec μ) (cfg : Cfg μ) (rest : Bytes) :
    Except Err (Nat × Option (Bytes × MsgInfo μ)) :=
  match decodeHere dec cfg rest with
  | .error e => .error e
  | .ok (matched, m) =>
    let bytes := if cfg.infoOnly then rest.take m.declared else rest.take m.consumed
    .ok (bytes.length, if matched then some (bytes, m) else none)

inductive Step (μ : Type) where
  | adv (n : Nat) (item : Option (Bytes × MsgInfo μ))
  | fail (e : Err)

/-- one iteration at a found signature, including the `except PyBufrKitError` clause -/
def step {μ : Type} (dec : Dec μ) (cfg : Cfg μ) (rest : Bytes) : Step μ :=
  match tryBody dec cfg rest with
  | .ok (n, y) => .adv n y
  | .error e =>
    if !e.isLib then .fail e                    -- not a PyBufrKitError: not caught
    else if !cfg.continueOnError then .fail e   -- `raise e`
    else if cfg.infoOnly then .adv 1 none
    else
      match dec true rest with
      | .ok mi => .adv mi.declared none
      | .error e2 => if e2.isLib then .adv 1 none else .fail e2

def yielded {μ : Type} (off : Nat) : Option (Bytes × MsgInfo μ) → List (Item μ)
  | none => []
  | some (b, m) => [{ offset := off, bytes := b, info := m }]

/-- the `while` loop; `off` is the absolute offset of `s` in the original stream -/
def scanFuel {μ : Type} (dec : Dec μ) (cfg : Cfg μ) : Nat → Nat → Bytes → List (Item μ) × Outcome
  | 0, _, _ => ([], .loops)
  | fuel + 1, off, s =>
    match findSig s with
    | none => ([], .done)
    | some k =>
      let rest := s.drop k
      match step dec cfg rest with
      | .fail e => ([], .error e)
      | .adv 0 y => (yielded (off + k) y, .loops)
      | .adv (n + 1) y =>
        let r := scanFuel dec cfg fuel (off + k + (n + 1)) (rest.drop (n + 1))
        (yielded (off + k) y ++ r.1, r.2)

/-- `generate_bufr_message(decoder, s, info_only, continue_on_error, filter_expr)` -/
def scan {μ : Type} (dec : Dec μ) (cfg : Cfg μ) (s : Bytes) : List (Item μ) × Outcome :=
  scanFuel dec cfg (s.length + 1) 0 s

/-! ## The per-offset decoder of the section model -/

/-- `Decoder.process(rest, start_signature=None, info_only=b)` seen by the scan: the reported bytes,
    `length.value` (an `as_property` parameter of section 0; a layout without it would be an
    AttributeError) and the decoded message -/
def ofSections {α : Type} (L : Layouts) (dc : DataCoder α) (ignoreExpect : Bool) : Dec (DecMsg α) :=
  fun infoOnly rest =>
    match decodeAt L dc { infoOnly := infoOnly, ignoreExpect := ignoreExpect } rest with
    | .error e => .error e
    | .ok m =>
      match (m.sections.findSome? (fun s => s.params.lookup "length") : Option PVal) with
      | some (PVal.int v) => .ok { consumed := m.serialized.length, declared := v.toNat, msg := m }
      | _ => .error .other

/-- `Decoder.process_template_data` against a fixed table group: the template is built from the
    unexpanded descriptors of section 3, the subsets are read with the coder model (C01).  The three
    properties are set by the section-3 layout; their absence would be an AttributeError. -/
def tableCoder (T : Tables) : DataCoder (List SubsetOut) where
  dec := fun reg bits =>
    match reg.get? "unexpanded_descriptors", reg.get? "is_compressed", reg.get? "n_subsets" with
    | some { val := .descs ids, .. }, some { val := .bool comp, .. }, some { val := .int n, .. } =>
      match build T ids with
      | .error e => .error e
      | .ok tmpl => decodeData tmpl comp n.toNat bits
    | _, _, _ => .error .other

end Bufr.Stream
