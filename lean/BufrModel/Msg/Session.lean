/-
  Property C13, second model: the objects of a session as a state machine.

  `Msg/Cache.lean` models the two caches and the kept message objects.  This file puts MORE of the real
  per-object and per-process state inside the model, as explicit state components that the operations
  read and write:

    process        `tables.MAXIMUM_NUMBER_OF_CACHED_TABLE_GROUPS`   (`limit`: a module attribute, may be
                                                                      reassigned at any time)
                   `TableGroupCacheManager._TABLE_GROUP_CACHE`      (`tables`)
    Decoder /      `compiled_template_manager.cache`                 (`Coder.compiled`)
    Encoder obj.   the `CoderState` of the message in hand           (`Coder.regs`: what the walk leaves
                                                                      behind - after a failure at some
                                                                      point: the registers as they were
                                                                      there -; `process_template_data`
                                                                      creates a NEW one for every message)
    renderer /     the scratch attributes of the object              (`viewers k`: `NodePathParser.pos,
    querent obj.                                                      current_state, current_token, ...`
                                                                      as the last call left them, also a
                                                                      failed one; `parse` calls `reset()`
                                                                      first.  The renderers have none.)
    message obj.   `TemplateData`: data, nodes, `_is_wired`          (`objs`, `Cache.Obj`)

  Operations (`Op`): decode / encode (`proc`: succeeds or fails at the stage the INPUT determines: head,
  table loading, template building, compilation, data walk, wiring), `wire`, render / query through viewer
  object `r` (`view`), release of message objects (`drop`, `dropAll`: the caller lets go, the garbage
  collector runs), eviction (`invalidate`, `setLimit`), a direct table-group request (`tables`).

  `pureOut` is the stateless specification: the output of an operation as a function of the operation
  and of the one piece of CONFIGURATION the caller sets explicitly (the cache limit: limit 0 makes every
  table request raise `KeyError`) - no cache, no register, no scratch, no kept object.

  Also here: the two "leaky" variants (`walkLeaky`, `viewLeaky`) that start from what the previous
  operation left behind instead of a fresh register set / `reset()`; they are only used for the negative
  examples in `Props/C13Session.lean` (hidden state of exactly the kind the property excludes).

  As in `Msg/Cache.lean` every value is immutable: Python aliasing is outside the model.
-/
import BufrModel.Msg.Cache
namespace Bufr.Session
open Bufr.Cache

/-- The point at which `Decoder.process` / `Encoder.process` (followed by `wire()`) gives up. -/
inductive Stage where
  | header | tables | build | compile | data | wire
  deriving DecidableEq, Repr

/-- The pure functions supplied by the rest of the model.  Compared with `Cache.Params`:
    `ρ` is the register set of the coder (`CoderState`), `σ` the scratch of a renderer / querent. -/
structure Params (κ γ τ χ ι ρ δ ν σ φ ω : Type) where
  cacheMax : Nat → Option Nat
  header : Dir → ι → Except Err (κ × List Nat)
  loadGroup : κ → Except Err γ
  build : γ → List Nat → Except Err τ
  compile : γ → τ → Except Err χ
  /-- `CoderState(is_compressed, n_subsets)`: the register set a message starts with -/
  freshRegs : Dir → ι → ρ
  /-- the template walk (or the execution of the compiled template) and the remaining sections: runs the
      registers; returns them as they are when it stops - at the end or where the exception left - -/
  walk : Dir → γ → τ → Option χ → ι → ρ → ρ × Except Err δ
  wireFn : δ → Except Err (List ν)
  /-- `NodePathParser.reset()` / a renderer: the scratch every call starts with -/
  viewerInit : σ
  /-- renderer / data query / metadata query on data and wired nodes, running the scratch -/
  view : φ → δ → List ν → σ → σ × Except Err ω

/-- A Decoder / Encoder object. -/
structure Coder (κ χ ρ : Type) where
  compiled : Dict (List Nat × κ) χ
  /-- the registers the last message left behind (`none`: nothing processed yet) -/
  regs : Option ρ

structure State (κ γ χ ι ρ δ ν σ : Type) where
  limit : Nat
  tables : Dict κ γ
  coders : Nat → Coder κ χ ρ
  viewers : Nat → σ
  objs : Dict (ObjKey ι) (Obj δ ν)

inductive Op (κ ι φ : Type) where
  /-- `coder c .process(m, wire_template_data = wire)`; the caller keeps the returned object -/
  | proc (c : Nat) (dir : Dir) (m : ι) (wire : Bool)
  /-- `msg.wire()` on the kept object (obtained unwired first if the caller holds none) -/
  | wire (c : Nat) (dir : Dir) (m : ι)
  /-- `msg.wire(); viewer r .render(msg)` / `.query(msg, path)` -/
  | view (r : Nat) (c : Nat) (dir : Dir) (m : ι) (v : φ)
  /-- the caller releases the object kept for `(c, dir, m)` -/
  | drop (c : Nat) (dir : Dir) (m : ι)
  /-- the caller releases every message object -/
  | dropAll
  /-- `TableGroupCacheManager.invalidate()` -/
  | invalidate
  /-- `tables.MAXIMUM_NUMBER_OF_CACHED_TABLE_GROUPS = n` -/
  | setLimit (n : Nat)
  /-- `TableGroupCacheManager.get_table_group_by_key(k)` called directly (look-up tools, the scripts) -/
  | tables (k : κ)

section
variable {κ γ τ χ ι ρ δ ν σ φ ω : Type} [DecidableEq κ] [DecidableEq ι]
variable (P : Params κ γ τ χ ι ρ δ ν σ φ ω)

def State.init (limit : Nat) : State κ γ χ ι ρ δ ν σ :=
  { limit := limit, tables := [], coders := fun _ => { compiled := [], regs := none },
    viewers := fun _ => P.viewerInit, objs := [] }

/-- the table group through the process-wide cache, with the limit in force now -/
def stageTables (s : State κ γ χ ι ρ δ ν σ) (k : κ) : State κ γ χ ι ρ δ ν σ × Except Err γ :=
  let r := tableGet s.limit P.loadGroup s.tables k
  ({ s with tables := r.1 }, r.2)

def stageCompiled (s : State κ γ χ ι ρ δ ν σ) (c : Nat) (g : γ) (t : τ) (ids : List Nat) (k : κ) :
    State κ γ χ ι ρ δ ν σ × Except Err (Option χ) :=
  match P.cacheMax c with
  | none => (s, .ok none)
  | some mx =>
    let r := compiledGet mx (P.compile g t) (s.coders c).compiled (ids, k)
    ({ s with coders := upd s.coders c { (s.coders c) with compiled := r.1 } }, r.2.map some)

/-- `process_template_data`: a NEW register set, the walk, the registers left behind on the coder. -/
def stageWalk (s : State κ γ χ ι ρ δ ν σ) (c : Nat) (dir : Dir) (g : γ) (t : τ) (oc : Option χ) (m : ι) :
    State κ γ χ ι ρ δ ν σ × Except Err δ :=
  let r := P.walk dir g t oc m (P.freshRegs dir m)
  ({ s with coders := upd s.coders c { (s.coders c) with regs := some r.1 } }, r.2)

/-- the same WITHOUT the new register set: continues with what the last message left (negative examples only) -/
def stageWalkLeaky (s : State κ γ χ ι ρ δ ν σ) (c : Nat) (dir : Dir) (g : γ) (t : τ) (oc : Option χ) (m : ι) :
    State κ γ χ ι ρ δ ν σ × Except Err δ :=
  let r := P.walk dir g t oc m ((s.coders c).regs.getD (P.freshRegs dir m))
  ({ s with coders := upd s.coders c { (s.coders c) with regs := some r.1 } }, r.2)

/-- `Decoder.process` / `Encoder.process` up to (not including) wiring; `walkStage` is `stageWalk`. -/
def fetchWith (walkStage : State κ γ χ ι ρ δ ν σ → Nat → Dir → γ → τ → Option χ → ι → State κ γ χ ι ρ δ ν σ × Except Err δ)
    (s : State κ γ χ ι ρ δ ν σ) (c : Nat) (dir : Dir) (m : ι) : State κ γ χ ι ρ δ ν σ × Except Err δ :=
  match P.header dir m with
  | .error e => (s, .error e)
  | .ok (k, ids) =>
    let r1 := stageTables P s k
    match r1.2 with
    | .error e => (r1.1, .error e)
    | .ok g =>
      match P.build g ids with
      | .error e => (r1.1, .error e)
      | .ok t =>
        let r2 := stageCompiled P r1.1 c g t ids k
        match r2.2 with
        | .error e => (r2.1, .error e)
        | .ok oc => walkStage r2.1 c dir g t oc m

def fetch (s : State κ γ χ ι ρ δ ν σ) (c : Nat) (dir : Dir) (m : ι) : State κ γ χ ι ρ δ ν σ × Except Err δ :=
  fetchWith P (stageWalk P) s c dir m

def keep (s : State κ γ χ ι ρ δ ν σ) (key : ObjKey ι) (o : Obj δ ν) : State κ γ χ ι ρ δ ν σ :=
  { s with objs := (key, o) :: s.objs }

def obtain (s : State κ γ χ ι ρ δ ν σ) (c : Nat) (dir : Dir) (m : ι) : State κ γ χ ι ρ δ ν σ × Except Err (Obj δ ν) :=
  match s.objs.lookup (c, dir, m) with
  | some o => (s, .ok o)
  | none =>
    let r := fetch P s c dir m
    (r.1, r.2.map fun d => { data := d, nodes := [], isWired := false })

/-- a renderer / querent call: `reset()`, run, the scratch stays on the object -/
def runViewer (s : State κ γ χ ι ρ δ ν σ) (r : Nat) (v : φ) (d : δ) (ns : List ν) :
    State κ γ χ ι ρ δ ν σ × Except Err ω :=
  let x := P.view v d ns P.viewerInit
  ({ s with viewers := upd s.viewers r x.1 }, x.2)

/-- the same WITHOUT `reset()` (negative examples only) -/
def runViewerLeaky (s : State κ γ χ ι ρ δ ν σ) (r : Nat) (v : φ) (d : δ) (ns : List ν) :
    State κ γ χ ι ρ δ ν σ × Except Err ω :=
  let x := P.view v d ns (s.viewers r)
  ({ s with viewers := upd s.viewers r x.1 }, x.2)

def step (s : State κ γ χ ι ρ δ ν σ) : Op κ ι φ → State κ γ χ ι ρ δ ν σ × Out δ ω
  | .proc c dir m w =>
    let r := fetch P s c dir m
    match r.2 with
    | .error e => (r.1, .err e)
    | .ok d =>
      let o : Obj δ ν := { data := d, nodes := [], isWired := false }
      if w then
        let r' := o.wire P.wireFn
        match r'.2 with
        | .error e => (r.1, .err e)
        | .ok _ => (keep r.1 (c, dir, m) r'.1, .data d)
      else (keep r.1 (c, dir, m) o, .data d)
  | .wire c dir m =>
    let r := obtain P s c dir m
    match r.2 with
    | .error e => (r.1, .err e)
    | .ok o =>
      let r' := o.wire P.wireFn
      (keep r.1 (c, dir, m) r'.1, match r'.2 with | .error e => .err e | .ok _ => .done)
  | .view rr c dir m v =>
    let r := obtain P s c dir m
    match r.2 with
    | .error e => (r.1, .err e)
    | .ok o =>
      let r' := o.wire P.wireFn
      let s1 := keep r.1 (c, dir, m) r'.1
      match r'.2 with
      | .error e => (s1, .err e)
      | .ok _ =>
        let x := runViewer P s1 rr v r'.1.data r'.1.nodes
        (x.1, match x.2 with | .error e => .err e | .ok y => .obs y)
  | .drop c dir m => ({ s with objs := s.objs.filter (fun p => !decide (p.1 = (c, dir, m))) }, .done)
  | .dropAll => ({ s with objs := [] }, .done)
  | .invalidate => ({ s with tables := [] }, .done)
  | .setLimit n => ({ s with limit := n }, .done)
  | .tables k =>
    let r := stageTables P s k
    (r.1, match r.2 with | .error e => .err e | .ok _ => .done)

def run (s : State κ γ χ ι ρ δ ν σ) : List (Op κ ι φ) → State κ γ χ ι ρ δ ν σ × List (Out δ ω)
  | [] => (s, [])
  | op :: ops =>
    let r := step P s op
    let r' := run r.1 ops
    (r'.1, r.2 :: r'.2)

/-! ### The stateless specification -/

/-- what `TableGroupCache.get` gives for an uncached key under limit `lim` -/
def loadVia (lim : Nat) (k : κ) : Except Err γ := if lim = 0 then .error .other else P.loadGroup k

def compileFor (ck : List Nat × κ) : Except Err χ :=
  match P.loadGroup ck.2 with
  | .error e => .error e
  | .ok g => match P.build g ck.1 with
    | .error e => .error e
    | .ok t => P.compile g t

/-- decode / encode of one input with nothing remembered: tables loaded, template built, compiled when
    the coder compiles, a fresh register set walked -/
def pureFetch (lim : Nat) (c : Nat) (dir : Dir) (m : ι) : Except Err δ :=
  match P.header dir m with
  | .error e => .error e
  | .ok (k, ids) =>
    match loadVia P lim k with
    | .error e => .error e
    | .ok g =>
      match P.build g ids with
      | .error e => .error e
      | .ok t =>
        match P.cacheMax c with
        | none => (P.walk dir g t none m (P.freshRegs dir m)).2
        | some _ => match P.compile g t with
          | .error e => .error e
          | .ok x => (P.walk dir g t (some x) m (P.freshRegs dir m)).2

/-- the stage at which a decode / encode with nothing remembered fails (`none`: it succeeds) -/
def failStage (lim : Nat) (c : Nat) (dir : Dir) (m : ι) (w : Bool) : Option Stage :=
  match P.header dir m with
  | .error _ => some .header
  | .ok (k, ids) =>
    match loadVia P lim k with
    | .error _ => some .tables
    | .ok g =>
      match P.build g ids with
      | .error _ => some .build
      | .ok t =>
        let oc : Except Err (Option χ) := match P.cacheMax c with
          | none => .ok none
          | some _ => (P.compile g t).map some
        match oc with
        | .error _ => some .compile
        | .ok oc =>
          match (P.walk dir g t oc m (P.freshRegs dir m)).2 with
          | .error _ => some .data
          | .ok d => if w then (match P.wireFn d with | .error _ => some .wire | .ok _ => none) else none

/-- The output of an operation under cache limit `lim`, written without any state. -/
def pureOut (lim : Nat) : Op κ ι φ → Out δ ω
  | .proc c dir m w =>
    match pureFetch P lim c dir m with
    | .error e => .err e
    | .ok d => if w then (match P.wireFn d with | .error e => .err e | .ok _ => .data d) else .data d
  | .wire c dir m =>
    match pureFetch P lim c dir m with
    | .error e => .err e
    | .ok d => match P.wireFn d with | .error e => .err e | .ok _ => .done
  | .view _ c dir m v =>
    match pureFetch P lim c dir m with
    | .error e => .err e
    | .ok d => match P.wireFn d with
      | .error e => .err e
      | .ok ns => match (P.view v d ns P.viewerInit).2 with | .error e => .err e | .ok x => .obs x
  | .drop _ _ _ => .done
  | .dropAll => .done
  | .invalidate => .done
  | .setLimit _ => .done
  | .tables k => match loadVia P lim k with | .error e => .err e | .ok _ => .done

/-- the configuration after an operation: only `setLimit` changes it -/
def cfgAfter (lim : Nat) : Op κ ι φ → Nat
  | .setLimit n => n
  | _ => lim

/-- The specification of a whole session: every operation by `pureOut` under the limit the caller has
    set by then.  The only thing threaded through is that explicitly set configuration value. -/
def specRun (lim : Nat) : List (Op κ ι φ) → List (Out δ ω)
  | [] => []
  | op :: ops => pureOut P lim op :: specRun (cfgAfter lim op) ops

end

end Bufr.Session
