/-
  In-stream table definitions (`dataprocessor.py: BufrTableDefinitionProcessor`,
  `tables.py: load_json_files` merge order / `TableB` / `TableD` / `TableGroupCache.add_extra_entries`
  / `_fix_ncep_descriptors`).

  * `extract tmpl vals` mirrors `BufrTableDefinitionProcessor.process` on the decoded (single) subset
    of a data-category-11 message: `tmpl` is the template of the message (its three top-level
    replication nodes are what `decoded_nodes` holds after wiring), `vals` the flat decoded values.
    The code walks the values with ONE counter (`itertools.count`) and finds the replication counts
    through the wired factor nodes; both are reproduced (so is the quirk that a fixed-replication
    Table A part is NOT skipped: the counter then starts at 0).
  * `Entries` / `extend`: what `TableB.__init__` / `TableD.__init__` make of the `contents` list of
    `load_json_files` (WMO file, local file, extra entries): every source overwrites the dictionary
    entry of the ids it mentions.  `buildSrc` is the by-source (two-pass per source) member
    resolution of `TableD`: the members of a sequence defined by source `k` are resolved against the
    sources `≤ k` only.
  * `fixNcep`: `_fix_ncep_descriptors`.

  Domain notes (what is NOT modelled, the harness stays inside):
    - byte strings are decoded as ASCII; a byte ≥ 0x80 is an error here (Python: UTF-8, so a
      well-formed multi-byte sequence would be accepted);
    - a value in a string position that is not a byte string (possible only when 0-00-010..030 were
      redefined as numeric) is an error here;
    - `int()` is modelled on ASCII (sign, digits, single underscores, surrounding white space).
-/
import BufrModel.Coder.Regs
import BufrModel.Lang.PathParser
namespace Bufr.TableDef
open Bufr.PathLang (isDigit digitsVal natDigits)

/-! ### Python string helpers on `List Char` (ASCII) -/

/-- `str.isspace` on ASCII: TAB..CR, FS..US, SPACE -/
def isSpace (c : Char) : Bool :=
  (9 ≤ c.toNat && c.toNat ≤ 13) || (28 ≤ c.toNat && c.toNat ≤ 32)

def lstrip (s : List Char) : List Char := s.dropWhile isSpace
def rstrip (s : List Char) : List Char := (s.reverse.dropWhile isSpace).reverse
def strip (s : List Char) : List Char := rstrip (lstrip s)

/-- digits with single underscores between them -/
def bodyOk : List Char → Bool
  | [] => false
  | [c] => isDigit c
  | c :: d :: rest => isDigit c && (if d = '_' then bodyOk rest else bodyOk (d :: rest))

def pyIntBody (s : List Char) : Option Nat :=
  if bodyOk s then some (digitsVal (s.filter (· ≠ '_')) 0) else none

/-- `int(s)` for a `str` (base 10) -/
def pyInt (s : List Char) : Option Int :=
  match strip s with
  | [] => none
  | c :: r =>
    if c = '-' then (pyIntBody r).map fun n => -(n : Int)
    else if c = '+' then (pyIntBody r).map fun n => (n : Int)
    else (pyIntBody (c :: r)).map fun n => (n : Int)

def pyIntE (s : List Char) : CM Int :=
  match pyInt s with
  | some i => .ok i
  | none => .error .other              -- ValueError

/-- `bytes.decode()` restricted to ASCII -/
def decodeAscii : List UInt8 → CM (List Char)
  | [] => .ok []
  | b :: bs =>
    if b.toNat < 128 then
      match decodeAscii bs with
      | .ok cs => .ok (Char.ofNat b.toNat :: cs)
      | .error e => .error e
    else .error .other                 -- UnicodeDecodeError (see domain notes)

def encodeAscii (s : List Char) : List UInt8 := s.map fun c => UInt8.ofNat c.toNat

/-! ### `flat_member_ids` -/

mutual
def flatIds : List Desc → List Nat
  | [] => []
  | d :: ds => flatId1 d ++ flatIds ds
def flatId1 : Desc → List Nat
  | .seq _ ms => flatIds ms
  | .fixedRep id ms => id :: flatIds ms
  | .delayedRep id f ms => id :: f.id :: flatIds ms
  | .elem e => [e.id]
  | .undefElem i => [i]
  | .undefSeq i => [i]
  | .op i => [i]
end

/-! ### entries as the processor returns them -/

/-- value of `b_entries[key]` = `[name, unit, scale, refval, nbits, '', 0, 0]` -/
structure BEntry where
  key : List Char
  name : List Char
  unit : List Char
  scale : Int
  ref : Int
  width : Int
  deriving DecidableEq, Repr, Inhabited

/-- value of `d_entries[key]` = `[name, [member id strings]]` -/
structure DEntry where
  key : List Char
  name : List Char
  members : List (List Char)
  deriving DecidableEq, Repr, Inhabited

/-- `next_value()` for a position that is used as a `str` -/
def nextStr (vs : List Val) : CM (List Char × List Val) :=
  match vs with
  | [] => .error .other                            -- IndexError
  | .bytes b :: rest =>
    match decodeAscii b with
    | .ok s => .ok (s, rest)
    | .error e => .error e
  | _ :: _ => .error .other                        -- TypeError / AttributeError (domain notes)

/-- `next_value()` used as the argument of `range` -/
def nextCount (vs : List Val) : CM (Nat × List Val) :=
  match vs with
  | [] => .error .other
  | .int i :: rest => .ok (i.toNat, rest)          -- `range(negative)` is empty
  | _ :: _ => .error .other                        -- TypeError

def signOf (s : List Char) : Int := if strip s = ['+'] then 1 else -1

/-- `_process_table_b_one_entry` -/
def bEntry (vs : List Val) : CM (BEntry × List Val) := do
  let (f, vs) ← nextStr vs
  let (x, vs) ← nextStr vs
  let (y, vs) ← nextStr vs
  let (n1, vs) ← nextStr vs
  let (n2, vs) ← nextStr vs
  let (u, vs) ← nextStr vs
  let (ss, vs) ← nextStr vs
  let (sc, vs) ← nextStr vs
  let scale ← pyIntE (strip sc)
  let (rs, vs) ← nextStr vs
  let (rf, vs) ← nextStr vs
  let ref ← pyIntE (strip rf)
  let (w, vs) ← nextStr vs
  let width ← pyIntE (strip w)
  pure ({ key := f ++ x ++ y, name := rstrip n1 ++ rstrip n2, unit := strip u,
          scale := signOf ss * scale, ref := signOf rs * ref, width := width }, vs)

def takeStrs : Nat → List Val → CM (List (List Char) × List Val)
  | 0, vs => .ok ([], vs)
  | n + 1, vs => do
    let (s, vs) ← nextStr vs
    let (ss, vs) ← takeStrs n vs
    pure (s :: ss, vs)

/-- `_process_table_d_one_entry` -/
def dEntry (vs : List Val) : CM (DEntry × List Val) := do
  let (f, vs) ← nextStr vs
  let (x, vs) ← nextStr vs
  let (y, vs) ← nextStr vs
  let (nm, vs) ← nextStr vs
  let (n, vs) ← nextCount vs
  let (ms, vs) ← takeStrs n vs
  pure ({ key := f ++ x ++ y, name := rstrip nm, members := ms }, vs)

def repeatM {α : Type} (f : List Val → CM (α × List Val)) : Nat → List Val → CM (List α × List Val)
  | 0, vs => .ok ([], vs)
  | n + 1, vs => do
    let (a, vs) ← f vs
    let (as, vs) ← repeatM f n vs
    pure (a :: as, vs)

/-- `_get_n_repeats`: `pos` is the index of the node's factor in the decoded values -/
def nRepeats (node : Desc) (vals : List Val) (pos : Nat) : CM (Nat × Bool) :=
  match node with
  | .fixedRep id _ => .ok (yOf id, false)
  | .delayedRep _ _ _ =>
    match vals[pos]? with
    | some (.int i) => if i < 0 then .error .other else .ok (i.toNat, true)
    | _ => .error .other
  | _ => .error .other                             -- assert isinstance(...)

def membersOf : Desc → List Desc
  | .fixedRep _ ms => ms
  | .delayedRep _ _ ms => ms
  | .seq _ ms => ms
  | _ => []

def idsA : List Nat := [1, 2, 3]
def idsB : List Nat := [10, 11, 12, 13, 14, 15, 16, 17, 18, 19, 20]
def idsD : List Nat := [10, 11, 12, 205064, 101000, 31001, 30]

def skip1 (vs : List Val) : CM (List Val) :=
  match vs with
  | [] => .error .other
  | _ :: r => .ok r

/-- `BufrTableDefinitionProcessor.process` (the Table A list it returns is always empty) -/
def extract (tmpl : List Desc) (vals : List Val) : CM (List BEntry × List DEntry) :=
  match tmpl with
  | [a, b, d] => do
    -- _process_table_a_entries
    let (nA, delA) ← nRepeats a vals 0
    if flatIds (membersOf a) ≠ idsA then .error .other
    let cur := vals.drop (if delA then nA * 3 + 1 else 0)
    -- _process_table_b_entries
    let posB := (if delA then 1 else 0) + 3 * nA
    let (nB, delB) ← nRepeats b vals posB
    let cur ← (if delB then skip1 cur else pure cur)
    if flatIds (membersOf b) ≠ idsB then .error .other
    let (bs, cur) ← repeatM bEntry nB cur
    -- _process_table_d_entries
    let posD := posB + (if delB then 1 else 0) + 11 * nB
    let (nD, delD) ← nRepeats d vals posD
    let cur ← (if delD then skip1 cur else pure cur)
    if flatIds (membersOf d) ≠ idsD then .error .other
    let (ds, _) ← repeatM dEntry nD cur
    pure (bs, ds)
  | _ => .error .other                             -- assert len(decoded_nodes) == 3

/-! ### the values a definition message in the NCEP layout decodes to -/

def strVal (s : List Char) : Val := .bytes (encodeAscii s)

def padTo (n : Nat) (s : List Char) : List Char := s ++ List.replicate (n - s.length) ' '

def signStr (i : Int) : List Char := if i < 0 then ['-'] else ['+']

def bVals (e : BEntry) : List Val :=
  [ strVal (e.key.take 1), strVal ((e.key.drop 1).take 2), strVal (e.key.drop 3),
    strVal (padTo 32 (e.name.take 32)), strVal (padTo 32 (e.name.drop 32)),
    strVal (padTo 24 e.unit),
    strVal (signStr e.scale), strVal (padTo 3 (natDigits e.scale.natAbs)),
    strVal (signStr e.ref), strVal (padTo 10 (natDigits e.ref.natAbs)),
    strVal (padTo 3 (natDigits e.width.toNat)) ]

def dVals (e : DEntry) : List Val :=
  [ strVal (e.key.take 1), strVal ((e.key.drop 1).take 2), strVal (e.key.drop 3),
    strVal (padTo 64 e.name), .int e.members.length ] ++ e.members.map strVal

/-- flat decoded values of a definition message: `aVals` are the (ignored) Table A fields -/
def itemsOf (aVals : List Val) (bs : List BEntry) (ds : List DEntry) : List Val :=
  [.int (aVals.length / 3)] ++ aVals ++ [.int bs.length] ++ bs.flatMap bVals
    ++ [.int ds.length] ++ ds.flatMap dVals

def strElem (id nbytes : Nat) : Elem := { id := id, kind := .string, nbits := 8 * nbytes, scale := 0, ref := 0 }
def drf8 : Elem := { id := 31001, kind := .numeric, nbits := 8, scale := 0, ref := 0 }

def seq300003 : Desc := .seq 300003 [.elem (strElem 10 1), .elem (strElem 11 2), .elem (strElem 12 3)]

def nodeA : Desc :=
  .delayedRep 103000 (.elem drf8) [.elem (strElem 1 3), .elem (strElem 2 32), .elem (strElem 3 32)]
def nodeB : Desc :=
  .delayedRep 101000 (.elem drf8)
    [.seq 300004 [seq300003, .elem (strElem 13 32), .elem (strElem 14 32), .elem (strElem 15 24),
                  .elem (strElem 16 1), .elem (strElem 17 3), .elem (strElem 18 1),
                  .elem (strElem 19 10), .elem (strElem 20 3)]]
def nodeD : Desc :=
  .delayedRep 105000 (.elem drf8)
    [seq300003, .op 205064, .delayedRep 101000 (.elem drf8) [.elem (strElem 30 6)]]

/-- `103000 031001 000001 000002 000003 101000 031001 300004 105000 031001 300003 205064 101000
    031001 000030` built against the master table -/
def ncepTemplate : List Desc := [nodeA, nodeB, nodeD]

/-! ### merge of the sources into the lookup tables -/

/-- numeric form of the entries of one source, in dictionary order -/
structure Entries where
  b : List (Nat × Elem) := []
  d : List (Nat × List Nat) := []
  deriving Repr, Inhabited

def lookupLast {α : Type} (l : List (Nat × α)) (k : Nat) : Option α :=
  match l with
  | [] => none
  | p :: rest =>
    match lookupLast rest k with
    | some v => some v
    | none => if p.1 = k then some p.2 else none

def Entries.lookupB (es : Entries) (id : Nat) : Option Elem := lookupLast es.b id
def Entries.lookupD (es : Entries) (id : Nat) : Option (List Nat) := lookupLast es.d id

/-- `self.descriptors[id_] = ...` -/
def insertB (T : Tables) (p : Nat × Elem) : Tables :=
  { T with b := fun i => if i = p.1 then some p.2 else T.b i }
def insertD (T : Tables) (p : Nat × List Nat) : Tables :=
  { T with d := fun i => if i = p.1 then some p.2 else T.d i }

/-- one more source loaded on top of `T` (`for data in contents: for id, fields in data.items(): …`) -/
def extend (T : Tables) (es : Entries) : Tables :=
  es.d.foldl insertD (es.b.foldl insertB T)

def emptyTables : Tables := { b := fun _ => none, d := fun _ => none }

/-- tables loaded from files whose (merged) content is `F` -/
def tablesOf (F : Entries) : Tables := extend emptyTables F

/-- writing `es` into a file that holds `F`: `dict.update` -/
def Entries.append (F es : Entries) : Entries := { b := F.b ++ es.b, d := F.d ++ es.d }

def kindOfUnit (u : List Char) : Kind :=
  if u = "CCITT IA5".toList then .string
  else if u = "FLAG TABLE".toList ∨ u = "CODE TABLE".toList then .codeflag
  else .numeric

def natKey (s : List Char) : CM Nat :=
  match pyInt s with
  | some i => if i < 0 then .error .other else .ok i.toNat     -- negative ids: outside the domain
  | none => .error .other                                      -- ValueError

def BEntry.toElem (e : BEntry) (id : Nat) : Elem :=
  { id := id, kind := kindOfUnit e.unit, nbits := e.width.toNat, scale := e.scale, ref := e.ref }

/-- `int(id_string)` / `ElementDescriptor(id_, *fields)` / `int(member)` over the extracted entries.
    Duplicate keys: `dict([...])` keeps the last, which is what `lookupLast` does. -/
def toEntries (bs : List BEntry) (ds : List DEntry) : CM Entries := do
  let b ← bs.mapM fun e => do
    let id ← natKey e.key
    pure (id, e.toElem id)
  let d ← ds.mapM fun e => do
    let id ← natKey e.key
    let ms ← e.members.mapM natKey
    pure (id, ms)
  pure { b := b, d := d }

/-! ### `TableD.__init__`: by-source member resolution -/

/-- latest source with index `≤ k` (sources listed from the LAST to the first, `srcs.length = k+1`)
    that defines `id`, with its index -/
def findSrc (srcs : List (Nat → Option (List Nat))) (id : Nat) : Option (Nat × List Nat) :=
  match srcs with
  | [] => none
  | s :: older =>
    match s id with
    | some ms => some (older.length, ms)
    | none => findSrc older id

/-- `_descriptors_from_ids_iter` where a sequence defined by source `j` has its members resolved
    against the sources `0..j` only (the objects that existed when pass 2 of source `j` ran).
    `srcs` lists the sources visible at this level, the most recent first. -/
def buildSrc (b : Nat → Option Elem) (srcs : List (Nat → Option (List Nat))) (depth : Nat) (ids : List Nat) :
    Except Err (List Desc) :=
  let T : Tables := { b := b, d := fun _ => none }
  match ids with
  | [] => .ok []
  | id :: rest =>
    if 300000 ≤ id then
      match findSrc srcs id with
      | none => do
          let tl ← buildSrc b srcs depth rest
          pure (.undefSeq id :: tl)
      | some (j, ms) =>
        match depth with
        | 0 => .error .other
        | depth' + 1 => do
          let members ← buildSrc b (srcs.drop (srcs.length - (j + 1))) depth' ms
          let tl ← buildSrc b srcs (depth' + 1) rest
          pure (.seq id members :: tl)
    else if 200000 ≤ id then do
      let tl ← buildSrc b srcs depth rest
      pure (.op id :: tl)
    else if 100000 ≤ id then
      if id % 1000 = 0 then
        match rest with
        | [] => .error .other
        | f :: rest' => do
          let members ← buildSrc b srcs depth (rest'.take (xOf id))
          let tl ← buildSrc b srcs depth (rest'.drop (xOf id))
          pure (.delayedRep id (T.lookupB f) members :: tl)
      else do
        let members ← buildSrc b srcs depth (rest.take (xOf id))
        let tl ← buildSrc b srcs depth (rest.drop (xOf id))
        pure (.fixedRep id members :: tl)
    else do
      let tl ← buildSrc b srcs depth rest
      pure (T.lookupB id :: tl)
termination_by (depth, ids.length)
decreasing_by
  all_goals simp_wf
  all_goals first
    | exact Prod.Lex.left _ _ (by omega)
    | exact Prod.Lex.right _ (by omega)

/-! ### `_fix_ncep_descriptors` -/

/-- a replication descriptor without members -/
def isBareRep : Desc → Bool
  | .fixedRep _ [] => true
  | .delayedRep _ _ [] => true
  | _ => false

/-- the member list of a sequence is exactly one member-less replication -/
def bareSingle : List Desc → Option Desc
  | [r] => if isBareRep r then some r else none
  | _ => none

theorem bareSingle_eq {ms : List Desc} {r : Desc} (h : bareSingle ms = some r) : ms = [r] := by
  unfold bareSingle at h
  split at h
  · split at h
    · cases h; rfl
    · cases h
  · cases h

set_option linter.unusedVariables false in
/-- `_fix_ncep_descriptors(descriptors)`.  A sequence whose only member is a member-less
    replication is replaced by that replication; a member-less replication (it must be `101YYY`:
    the `assert n_items == 1`) takes the descriptor that follows it in the SAME list
    (`descriptors.pop(0)`: IndexError when there is none); everything is processed recursively. -/
def fixNcep (ds : List Desc) : CM (List Desc) :=
  match ds with
  | [] => .ok []
  | .seq s ms :: rest =>
    match h : bareSingle ms with
    | some r => fixNcep (r :: rest)
    | none => do
      let ms' ← fixNcep ms
      let tl ← fixNcep rest
      pure (.seq s ms' :: tl)
  | .fixedRep id ms :: rest =>
    if ms.isEmpty then
      if xOf id ≠ 1 then .error .other              -- AssertionError
      else match h : rest with
        | [] => .error .other                       -- IndexError
        | n :: rest' => do
          let ms' ← fixNcep [n]
          let tl ← fixNcep rest'
          pure (.fixedRep id ms' :: tl)
    else do
      let ms' ← fixNcep ms
      let tl ← fixNcep rest
      pure (.fixedRep id ms' :: tl)
  | .delayedRep id f ms :: rest =>
    if ms.isEmpty then
      if xOf id ≠ 1 then .error .other
      else match h : rest with
        | [] => .error .other
        | n :: rest' => do
          let ms' ← fixNcep [n]
          let tl ← fixNcep rest'
          pure (.delayedRep id f ms' :: tl)
    else do
      let ms' ← fixNcep ms
      let tl ← fixNcep rest
      pure (.delayedRep id f ms' :: tl)
  | .elem e :: rest => do
    let tl ← fixNcep rest
    pure (.elem e :: tl)
  | .undefElem i :: rest => do
    let tl ← fixNcep rest
    pure (.undefElem i :: tl)
  | .undefSeq i :: rest => do
    let tl ← fixNcep rest
    pure (.undefSeq i :: tl)
  | .op i :: rest => do
    let tl ← fixNcep rest
    pure (.op i :: tl)
termination_by sizeOf ds
decreasing_by
  all_goals simp_wf
  all_goals (try (have := bareSingle_eq h; subst this))
  all_goals (try subst h)
  all_goals (try simp)
  all_goals omega

/-- `template_from_ids`: the fix is applied iff extra entries exist -/
def templateFromIds (T : Tables) (hasExtra : Bool) (ids : List Nat) : CM (List Desc) := do
  let ms ← build T ids
  if hasExtra then fixNcep ms else pure ms

end Bufr.TableDef
