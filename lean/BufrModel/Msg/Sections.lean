/-
  Section-by-section encoding and decoding of a whole message over a layout family
  (`encoder.py: Encoder.process / process_section / process_unexpanded_descriptors`,
   `decoder.py: Decoder.process / process_section / process_unexpanded_descriptors`,
   `bufr.py: SectionConfigurer.configure_section / get_configuration / info_configuration /
             ignore_value_expectation`, `BufrSection.get_parameter_offset`).

  What is modelled
  * the writer is the list of bits written so far (`get_pos` = its length, `BITPOS_START` = the
    length when the section was opened); the reader consumes from the front and the number of bits
    consumed so far is threaded explicitly (`start`, `used`);
  * the message object's proxy properties (`setattr(bufr_message, name, parameter)` for
    `as_property` parameters) are a registry: an association list, newest entry first, holding the
    value, the declared width and the absolute bit position of the parameter (what
    `section.get_metadata(BITPOS_START) + section.get_parameter_offset(name)` evaluates to);
  * the data section content is NOT modelled here: the encoder is given the payload bits that
    `process_template_data` appends, the decoder is given a reader (`DataCoder.dec`, which sees the
    registry, i.e. n_subsets / is_compressed / unexpanded_descriptors ...).

  One deliberate restructuring: the encoder registers the `as_property` parameters of a section after
  all its parameters were written instead of one by one.  Writing a parameter never reads the
  registry (the template data is abstracted into `payload`), and a failed write aborts the whole
  encoding, so this is not observable.
-/
import BufrModel.Basic.Bits
import BufrModel.Msg.Layout
namespace Bufr

/-- value of a section parameter (JSON input of the encoder / decoded value) -/
inductive PVal where
  | int (v : Int)            -- `uint` and `int` parameters
  | bool (b : Bool)
  | bin (bs : Bits)          -- string of '0'/'1'
  | bytes (b : List UInt8)
  | descs (ids : List Nat)   -- unexpanded descriptors
  | data                     -- the template data (content kept outside, see `DataCoder`)
  deriving DecidableEq, Repr, Inhabited

/-- Python truthiness of `parameter.value` (used for `is_sectionK_presents`) -/
def PVal.truthy : PVal → Bool
  | .int v => v != 0 | .bool b => b | .bin bs => !bs.isEmpty | .bytes b => !b.isEmpty
  | .descs ids => !ids.isEmpty | .data => true

/-- `edition.value or DEFAULT_SECTION_EDITION` as a key of `configurations[index]` -/
def PVal.editionKey : PVal → Nat
  | .int v => v.toNat
  | _ => 0

structure PropEntry where
  val : PVal
  nbits : Nat
  pos : Nat
  deriving DecidableEq, Repr, Inhabited

abbrev Registry := List (String × PropEntry)

def Registry.get? (r : Registry) (n : String) : Option PropEntry := r.lookup n

/-- `BufrMessage.__init__`: two parameters exist before anything is decoded -/
def Registry.init : Registry :=
  [("master_table_number", { val := .int 0, nbits := 0, pos := 0 }),
   ("originating_subcentre", { val := .int 0, nbits := 0, pos := 0 })]

def Registry.editionKey (r : Registry) : Nat :=
  match r.get? "edition" with
  | none => 0
  | some e => e.val.editionKey

/-- `SectionConfigurer.get_configuration`: `section_configs.get(edition, section_configs[DEFAULT])`
    (the default entry is looked up eagerly: a missing one is a KeyError) -/
def getCfg (L : Layouts) (idx ed : Nat) : Except Err SectionLayout :=
  match L.find? (fun e => e.index == idx && e.edition == 0) with
  | none => .error .other
  | some d =>
    match L.find? (fun e => e.index == idx && e.edition == ed) with
    | some e => .ok e.layout
    | none => .ok d.layout

def presName (idx : Nat) : String := "is_section" ++ toString idx ++ "_presents"

/-- `not section.optional or getattr(bufr_message, 'is_section{}_presents').value` -/
def isPresent (r : Registry) (s : SectionLayout) (idx : Nat) : Except Err Bool :=
  if !s.optional then .ok true
  else match r.get? (presName idx) with
    | none => .error .other
    | some e => .ok e.val.truthy

/-- `ignore_value_expectation` -/
def SectionLayout.noExpect (s : SectionLayout) : SectionLayout :=
  { s with params := s.params.map fun p => { p with expected := none } }

/-- register the `as_property` parameters of a section (later parameters shadow earlier ones) -/
def register (reg : Registry) (start : Nat) : (off : Nat) → List Param → List PVal → Registry
  | off, p :: ps, v :: vs =>
    register (if p.asProperty then (p.name, { val := v, nbits := p.nbits, pos := start + off }) :: reg else reg)
      start (off + p.nbits) ps vs
  | _, _, _ => reg

/-- value supplied for the parameter called `n` -/
def valOf : List Param → List PVal → String → Option PVal
  | p :: ps, v :: vs, n => if p.name == n then some v else valOf ps vs n
  | _, _, _ => none

def paramOf (ps : List Param) (n : String) : Option Param := ps.find? (·.name == n)

/-! ## Encoder -/

structure EncCfg where
  ignoreDeclared : Bool := true
  deriving Repr, DecidableEq

/-- one descriptor id as F (2 bits), X (6 bits), Y (8 bits) -/
def encDescs (w : Bits) : List Nat → Except Err Bits
  | [] => .ok w
  | id :: ids =>
    match writeUInt w (Int.ofNat (id / 100000)) 2 with
    | .error e => .error e
    | .ok w1 => match writeUInt w1 (Int.ofNat (id / 1000 % 100)) 6 with
      | .error e => .error e
      | .ok w2 => match writeUInt w2 (Int.ofNat (id % 1000)) 8 with
        | .error e => .error e
        | .ok w3 => encDescs w3 ids

/-- `bit_writer.write(value, type, nbits)` and the two special parameter types; a value of the wrong
    Python type is outside the modelled domain (`other`) -/
def encParam (w : Bits) (p : Param) (v : PVal) (payload : Bits) : Except Err Bits :=
  match p.ty, v with
  | .descriptors, .descs ids => encDescs w ids
  | .templateData, _ => .ok (w ++ payload)
  | .uint, .int x => writeUInt w x p.nbits
  | .int, .int x => writeInt w x p.nbits
  | .bool, .bool b => .ok (writeBool w b)
  | .bin, .bin bs => .ok (writeBin w bs)           -- the length comes from the value, not from nbits
  | .bytes, .bytes b => .ok (writeBytes w b (some (p.nbits / 8)))
  | _, _ => .error .other

def encParams (payload : Bits) : List Param → List PVal → Bits → Except Err Bits
  | [], _, w => .ok w
  | _ :: _, [], _ => .error .other
  | p :: ps, v :: vs, w =>
    match encParam w p v payload with
    | .error e => .error e
    | .ok w1 => encParams payload ps vs w1

/-- number of zero bits appended to a section of `n` bits (`process_section`) -/
def padBits (edition : Int) (n : Nat) : Nat :=
  if edition ≤ 3 then
    if n / 8 % 2 != 0 then 8 - n % 8
    else if n % 8 = 0 then 0 else 16 - n % 8
  else if n % 8 = 0 then 0 else 8 - n % 8

/-- the `if 'section_length' in section:` block; `w` is the writer after padding -/
def closeSection (cfg : EncCfg) (s : SectionLayout) (vs : List PVal) (start : Nat) (w : Bits) : Except Err Bits :=
  match paramOf s.params "section_length", valOf s.params vs "section_length", s.offsetOf "section_length" with
  | some p, some (.int d), some off =>
    let nbits := w.length - start
    if d == 0 || cfg.ignoreDeclared then setUInt w (nbits / 8) p.nbits (start + off)
    else
      let unwrite : Int := d * 8 - Int.ofNat nbits
      if 0 < unwrite then skip w unwrite.toNat
      else if unwrite < 0 then .error .lib
      else .ok w
  | some _, _, _ => .error .other
  | none, _, _ => .ok w

def encSection (cfg : EncCfg) (s : SectionLayout) (vs : List PVal) (payload : Bits) (reg : Registry)
    (w : Bits) : Except Err (Registry × Bits) :=
  if s.params.length != vs.length then .error .other
  else
    let start := w.length
    match encParams payload s.params vs w with
    | .error e => .error e
    | .ok w1 =>
      let reg1 := register reg start 0 s.params vs
      match reg1.get? "edition" with
      | some { val := .int ed, .. } =>
        let w2 := w1 ++ zeros (padBits ed (w1.length - start))
        match closeSection cfg s vs start w2 with
        | .error e => .error e
        | .ok w3 => .ok (reg1, w3)
      | _ => .error .other

/-- the `while True` loop of `Encoder.process`; `fuel` only makes the recursion structural: every
    round uses a different section index and an index without a layout is a KeyError.
    Returns the registry, the bits and `(index, nbits)` per section written. -/
def encLoop (L : Layouts) (cfg : EncCfg) (payload : Bits) :
    Nat → Nat → List (List PVal) → Registry → Bits → List (Nat × Nat) →
      Except Err (Registry × Bits × List (Nat × Nat))
  | 0, _, _, _, _, _ => .error .other
  | fuel + 1, idx, vals, reg, w, tr =>
    match vals with
    | [] => .error .other                         -- json_data[section_index - index_offset]
    | vs :: rest =>
      match getCfg L idx reg.editionKey with
      | .error e => .error e
      | .ok s =>
        match isPresent reg s idx with
        | .error e => .error e
        | .ok false => encLoop L cfg payload fuel (idx + 1) vals reg w tr
        | .ok true =>
          match encSection cfg s vs payload reg w with
          | .error e => .error e
          | .ok (reg1, w1) =>
            let tr1 := tr ++ [(s.index, w1.length - w.length)]
            if s.endOfMessage then .ok (reg1, w1, tr1)
            else encLoop L cfg payload fuel (idx + 1) rest reg1 w1 tr1

/-- the total-length block at the end of `Encoder.process` -/
def patchTotal (cfg : EncCfg) (reg : Registry) (w : Bits) : Except Err Bits :=
  match reg.get? "length" with
  | some { val := .int v, nbits := n, pos := pos } =>
    if v == 0 || cfg.ignoreDeclared then setUInt w (w.length / 8) n pos
    else if v != Int.ofNat (w.length / 8) then .error .lib
    else .ok w
  | _ => .error .other

structure Encoded where
  bytes : List UInt8
  trace : List (Nat × Nat)
  deriving Repr, DecidableEq

def encodeBits (L : Layouts) (cfg : EncCfg) (vals : List (List PVal)) (payload : Bits) :
    Except Err (Bits × List (Nat × Nat)) :=
  match encLoop L cfg payload (L.length + 1) 0 vals Registry.init [] [] with
  | .error e => .error e
  | .ok (reg, w, tr) =>
    match patchTotal cfg reg w with
    | .error e => .error e
    | .ok w' => if w'.length % 8 != 0 then .error .other else .ok (w', tr)   -- `bit_stream.bytes`

def encode (L : Layouts) (cfg : EncCfg) (vals : List (List PVal)) (payload : Bits) : Except Err Encoded :=
  match encodeBits L cfg vals payload with
  | .error e => .error e
  | .ok (w, tr) => .ok { bytes := bitsToBytes w, trace := tr }

/-! ## Decoder -/

-- the reader combinators `R.pure`, `R.bind`, … are in Basic/Bits.lean

/-- the data section content, as seen by the section coder -/
structure DataCoder (α : Type) where
  dec : Registry → R α

structure DecOpts where
  infoOnly : Bool := false
  ignoreExpect : Bool := false
  deriving Repr, DecidableEq

structure DecSection where
  index : Nat
  params : List (String × PVal)
  nbits : Nat
  deriving Repr, DecidableEq, Inhabited

structure DecSt (α : Type) where
  reg : Registry
  acc : List (String × PVal)
  used : Nat
  data : Option α

/-- `section.section_length.value` during the decoding of the section -/
def secLen (acc : List (String × PVal)) : Except Err Nat :=
  match acc.lookup "section_length" with
  | some (.int v) => .ok v.toNat
  | _ => .error .other

def readDescs : Nat → R (List Nat)
  | 0 => R.pure []
  | n + 1 =>
    R.bind (readUInt 2) fun f => R.bind (readUInt 6) fun x => R.bind (readUInt 8) fun y =>
      R.map (fun tl => (f * 100000 + x * 1000 + y) :: tl) (readDescs n)

/-- `bit_reader.read(type, nbits)` -/
def readTyped (ty : PType) (n : Nat) : R PVal :=
  match ty with
  | .uint => R.map (fun v => PVal.int (Int.ofNat v)) (readUInt n)
  | .int => R.map PVal.int (readInt n)
  | .bool => R.map PVal.bool readBool
  | .bin => R.map PVal.bin (readBin n)
  | .bytes => R.map PVal.bytes (readBytes (n / 8))
  | _ => R.fail .other

def decValue {α : Type} (dc : DataCoder α) (st : DecSt α) (p : Param) : R (PVal × Option α) :=
  match p.ty with
  | .descriptors =>
    R.bind (R.lift (secLen st.acc)) fun d =>
      R.map (fun ids => (PVal.descs ids, none)) (readDescs ((d - st.used / 8) / 2))
  | .templateData => R.map (fun a => (PVal.data, some a)) (dc.dec st.reg)
  | ty =>
    if p.nbits = 0 then
      if ty = .bool then R.map (fun v => (v, none)) (readTyped ty 0)
      else R.bind (R.lift (secLen st.acc)) fun d =>
        if d * 8 < st.used then R.fail .other                      -- negative width: ValueError
        else R.map (fun v => (v, none)) (readTyped ty (d * 8 - st.used))
    else R.map (fun v => (v, none)) (readTyped ty p.nbits)

/-- `assert parameter.value == parameter.expected` (an AssertionError, not a library error) -/
def checkExpected (p : Param) (v : PVal) : Except Err Unit :=
  match p.expected with
  | none => .ok ()
  | some e => if v = .bytes e then .ok () else .error .other

def decParams {α : Type} (dc : DataCoder α) (start : Nat) : List Param → Nat → DecSt α → R (DecSt α)
  | [], _, st => R.pure st
  | p :: ps, off, st =>
    R.bind (R.counted (decValue dc st p)) fun ((v, d), n) =>
      R.bind (R.lift (checkExpected p v)) fun _ =>
        decParams dc start ps (off + p.nbits)
          { reg := if p.asProperty then (p.name, { val := v, nbits := p.nbits, pos := start + off }) :: st.reg
                   else st.reg,
            acc := st.acc ++ [(p.name, v)],
            used := st.used + n,
            data := match d with | some a => some a | none => st.data }

/-- the tail of `Decoder.process_section`: skip to the declared end, or report the overrun -/
def finishSection {α : Type} (s : SectionLayout) (st : DecSt α) : R (DecSection × Registry × Option α) :=
  if s.hasParam "section_length" then
    R.bind (R.lift (secLen st.acc)) fun d =>
      if st.used < d * 8 then
        R.map (fun _ => ({ index := s.index, params := st.acc, nbits := d * 8 }, st.reg, st.data))
          (readBin (d * 8 - st.used))
      else if d * 8 < st.used then R.fail .lib
      else R.pure ({ index := s.index, params := st.acc, nbits := st.used }, st.reg, st.data)
  else R.pure ({ index := s.index, params := st.acc, nbits := st.used }, st.reg, st.data)

def decSection {α : Type} (dc : DataCoder α) (s : SectionLayout) (reg : Registry) (start : Nat) :
    R (DecSection × Registry × Option α) :=
  R.bind (decParams dc start s.params 0 { reg := reg, acc := [], used := 0, data := none })
    (finishSection s)

/-- configuration transformers of `Decoder.process` -/
def DecOpts.transform (o : DecOpts) (s : SectionLayout) : SectionLayout :=
  let s1 := if o.infoOnly then s.infoOnly else s
  if o.ignoreExpect then s1.noExpect else s1

structure DecOut (α : Type) where
  sections : List DecSection
  data : Option α
  nbits : Nat

def decLoop {α : Type} (L : Layouts) (dc : DataCoder α) (o : DecOpts) :
    Nat → Nat → Registry → DecOut α → R (DecOut α)
  | 0, _, _, _ => R.fail .other
  | fuel + 1, idx, reg, out =>
    R.bind (R.lift (getCfg L idx reg.editionKey)) fun s0 =>
      let s := o.transform s0
      R.bind (R.lift (isPresent reg s idx)) fun present =>
        if !present then decLoop L dc o fuel (idx + 1) reg out
        else
          R.bind (decSection dc s reg out.nbits) fun (sec, reg1, d) =>
            let out1 : DecOut α :=
              { sections := out.sections ++ [sec],
                data := (match d with | some a => some a | none => out.data),
                nbits := out.nbits + sec.nbits }
            if s.endOfMessage then R.pure out1
            else decLoop L dc o fuel (idx + 1) reg1 out1

/-- the sections of one message, read from the front of a bit stream -/
def decodeBits {α : Type} (L : Layouts) (dc : DataCoder α) (o : DecOpts) : R (DecOut α) :=
  decLoop L dc o (L.length + 1) 0 Registry.init { sections := [], data := none, nbits := 0 }

def startSig : List UInt8 := [66, 85, 70, 82]

/-- `s[s.find(sig):]`, `none` when the signature does not occur -/
def findFrom (sig : List UInt8) : List UInt8 → Option (List UInt8)
  | [] => if sig.isEmpty then some [] else none
  | b :: bs => if sig.isPrefixOf (b :: bs) then some (b :: bs) else findFrom sig bs

structure DecMsg (α : Type) where
  sections : List DecSection
  data : Option α
  nbits : Nat
  serialized : List UInt8

/-- `Decoder.process` (without wiring) -/
def decode {α : Type} (L : Layouts) (dc : DataCoder α) (o : DecOpts) (bytes : List UInt8) :
    Except Err (DecMsg α) :=
  match findFrom startSig bytes with
  | none => .error .lib
  | some s =>
    match decodeBits L dc o (bytesToBits s) with
    | .error e => .error e
    | .ok (out, _) =>
      .ok { sections := out.sections, data := out.data, nbits := out.nbits,
            serialized := s.take (out.nbits / 8) }

/-- the trivial data coder of the driver: the data are the next `n` bits, uninterpreted -/
def rawCoder (n : Nat) : DataCoder Bits := { dec := fun _ => readBits n }

end Bufr
