/-
  Section layouts (`pybufrkit/definitions/section*.json`, `bufr.py: SectionConfigurer`).
  The concrete layouts are NOT written here: `Gen/Layouts.lean` is regenerated from
  /repo/pybufrkit/definitions on every run by `harness/gen_layouts.py`.
-/
import BufrModel.Basic.Bits
namespace Bufr

inductive PType where
  | uint | int | bool | bin | bytes | descriptors | templateData
  deriving DecidableEq, Repr, Inhabited

structure Param where
  name : String
  nbits : Nat
  ty : PType
  expected : Option (List UInt8) := none
  asProperty : Bool := false
  deriving DecidableEq, Repr, Inhabited

structure SectionLayout where
  index : Nat
  optional : Bool := false
  endOfMessage : Bool := false
  params : List Param
  deriving DecidableEq, Repr, Inhabited

/-- `configurations[index][edition]`; edition key 0 is the default entry. -/
structure LayoutEntry where
  index : Nat
  edition : Nat
  layout : SectionLayout
  deriving DecidableEq, Repr, Inhabited

abbrev Layouts := List LayoutEntry

/-- `SectionConfigurer.get_configuration`: the entry for the edition, else the default one. -/
def Layouts.get (L : Layouts) (index edition : Nat) : Option SectionLayout :=
  match L.find? (fun e => e.index == index && e.edition == edition) with
  | some e => some e.layout
  | none => (L.find? (fun e => e.index == index && e.edition == 0)).map (·.layout)

def SectionLayout.hasParam (s : SectionLayout) (n : String) : Bool := s.params.any (·.name == n)

/-- `get_parameter_offset`: sum of the widths of the parameters before `n`. -/
def SectionLayout.offsetOf (s : SectionLayout) (n : String) : Option Nat :=
  let rec go : List Param → Nat → Option Nat
    | [], _ => none
    | p :: ps, acc => if p.name == n then some acc else go ps (acc + p.nbits)
  go s.params 0

/-- `info_configuration`: cut the layout at the template-data parameter and make it final. -/
def SectionLayout.infoOnly (s : SectionLayout) : SectionLayout :=
  if s.params.any (·.ty == .templateData) then
    { s with endOfMessage := true, params := s.params.takeWhile (·.ty != .templateData) }
  else s

/-- widths agree with what the reader/writer of the type does -/
def Param.widthOK (p : Param) : Bool :=
  match p.ty with
  | .uint => true
  | .int => p.nbits == 0 || 2 ≤ p.nbits
  | .bool => p.nbits == 1
  | .bin => true
  | .bytes => p.nbits % 8 == 0
  | .descriptors => p.nbits == 0
  | .templateData => p.nbits == 0

/-- a zero width ("rest of the section") only for the last parameter; at least one parameter -/
def SectionLayout.zeroLast (s : SectionLayout) : Bool :=
  match s.params.reverse with
  | [] => false
  | _ :: initRev => initRev.all (fun p => p.nbits != 0)

/-- the section length, when present, comes first and is 24 bits unsigned -/
def SectionLayout.lenFirst (s : SectionLayout) : Bool :=
  !s.hasParam "section_length" ||
    (match s.params with
     | p :: _ => p.name == "section_length" && p.nbits == 24 && p.ty == .uint
     | [] => false)

/-- expected values are bytes of exactly the parameter's width -/
def SectionLayout.expectedOK (s : SectionLayout) : Bool :=
  s.params.all (fun p => match p.expected with
    | none => true
    | some e => p.ty == .bytes && 8 * e.length == p.nbits)

/-- well-formedness of one layout, as the framing theorems need it -/
def SectionLayout.WF (s : SectionLayout) : Bool :=
  (s.params.map (·.name)).Nodup
  && s.params.all Param.widthOK
  && s.zeroLast
  -- a zero width needs a section length to be measured against
  && (s.params.all (fun p => p.nbits != 0) || s.hasParam "section_length")
  && s.lenFirst
  && s.expectedOK

/-- family level: section 0 (always configured with the default entry) starts with a 4-octet signature
    followed by the 24-bit total `length`, has no section length, is not optional; no other parameter
    of the family is registered under the name `length`; a final section is a lone 4-octet signature. -/
def Layouts.sec0OK (L : Layouts) : Bool :=
  match L.find? (fun e => e.index == 0 && e.edition == 0) with
  | none => false
  | some e0 =>
    !e0.layout.optional && !e0.layout.hasParam "section_length" &&
    (match e0.layout.params with
     | p0 :: p1 :: _ =>
       p0.ty == .bytes && p0.nbits == 32 && p0.expected.isSome &&
       p1.name == "length" && p1.ty == .uint && p1.nbits == 24 && p1.asProperty
     | _ => false)

def Layouts.lengthOnce (L : Layouts) : Bool :=
  L.all fun e => e.index == 0 || e.layout.params.all fun p => !(p.name == "length" && p.asProperty)

def Layouts.endOK (L : Layouts) : Bool :=
  L.all fun e => !e.layout.endOfMessage ||
    (match e.layout.params with
     | [p] => p.ty == .bytes && p.nbits == 32 && p.expected.isSome
     | _ => false)

def Layouts.WF (L : Layouts) : Bool :=
  L.all (fun e => e.layout.WF) && L.sec0OK && L.lengthOnce && L.endOK

end Bufr
