/-
  Section layouts (`pybufrkit/definitions/section*.json`, `bufr.py: SectionConfigurer`).
  The concrete layouts are NOT written here: `Gen/Layouts.lean` is regenerated from
  /repo/pybufrkit/definitions on every run by `harness/gen_layouts.py`.
-/
import BufrModel.Basic.Bits
namespace Bufr

inductive PType where
  | uint | int | bool | bin | bytes | descriptors | templateData
  deriving DecidableEq, Repr, Inhabited

structure Param where
  name : String
  nbits : Nat
  ty : PType
  expected : Option (List UInt8) := none
  asProperty : Bool := false
  deriving DecidableEq, Repr, Inhabited

structure SectionLayout where
  index : Nat
  optional : Bool := false
  endOfMessage : Bool := false
  params : List Param
  deriving DecidableEq, Repr, Inhabited

/-- `configurations[index][edition]`; edition key 0 is the default entry. -/
structure LayoutEntry where
  index : Nat
  edition : Nat
  layout : SectionLayout
  deriving DecidableEq, Repr, Inhabited

abbrev Layouts := List LayoutEntry

/-- `SectionConfigurer.get_configuration`: the entry for the edition, else the default one. -/
def Layouts.get (L : Layouts) (index edition : Nat) : Option SectionLayout :=
  match L.find? (fun e => e.index == index && e.edition == edition) with
  | some e => some e.layout
  | none => (L.find? (fun e => e.index == index && e.edition == 0)).map (·.layout)

def SectionLayout.hasParam (s : SectionLayout) (n : String) : Bool := s.params.any (·.name == n)

/-- `get_parameter_offset`: sum of the widths of the parameters before `n`. -/
def SectionLayout.offsetOf (s : SectionLayout) (n : String) : Option Nat :=
  let rec go : List Param → Nat → Option Nat
    | [], _ => none
    | p :: ps, acc => if p.name == n then some acc else go ps (acc + p.nbits)
  go s.params 0

/-- `info_configuration`: cut the layout at the template-data parameter and make it final. -/
def SectionLayout.infoOnly (s : SectionLayout) : SectionLayout :=
  if s.params.any (·.ty == .templateData) then
    { s with endOfMessage := true, params := s.params.takeWhile (·.ty != .templateData) }
  else s

/-- well-formedness of one layout, as the framing theorems need it -/
def SectionLayout.WF (s : SectionLayout) : Bool :=
  -- names are unique
  (s.params.map (·.name)).Nodup
  -- bytes parameters are whole octets
  && s.params.all (fun p => p.ty != .bytes || p.nbits % 8 == 0)
  -- a zero width ("rest of section") is allowed only for the last parameter and needs a section length
  && (match s.params.reverse with
      | [] => false
      | _ :: initRev => initRev.all (fun p => p.nbits != 0))
  && (s.params.all (fun p => p.nbits != 0) || s.hasParam "section_length")
  -- the section length, when present, comes first and is 24 bits unsigned
  && (!s.hasParam "section_length" ||
        (match s.params with | p :: _ => p.name == "section_length" && p.nbits == 24 && p.ty == .uint | [] => false))
  -- expected values fit their width
  && s.params.all (fun p => match p.expected with | none => true | some e => p.ty == .bytes && 8 * e.length == p.nbits)

end Bufr
