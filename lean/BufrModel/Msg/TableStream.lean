/-
  A stream of messages with in-stream table definitions (property C20), i.e. the loop of
  `decoder.py: generate_bufr_message` (no filter expression, `info_only=False`, `continue_on_error=False`)
  around `Decoder.process`, together with the process-global state it drives:

      bufr_message = decoder.process(s[idx_start:], ...)
      if data_category == 11 and n_subsets > 0:
          _, b_entries, d_entries = BufrTableDefinitionProcessor().process(bufr_message)
          TableGroupCacheManager.invalidate()
          TableGroupCacheManager.add_extra_entries(b_entries, d_entries)
      yield bufr_message

  Two descriptions of the same loop:

  * `specRun` — the SPECIFICATION.  No cache at all: the only state is the list of in-stream entries
    seen so far (`Entries`, later entry of an id wins: `dict.update`); every message is decoded against
    `extend (files key) entries` — the tables of its table group as the table files give them, extended
    by all definitions that precede the message in the stream.
  * `implRun` — the IMPLEMENTATION's plumbing: `TableGroupCache._groups` (a memo table of loaded table
    groups, filled through `TableGroupCache.get` = `Cache.tableGet` with its `popitem` eviction, cleared
    by `invalidate`), `extra_b_entries / extra_d_entries`, `extra_entries_generation`, and the decoder's
    `CompiledTemplateManager.cache` (`Cache.compiledGet`) keyed by
    `(unexpanded descriptors, table group key, generation)`.

  The coder itself (sections, template construction incl. the NCEP repair, compilation, the data
  section) is a record of pure functions (`StreamParams`); the driver instantiates it with the coder
  model (`Drv/TableDefOp.lean: tabledef-stream`).

  An exception leaves the generator: the outputs end with the error (a failing
  `BufrTableDefinitionProcessor.process` happens BEFORE the `yield`, so the definition message itself
  is not delivered).

  Assumption (also of `Msg/Cache.lean`): the table files do not change while the stream is read and
  can be read (`files` is a total function of the table group key; `normalize_tables_sn` has already
  replaced unavailable versions when the key is formed).
-/
import BufrModel.Msg.TableDef
import BufrModel.Msg.Cache
namespace Bufr.TableDef
open Bufr.Cache (Dict tableGet compiledGet)

/-- `TableGroupCache.has_extra_entries`: `extra_b_entries or extra_d_entries` -/
def hasExtra (es : Entries) : Bool := !(es.b.isEmpty && es.d.isEmpty)

/-- The pure functions around which the stream loop is written.
    `κ` table group key, `μ` message (bytes), `ρ` decoded message, `τ` template, `χ` compiled template. -/
structure StreamParams (κ μ ρ τ χ : Type) where
  /-- `tables.MAXIMUM_NUMBER_OF_CACHED_TABLE_GROUPS` -/
  limit : Nat
  /-- `Decoder(compiled_template_cache_max=…)`; `none`: templates are not compiled -/
  cacheMax : Option Nat
  /-- sections 0-3: table group key and unexpanded descriptors (fails on a damaged head) -/
  header : μ → Except Err (κ × List Nat)
  /-- content of the table files of a group (WMO file, then local file) -/
  files : κ → Tables
  /-- `table_group.template_from_ids`; the flag is `has_extra_entries()` (gate of the NCEP repair) -/
  template : Tables → Bool → List Nat → Except Err τ
  /-- `TemplateCompiler.process(template, table_group)` -/
  compile : Tables → τ → Except Err χ
  /-- sections 4-5 with a NEW `CoderState` -/
  process : Tables → τ → Option χ → μ → Except Err ρ
  /-- `none` unless the message is a table definition message with at least one subset; then the
      result of `BufrTableDefinitionProcessor.process` in numeric form -/
  defs : μ → ρ → Option (Except Err Entries)

section
variable {κ μ ρ τ χ : Type} [DecidableEq κ] (P : StreamParams κ μ ρ τ χ)

/-! ### specification -/

/-- a message decoded with the tables `extend (files key) es`; nothing is remembered -/
def specDecode (es : Entries) (m : μ) : Except Err ρ :=
  match P.header m with
  | .error e => .error e
  | .ok (k, ids) =>
    match P.template (extend (P.files k) es) (hasExtra es) ids with
    | .error e => .error e
    | .ok t =>
      match P.cacheMax with
      | none => P.process (extend (P.files k) es) t none m
      | some _ =>
        match P.compile (extend (P.files k) es) t with
        | .error e => .error e
        | .ok c => P.process (extend (P.files k) es) t (some c) m

/-- the entries in force after message `m` (decoded to `r`) when they were `es` before it -/
def entriesAfter (es : Entries) (m : μ) (r : ρ) : Except Err Entries :=
  match P.defs m r with
  | none => .ok es
  | some (.error e) => .error e
  | some (.ok d) => .ok (es.append d)

def specRun : Entries → List μ → List (Except Err ρ)
  | _, [] => []
  | es, m :: ms =>
    match specDecode P es m with
    | .error e => [.error e]
    | .ok r =>
      match entriesAfter P es m r with
      | .error e => [.error e]
      | .ok es' => .ok r :: specRun es' ms

/-- the entries in force at position `i` of the stream: all definitions of the messages before it,
    in stream order (the stream stops at the first error; nothing changes after that) -/
def entriesAt : Entries → List μ → Nat → Entries
  | es, _, 0 => es
  | es, [], _ + 1 => es
  | es, m :: ms, i + 1 =>
    match specDecode P es m with
    | .error _ => es
    | .ok r =>
      match entriesAfter P es m r with
      | .error _ => es
      | .ok es' => entriesAt es' ms i

/-! ### the implementation's state -/

/-- process-global `TableGroupCache` plus the compiled-template cache of the one decoder object that
    `generate_bufr_message` uses -/
structure SState (κ χ : Type) where
  /-- `TableGroupCache._groups` -/
  groups : Dict κ Tables := []
  /-- `extra_b_entries`, `extra_d_entries` -/
  extras : Entries := {}
  /-- `extra_entries_generation` -/
  gen : Nat := 0
  /-- `decoder.compiled_template_manager.cache` -/
  compiled : Dict (List Nat × κ × Nat) χ := []

/-- `TableB(key, extra_b_entries)`, `TableD(b, c, r, key, extra_d_entries)` -/
def loadGroup (es : Entries) (k : κ) : Except Err Tables := .ok (extend (P.files k) es)

/-- `Decoder.process` -/
def implDecode (s : SState κ χ) (m : μ) : SState κ χ × Except Err ρ :=
  match P.header m with
  | .error e => (s, .error e)
  | .ok (k, ids) =>
    let r1 := tableGet P.limit (loadGroup P s.extras) s.groups k
    match r1.2 with
    | .error e => ({ s with groups := r1.1 }, .error e)
    | .ok g =>
      match P.template g (hasExtra s.extras) ids with
      | .error e => ({ s with groups := r1.1 }, .error e)
      | .ok t =>
        match P.cacheMax with
        | none => ({ s with groups := r1.1 }, P.process g t none m)
        | some mx =>
          let r2 := compiledGet mx (P.compile g t) s.compiled (ids, k, s.gen)
          match r2.2 with
          | .error e => ({ s with groups := r1.1, compiled := r2.1 }, .error e)
          | .ok c => ({ s with groups := r1.1, compiled := r2.1 }, P.process g t (some c) m)

/-- `TableGroupCacheManager.invalidate(); TableGroupCacheManager.add_extra_entries(b, d)` -/
def SState.define (s : SState κ χ) (d : Entries) : SState κ χ :=
  { s with groups := [], extras := s.extras.append d, gen := s.gen + 1 }

/-- `generate_bufr_message` -/
def implRun : SState κ χ → List μ → List (Except Err ρ)
  | _, [] => []
  | s, m :: ms =>
    match (implDecode P s m).2 with
    | .error e => [.error e]
    | .ok r =>
      match P.defs m r with
      | none => .ok r :: implRun (implDecode P s m).1 ms
      | some (.error e) => [.error e]
      | some (.ok d) => .ok r :: implRun ((implDecode P s m).1.define d) ms

/-! ### a cache that is NOT refreshed on redefinitions (for contrast; not what the code does)

    `add_extra_entries` that drops the loaded table groups (and advances the generation) only when the
    NUMBER of extra entries grew.  `Props/C20Stream.lean` shows a stream on which this differs from
    the specification. -/

def entryCount (es : Entries) : Nat :=
  (es.b.map (·.1)).eraseDups.length + (es.d.map (·.1)).eraseDups.length

def SState.defineIfGrown (s : SState κ χ) (d : Entries) : SState κ χ :=
  if entryCount (s.extras.append d) = entryCount s.extras then { s with extras := s.extras.append d }
  else s.define d

def lazyRun : SState κ χ → List μ → List (Except Err ρ)
  | _, [] => []
  | s, m :: ms =>
    match (implDecode P s m).2 with
    | .error e => [.error e]
    | .ok r =>
      match P.defs m r with
      | none => .ok r :: lazyRun (implDecode P s m).1 ms
      | some (.error e) => [.error e]
      | some (.ok d) => .ok r :: lazyRun ((implDecode P s m).1.defineIfGrown d) ms

end
end Bufr.TableDef
