/-
  Values, decoded-descriptor labels and the coder state (`coder.py: CoderState`).

  Registers that can never influence an observable result are not modelled:
  `bitmap` / `most_recent_bitmap_is_for_reuse` (written by 236000 / 237255, read only to be
  returned by `recall_bitmap`, whose result is discarded).
-/
import BufrModel.Basic.Desc
namespace Bufr

/-- A decoded / to-be-encoded value.  `num m s` is the exact decimal `m · 10^(-s)` (`s ≠ 0`);
    the implementation holds the IEEE double nearest to it (DESIGN 4.3). -/
inductive Val where
  | missing
  | int (i : Int)
  | num (m : Int) (scale : Int)
  | bytes (b : List UInt8)
  deriving DecidableEq, Repr, Inhabited

/-- An entry of `decoded_descriptors`: what kind of (pseudo) descriptor produced the value. -/
inductive DDesc where
  | plain (e : Elem)                    -- ElementDescriptor            "0XXYYY"
  | assoc (id nbits : Nat)              -- AssociatedDescriptor         "A....."
  | skipped (id nbits : Nat)            -- SkippedLocalDescriptor       "S....."
  | marker (opId : Nat) (e : Elem)      -- MarkerDescriptor             "T/F/D/R....."
  | oper (id : Nat)                     -- OperatorDescriptor (205YYY, 22X000, 236000, 237xxx)
  deriving DecidableEq, Repr, Inhabited

inductive QaStatus where | na | waiting | processing
  deriving DecidableEq, Repr, Inhabited

inductive BitmapDef where | na | indicator | waiting | counting
  deriving DecidableEq, Repr, Inhabited

structure Regs where
  nbitsOffset : Int := 0                          -- 201
  scaleOffset : Int := 0                          -- 202
  nbitsNewRefval : Nat := 0                       -- 203
  newRefvals : List (Nat × Int) := []             -- 203: id ↦ value (most recent first)
  assocStack : List Nat := []                     -- 204 (top = last)
  nbitsSkipped : Nat := 0                         -- 206
  y207 : Nat := 0                                 -- 207: bsr_modifier = ((10Y+2)/3, Y, 10^Y)
  newNbytes : Nat := 0                            -- 208
  dnpCount : Nat := 0                             -- 221
  qa : QaStatus := .na                            -- 222
  bitmapDef : BitmapDef := .na
  n031031 : Nat := 0
  bitmapped : Option (List (Nat × Elem)) := none  -- bitmapped_descriptors
  bmIter : Option (List (Nat × Elem)) := none     -- next_bitmapped_descriptor: what is left
  backBoundary : Nat := 0
  backRefs : Option (List (Nat × Elem)) := none
  deriving Repr, Inhabited

def Regs.nbitsInc (r : Regs) : Int := ((10 * r.y207 + 2) / 3 : Nat)
def Regs.scaleInc (r : Regs) : Int := (r.y207 : Nat)
def Regs.refFactor (r : Regs) : Int := ((10 ^ r.y207 : Nat) : Int)

/-- `new_refvals[id]`; `new_refvals[id] = v` conses in front, so the first match is the current one -/
def lookupRef (l : List (Nat × Int)) (id : Nat) : Option Int :=
  match l with
  | [] => none
  | (k, v) :: rest => if k = id then some v else lookupRef rest id

/-- The whole coder state of one processing run.

    * `bits`  — decode: the bits not yet consumed; encode: see below.
    * `descs` — `decoded_descriptors`, most recent FIRST (shared by all subsets when compressed).
    * `vals`  — decode: per subset, the decoded values, most recent FIRST (one subset when the data
                are uncompressed: subsets are processed one after the other);
                encode: per subset, the values supplied by the caller, in order.
    * `idx`   — encode: `idx_value`.
    * `links` — `bitmap_links` (index of attribute ↦ index of owner), most recent first.
    * encode: `bits` holds the bits written so far, most recent FIRST (reversed at the end). -/
structure St where
  regs : Regs := {}
  bits : Bits := []
  descs : List DDesc := []
  vals : List (List Val) := []
  idx : Nat := 0
  links : List (Nat × Nat) := []
  aux : List Val := []          -- value generation only (Coder/Gen.lean): the values of subset 0
  forced : List (Nat × List Val) := []   -- value generation only: values imposed per element id
  deriving Repr, Inhabited

abbrev CM := Except Err

end Bufr
