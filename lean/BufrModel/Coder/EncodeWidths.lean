/-
  A compressed encoder that does NOT pick the increment width the way pybufrkit's encoder does.

  FM 94 lets the producer of a compressed column choose any increment width that can hold the
  increments; pybufrkit's encoder always picks `nbits_for_uint(max − min + 1)` (0 for an all-equal
  column).  C05 says that the decoder reads every legal width.  This module is the harness's
  "other producer": the template walk of the encoder with compressed primitives that write every
  column of unsigned fields through `Spec.intColumnBitsWith d` for a width `d` the harness asks for
  (one request per column, consumed in processing order from `St.aux`), provided `d` is legal for
  the column; otherwise — and when nothing is asked for — the column is written exactly as
  `encPrimsC` writes it.  No property theorem depends on it except `C05Check` (the widths it uses are
  legal in the sense of `Spec.LegalWidth`).

  Requests: `relative = true`  — `d = (width of pybufrkit's encoder) + k`,
            `relative = false` — `d = k`.
  Rules kept: an all-missing column has no minimum to add to (width 0 only); an all-equal column may
  be written with a width > 0 and zero increments; a column over {min, missing} may be written
  with width 1 (increment 1 = missing).
  Character columns: an all-equal column may be written in the general form (base of NUL bytes,
  increment length = field length, one copy per subset) when a non-zero request is made.
  New-reference-value columns are always written with width 0 (the decoder insists on it).
-/
import BufrModel.Coder.Encode
import BufrModel.Spec.Column
namespace Bufr.Widths

/-- `Spec.LegalWidth` as a Boolean function -/
def legalWidthB (d : Nat) (raws : List (Option Nat)) : Bool :=
  decide (d ≤ 63) &&
  (d != 0 || raws.all (fun r => r == raws.headD none)) &&
  (d == 0 || (match Spec.colMin raws with
    | none => false
    | some lo => raws.all fun r => match r with
      | none => true
      | some x => decide (x - lo < 2 ^ d - 1)))

/-- the minimum can be written on `w` bits without being taken for the missing pattern -/
def minWritable (w : Nat) (raws : List (Option Nat)) : Bool :=
  match Spec.colMin raws with
  | none => true
  | some lo => decide (lo < 2 ^ w) && (w ≤ 1 || decide (lo < 2 ^ w - 1))

/-- next width request (0 = none) -/
def popReq (s : St) : Int × St :=
  match s.aux with
  | [] => (0, s)
  | .int k :: rest => (k, { s with aux := rest })
  | _ :: rest => (0, { s with aux := rest })

/-- the increment width pybufrkit's encoder picks -/
def ownWidth (allEqual : Bool) (raws : List (Option Int)) : Nat :=
  if allEqual then 0
  else match minmaxOpt raws with
    | none => 0
    | some (lo, hi) => nbitsForUInt (hi - lo + 1).toNat

/-- a column of `n` unsigned `w`-bit fields with the requested width; `raws` as `encIntColumn`
    takes them (one entry when `allEqual`).  Falls back to the encoder's own form whenever that
    form is an error, nothing is requested, or the requested width is not legal. -/
def intColumnReq (relative : Bool) (k : Int) (allEqual : Bool) (n : Nat) (raws : List (Option Int)) (w : Nat) : CM Bits :=
  match encIntColumn allEqual raws w with
  | .error e => .error e
  | .ok own =>
    let full : List (Option Int) := if allEqual then List.replicate n (raws.headD none) else raws
    if full.any (fun r => match r with | some v => decide (v < 0) | none => false) then .ok own
    else
      let rawsN : List (Option Nat) := full.map (Option.map Int.toNat)
      let d0 := ownWidth allEqual raws
      let dI : Int := if relative then (d0 : Int) + k else k
      if relative && k == 0 then .ok own
      else if dI < 0 then .ok own
      else
        let d := dI.toNat
        if d != d0 && legalWidthB d rawsN && minWritable w rawsN then .ok (Spec.intColumnBitsWith d rawsN w)
        else .ok own

def encNumericCW (relative : Bool) (dd : DDesc) (nbits scale ref : Int) (s : St) : CM St := do
  let (k, s) := popReq s
  let (c, s) ← nextCol dd s
  let n ← natWidth nbits
  let raws ← (if c.allEqual then c.values.take 1 else c.values).mapM (fun v => match v with
    | .missing => pure none
    | v => do let q ← quantise v scale; pure (some (q - ref)))
  s.write (intColumnReq relative k c.allEqual c.values.length raws n)

def encCodeflagCW (relative : Bool) (dd : DDesc) (nbits : Nat) (s : St) : CM St := do
  let (k, s) := popReq s
  let (c, s) ← nextCol dd s
  let raws ← (if c.allEqual then c.values.take 1 else c.values).mapM (fun v => match v with
    | .missing => pure none
    | .int i => pure (some i)
    | _ => (.error .other : CM (Option Int)))
  s.write (intColumnReq relative k c.allEqual c.values.length raws nbits)

def encStringCW (dd : DDesc) (nbytes : Nat) (s : St) : CM St := do
  let (k, s) := popReq s
  let (c, s) ← nextCol dd s
  let strs ← c.values.mapM (fun v => match v with
    | .missing => pure none
    | .bytes b => pure (some b)
    | _ => (.error .other : CM (Option (List UInt8))))
  let general := k != 0 && c.allEqual && decide (0 < nbytes) && decide (nbytes ≤ 63)
  s.write (encStringColumn (c.allEqual && !general) strs nbytes)

def encPrimsCW (relative : Bool) : Prims where
  numeric := encNumericCW relative
  string := encStringCW
  codeflag := encCodeflagCW relative
  newRefval := encNewRefvalC
  constant := encConstantC
  factorValue := encFactorC
  lastValues := encLastValuesC

/-- the compressed data bits with the requested widths, and what the encoder reports per subset -/
def encodeCompressedW (tmpl : List Desc) (valss : List (List Val)) (relative : Bool) (reqs : List Int) :
    CM (List SubsetOut × Bits) :=
  match walkList (encPrimsCW relative) tmpl { bits := [], vals := valss, aux := reqs.map Val.int } with
  | .error e => .error e
  | .ok s => .ok (valss.map (fun l => { descs := s.descs.reverse, vals := l, links := s.links.reverse }), s.bits.reverse)

end Bufr.Widths
