/-
  `Decoder.process_codeflag_compressed` with its TWO widths kept apart (model file, no lemmas).

  The Python method reads the column with the width it is handed (`nbits_min_value`) and re-checks every rebuilt entry
  (minimum + increment) against the missing value of `descriptor.nbits`, the width the descriptor object itself carries.
  `decCodeflagC` (Coder/Decode.lean) uses one width for both, which is what every call of the template walk amounts to:
  `process_element_descriptor` hands over `descriptor.nbits` for code and flag tables (201YYY / 207YYY do not apply to
  them), associated fields and skipped local descriptors get pseudo descriptors carrying the width read, marker
  descriptors carry their own (for 225255: widened) width.  `decCodeflagCD` is the literal transcription; that the walk
  and the compiled programs cannot tell the two apart is `C05_walk_recheck_uses_field_width` /
  `C05_compiled_recheck_uses_field_width` (Props/C05Width.lean); when a caller DOES separate the widths - what
  seeded/C05-4 does for scale-0 / reference-0 numeric elements under 201YYY - they differ exactly on 2^(descriptor.nbits) - 1.
-/
import BufrModel.Coder.Decode
import BufrModel.Coder.Compiler
namespace Bufr

/-- the width the (pseudo) descriptor itself carries: `descriptor.nbits` of the Python object -/
def DDesc.width : DDesc → Option Nat
  | .plain e => some e.nbits
  | .assoc _ n => some n
  | .skipped _ n => some n
  | .marker _ e => some e.nbits
  | .oper _ => none

/-- `Decoder.process_codeflag_compressed(descriptor, nbits_min_value)` as it is written: the column is read with the width
    handed over (`nbits_min_value`), the re-check of a rebuilt entry uses `descriptor.nbits` -/
def decCodeflagCD (dd : DDesc) (nbits : Nat) (s : St) : CM St := do
  let (col, s) ← (s.pushDesc dd).read (readColumn nbits s.vals.length)
  pure (s.pushCol (col.map (codeflagVal (dd.width.getD nbits))))

def decPrimsCD : Prims := { decPrimsC with codeflag := decCodeflagCD }

/-- `decodeCompressed` with the literal code/flag reader -/
def decodeCompressedD (tmpl : List Desc) (n : Nat) (bits : Bits) : CM (List SubsetOut × Bits) :=
  match walkList decPrimsCD tmpl { bits := bits, vals := List.replicate n [] } with
  | .error e => .error e
  | .ok s => .ok (s.outs, s.bits)

/-- `decodeCompressedC` (compiled template) with the literal code/flag reader -/
def decodeCompressedCD (prog : List Stmt) (n : Nat) (bits : Bits) : CM (List SubsetOut × Bits) :=
  match exec decPrimsCD prog { bits := bits, vals := List.replicate n [] } with
  | .error e => .error e
  | .ok s => .ok (s.outs, s.bits)

end Bufr
