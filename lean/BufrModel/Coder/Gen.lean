/-
  Value generation: the template walk run with primitives that *invent* a conforming value for
  every field from a stream of random bits (`St.bits`).  Used by the correspondence harness only —
  it is how value lists that conform to an arbitrary template (delayed replication, bitmaps,
  operators) are obtained without a third implementation of the walk.  No theorem depends on it.

  Control bits per field: 00 → missing, 01 → smallest raw value, 10 → largest non-missing raw
  value, 11 → random raw value.  Replication factors are kept small (0..3).  For the subsets after
  the first (`St.aux` = values of subset 0, in order) structural values — replication factors,
  bitmap bits, new reference values, constants — are copied, and every other value is copied with
  probability 1/2, so that compressed columns have equal, distinct and missing entries.
-/
import BufrModel.Coder.Decode
namespace Bufr

def takeBits (n : Nat) (s : St) : CM (Nat × St) :=
  match readBits n s.bits with
  | .error e => .error e
  | .ok (b, rest) => .ok (ofBits b, { s with bits := rest })

/-- next value of subset 0 at this position, if generating a later subset -/
def popAux (s : St) : Option Val × St :=
  match s.aux with
  | [] => (none, s)
  | v :: rest => (some v, { s with aux := rest })

def genRaw (n : Nat) (s : St) : CM (Option Nat × St) := do
  let (c, s) ← takeBits 2 s
  if c = 0 then pure ((if 1 < n then none else some 0), s)
  else if c = 1 then pure (some 0, s)
  else if c = 2 then pure (some (2 ^ n - 2), s)
  else do
    let (v, s) ← takeBits n s
    pure ((if 1 < n ∧ v = 2 ^ n - 1 then none else some v), s)

def isFactorId (id : Nat) : Bool := id == 31000 || id == 31001 || id == 31002

/-- a value imposed by the harness for this element id (consumed in order) -/
def popForced (id : Nat) (s : St) : Option Val × St :=
  let rec go : List (Nat × List Val) → Option (Val × List (Nat × List Val))
    | [] => none
    | (k, l) :: rest =>
      if k = id then
        match l with
        | [] => none
        | v :: l' => some (v, (k, l') :: rest)
      else (go rest).map fun (v, r) => (v, (k, l) :: r)
  match go s.forced with
  | none => (none, s)
  | some (v, f) => (some v, { s with forced := f })

def ddId : DDesc → Option Nat
  | .plain e => some e.id
  | _ => none

/-- copy the value of subset 0 (always when `structural`, else with probability 1/2); a value imposed
    by the harness takes precedence when a first subset is generated -/
def copyOr (structural : Bool) (s : St) (gen : St → CM (Val × St)) (dd : Option DDesc := none) : CM (Val × St) := do
  let (a, s) := popAux s
  match a with
  | none =>
    match (dd.bind ddId) with
    | some id =>
      match popForced id s with
      | (some v, s') => pure (v, s')
      | (none, _) => gen s
    | none => gen s
  | some v =>
    if structural then pure (v, s)
    else do
      let (c, s) ← takeBits 1 s
      if c = 1 then pure (v, s) else gen s

def genNumeric (dd : DDesc) (nbits scale ref : Int) (s : St) : CM St := do
  let n ← natWidth nbits
  let structural := match dd with | .plain e => isFactorId e.id | _ => false
  let (v, s) ← copyOr structural (s.pushDesc dd) (dd := some dd) fun s => do
    if structural then do
      let (c, s) ← takeBits 2 s
      pure (numVal (some (min c (2 ^ n - 1))) scale ref, s)
    else do
      let (r, s) ← genRaw n s
      pure (numVal r scale ref, s)
  pure (s.pushAll v)

def genString (dd : DDesc) (nbytes : Nat) (s : St) : CM St := do
  let (v, s) ← copyOr false (s.pushDesc dd) fun s => do
    let (c, s) ← takeBits 2 s
    if c = 0 then pure (Val.missing, s)
    else do
      let rec go : Nat → St → List UInt8 → CM (List UInt8 × St)
        | 0, s, acc => .ok (acc.reverse, s)
        | k + 1, s, acc => match takeBits 7 s with
          | .error e => .error e
          | .ok (x, s') => go k s' (UInt8.ofNat (0x20 + x % 95) :: acc)
      let (b, s) ← go nbytes s []
      pure (Val.bytes b, s)
  pure (s.pushAll v)

def genCodeflag (dd : DDesc) (nbits : Nat) (s : St) : CM St := do
  let structural := match dd with | .plain e => e.id == 31031 | _ => false
  let (v, s) ← copyOr structural (s.pushDesc dd) (dd := some dd) fun s => do
    let (r, s) ← genRaw nbits s
    pure (uintVal r, s)
  pure (s.pushAll v)

def genNewRefval (e : Elem) (nbits : Nat) (s : St) : CM St := do
  let (v, s) ← copyOr true (s.pushDesc (.plain e)) fun s => do
    let (sg, s) ← takeBits 1 s
    let (m, s) ← takeBits (min (nbits - 1) 6) s
    pure (Val.int (if sg = 1 then -(m : Int) else (m : Int)), s)
  match v with
  | .int i => pure ((setNewRefval s e.id i).pushAll v)
  | _ => .error .other

def genConstant (dd : DDesc) (v : Int) (s : St) : CM St :=
  let (_, s) := popAux s
  .ok ((s.pushDesc dd).pushAll (.int v))

def genPrims : Prims where
  numeric := genNumeric
  string := genString
  codeflag := genCodeflag
  newRefval := genNewRefval
  constant := genConstant
  factorValue := decFactorU
  lastValues := decLastValues

/-- values of one subset; `first` = the values of subset 0 when generating a later subset -/
def genSubset (tmpl : List Desc) (first : List Val) (forced : List (Nat × List Val)) (rnd : Bits) :
    CM (List Val × Bits × List (Nat × List Val)) :=
  match walkList genPrims tmpl { bits := rnd, vals := [[]], aux := first, forced := forced } with
  | .error e => .error e
  | .ok s => .ok ((s.vals.headD []).reverse, s.bits, s.forced)

/-- `n` subsets; when `shared` every subset after the first copies the structure of the first -/
def genSubsets (tmpl : List Desc) (shared : Bool) : Nat → List Val → List (Nat × List Val) → Bits → CM (List (List Val))
  | 0, _, _, _ => .ok []
  | n + 1, first, forced, rnd => match genSubset tmpl first forced rnd with
    | .error e => .error e
    | .ok (v, rnd', forced') =>
      let first' := if shared ∧ first = [] then v else first
      match genSubsets tmpl shared n first' forced' rnd' with
      | .error e => .error e
      | .ok vs => .ok (v :: vs)

end Bufr
