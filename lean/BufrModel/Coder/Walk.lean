/-
  The template walk (`coder.py: Coder.process_members` and the methods it dispatches to), generic
  in the primitive operations that `Decoder` / `Encoder` supply (`Prims`), exactly as the Python
  class hierarchy is.  Mirrors the code as it is: the order of the prelude checks in
  `process_members`, the bitmap-definition state machine, the QA-info status machine, the
  back-reference bookkeeping and the marker descriptors.
-/
import BufrModel.Coder.Regs
namespace Bufr

/-- The abstract methods of `Coder`. -/
structure Prims where
  /-- `process_numeric(descriptor, nbits, scale_powered, refval)`; width and scale already adjusted -/
  numeric : DDesc → Int → Int → Int → St → CM St
  /-- `process_string(descriptor, nbytes)` -/
  string : DDesc → Nat → St → CM St
  /-- `process_codeflag(descriptor, nbits)` -/
  codeflag : DDesc → Nat → St → CM St
  /-- `process_new_refval(descriptor, nbits)`: also records the value in `new_refvals` -/
  newRefval : Elem → Nat → St → CM St
  /-- `process_constant(descriptor, value)` -/
  constant : DDesc → Int → St → CM St
  /-- `get_value_for_delayed_replication_factor` (raw value just processed) -/
  factorValue : St → CM Val
  /-- the last `n` values processed (subset 0 when compressed): `define_bitmap` -/
  lastValues : Nat → St → CM (List Val)

def St.setRegs (s : St) (f : Regs → Regs) : St := { s with regs := f s.regs }

/-- `get_value_for_delayed_replication_factor`: `None` or negative is a library error; anything that
    is not an integer makes `range()` or the comparison raise. -/
def factorCount (v : Val) : CM Nat :=
  match v with
  | .missing => .error .lib
  | .int i => if i < 0 then .error .lib else .ok i.toNat
  | .num _ _ => .error .other
  | .bytes _ => .error .other

def iterN : Nat → (St → CM St) → St → CM St
  | 0, _, s => .ok s
  | n + 1, f, s => match f s with
    | .error e => .error e
    | .ok s' => iterN n f s'

/-- `state.next_bitmapped_descriptor()` -/
def nextBitmapped (s : St) : CM ((Nat × Elem) × St) :=
  match s.regs.bmIter with
  | none => .error .other                    -- `None()` : TypeError
  | some [] => .error .other                 -- StopIteration
  | some (x :: rest) => .ok (x, s.setRegs fun r => { r with bmIter := some rest })

def addLink (s : St) (owner : Nat) : St := { s with links := (s.descs.length, owner) :: s.links }

/-- `CoderState.build_bitmapped_descriptors(bitmap)` -/
def collectBackRefs (n : Nat) : List DDesc → Nat → List (Nat × Elem) → List (Nat × Elem)
  -- `ds` = descriptors below the boundary, most recent first; `i` = index of the head + 1
  | [], _, acc => acc
  | d :: ds, i, acc =>
    match d with
    | .plain e =>
      let acc' := (i - 1, e) :: acc
      if acc'.length = n then acc' else collectBackRefs n ds (i - 1) acc'
    | _ => collectBackRefs n ds (i - 1) acc

def buildBitmapped (s : St) (bitmap : List Val) : CM St :=
  let backRefs : List (Nat × Elem) :=
    match s.regs.backRefs with
    | some (x :: xs) => x :: xs
    | _ => collectBackRefs bitmap.length (s.descs.drop (s.descs.length - s.regs.backBoundary)) s.regs.backBoundary []
  if backRefs.length ≠ bitmap.length then .error .lib
  else
    let sel := ((bitmap.zip backRefs).filter (fun p => p.1 == Val.int 0)).map (·.2)
    .ok (s.setRegs fun r => { r with backRefs := some backRefs, bitmapped := some sel, bmIter := some sel })

/-- `Coder.process_bitmap_definition` -/
def bitmapDefinition (P : Prims) (id : Nat) (s : St) : CM St :=
  match s.regs.bitmapDef with
  | .na => .ok s
  | .indicator =>
    if id = 237000 then .ok (s.setRegs fun r => { r with bitmapDef := .na })
    else .ok (s.setRegs fun r => { r with bitmapDef := .waiting, n031031 := 0 })
  | .waiting =>
    if id = 31031 then .ok (s.setRegs fun r => { r with bitmapDef := .counting, n031031 := r.n031031 + 1 })
    else .ok s
  | .counting =>
    if id = 31031 then .ok (s.setRegs fun r => { r with n031031 := r.n031031 + 1 })
    else do
      let bitmap ← P.lastValues s.regs.n031031 s
      let s' ← buildBitmapped s bitmap
      pure (s'.setRegs fun r => { r with bitmapDef := .na })

/-- `Coder.process_associated_field` -/
def associatedField (P : Prims) (id : Nat) (s : St) : CM St :=
  let n := s.regs.assocStack.sum
  P.codeflag (.assoc id n) n s

/-- `Coder.process_element_descriptor` (for a Table B element or a marker descriptor);
    `dd` is the decoded-descriptor label to record. -/
def elementDescriptor (P : Prims) (dd : DDesc) (e : Elem) (s : St) : CM St := do
  let x := xOf e.id
  let s ← (if s.regs.assocStack ≠ [] ∧ x ≠ 31 then associatedField P e.id s else pure s)
  let s ←
    (if x = 33 then
      let s1 := if s.regs.qa = .waiting then s.setRegs fun r => { r with qa := .processing } else s
      if s1.regs.qa = .processing then do
        let ((owner, _), s2) ← nextBitmapped s1
        pure (addLink s2 owner)
      else pure s1
    else
      pure (if s.regs.qa = .processing then s.setRegs fun r => { r with qa := .na } else s) : CM St)
  match e.kind with
  | .string =>
    let nbytes := if s.regs.newNbytes ≠ 0 then s.regs.newNbytes else e.nbits / 8
    P.string dd nbytes s
  | .codeflag => P.codeflag dd e.nbits s
  | .numeric =>
    let nbits : Int := (e.nbits : Int) + s.regs.nbitsOffset + s.regs.nbitsInc
    let scale : Int := e.scale + s.regs.scaleOffset + s.regs.scaleInc
    match lookupRef s.regs.newRefvals e.id with
    | none => P.numeric dd nbits scale (e.ref * s.regs.refFactor) s
    | some nr => P.numeric dd nbits scale (nr * s.regs.refFactor) s

/-- `Coder.process_bitmapped_descriptor` -/
def bitmappedDescriptor (P : Prims) (opId : Nat) (s : St) : CM St := do
  let ((owner, be), s1) ← nextBitmapped s
  let s2 := addLink s1 owner
  let e' : Elem :=
    if opId = 225255 then { be with ref := -((2 : Int) ^ be.nbits), nbits := be.nbits + 1 } else be
  elementDescriptor P (.marker opId e') e' s2

/-- `Coder.process_operator_descriptor` -/
def operatorDescriptor (P : Prims) (id : Nat) (s : St) : CM St :=
  let code := id / 1000
  let y := id % 1000
  if code = 201 then .ok (s.setRegs fun r => { r with nbitsOffset := if y ≠ 0 then (y : Int) - 128 else 0 })
  else if code = 202 then .ok (s.setRegs fun r => { r with scaleOffset := if y ≠ 0 then (y : Int) - 128 else 0 })
  else if code = 203 then
    if y = 255 then .ok (s.setRegs fun r => { r with nbitsNewRefval := 0 })
    else if y = 0 then .ok (s.setRegs fun r => { r with nbitsNewRefval := 0, newRefvals := [] })
    else .ok (s.setRegs fun r => { r with nbitsNewRefval := y })
  else if code = 204 then
    if y = 0 then
      (if s.regs.assocStack = [] then .error .other          -- `[].pop()` : IndexError
       else .ok (s.setRegs fun r => { r with assocStack := r.assocStack.dropLast }))
    else .ok (s.setRegs fun r => { r with assocStack := r.assocStack ++ [y] })
  else if code = 205 then P.string (.oper id) y s
  else if code = 206 then .ok (s.setRegs fun r => { r with nbitsSkipped := y })
  else if code = 207 then .ok (s.setRegs fun r => { r with y207 := y })
  else if code = 208 then .ok (s.setRegs fun r => { r with newNbytes := y })
  else if code = 221 then .ok (s.setRegs fun r => { r with dnpCount := y })
  else if code = 222 ∨ code = 223 ∨ code = 224 ∨ code = 225 ∨ code = 232 then
    if y = 0 then do
      let s1 := s.setRegs fun r => { r with bitmapDef := .indicator, backBoundary := s.descs.length }
      let s2 ← P.constant (.oper id) 0 s1
      pure (if code = 222 then s2.setRegs fun r => { r with qa := .waiting } else s2)
    else do
      let s1 ← (if s.regs.assocStack ≠ [] then associatedField P id s else pure s)
      bitmappedDescriptor P id s1
  else if code = 235 then
    .ok (s.setRegs fun r => { r with backRefs := none, bitmapped := none })
  else if code = 236 then P.constant (.oper id) 0 s
  else if code = 237 then
    if y = 0 then
      match s.regs.bitmapped with
      | none => .error .other                 -- `iter(None)` : TypeError
      | some l => P.constant (.oper id) 0 (s.setRegs fun r => { r with bmIter := some l })
    else P.constant (.oper id) 0 s
  else .error .other                          -- NotImplementedError

mutual
/-- `Coder.process_members` -/
def walkList (P : Prims) : List Desc → St → CM St
  | [], s => .ok s
  | d :: ds, s => match walk1 P d s with
    | .error e => .error e
    | .ok s' => walkList P ds s'

/-- one iteration of the loop in `process_members` -/
def walk1 (P : Prims) : Desc → St → CM St
  | d, s0 =>
    -- 221YYY: data not present
    let dnp := s0.regs.dnpCount
    let s := if dnp ≠ 0 then s0.setRegs fun r => { r with dnpCount := dnp - 1 } else s0
    let skip : Bool :=
      dnp ≠ 0 && (match d with
        | .elem e => !((1 ≤ xOf e.id && xOf e.id ≤ 9) || xOf e.id == 31)
        | _ => false)
    if skip then .ok s
    else
      -- 203YYY: defining new reference values (element descriptors only)
      match (if s.regs.nbitsNewRefval ≠ 0 then (match d with | .elem e => some e | _ => none) else none) with
      | some e =>
        if e.kind = .string then .error .lib
        else P.newRefval e s.regs.nbitsNewRefval s
      | none =>
        -- 206YYY: skipped local descriptor
        if s.regs.nbitsSkipped ≠ 0 then do
          let n := s.regs.nbitsSkipped
          let s' ← P.codeflag (.skipped d.id n) n s
          pure (s'.setRegs fun r => { r with nbitsSkipped := 0 })
        else
          match bitmapDefinition P d.id s with
          | .error e => .error e
          | .ok s =>
            match d with
            | .elem e => elementDescriptor P (.plain e) e s
            | .fixedRep id ms => iterN (yOf id) (walkList P ms) s
            | .delayedRep _ f ms =>
              match f with
              | .elem fe =>
                match elementDescriptor P (.plain fe) fe s with
                | .error e => .error e
                | .ok s1 =>
                  match P.factorValue s1 >>= factorCount with
                  | .error e => .error e
                  | .ok n => iterN n (walkList P ms) s1
              | _ => .error .unknownDescr      -- factor not in Table B: UnknownDescriptor
            | .op id => operatorDescriptor P id s
            | .seq _ ms => walkList P ms s
            | .undefElem _ => .error .unknownDescr
            | .undefSeq _ => .error .unknownDescr
end

end Bufr
