/-
  The coder state ACROSS template walks (`coder.py: CoderState.__init__ / reset_template_state /
  switch_subset_context`, `decoder.py: Decoder.process_template_data`).

  `Coder/Decode.lean` starts every subset and every message from the literal initial state: there a walk that was
  aborted cannot leave anything behind by construction.  The code has no such construction: a `CoderState` object is
  created per message, its registers are given their initial values by `reset_template_state` (called by `__init__`
  and by `switch_subset_context` for every subset of uncompressed data), and a walk that is aborted half-way (an
  undefined descriptor, the bits running out, a refused replication factor) simply stops, with 201/202/203/204/207/
  208 in force, a bitmap half defined, counters half run down.  Whether any of that reaches a later walk depends on
  `reset_template_state` assigning EVERY register a value of its own.

  Here that is explicit:
  * `Regs.reset` is `reset_template_state`, assignment by assignment, applied to whatever registers are there;
  * `decodeSubsetW`, `decodeSubsetsW`, `decodeCompressedW`, `decodeDataW` are `process_template_data` threading
    the registers: a walk starts from `reset r` where `r` is what the PREVIOUS walk (previous subset, previous
    message, previous failed message — of this or of any other Decoder object of the process) left behind, and
    returns the registers it ended with; the reset function is a parameter, so that a reset which forgets a
    register (or shares a mutable default between all states, as seeded change C12-4 does with the 204 stack) can
    be stated and refuted;
  * `POp` / `POp.run` / `runP`: a history of decodes in one process.  What an ABORTED walk leaves behind is not
    computed (the walk returns no state on the error path): it is ANY register file, chosen by the history.
-/
import BufrModel.Coder.Decode
import BufrModel.Msg.Stream
namespace Bufr

/-- `CoderState.reset_template_state`: every register of the template walk is assigned its initial value (the
    two registers the model does not carry, `bitmap` and `most_recent_bitmap_is_for_reuse`, are assigned there as
    well) -/
def Regs.reset (r : Regs) : Regs :=
  { r with
    nbitsOffset := 0, scaleOffset := 0,               -- 201, 202
    nbitsNewRefval := 0, newRefvals := [],            -- 203
    assocStack := [],                                 -- 204: a NEW list
    nbitsSkipped := 0,                                -- 206
    y207 := 0,                                        -- 207: BSRModifier(0, 0, 1)
    newNbytes := 0,                                   -- 208
    dnpCount := 0,                                    -- 221
    qa := .na,                                        -- 222
    bitmapDef := .na, n031031 := 0, bitmapped := none, bmIter := none,
    backBoundary := 0, backRefs := none }

/-- the table-driven reset of seeded change C12-4: every register comes from one module-level table of defaults,
    only `new_refvals` gets an object of its own — the 204 stack of the table is the list that `204YYY` appends to
    and `204000` pops from, so "the default" is whatever the last walk left in it -/
def Regs.resetShared204 (r : Regs) : Regs := { r.reset with assocStack := r.assocStack }

/-- one subset of uncompressed data on a CoderState whose registers are `r` when `switch_subset_context` is called;
    also returns the registers the walk ended with -/
def decodeSubsetW (reset : Regs → Regs) (tmpl : List Desc) (r : Regs) (bits : Bits) : CM (SubsetOut × Bits × Regs) :=
  match walkList decPrimsU tmpl { regs := reset r, bits := bits, vals := [[]] } with
  | .error e => .error e
  | .ok s => .ok ({ descs := s.descs.reverse, vals := (s.vals.headD []).reverse, links := s.links.reverse }, s.bits, s.regs)

/-- the subsets one after the other on the same CoderState: subset `k + 1` starts from the reset of what subset `k`
    left -/
def decodeSubsetsW (reset : Regs → Regs) (tmpl : List Desc) : Nat → Regs → Bits → CM (List SubsetOut × Bits × Regs)
  | 0, r, bits => .ok ([], bits, r)
  | n + 1, r, bits => match decodeSubsetW reset tmpl r bits with
    | .error e => .error e
    | .ok (o, rest, r1) => match decodeSubsetsW reset tmpl n r1 rest with
      | .error e => .error e
      | .ok (os, rest', r2) => .ok (o :: os, rest', r2)

def decodeCompressedW (reset : Regs → Regs) (tmpl : List Desc) (n : Nat) (r : Regs) (bits : Bits) :
    CM (List SubsetOut × Bits × Regs) :=
  match walkList decPrimsC tmpl { regs := reset r, bits := bits, vals := List.replicate n [] } with
  | .error e => .error e
  | .ok s => .ok (s.outs, s.bits, s.regs)

/-- `Decoder.process_template_data` in a process whose last walk left the registers `r`: `CoderState(...)` runs
    `reset_template_state` once (so even a message without subsets resets), then the walk(s) -/
def decodeDataW (reset : Regs → Regs) (tmpl : List Desc) (compressed : Bool) (n : Nat) (r : Regs) (bits : Bits) :
    CM (List SubsetOut × Bits × Regs) :=
  if compressed then decodeCompressedW reset tmpl n r bits else decodeSubsetsW reset tmpl n (reset r) bits

/-- one decode of a history: template, compression flag, number of subsets, data bits, and — used only when the
    walk is aborted — the registers that the aborted walk leaves behind (`left`: the model does not compute them,
    the history may choose them freely) -/
structure POp where
  tmpl : List Desc
  compressed : Bool
  n : Nat
  bits : Bits
  left : Regs := {}

/-- run one decode in a process whose last walk left `r`: the result and what this one leaves -/
def POp.run (reset : Regs → Regs) (op : POp) (r : Regs) : CM (List SubsetOut × Bits) × Regs :=
  match decodeDataW reset op.tmpl op.compressed op.n r op.bits with
  | .ok (o, rest, r') => (.ok (o, rest), r')
  | .error e => (.error e, op.left)

/-- the registers left behind by a history of decodes (successful or aborted) that started on `r` -/
def runP (reset : Regs → Regs) : List POp → Regs → Regs
  | [], r => r
  | op :: ops, r => runP reset ops (op.run reset r).2

/-- the results of a list of decodes run one after the other in a process whose last walk left `r` -/
def resultsP (reset : Regs → Regs) : List POp → Regs → List (CM (List SubsetOut × Bits))
  | [], _ => []
  | op :: ops, r => (op.run reset r).1 :: resultsP reset ops (op.run reset r).2

/-- forget the registers a decode returns -/
def dropRegs (x : CM (List SubsetOut × Bits × Regs)) : CM (List SubsetOut × Bits) :=
  match x with
  | .ok (o, rest, _) => .ok (o, rest)
  | .error e => .error e

/-- `Stream.tableCoder` with the reader of the data section as a parameter -/
def tableCoderOf (F : List Desc → Bool → Nat → Bits → CM (List SubsetOut × Bits)) (T : Tables) : DataCoder (List SubsetOut) where
  dec := fun reg bits =>
    match reg.get? "unexpanded_descriptors", reg.get? "is_compressed", reg.get? "n_subsets" with
    | some { val := .descs ids, .. }, some { val := .bool comp, .. }, some { val := .int n, .. } =>
      match build T ids with
      | .error e => .error e
      | .ok tmpl => F tmpl comp n.toNat bits
    | _, _, _ => .error .other

/-- the data coder of a process whose last walk left `r` (what `Stream.tableCoder` is for a fresh process) -/
def tableCoderW (reset : Regs → Regs) (T : Tables) (r : Regs) : DataCoder (List SubsetOut) :=
  tableCoderOf (fun tmpl comp n bits => dropRegs (decodeDataW reset tmpl comp n r bits)) T

end Bufr
