/-
  The encoder's primitives (`encoder.py: Encoder.process_*_uncompressed / _compressed`,
  `nbits_for_uint`, `_next_compressed_values_and_status_from_all_subsets`, `define_bitmap`) and
  `process_template_data`.

  User values are exact decimals (`Val.int i`, or `Val.num m k` = m·10^(-k)); the implementation
  computes `int(round(value * 10**scale))` in IEEE doubles with Python's half-to-even `round`;
  the model computes the same quantity exactly (DESIGN 4.3).
-/
import BufrModel.Coder.Decode
namespace Bufr

/-- `round(a / b)` to the nearest integer, ties to even (`b > 0`) -/
def roundHalfEvenDiv (a : Int) (b : Nat) : Int :=
  let q := a / (b : Int)            -- floor for positive divisor (Int.div rounds toward -∞ with `/` on Int = `Int.div`? see lemma)
  let r := a - q * (b : Int)
  if 2 * r < (b : Int) then q
  else if (b : Int) < 2 * r then q + 1
  else if q % 2 = 0 then q else q + 1

/-- `int(round(value * 10**scale))` for an exact decimal value -/
def quantise (v : Val) (scale : Int) : CM Int :=
  match v with
  | .int i =>
    if scale = 0 then .ok i
    else if 0 ≤ scale then .ok (i * (10 : Int) ^ scale.toNat)
    else .ok (roundHalfEvenDiv i (10 ^ (-scale).toNat))
  | .num m k =>
    if scale = 0 then .error .other              -- non-integer input for a scale-0 element: not modelled
    else
      let e := scale - k
      if 0 ≤ e then .ok (m * (10 : Int) ^ e.toNat) else .ok (roundHalfEvenDiv m (10 ^ (-e).toNat))
  | _ => .error .other

/-- `NUMERIC_MISSING_VALUES[n]` -/
def missingPattern (n : Nat) : CM Int := if 64 < n then .error .other else .ok ((2 ^ n - 1 : Nat) : Int)

def St.write (s : St) (field : CM Bits) : CM St :=
  match field with
  | .error e => .error e
  | .ok f => .ok { s with bits := f.reverseAux s.bits }

def fieldUInt (v : Int) (n : Nat) : CM Bits := writeUInt [] v n
def fieldInt (v : Int) (n : Nat) : CM Bits := writeInt [] v n
def fieldBytes (b : List UInt8) (k : Nat) : CM Bits := .ok (writeBytes [] b (some k))

def nthVal (l : List Val) (i : Nat) : CM Val :=
  match l[i]? with
  | none => .error .other      -- IndexError
  | some v => .ok v

/-! ### uncompressed (one subset in `vals`) -/

def curVals (s : St) : List Val := s.vals.headD []

def nextVal (s : St) : CM (Val × St) := do
  let v ← nthVal (curVals s) s.idx
  pure (v, { s with idx := s.idx + 1 })

def encNumericU (dd : DDesc) (nbits scale ref : Int) (s : St) : CM St := do
  let (v, s) ← nextVal (s.pushDesc dd)
  let n ← natWidth nbits
  match v with
  | .missing => s.write (do fieldUInt (← missingPattern n) n)
  | v => do
    let q ← quantise v scale
    s.write (fieldUInt (q - ref) n)

def encStringU (dd : DDesc) (nbytes : Nat) (s : St) : CM St := do
  let (v, s) ← nextVal (s.pushDesc dd)
  match v with
  | .missing => s.write (fieldBytes (List.replicate nbytes 0xFF) nbytes)
  | .bytes b => s.write (fieldBytes b nbytes)
  | _ => .error .other

def encCodeflagU (dd : DDesc) (nbits : Nat) (s : St) : CM St := do
  let (v, s) ← nextVal (s.pushDesc dd)
  match v with
  | .missing => s.write (do fieldUInt (← missingPattern nbits) nbits)
  | .int i => s.write (fieldUInt i nbits)
  | _ => .error .other

def encNewRefvalU (e : Elem) (nbits : Nat) (s : St) : CM St := do
  let (v, s) ← nextVal (s.pushDesc (.plain e))
  match v with
  | .int i => (setNewRefval s e.id i).write (fieldInt i nbits)
  | _ => .error .other

def encConstantU (dd : DDesc) (c : Int) (s : St) : CM St := do
  let v ← nthVal (curVals s) s.idx
  if v ≠ .int c then .error .other
  else pure { (s.pushDesc dd) with idx := s.idx + 1 }

def encFactorU (s : St) : CM Val :=
  if s.idx = 0 then .error .other else nthVal (curVals s) (s.idx - 1)

def encLastValues (n : Nat) (s : St) : CM (List Val) :=
  .ok (((curVals s).take s.idx).drop (s.idx - n))

def encPrimsU : Prims where
  numeric := encNumericU
  string := encStringU
  codeflag := encCodeflagU
  newRefval := encNewRefvalU
  constant := encConstantU
  factorValue := encFactorU
  lastValues := encLastValues

/-! ### compressed -/

/-- `nbits_for_uint` -/
def bitLength : Nat → Nat → Nat
  | 0, _ => 0
  | fuel + 1, x => if x = 0 then 0 else bitLength fuel (x / 2) + 1

def nbitsForUInt (x : Nat) : Nat :=
  if x = 0 then 1
  else
    let n := bitLength (x + 1) x
    if x = 2 ^ n - 1 then n + 1 else n

structure Col where
  values : List Val
  allEqual : Bool
  allMissing : Bool

/-- `_next_compressed_values_and_status_from_all_subsets` -/
def nextCol (dd : DDesc) (s : St) : CM (Col × St) := do
  let s := s.pushDesc dd
  let values ← s.vals.mapM (fun l => nthVal l s.idx)
  match values with
  | [] => .error .other               -- `values[0]` : IndexError
  | v0 :: _ =>
    let allEqual := values.all (· == v0)
    pure ({ values := values, allEqual := allEqual, allMissing := allEqual && v0 == Val.missing },
          { s with idx := s.idx + 1 })

def minmaxOpt : List (Option Int) → Option (Int × Int)
  | [] => none
  | v :: vs =>
    match v, minmaxOpt vs with
    | none, r => r
    | some i, none => some (i, i)
    | some i, some (lo, hi) => some (min lo i, max hi i)

def catBits : List (CM Bits) → CM Bits
  | [] => .ok []
  | f :: fs => match f with
    | .error e => .error e
    | .ok x => match catBits fs with
      | .error e => .error e
      | .ok y => .ok (x ++ y)

/-- min, 6-bit width, per-subset differences (shared by numeric and code/flag columns once the
    entries are raw integers; `none` = missing): the general case -/
def intColumnBits (raws : List (Option Int)) (nbits : Nat) : CM Bits :=
  match minmaxOpt raws with
  | none => .error .other            -- cannot happen: not all missing
  | some (lo, hi) =>
    let nd := nbitsForUInt (hi - lo + 1).toNat
    catBits (fieldUInt lo nbits :: fieldUInt nd 6 ::
      raws.map fun r => match r with
        | none => (do fieldUInt (← missingPattern nd) nd)
        | some v => fieldUInt (v - lo) nd)

/-- a whole column of unsigned fields: the all-missing and all-equal shortcuts, else the general case.
    `allEqual` is decided by the encoder on the values as the user gave them. -/
def encIntColumn (allEqual : Bool) (raws : List (Option Int)) (nbits : Nat) : CM Bits :=
  if allEqual then
    match raws.headD none with
    | none => catBits [(do fieldUInt (← missingPattern nbits) nbits), fieldUInt 0 6]
    | some v => catBits [fieldUInt v nbits, fieldUInt 0 6]
  else intColumnBits raws nbits

/-- `_all_ones_as_missing`: in the general (not all-equal) branch an entry that coincides with the
    all-ones pattern of a field wider than one bit is the missing value -/
def allOnesAsMissing (n : Nat) (raws : List (Option Int)) : List (Option Int) :=
  if n ≤ 1 then raws
  else raws.map fun r => if r = some (((2 ^ n - 1 : Nat) : Int)) then none else r

/-- the general branch after `_all_ones_as_missing`: nothing but missing entries left is written as
    an all-missing column (minimum all ones, width 0) -/
def encIntColumnN (allEqual : Bool) (raws : List (Option Int)) (nbits : Nat) : CM Bits :=
  if allEqual then encIntColumn true raws nbits
  else
    let raws' := allOnesAsMissing nbits raws
    if raws'.all (· == none) then catBits [(do fieldUInt (← missingPattern nbits) nbits), fieldUInt 0 6]
    else encIntColumn false raws' nbits

def encNumericC (dd : DDesc) (nbits scale ref : Int) (s : St) : CM St := do
  let (c, s) ← nextCol dd s
  let n ← natWidth nbits
  let raws ← (if c.allEqual then c.values.take 1 else c.values).mapM (fun v => match v with
    | .missing => pure none
    | v => do let q ← quantise v scale; pure (some (q - ref)))
  s.write (encIntColumnN c.allEqual raws n)

def encCodeflagC (dd : DDesc) (nbits : Nat) (s : St) : CM St := do
  let (c, s) ← nextCol dd s
  let raws ← (if c.allEqual then c.values.take 1 else c.values).mapM (fun v => match v with
    | .missing => pure none
    | .int i => pure (some i)
    | _ => (.error .other : CM (Option Int)))
  s.write (encIntColumnN c.allEqual raws nbits)

/-- a column of character fields; `none` = missing -/
def encStringColumn (allEqual : Bool) (strs : List (Option (List UInt8))) (nbytes : Nat) : CM Bits :=
  let field : Option (List UInt8) → CM Bits := fun v => match v with
    | none => fieldBytes (List.replicate nbytes 0xFF) nbytes
    | some b => fieldBytes b nbytes
  if allEqual then catBits [field (strs.headD none), fieldUInt 0 6]
  else catBits (fieldBytes (List.replicate nbytes 0) nbytes :: fieldUInt nbytes 6 ::
    (if nbytes = 0 then [] else strs.map field))

def encStringC (dd : DDesc) (nbytes : Nat) (s : St) : CM St := do
  let (c, s) ← nextCol dd s
  let strs ← c.values.mapM (fun v => match v with
    | .missing => pure none
    | .bytes b => pure (some b)
    | _ => (.error .other : CM (Option (List UInt8))))
  s.write (encStringColumn c.allEqual strs nbytes)

def encNewRefvalC (e : Elem) (nbits : Nat) (s : St) : CM St := do
  let (c, s) ← nextCol (.plain e) s
  if !c.allEqual then .error .other
  else match c.values.headD .missing with
    | .int i => do
      let s ← (setNewRefval s e.id i).write (fieldInt i nbits)
      s.write (fieldUInt 0 6)
    | _ => .error .other

def encConstantC (dd : DDesc) (c : Int) (s : St) : CM St := do
  let (col, s) ← nextCol dd s
  if col.allEqual && col.values.headD .missing == Val.int c then pure s else .error .other

def encFactorC (s : St) : CM Val := do
  if s.idx = 0 then .error .other
  else
    let heads ← s.vals.mapM (fun l => nthVal l (s.idx - 1))
    sameAsFirst heads
    headVal heads

def encPrimsC : Prims where
  numeric := encNumericC
  string := encStringC
  codeflag := encCodeflagC
  newRefval := encNewRefvalC
  constant := encConstantC
  factorValue := encFactorC
  lastValues := encLastValues

/-! ### `Encoder.process_template_data` -/

/-- one uncompressed subset, appended to what was written before (`pre`, most recent first) -/
def encodeSubset (tmpl : List Desc) (vals : List Val) (pre : Bits) : CM (SubsetOut × Bits) :=
  match walkList encPrimsU tmpl { bits := pre, vals := [vals] } with
  | .error e => .error e
  | .ok s => .ok ({ descs := s.descs.reverse, vals := vals, links := s.links.reverse }, s.bits)

def encodeSubsets (tmpl : List Desc) : List (List Val) → Bits → CM (List SubsetOut × Bits)
  | [], pre => .ok ([], pre)
  | v :: vs, pre => match encodeSubset tmpl v pre with
    | .error e => .error e
    | .ok (o, pre') => match encodeSubsets tmpl vs pre' with
      | .error e => .error e
      | .ok (os, pre'') => .ok (o :: os, pre'')

def encodeCompressed (tmpl : List Desc) (valss : List (List Val)) : CM (List SubsetOut × Bits) :=
  match walkList encPrimsC tmpl { bits := [], vals := valss } with
  | .error e => .error e
  | .ok s => .ok (valss.map (fun l => { descs := s.descs.reverse, vals := l, links := s.links.reverse }), s.bits)

/-- the data bits (in order) and what the encoder reports per subset -/
def encodeData (tmpl : List Desc) (compressed : Bool) (valss : List (List Val)) : CM (List SubsetOut × Bits) :=
  match (if compressed then encodeCompressed tmpl valss else encodeSubsets tmpl valss []) with
  | .error e => .error e
  | .ok (o, b) => .ok (o, b.reverse)

end Bufr
