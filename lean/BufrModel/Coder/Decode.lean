/-
  The decoder's primitives (`decoder.py: Decoder.process_*_uncompressed / _compressed`,
  `define_bitmap`, `get_value_for_delayed_replication_factor`) and `process_template_data`.
-/
import BufrModel.Coder.Walk
namespace Bufr

def St.pushDesc (s : St) (d : DDesc) : St := { s with descs := d :: s.descs }
def St.pushAll (s : St) (v : Val) : St := { s with vals := s.vals.map (v :: ·) }
def St.read {α : Type} (s : St) (r : R α) : CM (α × St) :=
  match r s.bits with
  | .error e => .error e
  | .ok (a, rest) => .ok (a, { s with bits := rest })

/-- widths computed from operators may be non-positive: bitstring refuses them (ValueError) -/
def natWidth (n : Int) : CM Nat := if n ≤ 0 then .error .other else .ok n.toNat

/-- `value + refval`, divided by `10^scale` when the scale is not zero -/
def scaleVal (raw : Int) (scale : Int) : Val := if scale = 0 then .int raw else .num raw scale

def numVal (v : Option Nat) (scale ref : Int) : Val :=
  match v with
  | none => .missing
  | some x => scaleVal ((x : Int) + ref) scale

def uintVal (v : Option Nat) : Val :=
  match v with
  | none => .missing
  | some x => .int x

def setNewRefval (s : St) (id : Nat) (v : Int) : St :=
  s.setRegs fun r => { r with newRefvals := (id, v) :: r.newRefvals }

/-! ### uncompressed -/

def decNumericU (dd : DDesc) (nbits scale ref : Int) (s : St) : CM St := do
  let n ← natWidth nbits
  let (v, s) ← (s.pushDesc dd).read (readUIntOrNone n)
  pure (s.pushAll (numVal v scale ref))

def decStringU (dd : DDesc) (nbytes : Nat) (s : St) : CM St := do
  let (b, s) ← (s.pushDesc dd).read (readBytes nbytes)
  pure (s.pushAll (.bytes b))

def decCodeflagU (dd : DDesc) (nbits : Nat) (s : St) : CM St := do
  let (v, s) ← (s.pushDesc dd).read (readUIntOrNone nbits)
  pure (s.pushAll (uintVal v))

def decNewRefvalU (e : Elem) (nbits : Nat) (s : St) : CM St := do
  let (v, s) ← (s.pushDesc (.plain e)).read (readInt nbits)
  pure ((setNewRefval s e.id v).pushAll (.int v))

def decConstant (dd : DDesc) (v : Int) (s : St) : CM St :=
  .ok ((s.pushDesc dd).pushAll (.int v))

def headVal (l : List Val) : CM Val :=
  match l with
  | [] => .error .other          -- IndexError
  | v :: _ => .ok v

def decFactorU (s : St) : CM Val :=
  match s.vals with
  | [] => .error .other
  | l :: _ => headVal l

def decLastValues (n : Nat) (s : St) : CM (List Val) :=
  match s.vals with
  | [] => .error .other
  | l :: _ => .ok (if n = 0 then l.reverse else (l.take n).reverse)

def decPrimsU : Prims where
  numeric := decNumericU
  string := decStringU
  codeflag := decCodeflagU
  newRefval := decNewRefvalU
  constant := decConstant
  factorValue := decFactorU
  lastValues := decLastValues

/-! ### compressed -/

/-- push one value per subset (`col` has one entry per subset) -/
def St.pushCol (s : St) (col : List Val) : St := { s with vals := List.zipWith (· :: ·) col s.vals }

/-- a per-subset increment: all ones is missing; a one-bit increment of one is missing too -/
def readDiff (nd : Nat) : R (Option Nat) := fun bs =>
  match readUIntOrNone nd bs with
  | .error e => .error e
  | .ok (d, r) => .ok ((if d = some 1 ∧ nd = 1 then none else d), r)

/-- `n` increments of `nd` bits on top of `m` -/
def readDiffs (nd m : Nat) : Nat → R (List (Option Nat))
  | 0 => fun bs => .ok ([], bs)
  | n + 1 => fun bs =>
    match readDiff nd bs with
    | .error e => .error e
    | .ok (d, r) => match readDiffs nd m n r with
      | .error e => .error e
      | .ok (ds, r') => .ok ((d.map (m + ·)) :: ds, r')

/-- A compressed column of `n` unsigned fields of width `w` (numeric and code/flag elements,
    associated and skipped fields): minimum, 6-bit increment width, increments.  `none` = missing. -/
def readColumn (w n : Nat) : R (List (Option Nat)) := fun bs =>
  match readUIntOrNone w bs with
  | .error e => .error e
  | .ok (mn, r) =>
    match readUInt 6 r with
    | .error e => .error e
    | .ok (nd, r') =>
      match mn with
      | none => if nd ≠ 0 then .error .other else .ok (List.replicate n none, r')
      | some m => if nd = 0 then .ok (List.replicate n (some m), r') else readDiffs nd m n r'

def decNumericC (dd : DDesc) (nbits scale ref : Int) (s : St) : CM St := do
  let n ← natWidth nbits
  let (col, s) ← (s.pushDesc dd).read (readColumn n s.vals.length)
  pure (s.pushCol (col.map fun v => numVal v scale ref))

/-- a code/flag entry rebuilt from minimum + increment is checked against the field's own missing
    value once more (an all-equal column cannot hold it: `readUIntOrNone` already mapped it) -/
def codeflagVal (nbits : Nat) (v : Option Nat) : Val :=
  match v with
  | none => .missing
  | some x => if 1 < nbits ∧ x = 2 ^ nbits - 1 then .missing else .int x

def decCodeflagC (dd : DDesc) (nbits : Nat) (s : St) : CM St := do
  let (col, s) ← (s.pushDesc dd).read (readColumn nbits s.vals.length)
  pure (s.pushCol (col.map (codeflagVal nbits)))

/-- `k` strings of `nd` bytes appended to `base` -/
def readStrings (nd : Nat) (base : List UInt8) : Nat → R (List (List UInt8))
  | 0 => fun bs => .ok ([], bs)
  | n + 1 => fun bs =>
    match readBytes nd bs with
    | .error e => .error e
    | .ok (d, r) => match readStrings nd base n r with
      | .error e => .error e
      | .ok (ds, r') => .ok ((base ++ d) :: ds, r')

/-- A compressed column of character fields: base string, 6-bit increment length IN BYTES, increments;
    a base of NUL bytes is dropped when increments follow. -/
def readStringColumn (nbytes n : Nat) : R (List (List UInt8)) := fun bs =>
  match readBytes nbytes bs with
  | .error e => .error e
  | .ok (mn, r) =>
    match readUInt 6 r with
    | .error e => .error e
    | .ok (nd, r') =>
      if nd = 0 then .ok (List.replicate n mn, r')
      else readStrings nd (if mn.all (· == 0) then [] else mn) n r'

def decStringC (dd : DDesc) (nbytes : Nat) (s : St) : CM St := do
  let (col, s) ← (s.pushDesc dd).read (readStringColumn nbytes s.vals.length)
  pure (s.pushCol (col.map Val.bytes))

def decNewRefvalC (e : Elem) (nbits : Nat) (s : St) : CM St := do
  let (v, s) ← (s.pushDesc (.plain e)).read (readInt nbits)
  let (nd, s) ← s.read (readUInt 6)
  if nd ≠ 0 then .error .other
  else pure (setNewRefval (s.pushAll (.int v)) e.id v)

/-- `_assert_equal_values_of_index` BEFORE the repair of finding F24 (`CoderState.minmax`): minimum and maximum over
    the NON-MISSING heads must agree.  Kept for `decFactorCLax` only. -/
def minmaxInt : List Val → CM (Option (Int × Int))
  | [] => .ok none
  | v :: vs => do
    let r ← minmaxInt vs
    match v with
    | .missing => pure r
    | .int i => pure (match r with | none => some (i, i) | some (lo, hi) => some (min lo i, max hi i))
    | _ => .error .other

/-- `get_value_for_delayed_replication_factor` of compressed data BEFORE the repair of finding F24: a factor that is
    missing in a subset other than the first passes.  NOT used by the model of the code; kept so that the proved
    negation `C09_compressed_missing_count_breaks` (Props/C09Wire.lean) documents why the repair is needed. -/
def decFactorCLax (s : St) : CM Val := do
  let heads ← s.vals.mapM headVal
  match ← minmaxInt heads with
  | some (lo, hi) => if lo ≠ hi then .error .other else headVal heads
  | none => headVal heads

/-- `_assert_equal_values_of_index` (finding F24 repaired): every value of the column equals the first one, `None`
    included; a difference is `PyBufrKitError`. -/
def sameAsFirst : List Val → CM Unit
  | [] => .ok ()
  | v :: vs => if vs.all (· == v) then .ok () else .error .lib

def decFactorC (s : St) : CM Val := do
  let heads ← s.vals.mapM headVal
  sameAsFirst heads
  headVal heads

def decPrimsC : Prims where
  numeric := decNumericC
  string := decStringC
  codeflag := decCodeflagC
  newRefval := decNewRefvalC
  constant := decConstant
  factorValue := decFactorC
  lastValues := decLastValues

/-! ### `Decoder.process_template_data` -/

/-- what is reported for one subset: labels, values, attribute links (all in processing order) -/
structure SubsetOut where
  descs : List DDesc
  vals : List Val
  links : List (Nat × Nat)
  deriving Repr, Inhabited, DecidableEq

def St.outs (s : St) : List SubsetOut :=
  s.vals.map fun l => { descs := s.descs.reverse, vals := l.reverse, links := s.links.reverse }

/-- one uncompressed subset: a fresh coder state reading from `bits` -/
def decodeSubset (tmpl : List Desc) (bits : Bits) : CM (SubsetOut × Bits) :=
  match walkList decPrimsU tmpl { bits := bits, vals := [[]] } with
  | .error e => .error e
  | .ok s => .ok ({ descs := s.descs.reverse, vals := (s.vals.headD []).reverse, links := s.links.reverse }, s.bits)

def decodeSubsets (tmpl : List Desc) : Nat → Bits → CM (List SubsetOut × Bits)
  | 0, bits => .ok ([], bits)
  | n + 1, bits => match decodeSubset tmpl bits with
    | .error e => .error e
    | .ok (o, rest) => match decodeSubsets tmpl n rest with
      | .error e => .error e
      | .ok (os, rest') => .ok (o :: os, rest')

def decodeCompressed (tmpl : List Desc) (n : Nat) (bits : Bits) : CM (List SubsetOut × Bits) :=
  match walkList decPrimsC tmpl { bits := bits, vals := List.replicate n [] } with
  | .error e => .error e
  | .ok s => .ok (s.outs, s.bits)

/-- the compressed decoder BEFORE the repair of finding F24 (`decFactorCLax`); used by
    `C09_compressed_missing_count_breaks` only -/
def decPrimsCLax : Prims := { decPrimsC with factorValue := decFactorCLax }

def decodeCompressedLax (tmpl : List Desc) (n : Nat) (bits : Bits) : CM (List SubsetOut × Bits) :=
  match walkList decPrimsCLax tmpl { bits := bits, vals := List.replicate n [] } with
  | .error e => .error e
  | .ok s => .ok (s.outs, s.bits)

def decodeData (tmpl : List Desc) (compressed : Bool) (n : Nat) (bits : Bits) : CM (List SubsetOut × Bits) :=
  if compressed then decodeCompressed tmpl n bits else decodeSubsets tmpl n bits

end Bufr
