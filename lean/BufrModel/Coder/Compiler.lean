/-
  Template compilation (`pybufrkit/templatecompiler.py`).

  * `Stmt`      — the statement classes (`CoderMethodCall` by method name with its resolved arguments,
                  `StateMethodCall`, `State031031Increment/Reset`, `Loop`).
  * `CRegs`     — `CompilerState`: the registers of `CoderState` that the recording walk resolves at
                  COMPILE time (201/202/207/208 offsets, 203 width and the *set* of redefined ids,
                  204 stack, 206, 221 count, QA status, bitmap-definition stage, reuse flag).
                  Deferred to run time: delayed replication counts, the values of new reference
                  values, the bitmap / back references / bitmapped iterator, `n_031031` (mirrored by the
                  Increment/Reset statements).
  * `compile`   — `TemplateCompiler.process`: `Coder.process_members` run with the recording primitives.
  * `exec`      — `process_statements`.
  * cache       — `CompiledTemplateManager.get_or_compile`.
  * `dump/load` — `to_dict` / `loads_compiled_template` through the JSON-like value type `JV`.

  The model mirrors the code AFTER the fixes F5 (`new_nbytes` key), F6 (`bsr_modifier` rebuilt on load),
  F7 (pseudo descriptors survive a reload; 204 stack part of `state_properties`) and F7c (203000 cancels
  the run-time reference values too).

  `n_031031` of the compiler state is only ever compared with zero and with its own previous value; the
  model keeps the one bit `nZero` (`n_031031 == 0`), which determines the recorded statement exactly
  (the branch `erroneous n_031031 change` is unreachable).
-/
import BufrModel.Coder.Walk
import BufrModel.Coder.Decode
import BufrModel.Coder.Encode
namespace Bufr

/-- `Loop.repeat`: a constant, or the call `get_value_for_delayed_replication_factor` -/
inductive Repeat where
  | fixed (n : Nat)
  | factor
  deriving DecidableEq, Repr, Inhabited

/-- `state_properties` of a recorded `process_bitmapped_descriptor` call -/
structure StateProps where
  newNbytes : Nat := 0
  nbitsOffset : Int := 0
  scaleOffset : Int := 0
  y207 : Nat := 0                 -- bsr_modifier = ((10Y+2)/3, Y, 10^Y)
  assocStack : List Nat := []     -- nbits_of_associated
  deriving DecidableEq, Repr, Inhabited

/-- the `CoderState` methods that `CompilerState` records instead of executing -/
inductive StateMethod where
  | markBoundary | recallBitmap | cancelBitmap | cancelAllBackRefs | addBitmapLink | cancelNewRefvals
  deriving DecidableEq, Repr, Inhabited

inductive Stmt where
  | numeric (dd : DDesc) (nbits scale ref : Int)            -- process_numeric(d, nbits, 10^scale, refval)
  | numericNewRef (dd : DDesc) (nbits scale factor : Int)   -- process_numeric_of_new_refval(d, nbits, 10^scale, refval_factor)
  | string (dd : DDesc) (nbytes : Nat)
  | codeflag (dd : DDesc) (nbits : Nat)
  | newRefval (e : Elem) (nbits : Nat)
  | constant (dd : DDesc) (v : Int)
  | bitmapped (opId : Nat) (sp : StateProps)                -- process_bitmapped_descriptor(operator), state_properties
  | defineBitmap (reuse : Bool)
  | state (m : StateMethod)
  | inc031031
  | reset031031
  | loop (rep : Repeat) (body : List Stmt)
  deriving Repr, Inhabited

/-! ### equality test on statements (used by the scope check) -/
mutual
def Stmt.beq : Stmt → Stmt → Bool
  | .numeric d a b c, .numeric d' a' b' c' => decide (d = d') && decide (a = a') && decide (b = b') && decide (c = c')
  | .numericNewRef d a b c, .numericNewRef d' a' b' c' => decide (d = d') && decide (a = a') && decide (b = b') && decide (c = c')
  | .string d n, .string d' n' => decide (d = d') && decide (n = n')
  | .codeflag d n, .codeflag d' n' => decide (d = d') && decide (n = n')
  | .newRefval e n, .newRefval e' n' => decide (e = e') && decide (n = n')
  | .constant d v, .constant d' v' => decide (d = d') && decide (v = v')
  | .bitmapped o sp, .bitmapped o' sp' => decide (o = o') && decide (sp = sp')
  | .defineBitmap r, .defineBitmap r' => decide (r = r')
  | .state m, .state m' => decide (m = m')
  | .inc031031, .inc031031 => true
  | .reset031031, .reset031031 => true
  | .loop r b, .loop r' b' => decide (r = r') && Stmt.beqList b b'
  | _, _ => false
def Stmt.beqList : List Stmt → List Stmt → Bool
  | [], [] => true
  | x :: xs, y :: ys => Stmt.beq x y && Stmt.beqList xs ys
  | _, _ => false
end

/-! ### `process_statements` -/

def DDesc.eid : DDesc → Nat
  | .plain e => e.id | .assoc id _ => id | .skipped id _ => id | .marker _ e => e.id | .oper id => id

/-- the recorded `StateMethodCall`s, executed on the run-time state -/
def stateCall (m : StateMethod) (s : St) : CM St :=
  match m with
  | .markBoundary => .ok (s.setRegs fun r => { r with backBoundary := s.descs.length })
  | .recallBitmap =>
    match s.regs.bitmapped with
    | none => .error .other                 -- `iter(None)` : TypeError
    | some l => .ok (s.setRegs fun r => { r with bmIter := some l })
  | .cancelBitmap => .ok s                  -- `bitmap` itself is not observable (Regs.lean)
  | .cancelAllBackRefs => .ok (s.setRegs fun r => { r with backRefs := none, bitmapped := none })
  | .addBitmapLink =>
    match nextBitmapped s with
    | .error e => .error e
    | .ok ((owner, _), s2) => .ok (addLink s2 owner)
  | .cancelNewRefvals => .ok (s.setRegs fun r => { r with newRefvals := [] })

/-- `setattr(state, k, v)` for every entry of `state_properties` -/
def applyProps (sp : StateProps) (s : St) : St :=
  s.setRegs fun r => { r with newNbytes := sp.newNbytes, nbitsOffset := sp.nbitsOffset,
                              scaleOffset := sp.scaleOffset, y207 := sp.y207, assocStack := sp.assocStack }

/-- `Decoder/Encoder.define_bitmap` followed by `build_bitmapped_descriptors` -/
def defineBitmapRt (P : Prims) (s : St) : CM St :=
  match P.lastValues s.regs.n031031 s with
  | .error e => .error e
  | .ok bitmap => buildBitmapped s bitmap

mutual
def execList (P : Prims) : List Stmt → St → CM St
  | [], s => .ok s
  | x :: xs, s => match exec1 P x s with
    | .error e => .error e
    | .ok s' => execList P xs s'

def exec1 (P : Prims) : Stmt → St → CM St
  | .numeric dd nbits scale ref, s => P.numeric dd nbits scale ref s
  | .numericNewRef dd nbits scale factor, s =>
    match lookupRef s.regs.newRefvals dd.eid with
    | none => .error .other                  -- KeyError
    | some nr => P.numeric dd nbits scale (nr * factor) s
  | .string dd nbytes, s => P.string dd nbytes s
  | .codeflag dd nbits, s => P.codeflag dd nbits s
  | .newRefval e nbits, s => P.newRefval e nbits s
  | .constant dd v, s => P.constant dd v s
  | .bitmapped opId sp, s => bitmappedDescriptor P opId (applyProps sp s)
  | .defineBitmap _, s => defineBitmapRt P s
  | .state m, s => stateCall m s
  | .inc031031, s => .ok (s.setRegs fun r => { r with n031031 := r.n031031 + 1 })
  | .reset031031, s => .ok (s.setRegs fun r => { r with n031031 := 0 })
  | .loop rep body, s =>
    match rep with
    | .fixed n => iterN n (execList P body) s
    | .factor =>
      match P.factorValue s >>= factorCount with
      | .error e => .error e
      | .ok n => iterN n (execList P body) s
end

/-- `process_compiled_template` -/
def exec (P : Prims) (prog : List Stmt) (s : St) : CM St := execList P prog s

/-! ### `CompilerState` and the recording walk -/

structure CRegs where
  nbitsOffset : Int := 0
  scaleOffset : Int := 0
  nbitsNewRefval : Nat := 0
  newRefIds : List Nat := []         -- keys of `new_refvals` (values are `None` until run time)
  assocStack : List Nat := []
  nbitsSkipped : Nat := 0
  y207 : Nat := 0
  newNbytes : Nat := 0
  dnpCount : Nat := 0
  qa : QaStatus := .na
  bitmapDef : BitmapDef := .na
  reuse : Bool := false              -- most_recent_bitmap_is_for_reuse
  nZero : Bool := true               -- n_031031 == 0
  deriving DecidableEq, Repr, Inhabited

def CRegs.nbitsInc (r : CRegs) : Int := ((10 * r.y207 + 2) / 3 : Nat)
def CRegs.scaleInc (r : CRegs) : Int := (r.y207 : Nat)
def CRegs.refFactor (r : CRegs) : Int := ((10 ^ r.y207 : Nat) : Int)

def CRegs.props (c : CRegs) : StateProps :=
  { newNbytes := c.newNbytes, nbitsOffset := c.nbitsOffset, scaleOffset := c.scaleOffset, y207 := c.y207,
    assocStack := c.assocStack }

abbrev COut := List Stmt × CRegs

/-- the QA-status machine of `process_element_descriptor` (class 33 elements after 222000) -/
def cQa (x : Nat) (c : CRegs) : CRegs :=
  if x = 33 then (if c.qa = .waiting then { c with qa := .processing } else c)
  else (if c.qa = .processing then { c with qa := .na } else c)

/-- the recorded call that processes the value of a Table B element -/
def cValue (e : Elem) (c : CRegs) : Stmt :=
  match e.kind with
  | .string => .string (.plain e) (if c.newNbytes ≠ 0 then c.newNbytes else e.nbits / 8)
  | .codeflag => .codeflag (.plain e) e.nbits
  | .numeric =>
    let nbits : Int := (e.nbits : Int) + c.nbitsOffset + c.nbitsInc
    let scale : Int := e.scale + c.scaleOffset + c.scaleInc
    if e.id ∈ c.newRefIds then .numericNewRef (.plain e) nbits scale c.refFactor
    else .numeric (.plain e) nbits scale (e.ref * c.refFactor)

/-- `Coder.process_element_descriptor` with the recording primitives (only ever called on Table B
    elements: marker descriptors exist at run time only) -/
def cElement (e : Elem) (c : CRegs) : COut :=
  let x := xOf e.id
  let a : List Stmt :=
    if c.assocStack ≠ [] ∧ x ≠ 31 then [.codeflag (.assoc e.id c.assocStack.sum) c.assocStack.sum] else []
  let q : List Stmt := if x = 33 ∧ (cQa x c).qa = .processing then [.state .addBitmapLink] else []
  (a ++ (q ++ [cValue e c]), cQa x c)

/-- `TemplateCompiler.process_bitmap_definition`: the state machine of `Coder`, then the statement
    that reproduces the change of `n_031031` -/
def cBitmapDefinition (id : Nat) (c : CRegs) : COut :=
  let rz : List Stmt := if c.nZero then [.reset031031] else []
  match c.bitmapDef with
  | .na => ([], c)
  | .indicator =>
    if id = 236000 then ([.reset031031], { c with reuse := true, bitmapDef := .waiting, nZero := true })
    else if id = 237000 then (rz, { c with bitmapDef := .na })
    else ([.reset031031], { c with reuse := false, bitmapDef := .waiting, nZero := true })
  | .waiting =>
    if id = 31031 then ([.inc031031], { c with bitmapDef := .counting, nZero := false })
    else (rz, c)
  | .counting =>
    if id = 31031 then ([.inc031031], { c with nZero := false })
    else (.defineBitmap c.reuse :: rz, { c with bitmapDef := .na })

/-- `Coder.process_operator_descriptor` with the recording primitives / state -/
def cOperator (id : Nat) (c : CRegs) : CM COut :=
  let code := id / 1000
  let y := id % 1000
  if code = 201 then .ok ([], { c with nbitsOffset := if y ≠ 0 then (y : Int) - 128 else 0 })
  else if code = 202 then .ok ([], { c with scaleOffset := if y ≠ 0 then (y : Int) - 128 else 0 })
  else if code = 203 then
    if y = 255 then .ok ([], { c with nbitsNewRefval := 0 })
    else if y = 0 then .ok ([.state .cancelNewRefvals], { c with nbitsNewRefval := 0, newRefIds := [] })
    else .ok ([], { c with nbitsNewRefval := y })
  else if code = 204 then
    if y = 0 then
      (if c.assocStack = [] then .error .other
       else .ok ([], { c with assocStack := c.assocStack.dropLast }))
    else .ok ([], { c with assocStack := c.assocStack ++ [y] })
  else if code = 205 then .ok ([.string (.oper id) y], c)
  else if code = 206 then .ok ([], { c with nbitsSkipped := y })
  else if code = 207 then .ok ([], { c with y207 := y })
  else if code = 208 then .ok ([], { c with newNbytes := y })
  else if code = 221 then .ok ([], { c with dnpCount := y })
  else if code = 222 ∨ code = 223 ∨ code = 224 ∨ code = 225 ∨ code = 232 then
    if y = 0 then
      .ok ([.state .markBoundary, .constant (.oper id) 0],
           { c with bitmapDef := .indicator, qa := if code = 222 then .waiting else c.qa })
    else
      let a : List Stmt :=
        if c.assocStack ≠ [] then [.codeflag (.assoc id c.assocStack.sum) c.assocStack.sum] else []
      .ok (a ++ [.bitmapped id c.props], c)
  else if code = 235 then .ok ([.state .cancelAllBackRefs], c)
  else if code = 236 then .ok ([.constant (.oper id) 0], c)
  else if code = 237 then
    if y = 0 then .ok ([.state .recallBitmap, .constant (.oper id) 0], c)
    else .ok ((if c.reuse then [.state .cancelBitmap] else []) ++ [.constant (.oper id) 0], c)
  else .error .other

/-- `22X255`, `232255`: the marker operators (any non-zero operand takes that branch) -/
def isMarkerOp (id : Nat) : Bool :=
  decide ((id / 1000 = 222 ∨ id / 1000 = 223 ∨ id / 1000 = 224 ∨ id / 1000 = 225 ∨ id / 1000 = 232) ∧ id % 1000 ≠ 0)

/-- The scope condition on a replication whose body compiles from `c` to (`body`, `c1`):
    a delayed replication (which may run zero times) must leave the compile-time registers as it
    found them; a fixed replication (at least one run) must reach, after one run, registers from which
    the body compiles to the same statements and the same registers again. -/
def scopeOk (atLeastOnce : Bool) (c : CRegs) (body : List Stmt) (c1 : CRegs) (again : CM COut) : Bool :=
  if atLeastOnce then
    match again with
    | .ok (body', c1') => Stmt.beqList body body' && decide (c1' = c1)
    | .error _ => false
  else decide (c1 = c)

mutual
/-- `Coder.process_members` under `TemplateCompiler`.  With `chk = 0` this is the compiler; with
    `chk = 1` it also refuses (`Err.other`) a template that is not `ScopeClosed` (the class of the
    theorems); `chk = 2` is the looser class the harness applies the oracle to: a delayed replication
    is treated like a fixed one (assumed to run at least once). -/
def compileList (chk : Nat) : List Desc → CRegs → CM COut
  | [], c => .ok ([], c)
  | d :: ds, c => match compile1 chk d c with
    | .error e => .error e
    | .ok (p1, c1) => match compileList chk ds c1 with
      | .error e => .error e
      | .ok (p2, c2) => .ok (p1 ++ p2, c2)

def compile1 (chk : Nat) : Desc → CRegs → CM COut
  | d, c0 =>
    let dnp := c0.dnpCount
    let c := if dnp ≠ 0 then { c0 with dnpCount := dnp - 1 } else c0
    let skip : Bool :=
      dnp ≠ 0 && (match d with
        | .elem e => !((1 ≤ xOf e.id && xOf e.id ≤ 9) || xOf e.id == 31)
        | _ => false)
    if skip then .ok ([], c)
    else
      match (if c.nbitsNewRefval ≠ 0 then (match d with | .elem e => some e | _ => none) else none) with
      | some e =>
        if e.kind = .string then .error .lib
        else .ok ([.newRefval e c.nbitsNewRefval], { c with newRefIds := e.id :: c.newRefIds })
      | none =>
        if c.nbitsSkipped ≠ 0 then
          .ok ([.codeflag (.skipped d.id c.nbitsSkipped) c.nbitsSkipped], { c with nbitsSkipped := 0 })
        else
          let pc := cBitmapDefinition d.id c
          let r : CM COut :=
            match d with
            | .elem e => .ok (cElement e pc.2)
            | .fixedRep id ms =>
              match compileList chk ms pc.2 with
              | .error e => .error e
              | .ok (body, c1) =>
                if decide (chk ≠ 0) && !(scopeOk (decide (yOf id ≠ 0)) pc.2 body c1 (compileList chk ms c1)) then .error .other
                else .ok ([.loop (.fixed (yOf id)) body], c1)
            | .delayedRep _ f ms =>
              match f with
              | .elem fe =>
                match compileList chk ms (cElement fe pc.2).2 with
                | .error e => .error e
                | .ok (body, c1) =>
                  if decide (chk ≠ 0) && !(scopeOk (decide (chk = 2)) (cElement fe pc.2).2 body c1 (compileList chk ms c1)) then .error .other
                  else .ok ((cElement fe pc.2).1 ++ [.loop .factor body], c1)
              | _ => .error .unknownDescr
            | .op id =>
              -- scope check only: a marker operator met while the QA status is not `na` is outside the class
              if decide (chk ≠ 0) && isMarkerOp id && decide (pc.2.qa ≠ .na) then .error .other
              else cOperator id pc.2
            | .seq _ ms => compileList chk ms pc.2
            | .undefElem _ => .error .unknownDescr
            | .undefSeq _ => .error .unknownDescr
          match r with
          | .error e => .error e
          | .ok (p, c1) => .ok (pc.1 ++ p, c1)
end

/-- `TemplateCompiler.process(template, table_group)` -/
def compile (t : List Desc) : CM (List Stmt) :=
  match compileList 0 t {} with
  | .error e => .error e
  | .ok (p, _) => .ok p

/-- The class of C08: every operator effect opened inside a replication body is closed (or has become
    stationary) within it, and no marker operator meets a pending QA status.  Decidable by evaluation. -/
def scopeClosed (t : List Desc) : Bool :=
  match compileList 1 t {} with
  | .ok _ => true
  | .error _ => false

/-- the looser class: delayed replications assumed to run at least once -/
def scopeClosedLoose (t : List Desc) : Bool :=
  match compileList 2 t {} with
  | .ok _ => true
  | .error _ => false

/-! ### `process_template_data` with a compiled template (decoder.py / encoder.py) -/

def decodeSubsetC (prog : List Stmt) (bits : Bits) : CM (SubsetOut × Bits) :=
  match exec decPrimsU prog { bits := bits, vals := [[]] } with
  | .error e => .error e
  | .ok s => .ok ({ descs := s.descs.reverse, vals := (s.vals.headD []).reverse, links := s.links.reverse }, s.bits)

def decodeSubsetsC (prog : List Stmt) : Nat → Bits → CM (List SubsetOut × Bits)
  | 0, bits => .ok ([], bits)
  | n + 1, bits => match decodeSubsetC prog bits with
    | .error e => .error e
    | .ok (o, rest) => match decodeSubsetsC prog n rest with
      | .error e => .error e
      | .ok (os, rest') => .ok (o :: os, rest')

def decodeCompressedC (prog : List Stmt) (n : Nat) (bits : Bits) : CM (List SubsetOut × Bits) :=
  match exec decPrimsC prog { bits := bits, vals := List.replicate n [] } with
  | .error e => .error e
  | .ok s => .ok (s.outs, s.bits)

def decodeDataC (prog : List Stmt) (compressed : Bool) (n : Nat) (bits : Bits) : CM (List SubsetOut × Bits) :=
  if compressed then decodeCompressedC prog n bits else decodeSubsetsC prog n bits

def encodeSubsetC (prog : List Stmt) (vals : List Val) (pre : Bits) : CM (SubsetOut × Bits) :=
  match exec encPrimsU prog { bits := pre, vals := [vals] } with
  | .error e => .error e
  | .ok s => .ok ({ descs := s.descs.reverse, vals := vals, links := s.links.reverse }, s.bits)

def encodeSubsetsC (prog : List Stmt) : List (List Val) → Bits → CM (List SubsetOut × Bits)
  | [], pre => .ok ([], pre)
  | v :: vs, pre => match encodeSubsetC prog v pre with
    | .error e => .error e
    | .ok (o, pre') => match encodeSubsetsC prog vs pre' with
      | .error e => .error e
      | .ok (os, pre'') => .ok (o :: os, pre'')

def encodeCompressedC (prog : List Stmt) (valss : List (List Val)) : CM (List SubsetOut × Bits) :=
  match exec encPrimsC prog { bits := [], vals := valss } with
  | .error e => .error e
  | .ok s => .ok (valss.map (fun l => { descs := s.descs.reverse, vals := l, links := s.links.reverse }), s.bits)

def encodeDataC (prog : List Stmt) (compressed : Bool) (valss : List (List Val)) : CM (List SubsetOut × Bits) :=
  match (if compressed then encodeCompressedC prog valss else encodeSubsetsC prog valss []) with
  | .error e => .error e
  | .ok (o, b) => .ok (o, b.reverse)

/-! ### `CompiledTemplateManager` -/

/-- The cache as an insertion-ordered association list, most recent FIRST (`popitem` removes the most
    recently inserted entry).  `κ` = (descriptor ids, table-group key); `compileK` = compilation of a key. -/
structure Cache (κ α : Type) where
  entries : List (κ × α) := []

def Cache.get? {κ α : Type} [DecidableEq κ] (c : Cache κ α) (k : κ) : Option α :=
  match c.entries.find? (fun p => decide (p.1 = k)) with
  | some p => some p.2
  | none => none

/-- `get_or_compile`: (result, new cache) -/
def getOrCompile {κ α : Type} [DecidableEq κ] (compileK : κ → α) (cacheMax : Nat) (c : Cache κ α) (k : κ) :
    α × Cache κ α :=
  match c.get? k with
  | some v => (v, c)
  | none =>
    let v := compileK k
    if cacheMax > 0 then
      let es := if c.entries.length ≥ cacheMax then c.entries.drop 1 else c.entries
      (v, { entries := (k, v) :: es })
    else (v, c)

/-- a history of requests: the results in order and the final cache -/
def runCache {κ α : Type} [DecidableEq κ] (compileK : κ → α) (cacheMax : Nat) :
    List κ → Cache κ α → List α × Cache κ α
  | [], c => ([], c)
  | k :: ks, c =>
    let (v, c1) := getOrCompile compileK cacheMax c k
    let (vs, c2) := runCache compileK cacheMax ks c1
    (v :: vs, c2)

/-! ### `to_dict` / `loads_compiled_template` -/

/-- a JSON-like value; `pow10 s` is the float `1.0 * 10 ** s` -/
inductive JV where
  | null
  | bool (b : Bool)
  | int (i : Int)
  | pow10 (s : Int)
  | str (s : String)
  | arr (l : List JV)
  | obj (l : List (String × JV))
  deriving Repr, Inhabited

def JV.get (j : JV) (k : String) : Option JV :=
  match j with
  | .obj l => (l.find? (fun p => p.1 == k)).map (·.2)
  | _ => none

def StateMethod.name : StateMethod → String
  | .markBoundary => "mark_back_reference_boundary"
  | .recallBitmap => "recall_bitmap"
  | .cancelBitmap => "cancel_bitmap"
  | .cancelAllBackRefs => "cancel_all_back_references"
  | .addBitmapLink => "add_bitmap_link"
  | .cancelNewRefvals => "cancel_new_refvals"

def StateMethod.ofName (s : String) : Option StateMethod :=
  if s = "mark_back_reference_boundary" then some .markBoundary
  else if s = "recall_bitmap" then some .recallBitmap
  else if s = "cancel_bitmap" then some .cancelBitmap
  else if s = "cancel_all_back_references" then some .cancelAllBackRefs
  else if s = "add_bitmap_link" then some .addBitmapLink
  else if s = "cancel_new_refvals" then some .cancelNewRefvals
  else none

def jnatv (n : Nat) : JV := .int n

/-- `MethodCall.to_dict` -/
def methodDict (typ name : String) (args : List JV) (sp : JV) (descType : Option String) : JV :=
  .obj ([("type", .str typ), ("method_name", .str name), ("args", .arr args), ("state_properties", sp),
         ("with_descriptor", .bool descType.isSome)] ++
        (match descType with | some t => [("descriptor_type", .str t)] | none => []))

/-- class name of the descriptor argument (recorded since the fix F7) -/
def DDesc.typeName : DDesc → String
  | .plain _ => "ElementDescriptor"
  | .assoc _ _ => "AssociatedDescriptor"
  | .skipped _ _ => "SkippedLocalDescriptor"
  | .marker _ _ => "MarkerDescriptor"
  | .oper _ => "OperatorDescriptor"

def dumpProps (sp : StateProps) : JV :=
  .obj [("new_nbytes", jnatv sp.newNbytes), ("nbits_offset", .int sp.nbitsOffset), ("scale_offset", .int sp.scaleOffset),
        ("bsr_modifier", .arr [jnatv ((10 * sp.y207 + 2) / 3), jnatv sp.y207, jnatv (10 ^ sp.y207)]),
        ("nbits_of_associated", .arr (sp.assocStack.map jnatv))]

def coderCall (name : String) (dd : DDesc) (rest : List JV) : JV :=
  methodDict "CoderMethodCall" name (jnatv dd.eid :: rest) .null (some dd.typeName)

mutual
def dumpStmt : Stmt → JV
  | .numeric dd nbits scale ref => coderCall "process_numeric" dd [.int nbits, .pow10 scale, .int ref]
  | .numericNewRef dd nbits scale factor => coderCall "process_numeric_of_new_refval" dd [.int nbits, .pow10 scale, .int factor]
  | .string dd nbytes => coderCall "process_string" dd [jnatv nbytes]
  | .codeflag dd nbits => coderCall "process_codeflag" dd [jnatv nbits]
  | .newRefval e nbits => coderCall "process_new_refval" (.plain e) [jnatv nbits]
  | .constant dd v => coderCall "process_constant" dd [.int v]
  | .bitmapped opId sp =>
    methodDict "CoderMethodCall" "process_bitmapped_descriptor" [jnatv opId] (dumpProps sp) (some "OperatorDescriptor")
  | .defineBitmap reuse => methodDict "CoderMethodCall" "define_bitmap" [.bool reuse] .null none
  | .state m => methodDict "StateMethodCall" m.name [] .null none
  | .inc031031 => .obj [("type", .str "State031031Increment")]
  | .reset031031 => .obj [("type", .str "State031031Reset")]
  | .loop rep body =>
    .obj [("type", .str "Loop"), ("statements", .arr (dumpList body)),
          ("repeat", match rep with
            | .fixed n => jnatv n
            | .factor => methodDict "CoderMethodCall" "get_value_for_delayed_replication_factor" [] .null none)]
def dumpList : List Stmt → List JV
  | [] => []
  | x :: xs => dumpStmt x :: dumpList xs
end

/-- `CompiledTemplate.to_dict` without the table-group key and the template ids (which identify the
    tables `load` is given and the template; they play no part in execution) -/
def dump (prog : List Stmt) : JV :=
  .obj [("type", .str "CompiledTemplate"), ("statements", .arr (dumpList prog))]

def JV.asNat : JV → Option Nat
  | .int i => if 0 ≤ i then some i.toNat else none
  | _ => none
def JV.asInt : JV → Option Int
  | .int i => some i
  | _ => none
def JV.asPow : JV → Option Int
  | .pow10 s => some s
  | _ => none
def JV.asStr : JV → Option String
  | .str s => some s
  | _ => none
def JV.asBool : JV → Option Bool
  | .bool b => some b
  | _ => none
def JV.asArr : JV → Option (List JV)
  | .arr l => some l
  | _ => none

/-- anything the loader chokes on (KeyError, TypeError, AssertionError) -/
def orOther {α : Type} (o : Option α) : CM α :=
  match o with
  | some a => .ok a
  | none => .error .other

def natsOf : List JV → Option (List Nat)
  | [] => some []
  | x :: xs => match x.asNat, natsOf xs with
    | some n, some ns => some (n :: ns)
    | _, _ => none

/-- `state_properties` of a loaded call: `bsr_modifier` is rebuilt from its three components (F6);
    the model can only represent the triples that `207YYY` produces -/
def loadProps (j : JV) : CM StateProps := do
  let nb ← orOther ((j.get "new_nbytes").bind JV.asNat)
  let no ← orOther ((j.get "nbits_offset").bind JV.asInt)
  let so ← orOther ((j.get "scale_offset").bind JV.asInt)
  let bsr ← orOther ((j.get "bsr_modifier").bind JV.asArr)
  let assoc ← orOther (((j.get "nbits_of_associated").bind JV.asArr).bind natsOf)
  match bsr with
  | [a, b, c] =>
    let y ← orOther b.asNat
    if a.asNat = some ((10 * y + 2) / 3) ∧ c.asNat = some (10 ^ y) then
      pure { newNbytes := nb, nbitsOffset := no, scaleOffset := so, y207 := y, assocStack := assoc }
    else .error .other
  | _ => .error .other

/-- the descriptor argument of a loaded call: pseudo descriptors are rebuilt from the recorded class
    name and width (F7); everything else is looked up in the table group by id -/
def loadDesc (T : Tables) (typ : String) (id : Nat) (rest : List JV) : CM DDesc :=
  if typ = "AssociatedDescriptor" then do
    let n ← orOther ((rest.head?).bind JV.asNat)
    pure (.assoc id n)
  else if typ = "SkippedLocalDescriptor" then do
    let n ← orOther ((rest.head?).bind JV.asNat)
    pure (.skipped id n)
  else if 200000 ≤ id ∧ id < 300000 then pure (.oper id)
  else if id < 100000 then
    match T.b id with
    | some e => pure (.plain e)
    | none => .error .other            -- an undefined element: fails when the call is executed
  else .error .other

def loadCoderCall (T : Tables) (name : String) (j : JV) : CM Stmt := do
  let args ← orOther ((j.get "args").bind JV.asArr)
  let withD ← orOther ((j.get "with_descriptor").bind JV.asBool)
  if withD then
    match args with
    | [] => .error .other
    | a0 :: rest =>
      let id ← orOther a0.asNat
      let typ := ((j.get "descriptor_type").bind JV.asStr).getD ""
      if name = "process_bitmapped_descriptor" then do
        let sp ← loadProps (← orOther (j.get "state_properties"))
        match rest with
        | [] => if 200000 ≤ id ∧ id < 300000 then pure (.bitmapped id sp) else .error .other
        | _ => .error .other
      else do
        let dd ← loadDesc T typ id rest
        if name = "process_numeric" then
          match rest with
          | [a, b, c] => do pure (.numeric dd (← orOther a.asInt) (← orOther b.asPow) (← orOther c.asInt))
          | _ => .error .other
        else if name = "process_numeric_of_new_refval" then
          match rest with
          | [a, b, c] => do pure (.numericNewRef dd (← orOther a.asInt) (← orOther b.asPow) (← orOther c.asInt))
          | _ => .error .other
        else if name = "process_string" then
          match rest with
          | [a] => do pure (.string dd (← orOther a.asNat))
          | _ => .error .other
        else if name = "process_codeflag" then
          match rest with
          | [a] => do pure (.codeflag dd (← orOther a.asNat))
          | _ => .error .other
        else if name = "process_new_refval" then
          match dd, rest with
          | .plain e, [a] => do pure (.newRefval e (← orOther a.asNat))
          | _, _ => .error .other
        else if name = "process_constant" then
          match rest with
          | [a] => do pure (.constant dd (← orOther a.asInt))
          | _ => .error .other
        else .error .other
  else
    if name = "define_bitmap" then
      match args with
      | [a] => do pure (.defineBitmap (← orOther a.asBool))
      | _ => .error .other
    else .error .other

mutual
def loadStmt (T : Tables) : JV → CM Stmt
  | .obj l =>
    let j : JV := .obj l
    match (j.get "type").bind JV.asStr with
    | none => .error .other
    | some typ =>
      if typ = "State031031Increment" then .ok .inc031031
      else if typ = "State031031Reset" then .ok .reset031031
      else if typ = "StateMethodCall" then
        match ((j.get "method_name").bind JV.asStr).bind StateMethod.ofName with
        | some m => .ok (.state m)
        | none => .error .other
      else if typ = "CoderMethodCall" then
        match (j.get "method_name").bind JV.asStr with
        | some name => loadCoderCall T name j
        | none => .error .other
      else if typ = "Loop" then
        -- keys in the order `Loop.to_dict` writes them
        match l with
        | [_, (_, .arr body), (_, rep)] =>
          match loadList T body with
          | .error e => .error e
          | .ok b =>
            match rep with
            | .int i => if 0 ≤ i then .ok (.loop (.fixed i.toNat) b) else .error .other
            | .obj _ =>
              if (rep.get "method_name").bind JV.asStr = some "get_value_for_delayed_replication_factor"
              then .ok (.loop .factor b) else .error .other
            | _ => .error .other
        | _ => .error .other
      else .error .other
  | _ => .error .other
def loadList (T : Tables) : List JV → CM (List Stmt)
  | [] => .ok []
  | x :: xs => match loadStmt T x with
    | .error e => .error e
    | .ok s => match loadList T xs with
      | .error e => .error e
      | .ok ss => .ok (s :: ss)
end

/-- `loads_compiled_template` (after `json.loads`) -/
def load (T : Tables) (j : JV) : CM (List Stmt) :=
  if (j.get "type").bind JV.asStr = some "CompiledTemplate" then
    match (j.get "statements").bind JV.asArr with
    | some l => loadList T l
    | none => .error .other
  else .error .other

end Bufr
