/-
  Model of `pybufrkit/dataquery.py`: `NodePathParser.parse` (the hand-written 9-state
  machine with its accumulators) and `NodePath.__str__`.

  Modelled as the code is AFTER the fix recorded as F2 (end of input inside an unterminated
  selector / bracket is a parsing error).  Python's `int()` is modelled for the property's
  alphabet: an optional `-` followed by one or more ASCII digits (`+1`, `1_0`, non-ASCII digits
  are outside the alphabet and not modelled).  `string.whitespace` = the six ASCII blanks.
-/
import BufrModel.Basic.Bits
namespace Bufr.PathLang

/-- a Python `int` index or a `slice(a, b, c)` object -/
inductive Slice where
  | idx (i : Int)
  | range (a b c : Option Int)
  deriving DecidableEq, Repr, Inhabited

structure Comp where
  sep : Char
  id : List Char
  slice : Slice
  deriving DecidableEq, Repr, Inhabited

structure Path where
  subset : Option Slice
  comps : List Comp
  deriving DecidableEq, Repr, Inhabited

def isWs (c : Char) : Bool :=
  c == ' ' || c == '\t' || c == '\n' || c == '\r' || c == '\x0b' || c == '\x0c'

def isSep (c : Char) : Bool := c == '/' || c == '.' || c == '>'

def isDigit (c : Char) : Bool := '0' ≤ c && c ≤ '9'

/-- characters an expression may start with: `@/>0123456789ABCDEFGHIJKLMNOPQRSTUVWXYZ` -/
def firstOk (c : Char) : Bool :=
  c == '@' || c == '/' || c == '>' || isDigit c || ('A' ≤ c && c ≤ 'Z')

def digitsVal : List Char → Nat → Nat
  | [], acc => acc
  | c :: cs, acc => digitsVal cs (10 * acc + (c.toNat - '0'.toNat))

/-- `int(token)` for tokens over the property's alphabet -/
def parseInt? (tok : List Char) : Option Int :=
  match tok with
  | '-' :: ds => if ds ≠ [] ∧ ds.all isDigit then some (-(Int.ofNat (digitsVal ds 0))) else none
  | ds => if ds ≠ [] ∧ ds.all isDigit then some (Int.ofNat (digitsVal ds 0)) else none

inductive PState where
  | startParsing | startSubset | subsetSlice0 | subsetSliceX | stopSubsetSlice
  | startId | slice0 | sliceX | stopSlice
  deriving DecidableEq, Repr, Inhabited

structure PS where
  st : PState := .startParsing
  token : List Char := []
  elems : List (Option Int) := []
  curId : List Char := []
  curSep : Char := '>'
  subset : Option Slice := none
  comps : List Comp := []
  deriving Repr, Inhabited

abbrev PR := Except Err

/-- `create_slice_object` (with `bare_id_matches_all = True`) -/
def createSlice (elems : List (Option Int)) : PR Slice :=
  match elems with
  | [] => .ok (.range none none none)
  | [some i] => if 0 ≤ i then .ok (.idx i)
                else .ok (.range (some i) (if i ≠ -1 then some (i + 1) else none) none)
  | [none] => .error .other          -- the code's `assert isinstance(..., int)`; unreachable (see C15 theorems)
  | [a, b] => .ok (.range a b none)
  | [a, b, c] => .ok (.range a b c)
  | _ => .error .path

/-- `convert_id` -/
def convertId (s : PS) : PR (List Char × PS) :=
  if s.token = [] then .error .path else .ok (s.token, { s with token := [] })

/-- `convert_slice_element` -/
def convertSliceElem (s : PS) : PR (Option Int × PS) :=
  if s.token = [] then .ok (none, s)
  else match parseInt? s.token with
    | some i => .ok (some i, { s with token := [] })
    | none => .error .path

/-- `add_new_path_component` -/
def addComp (s : PS) : PR PS := do
  let slc ← createSlice s.elems
  pure { s with elems := [], comps := s.comps ++ [{ sep := s.curSep, id := s.curId, slice := slc }] }

def handleLeftBracket (s : PS) : PR PS :=
  match s.st with
  | .startSubset => .ok { s with st := .subsetSlice0 }
  | .startId => do
      let (i, s') ← convertId s
      pure { s' with st := .slice0, curId := i }
  | _ => .error .path

def handleColonOrRight (s : PS) (c : Char) : PR PS :=
  if !(s.st == .slice0 || s.st == .sliceX || s.st == .subsetSlice0 || s.st == .subsetSliceX) then .error .path
  else if c == ']' && s.token == [] && (s.st == .slice0 || s.st == .subsetSlice0) then .error .path
  else do
    let (e, s') ← convertSliceElem s
    let s'' := { s' with elems := s'.elems ++ [e] }
    if c == ':' then
      match s''.st with
      | .subsetSlice0 => pure { s'' with st := .subsetSliceX }
      | .slice0 => pure { s'' with st := .sliceX }
      | _ => pure s''
    else
      if s''.st == .subsetSlice0 || s''.st == .subsetSliceX then pure { s'' with st := .stopSubsetSlice }
      else pure { s'' with st := .stopSlice }

def handleSeparator (s : PS) (c : Char) : PR PS := do
  let s' ←
    (match s.st with
     | .startParsing =>
        if c != '.' then do
          let slc ← createSlice s.elems
          pure { s with elems := [], subset := some slc, st := .startId }
        else .error .path
     | .startId => do
        let (i, s1) ← convertId s
        addComp { s1 with curId := i }
     | .stopSubsetSlice =>
        if c == '.' then .error .path
        else do
          let slc ← createSlice s.elems
          pure { s with elems := [], subset := some slc }
     | .stopSlice => addComp s
     | _ => .error .path : PR PS)
  pure { s' with curSep := c, st := .startId }

/-- one character of the main loop -/
def step (s : PS) (c : Char) : PR PS :=
  if isWs c then .ok s
  else if c == '@' then
    (if s.st == .startParsing then .ok { s with st := .startSubset } else .error .path)
  else if c == '[' then handleLeftBracket s
  else if c == ':' || c == ']' then handleColonOrRight s c
  else if isSep c then handleSeparator s c
  else
    match s.st with
    | .startId | .subsetSlice0 | .subsetSliceX | .slice0 | .sliceX => .ok { s with token := s.token ++ [c] }
    | .startParsing => do
        let s' ← handleSeparator s '>'
        pure { s' with token := s'.token ++ [c] }
    | _ => .error .path

def run : PS → List Char → PR PS
  | s, [] => .ok s
  | s, c :: cs => match step s c with
    | .error e => .error e
    | .ok s' => run s' cs

/-- end of input -/
def finish (s : PS) : PR Path :=
  match s.st with
  | .startId => do
      let (i, s1) ← convertId s
      let s2 ← addComp { s1 with curId := i }
      pure { subset := s2.subset, comps := s2.comps }
  | .stopSlice => do
      let s2 ← addComp s
      pure { subset := s2.subset, comps := s2.comps }
  | _ => .error .path

/-- `NodePathParser.parse` -/
def parse (input : List Char) : PR Path :=
  match input.filter (fun c => !isWs c) with
  | [] => .error .path
  | c :: _ =>
    if !firstOk c then .error .path
    else match run {} input with
      | .error e => .error e
      | .ok s => finish s

/-! ### `NodePath.__str__` -/

def digitChar (d : Nat) : Char := Char.ofNat (d + 48)

/-- decimal digits of `n` (equal to `toString n`; defined by recursion to keep proofs simple) -/
def natDigits (n : Nat) : List Char :=
  if _h : n < 10 then [digitChar n] else natDigits (n / 10) ++ [digitChar (n % 10)]
termination_by n
decreasing_by omega

def intStr (i : Int) : List Char :=
  if i < 0 then '-' :: natDigits i.natAbs else natDigits i.toNat

def optIntStr : Option Int → List Char
  | none => []
  | some i => intStr i

def sliceStr : Slice → List Char
  | .idx i => ['['] ++ intStr i ++ [']']
  | .range a b c => ['['] ++ optIntStr a ++ [':'] ++ optIntStr b ++ [':'] ++ optIntStr c ++ [']']

def print (p : Path) : List Char :=
  (match p.subset with | none => [] | some s => '@' :: sliceStr s) ++
  p.comps.flatMap (fun c => c.sep :: (c.id ++ sliceStr c.slice))

end Bufr.PathLang
