/-
  Model of `pybufrkit/script.py` (and the dispatch of `pybufrkit/query.py`).

  * `preprocess` mirrors `process_embedded_query_expr`: the five-state character machine
    (idle, embedded query, single quote, double quote, comment), the order of its branches, the
    one-character lookahead after an unquoted `$` (the `{` is consumed together with the `$`), no
    escape handling inside quotes (a backslash is an ordinary character), a comment ending at the
    next `\n`, `str.strip()` of the collected expression, and first-occurrence numbering of the
    variables (`PBK_0`, `PBK_1`, ...; the dict of substitutions is modelled as an association list in
    insertion order, which is the iteration order of a Python >= 3.7 dict).
    End of input inside `${...` silently drops the collected characters (as the code does).
  * `processPragma` mirrors `ScriptRunner.process_pragma` (leading `#$` lines of the *processed* code,
    `line[3:]`, split on `,` then on `=`), `mkRunner` the constructor's precedence
    default < pragma < argument, and `metadataOnly`.
  * `flattenValues` mirrors `flatten_data_values` over a model of `QueryResult` (the per-subset
    value lists in insertion order; the subset keys are distinct by construction in `DataQuerent`).
  * `dispatch` mirrors `BufrMessageQuerent.query`: metadata iff the left-stripped expression
    starts with `%`; the empty expression is an `IndexError`.

  Not modelled: `compile`/`exec` of the processed code (Python itself) and `ast.literal_eval` beyond
  unsigned decimal literals (`literalEval`; anything else is reported as the non-library error family,
  which is what Python does for text that is not a literal, but Python accepts more literals).
-/
import BufrModel.Basic.Bits
namespace Bufr.Script

/-! ### `str.strip()` -/

/-- `str.isspace` for one character (what `str.strip()` without arguments removes). -/
def isPySpace (c : Char) : Bool :=
  let n := c.toNat
  (9 ≤ n && n ≤ 13) || (28 ≤ n && n ≤ 32) || n == 0x85 || n == 0xa0 || n == 0x1680 ||
  (0x2000 ≤ n && n ≤ 0x200a) || n == 0x2028 || n == 0x2029 || n == 0x202f || n == 0x205f || n == 0x3000

def lstrip (s : List Char) : List Char := s.dropWhile isPySpace
def rstrip (s : List Char) : List Char := (s.reverse.dropWhile isPySpace).reverse
/-- `s.strip()` -/
def trim (s : List Char) : List Char := rstrip (lstrip s)

/-! ### the character state machine -/

inductive St where
  | idle | embed | sq | dq | comment
  deriving DecidableEq, Repr, Inhabited

/-- `'PBK_{}'.format(i)` -/
def varName (i : Nat) : List Char := "PBK_".toList ++ Nat.toDigits 10 i

abbrev Subs := List (List Char × List Char)

/-- the local variables of `process_embedded_query_expr` -/
structure PS where
  st : St := .idle
  keep : List Char := []
  idxVar : Nat := 0
  subs : Subs := []
  expr : List Char := []
  deriving DecidableEq, Repr, Inhabited

def keepChar (ps : PS) (c : Char) : PS := { ps with keep := ps.keep ++ [c] }

/-- `}` in the embedded-query state -/
def closeEmbed (ps : PS) : PS :=
  let s := trim ps.expr
  match ps.subs.lookup s with
  | none =>
    let v := varName ps.idxVar
    { st := .idle, keep := ps.keep ++ v, idxVar := ps.idxVar + 1, subs := ps.subs ++ [(s, v)], expr := [] }
  | some v => { ps with st := .idle, keep := ps.keep ++ v, expr := [] }

/-- a quote character outside an embedded query: closes its own kind, opens when idle, is an
    ordinary character inside the other kind of quote and inside a comment -/
def onQuote (ps : PS) (c : Char) : PS :=
  let q : St := if c = '\'' then .sq else .dq
  let st' := if ps.st = q then St.idle else if ps.st = .idle then q else ps.st
  { ps with st := st', keep := ps.keep ++ [c] }

/-- The loop over the characters.  `skip = true` means the current character was already consumed by
    the lookahead of the previous iteration (the extra `idx_char += 1` after `${`). -/
def go (ps : PS) (skip : Bool) : List Char → PS
  | [] => ps
  | c :: rest =>
    if skip then go ps false rest
    else if ps.st = .embed then
      if c = '}' then go (closeEmbed ps) false rest
      else go { ps with expr := ps.expr ++ [c] } false rest
    else if c = '\'' ∨ c = '"' then go (onQuote ps c) false rest
    else if c = '$' ∧ ps.st = .idle then
      if rest.head? = some '{' then go { ps with st := .embed } true rest   -- `{` consumed with the `$`
      else go (keepChar ps c) false rest
    else if c = '#' ∧ ps.st = .idle then go { keepChar ps c with st := .comment } false rest
    else if c = '\n' ∧ ps.st = .comment then go { keepChar ps c with st := .idle } false rest
    else go (keepChar ps c) false rest

/-- `process_embedded_query_expr(input_string)` -> (code string, substitutions in insertion order) -/
def preprocess (s : List Char) : List Char × Subs :=
  let ps := go {} false s
  (ps.keep, ps.subs)

/-- the scan ends outside quoted literals and embedded queries (every literal and every `${` was closed) -/
def closedScript (s : List Char) : Bool :=
  let st := (go {} false s).st
  decide (st = .idle ∨ st = .comment)

/-! ### metadata / data dispatch -/

def startsWithPct (s : List Char) : Bool := s.head? == some '%'

/-- `ScriptRunner.metadata_only`: every key of the substitutions starts with `%` -/
def metadataOnly (subs : Subs) : Bool := subs.all fun kv => startsWithPct kv.1

inductive QueryKind where
  | metadata | data
  deriving DecidableEq, Repr, Inhabited

/-- `BufrMessageQuerent.query`: which querent gets the expression (`query_expr.lstrip()[0]`) -/
def dispatch (expr : List Char) : Except Err QueryKind :=
  match lstrip expr with
  | [] => .error .other
  | c :: _ => if c = '%' then .ok .metadata else .ok .data

/-! ### nest levels -/

/-- a value of a query result: a scalar or a (replication) list -/
inductive Val (α : Type) where
  | atom (a : α)
  | list (vs : List (Val α))
  deriving Repr, Inhabited

mutual
/-- `flatten_list` applied to one entry -/
def Val.flat {α : Type} : Val α → List α
  | .atom a => [a]
  | .list vs => flattenList vs
/-- `utils.flatten_list` -/
def flattenList {α : Type} : List (Val α) → List α
  | [] => []
  | v :: vs => v.flat ++ flattenList vs
end

/-- `QueryResult.results.values()`: one value list per selected subset, in insertion order -/
abbrev QueryResult (α : Type) := List (List (Val α))

/-- `qr.all_values(flat=True)` -/
def allValuesFlat {α : Type} (q : QueryResult α) : List (List α) := q.map flattenList

/-- `functools.reduce(lambda x, y: x + y, values, [])` -/
def reduceConcat {α : Type} (vs : List (List α)) : List α := vs.foldl (· ++ ·) []

/-- what `flatten_data_values` returns at a level -/
def LevelTy (α : Type) : Nat → Type
  | 0 => Option α
  | 1 => List α
  | 2 => List (List α)
  | _ => List (List (Val α))

/-- `ScriptRunner.flatten_data_values` (any level other than 0, 1, 2 means "no flattening") -/
def flattenValues {α : Type} : (level : Nat) → QueryResult α → LevelTy α level
  | 0, q =>
    let values := reduceConcat (allValuesFlat q)
    match values with
    | [] => none
    | v :: _ => some v
  | 1, q => reduceConcat (allValuesFlat q)
  | 2, q => allValuesFlat q
  | _ + 3, q => q

/-! ### pragma -/

/-- the line boundaries of `str.splitlines` -/
def isLineBreak (c : Char) : Bool :=
  let n := c.toNat
  (10 ≤ n && n ≤ 13) || (28 ≤ n && n ≤ 30) || n == 0x85 || n == 0x2028 || n == 0x2029

/-- `str.splitlines()` (no keepends): `\r\n` is one boundary (`afterCR`: the previous character was a
    `\r`, a `\n` now belongs to it), no empty last line -/
def splitLinesAux : List Char → Bool → List Char → List (List Char)
  | cur, _, [] => if cur = [] then [] else [cur]
  | cur, afterCR, c :: rest =>
    if afterCR ∧ c = '\n' then splitLinesAux cur false rest
    else if isLineBreak c then cur :: splitLinesAux [] (c = '\r') rest
    else splitLinesAux (cur ++ [c]) false rest

def splitLines (s : List Char) : List (List Char) := splitLinesAux [] false s

/-- `s.split(sep)` for a one-character separator -/
def splitOn (sep : Char) : List Char → List (List Char)
  | [] => [[]]
  | c :: rest =>
    match splitOn sep rest with
    | [] => [[]]  -- unreachable
    | p :: ps => if c = sep then [] :: p :: ps else (c :: p) :: ps

def isDigit (c : Char) : Bool := '0' ≤ c && c ≤ '9'

def digitsVal : List Char → Nat → Nat
  | [], acc => acc
  | c :: cs, acc => digitsVal cs (10 * acc + (c.toNat - '0'.toNat))

/-- `ast.literal_eval` on unsigned decimal literals (`0`, `00`, `7`, `12`; a leading zero before a
    non-zero literal is a SyntaxError in Python 3); everything else is outside the model and
    reported as the non-library error family -/
def literalEval (s : List Char) : Except Err Nat :=
  if s ≠ [] ∧ s.all isDigit ∧ (s.head? ≠ some '0' ∨ s.all (· == '0')) then .ok (digitsVal s 0) else .error .other

def pragmaKey : List Char := "data_values_nest_level".toList

/-- one `k=v` of a pragma line; `k, v = assignment.split('=')` needs exactly two parts -/
def pragmaAssign (cur : Option Nat) (assignment : List Char) : Except Err (Option Nat) :=
  match splitOn '=' assignment with
  | [k, v] =>
    if trim k = pragmaKey then (literalEval (trim v)).map some else .ok cur
  | _ => .error .other

def pragmaLine (cur : Option Nat) (line : List Char) : Except Err (Option Nat) :=
  (splitOn ',' (line.drop 3)).foldlM pragmaAssign cur

/-- `process_pragma` over the lines: stops at the first line that does not start with `#$` -/
def pragmaLines (cur : Option Nat) : List (List Char) → Except Err (Option Nat)
  | [] => .ok cur
  | line :: rest =>
    if "#$".toList.isPrefixOf line then
      match pragmaLine cur line with
      | .ok cur' => pragmaLines cur' rest
      | .error e => .error e
    else .ok cur

/-- the nest level set by the pragma lines of a processed code string, if any -/
def processPragma (code : List Char) : Except Err (Option Nat) := pragmaLines none (splitLines code)

def defaultLevel : Nat := 1

structure Runner where
  code : List Char
  subs : Subs
  level : Nat
  metadataOnly : Bool
  deriving DecidableEq, Repr, Inhabited

/-- `ScriptRunner.__init__` up to `compile` -/
def mkRunner (script : List Char) (arg : Option Nat) : Except Err Runner :=
  let (code, subs) := preprocess script
  match processPragma code with
  | .error e => .error e
  | .ok pl =>
    let level := pl.getD defaultLevel
    let level := match arg with | some a => a | none => level
    .ok { code := code, subs := subs, level := level, metadataOnly := metadataOnly subs }

/-- the names `prepare_variables` binds -/
def boundNames (subs : Subs) : List (List Char) :=
  subs.map (·.2) ++ ["PBK_BUFR_MESSAGE".toList, "PBK_FILENAME".toList]

end Bufr.Script
