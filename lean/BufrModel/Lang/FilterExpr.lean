/-
  The fragment of Python expressions that the stream check (C11) uses as `filter_expr` of
  `generate_bufr_message`: `ScriptRunner(filter_expr, mode='eval').run(msg)`.

  `prepare_variables` first evaluates EVERY embedded metadata query `${%...}` (an expression that cannot be
  parsed raises the library's `MetadataExprParsingError` there, whatever the rest of the expression says), then
  the code object is evaluated with the results bound to variables.  What is modelled of the evaluation:

    * values: `None`, `int`, `bool`, `str` (parameters of type `bin` are strings of '0'/'1'), `bytes`,
      `list` of ints (the unexpanded descriptors);
    * `==` / `!=`: bool and int compare as numbers, values of different kinds are unequal, `None == None`;
    * `<` `<=` `>` `>=`: numbers with numbers, str with str, bytes with bytes, list with list
      (lexicographic); anything else is a TypeError (`Err.other`: not a library error, so it ends the scan
      even with continue-on-error);
    * `not e` (truthiness: `None`, 0, `False`, '', b'', [] are false), `a and b` / `a or b` returning the
      deciding OPERAND (the scan only uses the truthiness of the final result);
    * `e in (c1, ..., cn)` / `not in` over literal constants (identity or equality with any of them);
    * `a in b` / `a not in b` where `b` is a list (equality with an element), a str (substring; `a` must be a
      str), bytes (`a` an int in 0..255 or bytes), anything else a TypeError;
    * `e is None` / `e is not None`.
-/
import BufrModel.Lang.MdQuery
namespace Bufr.FilterExpr

inductive PyVal where
  | none
  | int (v : Int)
  | bool (b : Bool)
  | str (s : List Char)
  | bytes (b : List UInt8)
  | ints (l : List Int)
  deriving DecidableEq, Repr, Inhabited

/-- a decoded parameter value as the Python object the query returns -/
def PyVal.ofPVal : PVal → PyVal
  | .int v => .int v
  | .bool b => .bool b
  | .bin bs => .str (bs.map fun b => if b then '1' else '0')
  | .bytes b => .bytes b
  | .descs ids => .ints (ids.map Int.ofNat)
  | .data => .none            -- never seen by a filter: the metadata-only decode has no template data

def PyVal.truthy : PyVal → Bool
  | .none => false | .int v => v != 0 | .bool b => b | .str s => !s.isEmpty | .bytes b => !b.isEmpty
  | .ints l => !l.isEmpty

/-- bool is a subclass of int -/
def PyVal.num? : PyVal → Option Int
  | .int v => some v
  | .bool b => some (if b then 1 else 0)
  | _ => Option.none

def pyEq (a b : PyVal) : Bool :=
  match a.num?, b.num? with
  | some x, some y => x == y
  | _, _ => a == b

/-- lexicographic `<` of two sequences -/
def lexLt {α : Type} (lt : α → α → Bool) (eq : α → α → Bool) : List α → List α → Bool
  | [], [] => false
  | [], _ :: _ => true
  | _ :: _, [] => false
  | x :: xs, y :: ys => if eq x y then lexLt lt eq xs ys else lt x y

def pyLt (a b : PyVal) : Except Err Bool :=
  match a.num?, b.num? with
  | some x, some y => .ok (decide (x < y))
  | _, _ =>
    match a, b with
    | .str x, .str y => .ok (lexLt (fun c d => decide (c.toNat < d.toNat)) (fun c d => c == d) x y)
    | .bytes x, .bytes y => .ok (lexLt (fun c d => decide (c.toNat < d.toNat)) (fun c d => c == d) x y)
    | .ints x, .ints y => .ok (lexLt (fun c d => decide (c < d)) (fun c d => c == d) x y)
    | _, _ => .error .other

def pyLe (a b : PyVal) : Except Err Bool :=
  match pyLt a b with
  | .error e => .error e
  | .ok lt => .ok (lt || pyEq a b)

def compare (op : String) (a b : PyVal) : Except Err Bool :=
  match op with
  | "==" => .ok (pyEq a b)
  | "!=" => .ok (!pyEq a b)
  | "<" => pyLt a b
  | "<=" => pyLe a b
  | ">" => pyLt b a
  | ">=" => pyLe b a
  | _ => .error .other

def isInfixB {α : Type} [BEq α] (xs : List α) : List α → Bool
  | [] => xs.isEmpty
  | y :: ys => xs.isPrefixOf (y :: ys) || isInfixB xs ys

/-- `a in b` -/
def pyIn (a b : PyVal) : Except Err Bool :=
  match b with
  | .ints l => .ok (l.any fun e => pyEq a (.int e))
  | .str s =>
    match a with
    | .str x => .ok (isInfixB x s)
    | _ => .error .other
  | .bytes s =>
    match a with
    | .bytes x => .ok (isInfixB x s)
    | .int v => if 0 ≤ v ∧ v < 256 then .ok (s.any fun c => Int.ofNat c.toNat == v) else .error .other
    | .bool v => .ok (s.any fun c => c.toNat == (if v then 1 else 0))
    | _ => .error .other
  | _ => .error .other

inductive FExpr where
  | q (e : String)                                  -- `${e}`
  | lit (v : PyVal)
  | cmp (op : String) (a b : FExpr)
  | neg (a : FExpr)
  | conj (a b : FExpr)
  | disj (a b : FExpr)
  | inLits (a : FExpr) (cs : List PyVal) (negated : Bool)
  | isIn (a b : FExpr) (negated : Bool)
  | isNone (a : FExpr) (negated : Bool)
  deriving Repr, Inhabited

/-- the embedded queries, in the order of their first occurrence (the substitution table) -/
def FExpr.queries : FExpr → List String
  | .q e => [e]
  | .lit _ => []
  | .cmp _ a b | .conj a b | .disj a b | .isIn a b _ => a.queries ++ b.queries
  | .neg a | .inLits a _ _ | .isNone a _ => a.queries

/-- evaluation with the query results supplied by `env` -/
def FExpr.eval (env : String → Except Err PyVal) : FExpr → Except Err PyVal
  | .q e => env e
  | .lit v => .ok v
  | .cmp op a b =>
    match a.eval env with
    | .error e => .error e
    | .ok x =>
      match b.eval env with
      | .error e => .error e
      | .ok y => (compare op x y).map PyVal.bool
  | .neg a => (a.eval env).map fun x => .bool (!x.truthy)
  | .conj a b =>
    match a.eval env with
    | .error e => .error e
    | .ok x => if x.truthy then b.eval env else .ok x
  | .disj a b =>
    match a.eval env with
    | .error e => .error e
    | .ok x => if x.truthy then .ok x else b.eval env
  | .inLits a cs negated => (a.eval env).map fun x => .bool ((cs.any fun c => pyEq x c) != negated)
  | .isIn a b negated =>
    match a.eval env with
    | .error e => .error e
    | .ok x =>
      match b.eval env with
      | .error e => .error e
      | .ok y => (pyIn x y).map fun r => .bool (r != negated)
  | .isNone a negated => (a.eval env).map fun x => .bool ((x == PyVal.none) != negated)

/-- one metadata query on the decoded sections: the Python value (`None` when nothing matches) -/
def queryVal (secs : List DecSection) (e : String) : Except Err PyVal :=
  (MdQuery.query secs e.toList).map fun v => match v with
    | some p => PyVal.ofPVal p
    | Option.none => PyVal.none

/-- `ScriptRunner.run` in eval mode, as the scan uses it: all queries first, then the truthiness of the value -/
def run (fe : FExpr) (secs : List DecSection) : Except Err Bool :=
  match fe.queries.mapM (fun e => (queryVal secs e).map fun _ => ()) with
  | .error e => .error e
  | .ok _ => (fe.eval (queryVal secs)).map PyVal.truthy

/-! closed evaluations: what `0`, `None` and `False` do -/

example : (FExpr.cmp "==" (.lit (.int 0)) (.lit (.int 0))).eval (fun _ => .ok .none) = .ok (.bool true) := by decide
example : (FExpr.cmp "==" (.q "x") (.lit (.int 0))).eval (fun _ => .ok .none) = .ok (.bool false) := by decide
example : (FExpr.cmp "<" (.q "x") (.lit (.int 1))).eval (fun _ => .ok .none) = .error .other := by decide
example : (FExpr.cmp "==" (.lit (.bool false)) (.lit (.int 0))).eval (fun _ => .ok .none) = .ok (.bool true) := by decide
example : (FExpr.disj (.q "x") (.lit (.int 7))).eval (fun _ => .ok (.int 0)) = .ok (.int 7) := by decide
example : (FExpr.conj (.q "x") (.cmp "<" (.lit .none) (.lit (.int 1)))).eval (fun _ => .ok (.int 0)) = .ok (.int 0) := by decide
example : pyIn (.int 301001) (.ints [1, 301001]) = .ok true := by decide
example : pyIn (.str ['1']) (.str ['0', '1', '0']) = .ok true := by decide
example : pyLt (.ints [1, 2]) (.ints [1, 2, 0]) = .ok true := by decide

end Bufr.FilterExpr
