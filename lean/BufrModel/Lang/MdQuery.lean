/-
  Metadata queries (`pybufrkit/mdquery.py`: `MetadataExprParser.parse`, `MetadataQuerent.query`).

  Strings are `List Char`.  Modelled faithfully, including what is an accident of the code:
    * `metadata_expr.strip()` then `metadata_expr[0]`: the empty (all-blank) expression is an IndexError
      (`Err.other`);
    * `'.' in expr` -> `expr[1:].split('.')` must give exactly two parts, otherwise the tuple unpacking
      raises ValueError (`Err.other`);
    * `int(section_index)`: blanks around (the `str.isspace` characters except U+001C..U+001F: CPython's
      `int` keeps ASCII characters as they are and its own blank test does not know these four, so
      `int('\x1c1')` is a ValueError although `'\x1c1'.strip()` is `'1'`), one optional sign, ASCII
      digits with single underscores between digits (non-ASCII digits, which Python accepts too, and the
      limit of 4300 digits of CPython >= 3.11 are outside the modelled domain: see `C17_src_parse`);
      failure is the library's `MetadataExprParsingError` (`Err.mdExpr`);
    * the name is whatever follows, unchecked;
    * `query`: the sections whose `index` metadata equals the given one (all when none is given), in
      message order; the first parameter with that name wins; `None` when there is none.
-/
import BufrModel.Msg.Sections
namespace Bufr.MdQuery

/-- `str.isspace` -/
def isSpace (c : Char) : Bool :=
  let n := c.toNat
  (9 ≤ n && n ≤ 13) || (28 ≤ n && n ≤ 32) || n == 0x85 || n == 0xa0 || n == 0x1680 ||
  (0x2000 ≤ n && n ≤ 0x200a) || n == 0x2028 || n == 0x2029 || n == 0x202f || n == 0x205f || n == 0x3000

def strip (s : List Char) : List Char :=
  ((s.dropWhile isSpace).reverse.dropWhile isSpace).reverse

/-- `str.split('.')` -/
def splitDot : List Char → List (List Char)
  | [] => [[]]
  | c :: cs =>
    if c = '.' then [] :: splitDot cs
    else match splitDot cs with
      | [] => [[c]]            -- unreachable: the result is never empty
      | hd :: tl => (c :: hd) :: tl

def isDigit (c : Char) : Bool := '0' ≤ c && c ≤ '9'

/-- digits with single underscores between them; accumulates the value -/
def digitsVal : Nat → List Char → Option Nat
  | acc, [] => some acc
  | acc, c :: cs =>
    if isDigit c then digitsVal (acc * 10 + (c.toNat - 48)) cs
    else if c = '_' then
      match cs with
      | d :: _ => if isDigit d then digitsVal acc cs else none
      | [] => none
    else none

def natLit (s : List Char) : Option Nat :=
  match s with
  | c :: _ => if isDigit c then digitsVal 0 s else none
  | [] => none

/-- the blanks `int()` skips around the number: `str.isspace` without U+001C..U+001F -/
def isIntSpace (c : Char) : Bool := isSpace c && !(28 ≤ c.toNat && c.toNat ≤ 31)

def stripInt (s : List Char) : List Char :=
  ((s.dropWhile isIntSpace).reverse.dropWhile isIntSpace).reverse

/-- Python `int(str)` on the modelled alphabet -/
def parseInt (s : List Char) : Option Int :=
  match stripInt s with
  | '-' :: r => (natLit r).map fun n => -(Int.ofNat n)
  | '+' :: r => (natLit r).map Int.ofNat
  | r => (natLit r).map Int.ofNat

structure Expr where
  sec : Option Int
  name : List Char
  deriving Repr, DecidableEq

def parse (e : List Char) : Except Err Expr :=
  match strip e with
  | [] => .error .other
  | c :: rest =>
    if c ≠ '%' then .error .mdExpr
    else if rest.contains '.' then
      match splitDot rest with
      | [a, b] =>
        match parseInt a with
        | none => .error .mdExpr
        | some k => .ok { sec := some k, name := b }
      | _ => .error .other
    else .ok { sec := none, name := rest }

def DecSection.param? (s : DecSection) (name : String) : Option PVal := s.params.lookup name

def selects (sec : Option Int) (s : DecSection) : Bool :=
  match sec with
  | none => true
  | some k => Int.ofNat s.index == k

def lookup (secs : List DecSection) (ex : Expr) : Option PVal :=
  ((secs.filter (selects ex.sec)).map fun s => DecSection.param? s (String.ofList ex.name)).findSome? id

def query (secs : List DecSection) (e : List Char) : Except Err (Option PVal) :=
  match parse e with
  | .error err => .error err
  | .ok ex => .ok (lookup secs ex)

end Bufr.MdQuery
