/-
  `NodePathParser` as the OBJECT it is (`pybufrkit/dataquery.py`): the attributes that survive from one call of
  `parse` to the next, `reset()`, and `parse` as a method that reads and writes them.

  `Lang/PathParser.lean` models one call of `parse` as a function of the input (the run starts from the literal
  initial state `{}`).  The code does not start from a literal: it calls `self.reset()` on an object that has parsed
  other expressions before — accepted ones, and rejected ones whose exception left the accumulators wherever the
  failing handler stood.  Here:

    * `PObj`        the attributes: `pos`, and (in `ps`) `current_state`, `current_token`, `current_id`,
                    `current_separator`, `current_slice_elements`, `node_path` (subset slice, components);
    * `PObj.reset`  `reset()` followed by the three assignments `parse` makes before its loop
                    (`node_path = NodePath(..)`, `current_state = START_PARSING`, `current_token = ''`), field by field;
    * `stepLeft`    what a handler that raises leaves behind (the handlers assign before they raise in three places);
    * `parseObj`    `parse`: the two early checks raise BEFORE `reset()` (the object is not touched at all), then
                    reset, the loop with `pos`, the end-of-input handling; returns the answer and the object afterwards;
    * `parseAll`    a history: the answers of a list of inputs given one after the other to one object.

  `parseObj` / `parseAll` take the reset function as a parameter so that a parser whose `reset` forgets an
  accumulator can be written down and shown to be history DEPENDENT (`PObj.resetKeepElems`, the seeded changes
  C15-1 / C16-3); the model of the code is the instance with `PObj.reset`.
  Theorems: `Props/C15History.lean` (`C15_parse_history_independent`, unbounded in the number and content of the
  earlier inputs and in the state of the object).
-/
import BufrModel.Lang.PathParser
namespace Bufr.PathLang

/-- the attributes of a `NodePathParser` (any values: whatever earlier calls left) -/
structure PObj where
  pos : Nat := 0
  ps : PS := {}
  deriving Repr, Inhabited

/-- `self.reset()` + `self.node_path = NodePath(path_expr)` + `self.current_state = STATE_START_PARSING` +
    `self.current_token = ''` (`None` for the id / separator is the model's default value) -/
def PObj.reset (o : PObj) : PObj :=
  { o with pos := 0,
           ps := { o.ps with st := .startParsing, token := [], curId := [], curSep := '>', elems := [],
                             subset := none, comps := [] } }

/-- a `reset()` that does not clear `current_slice_elements` (seeded changes C15-1 / C16-3) -/
def PObj.resetKeepElems (o : PObj) : PObj :=
  { o with pos := 0,
           ps := { o.ps with st := .startParsing, token := [], curId := [], curSep := '>',
                             subset := none, comps := [] } }

/-- the accumulators after a handler has raised on character `c` in state `s` (`step s c` is an error).
    The handlers raise before they assign, except:
    `[` in `START_ID` sets `current_state = START_SLICE_0` before `convert_id()` raises on an empty token;
    a separator in `START_ID` has emptied the token and set `current_id` when `add_new_path_component` raises
    (more than three buffered slice elements — possible only with a `reset` that keeps the buffer). -/
def stepLeft (s : PS) (c : Char) : PS :=
  if c == '[' && s.st == .startId && s.token == [] then { s with st := .slice0 }
  else if isSep c && s.st == .startId && s.token != [] then { s with token := [], curId := s.token }
  else s

/-- the main loop on an object: `none` = ran to the end of the input -/
def runObj : PObj → List Char → Option Err × PObj
  | o, [] => (none, o)
  | o, c :: cs => match step o.ps c with
    | .error e => (some e, { o with ps := stepLeft o.ps c })
    | .ok s' => runObj { pos := o.pos + 1, ps := s' } cs

/-- end of input on an object: the answer and what is left (`convert_id` empties the token and the component is
    added; a raise in `create_slice_object` comes after the token was emptied) -/
def finishObj (o : PObj) : PR Path × PObj :=
  match o.ps.st with
  | .startId =>
    (match convertId o.ps with
     | .error e => (.error e, o)
     | .ok (i, s1) => match addComp { s1 with curId := i } with
       | .error e => (.error e, { o with ps := { s1 with curId := i } })
       | .ok s2 => (.ok { subset := s2.subset, comps := s2.comps }, { o with ps := s2 }))
  | .stopSlice =>
    (match addComp o.ps with
     | .error e => (.error e, o)
     | .ok s2 => (.ok { subset := s2.subset, comps := s2.comps }, { o with ps := s2 }))
  | _ => (.error .path, o)

/-- `NodePathParser.parse` on the object `o` with `reset` as its reset method: (answer, object afterwards) -/
def parseObj (reset : PObj → PObj) (o : PObj) (input : List Char) : PR Path × PObj :=
  match input.filter (fun c => !isWs c) with
  | [] => (.error .path, o)                          -- 'Empty path expression': raised before `reset()`
  | c :: _ =>
    if !firstOk c then (.error .path, o)             -- first-character check: before `reset()` too
    else match runObj (reset o) input with
      | (some e, o') => (.error e, o')
      | (none, o') => finishObj o'

/-- the answers of the inputs `hist`, given one after the other to the object `o` -/
def parseAll (reset : PObj → PObj) : PObj → List (List Char) → List (PR Path)
  | _, [] => []
  | o, s :: ss => (parseObj reset o s).1 :: parseAll reset (parseObj reset o s).2 ss

/-- the object after the inputs `hist` -/
def afterAll (reset : PObj → PObj) : PObj → List (List Char) → PObj
  | o, [] => o
  | o, s :: ss => afterAll reset (parseObj reset o s).2 ss

end Bufr.PathLang
