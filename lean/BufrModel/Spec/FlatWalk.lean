/-
  FM-94 data description semantics over the FLAT descriptor list (specification for C01).

  The implementation first builds a TREE from the unexpanded descriptor list (`buildD`: a
  replication descriptor owns a list of member nodes, a sequence descriptor owns the nodes of its
  Table D row) and then walks the tree (`walkList` / `walk1`).  FM-94 (Regulations 94.5.3-94.5.5)
  defines the meaning of a data description on the flat list, by counting:

    * 0XXYYY  element descriptor: one data field described by the Table B entry;
    * 1XXYYY  replication descriptor: "the next XX descriptors are repeated YYY times"; for YYY = 0
              the count is the value of the class-31 element descriptor that follows the replication
              descriptor, which is not itself counted among the XX;
    * 2XXYYY  operator descriptor: acts on the coder registers / on the descriptors that follow;
    * 3XXYYY  sequence descriptor: "replaced by the list of descriptors of the Table D entry".

  `flatWalk` is that reading, executable: it never builds a tree, it consumes the id list from the
  left, counts `XX` ids with `take` / `drop`, and expands a Table D row at the moment the sequence
  descriptor is reached.  The actions performed for ONE descriptor are the model's own pure pieces
  (`elementDescriptor`, `operatorDescriptor`, `bitmapDefinition`, `iterN`, `factorCount`); what is
  specified independently here is the STRUCTURE: which descriptors are processed, how often and in
  which order.  `Props/C01Flat.lean` proves `flatWalk = buildD ; walkList`.

  Every id of the flat list except the factor of a delayed replication is a MEMBER and is subject
  to the member prelude of `process_members` (`memberPrelude`: 221 count, 203 definition mode,
  206 skip, bitmap-definition machine).  A replication (sequence) descriptor is a member whose
  action is "repeat (run) its scope"; the ids of the scope are members again, each time they are
  processed.  When the prelude by-passes the action of a member (206YYY pending: the member is
  replaced by one YYY-bit field), the operands of that member (factor and scope of a replication) are
  by-passed with it: that is the implementation's behaviour, FM-94 does not define 206YYY in front of
  anything but a local element descriptor; `fm94Strict` below excludes such templates statically.
-/
import BufrModel.Coder.Decode
namespace Bufr.Spec
open Bufr

/-- the classes of element descriptors for which data are present under 221YYY (classes 1-9, 31) -/
def dnpKeeps (e : Elem) : Bool := (1 ≤ xOf e.id && xOf e.id ≤ 9) || xOf e.id == 31

/-- Rules 2-5 of the member prelude (see `memberPrelude`). -/
def memberRules (P : Prims) (id : Nat) (eo : Option Elem) (act : St → CM St) (s : St) : CM St :=
  match (if s.regs.nbitsNewRefval ≠ 0 then eo else none) with
  | some e =>
    if e.kind = .string then .error .lib else P.newRefval e s.regs.nbitsNewRefval s
  | none =>
    if s.regs.nbitsSkipped ≠ 0 then
      match P.codeflag (.skipped id s.regs.nbitsSkipped) s.regs.nbitsSkipped s with
      | .error e => .error e
      | .ok s' => .ok (s'.setRegs fun r => { r with nbitsSkipped := 0 })
    else
      match bitmapDefinition P id s with
      | .error e => .error e
      | .ok s' => act s'

/-- What happens to one member `id` of a flat list before (or instead of) its own action `act`.
    `eo` is the Table B entry when the member is a known element descriptor.

    1. 221YYY active: the member is counted; an element outside classes 1-9 and 31 has no data.
    2. 203YYY active and the member is an element: its field is a new reference value.
    3. 206YYY pending: the member is not interpreted, a YYY-bit field stands in its place.
    4. a bitmap is being defined: the member is shown to the bitmap-definition machine.
    5. the member's own action. -/
def memberPrelude (P : Prims) (id : Nat) (eo : Option Elem) (act : St → CM St) (s0 : St) : CM St :=
  let dnp := s0.regs.dnpCount
  let s := if dnp ≠ 0 then s0.setRegs fun r => { r with dnpCount := dnp - 1 } else s0
  if dnp ≠ 0 && (match eo with | some e => !dnpKeeps e | none => false) then .ok s
  else memberRules P id eo act s

/-- the action of a delayed replication `1XX000` with factor id `f` and scope `body`:
    process the factor as an element (no member prelude), read the count back, repeat the scope -/
def delayedAction (P : Prims) (T : Tables) (f : Nat) (body : St → CM St) (s : St) : CM St :=
  match T.b f with
  | none => .error .unknownDescr                     -- the factor is not a Table B element
  | some fe =>
    match elementDescriptor P (.plain fe) fe s with
    | .error e => .error e
    | .ok s1 =>
      match P.factorValue s1 >>= factorCount with
      | .error e => .error e
      | .ok n => iterN n body s1

/-- FM-94 reading of the flat descriptor list `ids`, from state `s`.  `fuel` bounds the nesting of
    Table D references (a row that is reached with no fuel left is an error, as is a descriptor that
    is in no table, or a delayed replication without a factor: all *when reached*). -/
def flatWalk (P : Prims) (T : Tables) (fuel : Nat) (ids : List Nat) (s : St) : CM St :=
  match ids with
  | [] => .ok s
  | id :: rest =>
    if 300000 ≤ id then
      -- sequence descriptor: replaced by its Table D row
      match T.d id with
      | none =>
        memberPrelude P id none (fun _ => .error .unknownDescr) s >>= fun s' => flatWalk P T fuel rest s'
      | some row =>
        match fuel with
        | 0 => .error .other
        | fuel' + 1 =>
          memberPrelude P id none (fun s' => flatWalk P T fuel' row s') s
            >>= fun s' => flatWalk P T (fuel' + 1) rest s'
    else if 200000 ≤ id then
      memberPrelude P id none (operatorDescriptor P id) s >>= fun s' => flatWalk P T fuel rest s'
    else if 100000 ≤ id then
      -- replication descriptor: the next X ids, Y times
      if yOf id = 0 then
        match rest with
        | [] => .error .other
        | f :: rest' =>
          memberPrelude P id none
              (delayedAction P T f (fun s' => flatWalk P T fuel (rest'.take (xOf id)) s')) s
            >>= fun s' => flatWalk P T fuel (rest'.drop (xOf id)) s'
      else
        memberPrelude P id none (iterN (yOf id) (fun s' => flatWalk P T fuel (rest.take (xOf id)) s')) s
          >>= fun s' => flatWalk P T fuel (rest.drop (xOf id)) s'
    else
      -- element descriptor
      match T.b id with
      | none =>
        memberPrelude P id none (fun _ => .error .unknownDescr) s >>= fun s' => flatWalk P T fuel rest s'
      | some e =>
        memberPrelude P e.id (some e) (elementDescriptor P (.plain e) e) s
          >>= fun s' => flatWalk P T fuel rest s'
termination_by (fuel, ids.length)
decreasing_by
  all_goals simp_wf
  all_goals first
    | exact Prod.Lex.left _ _ (by omega)
    | exact Prod.Lex.right _ (by omega)

/-! ### well-formedness -/

/-- `wfCount T depth ids`: the flat list is WELL COUNTED within Table D nesting depth `depth`:

    * every delayed replication `1XX000` is followed, inside its own list, by its factor
      (the scope of an enclosing replication or the end of a Table D row cuts the list);
    * the scope of every replication (its next `XX` ids, or what is left of the list when fewer
      follow: `generate_quiet`) and the remainder after it are well counted;
    * every Table D row referred to is well counted at depth `depth - 1` (so chains of Table D
      references are no longer than `depth`: in particular no cycle is entered).

    Ids that are in no table are allowed (both readings fail with `unknownDescr` when they reach
    them).  Nothing is required of operators. -/
def wfCount (T : Tables) (depth : Nat) (ids : List Nat) : Bool :=
  match ids with
  | [] => true
  | id :: rest =>
    if 300000 ≤ id then
      match T.d id with
      | none => wfCount T depth rest
      | some row =>
        match depth with
        | 0 => false
        | depth' + 1 => wfCount T depth' row && wfCount T (depth' + 1) rest
    else if 200000 ≤ id then wfCount T depth rest
    else if 100000 ≤ id then
      if yOf id = 0 then
        match rest with
        | [] => false
        | _ :: rest' => wfCount T depth (rest'.take (xOf id)) && wfCount T depth (rest'.drop (xOf id))
      else wfCount T depth (rest.take (xOf id)) && wfCount T depth (rest.drop (xOf id))
    else wfCount T depth rest
termination_by (depth, ids.length)
decreasing_by
  all_goals simp_wf
  all_goals first
    | exact Prod.Lex.left _ _ (by omega)
    | exact Prod.Lex.right _ (by omega)

/-- The hypothesis of `C01_flat_eq_tree`. -/
def WFflat (T : Tables) (depth : Nat) (ids : List Nat) : Prop := wfCount T depth ids = true

instance (T : Tables) (depth : Nat) (ids : List Nat) : Decidable (WFflat T depth ids) :=
  inferInstanceAs (Decidable (wfCount T depth ids = true))

/-- `scopesClosed ids`: every replication descriptor at the top level of `ids` finds its factor (when
    YYY = 0) and its full `XX` ids inside `ids`, so that no scope reaches beyond the end of the list
    (FM-94: "the next XX descriptors" exist).  A list with this property can be spliced in front of
    another one without changing its meaning (`C01_flat_append`). -/
def scopesClosed (ids : List Nat) : Bool :=
  match ids with
  | [] => true
  | id :: rest =>
    if 100000 ≤ id ∧ id < 200000 then
      if yOf id = 0 then
        match rest with
        | [] => false
        | _ :: rest' => decide (xOf id ≤ rest'.length) && scopesClosed (rest'.drop (xOf id))
      else decide (xOf id ≤ rest.length) && scopesClosed (rest.drop (xOf id))
    else scopesClosed rest
termination_by ids.length
decreasing_by all_goals (simp only [List.length_drop, List.length_cons]; omega)

/-- is the id a composite (replication or sequence descriptor)? -/
def isComposite (id : Nat) : Bool := (100000 ≤ id && id < 200000) || 300000 ≤ id

/-- `fm94Strict T depth ids`: the stricter, purely FM-94 notion of a well-formed data description
    (not needed by the equivalence theorem; reported by the driver):

    * well counted as in `wfCount`, and moreover every replication finds its full `XX` ids;
    * `206YYY` (YYY ≠ 0) is followed, in the same list, by a descriptor that is not composite
      (FM-94: by a local element descriptor);
    * `221YYY` is followed, in the same list, by `YYY` element descriptors;
    * `203YYY` (YYY ≠ 0, 255) is followed, in the same list, by element descriptors only up to the
      closing `203255`. -/
def fm94Strict (T : Tables) (depth : Nat) (ids : List Nat) : Bool :=
  match ids with
  | [] => true
  | id :: rest =>
    if 300000 ≤ id then
      match T.d id with
      | none => fm94Strict T depth rest
      | some row =>
        match depth with
        | 0 => false
        | depth' + 1 => fm94Strict T depth' row && fm94Strict T (depth' + 1) rest
    else if 200000 ≤ id then
      (if id / 1000 = 206 ∧ yOf id ≠ 0 then
        (match rest with | [] => false | nxt :: _ => !isComposite nxt) else true)
      && (if id / 1000 = 221 then
        decide (yOf id ≤ rest.length) && (rest.take (yOf id)).all (fun i => decide (i < 100000)) else true)
      && (if id / 1000 = 203 ∧ yOf id ≠ 0 ∧ yOf id ≠ 255 then
        rest.contains 203255 && (rest.takeWhile (· != 203255)).all (fun i => decide (i < 100000)) else true)
      && fm94Strict T depth rest
    else if 100000 ≤ id then
      if yOf id = 0 then
        match rest with
        | [] => false
        | _ :: rest' =>
          decide (xOf id ≤ rest'.length)
            && fm94Strict T depth (rest'.take (xOf id)) && fm94Strict T depth (rest'.drop (xOf id))
      else
        decide (xOf id ≤ rest.length)
          && fm94Strict T depth (rest.take (xOf id)) && fm94Strict T depth (rest.drop (xOf id))
    else fm94Strict T depth rest
termination_by (depth, ids.length)
decreasing_by
  all_goals simp_wf
  all_goals first
    | exact Prod.Lex.left _ _ (by omega)
    | exact Prod.Lex.right _ (by omega)

/-! ### decoding through the flat reading (mirrors `decodeSubset` … `decodeData`) -/

def flatDecodeSubset (T : Tables) (fuel : Nat) (ids : List Nat) (bits : Bits) : CM (SubsetOut × Bits) :=
  match flatWalk decPrimsU T fuel ids { bits := bits, vals := [[]] } with
  | .error e => .error e
  | .ok s => .ok ({ descs := s.descs.reverse, vals := (s.vals.headD []).reverse, links := s.links.reverse }, s.bits)

def flatDecodeSubsets (T : Tables) (fuel : Nat) (ids : List Nat) : Nat → Bits → CM (List SubsetOut × Bits)
  | 0, bits => .ok ([], bits)
  | n + 1, bits => match flatDecodeSubset T fuel ids bits with
    | .error e => .error e
    | .ok (o, rest) => match flatDecodeSubsets T fuel ids n rest with
      | .error e => .error e
      | .ok (os, rest') => .ok (o :: os, rest')

def flatDecodeCompressed (T : Tables) (fuel : Nat) (ids : List Nat) (n : Nat) (bits : Bits) :
    CM (List SubsetOut × Bits) :=
  match flatWalk decPrimsC T fuel ids { bits := bits, vals := List.replicate n [] } with
  | .error e => .error e
  | .ok s => .ok (s.outs, s.bits)

def flatDecodeData (T : Tables) (fuel : Nat) (ids : List Nat) (compressed : Bool) (n : Nat) (bits : Bits) :
    CM (List SubsetOut × Bits) :=
  if compressed then flatDecodeCompressed T fuel ids n bits else flatDecodeSubsets T fuel ids n bits

end Bufr.Spec
