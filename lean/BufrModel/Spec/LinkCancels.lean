/-
  C07: the second input of `Spec.links` — the TIMES at which the walk processed a `235000` (cancel backward
  data reference), as numbers of items recorded before it.  The coder records no item for 235000, so the
  item list alone cannot show them; `cancelsL P t s` reads them off the run of `walkList P t` from `s`:
  it follows the same recursion as the walk (using the walk itself for the states) and emits the number
  of items recorded whenever the member dispatched is the operator `235YYY`.

  Nothing here changes the walk; for templates without 235000 the result is `[]` (`cancelsL_no235`,
  Lemmas/LinkSpecInv.lean).  The harness obtains the same numbers from the implementation by wrapping
  `CoderState.cancel_all_back_references`.
-/
import BufrModel.Coder.Walk
namespace Bufr.Spec

/-- the state in which `walk1 P d` dispatches on `d` — after the prelude (221YYY count-down, bit-map
    definition state machine) — when it gets that far (not skipped by 221YYY / 203YYY / 206YYY) -/
def entryOf (P : Prims) (d : Desc) (s0 : St) : Option St :=
  let dnp := s0.regs.dnpCount
  let s := if dnp ≠ 0 then s0.setRegs fun r => { r with dnpCount := dnp - 1 } else s0
  let skip : Bool :=
    dnp ≠ 0 && (match d with
      | .elem e => !((1 ≤ xOf e.id && xOf e.id ≤ 9) || xOf e.id == 31)
      | _ => false)
  if skip then none
  else
    match (if s.regs.nbitsNewRefval ≠ 0 then (match d with | .elem e => some e | _ => none) else none) with
    | some _ => none
    | none =>
      if s.regs.nbitsSkipped ≠ 0 then none
      else
        match bitmapDefinition P d.id s with
        | .error _ => none
        | .ok s1 => some s1

/-- the cancel times of `n` iterations of `f`, when one iteration from `s` has the cancel times `c s` -/
def ghostIter (f : St → CM St) (c : St → List Nat) : Nat → St → List Nat
  | 0, _ => []
  | n + 1, s => c s ++ (match f s with
    | .ok s' => ghostIter f c n s'
    | .error _ => [])

mutual
/-- the times (numbers of items recorded so far) at which `walkList P t` from `s` processes a 235YYY -/
def cancelsL (P : Prims) : List Desc → St → List Nat
  | [], _ => []
  | d :: ds, s => cancels1 P d s ++ (match walk1 P d s with
    | .ok s' => cancelsL P ds s'
    | .error _ => [])

def cancels1 (P : Prims) : Desc → St → List Nat
  | d, s0 =>
    match entryOf P d s0 with
    | none => []
    | some s =>
      match d with
      | .op id => if id / 1000 = 235 then [s.descs.length] else []
      | .fixedRep id ms => ghostIter (walkList P ms) (cancelsL P ms) (yOf id) s
      | .delayedRep _ f ms =>
        (match f with
         | .elem fe =>
           (match elementDescriptor P (.plain fe) fe s with
            | .error _ => []
            | .ok s1 =>
              (match P.factorValue s1 >>= factorCount with
               | .error _ => []
               | .ok n => ghostIter (walkList P ms) (cancelsL P ms) n s1))
         | _ => [])
      | .seq _ ms => cancelsL P ms s
      | .elem _ => []
      | .undefElem _ => []
      | .undefSeq _ => []
end

mutual
/-- no operator 235YYY anywhere in the template -/
def noCancelD : Desc → Bool
  | .op id => id / 1000 != 235
  | .fixedRep _ ms => noCancelL ms
  | .delayedRep _ _ ms => noCancelL ms
  | .seq _ ms => noCancelL ms
  | .elem _ => true
  | .undefElem _ => true
  | .undefSeq _ => true
def noCancelL : List Desc → Bool
  | [] => true
  | d :: ds => noCancelD d && noCancelL ds
end

end Bufr.Spec
