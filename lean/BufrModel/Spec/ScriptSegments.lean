/-
  Specification for C18: a script as a sequence of *segments* and what preprocessing must do with
  it, written without any character-level state: the result is described globally (the table is the
  list of distinct trimmed expressions in order of first occurrence; every embed is replaced by the
  name found at its expression's position in that table; every other segment is rendered unchanged).
-/
import BufrModel.Lang.Script
namespace Bufr.Script.Spec

/-- the pieces a script is assembled from -/
inductive Seg where
  /-- plain code: no quote, no `#`, no `${` -/
  | code (s : List Char)
  /-- `'s'`, escape-free: `s` has no `'` -/
  | sq (s : List Char)
  /-- `"s"`, escape-free: `s` has no `"` -/
  | dq (s : List Char)
  /-- `#s` followed by a newline (`nl = true`) or by the end of the script -/
  | comment (s : List Char) (nl : Bool)
  /-- `${e}`; `e` has no `}` -/
  | embed (e : List Char)
  deriving DecidableEq, Repr, Inhabited

def Seg.render : Seg → List Char
  | .code s => s
  | .sq s => '\'' :: s ++ ['\'']
  | .dq s => '"' :: s ++ ['"']
  | .comment s nl => '#' :: s ++ (if nl then ['\n'] else [])
  | .embed e => '$' :: '{' :: e ++ ['}']

/-- the script text of a segment list -/
def assemble (segs : List Seg) : List Char := (segs.map Seg.render).flatten

/-- `$` immediately followed by `{` somewhere in `s` -/
def hasDollarBrace : List Char → Bool
  | [] => false
  | c :: cs => (c == '$' && cs.head? == some '{') || hasDollarBrace cs

/-- side conditions on the content of one segment -/
def Seg.wf : Seg → Bool
  | .code s => !s.contains '\'' && !s.contains '"' && !s.contains '#' && !hasDollarBrace s
  | .sq s => !s.contains '\''
  | .dq s => !s.contains '"'
  | .comment s _ => !s.contains '\n'
  | .embed e => !e.contains '}'

/-- side condition between a segment and what follows it: code ending in `$` is not followed by a
    `{` (the two would form a `${`), and a comment without its newline is the last segment -/
def Seg.boundaryOk (seg : Seg) (rest : List Seg) : Bool :=
  match seg with
  | .code s => !(s.getLast? == some '$' && (assemble rest).head? == some '{')
  | .comment _ nl => nl || rest.isEmpty
  | _ => true

/-- well-formed segment lists (decidable; the driver evaluates it) -/
def wfList : List Seg → Bool
  | [] => true
  | seg :: rest => seg.wf && seg.boundaryOk rest && wfList rest

/-! ### trimming, written by structural recursion (the model reverses and uses `dropWhile`) -/

def stripLeft : List Char → List Char
  | [] => []
  | c :: cs => if isPySpace c then stripLeft cs else c :: cs

def stripRight : List Char → List Char
  | [] => []
  | c :: cs =>
    match stripRight cs with
    | [] => if isPySpace c then [] else [c]
    | r => c :: r

def trimmed (e : List Char) : List Char := stripRight (stripLeft e)

/-! ### the expected substitution -/

/-- the trimmed expressions of the embeds, in order of appearance (with repetitions) -/
def exprs : List Seg → List (List Char)
  | [] => []
  | .embed e :: rest => trimmed e :: exprs rest
  | _ :: rest => exprs rest

/-- the distinct elements in order of first occurrence -/
def firsts {α : Type} [DecidableEq α] : List α → List α
  | [] => []
  | x :: xs => x :: (firsts xs).filter (· ≠ x)

/-- the keys of the substitution table of a script -/
def keys (segs : List Seg) : List (List Char) := firsts (exprs segs)

/-- the name an expression gets: `PBK_<its position in the table>` -/
def nameOf (ks : List (List Char)) (e : List Char) : List Char := varName (ks.idxOf (trimmed e))

/-- the expected substitution table: i-th distinct expression ↦ `PBK_i` -/
def table (ks : List (List Char)) : Subs := ks.zipIdx.map fun (k, i) => (k, varName i)

/-- an embed becomes the variable name (as plain code); everything else stays as it is -/
def substSeg (ks : List (List Char)) : Seg → Seg
  | .embed e => .code (nameOf ks e)
  | s => s

/-- what preprocessing must return for a well-formed segment list -/
def expected (segs : List Seg) : List Char × Subs :=
  (assemble (segs.map (substSeg (keys segs))), table (keys segs))

/-! ### nest levels -/

/-- the scalars of a value, left to right -/
def leaves {α : Type} : Val α → List α
  | .atom a => [a]
  | .list vs => (vs.attach.map fun ⟨v, _⟩ => leaves v).flatten

/-- all scalars of one subset's values, left to right -/
def leavesOfSubset {α : Type} (vs : List (Val α)) : List α := (vs.map leaves).flatten

end Bufr.Script.Spec
