/-
  Specification for C16: the evaluation of a path made of child (`/`) and attribute (`.`) steps over the
  NESTED JSON rendering of one subset (`View/NestedJson.lean`: lists of dicts with `members` / `factor` /
  `attributes`).  It never looks at the node tree and is organised differently from the model
  (`View/Query.lean`): the recursion is over the PATH, one step at a time; a step looks only at the
  immediate content of the dict it stands on.

    * `/id[s]` on a dict with `members`:
        - members that are dicts (a sequence, or the top level): the members whose `id` is `id`, the slice `s`
          applied to that list of matches, the survivors in document order;
        - members that are lists (a replication): the same inside every repetition; the results of the
          repetitions that have one are put in one list each and these lists in ONE envelope (no envelope when
          no repetition has a result);
    * `.id[s]` on a dict with `attributes` (a value) or `factor` (a delayed replication): the same over the
      attribute list / the one-entry factor list;
    * end of path: the dict must have a `value`.
  Anything else (a step on a dict without the key, a path ending on a dict without `value`) has no value:
  `Err.query`.  A zero slice step or a negative int slice is outside the path language: `Err.other`.
  Steps with another separator (`>`) are outside this specification (`Err.other`); the bare id is specified by
  `C16_bare_id_is_flat_filter` instead.
-/
import BufrModel.View.NestedJson
import BufrModel.View.Query
namespace Bufr.Spec
open Bufr.PathLang Bufr.Query

/-- the `id` key of a dict -/
def njLabel : NJ → Option (List Char)
  | .value lab _ _ _ => some (ddChars lab)
  | .noval id => some (padNatC id 6)
  | .group id _ _ => some (padNatC id 6)
  | .arr _ => none

/-- the repetitions, when every member is a list -/
def repetitions : List NJ → Option (List (List NJ))
  | [] => some []
  | .arr l :: rest => (repetitions rest).map (l :: ·)
  | _ :: _ => none

/-- what a step can select from -/
inductive Targets where
  | flat (cands : List NJ)
  | reps (blocks : List (List NJ))
  | nothing

def targets (d : NJ) (sep : Char) : Targets :=
  if sep = '/' then
    match d with
    | .group _ _ ms => (match repetitions ms with
      | some bs => .reps bs
      | none => .flat ms)
    | _ => .nothing
  else if sep = '.' then
    match d with
    | .value _ _ _ (a :: as) => .flat (a :: as)
    | .group _ (f :: fs) _ => .flat (f :: fs)
    | _ => .nothing
  else .nothing

/-- a slice applied to a list of matches, the survivors in document order: an int `k` keeps match number `k`
    (if there is one), a slice object keeps the matches whose rank it lists -/
def pickSel {β : Type} (sl : Slice) (ms : List β) : List β :=
  match sl with
  | .idx k => (ms[k.toNat]?).toList
  | .range a b s => ((enumFrom 0 ms).filter (fun p => decide (p.1 ∈ pySlice (.range a b s) ms.length))).map (·.2)

/-- a slice of the path language: a non-negative int or a slice object with a non-zero step -/
def sliceOK : Slice → Bool
  | .idx k => decide (0 ≤ k)
  | .range _ _ s => decide (s ≠ some 0)

/-- the dicts with the wanted id, the slice applied to that list, survivors in document order -/
def choose (c : Comp) (cands : List NJ) : CM (List NJ) :=
  if sliceOK c.slice then .ok (pickSel c.slice (cands.filter (fun d => njLabel d = some c.id)))
  else .error .other

/-- results of the selected dicts, one after the other -/
def concatQ : List (CM (List QV)) → CM (List QV)
  | [] => .ok []
  | r :: rs => match r with
    | .error e => .error e
    | .ok vs => match concatQ rs with
      | .error e => .error e
      | .ok vs' => .ok (vs ++ vs')

/-- one list per repetition that has a result -/
def envelopeQ : List (CM (List QV)) → CM (List QV)
  | [] => .ok []
  | r :: rs => match r with
    | .error e => .error e
    | .ok vs => match envelopeQ rs with
      | .error e => .error e
      | .ok rest => .ok (if vs.isEmpty then rest else .list vs :: rest)

/-- the rest of the path evaluated at the dict `d` -/
def evalAt : List Comp → NJ → CM (List QV)
  | [], d => (match d with
    | .value _ v _ _ => .ok [.val v]
    | _ => .error .query)
  | c :: rest, d =>
    match targets d c.sep with
    | .nothing => if c.sep = '/' ∨ c.sep = '.' then .error .query else .error .other
    | .flat cands =>
      (match choose c cands with
       | .error e => .error e
       | .ok sel => concatQ (sel.map (evalAt rest)))
    | .reps bs =>
      match envelopeQ (bs.map fun b => match choose c b with
          | .error e => .error e
          | .ok sel => concatQ (sel.map (evalAt rest))) with
      | .error e => .error e
      | .ok env => .ok (if env.isEmpty then [] else [.list env])

/-- the path evaluated over the nested JSON of one subset (the top level is a list of dicts: only a child
    step can start there) -/
def evalComps (js : List NJ) : List Comp → CM (List QV)
  | [] => .error .other
  | c :: rest =>
    if c.sep = '/' then
      match choose c js with
      | .error e => .error e
      | .ok sel => concatQ (sel.map (evalAt rest))
    else if c.sep = '.' then .error .query
    else .error .other

/-- every step is a child or an attribute step -/
def childAttrOnly (comps : List Comp) : Bool := comps.all (fun c => c.sep = '/' || c.sep = '.')

/-- `evalPath`: the whole message, `nested` = the nested JSON of every subset, `sel` = the selected subsets -/
def evalPath (nested : List (List NJ)) (sel : List Nat) (comps : List Comp) : CM (List (Nat × List QV)) :=
  mapIdx (fun i => match nested[i]? with
    | none => .error .other
    | some js => match evalComps js comps with
      | .error e => .error e
      | .ok vs => .ok (i, vs)) sel

/-- the nested JSON rendering of every subset of a wired message: subset `i` is rendered from `trees[i]` with the
    flat lists of subset `i` (for compressed data every `trees[i]` is the shared tree) -/
def nestedOf (m : QMsg) : CM (List (List NJ)) :=
  mapE (fun p => renderNested p.1 p.2) (m.outs.zip m.trees)

/-- the decidable shape condition of `C16_query_eq_eval`: in every subset, every replication node holds
    `n_repeats * n_members` member nodes, `n_repeats` being the number the renderer uses (`repsOKList`).
    The wiring pass establishes it (`C16_wire_shape`); the driver evaluates it on every case. -/
def shapeOK (m : QMsg) : Bool :=
  (m.outs.zip m.trees).all fun p => repsOKList p.1 p.2

/-! ### "ordinary element" for the bare-id clause (decidable) -/

mutual
/-- the id labels no node of the list and nothing below them -/
def noLabelList (ds : List DDesc) (id : List Char) : List Node → Bool
  | [] => true
  | n :: ns => noLabel1 ds id n && noLabelList ds id ns

def noLabel1 (ds : List DDesc) (id : List Char) : Node → Bool
  | .value k i attrs => decide (nodeLabel ds (.value k i attrs) ≠ some id) && noLabelList ds id attrs
  | .noval i => decide (nodeLabel ds (.noval i) ≠ some id)
  | .seq i ms => decide (nodeLabel ds (.seq i ms) ≠ some id) && noLabelList ds id ms
  | .fixedRep i n ms => decide (nodeLabel ds (.fixedRep i n ms) ≠ some id) && noLabelList ds id ms
  | .delayedRep i n f ms =>
    decide (nodeLabel ds (.delayedRep i n f ms) ≠ some id) && noLabel1 ds id f && noLabelList ds id ms
end

mutual
/-- `id` is the id of an ORDINARY element of the tree: it labels no attribute node (at any depth, with everything
    below it) and no node without a value (sequence, replication, operator, suppressed element); it may label
    member values and replication factors.  (A replication factor is a value node.) -/
def ordinaryList (ds : List DDesc) (id : List Char) : List Node → Bool
  | [] => true
  | n :: ns => ordinary1 ds id n && ordinaryList ds id ns

def ordinary1 (ds : List DDesc) (id : List Char) : Node → Bool
  | .value _ _ attrs => noLabelList ds id attrs
  | .noval i => decide (nodeLabel ds (.noval i) ≠ some id)
  | .seq i ms => decide (nodeLabel ds (.seq i ms) ≠ some id) && ordinaryList ds id ms
  | .fixedRep i n ms => decide (nodeLabel ds (.fixedRep i n ms) ≠ some id) && ordinaryList ds id ms
  | .delayedRep i n f ms =>
    decide (nodeLabel ds (.delayedRep i n f ms) ≠ some id) &&
      (match f with
       | .value _ _ attrs => noLabelList ds id attrs
       | _ => false) && ordinaryList ds id ms
end

/-- the values carrying the id in the flat data of a subset, in flat order -/
def flatFilter (o : SubsetOut) (id : List Char) : List Val :=
  ((o.descs.zip o.vals).filter (fun p => ddChars p.1 = id)).map (·.2)

end Bufr.Spec

namespace Bufr.Spec

/-- CPython's `slice(a, b, step).indices(n)` (`PySlice_AdjustIndices`), `step ≠ 0`: the pair `(start, stop)`;
    `range(start, stop, step)` lists the selected positions -/
def pyIndices (a b : Option Int) (step : Int) (n : Nat) : Int × Int :=
  let lower : Int := if step < 0 then -1 else 0
  let upper : Int := if step < 0 then (n : Int) - 1 else n
  let norm := fun (x : Int) => if x < 0 then max (x + n) lower else min x upper
  let start := match a with
    | none => if step < 0 then upper else lower
    | some a => norm a
  let stop := match b with
    | none => if step < 0 then lower else upper
    | some b => norm b
  (start, stop)

/-- `k ∈ range(start, stop, step)` -/
def inPyRange (start stop step : Int) (k : Int) : Prop :=
  ∃ j : Nat, k = start + j * step ∧ (if 0 < step then k < stop else stop < k)

/-! ### compressed data: the subsets share the structure of subset 0 (decidable; hypothesis of `C16_mkMsg_shape_compressed`) -/

mutual
/-- every delayed replication factor of the tree has the same count in the flat lists of `o` as in those of `o0`
    (what "the subsets of compressed data share one structure" means for the renderer) -/
def sameCountsList (o0 o : SubsetOut) : List Node → Bool
  | [] => true
  | n :: ns => sameCounts1 o0 o n && sameCountsList o0 o ns

def sameCounts1 (o0 o : SubsetOut) : Node → Bool
  | .value _ _ attrs => sameCountsList o0 o attrs
  | .noval _ => true
  | .seq _ ms => sameCountsList o0 o ms
  | .fixedRep _ _ ms => sameCountsList o0 o ms
  | .delayedRep _ _ (.value _ i attrs) ms =>
    decide (wireCount o i = wireCount o0 i) && sameCountsList o0 o attrs && sameCountsList o0 o ms
  | .delayedRep _ _ _ ms => sameCountsList o0 o ms
end

end Bufr.Spec
