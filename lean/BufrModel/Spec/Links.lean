/-
  Specification of the attribute links of one data subset (C07), computed AFTER THE FACT from the
  flat list of items (label + value, in processing order) that a decode / encode run reports.

  FM 94 BUFR, Table C, operators 2 22 / 2 23 / 2 24 / 2 25 / 2 32 with 2 35 / 2 36 / 2 37:
    * `22X000` / `232000` announce a run of values that qualify earlier elements; which elements is
      said by a data present bit-map: a run of N elements `031031` following the operator (or,
      after `237000`, the bit-map most recently defined; `236000` in front of the run marks it as
      defined for re-use).  Bit i of the bit-map corresponds to the i-th of the N element
      descriptors that immediately precede the operator that established the back references
      ("data present" = bit 0).  Back references stay established until `235000` cancels them
      (the next bit-map then counts back from ITS operator).
    * after `222000` the class 33 elements that follow, and the marker operators `223255`,
      `224255`, `225255`, `232255` after the others, each stand for ONE element whose bit is 0, in
      order: the k-th such value belongs to the k-th zero bit.

  Style: no registers and no template.  Every question ("which bit-map governs position i", "how
  many values has it served before i", "which items were the candidates") is answered by looking
  the positions up in the finished item list; the walk (`Coder/Walk.lean`) keeps 8 registers and a
  state machine instead.  What the item list cannot show is `235000`: the coder records no item
  for it (22X000, 236000, 237000 and 237255 get a constant item, 235000 only clears registers), so
  the TIMES at which a 235000 was processed (= number of items recorded before it) are a second
  input, `cancels`.  For templates without 235000 it is `[]`.

  Choices that follow the implementation where FM 94 is silent or the code is lenient:
    * candidates are ALL items whose label is a plain element descriptor — class 31 factors and
      031021 included (`type(descriptor) is ElementDescriptor`);
    * `237000` recalls the most recent definition whether or not it was introduced by `236000`, and
      `237255` has no effect on later links (the code clears a register nobody reads);
      `recallsOk` says whether every recall in the items is one FM 94 allows (most recent
      definition made with 236000 and not cancelled by 237255 since);
    * `235000` does not stop values from being served by the bit-map in force, it only makes the
      next definition count back afresh.
  Restrictions (what the item list cannot see, hence `wfFlat` on the template): see notes/C07.md.
-/
import BufrModel.Coder.Regs
namespace Bufr.Spec

abbrev Item := DDesc × Val

def bitmapOpIds : List Nat := [222000, 223000, 224000, 225000, 232000]

/-- the item recorded for `22X000` / `232000` -/
def isBitmapOp (it : Item) : Bool :=
  match it.1 with
  | .oper id => bitmapOpIds.contains id
  | _ => false

def isOper (id : Nat) (it : Item) : Bool :=
  match it.1 with
  | .oper i => i == id
  | _ => false

/-- a bit of a data present bit-map -/
def isBit (it : Item) : Bool :=
  match it.1 with
  | .plain e => e.id == 31031
  | _ => false

def plainElem? (it : Item) : Option Elem :=
  match it.1 with
  | .plain e => some e
  | _ => none

/-- class (XX) of the element an element item stands for: a plain element or a marker's target -/
def elemClass? (it : Item) : Option Nat :=
  match it.1 with
  | .plain e => some (xOf e.id)
  | .marker _ e => some (xOf e.id)
  | _ => none

/-- one bit-map definition found in the items -/
structure BitmapDef where
  /-- position of the operator item `22X000` -/
  op : Nat
  /-- position just behind the run of 031031: the definition governs the items from here on -/
  eff : Nat
  bits : List Val
  /-- introduced by 236000 -/
  reusable : Bool
  deriving Repr, DecidableEq

/-- The definition that the operator item at `p` introduces, if any: among the items up to the next
    bit-map operator, the first maximal run of 031031 (behind an optional 236000 and the
    replication factor); none when 237000 follows the operator (recall) or no 031031 follows. -/
def defAt (its : List Item) (p : Nat) : Option BitmapDef :=
  let seg := (its.drop (p + 1)).takeWhile fun it => !isBitmapOp it
  if (seg.head?.map (isOper 237000)).getD false then none
  else
    let pre := seg.takeWhile fun it => !isBit it
    let run := (seg.drop pre.length).takeWhile isBit
    if run.isEmpty then none
    else some { op := p, eff := p + 1 + pre.length + run.length, bits := run.map (·.2),
                reusable := (seg.head?.map (isOper 236000)).getD false }

/-- positions of the items satisfying `f` -/
def positions (f : Item → Bool) (its : List Item) : List Nat :=
  (List.range its.length).filter fun p => (its[p]?.map f).getD false

/-- all definitions, in order -/
def defs (its : List Item) : List BitmapDef :=
  (positions isBitmapOp its).filterMap (defAt its)

/-- plain element items below position `p`, with their positions -/
def plainBelow (its : List Item) (p : Nat) : List (Nat × Elem) :=
  (List.range p).filterMap fun i => (its[i]?.bind plainElem?).map fun e => (i, e)

def lastN {α : Type} (n : Nat) (l : List α) : List α := l.drop (l.length - n)

/-- a 235000 was processed at a time `c` with `a ≤ c < b` -/
def cancelledBetween (cancels : List Nat) (a b : Nat) : Bool :=
  cancels.any fun c => a ≤ c && c < b

/-- The definition that established the back references in force for `d`: the earliest definition
    from which no 235000 separates `d`. -/
def establishing (ds : List BitmapDef) (cancels : List Nat) (d : BitmapDef) : BitmapDef :=
  ((ds.filter fun d0 => d0.eff ≤ d.eff && !cancelledBetween cancels d0.eff d.eff).head?).getD d

/-- the N element items the bits of `d` correspond to -/
def candidates (its : List Item) (ds : List BitmapDef) (cancels : List Nat) (d : BitmapDef) : List (Nat × Elem) :=
  let d0 := establishing ds cancels d
  lastN d0.bits.length (plainBelow its d0.op)

/-- positions of the candidates whose bit is 0, in order -/
def selected (its : List Item) (ds : List BitmapDef) (cancels : List Nat) (d : BitmapDef) : List Nat :=
  ((d.bits.zip (candidates its ds cancels d)).filter fun x => x.1 == Val.int 0).map (·.2.1)

/-- largest position below `i` whose item satisfies `f` -/
def lastBelow (f : Item → Bool) (its : List Item) (i : Nat) : Option Nat :=
  ((positions f (its.take i))).getLast?

/-- Quality information: the item at `i` lies in the stretch of class 33 values announced by the
    last 222000 before it — between that operator and `i` no class 33 element item is followed by
    an element item of another class (the first other element ends the stretch). -/
def inQa (its : List Item) (i : Nat) : Bool :=
  match lastBelow (isOper 222000) its i with
  | none => false
  | some p =>
    let classes := ((its.take i).drop (p + 1)).filterMap elemClass?
    (classes.dropWhile (· != 33)).all (· == 33)

/-- does the item at `i` take the next zero bit of the bit-map in force -/
def consumes (its : List Item) (i : Nat) : Bool :=
  match its[i]? with
  | some (.marker _ _, _) => true
  | some (.plain e, _) => xOf e.id == 33 && inQa its i
  | _ => false

/-- The owner of the value at position `i`: with `d` the last definition in force at `i` and `k`
    the number of values served since it took effect (or since the last `237000` behind it, which
    starts it over), the k-th selected candidate of `d`. -/
def owner? (its : List Item) (ds : List BitmapDef) (cancels : List Nat) (served : List Bool) (i : Nat) : Option Nat :=
  match (ds.filter (·.eff ≤ i)).getLast? with
  | none => none
  | some d =>
    let start := match lastBelow (isOper 237000) its i with
      | some r => if d.eff ≤ r then r else d.eff
      | none => d.eff
    let k := ((served.take i).drop start).count true
    (selected its ds cancels d)[k]?

/-- `Spec.links items cancels`: (position of the attribute value, position of its owner), ascending. -/
def links (its : List Item) (cancels : List Nat := []) : List (Nat × Nat) :=
  let ds := defs its
  let served := (List.range its.length).map (consumes its)
  (List.range its.length).filterMap fun i =>
    if consumes its i then (owner? its ds cancels served i).map fun o => (i, o) else none

/-! ### regularity of the items (reported next to the links; not used by `links`) -/

/-- every `237000` recalls something FM 94 lets it recall: it follows a bit-map operator directly,
    the most recent definition was made with `236000`, and no `237255` came since -/
def recallsOk (its : List Item) : Bool :=
  let ds := defs its
  (positions (isOper 237000) its).all fun r =>
    (match r with
     | 0 => false
     | r' + 1 => (its[r']?.map isBitmapOp).getD false) &&
    (match (ds.filter (·.eff ≤ r)).getLast? with
     | none => false
     | some d => d.reusable && ((positions (isOper 237255) its).all fun c => !(d.eff ≤ c && c < r)))

/-- every definition has as many bits as candidates, every value that wants an owner gets one, and no
    zero bit of a definition is left without its value when the next definition / recall / end comes
    is NOT required (a template may stop early) -/
def complete (its : List Item) (cancels : List Nat := []) : Bool :=
  let ds := defs its
  let served := (List.range its.length).map (consumes its)
  (ds.all fun d => (candidates its ds cancels d).length == d.bits.length) &&
  ((List.range its.length).all fun i => !consumes its i || (owner? its ds cancels served i).isSome)

/-! ### the templates the equality `links = Spec.links` is claimed for

  The bit-map state machine of the coder runs on TEMPLATE members, the specification on items.
  They can only agree when each construct appears in the shape FM 94 documents; `wfFlat` says so on
  the pre-order list of descriptor ids of the template (`flatIds`). -/

mutual
/-- descriptor ids in pre-order (a replication contributes its own id, its factor, its members) -/
def flatIds : List Desc → List Nat
  | [] => []
  | d :: ds => flatId1 d ++ flatIds ds
def flatId1 : Desc → List Nat
  | .elem e => [e.id]
  | .undefElem i => [i]
  | .undefSeq i => [i]
  | .fixedRep i ms => i :: flatIds ms
  | .delayedRep i f ms => i :: (flatId1 f ++ flatIds ms)
  | .op i => [i]
  | .seq i ms => i :: flatIds ms
end

def isBitmapOpId (id : Nat) : Bool := bitmapOpIds.contains id

/-- a replication of exactly one 031031 at the head of `ids`: `101YYY 031031` (YYY ≥ 1) or
    `101000 0310XX 031031`; returns what follows it -/
def bitRun? (ids : List Nat) : Option (List Nat) :=
  match ids with
  | r :: a :: rest =>
    if r / 1000 = 101 ∧ r % 1000 ≠ 0 then (if a = 31031 then some rest else none)
    else if r = 101000 ∧ (a = 31000 ∨ a = 31001 ∨ a = 31002) then
      (match rest with
       | b :: rest' => if b = 31031 then some rest' else none
       | [] => none)
    else none
  | _ => none

/-- operators whose effect hides template members from the bit-map state machine, or whose items
    the specification cannot tell from ordinary elements: 203YYY (a definition of new reference
    values records plain element items without processing them as elements), 206YYY, 221YYY -/
def hidesMembers (id : Nat) : Bool :=
  let c := id / 1000
  (c == 203 && id % 1000 != 0 && id % 1000 != 255) || (c == 206 && id % 1000 != 0) || (c == 221 && id % 1000 != 0)

/-- `fuel` = length of the list (every step consumes at least one id) -/
def wfFlatAux : Nat → List Nat → Bool
  | 0, ids => ids.isEmpty
  | _ + 1, [] => true
  | fuel + 1, id :: rest =>
    if isBitmapOpId id then
      match rest with
      | 237000 :: rest' => wfFlatAux fuel rest'
      | 236000 :: rest' =>
        (match bitRun? rest' with
         | some tl => tl.head? != some 31031 && wfFlatAux fuel tl
         | none => false)
      | _ =>
        (match bitRun? rest with
         | some tl => tl.head? != some 31031 && wfFlatAux fuel tl
         | none => false)
    else
      id != 31031 && id != 236000 && id != 237000 && !hidesMembers id && wfFlatAux fuel rest

/-- Well-formed use of the bit-map operators in a template:
    * every `22X000` / `232000` is directly followed by `237000`, or by an optional `236000` and a
      replication (X = 1) of the single element `031031`, and something other than `031031` comes next;
    * `031031`, `236000`, `237000` occur nowhere else;
    * no `203YYY` definition, `206YYY`, `221YYY` anywhere. -/
def wfFlat (ids : List Nat) : Bool := wfFlatAux ids.length ids

def WFbitmap (t : List Desc) : Prop := wfFlat (flatIds t) = true

instance (t : List Desc) : Decidable (WFbitmap t) := by unfold WFbitmap; infer_instance

/-- templates without 235000 (first stage of C07_links_eq_spec) -/
def no235 (t : List Desc) : Bool := !(flatIds t).contains 235000

/-! ### the templates and items for which `links = Spec.links` is PROVED (Props/C07Spec.lean)

  `WFlinks t` is the structural form of `WFbitmap`: the same three clauses, but read on the template TREE
  (member lists) instead of the pre-order id list, so that it can be carried through the recursion of the
  walk: a bit-map operator and its definition (`237000`, or an optional `236000` and the replication of
  `031031`) are consecutive members of the SAME member list. -/

/-- a replication whose only member is the element 031031 (its factor, when delayed, is another element) -/
def isBitRep : Desc → Bool
  | .fixedRep id [.elem e] => e.id == 31031 && id != 31031 && id != 237000
  | .delayedRep id (.elem f) [.elem e] => e.id == 31031 && f.id != 31031 && id != 31031 && id != 237000
  | _ => false

/-- where a member list stands: anywhere, directly behind `22X000` / `232000`, directly behind `236000` -/
inductive WPh where
  | idle | afterOp | after236
  deriving DecidableEq, Repr

/-- operators allowed outside a bit-map definition -/
def okIdleOp (id : Nat) : Bool := id != 236000 && id != 237000 && id != 31031 && !hidesMembers id

mutual
/-- a member outside a bit-map definition (bit-map operators themselves are looked at by `wfL`) -/
def wfD : Desc → Bool
  | .elem e => e.id != 31031
  | .undefElem _ => false
  | .undefSeq _ => false
  | .fixedRep id ms => id != 31031 && wfL .idle ms
  | .delayedRep id f ms =>
    id != 31031 && (match f with | .elem fe => fe.id != 31031 | _ => false) && wfL .idle ms
  | .op id => okIdleOp id && !isBitmapOpId id
  | .seq id ms => id != 31031 && wfL .idle ms
/-- a member list, read from the phase `ph`; it must end outside a bit-map definition -/
def wfL : WPh → List Desc → Bool
  | ph, [] => ph == .idle
  | .idle, d :: ds =>
    (match d with
     | .op id => if isBitmapOpId id then wfL .afterOp ds else wfD d && wfL .idle ds
     | _ => wfD d && wfL .idle ds)
  | .afterOp, d :: ds =>
    (match d with
     | .op id => if id = 237000 then wfL .idle ds else if id = 236000 then wfL .after236 ds else false
     | _ => isBitRep d && wfL .idle ds)
  | .after236, d :: ds => isBitRep d && wfL .idle ds
end

/-- Well-formed use of the bit-map operators, on the template tree:
    * every `22X000` / `232000` is directly followed, in the same member list, by `237000`, or by an optional
      `236000` and a replication of the single element `031031`;
    * `031031`, `236000`, `237000` occur nowhere else;
    * no `203YYY` definition, `206YYY`, `221YYY`; no descriptor missing from the tables. -/
def WFlinks (t : List Desc) : Prop := wfL .idle t = true

instance (t : List Desc) : Decidable (WFlinks t) := by unfold WFlinks; infer_instance

/-- The two classes of items in which the code is known to deviate from FM 94 (open findings), read off the
    item list: no marker value
    * stands for a class 33 element inside a quality-information stretch (F-C07-marker-class33: the code takes
      TWO zero bits for it), nor
    * is preceded by the associated field of its own element (F11-C07-links-marker: with 204YYY in force the
      code keys the link by the position of that field instead of the marker value). -/
def markersOk (its : List Item) : Bool :=
  (List.range its.length).all fun i =>
    match its[i]? with
    | some (.marker _ e, _) =>
      !(xOf e.id == 33 && inQa its i) &&
      !(match i with
        | 0 => false
        | j + 1 => (match its[j]? with
          | some (.assoc id _, _) => id == e.id
          | _ => false))
    | _ => true

end Bufr.Spec
