/-
  Specification side of the compressed-column codec (C05, and the relational `ColOK` of C02).

  FM 94 BUFR, regulation 94.6.3 note (2), for data compression, per element and for a data
  subset count `n`:
    (i)   the minimum value `R0` of the element over all subsets is stored on the element's own
          width `w`; when every subset is missing, `R0` has all bits set to 1;
    (ii)  it is followed by a 6-bit count `NBINC`, the number of bits of each increment;
    (iii) if all values are identical (or all missing) `NBINC = 0` and no increments follow: every
          subset has the value `R0`;
    (iv)  otherwise `n` increments `I1..In` of `NBINC` bits follow, and the value of subset `i`
          is `R0 + Ii`; an increment with all bits set to 1 denotes a missing value.

  Everything here is written on `Nat`/`List Bool` by *position arithmetic* (`take`/`drop` at
  computed offsets), not with the consuming reader monad the model uses, and the writer
  `intColumnBitsWith` takes the increment width as a PARAMETER: the regulation lets the producer
  choose any width that can hold the increments, and a decoder has to read all of them.

  Two interpretation choices follow the implementation where the regulation is silent or where
  pybufrkit deviates in a way that the properties do not forbid:
    * a field of width 1 has no missing value (`NUMERIC_MISSING_VALUES` is consulted for
      widths above 1 only), so an all-ones minimum of width 1 is the value 1;
    * widths above 64 are refused (the table of missing values has 65 entries).
-/
import BufrModel.Basic.Bits
namespace Bufr.Spec

/-- the smallest present entry of a column (`none` when every entry is missing) -/
def colMin : List (Option Nat) → Option Nat
  | [] => none
  | none :: rs => colMin rs
  | some x :: rs =>
    match colMin rs with
    | none => some x
    | some m => some (min m x)

/-- the largest present entry of a column -/
def colMax : List (Option Nat) → Option Nat
  | [] => none
  | none :: rs => colMax rs
  | some x :: rs =>
    match colMax rs with
    | none => some x
    | some m => some (max m x)

/-- one increment on `d` bits: all ones for a missing entry, else the distance to the minimum -/
def incrBits (d lo : Nat) : Option Nat → Bits
  | none => ones d
  | some v => toBits d (v - lo)

/-- The column `raws` of a `w`-bit element written with increment width `d`:
    minimum over the present entries (all ones when nothing is present), the 6-bit `d`, and, when
    `d ≠ 0`, one increment per subset. -/
def intColumnBitsWith (d : Nat) (raws : List (Option Nat)) (w : Nat) : Bits :=
  match colMin raws with
  | none => ones w ++ toBits 6 d
  | some lo => toBits w lo ++ toBits 6 d ++ (if d = 0 then [] else raws.flatMap (incrBits d lo))

/-- `d` is a legal increment width for the column: it fits the 6-bit count; width 0 is legal only
    when there is nothing to distinguish (all entries equal, or all missing); a non-zero width
    needs a present minimum to add to, and every present increment has to stay below the all-ones
    pattern of `d` bits (which is reserved for missing).  Note `d = 1` is legal when all present
    entries are equal: increment 0 = the minimum, increment 1 = missing. -/
def LegalWidth (d : Nat) (raws : List (Option Nat)) : Prop :=
  d ≤ 63 ∧
  (d = 0 → ∀ r ∈ raws, r = raws.headD none) ∧
  (0 < d → ∃ lo, colMin raws = some lo ∧ ∀ x, some x ∈ raws → x - lo < 2 ^ d - 1)

/-- the entries of a `w`-bit column are representable: below the all-ones pattern of the field
    (for `w = 1` there is no reserved pattern: both 0 and 1 are values) -/
def InRange (w : Nat) (raws : List (Option Nat)) : Prop :=
  ∀ x, some x ∈ raws → x < 2 ^ w ∧ (1 < w → x < 2 ^ w - 1)

/-- the spread of the present entries leaves room for a 6-bit increment width: the encoder writes
    `max − min + 1` and reserves all ones, so it needs `max − min + 3 ≤ 2^63`.  Always true for
    field widths up to 62 bits (see `C05_span_ok_of_width`). -/
def SpanOK (raws : List (Option Nat)) : Prop :=
  ∀ x y, some x ∈ raws → some y ∈ raws → y - x + 3 ≤ 2 ^ 63

/-- the `i`-th increment of `d` bits after the `w + 6` leading bits -/
def incrAt (w d : Nat) (bs : Bits) (i : Nat) : Bits := (bs.drop (w + 6 + i * d)).take d

/-- value of subset `i`: minimum + increment, all ones = missing -/
def entryAt (w d m : Nat) (bs : Bits) (i : Nat) : Option Nat :=
  if (incrAt w d bs i).all id then none else some (m + ofBits (incrAt w d bs i))

/-- Independent reader for a compressed column of `n` subsets of a `w`-bit element, straight from
    94.6.3 note (2), by position arithmetic.  Returns the column and the unread rest.
    Failures: the same families as the implementation (a width of 0 or above 64 is not a
    `PyBufrKitError`; running out of bits is `BitReadError`; increments after an all-missing
    minimum are refused by an assertion). -/
def readColumnSpec (w n : Nat) (bs : Bits) : Except Err (List (Option Nat) × Bits) :=
  if w = 0 then .error .other
  else if bs.length < w then .error .bitRead
  else if 64 < w then .error .other
  else if bs.length < w + 6 then .error .bitRead
  else
    let r0 := bs.take w
    let nbinc := ofBits ((bs.drop w).take 6)
    if 1 < w ∧ r0.all id = true then
      -- (i) every subset missing: no increments may follow
      if nbinc ≠ 0 then .error .other else .ok (List.replicate n none, bs.drop (w + 6))
    else if nbinc = 0 then
      -- (iii) every subset has the minimum
      .ok (List.replicate n (some (ofBits r0)), bs.drop (w + 6))
    else if bs.length < w + 6 + n * nbinc then .error .bitRead
    else
      -- (iv) n increments
      .ok ((List.range n).map (entryAt w nbinc (ofBits r0) bs), bs.drop (w + 6 + n * nbinc))

/-- The relation of DESIGN C02 between a column and the bits that claim to hold it:
    `bits` splits into a `w`-bit minimum, a 6-bit width `d`, and `d`-bit increments such that
      * the minimum is the least present entry (all ones when nothing is present),
      * `d = 0` exactly when the producer saw all entries equal (`sawEqual`), and then no
        increments follow and the entries are indeed all equal,
      * otherwise something is present (an all-missing column has `d = 0`), there is one
        increment per subset, all ones exactly for the missing entries, and
        `increment = entry − minimum` for the present ones. -/
def ColOK (w : Nat) (raws : List (Option Nat)) (sawEqual : Bool) (bits : Bits) : Prop :=
  ∃ (mn : Bits) (d : Nat) (incs : List Bits),
    bits = mn ++ toBits 6 d ++ incs.flatten ∧ mn.length = w ∧ d < 64 ∧
    (d = 0 ↔ sawEqual = true) ∧
    (match colMin raws with
      | none => mn = ones w
      | some lo => ofBits mn = lo) ∧
    (d = 0 → incs = [] ∧ ∀ r ∈ raws, r = raws.headD none) ∧
    (0 < d → ∃ lo, colMin raws = some lo ∧ incs.length = raws.length ∧ ∀ p ∈ raws.zip incs,
        p.2.length = d ∧ (p.1 = none ↔ p.2 = ones d) ∧
        ∀ v, p.1 = some v → lo ≤ v ∧ ofBits p.2 = v - lo)

/-- what a character entry of a `k`-byte field is expected to decode to: the string truncated or
    blank-padded to the field width, `k` bytes 0xFF for a missing entry -/
def strCanon (k : Nat) : Option (List UInt8) → List UInt8
  | none => List.replicate k 0xFF
  | some b => padBytes b k

end Bufr.Spec
