/-
  Specification for C15: a recursive-descent recogniser written from the EBNF in
  `docs/internals.rst`, independent of the state machine in `Lang/PathParser.lean`:

      <query_expr>  = [<subset_spec>] <path_spec>+
      <subset_spec> = '@'<slice>
      <path_spec>   = <separator> <descriptor_id> [<slice>]
      <separator>   = '/' | '.' | '>'
      "The <separator> can be omitted and defaults to '>' if a query string begins with a
       <path_spec>."   "Whitespaces are ignored."

  Interpretation choices where the document is silent (they follow what the code accepts, so
  that the unchanged code is not accused of more than the property states):
    * `<descriptor_id>` is a non-empty run of characters other than whitespace and `@[]:/.>`;
    * the first character of the whole expression is one of `@/>0-9A-Z` (so the first separator
      is never `.`, and an omitted separator requires the id to start with a digit or capital);
    * `<slice>` = `[` int `]` | `[` [int] `:` [int] [`:` [int]] `]` with int = `-`? digit+ ;
      a single negative index `-k` denotes `slice(-k, -k+1 or None)`.
  The recogniser works on the input with all whitespace removed.
-/
import BufrModel.Lang.PathParser
namespace Bufr.PathLang.Spec

def isSpecial (c : Char) : Bool :=
  c == '@' || c == '[' || c == ']' || c == ':' || c == '/' || c == '.' || c == '>'

/-- split on `:` -/
def splitColon : List Char → List (List Char)
  | [] => [[]]
  | c :: cs =>
    match splitColon cs with
    | [] => [[]]          -- unreachable
    | p :: ps => if c == ':' then [] :: p :: ps else (c :: p) :: ps

def optInt? (tok : List Char) : Option (Option Int) :=
  if tok = [] then some none else (parseInt? tok).map some

/-- the part between `[` and `]` -/
def sliceOfBody (body : List Char) : Option Slice :=
  if body.any (fun c => isSpecial c && c != ':') then none
  else match splitColon body with
    | [x] => (parseInt? x).map fun i =>
        if 0 ≤ i then .idx i else .range (some i) (if i ≠ -1 then some (i + 1) else none) none
    | [a, b] => do let a ← optInt? a; let b ← optInt? b; pure (.range a b none)
    | [a, b, c] => do let a ← optInt? a; let b ← optInt? b; let c ← optInt? c; pure (.range a b c)
    | _ => none

/-- parse `slice` at the head of `cs` (which must start with `[`); returns the rest after `]` -/
def slice? (cs : List Char) : Option (Slice × List Char) :=
  match cs with
  | '[' :: rest =>
    let body := rest.takeWhile (· != ']')
    match rest.dropWhile (· != ']') with
    | ']' :: after => (sliceOfBody body).map fun s => (s, after)
    | _ => none
  | _ => none

/-- `<path_spec>+` ; `fuel` bounds the number of components (any value ≥ length works) -/
def comps? : Nat → List Char → Option (List Comp)
  | 0, _ => none
  | fuel + 1, cs =>
    match cs with
    | sep :: rest =>
      if !isSep sep then none else
      let idc := rest.takeWhile (fun c => !isSpecial c)
      let after := rest.dropWhile (fun c => !isSpecial c)
      if idc = [] then none else
      match after with
      | [] => some [{ sep := sep, id := idc, slice := .range none none none }]
      | '[' :: _ =>
        match slice? after with
        | none => none
        | some (s, after') =>
          if after' = [] then some [{ sep := sep, id := idc, slice := s }]
          else (comps? fuel after').map fun r => { sep := sep, id := idc, slice := s } :: r
      | _ => (comps? fuel after).map fun r => { sep := sep, id := idc, slice := .range none none none } :: r
    | [] => none

/-- the whole expression, whitespace already removed -/
def recogniseNoWs (cs : List Char) : Option Path :=
  match cs with
  | [] => none
  | c :: rest =>
    if !firstOk c then none
    else if c == '@' then
      match slice? rest with
      | none => none
      | some (s, after) =>
        match after with
        | sep :: _ => if sep == '.' then none else (comps? (after.length + 1) after).map fun cs => { subset := some s, comps := cs }
        | [] => none
    else if isSep c then
      (comps? (cs.length + 1) cs).map fun l => { subset := some (.range none none none), comps := l }
    else
      (comps? (cs.length + 2) ('>' :: cs)).map fun l => { subset := some (.range none none none), comps := l }

def recognise (input : List Char) : Option Path :=
  recogniseNoWs (input.filter (fun c => !isWs c))

end Bufr.PathLang.Spec
