/-
  The CANONICAL FM-94 data-section bit stream for a template and value lists (specification of C02).

  What is specified here, independently of the encoder's code path (`Coder/Encode.lean`):

    * `FieldSpec`  — what the flat reading of the template says about ONE data field: a numeric field
                     (width, scale, reference value in force: 201 / 202 / 203 / 207 applied), an unsigned
                     field (code / flag table, associated field, skipped local descriptor), a character
                     field (width in octets in force: 205 / 208), a new reference value (203YYY), or
                     the value slot of an operator that occupies no bits;
    * `fieldCode`  — the code of one value in one field, as a TOTAL function into `Option Bits`
                     (no writer, no error monad): numeric `round_half_even(value · 10^scale) − reference`
                     in binary on the width, missing = all ones, characters blank-padded / truncated,
                     missing characters = all octets 0xFF, new reference = sign and magnitude;
                     `none` = the value has no code in that field (out of range for the width, wrong kind);
    * `colCode`    — compressed data, one flat position, the values of all subsets: when all subsets hold
                     the same value the field code followed by a zero 6-bit count; otherwise the least raw
                     value on the field width, the 6-bit increment width (the least width whose all-ones
                     pattern stays free above `max − min + 1`: `incrWidth`), and one increment per subset
                     (all ones = missing); character columns: a NUL base, the octet count, the fields;
    * `canonDataBits` — the data bits of a whole data section: uncompressed = per subset the
                     concatenation of the field codes along the FLAT reading of the descriptor list
                     (`Spec.flatWalk`: replication expanded by counting, sequences replaced by their rows,
                     operators acting on the registers — the operators are NOT described again here),
                     subsets concatenated; compressed = the concatenation of the column codes along the
                     same reading;
    * `sectionPad`, `canonSection4` — the octet padding of a section (zero bits up to the next octet
                     boundary, to the next EVEN number of octets for editions up to 3).

  Where the implementation is laxer or stricter than FM-94, the specification follows the
  implementation and says so (the properties do not quantify over those inputs):
    * a raw value equal to the all-ones pattern of its field is written as it is (and reads back as
      missing); in a compressed column whose subsets differ it is treated as missing beforehand;
    * in a compressed column whose subsets differ only the MINIMUM is required to fit the field; a
      larger entry is carried by the increments (`C02_compressed_carries_out_of_range`);
    * a decimal (non-integer) value for a field whose scale in force is 0 is outside the modelled
      domain (DESIGN 4.3) and has no code.
-/
import BufrModel.Spec.FlatWalk
import BufrModel.Spec.Quant
namespace Bufr.Spec
open Bufr

/-- one data field as the flat reading of the template describes it -/
inductive FieldSpec where
  /-- Table B numeric element: width, scale and reference value IN FORCE -/
  | numeric (width scale ref : Int)
  /-- unsigned field: code / flag table, associated field (204), skipped local descriptor (206) -/
  | uint (width : Nat)
  /-- character field of `nbytes` octets (Table B CCITT IA5, 205YYY, width under 208YYY) -/
  | chars (nbytes : Nat)
  /-- 203YYY: new reference value, sign and magnitude on `width` bits -/
  | newRef (width : Nat)
  /-- the value slot of an operator (222000, 236000, …): no bits, the value must be `c` -/
  | const (c : Int)
  deriving DecidableEq, Repr

/-- `a / b` rounded to the nearest integer, ties to the even neighbour: round half UP
    (`⌊a/b + 1/2⌋`), then step back from an odd result on an exact tie. -/
def roundHalfEven (a : Int) (b : Nat) : Int :=
  let q := (2 * a + (b : Int)) / (2 * (b : Int))
  if (2 * a + (b : Int)) % (2 * (b : Int)) = 0 ∧ q % 2 ≠ 0 then q - 1 else q

/-- `round_half_even(value · 10^scale)` for an exact decimal value (`Val.num m k` = m · 10^(−k)).
    `none`: not a number, or a decimal for a field of scale 0 (outside the modelled domain). -/
def scaledRound (v : Val) (scale : Int) : Option Int :=
  match v with
  | .int i =>
    some (if 0 ≤ scale then i * (10 : Int) ^ scale.toNat else roundHalfEven i (10 ^ (-scale).toNat))
  | .num m k =>
    if scale = 0 then none
    else some (if 0 ≤ scale - k then m * (10 : Int) ^ (scale - k).toNat
               else roundHalfEven m (10 ^ (-(scale - k)).toNat))
  | _ => none

/-- the unsigned integer `raw` in binary on `w` bits, when it fits -/
def uintCode (w : Nat) (raw : Int) : Option Bits :=
  if 0 < w ∧ 0 ≤ raw ∧ raw < 2 ^ w then some (toBits w raw.toNat) else none

/-- the missing value of a `w`-bit unsigned field: all ones (the implementation has a table of 65
    missing values, so widths above 64 have none) -/
def missingCode (w : Nat) : Option Bits := if 0 < w ∧ w ≤ 64 then some (ones w) else none

/-- **the code of one value in one field** -/
def fieldCode : FieldSpec → Val → Option Bits
  | .numeric w scale ref, v =>
    if w ≤ 0 then none
    else match v with
      | .missing => missingCode w.toNat
      | v => (scaledRound v scale).bind fun q => uintCode w.toNat (q - ref)
  | .uint w, v =>
    match v with
    | .missing => missingCode w
    | .int i => uintCode w i
    | _ => none
  | .chars k, v =>
    match v with
    | .missing => some (bytesToBits (List.replicate k 0xFF))
    | .bytes b => some (bytesToBits (padBytes b k))
    | _ => none
  | .newRef w, v =>
    match v with
    | .int i => if 1 < w ∧ i.natAbs < 2 ^ (w - 1) then some (decide (i < 0) :: toBits (w - 1) i.natAbs) else none
    | _ => none
  | .const c, v => if v = .int c then some [] else none

/-! ### compressed data: one column -/

/-- the raw content of an unsigned field for a value: `some none` = missing, `none` = no raw value -/
def rawOf : FieldSpec → Val → Option (Option Int)
  | .numeric _ _ _, .missing => some none
  | .numeric _ scale ref, v => (scaledRound v scale).map fun q => some (q - ref)
  | .uint _, .missing => some none
  | .uint _, .int i => some (some i)
  | _, _ => none

/-- the width in bits of an unsigned field, when it is positive -/
def widthOf : FieldSpec → Option Nat
  | .numeric w _ _ => if 0 < w then some w.toNat else none
  | .uint w => if 0 < w then some w else none
  | _ => none

/-- The increment width for a column whose present entries span `span = max − min`: the least `d`
    with `span + 1 ≤ 2^d − 2`, i.e. the number of binary digits of `span + 2`.  (The regulation needs
    `span ≤ 2^d − 2`; the implementation reserves one more, `nbits_for_uint(max − min + 1)`.) -/
def incrWidth (span : Nat) : Nat := Nat.log2 (span + 2) + 1

/-- in a column whose subsets differ, an entry that is the all-ones pattern of a field wider than
    one bit IS the missing value -/
def onesAsMissing (w : Nat) (r : Option Int) : Option Int :=
  if 1 < w ∧ r = some (((2 ^ w - 1 : Nat) : Int)) then none else r

/-- one increment on `d` bits -/
def incrCode (d : Nat) (lo : Int) : Option Int → Bits
  | none => ones d
  | some v => toBits d (v - lo).toNat

/-- a column of `w`-bit unsigned fields whose subsets differ: minimum, 6-bit width, increments;
    nothing present = the all-missing column -/
def intColumnCode (w : Nat) (raws : List (Option Int)) : Option Bits :=
  let present := raws.filterMap id
  match present.min?, present.max? with
  | some lo, some hi =>
    let d := incrWidth (hi - lo).toNat
    if d ≤ 63 then (uintCode w lo).map fun m => m ++ toBits 6 d ++ raws.flatMap (incrCode d lo) else none
  | _, _ => (missingCode w).map (· ++ toBits 6 0)

/-- **the code of one flat position of compressed data**: `vs` = the values of all subsets -/
def colCode (spec : FieldSpec) (vs : List Val) : Option Bits :=
  match vs with
  | [] => none
  | v0 :: _ =>
    if vs.all (· == v0) then
      match spec with
      | .const _ => fieldCode spec v0
      | _ => (fieldCode spec v0).map (· ++ toBits 6 0)
    else
      match spec with
      | .chars k =>
        if 63 < k then none
        else (vs.mapM (fieldCode (.chars k))).map fun fs =>
          bytesToBits (List.replicate k 0) ++ toBits 6 k ++ (if k = 0 then [] else fs.flatten)
      | .newRef _ => none            -- new reference values must be the same in all subsets
      | .const _ => none
      | spec =>
        match widthOf spec, vs.mapM (rawOf spec) with
        | some w, some raws => intColumnCode w (raws.map (onesAsMissing w))
        | _, _ => none

/-! ### the primitives of the flat reading that WRITE THE CODES -/

/-- the values of all subsets at the current position -/
def curCol (s : St) : Option (List Val) := s.vals.mapM (fun l => l[s.idx]?)

/-- uncompressed: the next value's code is appended -/
def emit (dd : DDesc) (spec : FieldSpec) (s : St) : CM St :=
  match s.curVal.bind (fieldCode spec) with
  | none => .error .other
  | some f => .ok (s.afterWrite dd f)

/-- compressed: the code of the next column is appended -/
def emitCol (dd : DDesc) (spec : FieldSpec) (s : St) : CM St :=
  match (curCol s).bind (colCode spec) with
  | none => .error .other
  | some f => .ok (s.afterWrite dd f)

/-- the flat reading with the code-writing primitives, uncompressed.  The replication count is the
    value supplied for the factor, a bitmap is the supplied values of its 031031 run. -/
def canonPrimsU : Prims where
  numeric dd w scale ref := emit dd (.numeric w scale ref)
  string dd k := emit dd (.chars k)
  codeflag dd w := emit dd (.uint w)
  newRefval e w s :=
    match s.curVal with
    | some (.int i) => emit (.plain e) (.newRef w) (setNewRefval s e.id i)
    | _ => .error .other
  constant dd c := emit dd (.const c)
  factorValue := encFactorU
  lastValues := encLastValues

/-- … compressed (the replication count has to be the same in all subsets) -/
def canonPrimsC : Prims where
  numeric dd w scale ref := emitCol dd (.numeric w scale ref)
  string dd k := emitCol dd (.chars k)
  codeflag dd w := emitCol dd (.uint w)
  newRefval e w s :=
    match curCol s with
    | some (.int i :: _) => emitCol (.plain e) (.newRef w) (setNewRefval s e.id i)
    | _ => .error .other
  constant dd c := emitCol dd (.const c)
  factorValue := encFactorC
  lastValues := encLastValuesC

/-! ### the data section -/

/-- the canonical bits of ONE uncompressed subset -/
def canonSubsetBits (T : Tables) (fuel : Nat) (ids : List Nat) (vals : List Val) : Option Bits :=
  match flatWalk canonPrimsU T fuel ids { vals := [vals] } with
  | .ok s => some s.bits.reverse
  | .error _ => none

/-- the canonical bits of compressed data: all subsets at once, column by column -/
def canonCompressedBits (T : Tables) (fuel : Nat) (ids : List Nat) (valss : List (List Val)) : Option Bits :=
  match flatWalk canonPrimsC T fuel ids { vals := valss } with
  | .ok s => some s.bits.reverse
  | .error _ => none

/-- **the canonical data bits** (before the octet padding of section 4) -/
def canonDataBits (T : Tables) (fuel : Nat) (ids : List Nat) (compressed : Bool)
    (valss : List (List Val)) : Option Bits :=
  if compressed then canonCompressedBits T fuel ids valss
  else (valss.mapM (canonSubsetBits T fuel ids)).map List.flatten

/-! ### section padding -/

/-- number of zero bits after `n` bits of section content: up to the next octet boundary; for
    editions up to 3 up to the next EVEN number of octets (FM-94 editions 2 and 3: every section has
    an even number of octets; that is what `Encoder.process_section` does for `edition <= 3`). -/
def sectionPad (edition : Int) (n : Nat) : Nat :=
  if edition ≤ 3 then (16 - n % 16) % 16 else (8 - n % 8) % 8

/-- section 4 as it appears in the message: 3 octets length, 1 reserved octet, the data bits, the
    zero padding -/
def canonSection4 (edition : Int) (reserved : Bits) (dataBits : Bits) : Bits :=
  let n := 24 + reserved.length + dataBits.length
  let pad := sectionPad edition n
  toBits 24 ((n + pad) / 8) ++ reserved ++ dataBits ++ zeros pad

/-! ### vocabulary of the trace statements (`Props/C02Trace.lean`) -/

/-- a field as it was written: what the template says about it, the supplied value, its code -/
structure CodedField where
  spec : FieldSpec
  val : Val
  bits : Bits

/-- a column as it was written (compressed data): the field, the values of all subsets, the column code -/
structure CodedColumn where
  spec : FieldSpec
  vals : List Val
  bits : Bits

end Bufr.Spec
