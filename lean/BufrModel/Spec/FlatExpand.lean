/-
  Specification for C14: expansion of a descriptor list *directly on the flat id list*, by
  explicit counting, without ever building a tree (FM-94 regulations 94.5.4 / 94.5.5 / 94.5.6):

  * a replication descriptor `1XXYYY` owns the next `X` descriptors of the list; when `YYY = 0`
    the class-31 factor comes first and is not counted in `X`;
  * a sequence descriptor `3XXYYY` that is in Table D is replaced by the expansion of its row
    (recursively; `fuel` bounds the nesting of Table D references); one that is in no table
    stays where it is;
  * everything else is copied.

  The machine is a single left-to-right pass over the ids with a stack of counters (one per open
  replication, innermost first; each counter is the number of ids that replication still owns
  and that are not owned by a replication nested in it).  A list is *well counted* when the pass
  never finds a replication that wants more ids than the scope around it still has, never misses
  a factor, and ends with every counter at zero.  On an ill-counted list the specification is
  undefined (`none`) — FM-94 assigns no meaning to it.

  Deliberately different in style from `Basic.Desc.buildD` (recursive `take`/`drop`, tree output).
-/
import BufrModel.Basic.Desc
namespace Bufr.Spec

/-- Account for a group of `k` ids (a descriptor and, for delayed replication, its factor) in the
    innermost open scope and open a new scope of `X` ids inside it.  Exhausted scopes are closed
    on the way.  `none`: the enclosing scope has fewer than `k + X` ids left. -/
def enter (k X : Nat) : List Nat → Option (List Nat)
  | [] => some [X]                       -- top level: the list itself is the (unbounded) scope
  | 0 :: s => enter k X s
  | (c + 1) :: s => if k + X ≤ c + 1 then some (X :: (c + 1 - k - X) :: s) else none

/-- all scopes closed -/
def closed (s : List Nat) : Bool := s.all (· == 0)

/-- The counting pass.  `sub id` is the expansion of the sequence descriptor `id`. -/
def expandWith (sub : Nat → Option (List Nat)) : List Nat → List Nat → Option (List Nat)
  | s, [] => if closed s then some [] else none
  | s, id :: rest =>
    if 300000 ≤ id then
      match sub id, enter 1 0 s with
      | some o, some s' => (expandWith sub s' rest).map (o ++ ·)
      | _, _ => none
    else if 200000 ≤ id then
      match enter 1 0 s with
      | some s' => (expandWith sub s' rest).map (id :: ·)
      | none => none
    else if 100000 ≤ id then
      if id % 1000 = 0 then
        match rest with
        | [] => none                                  -- no factor
        | f :: rest' =>
          match enter 2 (xOf id) s with
          | some s' => (expandWith sub s' rest').map (fun o => id :: f :: o)
          | none => none
      else
        match enter 1 (xOf id) s with
        | some s' => (expandWith sub s' rest).map (id :: ·)
        | none => none
    else
      match enter 1 0 s with
      | some s' => (expandWith sub s' rest).map (id :: ·)
      | none => none

/-- the counting pass alone: every replication finds its `X` ids (and its factor) -/
def wellCountedFrom (s : List Nat) (ids : List Nat) : Bool :=
  (expandWith (fun id => some [id]) s ids).isSome

/-- **Well-countedness of a descriptor list** (a decidable property of the flat list, no tables
    involved): reading left to right, every `1XXYYY` is followed by its factor (if `YYY = 0`) and
    then by `X` more ids, all inside the replication that encloses it. -/
def WellCounted (ids : List Nat) : Bool := wellCountedFrom [] ids

/-- expansion of one sequence descriptor with `fuel` levels of Table D nesting allowed below it -/
def subOf (T : Tables) (expandRow : List Nat → Option (List Nat)) (id : Nat) : Option (List Nat) :=
  match T.d id with
  | none => some [id]            -- in no table: stays (the placeholder keeps the id)
  | some row => expandRow row

/-- **Direct expansion** of a flat id list. `fuel` = depth of Table D nesting that may be opened. -/
def expand (T : Tables) : Nat → List Nat → Option (List Nat)
  | 0, ids => expandWith (subOf T (fun _ => none)) [] ids
  | fuel + 1, ids => expandWith (subOf T (expand T fuel)) [] ids

/-- direct expansion of the Table D row of `id` (`none` also when `id` is not in Table D) -/
def expandRow (T : Tables) (fuel : Nat) (id : Nat) : Option (List Nat) :=
  match T.d id with
  | none => none
  | some row => expand T fuel row

/-! ### count-free expansion

The flat result does not depend on the replication counts at all: copy every id, replace a
defined sequence id by the expansion of its row, and never expand the id that follows a delayed
replication descriptor (its factor).  This is total on every list in which no delayed replication
is the very last id, ill-counted ones included; it is what "a direct expansion of the table file"
means for the few bundled rows whose replication count runs past the end of the row. -/

def looseWith (sub : Nat → Option (List Nat)) : List Nat → Option (List Nat)
  | [] => some []
  | id :: rest =>
    if 300000 ≤ id then
      match sub id, looseWith sub rest with
      | some o, some r => some (o ++ r)
      | _, _ => none
    else if 100000 ≤ id ∧ id < 200000 ∧ id % 1000 = 0 then
      match rest with
      | [] => none
      | f :: rest' => (looseWith sub rest').map (fun r => id :: f :: r)
    else (looseWith sub rest).map (id :: ·)

def loose (T : Tables) : Nat → List Nat → Option (List Nat)
  | 0, ids => looseWith (subOf T (fun _ => none)) ids
  | fuel + 1, ids => looseWith (subOf T (loose T fuel)) ids

/-- **Decidable well-formedness of the Table D entry `id`** for nesting depth `n`: the entry (if any)
    is well counted, and every sequence id in it is again well formed for depth `n - 1`; with
    `n = 0` the id must not be in Table D at all.  `rowOK n id` for some `n` rules out reference
    cycles through `id`.  Evaluated by the driver on every loaded Table D id (`tables-wf`). -/
def rowOK (T : Tables) : Nat → Nat → Bool
  | 0, id => (T.d id).isNone
  | n + 1, id =>
    match T.d id with
    | none => true
    | some row => WellCounted row && row.all (fun m => decide (m < 300000) || rowOK T n m)

/-- nesting depth only (no counting): what `buildD` needs in order not to run out of depth -/
def depthOK (T : Tables) : Nat → Nat → Bool
  | 0, id => (T.d id).isNone
  | n + 1, id =>
    match T.d id with
    | none => true
    | some row => row.all (fun m => decide (m < 300000) || depthOK T n m)

end Bufr.Spec
