/-
  Vocabulary for the element-level statements of C01 / C02 / C03 (no behaviour of its own):
  what a field of `n` bits holding the unsigned integer `raw` means, and the two state
  transformers "one field written" / "one field read" that the primitives of the walk implement.
-/
import BufrModel.Coder.Encode
namespace Bufr

/-- FM-94: a field wider than one bit whose bits are all ones is missing (`none`);
    anything else is the unsigned integer itself. -/
def canonUInt (n raw : Nat) : Option Nat :=
  if 1 < n ∧ raw = 2 ^ n - 1 then none else some raw

/-- `q` is `a / b` rounded to the nearest integer, the even neighbour on a tie (Python 3 `round`),
    stated without division: twice the remainder is at most the divisor. -/
def IsRoundHalfEven (a : Int) (b : Nat) (q : Int) : Prop :=
  (2 * (a - q * (b : Int))).natAbs < b ∨ ((2 * (a - q * (b : Int))).natAbs = b ∧ q % 2 = 0)

/-- Encoder state after the field `f` (bits in stream order) of the pseudo descriptor `dd` has been
    appended and one supplied value has been used up. (`bits` is most recent first.) -/
def St.afterWrite (s : St) (dd : DDesc) (f : Bits) : St :=
  { s with descs := dd :: s.descs, idx := s.idx + 1, bits := f.reverse ++ s.bits }

/-- Decoder state after one field of `dd` has been consumed (`rest` is what is left of the stream)
    and the value `v` has been appended to every subset being decoded. -/
def St.afterRead (s : St) (dd : DDesc) (rest : Bits) (v : Val) : St :=
  { s with descs := dd :: s.descs, bits := rest, vals := s.vals.map (v :: ·) }

/-- the value the encoder is about to use (`values[idx_value]` of the current subset) -/
def St.curVal (s : St) : Option Val := (curVals s)[s.idx]?

/-- Section 3: one descriptor `F XX YYY` on 2 + 6 + 8 bits (`process_unexpanded_descriptors`) -/
def packDescriptor (w : Bits) (id : Nat) : CM Bits := do
  let w ← writeUInt w (fOf id) 2
  let w ← writeUInt w (xOf id) 6
  writeUInt w (yOf id) 8

def unpackDescriptor : R Nat := fun bs => do
  let (f, bs) ← readUInt 2 bs
  let (x, bs) ← readUInt 6 bs
  let (y, bs) ← readUInt 8 bs
  pure (f * 100000 + x * 1000 + y, bs)

/-- the whole list of unexpanded descriptors -/
def packDescriptors (w : Bits) : List Nat → CM Bits
  | [] => .ok w
  | id :: ids => match packDescriptor w id with
    | .error e => .error e
    | .ok w' => packDescriptors w' ids

def unpackDescriptors : Nat → R (List Nat)
  | 0 => fun bs => .ok ([], bs)
  | n + 1 => fun bs => match unpackDescriptor bs with
    | .error e => .error e
    | .ok (id, r) => match unpackDescriptors n r with
      | .error e => .error e
      | .ok (ids, r') => .ok (id :: ids, r')

/-- a descriptor id that FM-94 can express: F on 2 bits, X on 6, Y on 8 -/
def LegalFXY (id : Nat) : Prop := fOf id < 4 ∧ xOf id < 64 ∧ yOf id < 256

instance (id : Nat) : Decidable (LegalFXY id) := by unfold LegalFXY; infer_instance

end Bufr
