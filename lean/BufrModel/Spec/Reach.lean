/-
  Which table entries the expansion of a descriptor list can look at (vocabulary of Props/C01Tables.lean).
-/
import BufrModel.Basic.Desc
namespace Bufr

/-- `Reach T ids id`: `id` occurs in `ids`, or in the Table D row (of `T`) of a sequence id that is itself
    reachable.  (Everything `buildD T _ ids` can ever look up.) -/
inductive Reach (T : Tables) (ids : List Nat) : Nat → Prop
  | here {id : Nat} : id ∈ ids → Reach T ids id
  | member {sid m : Nat} {row : List Nat} :
      Reach T ids sid → 300000 ≤ sid → T.d sid = some row → m ∈ row → Reach T ids m

/-- `T` and `T'` give every reachable id the same Table B entry and every reachable sequence id the same
    Table D row. -/
def AgreeOn (T T' : Tables) (ids : List Nat) : Prop :=
  ∀ id, Reach T ids id → T.b id = T'.b id ∧ (300000 ≤ id → T.d id = T'.d id)

end Bufr
