/-
  Specification vocabulary for C04: what a well-framed section / message is, stated on the produced
  bits alone (declarative; the model in `Msg/Sections.lean` is a writer with back-patching).
-/
import BufrModel.Msg.Sections
namespace Bufr

/-- one section as it appears in an encoded message -/
structure SecFrame where
  index : Nat
  /-- the layout has a `section_length` parameter -/
  hasLen : Bool
  /-- value of the message's `edition` property when the section was closed -/
  edition : Int
  /-- number of bits written by the section's parameters (before padding) -/
  content : Nat
  /-- the value supplied for `section_length`, if the layout has one -/
  declared : Option Int
  bits : Bits

/-- the section's length field is computed from its extent (always, when there is no such field) -/
def SecFrame.recomputed (cfg : EncCfg) (f : SecFrame) : Prop :=
  f.hasLen = false ∨ cfg.ignoreDeclared = true ∨ f.declared = some 0

structure SecFrame.OK (cfg : EncCfg) (f : SecFrame) : Prop where
  /-- whole octets -/
  octets : f.bits.length % 8 = 0
  content_le : f.content ≤ f.bits.length
  /-- everything after the content is zero -/
  pad_zero : f.bits.drop f.content = zeros (f.bits.length - f.content)
  /-- the declared length (first 24 bits) is the real extent in octets -/
  declared_eq : f.hasLen = true → readUInt 24 f.bits = .ok (f.bits.length / 8, f.bits.drop 24)
  /-- recomputed: exactly the padding of `process_section` -/
  minimal : f.recomputed cfg → f.bits.length = f.content + padBits f.edition f.content
  /-- honoured: the extent is the declared one -/
  honoured : f.hasLen = true → cfg.ignoreDeclared = false →
    ∀ d, f.declared = some d → d ≠ 0 → (f.bits.length : Int) = 8 * d

def framesBits (fs : List SecFrame) : Bits := fs.flatMap (·.bits)

def stopSig : List UInt8 := [55, 55, 55, 55]

end Bufr
