/-
  Specification side of C10, written independently of the model's enumerate-and-filter:
  the selected subsets are the *sorted distinct* indices (insertion into a strictly increasing
  list), and the expected encoder input is described parameter by parameter.
-/
import BufrModel.Msg.Subset
namespace Bufr.Subset.Spec

/-- insert into a strictly increasing list, dropping a duplicate -/
def insertDistinct (x : Int) : List Int → List Int
  | [] => [x]
  | y :: ys => if x < y then x :: y :: ys else if x = y then y :: ys else y :: insertDistinct x ys

/-- the distinct selected indices in increasing order -/
def sortedDistinct : List Int → List Int
  | [] => []
  | x :: xs => insertDistinct x (sortedDistinct xs)

variable {α β : Type}

/-- what the encoder input must hold for parameter `p` when `sel` are the selected indices
    (increasing): the rows at those indices for the template data, the number of selected indices
    for `n_subsets`, the parameter's own value otherwise -/
def expectedParam (sel : List Int) (p : Param α β) : PVal α β :=
  if p.isData then
    match p.value with
    | .data rows => .data (sel.map fun j => rows.getD j.toNat [])
    | v => v
  else if p.isNSubsets then .int sel.length
  else p.value

def expected (sel : List Int) (m : Msg α β) : EncoderInput α β :=
  m.map (·.map (expectedParam sel))

end Bufr.Subset.Spec
