/-
  C15: the shape of a path that the grammar can produce ("canonical" paths) — the domain of the
  print/parse round trip.  Part of the statement of the property theorems.
-/
import BufrModel.Spec.PathGrammar
namespace Bufr.PathLang

/-- A single non-negative index, or any `slice(a, b, c)`. -/
def Slice.Canonical : Slice → Prop
  | .idx i => 0 ≤ i
  | .range _ _ _ => True

/-- a descriptor id: non-empty, no whitespace, none of `@[]:/.>` -/
def idOk (i : List Char) : Prop := i ≠ [] ∧ ∀ c ∈ i, Spec.isSpecial c = false ∧ isWs c = false

/-- A path as the grammar can produce it. -/
def Path.Canonical (p : Path) : Prop :=
  (∃ s, p.subset = some s ∧ s.Canonical) ∧ p.comps ≠ [] ∧
  (∀ c ∈ p.comps, isSep c.sep = true ∧ idOk c.id ∧ c.slice.Canonical) ∧
  (∀ c, p.comps.head? = some c → c.sep ≠ '.')

end Bufr.PathLang
