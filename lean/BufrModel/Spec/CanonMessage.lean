/-
  The CANONICAL whole message (specification of C02, message level): sections 0-5 laid out per the
  section definitions (`Gen/Layouts.lean`, regenerated from /repo on every run), written declaratively:

    * `paramCode`      — the bits of one section parameter (unsigned / sign-magnitude integers in binary
                         on the declared width, flags, bit strings, octet strings blank-padded or cut to
                         the width, the descriptor list as F/X/Y on 2/6/8 bits, the template data = the data bits);
    * `sectionContent` — the concatenation of the parameter codes in layout order;
    * `canonSection`   — content, zero padding to the octet boundary (to an even number of octets for
                         editions up to 3), and — when the layout has a `section_length` — the first three
                         octets holding the number of octets of the section;
    * `canonMessageBits` — section 0 … section 5 in order (section 2 only when supplied), with the total
                         number of octets in octets 5-7.

  No writer, no back-patching, no registry: plain functions into `Option Bits` (`none` = some value has
  no code: an integer that does not fit its width, a value of the wrong kind, a descriptor that is not
  F < 4 / X < 64 / Y < 256, a length that does not fit 24 bits).
-/
import BufrModel.Spec.CanonBits
import BufrModel.Msg.Sections
import BufrModel.Gen.Layouts
namespace Bufr.Spec
open Bufr

/-- one descriptor `F XX YYY` on 2 + 6 + 8 bits -/
def descCode (id : Nat) : Option Bits :=
  if fOf id < 4 ∧ xOf id < 64 ∧ yOf id < 256 then
    some (toBits 2 (fOf id) ++ toBits 6 (xOf id) ++ toBits 8 (yOf id))
  else none

/-- sign bit and magnitude -/
def intCode (w : Nat) (x : Int) : Option Bits :=
  if 1 < w ∧ x.natAbs < 2 ^ (w - 1) then some (decide (x < 0) :: toBits (w - 1) x.natAbs) else none

/-- the bits of one section parameter -/
def paramCode (dataBits : Bits) (p : Param) (v : PVal) : Option Bits :=
  match p.ty, v with
  | .descriptors, .descs ids => (ids.mapM descCode).map List.flatten
  | .templateData, _ => some dataBits
  | .uint, .int x => uintCode p.nbits x
  | .int, .int x => intCode p.nbits x
  | .bool, .bool b => some [b]
  | .bin, .bin bs => some bs
  | .bytes, .bytes b => some (bytesToBits (padBytes b (p.nbits / 8)))
  | _, _ => none

/-- the parameters of a section in layout order (one value per parameter) -/
def sectionContent (dataBits : Bits) : List Param → List PVal → Option Bits
  | [], [] => some []
  | p :: ps, v :: vs =>
    match paramCode dataBits p v, sectionContent dataBits ps vs with
    | some c, some r => some (c ++ r)
    | _, _ => none
  | _, _ => none

/-- a section as it appears in the message -/
def canonSection (edition : Int) (s : SectionLayout) (vs : List PVal) (dataBits : Bits) : Option Bits :=
  (sectionContent dataBits s.params vs).bind fun c =>
    let body := c ++ zeros (sectionPad edition c.length)
    if s.hasParam "section_length" then
      if body.length / 8 < 2 ^ 24 then some (toBits 24 (body.length / 8) ++ body.drop 24) else none
    else some body

/-- the whole message of edition `ed`: the value lists of sections 0, 1, (2), 3, 4, 5 and the data bits -/
def canonMessageBits (ed : Nat) (s0 s1 : List PVal) (s2 : Option (List PVal)) (s3 s4 s5 : List PVal)
    (dataBits : Bits) : Option Bits :=
  let sec (i : Nat) (vs : List PVal) : Option Bits :=
    (Gen.layouts.get i ed).bind fun l => canonSection ed l vs dataBits
  match sec 0 s0, sec 1 s1, (match s2 with | none => some [] | some v2 => sec 2 v2), sec 3 s3, sec 4 s4, sec 5 s5 with
  | some b0, some b1, some b2, some b3, some b4, some b5 =>
    let rest := b1 ++ b2 ++ b3 ++ b4 ++ b5
    let n := b0.length + rest.length
    if n % 8 = 0 ∧ n / 8 < 2 ^ 24 then some (b0.take 32 ++ toBits 24 (n / 8) ++ b0.drop 56 ++ rest) else none
  | _, _, _, _, _, _ => none

/-- position of `is_section2_presents` among the values of section 1 -/
def sec2FlagIndex (ed : Nat) : Nat := if ed = 2 then 4 else 5

end Bufr.Spec
