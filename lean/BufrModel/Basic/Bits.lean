/-
  Model of `pybufrkit/bitops.py` (+ `constants.NUMERIC_MISSING_VALUES`).

  A bit stream is a `List Bool`, most significant bit first.  The writer is modelled as the
  list written so far (its position is the length); the reader consumes from the front (its
  position is the number of bits consumed).  The `bitstring` package is not modelled, only
  the observable behaviour of the operations pybufrkit uses from it:
    * `'uint:n=v'` refuses `n = 0`, `v < 0` and `v ≥ 2^n`     (ValueError  -> `Err.other`)
    * reading `n` bits with fewer left raises `bitstring.ReadError` which bitops wraps into
      `BitReadError`                                           (-> `Err.bitRead`)
    * reading a zero-width integer is a ValueError             (-> `Err.other`)
-/
namespace Bufr

abbrev Bits := List Bool

/-- Error families (DESIGN 3.4).  Everything that is not a `PyBufrKitError` is `other`. -/
inductive Err where
  | bitRead | unknownDescr | path | mdExpr | query | lib | other
  deriving DecidableEq, Repr, Inhabited

instance {ε α : Type} [DecidableEq ε] [DecidableEq α] : DecidableEq (Except ε α)
  | .ok a, .ok b => if h : a = b then isTrue (by rw [h]) else isFalse (fun h' => h (by cases h'; rfl))
  | .error a, .error b => if h : a = b then isTrue (by rw [h]) else isFalse (fun h' => h (by cases h'; rfl))
  | .ok _, .error _ => isFalse (fun h => by cases h)
  | .error _, .ok _ => isFalse (fun h => by cases h)

def Err.isLib : Err → Bool
  | .other => false
  | _ => true

def Err.tag : Err → String
  | .bitRead => "lib:bitread" | .unknownDescr => "lib:unknown-descriptor" | .path => "lib:path"
  | .mdExpr => "lib:mdexpr" | .query => "lib:query" | .lib => "lib" | .other => "other"

/-- Value of a bit list, MSB first. -/
def ofBits : Bits → Nat
  | [] => 0
  | b :: bs => b.toNat * 2 ^ bs.length + ofBits bs

/-- The low `n` bits of `v`, MSB first. -/
def toBits : Nat → Nat → Bits
  | 0, _ => []
  | n + 1, v => (v / 2 ^ n % 2 == 1) :: toBits n v

def ones (n : Nat) : Bits := List.replicate n true
def zeros (n : Nat) : Bits := List.replicate n false

/-! ### Writer -/

def writeUInt (w : Bits) (v : Int) (n : Nat) : Except Err Bits :=
  if n = 0 then .error .other
  else if v < 0 then .error .other
  else if 2 ^ n ≤ v.toNat then .error .other
  else .ok (w ++ toBits n v.toNat)

def writeBool (w : Bits) (b : Bool) : Bits := w ++ [b]

/-- `write_int`: sign bit, then magnitude on `n - 1` bits. -/
def writeInt (w : Bits) (v : Int) (n : Nat) : Except Err Bits :=
  writeUInt (writeBool w (decide (v < 0))) (Int.ofNat v.natAbs) (n - 1)

def writeBin (w : Bits) (bs : Bits) : Bits := w ++ bs

def byteBits (b : UInt8) : Bits := toBits 8 b.toNat
def bytesToBits (bs : List UInt8) : Bits := bs.flatMap byteBits

/-- `write_bytes` with a width: truncate or pad with blanks. -/
def padBytes (b : List UInt8) (k : Nat) : List UInt8 :=
  (b ++ List.replicate (k - b.length) 0x20).take k

def writeBytes (w : Bits) (b : List UInt8) (k : Option Nat) : Bits :=
  match k with
  | none => w ++ bytesToBits b
  | some k => w ++ bytesToBits (padBytes b k)

def skip (w : Bits) (n : Nat) : Except Err Bits :=
  if n = 0 then .error .other else .ok (w ++ zeros n)

/-- `set_uint(value, nbits, bitpos)`: in-place overwrite of `nbits` bits at `bitpos`. -/
def setUInt (w : Bits) (v : Nat) (n pos : Nat) : Except Err Bits :=
  if n = 0 then .error .other
  else if 2 ^ n ≤ v then .error .other
  else .ok (w.take pos ++ toBits n v ++ w.drop (pos + n))

/-- `set_uint` as it is called from Python: the value is an arbitrary integer; a negative one is refused
    (`bitstring` cannot make an unsigned field of it), never stored as its two's complement. -/
def setUIntZ (w : Bits) (v : Int) (n pos : Nat) : Except Err Bits :=
  if v < 0 then .error .other else setUInt w v.toNat n pos

/-! ### Reader (consume style) -/

abbrev R (α : Type) := Bits → Except Err (α × Bits)

def readBits (n : Nat) : R Bits := fun bs =>
  if bs.length < n then .error .bitRead else .ok (bs.take n, bs.drop n)

/-! compiled-code replacement for `readBits` (which tests `bs.length < n`, walking the whole remaining
    stream on every read); `@[csimp]` requires the proof of equality given here -/
def splitExact : Nat → Bits → Option (Bits × Bits)
  | 0, bs => some ([], bs)
  | _ + 1, [] => none
  | n + 1, b :: bs => match splitExact n bs with
    | none => none
    | some (x, r) => some (b :: x, r)

def readBitsFast (n : Nat) : R Bits := fun bs =>
  match splitExact n bs with
  | none => .error .bitRead
  | some p => .ok p

theorem splitExact_eq (n : Nat) (bs : Bits) :
    splitExact n bs = if bs.length < n then none else some (bs.take n, bs.drop n) := by
  induction n generalizing bs with
  | zero => simp [splitExact]
  | succ n ih =>
    cases bs with
    | nil => simp [splitExact]
    | cons b bs =>
      simp only [splitExact, ih, List.length_cons, List.take_succ_cons, List.drop_succ_cons]
      by_cases h : bs.length < n
      · simp [h]
      · simp [h]

@[csimp] theorem readBits_eq_fast : @readBits = @readBitsFast := by
  funext n bs
  simp only [readBits, readBitsFast, splitExact_eq]
  by_cases h : bs.length < n <;> simp [h]

def readUInt (n : Nat) : R Nat := fun bs =>
  if n = 0 then .error .other
  else match readBits n bs with
    | .error e => .error e
    | .ok (x, r) => .ok (ofBits x, r)

def readBool : R Bool := fun bs =>
  match bs with
  | [] => .error .bitRead
  | b :: r => .ok (b, r)

def readInt (n : Nat) : R Int := fun bs =>
  if n = 0 then .error .other
  else match readBool bs with
    | .error e => .error e
    | .ok (s, r) => match readUInt (n - 1) r with
      | .error e => .error e
      | .ok (m, r') => .ok ((if s then -(Int.ofNat m) else Int.ofNat m), r')

def readBin (n : Nat) : R Bits := readBits n

def bitsToBytes : Bits → List UInt8
  | b0 :: b1 :: b2 :: b3 :: b4 :: b5 :: b6 :: b7 :: rest =>
      UInt8.ofNat (ofBits [b0, b1, b2, b3, b4, b5, b6, b7]) :: bitsToBytes rest
  | _ => []

def readBytes (k : Nat) : R (List UInt8) := fun bs =>
  match readBits (8 * k) bs with
  | .error e => .error e
  | .ok (x, r) => .ok (bitsToBytes x, r)

/-- `read_uint_or_none`: all ones is missing for widths above 1; the table of missing values
    has 65 entries, so widths above 64 raise IndexError. -/
def readUIntOrNone (n : Nat) : R (Option Nat) := fun bs =>
  match readUInt n bs with
  | .error e => .error e
  | .ok (v, r) =>
    if 64 < n then .error .other
    else if 1 < n ∧ v = 2 ^ n - 1 then .ok (none, r) else .ok (some v, r)

/-! ### Reader combinators -/

namespace R
def pure {α : Type} (a : α) : R α := fun bs => .ok (a, bs)
def fail {α : Type} (e : Err) : R α := fun _ => .error e
def bind {α β : Type} (f : R α) (g : α → R β) : R β := fun bs =>
  match f bs with
  | .error e => .error e
  | .ok (a, r) => g a r
def map {α β : Type} (h : α → β) (f : R α) : R β := bind f fun a => pure (h a)
def lift {α : Type} : Except Err α → R α
  | .ok a => pure a
  | .error e => fail e
/-- run `f` and also return the number of bits it consumed -/
def counted {α : Type} (f : R α) : R (α × Nat) := fun bs =>
  match f bs with
  | .error e => .error e
  | .ok (a, r) => .ok ((a, bs.length - r.length), r)
end R

/-! ### Typed field programs (the objects C19 quantifies over) -/

inductive Field where
  | uint (n : Nat) (v : Nat)
  | int (n : Nat) (v : Int)
  | bool (b : Bool)
  | bin (bs : Bits)
  | bytes (k : Nat) (b : List UInt8)
  deriving Repr, DecidableEq

inductive FSpec where
  | uint (n : Nat) | int (n : Nat) | bool | bin (n : Nat) | bytes (k : Nat)
  deriving Repr, DecidableEq

inductive FVal where
  | nat (v : Nat) | int (v : Int) | bool (b : Bool) | bin (bs : Bits) | bytes (b : List UInt8)
  deriving Repr, DecidableEq

def Field.Valid : Field → Prop
  | .uint n v => 0 < n ∧ v < 2 ^ n
  | .int n v => 1 < n ∧ v.natAbs < 2 ^ (n - 1)
  | _ => True

instance (f : Field) : Decidable f.Valid := by
  cases f <;> simp only [Field.Valid] <;> infer_instance

def Field.width : Field → Nat
  | .uint n _ => n | .int n _ => n | .bool _ => 1 | .bin bs => bs.length | .bytes k _ => 8 * k

def Field.spec : Field → FSpec
  | .uint n _ => .uint n | .int n _ => .int n | .bool _ => .bool
  | .bin bs => .bin bs.length | .bytes k _ => .bytes k

/-- What reading the field back is expected to return. -/
def Field.canon : Field → FVal
  | .uint _ v => .nat v | .int _ v => .int v | .bool b => .bool b | .bin bs => .bin bs
  | .bytes k b => .bytes (padBytes b k)

def writeField (w : Bits) : Field → Except Err Bits
  | .uint n v => writeUInt w (Int.ofNat v) n
  | .int n v => writeInt w v n
  | .bool b => .ok (writeBool w b)
  | .bin bs => .ok (writeBin w bs)
  | .bytes k b => .ok (writeBytes w b (some k))

def writeFields (w : Bits) : List Field → Except Err Bits
  | [] => .ok w
  | f :: fs => match writeField w f with
    | .error e => .error e
    | .ok w' => writeFields w' fs

def readField : FSpec → R FVal
  | .uint n => fun bs => (readUInt n bs).map fun (v, r) => (.nat v, r)
  | .int n => fun bs => (readInt n bs).map fun (v, r) => (.int v, r)
  | .bool => fun bs => (readBool bs).map fun (v, r) => (.bool v, r)
  | .bin n => fun bs => (readBin n bs).map fun (v, r) => (.bin v, r)
  | .bytes k => fun bs => (readBytes k bs).map fun (v, r) => (.bytes v, r)

def readFields : List FSpec → R (List FVal)
  | [] => fun bs => .ok ([], bs)
  | s :: ss => fun bs => match readField s bs with
    | .error e => .error e
    | .ok (v, r) => match readFields ss r with
      | .error e => .error e
      | .ok (vs, r') => .ok (v :: vs, r')

end Bufr
